(** Proofs about the keystore write protocol (C08; reused by C17). *)
From Acra Require Import Lib.Bytes Lib.Outcome Gen.KswConsts Model.KeystoreWrite.
Local Open Scope Z_scope.

(** * Storage algebra *)
Lemma fname_eqb_eq a b : fname_eqb a b = true <-> a = b.
Proof.
  destruct a, b; cbn; split; intro H; try discriminate; try congruence;
    try (apply N.eqb_eq in H; congruence);
    try (apply andb_true_iff in H as [H1 H2]; apply N.eqb_eq in H1; apply N.eqb_eq in H2; congruence);
    try (inversion H; subst; rewrite ?N.eqb_refl; reflexivity).
Qed.

Lemma fname_eqb_refl a : fname_eqb a a = true.
Proof. apply fname_eqb_eq. reflexivity. Qed.

Lemma fname_eqb_sym a b : fname_eqb a b = fname_eqb b a.
Proof.
  destruct (fname_eqb a b) eqn:E1, (fname_eqb b a) eqn:E2; try reflexivity.
  - apply fname_eqb_eq in E1. subst. rewrite fname_eqb_refl in E2. discriminate.
  - apply fname_eqb_eq in E2. subst. rewrite fname_eqb_refl in E1. discriminate.
Qed.

Lemma lookup_remove n m st :
  lookup n (remove m st) = if fname_eqb n m then None else lookup n st.
Proof.
  induction st as [|[x c] st IH]; cbn [remove lookup].
  - destruct (fname_eqb n m); reflexivity.
  - destruct (fname_eqb m x) eqn:Emx.
    + rewrite IH. apply fname_eqb_eq in Emx. subst x.
      destruct (fname_eqb n m); reflexivity.
    + cbn [lookup]. rewrite IH.
      destruct (fname_eqb n x) eqn:Enx; [|reflexivity].
      apply fname_eqb_eq in Enx. subst x.
      rewrite fname_eqb_sym in Emx. rewrite Emx. reflexivity.
Qed.

Lemma lookup_put n m c st :
  lookup n (put m c st) = if fname_eqb n m then Some c else lookup n st.
Proof.
  unfold put. cbn [lookup]. rewrite lookup_remove.
  destruct (fname_eqb n m); reflexivity.
Qed.

(** * Faults: a storage invariant kept by every call of a program, whatever results the
      calls return and wherever a (torn) write is cut, holds after every faulted execution *)
Fixpoint safeq {A} (I : storage -> Prop) (Q : A -> storage -> Prop) (p : prog A) (st : storage) : Prop :=
  match p with
  | Done a => Q a st
  | Call c k =>
      I (snd (do_call c st)) /\ I (torn_call c st) /\
      safeq I Q (k (fst (do_call c st))) (snd (do_call c st)) /\
      safeq I Q (k (Err E_IO)) st /\
      safeq I Q (k (Err E_IO)) (torn_call c st)
  end.

Definition after {A} (m : mres A) : storage :=
  match m with Ret _ st _ => st | Crash st => st end.

Lemma exec_safeq {A} (I : storage -> Prop) (Q : A -> storage -> Prop) (p : prog A) :
  forall f st k, I st -> safeq I Q p st ->
    match exec p f st k with
    | Ret a st' _ => I st' /\ Q a st'
    | Crash st' => I st'
    end.
Proof.
  induction p as [a|c cont IH]; intros f st k HI Hs; cbn [exec].
  - split; assumption.
  - cbn [safeq] in Hs. destruct Hs as (H1 & H2 & H3 & H4 & H5).
    destruct f as [[kf kind]|].
    + destruct (Nat.eqb k kf).
      * destruct kind; try (apply IH; assumption); assumption.
      * apply IH; assumption.
    + apply IH; assumption.
Qed.

Lemma exec_safe {A} (I : storage -> Prop) (Q : A -> storage -> Prop) (p : prog A) f st k :
  I st -> safeq I Q p st -> I (after (exec p f st k)).
Proof.
  intros HI Hs. pose proof (exec_safeq I Q p f st k HI Hs) as H.
  destruct (exec p f st k); cbn [after]; tauto.
Qed.

Lemma safeq_bind {A B} (I : storage -> Prop) (Q : A -> storage -> Prop) (Q' : B -> storage -> Prop)
      (p : prog A) (g : A -> prog B) :
  forall st,
    I st -> safeq I Q p st ->
    (forall a st', I st' -> Q a st' -> safeq I Q' (g a) st') ->
    safeq I Q' (pbind p g) st.
Proof.
  induction p as [a|c cont IH]; intros st HI Hp Hg; cbn [pbind safeq].
  - apply Hg; assumption.
  - cbn [safeq] in Hp. destruct Hp as (H1 & H2 & H3 & H4 & H5).
    repeat split; auto.
Qed.

Lemma safeq_weaken {A} (I : storage -> Prop) (Q Q' : A -> storage -> Prop) (p : prog A) :
  forall st, (forall a st', Q a st' -> Q' a st') -> safeq I Q p st -> safeq I Q' p st.
Proof.
  induction p as [a|c cont IH]; intros st HQ Hp; cbn [safeq] in *.
  - apply HQ. exact Hp.
  - destruct Hp as (H1 & H2 & H3 & H4 & H5). repeat split; auto.
Qed.

Lemma exec_pbind {A B} (p : prog A) (g : A -> prog B) :
  forall f st k,
    exec (pbind p g) f st k =
    match exec p f st k with
    | Ret a st' k' => exec (g a) f st' k'
    | Crash st' => Crash st'
    end.
Proof.
  induction p as [a|c cont IH]; intros f st k; cbn [pbind exec].
  - reflexivity.
  - destruct f as [[kf kind]|].
    + destruct (Nat.eqb k kf).
      * destruct kind; try reflexivity; apply IH.
      * apply IH.
    + apply IH.
Qed.

(** * Key rings: seqnums are FIRST, FIRST+1, ... *)
Definition seqs (r : ring) : list Z := map k_seq (r_keys r).

Fixpoint iota (a : Z) (n : nat) : list Z :=
  match n with O => [] | S n' => a :: iota (a + 1) n' end.

Lemma iota_snoc n : forall a, iota a (S n) = iota a n ++ [a + Z.of_nat n].
Proof.
  induction n as [|n IH]; intro a.
  - cbn. f_equal. lia.
  - change (iota a (S (S n))) with (a :: iota (a + 1) (S n)).
    rewrite IH. cbn [iota app]. do 3 f_equal. lia.
Qed.

Lemma in_iota n : forall a s, In s (iota a n) <-> a <= s < a + Z.of_nat n.
Proof.
  induction n as [|n IH]; intros a s; cbn [iota In].
  - split; [tauto | lia].
  - rewrite IH. lia.
Qed.

Fixpoint incr (l : list Z) : Prop :=
  match l with
  | [] => True
  | x :: t => Forall (fun y => x < y) t /\ incr t
  end.

Lemma iota_incr n : forall a, incr (iota a n).
Proof.
  induction n as [|n IH]; intro a; cbn [iota incr]; [exact I|].
  split; [|apply IH].
  apply Forall_forall. intros y Hy. apply in_iota in Hy. lia.
Qed.

Definition contiguous (r : ring) : Prop := seqs r = iota KSW_FIRST_SEQNUM (length (r_keys r)).
Definition cur_ok (r : ring) : Prop :=
  r_cur r = KSW_NO_KEY \/ exists k, key_with_seqnum r (r_cur r) = Some k.
Definition ring_ok (r : ring) : Prop := contiguous r /\ cur_ok r.

Lemma find_key_rev_none l s : find_key_rev l s = None <-> ~ In s (map k_seq l).
Proof.
  induction l as [|k l IH]; cbn [find_key_rev map In].
  - tauto.
  - destruct (Z.eqb_spec (k_seq k) s) as [E|E].
    + split; [discriminate | intro H; exfalso; apply H; left; exact E].
    + rewrite IH. tauto.
Qed.

Lemma key_none r s : key_with_seqnum r s = None <-> ~ In s (seqs r).
Proof.
  unfold key_with_seqnum, seqs. rewrite find_key_rev_none, map_rev.
  split; intros H Hin; apply H; [apply in_rev in Hin; exact Hin | apply in_rev; exact Hin].
Qed.

Lemma key_some_iff r s : (exists k, key_with_seqnum r s = Some k) <-> In s (seqs r).
Proof.
  destruct (key_with_seqnum r s) eqn:E.
  - split; [intros _|eauto].
    destruct (in_dec Z.eq_dec s (seqs r)) as [Hin|Hn]; [exact Hin|].
    apply key_none in Hn. congruence.
  - apply key_none in E. split; [intros [k Hk]; discriminate | tauto].
Qed.

Lemma find_key_rev_app a b s :
  find_key_rev (a ++ b) s = match find_key_rev a s with Some k => Some k | None => find_key_rev b s end.
Proof.
  induction a as [|k a IH]; cbn [app find_key_rev]; [reflexivity|].
  destruct (Z.eqb (k_seq k) s); [reflexivity | exact IH].
Qed.

Lemma rev_case {A} (l : list A) : l = [] \/ exists l' x, l = l' ++ [x].
Proof.
  induction l as [|x l IH] using rev_ind; [left; reflexivity | right; eauto].
Qed.

Lemma next_seqnum_contiguous r :
  contiguous r -> next_seqnum r = KSW_FIRST_SEQNUM + Z.of_nat (length (r_keys r)).
Proof.
  unfold contiguous, next_seqnum, seqs. destruct r as [keys cur]. cbn [r_keys].
  destruct (rev_case keys) as [E|[l [k E]]]; subst keys.
  - cbn. lia.
  - intro H. rewrite rev_app_distr. cbn [rev app].
    rewrite map_app, app_length in H. cbn [map length] in H.
    replace (length l + 1)%nat with (S (length l)) in H by lia.
    rewrite iota_snoc in H. apply app_inj_tail in H as [_ H].
    rewrite app_length. cbn [length]. rewrite H. lia.
Qed.

(** * Transactions keep key rings well formed *)
Definition pres (f : kent -> kent) : Prop := forall k, k_seq (f k) = k_seq k.

Lemma upd_last_seqs ks s f : pres f -> map k_seq (fst (upd_last ks s f)) = map k_seq ks.
Proof.
  intro Hf. induction ks as [|k ks IH]; cbn [upd_last]; [reflexivity|].
  destruct (upd_last ks s f) as [t d]. cbn [fst] in IH.
  destruct d; [cbn [fst map]; congruence|].
  destruct (Z.eqb (k_seq k) s); cbn [fst map]; rewrite ?Hf; congruence.
Qed.

Lemma upd_key_seqs r s f : pres f -> seqs (upd_key r s f) = seqs r.
Proof. intro Hf. unfold seqs, upd_key. cbn [r_keys]. apply upd_last_seqs. exact Hf. Qed.

Lemma upd_key_length r s f : pres f -> length (r_keys (upd_key r s f)) = length (r_keys r).
Proof.
  intro Hf. pose proof (upd_key_seqs r s f Hf) as H. unfold seqs in H.
  rewrite <- (map_length k_seq), H, map_length. reflexivity.
Qed.

Lemma find_single k s' : k_seq k <> s' -> find_key_rev [k] s' = None.
Proof. intro H. cbn. destruct (Z.eqb_spec (k_seq k) s'); [contradiction|reflexivity]. Qed.

Lemma upd_last_find_other ks s f s' :
  pres f -> s' <> s ->
  find_key_rev (rev (fst (upd_last ks s f))) s' = find_key_rev (rev ks) s'.
Proof.
  intros Hf Hne. induction ks as [|k ks IH]; cbn [upd_last]; [reflexivity|].
  destruct (upd_last ks s f) as [t d]. cbn [fst] in IH.
  destruct d.
  - cbn [fst rev]. rewrite !find_key_rev_app, IH. reflexivity.
  - destruct (Z.eqb_spec (k_seq k) s) as [E|E]; cbn [fst rev]; rewrite !find_key_rev_app, IH.
    + rewrite !find_single by (rewrite ?Hf; congruence). reflexivity.
    + reflexivity.
Qed.

Lemma upd_key_other r s f s' :
  pres f -> s' <> s -> key_with_seqnum (upd_key r s f) s' = key_with_seqnum r s'.
Proof. intros Hf Hne. unfold key_with_seqnum, upd_key. cbn [r_keys]. apply upd_last_find_other; assumption. Qed.

Lemma key_app_other r k s' :
  k_seq k <> s' ->
  key_with_seqnum (mk_ring (r_keys r ++ [k]) (r_cur r)) s' = key_with_seqnum r s'.
Proof.
  intro Hne. unfold key_with_seqnum. cbn [r_keys]. rewrite rev_app_distr. cbn [rev app find_key_rev].
  destruct (Z.eqb_spec (k_seq k) s'); [contradiction|reflexivity].
Qed.

Definition add_pre (n : nat) (t : tx) : Prop :=
  match t with
  | TxAddKey k => KSW_FIRST_SEQNUM <= k_seq k <= KSW_FIRST_SEQNUM + Z.of_nat n
  | _ => True
  end.

Lemma add_pre_mono n m t : (n <= m)%nat -> add_pre n t -> add_pre m t.
Proof. intros Hnm. destruct t; cbn [add_pre]; auto. intros [H1 H2]. split; [exact H1|]. lia. Qed.

Lemma cur_ok_seqs r r' :
  seqs r' = seqs r -> r_cur r' = r_cur r -> cur_ok r -> cur_ok r'.
Proof.
  intros Hs Hc [H|H]; [left; congruence|right].
  rewrite Hc. apply key_some_iff. rewrite Hs. apply key_some_iff. exact H.
Qed.

Lemma contiguous_seqs r r' :
  seqs r' = seqs r -> length (r_keys r') = length (r_keys r) -> contiguous r -> contiguous r'.
Proof. unfold contiguous. intros Hs Hl H. rewrite Hs, Hl. exact H. Qed.

Definition st_pres1 : pres (fun k => mk_kent (k_seq k) 0%N (k_ord k)) := fun k => eq_refl.

(** what a successful Apply does to the ring *)
Lemma apply_tx_ok r t r' t' :
  ring_ok r -> add_pre (length (r_keys r)) t -> apply_tx r t = Ok (r', t') ->
  ring_ok r' /\ (exists ext, seqs r' = seqs r ++ ext) /\
  (length (r_keys r) <= length (r_keys r'))%nat.
Proof.
  intros [Hc Hcur] Hpre H. destruct t as [old new|s old new|k|s b]; cbn [apply_tx] in H.
  - destruct (negb (r_cur r =? old)); [discriminate|].
    destruct (negb (old =? KSW_NO_KEY) && _); [discriminate|].
    destruct (key_with_seqnum r new) as [kn|] eqn:En; [|discriminate].
    inversion H; subst r' t'; clear H. split; [split|split].
    + exact Hc.
    + right. cbn [r_cur]. exists kn. exact En.
    + exists []. rewrite app_nil_r. reflexivity.
    + cbn. lia.
  - destruct (key_with_seqnum r s) as [k|] eqn:Ek; [|discriminate].
    destruct (negb (k_state k =? old)%N); [discriminate|].
    inversion H; subst r' t'; clear H.
    assert (Hp : pres (fun k0 => mk_kent (k_seq k0) new (k_ord k0))) by (intro; reflexivity).
    split; [split|split].
    + eapply contiguous_seqs; [apply upd_key_seqs, Hp | apply upd_key_length, Hp | exact Hc].
    + eapply cur_ok_seqs; [apply upd_key_seqs, Hp | reflexivity | exact Hcur].
    + exists []. rewrite app_nil_r. apply upd_key_seqs, Hp.
    + rewrite upd_key_length by exact Hp. lia.
  - destruct (key_with_seqnum r (k_seq k)) as [k0|] eqn:Ek; [discriminate|].
    inversion H; subst r' t'; clear H.
    apply key_none in Ek. cbn [add_pre] in Hpre.
    assert (Hs : k_seq k = KSW_FIRST_SEQNUM + Z.of_nat (length (r_keys r))).
    { unfold contiguous in Hc. rewrite Hc in Ek. rewrite in_iota in Ek. lia. }
    split; [split|split].
    + unfold contiguous, seqs in *. cbn [r_keys]. rewrite map_app, app_length. cbn [map length].
      replace (length (r_keys r) + 1)%nat with (S (length (r_keys r))) by lia.
      rewrite iota_snoc, Hc, Hs. reflexivity.
    + destruct Hcur as [Hn|[kc Hk]]; [left; exact Hn|right]. cbn [r_cur].
      apply key_some_iff. unfold seqs. cbn [r_keys]. rewrite map_app. apply in_or_app. left.
      apply key_some_iff. eauto.
    + exists [k_seq k]. unfold seqs. cbn [r_keys]. rewrite map_app. reflexivity.
    + cbn [r_keys]. rewrite app_length. lia.
  - destruct (key_with_seqnum r s) as [k|] eqn:Ek; [|discriminate].
    inversion H; subst r' t'; clear H.
    assert (Hp : pres (fun k0 => mk_kent (k_seq k0) (k_state k0) 0%N)) by (intro; reflexivity).
    split; [split|split].
    + eapply contiguous_seqs; [apply upd_key_seqs, Hp | apply upd_key_length, Hp | exact Hc].
    + eapply cur_ok_seqs; [apply upd_key_seqs, Hp | reflexivity | exact Hcur].
    + exists []. rewrite app_nil_r. apply upd_key_seqs, Hp.
    + rewrite upd_key_length by exact Hp. lia.
Qed.

(** the key a transaction writes; every other readable key keeps its value *)
Definition tx_target (t : tx) : option Z :=
  match t with
  | TxSetCurrent _ _ => None
  | TxChangeState s _ _ => Some s
  | TxAddKey k => None
  | TxDestroyData s _ => Some s
  end.

Lemma apply_tx_values r t r' t' s v :
  apply_tx r t = Ok (r', t') -> tx_target t <> Some s ->
  key_value r s = Ok v -> key_value r' s = Ok v.
Proof.
  intros H Ht Hv. unfold key_value in *.
  destruct t as [old new|s0 old new|k|s0 b]; cbn [apply_tx tx_target] in *.
  - destruct (negb (r_cur r =? old)); [discriminate|].
    destruct (negb (old =? KSW_NO_KEY) && _); [discriminate|].
    destruct (key_with_seqnum r new); [|discriminate].
    inversion H; subst. exact Hv.
  - destruct (key_with_seqnum r s0) as [k|]; [|discriminate].
    destruct (negb (k_state k =? old)%N); [discriminate|].
    inversion H; subst. rewrite upd_key_other; [exact Hv | intro; reflexivity | congruence].
  - destruct (key_with_seqnum r (k_seq k)) eqn:Ek; [discriminate|].
    inversion H; subst. rewrite key_app_other; [exact Hv|].
    intro E. rewrite E in Ek. rewrite Ek in Hv. discriminate.
  - destruct (key_with_seqnum r s0) as [k|]; [|discriminate].
    inversion H; subst. rewrite upd_key_other; [exact Hv | intro; reflexivity | congruence].
Qed.

Lemma apply_pending_ok : forall log r ap r' log' ap',
  ring_ok r -> Forall (add_pre (length (r_keys r))) log ->
  apply_pending r ap log = (r', log', ap', None) ->
  ring_ok r' /\ (exists ext, seqs r' = seqs r ++ ext) /\
  (forall s v, (forall t, In t log -> tx_target t <> Some s) -> key_value r s = Ok v -> key_value r' s = Ok v).
Proof.
  induction log as [|t log IH]; intros r ap r' log' ap' Hok Hpre H; cbn [apply_pending] in H.
  - inversion H; subst. split; [exact Hok|]. split; [exists []; rewrite app_nil_r; reflexivity|].
    intros s v _ Hv. exact Hv.
  - destruct (apply_tx r t) as [[r1 t1]|e|] eqn:Et; [|discriminate|discriminate].
    inversion Hpre as [|? ? Hp1 Hp2]; subst.
    destruct (apply_tx_ok r t r1 t1 Hok Hp1 Et) as (Hok1 & [ext1 Hext1] & Hlen).
    assert (Hpre1 : Forall (add_pre (length (r_keys r1))) log).
    { eapply Forall_impl; [|exact Hp2]. intros a Ha. eapply add_pre_mono; [exact Hlen|exact Ha]. }
    destruct (IH r1 (t1 :: ap) r' log' ap' Hok1 Hpre1 H) as (Hok' & [ext2 Hext2] & Hval).
    split; [exact Hok'|]. split.
    + exists (ext1 ++ ext2). rewrite Hext2, Hext1, app_assoc. reflexivity.
    + intros s v Ht Hv. apply Hval; [intros t0 Hin; apply Ht; right; exact Hin|].
      eapply apply_tx_values; [exact Et | apply Ht; left; reflexivity | exact Hv].
Qed.

(** * Storage invariant and the effect of one locked update *)
Definition wf (st : storage) : Prop :=
  forall rid c, lookup (FRing rid) st = Some c -> exists r, c = CRing true r /\ ring_ok r.

Definition stored_ring (st : storage) (rid : N) : option ring :=
  match lookup (FRing rid) st with Some (CRing true r) => Some r | _ => None end.

(** relative to [st0]: well formed; the files of the other rings are the same; the file of
    ring [rid] is the same or holds a complete valid ring satisfying [P] *)
Definition step_inv (rid : N) (P : ring -> Prop) (st0 st : storage) : Prop :=
  wf st /\
  (forall x, x <> rid -> lookup (FRing x) st = lookup (FRing x) st0) /\
  (lookup (FRing rid) st = lookup (FRing rid) st0 \/
   exists r', lookup (FRing rid) st = Some (CRing true r') /\ P r').

Lemma step_inv_refl rid P st0 : wf st0 -> step_inv rid P st0 st0.
Proof. intro H. split; [exact H|]. split; [reflexivity|left; reflexivity]. Qed.

Lemma inv_frame rid P st0 st st' :
  step_inv rid P st0 st -> (forall x, lookup (FRing x) st' = lookup (FRing x) st) -> step_inv rid P st0 st'.
Proof.
  intros (Hwf & Hoth & Hthis) Heq. split; [|split].
  - intros x c Hl. rewrite Heq in Hl. apply Hwf in Hl. exact Hl.
  - intros x Hx. rewrite Heq. apply Hoth. exact Hx.
  - rewrite Heq. exact Hthis.
Qed.

Lemma inv_commit rid P st0 st st' r' :
  step_inv rid P st0 st ->
  (forall x, lookup (FRing x) st' = if N.eqb x rid then Some (CRing true r') else lookup (FRing x) st) ->
  ring_ok r' -> P r' -> step_inv rid P st0 st'.
Proof.
  intros (Hwf & Hoth & Hthis) Heq Hok HP. split; [|split].
  - intros x c Hl. rewrite Heq in Hl. destruct (N.eqb x rid).
    + inversion Hl; subst. eauto.
    + apply Hwf in Hl. exact Hl.
  - intros x Hx. rewrite Heq. destruct (N.eqb_spec x rid); [contradiction|]. apply Hoth. exact Hx.
  - right. exists r'. rewrite Heq, N.eqb_refl. split; [reflexivity|exact HP].
Qed.

Lemma lk_put_new x y c st : lookup (FRing x) (put (FRingNew y) c st) = lookup (FRing x) st.
Proof. rewrite lookup_put. reflexivity. Qed.
Lemma lk_remove_new x y st : lookup (FRing x) (remove (FRingNew y) st) = lookup (FRing x) st.
Proof. rewrite lookup_remove. reflexivity. Qed.
Lemma lk_rename x rid c st :
  lookup (FRing x) (put (FRing rid) c (remove (FRingNew rid) st)) =
  if N.eqb x rid then Some c else lookup (FRing x) st.
Proof. rewrite lookup_put, lookup_remove. reflexivity. Qed.
Lemma lk_new_put rid c st : lookup (FRingNew rid) (put (FRingNew rid) c st) = Some c.
Proof. rewrite lookup_put, fname_eqb_refl. reflexivity. Qed.
Lemma lk_new_remove rid st : lookup (FRingNew rid) (remove (FRingNew rid) st) = None.
Proof. rewrite lookup_remove, fname_eqb_refl. reflexivity. Qed.

Opaque lookup put remove.

Definition push_post (rid : N) (r' : ring) (st : storage) (res : res unit) (st' : storage) : Prop :=
  match res with
  | Ok _ => lookup (FRing rid) st' = Some (CRing true r')
  | _ => lookup (FRing rid) st' = lookup (FRing rid) st
  end.

Ltac fin HI F1 F2 F3 Hok HP :=
  repeat match goal with
  | |- step_inv ?rid ?P ?st0 (put (FRing _) (CRing true ?r') (remove (FRingNew _) ?S)) =>
      apply (inv_commit rid P st0 S _ r'); [ first [apply F3 | apply F1] | intro; apply lk_rename | exact Hok | exact HP ]
  | |- step_inv _ _ _ _ => first [exact HI | apply F1 | exact F2 | apply F3]
  | |- _ /\ _ => split
  | |- True => exact I
  | |- push_post _ _ _ _ _ => cbn [push_post]; rewrite ?lk_rename, ?N.eqb_refl, ?lk_put_new, ?lk_remove_new; reflexivity
  | |- lookup _ _ = _ => rewrite ?lk_rename, ?N.eqb_refl, ?lk_put_new, ?lk_remove_new; reflexivity
  end.

Lemma push_safe rid P st0 st r' :
  step_inv rid P st0 st -> ring_ok r' -> P r' ->
  safeq (step_inv rid P st0) (push_post rid r' st) (push rid r') st.
Proof.
  intros HI Hok HP.
  assert (F1 : forall c, step_inv rid P st0 (put (FRingNew rid) c st)).
  { intro c. eapply inv_frame; [exact HI|]. intro x. apply lk_put_new. }
  assert (F2 : step_inv rid P st0 (remove (FRingNew rid) st)).
  { eapply inv_frame; [exact HI|]. intro x. apply lk_remove_new. }
  assert (F3 : forall c, step_inv rid P st0 (put (FRingNew rid) c (remove (FRingNew rid) st))).
  { intro c. eapply inv_frame; [exact F2|]. intro x. apply lk_put_new. }
  unfold push, call. cbn [pbind safeq do_call torn_call tear].
  destruct (lookup (FRingNew rid) st) as [c0|] eqn:En; cbn [fst snd].
  - (* stale temporary: ErrExist, Remove, Put, Rename *)
    change (E_EXIST =? E_EXIST)%N with true. change (E_IO =? E_EXIST)%N with false.
    cbn [pbind safeq do_call torn_call]. rewrite En. cbn [fst snd pbind safeq do_call torn_call tear].
    rewrite !lk_new_remove. cbn [fst snd pbind safeq do_call torn_call err_of push_post].
    rewrite !lk_new_put. cbn [fst snd pbind safeq do_call torn_call err_of push_post].
    fin HI F1 F2 F3 Hok HP.
  - change (E_IO =? E_EXIST)%N with false. cbn [pbind safeq do_call torn_call]. rewrite ?En. cbn [fst snd pbind safeq do_call torn_call tear err_of push_post].
    rewrite !lk_new_put. cbn [fst snd pbind safeq do_call torn_call err_of push_post].
    fin HI F1 F2 F3 Hok HP.
Qed.

(** the new content of a ring file: the logged transactions applied to the STORED ring *)
Definition upd_P (st0 : storage) (rid : N) (txs : list tx) (r' : ring) : Prop :=
  exists r log ap, stored_ring st0 rid = Some r /\ apply_pending r [] txs = (r', log, ap, None).

Ltac spl := repeat match goal with | |- step_inv _ _ _ _ => assumption | |- _ /\ _ => split | |- True => exact I end.

Lemma unlock_tail_safe {B} (I : storage -> Prop) (Q : B -> storage -> Prop) c (g : res bval -> B) st :
  (c = BUnlock \/ c = BRUnlock) -> I st -> (forall v, Q (g v) st) ->
  safeq I Q (pbind (call c) (fun u => Done (g u))) st.
Proof.
  intros Hc HI HQ. unfold call. cbn [pbind safeq].
  destruct Hc; subst c; cbn [do_call torn_call fst snd]; repeat split; auto.
Qed.

(** after a successful update the in-memory ring is the stored ring and nothing is pending *)
Definition sync_post (rid : N) (ra : res unit * hring) (st' : storage) : Prop :=
  match fst ra with
  | Ok _ => h_path (snd ra) = rid /\ h_log (snd ra) = [] /\ stored_ring st' rid = Some (h_data (snd ra))
  | _ => True
  end.

Lemma write_key_ring_safe st0 h :
  wf st0 ->
  (forall r, stored_ring st0 (h_path h) = Some r -> Forall (add_pre (length (r_keys r))) (h_log h)) ->
  safeq (step_inv (h_path h) (upd_P st0 (h_path h) (h_log h)) st0) (sync_post (h_path h)) (write_key_ring h) st0.
Proof.
  intros Hwf Hpre. pose proof (step_inv_refl (h_path h) (upd_P st0 (h_path h) (h_log h)) st0 Hwf) as HI.
  unfold write_key_ring, locked, pull, call.
  cbn [pbind safeq do_call torn_call fst snd err_of sync_post].
  spl.
  destruct (lookup (FRing (h_path h)) st0) as [c|] eqn:El.
  - destruct (Hwf _ _ El) as [r [-> Hok]].
    cbn [pbind safeq do_call torn_call fst snd err_of sync_post].
    destruct (apply_pending r [] (h_log h)) as [[[r' log'] ap] [e|]] eqn:Eap.
    + cbn [pbind safeq do_call torn_call fst snd err_of sync_post]. spl.
    + assert (Hs : stored_ring st0 (h_path h) = Some r) by (unfold stored_ring; rewrite El; reflexivity).
      destruct (apply_pending_ok _ _ _ _ _ _ Hok (Hpre r Hs) Eap) as (Hok' & _ & _).
      eapply safeq_bind with
        (Q := fun (ra : res unit * hring) st' =>
                match fst ra with
                | Ok _ => snd ra = mk_hring (h_path h) r' [] /\ lookup (FRing (h_path h)) st' = Some (CRing true r')
                | _ => True
                end); [exact HI | |].
      * eapply safeq_bind; [exact HI | apply push_safe; [exact HI | exact Hok' | exists r, log', ap; split; [exact Hs|exact Eap]] |].
        intros w st' _ Hw. destruct w; cbn [safeq fst snd]; [|exact I|exact I].
        cbn [push_post] in Hw. split; [reflexivity|exact Hw].
      * intros [res hr] st' HI' HQ. cbn [fst snd] in HQ.
        cbn [safeq do_call torn_call fst snd sync_post]. spl.
        all: destruct res; cbn [fst snd err_of]; try exact I.
        all: destruct HQ as [-> HQ]; unfold sync_post; cbn [fst snd h_path h_log h_data]; unfold stored_ring; rewrite HQ; auto.
  - cbn [pbind safeq do_call torn_call fst snd err_of sync_post]. spl.
Qed.

(** * Ring-level write operations under faults *)

(** the (possibly stale) in-memory ring is an earlier state of the stored one *)
Definition snap_ok (h : hring) (st : storage) : Prop :=
  contiguous (h_data h) /\
  forall r, stored_ring st (h_path h) = Some r -> (length (r_keys (h_data h)) <= length (r_keys r))%nat.

Lemma fold_push_tx txs : forall h,
  fold_left push_tx txs h = mk_hring (h_path h) (h_data h) (h_log h ++ txs).
Proof.
  induction txs as [|t txs IH]; intro h; cbn [fold_left].
  - rewrite app_nil_r. destruct h; reflexivity.
  - rewrite IH. unfold push_tx. cbn [h_path h_data h_log]. rewrite <- app_assoc. reflexivity.
Qed.

Lemma prepare_pre h o txs s n :
  contiguous (h_data h) -> (length (r_keys (h_data h)) <= n)%nat ->
  prepare h o = Ok (txs, s) -> Forall (add_pre n) txs /\ txs <> [].
Proof.
  intros Hc Hn Hp. destruct o as [ord|s0|s0 st|s0]; cbn [prepare] in Hp.
  - inversion Hp; subst. split; [|discriminate]. constructor; [|constructor].
    cbn [add_pre k_seq]. rewrite (next_seqnum_contiguous _ Hc). lia.
  - inversion Hp; subst. split; [|discriminate]. repeat constructor.
  - destruct (key_with_seqnum (h_data h) s0); [|discriminate].
    destruct (negb _); [discriminate|]. inversion Hp; subst. split; [|discriminate]. repeat constructor.
  - destruct (key_with_seqnum (h_data h) s0); [|discriminate].
    destruct (negb _); [discriminate|]. inversion Hp; subst. split; [|discriminate]. repeat constructor.
Qed.

Lemma with_txs_safe st h txs :
  wf st -> h_log h = [] -> txs <> [] ->
  (forall r, stored_ring st (h_path h) = Some r -> Forall (add_pre (length (r_keys r))) txs) ->
  safeq (step_inv (h_path h) (upd_P st (h_path h) txs) st) (sync_post (h_path h)) (with_txs h txs) st.
Proof.
  intros Hwf Hlog Hne Hpre. unfold with_txs. rewrite fold_push_tx, Hlog. cbn [app].
  unfold sync_key_ring. cbn [h_log]. destruct txs as [|t txs]; [congruence|].
  eapply safeq_bind; [apply step_inv_refl; exact Hwf | |].
  - exact (write_key_ring_safe st (mk_hring (h_path h) (h_data h) (t :: txs)) Hwf Hpre).
  - intros [res hr] st' _ HQ. cbn [safeq fst snd]. unfold sync_post in *. cbn [fst snd] in *.
    destruct res; cbn [fst snd]; [exact HQ|exact I|exact I].
Qed.

Definition op_post (rid : N) (ra : res Z * hring) (st' : storage) : Prop :=
  match fst ra with
  | Ok _ => h_path (snd ra) = rid /\ h_log (snd ra) = [] /\ stored_ring st' rid = Some (h_data (snd ra))
  | _ => True
  end.

Lemma ring_op_safe st h o txs s :
  wf st -> h_log h = [] -> snap_ok h st -> prepare h o = Ok (txs, s) ->
  safeq (step_inv (h_path h) (upd_P st (h_path h) txs) st) (op_post (h_path h)) (ring_op h o) st.
Proof.
  intros Hwf Hlog [Hc Hlen] Hp.
  unfold ring_op. rewrite Hp.
  eapply safeq_bind; [apply step_inv_refl; exact Hwf | |].
  - apply with_txs_safe; [exact Hwf | exact Hlog | |].
    + destruct (rev_case txs) as [->|[l [x ->]]].
      * exfalso. eapply (proj2 (prepare_pre h o [] s _ Hc (le_n _) Hp)). reflexivity.
      * destruct l; discriminate.
    + intros r Hs. exact (proj1 (prepare_pre h o txs s _ Hc (Hlen r Hs) Hp)).
  - intros [res hr] st' _ HQ. cbn [safeq fst snd]. unfold sync_post, op_post in *. cbn [fst snd] in *.
    destruct res; cbn [fst snd err_of]; [exact HQ|exact I|exact I].
Qed.

Theorem ring_op_crash_safe st h o f txs s :
  wf st -> h_log h = [] -> snap_ok h st -> prepare h o = Ok (txs, s) ->
  step_inv (h_path h) (upd_P st (h_path h) txs) st (after (exec (ring_op h o) f st 0)).
Proof.
  intros Hwf Hlog Hsnap Hp.
  eapply exec_safe; [apply step_inv_refl; exact Hwf|].
  eapply ring_op_safe; eassumption.
Qed.

Lemma ring_op_prepare_fails st h o f e :
  prepare h o = Err e -> exec (ring_op h o) f st 0 = Ret (Err e, h) st 0%nat.
Proof. intro Hp. unfold ring_op. rewrite Hp. reflexivity. Qed.

(** OpenKeyRingRW: an existing ring is only read; a missing one is created empty *)
Definition open_P (st0 : storage) (rid : N) (r' : ring) : Prop :=
  lookup (FRing rid) st0 = None /\ r' = empty_ring.

Lemma empty_ring_ok : ring_ok empty_ring.
Proof. split; [reflexivity | left; reflexivity]. Qed.

Lemma open_safe st rid :
  wf st ->
  safeq (step_inv rid (open_P st rid) st) (sync_post rid) (open_key_ring_rw rid) st.
Proof.
  intros Hwf. pose proof (step_inv_refl rid (open_P st rid) st Hwf) as HI.
  unfold open_key_ring_rw, locked, pull, call.
  cbn [pbind safeq do_call torn_call fst snd err_of sync_post].
  change (E_IO =? E_NOTEXIST)%N with false.
  cbn [pbind safeq do_call torn_call fst snd err_of sync_post].
  spl.
  destruct (lookup (FRing rid) st) as [c|] eqn:El.
  - destruct (Hwf _ _ El) as [r [-> Hok]].
    cbn [pbind safeq do_call torn_call fst snd err_of sync_post h_path h_log h_data]. spl.
    all: try reflexivity; unfold stored_ring; rewrite El; reflexivity.
  - cbn [pbind safeq do_call torn_call fst snd err_of sync_post].
    change (E_NOTEXIST =? E_NOTEXIST)%N with true. cbn iota.
    eapply safeq_bind with
        (Q := fun (ra : res unit * hring) st' =>
                match fst ra with
                | Ok _ => snd ra = mk_hring rid empty_ring [] /\ lookup (FRing rid) st' = Some (CRing true empty_ring)
                | _ => True
                end); [exact HI | |].
    + eapply safeq_bind; [exact HI | apply push_safe; [exact HI | exact empty_ring_ok | split; [exact El|reflexivity]] |].
      intros w st' _ Hw. destruct w; cbn [safeq fst snd]; [|exact I|exact I].
      cbn [push_post] in Hw. split; [reflexivity|exact Hw].
    + intros [res hr] st' HI' HQ. cbn [fst snd] in HQ.
      cbn [safeq do_call torn_call fst snd sync_post]. spl.
      all: destruct res; cbn [fst snd err_of]; try exact I.
      all: destruct HQ as [-> HQ]; unfold sync_post; cbn [fst snd h_path h_log h_data]; unfold stored_ring; rewrite HQ; auto.
Qed.

Theorem open_crash_safe st rid f :
  wf st -> step_inv rid (open_P st rid) st (after (exec (open_key_ring_rw rid) f st 0)).
Proof.
  intro Hwf. eapply exec_safe; [apply step_inv_refl; exact Hwf | apply open_safe; exact Hwf].
Qed.

(** * Composite operations: generate/import = open, AddKey, SetCurrent *)
Lemma safeq_mono_inv {A} (I I' : storage -> Prop) (Q : A -> storage -> Prop) (p : prog A) :
  forall st, (forall s, I s -> I' s) -> safeq I Q p st -> safeq I' Q p st.
Proof.
  induction p as [a|c cont IH]; intros st HII Hp; cbn [safeq] in *.
  - exact Hp.
  - destruct Hp as (H1 & H2 & H3 & H4 & H5). repeat split; auto.
Qed.

(** every key readable before reads the same, seqnums only grow, other rings untouched *)
Definition evolves (rid : N) (st0 st : storage) : Prop :=
  wf st /\
  (forall x, x <> rid -> lookup (FRing x) st = lookup (FRing x) st0) /\
  (forall r, stored_ring st0 rid = Some r ->
     exists r', stored_ring st rid = Some r' /\ (exists ext, seqs r' = seqs r ++ ext) /\
                forall s v, key_value r s = Ok v -> key_value r' s = Ok v).

Lemma evolves_refl rid st : wf st -> evolves rid st st.
Proof.
  intro H. split; [exact H|]. split; [reflexivity|].
  intros r Hr. exists r. split; [exact Hr|]. split; [exists []; rewrite app_nil_r; reflexivity|auto].
Qed.

Lemma evolves_trans rid a b c : evolves rid a b -> evolves rid b c -> evolves rid a c.
Proof.
  intros (_ & Ho1 & Hr1) (Hw2 & Ho2 & Hr2). split; [exact Hw2|]. split.
  - intros x Hx. rewrite Ho2, Ho1 by exact Hx. reflexivity.
  - intros r Hr. destruct (Hr1 r Hr) as (r1 & Hs1 & [e1 He1] & Hv1).
    destruct (Hr2 r1 Hs1) as (r2 & Hs2 & [e2 He2] & Hv2).
    exists r2. split; [exact Hs2|]. split; [exists (e1 ++ e2); rewrite He2, He1, app_assoc; reflexivity|auto].
Qed.

Lemma stored_ring_lookup st rid r : stored_ring st rid = Some r <-> lookup (FRing rid) st = Some (CRing true r).
Proof.
  unfold stored_ring. destruct (lookup (FRing rid) st) as [[[|] r0|]|]; split; intro H; try discriminate; congruence.
Qed.

(** a locked update whose transactions write no existing key *)
Lemma step_evolves rid st st' txs :
  wf st -> (forall t, In t txs -> tx_target t = None) ->
  (forall r, stored_ring st rid = Some r -> Forall (add_pre (length (r_keys r))) txs) ->
  step_inv rid (upd_P st rid txs) st st' -> evolves rid st st'.
Proof.
  intros Hwf Hnt Hpre (Hwf' & Hoth & Hthis). split; [exact Hwf'|]. split; [exact Hoth|].
  intros r Hr. destruct Hthis as [Heq|(r' & Hl & (r0 & log & ap & Hs0 & Hap))].
  - exists r. split; [unfold stored_ring in *; rewrite Heq; exact Hr|].
    split; [exists []; rewrite app_nil_r; reflexivity|auto].
  - rewrite Hr in Hs0. inversion Hs0; subst r0.
    assert (Hok : ring_ok r).
    { apply stored_ring_lookup in Hr. destruct (Hwf _ _ Hr) as (r1 & E & Hok). inversion E; subst. exact Hok. }
    destruct (apply_pending_ok _ _ _ _ _ _ Hok (Hpre r Hr) Hap) as (_ & Hext & Hval).
    exists r'. split; [apply stored_ring_lookup; exact Hl|]. split; [exact Hext|].
    intros s v Hv. apply Hval; [|exact Hv]. intros t Hin. rewrite (Hnt t Hin). discriminate.
Qed.

Lemma open_evolves rid st st' :
  wf st -> step_inv rid (open_P st rid) st st' -> evolves rid st st'.
Proof.
  intros Hwf (Hwf' & Hoth & Hthis). split; [exact Hwf'|]. split; [exact Hoth|].
  intros r Hr. destruct Hthis as [Heq|(r' & Hl & (Hnone & _))].
  - exists r. split; [unfold stored_ring in *; rewrite Heq; exact Hr|].
    split; [exists []; rewrite app_nil_r; reflexivity|auto].
  - apply stored_ring_lookup in Hr. congruence.
Qed.

Lemma sync_snap_ok st h rid :
  wf st -> h_path h = rid -> stored_ring st rid = Some (h_data h) -> snap_ok h st.
Proof.
  intros Hwf Hp Hs. subst rid. split.
  - apply stored_ring_lookup in Hs. destruct (Hwf _ _ Hs) as (r & E & [Hc _]). inversion E; subst. exact Hc.
  - intros r Hr. rewrite Hs in Hr. inversion Hr; subst. apply le_n.
Qed.

(** one ring operation on an in-sync object, inside a composite relative to [st0] *)
Lemma ring_op_stage rid st0 st h o txs s :
  evolves rid st0 st -> h_path h = rid -> h_log h = [] -> stored_ring st rid = Some (h_data h) ->
  prepare h o = Ok (txs, s) -> (forall t, In t txs -> tx_target t = None) ->
  safeq (evolves rid st0) (op_post rid) (ring_op h o) st.
Proof.
  intros Hev Hp Hlog Hs Hprep Hnt. pose proof Hev as (Hwf & _).
  pose proof (sync_snap_ok st h rid Hwf Hp Hs) as Hsnap.
  subst rid.
  eapply safeq_mono_inv; [|eapply ring_op_safe; eassumption].
  intros st' Hst. eapply evolves_trans; [exact Hev|].
  eapply step_evolves; [exact Hwf | exact Hnt | | exact Hst].
  intros r Hr. destruct Hsnap as [Hc Hlen].
  exact (proj1 (prepare_pre h o txs s _ Hc (Hlen r Hr) Hprep)).
Qed.

Theorem gen_key_safe rid ord st :
  wf st -> safeq (evolves rid st) (fun _ _ => True) (gen_key rid ord) st.
Proof.
  intro Hwf. unfold gen_key.
  eapply safeq_bind; [apply evolves_refl; exact Hwf | |].
  - eapply safeq_mono_inv; [|apply open_safe; exact Hwf].
    intros s Hs. apply open_evolves; assumption.
  - intros [res h] st1 Hev1 HQ. unfold sync_post in HQ. cbn [fst snd] in *.
    destruct res; cbn [safeq]; try exact I. destruct HQ as (Hp & Hlog & Hs).
    eapply safeq_bind; [exact Hev1 | |].
    + eapply ring_op_stage; try eassumption; [reflexivity|].
      intros t [<-|[]]. reflexivity.
    + intros [res2 h2] st2 Hev2 HQ2. unfold op_post in HQ2. cbn [fst snd] in *.
      destruct res2 as [s2| |]; cbn [safeq]; try exact I. destruct HQ2 as (Hp2 & Hlog2 & Hs2).
      eapply safeq_bind; [exact Hev2 | | intros; exact I].
      eapply ring_op_stage; try eassumption; [reflexivity|].
      intros t [<-|[]]. reflexivity.
Qed.

Theorem gen_key_crash_safe rid ord st f :
  wf st -> evolves rid st (after (exec (gen_key rid ord) f st 0)).
Proof.
  intro Hwf. eapply exec_safe; [apply evolves_refl; exact Hwf | apply gen_key_safe; exact Hwf].
Qed.

(** what a committed update guarantees for the keys of the ring (clause (i) inside the ring) *)
Theorem committed_update_keeps_keys st h o txs s r r' :
  wf st -> snap_ok h st -> prepare h o = Ok (txs, s) ->
  stored_ring st (h_path h) = Some r -> upd_P st (h_path h) txs r' ->
  ring_ok r' /\ (exists ext, seqs r' = seqs r ++ ext) /\
  forall s' v, (forall t, In t txs -> tx_target t <> Some s') -> key_value r s' = Ok v -> key_value r' s' = Ok v.
Proof.
  intros Hwf [Hc Hlen] Hp Hr (r0 & log & ap & Hs0 & Hap).
  rewrite Hr in Hs0. inversion Hs0; subst r0.
  assert (Hok : ring_ok r).
  { apply stored_ring_lookup in Hr. destruct (Hwf _ _ Hr) as (r1 & E & Hok). inversion E; subst. exact Hok. }
  eapply apply_pending_ok; [exact Hok | | exact Hap].
  exact (proj1 (prepare_pre h o txs s _ Hc (Hlen r Hr) Hp)).
Qed.

(** * Clause (iii): a well-formed storage accepts a following write (fault-free runs) *)
Lemma exec_call c st k : exec (call c) None st k = Ret (fst (do_call c st)) (snd (do_call c st)) (S k).
Proof. reflexivity. Qed.

Lemma push_ok rid r' st k :
  exists st' k', exec (push rid r') None st k = Ret (Ok tt) st' k' /\
                 (forall x, lookup (FRing x) st' = if N.eqb x rid then Some (CRing true r') else lookup (FRing x) st).
Proof.
  unfold push, call. cbn [pbind exec do_call].
  destruct (lookup (FRingNew rid) st) as [c0|] eqn:En; cbn [fst snd].
  - change (E_EXIST =? E_EXIST)%N with true. cbn [pbind exec do_call]. rewrite En. cbn [fst snd pbind exec do_call].
    rewrite lk_new_remove. cbn [fst snd pbind exec do_call]. rewrite lk_new_put. cbn [fst snd pbind exec do_call].
    eexists _, _. split; [reflexivity|]. intro x. rewrite lk_rename, lk_put_new, lk_remove_new. reflexivity.
  - cbn [pbind exec do_call]. rewrite lk_new_put. cbn [fst snd pbind exec do_call].
    eexists _, _. split; [reflexivity|]. intro x. rewrite lk_rename, lk_put_new. reflexivity.
Qed.

Lemma write_ok st h r r' log' ap k :
  stored_ring st (h_path h) = Some r -> apply_pending r [] (h_log h) = (r', log', ap, None) ->
  exists st' k', exec (write_key_ring h) None st k = Ret (Ok tt, mk_hring (h_path h) r' []) st' k' /\
    (forall x, lookup (FRing x) st' = if N.eqb x (h_path h) then Some (CRing true r') else lookup (FRing x) st).
Proof.
  intros Hs Hap. apply stored_ring_lookup in Hs.
  unfold write_key_ring, locked, pull, call. cbn [pbind exec do_call fst snd]. rewrite Hs.
  cbn [pbind exec do_call fst snd]. rewrite Hap.
  rewrite !exec_pbind.
  destruct (push_ok (h_path h) r' st (S (S k))) as (st' & k' & He & Hl). rewrite He.
  cbn [pbind exec do_call fst snd]. eexists _, _. split; [reflexivity|exact Hl].
Qed.

Lemma ring_op_ok st h o txs s r r' log' ap k :
  h_log h = [] -> prepare h o = Ok (txs, s) -> txs <> [] ->
  stored_ring st (h_path h) = Some r -> apply_pending r [] txs = (r', log', ap, None) ->
  exists st' k', exec (ring_op h o) None st k = Ret (Ok s, mk_hring (h_path h) r' []) st' k' /\
    (forall x, lookup (FRing x) st' = if N.eqb x (h_path h) then Some (CRing true r') else lookup (FRing x) st).
Proof.
  intros Hlog Hp Hne Hs Hap. unfold ring_op. rewrite Hp. unfold with_txs. rewrite fold_push_tx, Hlog. cbn [app].
  unfold sync_key_ring. cbn [h_log]. destruct txs as [|t txs]; [congruence|].
  rewrite !exec_pbind.
  destruct (write_ok st (mk_hring (h_path h) (h_data h) (t :: txs)) r r' log' ap k Hs Hap) as (st' & k' & He & Hl).
  cbn [h_path] in He. rewrite He. cbn [exec fst snd]. eexists _, _. split; [reflexivity|exact Hl].
Qed.

Lemma key_with_seqnum_last r k :
  key_with_seqnum (mk_ring (r_keys r ++ [k]) (r_cur r)) (k_seq k) = Some k.
Proof.
  unfold key_with_seqnum. cbn [r_keys]. rewrite rev_app_distr. cbn [rev app find_key_rev].
  rewrite Z.eqb_refl. reflexivity.
Qed.

Lemma open_ok st rid k :
  wf st ->
  exists st' k' r, exec (open_key_ring_rw rid) None st k = Ret (Ok tt, mk_hring rid r []) st' k' /\
    wf st' /\ stored_ring st' rid = Some r /\ ring_ok r /\
    (forall x, x <> rid -> lookup (FRing x) st' = lookup (FRing x) st).
Proof.
  intro Hwf. unfold open_key_ring_rw, locked, pull, call. cbn [pbind exec do_call fst snd].
  destruct (lookup (FRing rid) st) as [c|] eqn:El.
  - destruct (Hwf _ _ El) as [r [-> Hok]]. cbn [pbind exec do_call fst snd].
    eexists _, _, r. split; [reflexivity|]. split; [exact Hwf|]. split; [apply stored_ring_lookup; exact El|].
    split; [exact Hok|reflexivity].
  - change (E_NOTEXIST =? E_NOTEXIST)%N with true. cbn iota. rewrite !exec_pbind.
    destruct (push_ok rid empty_ring st (S (S k))) as (st' & k' & He & Hl). rewrite He.
    cbn [pbind exec do_call fst snd]. eexists _, _, empty_ring. split; [reflexivity|].
    split; [|split; [|split; [exact empty_ring_ok|]]].
    + intros x c Hc. rewrite Hl in Hc. destruct (N.eqb x rid).
      * inversion Hc; subst. exists empty_ring. split; [reflexivity|exact empty_ring_ok].
      * apply Hwf in Hc. exact Hc.
    + apply stored_ring_lookup. rewrite Hl, N.eqb_refl. reflexivity.
    + intros x Hx. rewrite Hl. destruct (N.eqb_spec x rid); [contradiction|reflexivity].
Qed.

Theorem wf_accepts_write st rid ord :
  wf st -> ord <> 0%N ->
  exists s st' k r', exec (gen_key rid ord) None st 0 = Ret (Ok s) st' k /\ wf st' /\
    stored_ring st' rid = Some r' /\ r_cur r' = s /\ key_value r' s = Ok ord /\
    (forall x, x <> rid -> lookup (FRing x) st' = lookup (FRing x) st).
Proof.
  intros Hwf Hord. unfold gen_key. rewrite exec_pbind.
  destruct (open_ok st rid 0 Hwf) as (st1 & k1 & r & He1 & Hwf1 & Hs1 & Hok & Hoth1). rewrite He1. cbn [fst snd].
  rewrite exec_pbind.
  set (h1 := mk_hring rid r []).
  set (s := next_seqnum r). set (kn := mk_kent s KSW_PREACTIVE ord).
  destruct Hok as [Hc Hcur].
  assert (Hnone : key_with_seqnum r s = None).
  { apply key_none. unfold contiguous in Hc. rewrite Hc, in_iota. unfold s. rewrite (next_seqnum_contiguous r Hc). lia. }
  set (r1 := mk_ring (r_keys r ++ [kn]) (r_cur r)).
  assert (Hap1 : apply_pending r [] [TxAddKey kn] = (r1, [TxAddKey kn], [TxAddKey kn], None)).
  { cbn [apply_pending apply_tx k_seq kn]. unfold kn at 1. cbn [k_seq]. rewrite Hnone. reflexivity. }
  destruct (ring_op_ok st1 h1 (WAdd ord) [TxAddKey kn] s r r1 _ _ k1 eq_refl eq_refl ltac:(discriminate) Hs1 Hap1)
    as (st2 & k2 & He2 & Hl2).
  rewrite He2. cbn [fst snd]. rewrite exec_pbind. change (h_path h1) with rid in *.
  set (h2 := mk_hring rid r1 []).
  assert (Hs2 : stored_ring st2 rid = Some r1) by (apply stored_ring_lookup; rewrite Hl2; cbn [h_path h1]; rewrite N.eqb_refl; reflexivity).
  set (r2 := mk_ring (r_keys r1) s).
  assert (Hk : key_with_seqnum r1 s = Some kn) by (exact (key_with_seqnum_last r kn)).
  assert (Hap2 : apply_pending r1 [] [TxSetCurrent (r_cur r1) s] = (r2, [TxSetCurrent (r_cur r1) s], [TxSetCurrent (r_cur r1) s], None)).
  { cbn [apply_pending apply_tx]. rewrite Z.eqb_refl. cbn [negb].
    replace (negb (r_cur r1 =? KSW_NO_KEY) && match key_with_seqnum r1 (r_cur r1) with Some _ => false | None => true end) with false.
    - rewrite Hk. reflexivity.
    - symmetry. cbn [r_cur r1]. destruct Hcur as [E|[kc Hkc]].
      + rewrite E, Z.eqb_refl. reflexivity.
      + assert (Hin : In (r_cur r) (seqs r1)).
        { unfold seqs, r1. cbn [r_keys]. rewrite map_app. apply in_or_app. left. apply key_some_iff. eauto. }
        apply key_some_iff in Hin. destruct Hin as [k' Hk']. fold r1. cbn [r_cur] in Hk'.
        change (key_with_seqnum {| r_keys := r_keys r ++ [kn]; r_cur := r_cur r |} (r_cur r)) with (key_with_seqnum r1 (r_cur r)).
        rewrite Hk'. apply andb_false_r. }
  destruct (ring_op_ok st2 h2 (WSetCurrent s) _ s r1 r2 _ _ k2 eq_refl eq_refl ltac:(discriminate) Hs2 Hap2)
    as (st3 & k3 & He3 & Hl3).
  rewrite He3. cbn [exec fst snd]. change (h_path h2) with rid in *.
  exists s, st3, k3, r2. split; [reflexivity|].
  assert (Hok2 : ring_ok r2).
  { split.
    - unfold contiguous, seqs, r2, r1. cbn [r_keys]. rewrite map_app, app_length. cbn [map length k_seq kn].
      replace (length (r_keys r) + 1)%nat with (S (length (r_keys r))) by lia.
      rewrite iota_snoc. unfold contiguous, seqs in Hc. rewrite Hc. unfold s. rewrite (next_seqnum_contiguous r Hc). reflexivity.
    - right. exists kn. exact Hk. }
  split; [|split; [|split; [reflexivity|split]]].
  - intros x c Hc'. rewrite Hl3 in Hc'. destruct (N.eqb_spec x rid) as [Ex|Ex].
    + inversion Hc'; subst. eauto.
    + rewrite Hl2 in Hc'. destruct (N.eqb_spec x rid); [contradiction|].
      apply Hwf1 in Hc'. exact Hc'.
  - apply stored_ring_lookup. rewrite Hl3. cbn [h_path h2]. rewrite N.eqb_refl. reflexivity.
  - unfold key_value. change (key_with_seqnum r2 s) with (key_with_seqnum r1 s). rewrite Hk. cbn [k_state k_ord kn].
    change (KSW_PREACTIVE =? KSW_DESTROYED)%N with false. cbn iota.
    destruct (N.eqb_spec ord 0); [contradiction|reflexivity].
  - intros x Hx. rewrite Hl3, Hl2. cbn [h_path h1 h2]. destruct (N.eqb_spec x rid); [contradiction|]. apply Hoth1. exact Hx.
Qed.

(** listing and reads on a well-formed storage *)
Transparent lookup.
Lemma in_names_lookup n st : In n (names st) -> exists c, lookup n st = Some c.
Proof.
  induction st as [|[m c] st IH]; cbn [names map In lookup fst]; [tauto|].
  intros [E|Hin].
  - subst m. rewrite fname_eqb_refl. eauto.
  - destruct (fname_eqb n m); [eauto|]. apply IH. exact Hin.
Qed.
Opaque lookup.

Lemma in_ring_ids rid l : In rid (ring_ids l) -> In (FRing rid) l.
Proof.
  induction l as [|n l IH]; cbn [ring_ids]; [tauto|].
  destruct n; cbn [In]; try (intro H; right; apply IH; exact H).
  intros [E|H]; [left; congruence | right; apply IH; exact H].
Qed.

Lemma open_ro_ok st rid r k :
  stored_ring st rid = Some r ->
  exec (open_key_ring rid) None st k = Ret (Ok tt, mk_hring rid r []) st (S (S (S k))).
Proof.
  intro Hs. apply stored_ring_lookup in Hs.
  unfold open_key_ring, read_key_ring, locked, pull, call. cbn [pbind exec do_call fst snd h_path h_log].
  rewrite Hs. reflexivity.
Qed.

Lemma list_loop_ok st : forall rids acc k,
  (forall rid, In rid rids -> exists r, stored_ring st rid = Some r /\ ring_ok r) ->
  exists l k', exec (list_keys_loop rids acc) None st k = Ret (Ok l) st k'.
Proof.
  induction rids as [|rid rids IH]; intros acc k H; cbn [list_keys_loop].
  - eexists _, _. reflexivity.
  - destruct (H rid (or_introl eq_refl)) as (r & Hs & [_ Hcur]).
    rewrite exec_pbind, (open_ro_ok st rid r k Hs). cbn [fst snd].
    unfold current_key. cbn [h_data].
    destruct (Z.eqb_spec (r_cur r) KSW_NO_KEY) as [E|E].
    + apply IH. intros x Hx. apply H. right. exact Hx.
    + destruct Hcur as [E'|[kc Hkc]]; [contradiction|]. rewrite Hkc.
      destruct (N.eqb (k_state kc) KSW_DESTROYED); apply IH; intros x Hx; apply H; right; exact Hx.
Qed.

Theorem wf_list_ok st :
  wf st -> exists l k, exec list_keys None st 0 = Ret (Ok l) st k.
Proof.
  intro Hwf. unfold list_keys, list_key_rings, locked, call. cbn [pbind exec do_call fst snd].
  apply list_loop_ok. intros rid Hin.
  apply in_ring_ids, in_names_lookup in Hin. destruct Hin as [c Hc].
  destruct (Hwf _ _ Hc) as (r & -> & Hok). exists r. split; [apply stored_ring_lookup; exact Hc|exact Hok].
Qed.

(** * Every storage reachable by faulted operations is well formed *)
Inductive v2op :=
| VOpen (rid : N)
| VRing (h : hring) (o : wop)      (* on an in-memory ring object that is an earlier state of the stored ring *)
| VGen (rid ord : N).

Definition v2_after (st : storage) (o : v2op) (f : fault) : storage :=
  match o with
  | VOpen rid => after (exec (open_key_ring_rw rid) f st 0)
  | VRing h w => after (exec (ring_op h w) f st 0)
  | VGen rid ord => after (exec (gen_key rid ord) f st 0)
  end.

Definition v2_pre (st : storage) (o : v2op) : Prop :=
  match o with VRing h _ => h_log h = [] /\ snap_ok h st | _ => True end.

Inductive reachable : storage -> Prop :=
| reach_init : reachable []
| reach_step st o f : reachable st -> v2_pre st o -> reachable (v2_after st o f).

Lemma wf_nil : wf [].
Proof. intros rid c H. Transparent lookup. cbn in H. Opaque lookup. discriminate. Qed.

Lemma v2_after_wf st o f : wf st -> v2_pre st o -> wf (v2_after st o f).
Proof.
  intros Hwf Hpre. destruct o as [rid|h w|rid ord]; cbn [v2_after].
  - exact (proj1 (open_crash_safe st rid f Hwf)).
  - destruct Hpre as [Hlog Hsnap]. destruct (prepare h w) as [[txs s]|e|] eqn:Ep.
    + exact (proj1 (ring_op_crash_safe st h w f txs s Hwf Hlog Hsnap Ep)).
    + rewrite (ring_op_prepare_fails st h w f e Ep). exact Hwf.
    + unfold ring_op. rewrite Ep. exact Hwf.
  - exact (proj1 (gen_key_crash_safe rid ord st f Hwf)).
Qed.

Theorem reachable_wf st : reachable st -> wf st.
Proof.
  induction 1 as [|st o f Hr IH Hpre]; [exact wf_nil | apply v2_after_wf; assumption].
Qed.

(** seqnums of a well-formed ring are unique and strictly increasing *)
Theorem ring_ok_incr r : ring_ok r -> incr (seqs r).
Proof. intros [Hc _]. unfold contiguous in Hc. rewrite Hc. apply iota_incr. Qed.

(** * Concrete instances (non-vacuity) *)
Definition ex_ring : ring := mk_ring [mk_kent 1 1 5; mk_kent 2 1 6] 2.
Definition ex_st : storage := [(FRingNew 1, CRing false ex_ring); (FRing 1, CRing true ex_ring)].

Lemma ex_ring_ok : ring_ok ex_ring.
Proof. split; [reflexivity | right; eexists; reflexivity]. Qed.

Lemma ex_wf : wf ex_st.
Proof.
  intros rid c H. vm_compute in H. destruct rid as [|p]; [discriminate|].
  destruct p; try discriminate. inversion H; subst. exists ex_ring. split; [reflexivity|exact ex_ring_ok].
Qed.
