(** C13_statements, round trip, part 4: like..escape, between, is, binary and unary operators, collate, literals,
    constants, column names. *)
From Acra Require Import Lib.Bytes Gen.Prec Gen.SqlWords Model.SqlStmt Model.SqlStmtParse
  Proofs.SqlStmtUnfold Proofs.SqlStmtFacts Proofs.SqlStmtEqns Proofs.SqlStmtHeads Proofs.SqlStmtRT1 Proofs.SqlStmtRT2 Proofs.SqlStmtRT3.
From Coq Require Import Arith Lia.

Section RT.
Variable pg : bool.
Notation Cst := (Cst pg). Notation Ust := (Ust pg). Notation Ast := (Ast pg). Notation Pe := (Pe pg).
Notation Dst := (Dst pg).

Ltac KL := unfold K in *; lia.
Ltac fuel f := destruct f as [|f]; [KL|].

Lemma case_ECmpEsc o l r c : Pe l -> Pe r -> Pe c -> Pe (ECmpEsc o l r c).
Proof.
  intros [Cl _] [Cr _] [Cc _]. apply P_not_unary; [cbn [level]; precs| |exact I].
  intros Hwf min rest R a Hmin Hst Hk f Hf.
  rewrite wf_ECmpEsc in Hwf. split_andb.
  assert (Hvl : L_VAL <= level l) by (apply is_v_level; assumption).
  assert (Hvr : L_VAL <= level r) by (apply is_v_level; assumption).
  assert (Hvc : L_VAL <= level c) by (apply is_v_level; assumption).
  rewrite print_ECmpEsc, need_ECmpEsc in *. cbn [level rbound] in *. rewrite <- !app_assoc. cbn [app].
  apply (Cl ltac:(assumption) min (cmp_toks o ++ print pg r ++ TW W_escape :: print pg c ++ rest) R (a + need r + need c + 6)); [precs| | |KL].
  - apply stops_cmp. apply rbound_gt; precs.
  - intros f0 Hf0. destruct f0 as [|[|f0]]; try KL. rewrite ploop_cmp.
    replace (L_CMP <? min) with false by (ltb_false; precs).
    replace (is_v l) with true by (symmetry; assumption).
    rewrite pcond_S.
    assert (Eo : cmp_kind o = CKLike (is_ilike o) /\
                 (if is_ilike o then (if cmp_neg o then CNotILike else CILike) else (if cmp_neg o then CNotLike else CLike)) = o)
      by (destruct o; try discriminate; split; reflexivity).
    destruct Eo as [-> Eo]. rewrite Eo.
    replace (is_ilike o && negb pg) with false
      by (symmetry; match goal with H : negb (is_ilike o) || pg = true |- _ => destruct (is_ilike o), pg; try reflexivity; discriminate H end).
    rewrite (pval_of_C pg r L_VAL (TW W_escape :: print pg c ++ rest) f0 Cr); try assumption; [| | |KL].
    + rewrite expect_w_hit.
      rewrite (pval_of_C pg c L_VAL rest f0 Cc); try assumption; [apply Hk; KL| | |KL].
      * eapply stops_mono; [|exact Hst]. pose proof (rbound_gt c L_VAL Hvc ltac:(precs)). precs.
      * eapply stops_mono; [|exact Hst]. precs.
    + apply stops_escape. pose proof (rbound_gt r L_VAL Hvr ltac:(precs)). precs.
    + apply stops_escape. precs.
Qed.

Lemma case_ERange n l x y : Pe l -> Pe x -> Pe y -> Pe (ERange n l x y).
Proof.
  intros [Cl _] [Cx _] [Cy _]. apply P_not_unary; [cbn [level]; precs| |exact I].
  intros Hwf min rest R a Hmin Hst Hk f Hf.
  rewrite wf_ERange in Hwf. split_andb.
  assert (Hvl : L_VAL <= level l) by (apply is_v_level; assumption).
  assert (Hvx : L_VAL <= level x) by (apply is_v_level; assumption).
  assert (Hvy : L_VAL <= level y) by (apply is_v_level; assumption).
  rewrite print_ERange, need_ERange in *. cbn [level rbound] in *. rewrite <- !app_assoc. cbn [app].
  apply (Cl ltac:(assumption) min (between_toks n ++ print pg x ++ TW W_and :: print pg y ++ rest) R (a + need x + need y + 6)); [precs| | |KL].
  - apply stops_between. apply rbound_gt; precs.
  - intros f0 Hf0. destruct f0 as [|[|f0]]; try KL. rewrite ploop_between.
    replace (L_BETWEEN <? min) with false by (ltb_false; precs).
    replace (is_v l) with true by (symmetry; assumption).
    rewrite pcond_S.
    rewrite (pval_of_C pg x L_VAL (TW W_and :: print pg y ++ rest) f0 Cx); try assumption; [| | |KL].
    + rewrite expect_w_hit.
      rewrite (pval_of_C pg y L_VAL rest f0 Cy); try assumption; [apply Hk; KL| | |KL].
      * eapply stops_mono; [|exact Hst]. pose proof (rbound_gt y L_VAL Hvy ltac:(precs)). precs.
      * eapply stops_mono; [|exact Hst]. precs.
    + apply stops_and. pose proof (rbound_gt x L_VAL Hvx ltac:(precs)). precs.
    + apply stops_and. precs.
Qed.

Lemma case_EIs s x : Pe x -> Pe (EIs s x).
Proof.
  intros [Cx _]. apply P_not_unary; [cbn [level]; precs| |exact I].
  intros Hwf min rest R a Hmin Hst Hk f Hf.
  rewrite wf_EIs in Hwf. split_andb. leb_hyps.
  rewrite print_EIs, need_EIs in *. cbn [level rbound] in *. rewrite <- app_assoc.
  apply (Cx ltac:(assumption) min (is_toks s ++ rest) R (a + 2)); [lia| | |KL].
  - apply stops_is. apply rbound_above_cmp. assumption.
  - intros f0 Hf0. fuel f0. rewrite ploop_is.
    replace (L_CMP <? min) with false by (ltb_false; precs). apply Hk. lia.
Qed.

Lemma case_EBin o l r : Pe l -> Pe r -> Pe (EBin o l r).
Proof.
  intros [Cl _] [Cr _]. apply P_not_unary; [cbn [level]; precs| |exact I].
  intros Hwf min rest R a Hmin Hst Hk f Hf.
  rewrite wf_EBin in Hwf. split_andb. leb_hyps.
  rewrite print_EBin, need_EBin in *. cbn [level rbound] in *. rewrite <- app_assoc. cbn [app].
  apply (Cl ltac:(assumption) min (bin_tok o :: print pg r ++ rest) R (a + need r + 4)); [lia| | |KL].
  - apply stops_bin. apply rbound_gt; [assumption|precs].
  - intros f0 Hf0. fuel f0. rewrite ploop_bin.
    replace (binprec o <? min) with false by (ltb_false; lia).
    replace (is_v l) with true by (symmetry; assumption).
    assert (Hpr : pval pg f0 (S (binprec o)) (print pg r ++ rest) = Some (r, rest)).
    { apply pval_of_C; try assumption; [|KL].
      eapply stops_mono; [|exact Hst]. pose proof (rbound_gt r (S (binprec o)) ltac:(assumption) ltac:(precs)). lia. }
    rewrite Hpr. apply Hk. lia.
Qed.

Lemma fold_minus_non_int x : is_intlit x = false -> fold_minus x = Some (EUn UMinus x).
Proof. destruct x; try reflexivity. cbn [is_intlit]. intros H. unfold fold_minus. rewrite H. reflexivity. Qed.
Lemma un_head_tok o r : un_head (un_tok o :: r) = Some (o, r).
Proof. destruct o; reflexivity. Qed.

Lemma case_EUn o x : Pe x -> Pe (EUn o x).
Proof.
  intros [_ [Ux _]].
  assert (HU : Ust (EUn o x)).
  { intros Hwf Hl rest Hst f Hf.
    rewrite wf_EUn in Hwf. split_andb. leb_hyps.
    rewrite print_EUn, need_EUn in *. cbn [app]. fuel f. rewrite punary_S, un_head_tok.
    rewrite (Ux ltac:(assumption) ltac:(assumption) rest Hst f) by KL.
    replace (is_v x) with true by (symmetry; assumption).
    destruct o; cbn [un_apply]; try reflexivity.
    - unfold fold_plus. negb_hyps. replace (is_intlit x) with false by (symmetry; assumption). reflexivity.
    - negb_hyps. rewrite (fold_minus_non_int x) by assumption. reflexivity. }
  split; [apply C_of_U; [cbn [level]; lia|exact HU]|split; [exact HU|split; [|exact I]]].
  intros _ Hl. cbn [level] in Hl. exfalso. precs.
Qed.

Lemma case_ECollate x cs : Pe x -> Pe (ECollate x cs).
Proof.
  intros [_ [_ [Ax _]]].
  assert (HA : Ast (ECollate x cs)).
  { intros Hwf _ _ rest R a Hg Hk f Hf.
    rewrite wf_ECollate in Hwf. split_andb. leb_hyps. negb_hyps.
    rewrite print_ECollate, need_ECollate in *. rewrite <- app_assoc. cbn [app].
    rewrite (rawid_tok cs) by assumption.
    apply (Ax ltac:(assumption) ltac:(assumption) ltac:(assumption) (TW W_collate :: TId cs :: rest) R (a + 2)); [reflexivity| |KL].
    intros f0 Hf0. fuel f0. rewrite pcollate_S. cbn [collate_head].
    replace (is_v x) with true by (symmetry; assumption). apply Hk. lia. }
  assert (HU : Ust (ECollate x cs)) by (apply U_of_A; [cbn [level]; lia|reflexivity|exact HA]).
  split; [apply C_of_U; [cbn [level]; precs|exact HU]|split; [exact HU|split; [exact HA|exact I]]].
Qed.

Lemma take_casts_map cs rest : gstop rest = true -> take_casts (map TCast cs ++ rest) = (cs, rest).
Proof.
  intros Hg. induction cs as [|c cs IH]; cbn [map app take_casts].
  - destruct rest as [|[| | | | | |] rest]; try reflexivity. discriminate Hg.
  - rewrite IH. reflexivity.
Qed.

Lemma digit_not_minus d : is_digit d = true -> byte_eqb d x_minus = false.
Proof.
  intros H. destruct (byte_eqb d x_minus) eqn:E; [|reflexivity].
  apply byte_eqb_eq in E. subst d. discriminate H.
Qed.

Lemma case_ELit t v cs : Pe (ELit t v cs).
Proof.
  destruct (neg_lit (ELit t v cs)) eqn:En.
  - (* '-' INTEGRAL, folded by the grammar action *)
    assert (HU : Ust (ELit t v cs)).
    { intros Hwf _ rest Hst f Hf. rewrite wf_ELit in Hwf. unfold wf_lit in Hwf.
      cbn [neg_lit] in En. destruct v as [|c v']; [discriminate En|]. apply andb_prop in En as [Ei Ec].
      rewrite Ei, Ec in Hwf. split_andb. destruct cs; [|discriminate].
      rewrite print_ELit. unfold lit_toks. rewrite Ei, Ec. cbn [map app]. cbn [need] in Hf.
      destruct f as [|[|[|f]]]; try KL.
      rewrite punary_S. change (TP PMinus) with (un_tok UMinus). rewrite un_head_tok.
      rewrite punary_S. cbn [un_head]. rewrite patom_S. cbn [atom_head].
      pose proof (take_casts_map [] rest ltac:(eapply stops_gstop; exact Hst)) as Ht. cbn [map app] in Ht. rewrite Ht.
      rewrite pcollate_stop by exact Hst. cbn [is_v level]. replace (L_VAL <=? L_ATOM) with true by (leb_true; precs).
      cbn [andb un_apply fold_minus]. rewrite Ei.
      destruct v' as [|d v'']; [discriminate|]. cbn [nonempty_digits forallb] in *. split_andb.
      rewrite (digit_not_minus d) by assumption. apply byte_eqb_eq in Ec. subst c. reflexivity. }
    split; [apply C_of_U; [cbn [level]; precs|exact HU]|split; [exact HU|split; [|exact I]]].
    intros _ _ Hn. rewrite Hn in En. discriminate En.
  - apply P_of_D; [reflexivity|exact En| |exact I].
    intros Hwf rest Hg f Hf. rewrite print_ELit. rewrite neg_lit_casts in En. rewrite (lit_toks_pos t v En).
    cbn [need] in Hf. fuel f. rewrite <- app_assoc. cbn [app]. rewrite patom_S. cbn [atom_head].
    rewrite (take_casts_map cs rest Hg). reflexivity.
Qed.

Lemma case_ENull : Pe ENull.
Proof.
  apply P_of_D; [reflexivity|reflexivity| |exact I]. intros _ rest Hg f Hf. cbn [need] in Hf. fuel f. reflexivity.
Qed.
Lemma case_EBool b : Pe (EBool b).
Proof.
  apply P_of_D; [reflexivity|reflexivity| |exact I]. intros _ rest Hg f Hf. cbn [need] in Hf. fuel f. destruct b; reflexivity.
Qed.
Lemma case_EDefault : Pe EDefault.
Proof.
  apply P_of_D; [reflexivity|reflexivity| |exact I]. intros _ rest Hg f Hf. cbn [need] in Hf. fuel f. reflexivity.
Qed.

(* column names *)
Lemma gstop_no_dot rest (A : Type) (X : list tok -> A) (Y : A) :
  gstop rest = true -> match rest with TP PDot :: r => X r | _ => Y end = Y.
Proof. destruct rest as [|[| | | |p| |] rest]; try reflexivity. destruct p; try reflexivity. discriminate. Qed.

Lemma pcol_spec q n rest : wf_col pg q n = true -> gstop rest = true ->
  exists i0 r0, col_toks pg q n ++ rest = id_tok pg i0 :: r0 /\ wf_id pg i0 = true /\ pcol pg i0 r0 = Some (q, n, rest).
Proof.
  unfold wf_col, col_toks. intros H Hg. split_andb. leb_hyps.
  assert (Hnd : forall i (Y : option (list ident * ident * list tok)),
             pcol pg i rest = Some ([], i, rest)).
  { intros i _. unfold pcol. destruct rest as [|[| | | |p| |] rest']; try reflexivity.
    destruct p; try reflexivity. discriminate Hg. }
  destruct q as [|a [|b [|c q]]]; cbn [length] in *; try lia; cbn [forallb] in *; split_andb.
  - exists n, rest. cbn [qual_toks app]. repeat split; try assumption. apply Hnd. exact None.
  - exists a, (TP PDot :: id_tok pg n :: rest). cbn [qual_toks app]. repeat split; try assumption.
    unfold pcol. rewrite (wf_id_tok pg n) by assumption.
    destruct rest as [|[| | | |p| |] rest']; try reflexivity. destruct p; try reflexivity. discriminate Hg.
  - exists a, (TP PDot :: id_tok pg b :: TP PDot :: id_tok pg n :: rest). cbn [qual_toks app]. repeat split; try assumption.
    unfold pcol. rewrite (wf_id_tok pg b), (wf_id_tok pg n) by assumption.
    destruct rest as [|[| | | |p| |] rest']; try reflexivity. destruct p; try reflexivity. discriminate Hg.
Qed.

Lemma atom_head_id i r : wf_id pg i = true -> atom_head pg (id_tok pg i :: r) = AHName i r.
Proof.
  intros H. destruct (wf_id_tok_shape pg i H) as [[v [-> ->]]|[v [-> [-> Hp]]]]; cbn [atom_head]; [reflexivity|].
  rewrite Hp. reflexivity.
Qed.

Lemma gstop_no_lparen rest : gstop rest = true -> expect_p PLParen rest = None.
Proof.
  intros Hg. apply expect_p_miss. intros r ->. discriminate Hg.
Qed.

Lemma case_ECol q n : Pe (ECol q n).
Proof.
  apply P_of_D; [reflexivity|reflexivity| |exact I].
  intros Hwf rest Hg f Hf. rewrite wf_ECol in Hwf. rewrite print_ECol. cbn [need] in Hf. fuel f.
  destruct (pcol_spec q n rest Hwf Hg) as [i0 [r0 [E [Hi Hp]]]]. rewrite E.
  rewrite patom_S, (atom_head_id i0 r0 Hi), Hp, (gstop_no_lparen rest Hg). reflexivity.
Qed.

Lemma case_EValuesFunc q n : Pe (EValuesFunc q n).
Proof.
  apply P_of_D; [reflexivity|reflexivity| |exact I].
  intros Hwf rest Hg f Hf. rewrite wf_EValuesFunc in Hwf. rewrite print_EValuesFunc. cbn [need] in Hf. fuel f.
  cbn [app]. rewrite <- app_assoc. cbn [app].
  destruct (pcol_spec q n (TP PRParen :: rest) Hwf eq_refl) as [i0 [r0 [E [Hi Hp]]]]. rewrite E.
  rewrite patom_S. cbn [atom_head]. rewrite (wf_id_tok pg i0 Hi), Hp, expect_p_hit. reflexivity.
Qed.
End RT.
