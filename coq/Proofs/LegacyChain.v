(** The legacy column chain (Model/LegacyChain.v): the traced wrapper erases to the pure wrapper of C01_old;
    events are callback runs only; transparent callbacks do not matter; detection of raw poison records
    (C15) and the masked views of raw stored values (C11); the subscriber fold and the row loop. *)
From Acra Require Import Lib.Bytes Lib.Outcome Lib.GoSlice Lib.Sha256 Crypto.Interface Gen.Consts Gen.MaskConsts
  Model.Envelope Model.EnvelopeOld Model.Masking Model.Poison Model.Bytea Model.LegacyChain
  Proofs.Envelope Proofs.EnvelopeHandlers Proofs.Scanner Proofs.Containers Proofs.EnvelopeOld Proofs.Poison
  Proofs.Masking Proofs.Bytea.
From Coq Require Import ZifyN ZifyNat ZifyBool.

(** * A. erasure: forgetting the events gives the pure wrapper of Model/EnvelopeOld.v *)
Lemma detector_on_envelope_erase cbs c :
  snd (detector_on_envelope_ev cbs c) = detector_on_envelope (map erase cbs) c.
Proof.
  unfold detector_on_envelope_ev, detector_on_envelope. rewrite <- run_callbacks_erase.
  destruct (run_callbacks_ev cbs c) as [ev r]. reflexivity.
Qed.

Lemma on_old_envelope_erase id cbs env :
  snd (on_old_envelope_ev id cbs env) = on_old_envelope id (map erase cbs) env.
Proof.
  unfold on_old_envelope_ev, on_old_envelope.
  destruct (sc_serialize env id) as [ser| |]; cbn [bind]; try reflexivity.
  rewrite <- detector_on_envelope_erase.
  destruct (detector_on_envelope_ev cbs ser) as [ev r]. cbn [snd].
  destruct r as [p| |]; cbn [bind]; reflexivity.
Qed.

Lemma raw_scan_erase tag cand proc f : forall rest out,
  snd (raw_scan_ev tag cand proc f rest out) = raw_scan tag cand (fun x => snd (proc x)) f rest out.
Proof.
  induction f as [|f IH]; intros rest out; [reflexivity|]. cbn [raw_scan_ev raw_scan].
  destruct (index_of tag rest) as [i|]; [|reflexivity].
  destruct (cand (skipn i rest)) as [l|]; [|apply IH].
  destruct (proc (firstn l (skipn i rest))) as [ev pr]. cbn [snd].
  destruct pr as [p| |]; try reflexivity. unfold prepend. cbn [snd]. apply IH.
Qed.

Lemma raw_scan_ext tag cand p1 p2 f : (forall x, p1 x = p2 x) -> forall rest out,
  raw_scan tag cand p1 f rest out = raw_scan tag cand p2 f rest out.
Proof.
  intros H. induction f as [|f IH]; intros rest out; [reflexivity|]. cbn [raw_scan].
  destruct (index_of tag rest) as [i|]; [|reflexivity].
  destruct (cand (skipn i rest)) as [l|]; [|apply IH].
  rewrite H. destruct (p2 (firstn l (skipn i rest))); try reflexivity. apply IH.
Qed.

Lemma process_acrastructs_erase id cbs inb :
  snd (process_acrastructs_ev (on_old_envelope_ev id cbs) inb) = process_acrastructs (on_old_envelope id (map erase cbs)) inb.
Proof.
  unfold process_acrastructs_ev, process_acrastructs. destruct (Nat.ltb _ _); [reflexivity|].
  rewrite raw_scan_erase. apply raw_scan_ext. intros x. apply on_old_envelope_erase.
Qed.

Lemma process_acrablocks_erase id cbs inb :
  snd (process_acrablocks_ev (on_old_envelope_ev id cbs) inb) = process_acrablocks (on_old_envelope id (map erase cbs)) inb.
Proof.
  unfold process_acrablocks_ev, process_acrablocks. destruct (Nat.ltb _ _); [reflexivity|].
  rewrite raw_scan_erase. apply raw_scan_ext. intros x. apply on_old_envelope_erase.
Qed.

Lemma scan_m_erase cbs f : forall rest out ch m,
  snd (scan_m_ev f cbs rest out ch m) = scan_m f (map erase cbs) rest out ch m.
Proof.
  induction f as [|f IH]; intros rest out ch m; [reflexivity|]. cbn [scan_m_ev scan_m].
  destruct (index_of sc_tag rest) as [i|]; [|reflexivity].
  destruct (sc_extract (skipn i rest)) as [[n c]| |]; [|apply IH|reflexivity].
  rewrite <- run_callbacks_erase. destruct (run_callbacks_ev cbs c) as [ev rc]. cbn [snd].
  destruct rc as [[p|]|e|]; try reflexivity; unfold prepend; cbn [snd]; apply IH.
Qed.

Lemma on_column_m_erase cbs inb : snd (on_column_m_ev cbs inb) = on_column_m (map erase cbs) inb.
Proof.
  unfold on_column_m_ev, on_column_m.
  assert (is_nil (map erase cbs) = is_nil cbs) as -> by (destruct cbs; reflexivity).
  destruct (_ || _); [reflexivity| apply scan_m_erase].
Qed.

Theorem on_column_old_erase cbs inb : snd (on_column_old_ev cbs inb) = on_column_old (map erase cbs) inb.
Proof.
  unfold on_column_old_ev, on_column_old. rewrite <- on_column_m_erase.
  destruct (on_column_m_ev cbs inb) as [ev0 r0]. cbn [snd].
  destruct r0 as [[[nr ch] m]| |]; try reflexivity.
  destruct (m || negb (bytes_eqb nr inb)); [reflexivity|].
  rewrite <- process_acrastructs_erase.
  destruct (process_acrastructs_ev _ inb) as [ev1 r1]. cbn [snd].
  destruct r1 as [out1| |]; cbn [bind]; try reflexivity.
  rewrite <- process_acrablocks_erase.
  destruct (process_acrablocks_ev _ out1) as [ev2 r2]. cbn [snd].
  destruct r2; reflexivity.
Qed.

(** * B. only the callbacks' own events occur, in order; callbacks without effects cause none *)
Definition ecb_events_sat (P : event -> Prop) (cb : ecb) : Prop := forall c, Forall P (fst (cb c)).

Lemma run_callbacks_ev_sat P cbs c : Forall (ecb_events_sat P) cbs -> Forall P (fst (run_callbacks_ev cbs c)).
Proof.
  induction cbs as [|cb l IH]; intros H; [constructor|]. inversion H as [|? ? Hcb Hl]; subst.
  cbn [run_callbacks_ev]. specialize (Hcb c). destruct (cb c) as [ev r]. cbn [fst] in Hcb.
  destruct r as [p|e|]; [| |exact Hcb].
  - destruct (bytes_eqb p c); [|exact Hcb]. unfold prepend. cbn [fst]. apply Forall_app. split; [exact Hcb| apply IH, Hl].
  - destruct (N.eqb e E_DECRYPTION); [|exact Hcb]. unfold prepend. cbn [fst]. apply Forall_app. split; [exact Hcb| apply IH, Hl].
Qed.

Lemma on_old_envelope_ev_sat P id cbs x : Forall (ecb_events_sat P) cbs -> Forall P (fst (on_old_envelope_ev id cbs x)).
Proof.
  intros H. unfold on_old_envelope_ev. destruct (sc_serialize x id) as [ser| |]; try constructor.
  unfold detector_on_envelope_ev. pose proof (run_callbacks_ev_sat P cbs ser H) as Hr.
  destruct (run_callbacks_ev cbs ser) as [ev r]. exact Hr.
Qed.

Lemma raw_scan_ev_sat P tag cand proc f : (forall x, Forall P (fst (proc x))) -> forall rest out,
  Forall P (fst (raw_scan_ev tag cand proc f rest out)).
Proof.
  intros H. induction f as [|f IH]; intros rest out; [constructor|]. cbn [raw_scan_ev].
  destruct (index_of tag rest) as [i|]; [|constructor].
  destruct (cand (skipn i rest)) as [l|]; [|apply IH].
  specialize (H (firstn l (skipn i rest))). destruct (proc (firstn l (skipn i rest))) as [ev pr]. cbn [fst] in H.
  destruct pr as [p| |]; try exact H. unfold prepend. cbn [fst]. apply Forall_app. split; [exact H| apply IH].
Qed.

Lemma scan_m_ev_sat P cbs f : Forall (ecb_events_sat P) cbs -> forall rest out ch m,
  Forall P (fst (scan_m_ev f cbs rest out ch m)).
Proof.
  intros H. induction f as [|f IH]; intros rest out ch m; [constructor|]. cbn [scan_m_ev].
  destruct (index_of sc_tag rest) as [i|]; [|constructor].
  destruct (sc_extract (skipn i rest)) as [[n c]| |]; [|apply IH|constructor].
  pose proof (run_callbacks_ev_sat P cbs c H) as Hr.
  destruct (run_callbacks_ev cbs c) as [ev rc]. cbn [fst] in Hr.
  destruct rc as [[p|]|e|]; try exact Hr; unfold prepend; cbn [fst]; apply Forall_app; split; try exact Hr; apply IH.
Qed.

Theorem on_column_old_ev_sat P cbs inb : Forall (ecb_events_sat P) cbs -> Forall P (fst (on_column_old_ev cbs inb)).
Proof.
  intros H. unfold on_column_old_ev.
  assert (Forall P (fst (on_column_m_ev cbs inb))) as H0.
  { unfold on_column_m_ev. destruct (_ || _); [constructor| apply scan_m_ev_sat, H]. }
  destruct (on_column_m_ev cbs inb) as [ev0 r0]. cbn [fst] in H0.
  destruct r0 as [[[nr ch] m]| |]; try exact H0.
  destruct (m || negb (bytes_eqb nr inb)); [exact H0|].
  assert (Forall P (fst (process_acrastructs_ev (on_old_envelope_ev ENVELOPE_ID_ACRASTRUCT cbs) inb))) as H1.
  { unfold process_acrastructs_ev. destruct (Nat.ltb _ _); [constructor|].
    apply raw_scan_ev_sat. intros x. apply on_old_envelope_ev_sat, H. }
  destruct (process_acrastructs_ev _ inb) as [ev1 r1]. cbn [fst] in H1.
  destruct r1 as [out1| |]; cbn [fst]; try (apply Forall_app; split; assumption).
  assert (Forall P (fst (process_acrablocks_ev (on_old_envelope_ev ENVELOPE_ID_ACRABLOCK cbs) out1))) as H2.
  { unfold process_acrablocks_ev. destruct (Nat.ltb _ _); [constructor|].
    apply raw_scan_ev_sat. intros x. apply on_old_envelope_ev_sat, H. }
  destruct (process_acrablocks_ev _ out1) as [ev2 r2]. cbn [fst] in *.
  apply Forall_app; split; [assumption|]. apply Forall_app; split; assumption.
Qed.

Lemma lift_no_events cb : ecb_events_sat (fun _ => False) (lift cb).
Proof. intros c. constructor. Qed.

Lemma forall_false_nil {A} (l : list A) : Forall (fun _ => False) l -> l = [].
Proof. destruct l; [reflexivity|]. intros H. inversion H. contradiction. Qed.

(** callbacks without effects: no event, and the result is the pure wrapper's *)
Theorem on_column_old_lift cbs inb : on_column_old_ev (map lift cbs) inb = ([], on_column_old cbs inb).
Proof.
  rewrite (surjective_pairing (on_column_old_ev (map lift cbs) inb)).
  rewrite on_column_old_erase, erase_lift. f_equal.
  apply forall_false_nil, on_column_old_ev_sat.
  induction cbs as [|cb l IH]; constructor; [apply lift_no_events| exact IH].
Qed.

(** * C. only what the callback loop does on a container matters: callback lists with the same loop behaviour
    give the same column behaviour (events included) *)
Lemma scan_m_ev_ext cbs1 cbs2 f : (forall c, run_callbacks_ev cbs1 c = run_callbacks_ev cbs2 c) ->
  forall rest out ch m, scan_m_ev f cbs1 rest out ch m = scan_m_ev f cbs2 rest out ch m.
Proof.
  intros H. induction f as [|f IH]; intros rest out ch m; [reflexivity|]. cbn [scan_m_ev].
  destruct (index_of sc_tag rest) as [i|]; [|reflexivity].
  destruct (sc_extract (skipn i rest)) as [[n c]| |]; [|apply IH|reflexivity].
  rewrite H. destruct (run_callbacks_ev cbs2 c) as [ev rc].
  destruct rc as [[p|]|e|]; try reflexivity; rewrite IH; reflexivity.
Qed.

Lemma on_old_envelope_ev_ext id cbs1 cbs2 x : (forall c, run_callbacks_ev cbs1 c = run_callbacks_ev cbs2 c) ->
  on_old_envelope_ev id cbs1 x = on_old_envelope_ev id cbs2 x.
Proof.
  intros H. unfold on_old_envelope_ev, detector_on_envelope_ev.
  destruct (sc_serialize x id); try reflexivity. rewrite H. reflexivity.
Qed.

Lemma raw_scan_ev_ext tag cand p1 p2 f : (forall x, p1 x = p2 x) -> forall rest out,
  raw_scan_ev tag cand p1 f rest out = raw_scan_ev tag cand p2 f rest out.
Proof.
  intros H. induction f as [|f IH]; intros rest out; [reflexivity|]. cbn [raw_scan_ev].
  destruct (index_of tag rest) as [i|]; [|reflexivity].
  destruct (cand (skipn i rest)) as [l|]; [|apply IH].
  rewrite H. destruct (p2 (firstn l (skipn i rest))) as [ev pr]. destruct pr; try reflexivity. rewrite IH. reflexivity.
Qed.

Theorem on_column_old_ev_ext cbs1 cbs2 inb :
  (forall c, run_callbacks_ev cbs1 c = run_callbacks_ev cbs2 c) -> is_nil cbs1 = is_nil cbs2 ->
  on_column_old_ev cbs1 inb = on_column_old_ev cbs2 inb.
Proof.
  intros H Hn. unfold on_column_old_ev, on_column_m_ev, process_acrastructs_ev, process_acrablocks_ev. rewrite Hn.
  rewrite (scan_m_ev_ext cbs1 cbs2 _ H).
  rewrite (raw_scan_ev_ext as_tag as_candidate _ _ _ (fun x => on_old_envelope_ev_ext ENVELOPE_ID_ACRASTRUCT cbs1 cbs2 x H)).
  destruct (if Nat.ltb (length inb) SC_MIN_SIZE || is_nil cbs2 then _ else _) as [ev0 r0].
  destruct r0 as [[[nr ch] m]| |]; try reflexivity.
  destruct (m || negb (bytes_eqb nr inb)); [reflexivity|].
  destruct (if Nat.ltb (length inb) as_min then _ else _) as [ev1 r1].
  destruct r1 as [out1| |]; try reflexivity.
  rewrite (raw_scan_ev_ext ab_tag ab_candidate _ _ _ (fun x => on_old_envelope_ev_ext ENVELOPE_ID_ACRABLOCK cbs1 cbs2 x H)).
  reflexivity.
Qed.

(** a callback that hands every container back and does nothing else *)
Definition transparent (cb : ecb) : Prop := forall c, cb c = ([], Ok c).

Lemma wrapper_transparent : transparent (lift wrapper_cb).
Proof. intros c. reflexivity. Qed.

Lemma run_callbacks_ev_insert a pre b c :
  Forall transparent pre -> run_callbacks_ev (a ++ pre ++ b) c = run_callbacks_ev (a ++ b) c.
Proof.
  intros Hp. induction a as [|cb a IH]; cbn [app].
  - induction Hp as [|t pre Ht _ IHp]; [reflexivity|]. cbn [app run_callbacks_ev]. rewrite Ht, bytes_eqb_refl.
    rewrite IHp. destruct (run_callbacks_ev b c). reflexivity.
  - cbn [run_callbacks_ev]. destruct (cb c) as [ev r]. rewrite IH. reflexivity.
Qed.

(** callbacks that only hand the container back may be added or removed anywhere in the list: nothing changes
    (as long as some callback remains: with an EMPTY list the detector does not scan at all) *)
Theorem transparent_callbacks_do_not_matter a pre b inb :
  Forall transparent pre -> a ++ b <> [] ->
  on_column_old_ev (a ++ pre ++ b) inb = on_column_old_ev (a ++ b) inb.
Proof.
  intros Hp Hne. apply on_column_old_ev_ext; [intros c; apply run_callbacks_ev_insert, Hp|].
  destruct a; [destruct b; [contradiction|]; destruct pre; reflexivity| reflexivity].
Qed.

(** * D. the raw scanners with events: quiet prefix, a candidate at the front, the accumulator *)
Section RawScanEvFacts.
Variable tag : bytes.
Variable cand : bytes -> option nat.
Variable proc : bytes -> list event * res bytes.
Notation rse := (raw_scan_ev tag cand proc).

Lemma raw_scan_ev_skip1 f b rest out :
  starts_with tag (b :: rest) = false -> rse (S f) (b :: rest) out = rse (S f) rest (out ++ [b]).
Proof.
  intros H. cbn [raw_scan_ev index_of]. rewrite H.
  destruct (index_of tag rest) as [i|]; cbn [option_map firstn skipn].
  - rewrite <- !app_assoc. reflexivity.
  - rewrite <- app_assoc. reflexivity.
Qed.

Lemma raw_scan_ev_quiet_prefix f p : forall t out,
  quiet_tag tag p t -> rse (S f) (p ++ t) out = rse (S f) t (out ++ p).
Proof.
  induction p as [|b p IH]; intros t out Hq; [rewrite app_nil_r; reflexivity|].
  apply quiet_tag_cons in Hq as [H0 Hq]. cbn [app].
  rewrite raw_scan_ev_skip1 by exact H0. rewrite IH by exact Hq. rewrite <- app_assoc. reflexivity.
Qed.

(** the events of the processor on a candidate at the very front are events of the scan *)
Lemma raw_scan_ev_hit f r out l e :
  starts_with tag r = true -> cand r = Some l -> In e (fst (proc (firstn l r))) -> In e (fst (rse (S f) r out)).
Proof.
  intros Hs Hc Hin. cbn [raw_scan_ev].
  assert (index_of tag r = Some 0) as -> by (destruct r; cbn [index_of]; rewrite Hs; reflexivity).
  cbn [skipn firstn]. rewrite Hc. destruct (proc (firstn l r)) as [ev pr]. cbn [fst] in Hin.
  destruct pr; try exact Hin. unfold prepend. cbn [fst]. apply in_or_app. left. exact Hin.
Qed.

Lemma raw_scan_ev_acc f : forall rest out,
  rse f rest out = (fst (rse f rest []), lift_b out (snd (rse f rest []))).
Proof.
  induction f as [|f IH]; intros rest out; cbn [raw_scan_ev]; [reflexivity|].
  destruct (index_of tag rest) as [i|]; [|reflexivity].
  destruct (cand (skipn i rest)) as [l|].
  - destruct (proc (firstn l (skipn i rest))) as [ev pr]. destruct pr as [p| |]; try reflexivity.
    rewrite (IH _ ((out ++ firstn i rest) ++ p)), (IH _ (([] ++ firstn i rest) ++ p)).
    unfold prepend. cbn [fst snd]. f_equal.
    destruct (snd (rse f (skipn l (skipn i rest)) [])); cbn [lift_b app]; try reflexivity.
    rewrite <- !app_assoc. reflexivity.
  - rewrite (IH _ ((out ++ firstn i rest) ++ firstn 1 (skipn i rest))),
            (IH _ (([] ++ firstn i rest) ++ firstn 1 (skipn i rest))).
    cbn [fst snd]. f_equal.
    destruct (snd (rse f (skipn 1 (skipn i rest)) [])); cbn [lift_b app]; try reflexivity.
    rewrite <- !app_assoc. reflexivity.
Qed.

(** every event of the scan is an event of the processor on some candidate of the scanned bytes *)
Lemma raw_scan_ev_witness e f : forall rest out,
  In e (fst (rse f rest out)) -> exists j l, In e (fst (proc (firstn l (skipn j rest)))).
Proof.
  induction f as [|f IH]; intros rest out; [intros []|]. cbn [raw_scan_ev].
  destruct (index_of tag rest) as [i|]; [|intros []].
  assert (Hshift : forall k o, In e (fst (rse f (skipn k (skipn i rest)) o)) ->
                               exists j l, In e (fst (proc (firstn l (skipn j rest))))).
  { intros k o Hin. destruct (IH _ _ Hin) as (j & l & H). exists (j + (k + i)), l. rewrite <- !skipn_add. exact H. }
  destruct (cand (skipn i rest)) as [l|]; [|apply Hshift].
  destruct (proc (firstn l (skipn i rest))) as [ev pr] eqn:Ep.
  assert (Hhere : In e ev -> exists j l, In e (fst (proc (firstn l (skipn j rest))))).
  { intros Hin. exists i, l. rewrite Ep. exact Hin. }
  destruct pr as [p| |]; try exact Hhere. unfold prepend. cbn [fst].
  intros Hin. apply in_app_or in Hin as [Hin|Hin]; [apply Hhere, Hin| eapply Hshift, Hin].
Qed.
End RawScanEvFacts.

(** * E. detection of raw poison records.  Chain shape: transparent callbacks (the wrapper), the poison
    detector, then ANY callbacks. *)
Section Detection.
Variable C : crypto.

Lemma run_callbacks_ev_detects pre cb_err pk post c d :
  Forall transparent pre -> poison_opens C pk c = Ok d ->
  In Callback (fst (run_callbacks_ev (pre ++ poison_detector C true cb_err pk :: post) c)).
Proof.
  intros Hp Hop. pose proof (run_callbacks_ev_insert [] pre (poison_detector C true cb_err pk :: post) c Hp) as Hi.
  cbn [app] in Hi. rewrite Hi.
  destruct (run_callbacks_detects C cb_err pk post c d Hop) as (evs & r & ->). left. reflexivity.
Qed.

Lemma on_old_envelope_ev_detects id pre cb_err pk post v d :
  Forall transparent pre -> v <> [] -> poison_opens C pk (sc_layout v id) = Ok d ->
  In Callback (fst (on_old_envelope_ev id (pre ++ poison_detector C true cb_err pk :: post) v)).
Proof.
  intros Hp Hne Hop. unfold on_old_envelope_ev. rewrite sc_serialize_ok by exact Hne.
  unfold detector_on_envelope_ev.
  pose proof (run_callbacks_ev_detects pre cb_err pk post _ d Hp Hop) as H.
  destruct (run_callbacks_ev _ (sc_layout v id)) as [ev r]. exact H.
Qed.

(** the container pass over a column without container candidates: no event, nothing matched *)
Lemma scan_m_ev_no_container cbs f : forall rest out ch m,
  no_container rest -> length rest < f -> scan_m_ev f cbs rest out ch m = ([], Ok (out ++ rest, ch, m)).
Proof.
  induction f as [|f IH]; intros rest out ch m Hn Hf; [lia|]. cbn [scan_m_ev].
  destruct (index_of sc_tag rest) as [i|] eqn:Ei; [|reflexivity].
  pose proof (index_of_lt _ _ _ Ei) as Hi.
  destruct (index_of_some _ _ _ Ei) as [Hat _].
  pose proof (starts_with_nonempty _ _ sc_tag_nonempty Hat) as Hne.
  destruct (Hn i Hat) as [e ->].
  rewrite IH.
  - rewrite <- !app_assoc, firstn_skipn_1. reflexivity.
  - rewrite skipn_skipn'. apply no_container_skipn, Hn.
  - rewrite !skipn_length. destruct (skipn i rest) eqn:E; [contradiction|].
    assert (length (skipn i rest) = length rest - i) as Hl by apply skipn_length. rewrite E in Hl. cbn in Hl. lia.
Qed.

Lemma on_column_m_ev_no_container cbs inb :
  no_container inb -> on_column_m_ev cbs inb = ([], Ok (inb, false, false)).
Proof.
  intros H. unfold on_column_m_ev. destruct (_ || _); [reflexivity|].
  rewrite scan_m_ev_no_container by (assumption || lia). reflexivity.
Qed.

(** with no container candidate the raw passes run: first pass events, then second pass events *)
Lemma on_column_old_ev_raw cbs col :
  no_container col ->
  on_column_old_ev cbs col =
    let '(ev1, r1) := process_acrastructs_ev (on_old_envelope_ev ENVELOPE_ID_ACRASTRUCT cbs) col in
    match r1 with
    | Panic => (ev1, Panic)
    | Err e => (ev1, Err e)
    | Ok out1 =>
        let '(ev2, r2) := process_acrablocks_ev (on_old_envelope_ev ENVELOPE_ID_ACRABLOCK cbs) out1 in
        (ev1 ++ ev2, match r2 with Ok out2 => Ok (out2, negb (bytes_eqb col out2)) | Err e => Err e | Panic => Panic end)
    end.
Proof.
  intros H. unfold on_column_old_ev. rewrite on_column_m_ev_no_container by exact H.
  rewrite bytes_eqb_refl. cbn [orb negb app].
  destruct (process_acrastructs_ev _ col) as [ev1 r1]. destruct r1 as [out1| |]; reflexivity.
Qed.

(** ** AcraStruct form: after any prefix in which no occurrence of the 8-byte tag starts, before any suffix *)
Theorem raw_poison_as_detected pre cb_err pk post (p v s d : bytes) :
  Forall transparent pre ->
  no_container (p ++ v ++ s) -> quiet_tag as_tag p (v ++ s) ->
  starts_with as_tag (v ++ s) = true -> as_candidate (v ++ s) = Some (length v) -> v <> [] ->
  poison_opens C pk (sc_layout v ENVELOPE_ID_ACRASTRUCT) = Ok d ->
  In Callback (fst (on_column_old_ev (pre ++ poison_detector C true cb_err pk :: post) (p ++ v ++ s))).
Proof.
  intros Hp Hnc Hq Hst Hc Hne Hop. rewrite on_column_old_ev_raw by exact Hnc.
  set (cbs := pre ++ _ :: post).
  assert (In Callback (fst (process_acrastructs_ev (on_old_envelope_ev ENVELOPE_ID_ACRASTRUCT cbs) (p ++ v ++ s)))) as H1.
  { unfold process_acrastructs_ev.
    destruct (as_candidate_bounds _ _ Hc) as [_ Hmin].
    destruct (Nat.ltb_spec (length (p ++ v ++ s)) as_min) as [Hlt|_]; [rewrite !app_length in *; lia|].
    rewrite raw_scan_ev_quiet_prefix by exact Hq.
    apply (raw_scan_ev_hit _ _ _ _ _ _ (length v)); [exact Hst| exact Hc|].
    rewrite firstn_app_len. apply (on_old_envelope_ev_detects _ pre cb_err pk post v d); assumption. }
  destruct (process_acrastructs_ev _ (p ++ v ++ s)) as [ev1 r1]. cbn [fst] in H1.
  destruct r1 as [out1| |]; try exact H1.
  destruct (process_acrablocks_ev _ out1) as [ev2 r2]. cbn [fst]. apply in_or_app. left. exact H1.
Qed.

(** ** AcraBlock form (symmetric poison key).  The AcraStruct pass runs first over the whole value: no
    occurrence of the 8-byte tag may start before the end of the record; what it does with the suffix is
    arbitrary (it may even end the column with an error, then nothing is delivered). *)
Theorem raw_poison_ab_detected pre cb_err pk post (p v s d : bytes) :
  Forall transparent pre ->
  no_container (p ++ v ++ s) -> quiet_tag as_tag (p ++ v) s -> quiet_tag ab_tag p (v ++ s) ->
  (forall s', starts_with ab_tag (v ++ s') = true /\ ab_candidate (v ++ s') = Some (length v)) ->
  AB_TAG_SIZE <= length v -> v <> [] ->
  poison_opens C pk (sc_layout v ENVELOPE_ID_ACRABLOCK) = Ok d ->
  let r := on_column_old_ev (pre ++ poison_detector C true cb_err pk :: post) (p ++ v ++ s) in
  In Callback (fst r) \/ (forall x, snd r <> Ok x).
Proof.
  intros Hp Hnc Hq8 Hq4 Hcand Hvl Hne Hop r. subst r. rewrite on_column_old_ev_raw by exact Hnc.
  set (cbs := pre ++ _ :: post).
  (* first pass: prefix and record are copied, the suffix is processed *)
  assert (exists ev1 r1, process_acrastructs_ev (on_old_envelope_ev ENVELOPE_ID_ACRASTRUCT cbs) (p ++ v ++ s)
                         = (ev1, lift_b (p ++ v) r1)) as (ev1 & r1 & E1).
  { unfold process_acrastructs_ev. destruct (Nat.ltb _ _).
    - exists [], (Ok s). cbn [lift_b]. rewrite <- app_assoc. reflexivity.
    - rewrite app_assoc. rewrite raw_scan_ev_quiet_prefix by exact Hq8. rewrite raw_scan_ev_acc.
      cbn [app]. eexists. eexists. reflexivity. }
  rewrite E1. destruct r1 as [s1| |]; cbn [lift_b]; [|right; intros x; discriminate|right; intros x; discriminate].
  (* second pass *)
  destruct (Hcand s1) as [Hst Hc].
  assert (In Callback (fst (process_acrablocks_ev (on_old_envelope_ev ENVELOPE_ID_ACRABLOCK cbs) ((p ++ v) ++ s1)))) as H2.
  { unfold process_acrablocks_ev.
    destruct (ab_candidate_bounds _ _ Hc) as [_ Hmin].
    destruct (Nat.ltb_spec (length ((p ++ v) ++ s1)) AB_MIN_SIZE) as [Hlt|_]; [rewrite !app_length in *; lia|].
    rewrite <- app_assoc. rewrite raw_scan_ev_quiet_prefix.
    2:{ eapply quiet_tag_ext; [|exact Hq4]. rewrite ab_tag_length. exact Hvl. }
    apply (raw_scan_ev_hit _ _ _ _ _ _ (length v)); [exact Hst| exact Hc|].
    rewrite firstn_app_len. apply (on_old_envelope_ev_detects _ pre cb_err pk post v d); assumption. }
  destruct (process_acrablocks_ev _ ((p ++ v) ++ s1)) as [ev2 r2]. cbn [fst] in *.
  left. apply in_or_app. right. exact H2.
Qed.
End Detection.

(** * F. the container pass behind the wrapper is C15's traced scanner *)
Lemma scan_m_ev_events cbs f : forall rest out ch m,
  fst (scan_m_ev f cbs rest out ch m) = fst (scan_ev f cbs rest out ch).
Proof.
  induction f as [|f IH]; intros rest out ch m; [reflexivity|]. cbn [scan_m_ev scan_ev].
  destruct (index_of sc_tag rest) as [i|]; [|reflexivity].
  destruct (sc_extract (skipn i rest)) as [[n c]| |]; [|apply IH|reflexivity].
  destruct (run_callbacks_ev cbs c) as [ev rc].
  destruct rc as [[p|]|e|]; try reflexivity; unfold prepend; cbn [fst]; rewrite IH; reflexivity.
Qed.

Lemma on_column_m_ev_events cbs inb : fst (on_column_m_ev cbs inb) = fst (on_column_ev cbs inb).
Proof. unfold on_column_m_ev, on_column_ev. destruct (_ || _); [reflexivity| apply scan_m_ev_events]. Qed.

Lemma prepend_nil {A} (r : list event * A) : prepend [] r = r.
Proof. destruct r. reflexivity. Qed.

Lemma run_callbacks_ev_wrapper cbs c : run_callbacks_ev (lift wrapper_cb :: cbs) c = run_callbacks_ev cbs c.
Proof. cbn [run_callbacks_ev]. unfold lift, wrapper_cb. rewrite bytes_eqb_refl. apply prepend_nil. Qed.

(** events of the container pass come first in the trace of the wrapper *)
Lemma on_column_old_ev_first_phase cbs inb e :
  In e (fst (on_column_m_ev cbs inb)) -> In e (fst (on_column_old_ev cbs inb)).
Proof.
  unfold on_column_old_ev. destruct (on_column_m_ev cbs inb) as [ev0 r0]. cbn [fst]. intros H.
  destruct r0 as [[[nr ch] m]| |]; try exact H.
  destruct (m || negb (bytes_eqb nr inb)); [exact H|].
  destruct (process_acrastructs_ev _ inb) as [ev1 r1].
  destruct r1 as [out1| |]; cbn [fst]; try (apply in_or_app; left; exact H).
  destruct (process_acrablocks_ev _ out1) as [ev2 r2]. cbn [fst]. apply in_or_app; left; exact H.
Qed.

Section DetectionContainer.
Variable C : crypto.

(** container form behind the wrapper: C15_poison_detected carries over *)
Theorem container_poison_detected_behind_wrapper cb_err pk post (p v s : bytes) id inner d :
  is_envelope id inner v -> poison_opens C pk (v ++ s) = Ok d -> quiet p (v ++ s) ->
  In Callback (fst (on_column_old_ev (lift wrapper_cb :: poison_detector C true cb_err pk :: post) (p ++ v ++ s))).
Proof.
  intros He Hop Hq. apply on_column_old_ev_first_phase.
  unfold on_column_m_ev. cbn [is_nil]. rewrite orb_false_r.
  rewrite (scan_m_ev_ext _ (poison_detector C true cb_err pk :: post) _ (run_callbacks_ev_wrapper _)).
  destruct (poison_detected C cb_err pk post p v s id inner d He Hop Hq) as (evs & r & Hd).
  unfold on_column_ev in Hd. cbn [is_nil] in Hd. rewrite orb_false_r in Hd.
  destruct (Nat.ltb _ _); [discriminate Hd|]. rewrite scan_m_ev_events, Hd. left. reflexivity.
Qed.

(** * G. no false alarm: every callback run exhibits bytes which a poison key opens *)
Definition raw_witness (pk : poison_keys) (buf : bytes) : Prop :=
  exists id j l c d, sc_serialize (firstn l (skipn j buf)) id = Ok c /\ poison_opens C pk c = Ok d.

Lemma on_old_envelope_ev_witness id has cb_err pk cbs raw :
  In Callback (fst (on_old_envelope_ev id (lift wrapper_cb :: poison_detector C has cb_err pk :: map lift cbs) raw)) ->
  exists c d, sc_serialize raw id = Ok c /\ poison_opens C pk c = Ok d.
Proof.
  unfold on_old_envelope_ev. destruct (sc_serialize raw id) as [ser| |]; [|intros []|intros []].
  unfold detector_on_envelope_ev. rewrite run_callbacks_ev_wrapper.
  pose proof (run_callbacks_witness C has cb_err pk cbs ser) as Hw.
  destruct (run_callbacks_ev _ ser) as [ev r]. cbn [fst] in *. intros Hin.
  destruct (Hw Hin) as [d Hd]. eauto.
Qed.

Theorem legacy_callback_has_witness has cb_err pk cbs col :
  let chain := lift wrapper_cb :: poison_detector C has cb_err pk :: map lift cbs in
  In Callback (fst (on_column_old_ev chain col)) ->
  (exists j n c d, sc_extract (skipn j col) = Ok (n, c) /\ poison_opens C pk c = Ok d) \/
  raw_witness pk col \/
  (exists out1, snd (process_acrastructs_ev (on_old_envelope_ev ENVELOPE_ID_ACRASTRUCT chain) col) = Ok out1 /\
                raw_witness pk out1).
Proof.
  intros chain. unfold on_column_old_ev.
  assert (H0 : In Callback (fst (on_column_m_ev chain col)) ->
               exists j n c d, sc_extract (skipn j col) = Ok (n, c) /\ poison_opens C pk c = Ok d).
  { unfold on_column_m_ev. subst chain. cbn [is_nil]. rewrite orb_false_r.
    destruct (Nat.ltb _ _) eqn:El; [intros []|].
    rewrite (scan_m_ev_ext _ (poison_detector C has cb_err pk :: map lift cbs) _ (run_callbacks_ev_wrapper _)).
    rewrite scan_m_ev_events. intros Hin.
    apply (callback_has_witness C has cb_err pk cbs col). unfold on_column_ev. cbn [is_nil]. rewrite El. exact Hin. }
  assert (HW : forall id buf, In Callback (fst (raw_scan_ev (if byte_eqb id ENVELOPE_ID_ACRASTRUCT then as_tag else ab_tag)
                         (if byte_eqb id ENVELOPE_ID_ACRASTRUCT then as_candidate else ab_candidate)
                         (on_old_envelope_ev id chain) (S (length buf)) buf [])) -> raw_witness pk buf).
  { intros id buf Hin. apply raw_scan_ev_witness in Hin as (j & l & Hin).
    apply on_old_envelope_ev_witness in Hin as (c & d & Hs & Hd). exists id, j, l, c, d. split; assumption. }
  destruct (on_column_m_ev chain col) as [ev0 r0]. cbn [fst] in H0.
  destruct r0 as [[[nr ch] m]| |]; cbn [fst]; try (intros Hin; left; apply H0, Hin).
  destruct (m || negb (bytes_eqb nr col)); [intros Hin; left; apply H0, Hin|].
  assert (H1 : In Callback (fst (process_acrastructs_ev (on_old_envelope_ev ENVELOPE_ID_ACRASTRUCT chain) col)) -> raw_witness pk col).
  { unfold process_acrastructs_ev. destruct (Nat.ltb _ _); [intros []|]. apply (HW ENVELOPE_ID_ACRASTRUCT col). }
  destruct (process_acrastructs_ev _ col) as [ev1 r1]. cbn [fst snd] in *.
  destruct r1 as [out1| |]; cbn [fst].
  2,3: intros Hin; apply in_app_or in Hin as [Hin|Hin]; [left; apply H0, Hin| right; left; apply H1, Hin].
  assert (H2 : In Callback (fst (process_acrablocks_ev (on_old_envelope_ev ENVELOPE_ID_ACRABLOCK chain) out1)) -> raw_witness pk out1).
  { unfold process_acrablocks_ev. destruct (Nat.ltb _ _); [intros []|]. apply (HW ENVELOPE_ID_ACRABLOCK out1). }
  destruct (process_acrablocks_ev _ out1) as [ev2 r2]. cbn [fst] in *.
  intros Hin. apply in_app_or in Hin as [Hin|Hin]; [left; apply H0, Hin|].
  apply in_app_or in Hin as [Hin|Hin]; [right; left; apply H1, Hin|].
  right. right. exists out1. split; [reflexivity| apply H2, Hin].
Qed.

(** * H. the trace of the real chain: callback runs only *)
Lemma detector_events_callback has cb_err pk : ecb_events_sat (fun e => e = Callback) (poison_detector C has cb_err pk).
Proof.
  intros c. unfold poison_detector. destruct (negb has); [constructor|].
  destruct (poison_opens C pk c); repeat constructor.
Qed.

Lemma lift_events_callback cb : ecb_events_sat (fun e => e = Callback) (lift cb).
Proof. intros c. constructor. Qed.

Theorem legacy_chain_events_callbacks has cb_err pk s ks col :
  Forall (fun e => e = Callback) (fst (legacy_read_ev C has cb_err pk s ks col)).
Proof.
  apply on_column_old_ev_sat. unfold legacy_chain, proxy_chain.
  constructor; [apply lift_events_callback|]. destruct has; cbn [app].
  - constructor; [apply detector_events_callback|]. constructor; [apply lift_events_callback| constructor].
  - constructor; [apply lift_events_callback| constructor].
Qed.

Lemma all_callbacks_repeat (l : list event) : Forall (fun e => e = Callback) l -> l = repeat Callback (length l).
Proof. induction 1 as [|e l He _ IH]; [reflexivity|]. cbn [length repeat]. rewrite He at 1. f_equal. exact IH. Qed.

(** what the client of the proxy sees for one column value: callback runs, then ONE final event *)
Definition legacy_column_trace has cb_err pk s ks col : list event :=
  finish fst (legacy_read_ev C has cb_err pk s ks col).

Theorem legacy_column_trace_shape has cb_err pk s ks col :
  exists k fin, legacy_column_trace has cb_err pk s ks col = repeat Callback k ++ [fin] /\ is_final fin.
Proof.
  unfold legacy_column_trace, finish.
  exists (length (fst (legacy_read_ev C has cb_err pk s ks col))). eexists. split.
  - f_equal. apply all_callbacks_repeat, legacy_chain_events_callbacks.
  - destruct (snd _); exact I.
Qed.

(** * I. detector absent / detector present: the delivered bytes are those of the plain chain *)
Definition plain_cbs (s : option mask_setting) (ks : keyset) : list (bytes -> res bytes) :=
  [wrapper_cb; decrypt_handler (legacy_proc C s ks)].

Theorem legacy_callbacks_off cb_err pk s ks col :
  legacy_read_ev C false cb_err pk s ks col = ([], on_column_old (plain_cbs s ks) col).
Proof. unfold legacy_read_ev, legacy_chain, proxy_chain. cbn [app]. apply (on_column_old_lift (plain_cbs s ks)). Qed.

Lemma run_callbacks_lift cbs c : run_callbacks_ev (map lift cbs) c = ([], run_callbacks cbs c).
Proof.
  rewrite (surjective_pairing (run_callbacks_ev (map lift cbs) c)).
  rewrite run_callbacks_lift_events, run_callbacks_erase, erase_lift. reflexivity.
Qed.

Theorem on_column_old_ext cbs1 cbs2 inb :
  (forall c, run_callbacks cbs1 c = run_callbacks cbs2 c) -> is_nil cbs1 = is_nil cbs2 ->
  on_column_old cbs1 inb = on_column_old cbs2 inb.
Proof.
  intros H Hn.
  pose proof (on_column_old_lift cbs1 inb) as E1. pose proof (on_column_old_lift cbs2 inb) as E2.
  rewrite (on_column_old_ev_ext (map lift cbs1) (map lift cbs2)) in E1.
  - rewrite E2 in E1. injection E1 as E1. symmetry. exact E1.
  - intros c. rewrite !run_callbacks_lift, H. reflexivity.
  - destruct cbs1, cbs2; try reflexivity; discriminate.
Qed.

Theorem legacy_detector_transparent has pk s ks col :
  snd (legacy_read_ev C has false pk s ks col) = on_column_old (plain_cbs s ks) col.
Proof.
  destruct has; [|rewrite legacy_callbacks_off; reflexivity].
  unfold legacy_read_ev. rewrite on_column_old_erase. apply on_column_old_ext; [|reflexivity].
  intros c. unfold legacy_chain, proxy_chain, plain_cbs. cbn [app map run_callbacks].
  rewrite detector_returns_container, bytes_eqb_refl. reflexivity.
Qed.
End DetectionContainer.

(** * K. masked columns (C11) behind the wrapper, on the pure side *)
(** ** a stored value in container form: whatever C11 shows for the plain detector holds behind the wrapper *)
Lemma scan_m_changed_matched cbs f : forall rest out ch m o ch' m',
  scan_m f cbs rest out ch m = Ok (o, ch', m') -> (ch = true -> m = true) -> (ch' = true -> m' = true).
Proof.
  induction f as [|f IH]; intros rest out ch m o ch' m'; cbn [scan_m]; [discriminate|].
  destruct (index_of sc_tag rest) as [i|]; [|intros [= <- <- <-] H; exact H].
  destruct (sc_extract (skipn i rest)) as [[n c]| |]; [|apply IH|discriminate].
  destruct (run_callbacks cbs c) as [[p|]| |]; try discriminate.
  - intros H _. eapply IH; [exact H| reflexivity].
  - intros H _. eapply IH; [exact H| reflexivity].
Qed.

Lemma scan_ext cbs1 cbs2 f : (forall c, run_callbacks cbs1 c = run_callbacks cbs2 c) ->
  forall rest out ch, scan f cbs1 rest out ch = scan f cbs2 rest out ch.
Proof.
  intros H. induction f as [|f IH]; intros rest out ch; [reflexivity|]. cbn [scan].
  destruct (index_of sc_tag rest) as [i|]; [|reflexivity].
  destruct (sc_extract (skipn i rest)) as [[n c]| |]; [|apply IH|reflexivity].
  rewrite H. destruct (run_callbacks cbs2 c) as [[p|]| |]; try reflexivity; apply IH.
Qed.

Lemma run_callbacks_wrapper cbs c : run_callbacks (wrapper_cb :: cbs) c = run_callbacks cbs c.
Proof. cbn [run_callbacks]. unfold wrapper_cb. rewrite bytes_eqb_refl. reflexivity. Qed.

Theorem container_value_behind_wrapper cbs col out :
  cbs <> [] -> on_column cbs col = Ok (out, true) -> on_column_old (wrapper_cb :: cbs) col = Ok (out, true).
Proof.
  intros Hne Hc.
  assert (on_column (wrapper_cb :: cbs) col = Ok (out, true)) as Hw.
  { rewrite <- Hc. unfold on_column. cbn [is_nil]. rewrite (is_nil_false _ Hne).
    destruct (_ || _); [reflexivity|]. apply scan_ext, run_callbacks_wrapper. }
  pose proof (on_column_m_proj (wrapper_cb :: cbs) col) as P. rewrite Hw in P.
  unfold on_column_old.
  destruct (on_column_m (wrapper_cb :: cbs) col) as [[[o ch] m]| |] eqn:Em; cbn in P; try discriminate.
  injection P as -> ->.
  assert (m = true) as ->.
  { unfold on_column_m in Em. destruct (_ || _); [discriminate Em|].
    eapply scan_m_changed_matched; [exact Em| discriminate| reflexivity]. }
  reflexivity.
Qed.

(** ** a stored value in RAW form: the envelope [v] is replaced by what the wrapper's processor returns *)
Lemma process_acrastructs_nothing proc (t : bytes) : quiet_tag as_tag t [] -> process_acrastructs proc t = Ok t.
Proof.
  intros H. rewrite (app_nil_r' t) at 1. rewrite process_acrastructs_quiet by exact H.
  unfold process_acrastructs. cbn [length]. destruct (Nat.ltb 0 as_min) eqn:E; [cbn [lift_b]; rewrite app_nil_r; reflexivity|].
  vm_compute in E. discriminate.
Qed.

Lemma process_acrablocks_nothing proc (t : bytes) : quiet_tag ab_tag t [] -> process_acrablocks proc t = Ok t.
Proof.
  intros H. rewrite (app_nil_r' t) at 1. rewrite process_acrablocks_quiet by exact H.
  unfold process_acrablocks. cbn [length]. destruct (Nat.ltb 0 AB_MIN_SIZE) eqn:E; [cbn [lift_b]; rewrite app_nil_r; reflexivity|].
  vm_compute in E. discriminate.
Qed.

Theorem old_column_replace_as cbs (p v s y : bytes) :
  no_container (p ++ v ++ s) -> quiet_tag as_tag p (v ++ s) ->
  starts_with as_tag (v ++ s) = true -> as_candidate (v ++ s) = Some (length v) ->
  on_old_envelope ENVELOPE_ID_ACRASTRUCT cbs v = Ok y ->
  quiet_tag as_tag s [] -> quiet_tag ab_tag (p ++ y ++ s) [] ->
  on_column_old cbs (p ++ v ++ s) = Ok (p ++ y ++ s, negb (bytes_eqb (p ++ v ++ s) (p ++ y ++ s))).
Proof.
  intros Hnc Hq Hst Hc Hp Hqs Hqv. rewrite on_column_old_raw by exact Hnc.
  rewrite process_acrastructs_eq.
  rewrite (raw_scan_reveal as_tag as_candidate _ as_min as_tag_ne as_candidate_bounds p v s y Hq Hst Hc Hp).
  rewrite <- process_acrastructs_eq, process_acrastructs_nothing by exact Hqs. cbn [lift_b bind].
  rewrite <- app_assoc. rewrite process_acrablocks_nothing by exact Hqv. reflexivity.
Qed.

Theorem old_column_replace_ab cbs (p v s y : bytes) :
  no_container (p ++ v ++ s) -> quiet_tag as_tag (p ++ v ++ s) [] -> quiet_tag ab_tag p (v ++ s) ->
  starts_with ab_tag (v ++ s) = true -> ab_candidate (v ++ s) = Some (length v) ->
  on_old_envelope ENVELOPE_ID_ACRABLOCK cbs v = Ok y ->
  quiet_tag ab_tag s [] ->
  on_column_old cbs (p ++ v ++ s) = Ok (p ++ y ++ s, negb (bytes_eqb (p ++ v ++ s) (p ++ y ++ s))).
Proof.
  intros Hnc Hq8 Hq Hst Hc Hp Hqs. rewrite on_column_old_raw by exact Hnc.
  rewrite process_acrastructs_nothing by exact Hq8. cbn [bind].
  rewrite process_acrablocks_eq.
  rewrite (raw_scan_reveal ab_tag ab_candidate _ AB_MIN_SIZE ab_tag_ne ab_candidate_bounds p v s y Hq Hst Hc Hp).
  rewrite <- process_acrablocks_eq, process_acrablocks_nothing by exact Hqs. cbn [lift_b bind].
  rewrite <- app_assoc. reflexivity.
Qed.

Section MaskedLegacy.
Variable C : crypto.

Definition legacy_masked_cbs (s : option mask_setting) (ks : keyset) : list (bytes -> res bytes) :=
  wrapper_cb :: masked_cbs C s ks.

Lemma plain_cbs_masked s ks : plain_cbs C s ks = legacy_masked_cbs s ks.
Proof. reflexivity. Qed.

(** a well-formed raw envelope of kind [id] *)
Definition raw_envelope (id : byte) (v : bytes) : Prop := is_envelope id v (sc_layout v id).

(* the wrapper's processor on a raw envelope the reader's keys open *)
Lemma masked_old_envelope_reveals s ks id (v x : bytes) :
  raw_envelope id v -> handler_decrypt C id ks v = Ok x -> length x < length v ->
  on_old_envelope id (legacy_masked_cbs s ks) v = Ok x.
Proof.
  intros He Hd Hl. pose proof He as (_ & Hne & _).
  unfold on_old_envelope. rewrite sc_serialize_ok by exact Hne. cbn [bind].
  unfold detector_on_envelope, legacy_masked_cbs. rewrite run_callbacks_wrapper.
  pose proof (masked_cb_reveals C s ks id v (sc_layout v id) [] x He Hd Hl) as H. rewrite app_nil_r in H.
  rewrite H. cbn [bind].
  destruct (bytes_eqb x (sc_layout v id)) eqn:E; [|reflexivity].
  apply bytes_eqb_eq in E. apply (f_equal (@length byte)) in E. rewrite sc_layout_length in E. lia.
Qed.

(* ... and on one they cannot open: the pattern *)
Lemma masked_old_envelope_masks st ks id (v : bytes) :
  ms_pattern st <> [] -> raw_envelope id v -> cannot_open C ks (sc_layout v id) -> ms_pattern st <> sc_layout v id ->
  on_old_envelope id (legacy_masked_cbs (Some st) ks) v = Ok (ms_pattern st).
Proof.
  intros Hp He Hno Hne. pose proof He as (_ & Hvne & _).
  unfold on_old_envelope. rewrite sc_serialize_ok by exact Hvne. cbn [bind].
  unfold detector_on_envelope, legacy_masked_cbs. rewrite run_callbacks_wrapper.
  assert (registry_match (sc_layout v id) = true) as Hm.
  { pose proof (envelope_matches id v (sc_layout v id) [] He) as H. rewrite app_nil_r in H. exact H. }
  rewrite (masked_cb_masks C st ks _ Hp Hm Hno Hne). cbn [bind].
  destruct (bytes_eqb (ms_pattern st) (sc_layout v id)) eqn:E; [|reflexivity].
  apply bytes_eqb_eq in E. contradiction.
Qed.

(** the tag premises for replacing the raw envelope [v] by [y] inside [p ++ v ++ s] *)
Definition raw_as_at (v : bytes) : Prop :=
  forall s, starts_with as_tag (v ++ s) = true /\ as_candidate (v ++ s) = Some (length v).
Definition raw_ab_at (v : bytes) : Prop :=
  forall s, starts_with ab_tag (v ++ s) = true /\ ab_candidate (v ++ s) = Some (length v).

Definition legacy_quiet_as (p v s y : bytes) : Prop :=
  no_container (p ++ v ++ s) /\ quiet_tag as_tag p (v ++ s) /\ quiet_tag as_tag s [] /\ quiet_tag ab_tag (p ++ y ++ s) [].
Definition legacy_quiet_ab (p v s : bytes) : Prop :=
  no_container (p ++ v ++ s) /\ quiet_tag as_tag (p ++ v ++ s) [] /\ quiet_tag ab_tag p (v ++ s) /\ quiet_tag ab_tag s [].

Lemma replaced_differs (p v s y : bytes) : y <> v -> negb (bytes_eqb (p ++ v ++ s) (p ++ y ++ s)) = true.
Proof.
  intros H. apply negb_true_iff, bytes_eqb_neq. intros E. apply app_inv_head in E.
  apply app_inv_tail in E. apply H. symmetry. exact E.
Qed.
End MaskedLegacy.

(** ** the views of a masked column whose stored value is window + RAW envelope *)
Inductive raw_kind := RawAcraStruct | RawAcraBlock.
Definition kind_id (k : raw_kind) : byte :=
  match k with RawAcraStruct => ENVELOPE_ID_ACRASTRUCT | RawAcraBlock => ENVELOPE_ID_ACRABLOCK end.
Definition raw_at (k : raw_kind) (v : bytes) : Prop :=
  match k with RawAcraStruct => raw_as_at v | RawAcraBlock => raw_ab_at v end.
(* [w] = clear window, [v] = raw envelope, [y] = what stands in its place afterwards *)
Definition window_quiet (k : raw_kind) (st : mask_setting) (w v y : bytes) : Prop :=
  match k with
  | RawAcraStruct => if is_end_masking st then legacy_quiet_as w v [] y else legacy_quiet_as [] v w y
  | RawAcraBlock => if is_end_masking st then legacy_quiet_ab w v [] else legacy_quiet_ab [] v w
  end.

Theorem legacy_raw_view k st cbs (w v y : bytes) :
  raw_at k v -> on_old_envelope (kind_id k) cbs v = Ok y -> y <> v -> window_quiet k st w v y ->
  on_column_old cbs (mask_join st w v) = Ok (mask_join st w y, true).
Proof.
  intros Hat Hp Hne Hq. unfold mask_join. destruct k; cbn [raw_at kind_id window_quiet] in *;
    destruct (is_end_masking st).
  - destruct Hq as (Hnc & Hq1 & Hq2 & Hq3). destruct (Hat []) as [Hst Hc].
    pose proof (old_column_replace_as cbs w v [] y Hnc Hq1 Hst Hc Hp Hq2 Hq3) as H.
    rewrite !app_nil_r in H. rewrite H. f_equal. f_equal.
    pose proof (replaced_differs w v [] y Hne) as Hd. rewrite !app_nil_r in Hd. exact Hd.
  - destruct Hq as (Hnc & Hq1 & Hq2 & Hq3). destruct (Hat w) as [Hst Hc].
    pose proof (old_column_replace_as cbs [] v w y Hnc Hq1 Hst Hc Hp Hq2 Hq3) as H.
    cbn [app] in H. rewrite H. f_equal. f_equal. apply (replaced_differs [] v w y Hne).
  - destruct Hq as (Hnc & Hq1 & Hq2 & Hq3). destruct (Hat []) as [Hst Hc].
    pose proof (old_column_replace_ab cbs w v [] y Hnc Hq1 Hq2 Hst Hc Hp Hq3) as H.
    rewrite !app_nil_r in H. rewrite H. f_equal. f_equal.
    pose proof (replaced_differs w v [] y Hne) as Hd. rewrite !app_nil_r in Hd. exact Hd.
  - destruct Hq as (Hnc & Hq1 & Hq2 & Hq3). destruct (Hat w) as [Hst Hc].
    pose proof (old_column_replace_ab cbs [] v w y Hnc Hq1 Hq2 Hst Hc Hp Hq3) as H.
    cbn [app] in H. rewrite H. f_equal. f_equal. apply (replaced_differs [] v w y Hne).
Qed.

Section MaskedLegacyViews.
Variable C : crypto.

(** the owner gets the original back, for any detector configuration of the proxy (callbacks that do not fail) *)
Theorem legacy_mask_owner_view k st has pk ks (w v h : bytes) :
  raw_envelope (kind_id k) v -> raw_at k v ->
  handler_decrypt C (kind_id k) ks v = Ok h -> length h < length v ->
  window_quiet k st w v h ->
  snd (legacy_read_ev C has false pk (Some st) ks (mask_join st w v)) = Ok (mask_join st w h, true).
Proof.
  intros He Hat Hd Hl Hq. rewrite legacy_detector_transparent, plain_cbs_masked.
  apply (legacy_raw_view k); try assumption.
  - apply masked_old_envelope_reveals; assumption.
  - intros E. rewrite E in Hl. lia.
Qed.

(** every other reader gets exactly window ++ pattern / pattern ++ window *)
Theorem legacy_mask_non_owner_view k st has pk reader (w v : bytes) :
  ms_pattern st <> [] -> raw_envelope (kind_id k) v -> raw_at k v ->
  cannot_open C reader (sc_layout v (kind_id k)) ->
  ms_pattern st <> sc_layout v (kind_id k) -> ms_pattern st <> v ->
  window_quiet k st w v (ms_pattern st) ->
  snd (legacy_read_ev C has false pk (Some st) reader (mask_join st w v))
  = Ok (mask_join st w (ms_pattern st), true).
Proof.
  intros Hp He Hat Hno Hne1 Hne2 Hq. rewrite legacy_detector_transparent, plain_cbs_masked.
  apply (legacy_raw_view k); try assumption.
  apply masked_old_envelope_masks; assumption.
Qed.

(** container form: C11's theorems carry over to the wrapper chain *)
Theorem legacy_container_view s has pk ks col out :
  masked_read C s ks col = Ok (out, true) ->
  snd (legacy_read_ev C has false pk s ks col) = Ok (out, true).
Proof.
  intros H. rewrite legacy_detector_transparent, plain_cbs_masked.
  apply container_value_behind_wrapper; [discriminate| exact H].
Qed.

(** what a poison key set does with a raw envelope *)
Lemma raw_poison_opens pk id v :
  raw_envelope id v -> poison_opens C pk (sc_layout v id) = handler_decrypt C id (poison_keyset pk) v.
Proof.
  intros He. unfold poison_opens.
  pose proof (envelope_process C id v (sc_layout v id) [] (poison_keyset pk) He) as H.
  rewrite app_nil_r in H. exact H.
Qed.

Hypothesis HC : Correct C.

(** the C01 round trip supplies the premises: raw envelopes made by CreateAcrastruct / CreateAcraBlock *)
Theorem raw_acrastruct_facts ks' tape h sb before after :
  h <> [] -> (N.of_nat (length h) < MAXMSG)%N -> good_as_tape tape -> length sb = SEED_LEN ->
  ks_privs ks' = before ++ priv_of C sb :: after ->
  (forall v, Forall (fun p => exists e, as_decrypt C v p [] = Err e) before) ->
  exists v, as_create C tape h (pub_of C sb) [] = Ok v /\
    raw_envelope ENVELOPE_ID_ACRASTRUCT v /\ raw_at RawAcraStruct v /\
    handler_decrypt C ENVELOPE_ID_ACRASTRUCT ks' v = Ok h /\ length h < length v.
Proof.
  intros Hx Hlen Htape Hsb Hprivs Hbefore.
  destruct (as_roundtrip C HC tape h sb [] Htape Hsb Hx Hlen) as (v & Hc & Hval & Hvl & Hdec).
  exists v. split; [exact Hc|].
  assert (v <> []) as Hvne by (intros ->; cbn [length] in Hvl; unfold_consts; lia).
  assert (N.of_nat (length v) < 4294967296)%N as Hvs by (rewrite Hvl; unfold_consts; lia).
  split; [|split; [|split]].
  - repeat split; try assumption. all: unfold handler_match; rewrite byte_eqb_refl; exact Hval.
  - intros s. split; [apply as_validate_starts, Hval|].
    apply as_candidate_valid; [exact Hval| rewrite Hvl; unfold_consts; lia|].
    unfold TWO63. rewrite Hvl. unfold_consts. lia.
  - unfold handler_decrypt. rewrite byte_eqb_refl, Hval. cbn [negb]. rewrite Hprivs.
    rewrite is_nil_false by (destruct before; discriminate).
    apply as_rotated_roundtrip; [exact Hdec| apply Hbefore].
  - rewrite Hvl. unfold_consts. lia.
Qed.

Theorem raw_acrablock_facts ks' tape h key before after :
  h <> [] -> (N.of_nat (length h) < MAXMSG)%N -> good_ab_tape tape -> key <> [] ->
  ks_syms ks' = before ++ key :: after ->
  (forall ek, Forall (fun k => bytes_eqb (ab_key_id k []) (ab_key_id key []) = false
                               \/ cell_decrypt C k [] ek = None) before) ->
  exists v, ab_create C tape h key [] = Ok v /\
    raw_envelope ENVELOPE_ID_ACRABLOCK v /\ raw_at RawAcraBlock v /\
    handler_decrypt C ENVELOPE_ID_ACRABLOCK ks' v = Ok h /\ length h < length v /\ AB_TAG_SIZE <= length v.
Proof.
  intros Hx Hlen Htape Hkey Hsyms Hbefore.
  destruct (ab_roundtrip C HC tape h key [] Htape Hkey Hx Hlen) as (ek & ed & Hc & Hekl & Hedl & Hdec).
  set (v := ab_layout key [] ek ed) in *. exists v. split; [exact Hc|].
  assert (length v = AB_MIN_SIZE + length ek + length ed) as Hvl by apply ab_layout_length.
  assert (v <> []) as Hvne by (intros E0; rewrite E0 in Hvl; cbn [length] in Hvl; unfold_consts; lia).
  assert (N.of_nat (length v) < 4294967296)%N as Hvs by (rewrite Hvl, Hekl, Hedl; unfold_consts; lia).
  assert (N.of_nat (length ek + length ed) < 4294967296)%N as Hsm by (rewrite Hekl, Hedl; unfold_consts; lia).
  assert (Hext : ab_extract v = Ok (length v, v)).
  { rewrite (app_nil_r' v) at 1. apply ab_extract_layout, Hsm. }
  assert (Hab_ne : byte_eqb ENVELOPE_ID_ACRABLOCK ENVELOPE_ID_ACRASTRUCT = false) by reflexivity.
  split; [|split; [|split; [|split]]].
  - repeat split; try assumption. all: unfold handler_match; rewrite Hab_ne, Hext; reflexivity.
  - intros s. split; [apply ab_layout_starts|]. apply ab_candidate_layout; [exact Hsm| rewrite Hekl; unfold_consts; lia].
  - unfold handler_decrypt. rewrite Hab_ne, Hext, Hsyms.
    rewrite is_nil_false by (destruct before; discriminate).
    replace (ab_decrypt C v (before ++ key :: after) []) with (@Ok bytes h); [reflexivity|].
    symmetry. apply Hdec, Hbefore.
  - rewrite Hvl, Hedl. unfold_consts. lia.
  - rewrite Hvl. unfold_consts. lia.
Qed.
End MaskedLegacyViews.

(** * L. the three subscribers of a PostgreSQL proxy and the column loop of a data row *)
Section PgChain.
Variable C : crypto.

Definition pg_view (binary : bool) (sent : bytes) (r : res (bytes * bool)) : res bytes :=
  match r with
  | Ok (out, ch) => Ok (if is_nil out then out else if ch then (if binary then out else pg_encode_hex out) else sent)
  | Err e => Err e
  | Panic => Panic
  end.

(** the three subscribers evaluated: decoder, then the wrapper on the decoded bytes, then the encoder *)
Lemma pg_chain_eval cbs binary data :
  drop_ctx (notify (pg_subscribers cbs binary) ctx0 data) =
  match decode_escaped data with
  | Ok d => (fst (on_column_old_ev cbs d), pg_view binary data (snd (on_column_old_ev cbs d)))
  | Err e =>
      if N.eqb e E_OCTAL
      then (fst (on_column_old_ev cbs data),
            match snd (on_column_old_ev cbs data) with
            | Ok (out, ch) => Ok (if ch then (if binary then out else if is_nil out then out else pg_encode_hex out) else out)
            | Err e => Err e
            | Panic => Panic
            end)
      else ([], Err e)
  | Panic => ([], Panic)
  end.
Proof.
  unfold pg_subscribers, notify, sub_decoder, sub_detector, sub_encoder, drop_ctx, prepend, pg_view, ctx0.
  destruct (decode_escaped data) as [d|e|]; [| |reflexivity].
  - destruct (on_column_old_ev cbs d) as [ev r]. destruct r as [[out ch]| |];
      cbn [fst snd app sx_decrypted sx_encoded orb]; [|reflexivity|reflexivity].
    rewrite app_nil_r. reflexivity.
  - destruct (N.eqb e E_OCTAL); [|reflexivity].
    destruct (on_column_old_ev cbs data) as [ev r]. destruct r as [[out ch]| |];
      cbn [fst snd app sx_decrypted sx_encoded orb]; [|reflexivity|reflexivity].
    rewrite app_nil_r. destruct (is_nil out), ch, binary; reflexivity.
Qed.

(** text format (bytea hex, as the database sends it): the decoder hands the stored bytes to the wrapper, the events
    are exactly the wrapper's, and the client receives the hex form of the wrapper's output when something was
    revealed / replaced, the original text otherwise *)
Theorem pg_column_text has cb_err pk store cid s col :
  let R := legacy_read_ev C has cb_err pk s (client_keys store cid) col in
  pg_column_ev C has cb_err pk store cid s false (pg_encode_hex col) = (fst R, pg_view false (pg_encode_hex col) (snd R)).
Proof.
  intros R. subst R. unfold pg_column_ev. rewrite pg_chain_eval, bytea_hex_roundtrip. reflexivity.
Qed.

(** binary format, for bytes the decoder cannot read as escape text *)
Theorem pg_column_binary has cb_err pk store cid s col :
  decode_escaped col = Err E_OCTAL ->
  let R := legacy_read_ev C has cb_err pk s (client_keys store cid) col in
  pg_column_ev C has cb_err pk store cid s true col
  = (fst R, match snd R with Ok (out, _) => Ok out | Err e => Err e | Panic => Panic end).
Proof.
  intros Hd R. subst R. unfold pg_column_ev. rewrite pg_chain_eval, Hd. cbn [N.eqb E_OCTAL Pos.eqb].
  unfold legacy_read_ev. destruct (snd (on_column_old_ev _ col)) as [[out ch]| |]; try reflexivity.
  destruct ch; reflexivity.
Qed.

(** the reader is the ACCESSING client: the keys come from the session's client id *)
Lemma client_keys_head store cid ks : client_keys ((cid, ks) :: store) cid = ks.
Proof. cbn [client_keys]. rewrite bytes_eqb_refl. reflexivity. Qed.

Lemma client_keys_unknown store cid : (forall id ks, In (id, ks) store -> id <> cid) -> client_keys store cid = no_keys.
Proof.
  induction store as [|[id ks] st IH]; intros H; [reflexivity|]. cbn [client_keys].
  destruct (bytes_eqb id cid) eqn:E.
  - apply bytes_eqb_eq in E. exfalso. eapply H; [left; reflexivity| exact E].
  - apply IH. intros id' ks' Hin. apply (H id' ks'). right. exact Hin.
Qed.

(** ** the column loop *)
Lemma row_ev_spec (f : nat -> bytes -> list event * res bytes) : forall cols i0 ev out,
  row_ev f i0 cols = (ev, Ok out) ->
  length out = length cols /\
  forall k, match nth_error cols k with
            | Some None => nth_error out k = Some None
            | Some (Some d) => exists d', snd (f (i0 + k) d) = Ok d' /\ nth_error out k = Some (Some d')
            | None => True
            end.
Proof.
  induction cols as [|c cols IH]; intros i0 ev out; cbn [row_ev].
  - intros [= <- <-]. split; [reflexivity|]. intros k. destruct k; exact I.
  - destruct c as [d|].
    + destruct (f i0 d) as [ev1 r1] eqn:Ef. destruct r1 as [d'| |]; try discriminate.
      destruct (row_ev f (S i0) cols) as [ev2 r2] eqn:Er. destruct r2 as [l| |]; try discriminate.
      intros [= <- <-]. destruct (IH (S i0) ev2 l Er) as [Hl Hk]. split; [cbn [length]; lia|].
      intros [|k]; cbn [nth_error].
      * exists d'. rewrite Nat.add_0_r, Ef. split; reflexivity.
      * specialize (Hk k). replace (i0 + S k) with (S i0 + k) by lia. exact Hk.
    + destruct (row_ev f (S i0) cols) as [ev2 r2] eqn:Er. destruct r2 as [l| |]; try discriminate.
      intros [= <- <-]. destruct (IH (S i0) ev2 l Er) as [Hl Hk]. split; [cbn [length]; lia|].
      intros [|k]; cbn [nth_error]; [reflexivity|].
      specialize (Hk k). replace (i0 + S k) with (S i0 + k) by lia. exact Hk.
Qed.

(** an event of column [k] is an event of the row, unless an earlier column ended the row (nothing delivered) *)
Lemma row_ev_event (f : nat -> bytes -> list event * res bytes) e : forall cols i0 k d,
  nth_error cols k = Some (Some d) -> In e (fst (f (i0 + k) d)) ->
  In e (fst (row_ev f i0 cols)) \/ forall x, snd (row_ev f i0 cols) <> Ok x.
Proof.
  induction cols as [|c cols IH]; intros i0 k d Hn Hin; [destruct k; discriminate|].
  cbn [row_ev]. destruct k as [|k]; cbn [nth_error] in Hn.
  - injection Hn as ->. rewrite Nat.add_0_r in Hin. destruct (f i0 d) as [ev1 r1]. cbn [fst] in Hin.
    destruct r1 as [d'| |]; [|left; exact Hin|left; exact Hin].
    destruct (row_ev f (S i0) cols) as [ev2 r2]. left. cbn [fst]. apply in_or_app. left. exact Hin.
  - replace (i0 + S k) with (S i0 + k) in Hin by lia. specialize (IH (S i0) k d Hn Hin).
    destruct c as [d0|].
    + destruct (f i0 d0) as [ev1 r1]. destruct r1 as [d'| |]; [|right; intros x; discriminate|right; intros x; discriminate].
      destruct (row_ev f (S i0) cols) as [ev2 r2]. cbn [fst snd] in *.
      destruct IH as [IH|IH]; [left; apply in_or_app; right; exact IH|].
      right. intros x. destruct r2; [exfalso; eapply IH; reflexivity| discriminate| discriminate].
    + destruct (row_ev f (S i0) cols) as [ev2 r2]. cbn [fst snd] in *.
      destruct IH as [IH|IH]; [left; exact IH|].
      right. intros x. destruct r2; [exfalso; eapply IH; reflexivity| discriminate| discriminate].
Qed.

(** which column gets which setting: column [k] of a delivered row is the result of the column chain run with
    the setting at index [k] of the statement's setting list (none when the list is absent, too short, or nil there) *)
Theorem pg_row_column_setting has cb_err pk store cid settings binary cols ev out :
  pg_data_row C has cb_err pk store cid settings binary cols = (ev, Ok out) ->
  length out = length cols /\
  forall k, match nth_error cols k with
            | Some None => nth_error out k = Some None
            | Some (Some d) =>
                exists d', snd (pg_column_ev C has cb_err pk store cid (setting_for settings k) binary d) = Ok d' /\
                           nth_error out k = Some (Some d')
            | None => True
            end.
Proof. intros H. exact (row_ev_spec _ cols 0 ev out H). Qed.

(** callbacks caused by ANY column precede the delivery of the row: they are events of the row, or the row is not
    delivered at all *)
Theorem pg_row_callbacks has cb_err pk store cid settings binary cols k d :
  nth_error cols k = Some (Some d) ->
  In Callback (fst (pg_column_ev C has cb_err pk store cid (setting_for settings k) binary d)) ->
  let R := pg_data_row C has cb_err pk store cid settings binary cols in
  In Callback (fst R) \/ forall x, snd R <> Ok x.
Proof. intros Hn Hin. exact (row_ev_event _ Callback cols 0 k d Hn Hin). Qed.
End PgChain.

(** * M. traces of the real chain with a raw poison record; raw poison records exist for every key history *)
Section Traces.
Variable C : crypto.

Lemma legacy_chain_shape cb_err pk s ks :
  legacy_chain C true cb_err pk s ks
  = [lift wrapper_cb] ++ poison_detector C true cb_err pk :: [lift (decrypt_handler (legacy_proc C s ks))].
Proof. reflexivity. Qed.

Lemma legacy_trace_with_callback has cb_err pk s ks col :
  In Callback (fst (legacy_read_ev C has cb_err pk s ks col)) ->
  exists k fin, legacy_column_trace C has cb_err pk s ks col = repeat Callback (S k) ++ [fin] /\ is_final fin.
Proof.
  intros Hin. unfold legacy_column_trace, finish.
  pose proof (all_callbacks_repeat _ (legacy_chain_events_callbacks C has cb_err pk s ks col)) as Hr.
  destruct (fst (legacy_read_ev C has cb_err pk s ks col)) as [|e l] eqn:E; [destruct Hin|].
  exists (length l). eexists. split; [rewrite Hr; reflexivity|]. destruct (snd _); exact I.
Qed.

Lemma legacy_trace_callback_or_abort has cb_err pk s ks col :
  In Callback (fst (legacy_read_ev C has cb_err pk s ks col)) \/ (forall x, snd (legacy_read_ev C has cb_err pk s ks col) <> Ok x) ->
  exists k fin, legacy_column_trace C has cb_err pk s ks col = repeat Callback k ++ [fin] /\ is_final fin /\
                (k = 0 -> fin = Abort).
Proof.
  intros [Hin|Hno].
  - destruct (legacy_trace_with_callback has cb_err pk s ks col Hin) as (k & fin & Ht & Hf).
    exists (S k), fin. repeat split; try assumption. discriminate.
  - unfold legacy_column_trace, finish.
    pose proof (all_callbacks_repeat _ (legacy_chain_events_callbacks C has cb_err pk s ks col)) as Hr.
    exists (length (fst (legacy_read_ev C has cb_err pk s ks col))). eexists. split; [rewrite <- Hr; reflexivity|].
    destruct (snd (legacy_read_ev C has cb_err pk s ks col)) as [x| |]; [exfalso; eapply Hno; reflexivity| |];
      split; try exact I; reflexivity.
Qed.

(** in the chain the proxies build, for ANY column setting, ANY reader and failing or succeeding callbacks *)
Theorem legacy_raw_as_before_delivery cb_err pk s ks (p v sfx d : bytes) :
  no_container (p ++ v ++ sfx) -> quiet_tag as_tag p (v ++ sfx) ->
  raw_as_at v -> v <> [] -> poison_opens C pk (sc_layout v ENVELOPE_ID_ACRASTRUCT) = Ok d ->
  exists k fin, legacy_column_trace C true cb_err pk s ks (p ++ v ++ sfx) = repeat Callback (S k) ++ [fin] /\ is_final fin.
Proof.
  intros Hnc Hq Hat Hne Hop. apply legacy_trace_with_callback. unfold legacy_read_ev. rewrite legacy_chain_shape.
  destruct (Hat sfx) as [Hst Hc].
  apply (raw_poison_as_detected C _ cb_err pk _ p v sfx d); try assumption.
  constructor; [apply wrapper_transparent| constructor].
Qed.

Theorem legacy_raw_ab_before_delivery cb_err pk s ks (p v sfx d : bytes) :
  no_container (p ++ v ++ sfx) -> quiet_tag as_tag (p ++ v) sfx -> quiet_tag ab_tag p (v ++ sfx) ->
  raw_ab_at v -> AB_TAG_SIZE <= length v -> v <> [] -> poison_opens C pk (sc_layout v ENVELOPE_ID_ACRABLOCK) = Ok d ->
  exists k fin, legacy_column_trace C true cb_err pk s ks (p ++ v ++ sfx) = repeat Callback k ++ [fin] /\ is_final fin /\
                (k = 0 -> fin = Abort).
Proof.
  intros Hnc Hq8 Hq4 Hat Hl Hne Hop. apply legacy_trace_callback_or_abort. unfold legacy_read_ev. rewrite legacy_chain_shape.
  apply (raw_poison_ab_detected C _ cb_err pk _ p v sfx d); try assumption.
  constructor; [apply wrapper_transparent| constructor].
Qed.

Hypothesis HC : Correct C.

Theorem raw_poison_record_asymmetric pk tape data sb before after :
  data <> [] -> (N.of_nat (length data) < MAXMSG)%N -> good_as_tape tape -> length sb = SEED_LEN ->
  pk_privs pk = before ++ priv_of C sb :: after ->
  (forall v, Forall (fun p => exists e, as_decrypt C v p [] = Err e) before) ->
  exists v, as_create C tape data (pub_of C sb) [] = Ok v /\
    create_poison_record C (pub_of C sb) data tape = Ok (sc_layout v ENVELOPE_ID_ACRASTRUCT) /\
    raw_as_at v /\ v <> [] /\ poison_opens C pk (sc_layout v ENVELOPE_ID_ACRASTRUCT) = Ok data.
Proof.
  intros Hx Hlen Htape Hsb Hprivs Hbefore.
  destruct (raw_acrastruct_facts C HC (poison_keyset pk) tape data sb before after Hx Hlen Htape Hsb Hprivs Hbefore)
    as (v & Hc & He & Hat & Hd & Hl).
  pose proof He as (_ & Hne & _).
  exists v. split; [exact Hc|]. split; [|split; [exact Hat| split; [exact Hne|]]].
  - unfold create_poison_record. rewrite Hc. cbn [bind]. apply sc_serialize_ok, Hne.
  - rewrite (raw_poison_opens C pk _ v He). exact Hd.
Qed.

Theorem raw_poison_record_symmetric pk tape data key before after :
  data <> [] -> (N.of_nat (length data) < MAXMSG)%N -> good_ab_tape tape -> key <> [] ->
  pk_syms pk = before ++ key :: after ->
  (forall ek, Forall (fun k => bytes_eqb (ab_key_id k []) (ab_key_id key []) = false
                               \/ cell_decrypt C k [] ek = None) before) ->
  exists v, ab_create C tape data key [] = Ok v /\
    create_sym_poison_record C key data tape = Ok (sc_layout v ENVELOPE_ID_ACRABLOCK) /\
    raw_ab_at v /\ AB_TAG_SIZE <= length v /\ v <> [] /\ poison_opens C pk (sc_layout v ENVELOPE_ID_ACRABLOCK) = Ok data.
Proof.
  intros Hx Hlen Htape Hkey Hsyms Hbefore.
  destruct (raw_acrablock_facts C HC (poison_keyset pk) tape data key before after Hx Hlen Htape Hkey Hsyms Hbefore)
    as (v & Hc & He & Hat & Hd & Hl & Hl4).
  pose proof He as (_ & Hne & _).
  exists v. split; [exact Hc|]. split; [|split; [exact Hat| split; [exact Hl4| split; [exact Hne|]]]].
  - unfold create_sym_poison_record. rewrite Hc. cbn [bind]. apply sc_serialize_ok, Hne.
  - rewrite (raw_poison_opens C pk _ v He). exact Hd.
Qed.
End Traces.
