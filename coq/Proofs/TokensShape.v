(** Shape and no-panic lemmas for the random value generators of the token model (C10). *)
From Acra Require Import Lib.Bytes Lib.Outcome Lib.Sha256 Gen.TokenConsts Model.Tokens Proofs.Tokens.
From Coq Require Import ZifyN ZifyNat ZifyBool.

Definition in_charset (b : byte) : Prop := In b TOK_CHARSET.

(** ** helpers *)
Lemma ok_pair_inj {A B} (a a' : A) (b b' : B) : Ok (a, b) = Ok (a', b') -> a = a' /\ b = b'.
Proof. intros H. injection H. auto. Qed.

(** computed facts about the generated constants *)
Lemma charset_len : length TOK_CHARSET = 62%nat.
Proof. vm_compute. reflexivity. Qed.
Lemma cc_len : length TOK_CC_TLDS = 6%nat.
Proof. vm_compute. reflexivity. Qed.
Lemma all_len : length (TOK_GENERIC_TLDS ++ TOK_CC_TLDS) = 11%nat.
Proof. vm_compute. reflexivity. Qed.
Lemma cc_tld_len : forallb (fun t => Nat.eqb (length t) 3) TOK_CC_TLDS = true.
Proof. vm_compute. reflexivity. Qed.
Lemma all_tld_len :
  forallb (fun t => (3 <=? length t)%nat && (length t <=? 5)%nat) (TOK_GENERIC_TLDS ++ TOK_CC_TLDS) = true.
Proof. vm_compute. reflexivity. Qed.

Lemma cc_tld_len_in tld : In tld TOK_CC_TLDS -> length tld = 3%nat.
Proof.
  intros Hin. pose proof cc_tld_len as F. rewrite forallb_forall in F.
  apply Nat.eqb_eq. exact (F tld Hin).
Qed.
Lemma all_tld_len_in tld : In tld (TOK_GENERIC_TLDS ++ TOK_CC_TLDS) -> (3 <= length tld <= 5)%nat.
Proof.
  intros Hin. pose proof all_tld_len as F. rewrite forallb_forall in F.
  specialize (F tld Hin). apply andb_true_iff in F as [F1 F2].
  apply Nat.leb_le in F1. apply Nat.leb_le in F2. split; assumption.
Qed.

(** ** 1. draw *)
Lemma draw_no_panic : forall n t, draw n t <> Panic.
Proof.
  intros n t. destruct n as [|n]; cbn [draw]; [discriminate|].
  destruct t as [|c r]; [discriminate|].
  destruct (Nat.eqb (length c) (S n)) eqn:E; discriminate.
Qed.

(** ** 2. int31 / int31n *)
Lemma int31_no_panic t : int31 t <> Panic.
Proof.
  unfold int31. pose proof (draw_no_panic 8 t) as D.
  destruct (draw 8 t) as [[c t']|e|]; cbn [bind]; [discriminate|discriminate|exfalso; apply D; reflexivity].
Qed.

Lemma int31_consumes t v t' : int31 t = Ok (v, t') -> length t = S (length t').
Proof.
  unfold int31. destruct t as [|c r]; cbn [draw bind]; [discriminate|].
  destruct (Nat.eqb (length c) 8) eqn:E; cbn [bind]; [|discriminate].
  intros H. apply ok_pair_inj in H as [_ Ht]. subst t'. reflexivity.
Qed.

Lemma int31n_loop_no_panic fuel n max t : int31n_loop fuel n max t <> Panic.
Proof.
  revert t. induction fuel as [|f IH]; intros t; cbn [int31n_loop]; [discriminate|].
  pose proof (int31_no_panic t) as D.
  destruct (int31 t) as [[v t']|e|]; cbn [bind]; [|discriminate|exfalso; apply D; reflexivity].
  destruct (N.ltb max v) eqn:E; [apply IH|discriminate].
Qed.

Lemma int31n_loop_lt fuel n max t v t' :
  n <> 0%N -> int31n_loop fuel n max t = Ok (v, t') -> (v < n)%N.
Proof.
  intros Hn. revert t. induction fuel as [|f IH]; intros t; cbn [int31n_loop]; [discriminate|].
  destruct (int31 t) as [[w t1]|e|] eqn:I; cbn [bind]; [|discriminate..].
  destruct (N.ltb max w) eqn:E; [apply IH|].
  intros H. apply ok_pair_inj in H as [Hv _]. subst v. apply N.mod_lt. exact Hn.
Qed.

Lemma int31n_loop_consumes fuel n max t v t' :
  int31n_loop fuel n max t = Ok (v, t') -> (length t' < length t)%nat.
Proof.
  revert t. induction fuel as [|f IH]; intros t; cbn [int31n_loop]; [discriminate|].
  destruct (int31 t) as [[w t1]|e|] eqn:I; cbn [bind]; [|discriminate..].
  apply int31_consumes in I.
  destruct (N.ltb max w) eqn:E.
  - intros H. specialize (IH t1 H). lia.
  - intros H. apply ok_pair_inj in H as [_ Ht]. subst t'. lia.
Qed.

Lemma pos_land_le p q : (Pos.land p q <= Npos q)%N.
Proof.
  revert q. induction p as [p IH|p IH|]; intros [q|q|]; cbn [Pos.land]; try lia.
  all: specialize (IH q); destruct (Pos.land p q); cbn [Pos.Ndouble Pos.Nsucc_double]; lia.
Qed.

Lemma N_land_le_r a b : (N.land a b <= b)%N.
Proof.
  destruct a as [|p]; destruct b as [|q]; cbn [N.land]; try lia. apply pos_land_le.
Qed.

Lemma int31n_no_panic : forall n t, n <> 0%N -> int31n n t <> Panic.
Proof.
  intros n t Hn. unfold int31n.
  destruct (N.eqb n 0) eqn:E0; [apply N.eqb_eq in E0; contradiction|].
  destruct (N.eqb (N.land n (n - 1)) 0) eqn:E1.
  - pose proof (int31_no_panic t) as D.
    destruct (int31 t) as [[v t']|e|]; cbn [bind]; [discriminate|discriminate|exfalso; apply D; reflexivity].
  - apply int31n_loop_no_panic.
Qed.

Lemma int31n_lt : forall n t v t', n <> 0%N -> int31n n t = Ok (v, t') -> (v < n)%N.
Proof.
  intros n t v t' Hn. unfold int31n.
  destruct (N.eqb n 0) eqn:E0; [discriminate|].
  destruct (N.eqb (N.land n (n - 1)) 0) eqn:E1.
  - destruct (int31 t) as [[w t1]|e|]; cbn [bind]; [|discriminate..].
    intros H. apply ok_pair_inj in H as [Hv _]. subst v.
    pose proof (N_land_le_r w (n - 1)) as L. lia.
  - apply int31n_loop_lt. exact Hn.
Qed.

Lemma int31n_consumes : forall n t v t', int31n n t = Ok (v, t') -> (length t' < length t)%nat.
Proof.
  intros n t v t'. unfold int31n.
  destruct (N.eqb n 0) eqn:E0; [discriminate|].
  destruct (N.eqb (N.land n (n - 1)) 0) eqn:E1.
  - destruct (int31 t) as [[w t1]|e|] eqn:I; cbn [bind]; [|discriminate..].
    apply int31_consumes in I.
    intros H. apply ok_pair_inj in H as [_ Ht]. subst t'. lia.
  - apply int31n_loop_consumes.
Qed.

(** ** 3. random_string *)
Lemma charset_n_nonzero : N.of_nat (length TOK_CHARSET) <> 0%N.
Proof. rewrite charset_len. discriminate. Qed.

Lemma nthb_in_charset i : (i < N.of_nat (length TOK_CHARSET))%N -> in_charset (nthb i TOK_CHARSET).
Proof. intros H. unfold in_charset, nthb. apply nth_In. lia. Qed.

Lemma random_string_shape : forall n t s t',
  random_string n t = Ok (s, t') -> length s = n /\ Forall in_charset s.
Proof.
  induction n as [|n IH]; intros t s t'; cbn [random_string].
  - intros H. apply ok_pair_inj in H as [Hs _]. subst s. split; [reflexivity| constructor].
  - destruct (int31n (N.of_nat (length TOK_CHARSET)) t) as [[i t1]|e|] eqn:I; cbn [bind]; [|discriminate..].
    destruct (random_string n t1) as [[r t2]|e|] eqn:R; cbn [bind]; [|discriminate..].
    intros H. apply ok_pair_inj in H as [Hs _]. subst s.
    destruct (IH _ _ _ R) as [L F].
    apply int31n_lt in I; [|exact charset_n_nonzero].
    split; [cbn [length]; rewrite L; reflexivity|].
    constructor; [apply nthb_in_charset; exact I| exact F].
Qed.

Lemma random_string_no_panic : forall n t, random_string n t <> Panic.
Proof.
  induction n as [|n IH]; intros t; cbn [random_string]; [discriminate|].
  pose proof (int31n_no_panic _ t charset_n_nonzero) as D.
  destruct (int31n (N.of_nat (length TOK_CHARSET)) t) as [[i t1]|e|]; cbn [bind]; [|discriminate|exfalso; apply D; reflexivity].
  specialize (IH t1).
  destruct (random_string n t1) as [[r t2]|e|]; cbn [bind]; [discriminate|discriminate|exfalso; apply IH; reflexivity].
Qed.

(** ** set_nth *)
Lemma set_nth_length i b l : length (set_nth i b l) = length l.
Proof.
  revert i. induction l as [|x r IH]; intros i; destruct i as [|i]; cbn [set_nth length]; try reflexivity.
  rewrite IH. reflexivity.
Qed.

Lemma set_nth_split i b l :
  (i < length l)%nat -> set_nth i b l = firstn i l ++ [b] ++ skipn (S i) l.
Proof.
  revert i. induction l as [|x r IH]; intros i Hi; cbn [length] in Hi; [lia|].
  destruct i as [|i]; cbn [set_nth firstn skipn app]; [reflexivity|].
  rewrite IH by lia. reflexivity.
Qed.

Lemma Forall_firstn_cs {A} (P : A -> Prop) n l : Forall P l -> Forall P (firstn n l).
Proof.
  intros F. revert n. induction F as [|x l Hx F IH]; intros [|n]; cbn [firstn]; constructor; auto.
Qed.
Lemma Forall_skipn_cs {A} (P : A -> Prop) n l : Forall P l -> Forall P (skipn n l).
Proof.
  intros F. revert n. induction F as [|x l Hx F IH]; intros [|n]; cbn [skipn]; auto.
Qed.

(** ** 4. random_email *)
(** the body of [random_email] for lengths >= EMAIL_MIN, over an arbitrary TLD list *)
Definition email_body (tlds : list bytes) (n : nat) (t : tape) : res (bytes * tape) :=
  do (i, t1) <- int31n (N.of_nat (length tlds)) t;
  let tld := nth (N.to_nat i) tlds [] in
  if Nat.ltb n (length tld) then Panic else
  let m := (n - length tld)%nat in
  do (s, t2) <- random_string m t1;
  Ok (set_nth (Nat.div m 2) x40 s ++ tld, t2).

Definition email_tlds (n : nat) : list bytes :=
  if Nat.ltb n EMAIL_LONG then TOK_CC_TLDS else TOK_GENERIC_TLDS ++ TOK_CC_TLDS.

Lemma random_email_eq n t :
  random_email n t = if Nat.ltb n EMAIL_MIN then random_string n t else email_body (email_tlds n) n t.
Proof. reflexivity. Qed.

Lemma email_tlds_nonempty n : N.of_nat (length (email_tlds n)) <> 0%N.
Proof.
  unfold email_tlds. destruct (Nat.ltb n EMAIL_LONG); [rewrite cc_len| rewrite all_len]; discriminate.
Qed.

(** *** the obligations on the two MEASURED thresholds (Gen/TokenConsts.v)
    [EMAIL_MIN] is the length below which no TLD is drawn; from [EMAIL_LONG] on every TLD of the code can
    be drawn, below it only the country TLDs.  For the e-mail shape "a@b" (3 bytes) has to fit in front of
    every TLD that can be drawn; for the absence of a negative slice bound the TLD itself has to fit. *)
Lemma email_min_is_shortest_email : EMAIL_MIN = 6%nat.   (* len "a@b" + the 3 bytes of a country TLD *)
Proof. reflexivity. Qed.
Lemma email_long_leaves_room :
  forallb (fun tld => (length tld + 3 <=? EMAIL_LONG)%nat) (TOK_GENERIC_TLDS ++ TOK_CC_TLDS) = true.
Proof. vm_compute. reflexivity. Qed.
Lemma email_long_tld_fits :
  forallb (fun tld => (length tld <=? EMAIL_LONG)%nat) (TOK_GENERIC_TLDS ++ TOK_CC_TLDS) = true.
Proof. vm_compute. reflexivity. Qed.

(** every TLD that can be chosen for length [n >= 6] is one of the code's and fits *)
Lemma email_tlds_fit_weak n tld :
  (6 <= n)%nat -> In tld (email_tlds n) ->
  In tld (TOK_GENERIC_TLDS ++ TOK_CC_TLDS) /\ (length tld <= n)%nat.
Proof.
  intros Hn. unfold email_tlds. destruct (Nat.ltb n EMAIL_LONG) eqn:L; intros Hin.
  - pose proof (cc_tld_len_in _ Hin) as H3.
    split; [apply in_or_app; right; exact Hin| lia].
  - apply Nat.ltb_ge in L. pose proof email_long_tld_fits as F. rewrite forallb_forall in F.
    specialize (F tld Hin). apply Nat.leb_le in F.
    split; [exact Hin| lia].
Qed.

(** every TLD that can be chosen for length [n >= 6] leaves at least 3 characters *)
Lemma email_tlds_fit n tld :
  (6 <= n)%nat -> In tld (email_tlds n) ->
  In tld (TOK_GENERIC_TLDS ++ TOK_CC_TLDS) /\ (length tld + 3 <= n)%nat.
Proof.
  intros Hn. unfold email_tlds. destruct (Nat.ltb n EMAIL_LONG) eqn:L; intros Hin.
  - pose proof (cc_tld_len_in _ Hin) as H3.
    split; [apply in_or_app; right; exact Hin| lia].
  - apply Nat.ltb_ge in L. pose proof email_long_leaves_room as F. rewrite forallb_forall in F.
    specialize (F tld Hin). apply Nat.leb_le in F.
    split; [exact Hin| lia].
Qed.

Lemma email_body_no_panic n t : (6 <= n)%nat -> email_body (email_tlds n) n t <> Panic.
Proof.
  intros Hn. unfold email_body.
  pose proof (int31n_no_panic _ t (email_tlds_nonempty n)) as D.
  destruct (int31n (N.of_nat (length (email_tlds n))) t) as [[i t1]|e|] eqn:I; cbn [bind];
    [|discriminate|exfalso; apply D; reflexivity].
  apply int31n_lt in I; [|apply email_tlds_nonempty].
  assert (In (nth (N.to_nat i) (email_tlds n) []) (email_tlds n)) as Hin by (apply nth_In; lia).
  apply (email_tlds_fit_weak n _ Hn) in Hin as [_ Hfit].
  cbv zeta.
  destruct (Nat.ltb n (length (nth (N.to_nat i) (email_tlds n) []))) eqn:E;
    [apply Nat.ltb_lt in E; lia|].
  pose proof (random_string_no_panic (n - length (nth (N.to_nat i) (email_tlds n) [])) t1) as P.
  destruct (random_string (n - length (nth (N.to_nat i) (email_tlds n) [])) t1) as [[s t2]|e|]; cbn [bind];
    [discriminate|discriminate|exfalso; apply P; reflexivity].
Qed.

Lemma random_email_no_panic : forall n t, random_email n t <> Panic.
Proof.
  intros n t. rewrite random_email_eq, email_min_is_shortest_email.
  destruct (Nat.ltb n 6) eqn:E.
  - apply random_string_no_panic.
  - apply Nat.ltb_ge in E. apply email_body_no_panic. exact E.
Qed.

(** ** 6. shape of random_email *)
Lemma email_body_shape n t s t' :
  (6 <= n)%nat -> email_body (email_tlds n) n t = Ok (s, t') ->
  length s = n /\
  exists loc dom tld, s = loc ++ [x40] ++ dom ++ tld /\ In tld (TOK_GENERIC_TLDS ++ TOK_CC_TLDS) /\
                      loc <> [] /\ dom <> [] /\ Forall in_charset loc /\ Forall in_charset dom.
Proof.
  intros Hn. unfold email_body.
  destruct (int31n (N.of_nat (length (email_tlds n))) t) as [[i t1]|e|] eqn:I; cbn [bind]; [|discriminate..].
  apply int31n_lt in I; [|apply email_tlds_nonempty].
  assert (In (nth (N.to_nat i) (email_tlds n) []) (email_tlds n)) as Hin by (apply nth_In; lia).
  apply (email_tlds_fit n _ Hn) in Hin as [Hin Hfit].
  cbv zeta. set (tld := nth (N.to_nat i) (email_tlds n) []) in *.
  destruct (Nat.ltb n (length tld)) eqn:E; [discriminate|].
  destruct (random_string (n - length tld) t1) as [[r t2]|e|] eqn:R; cbn [bind]; [|discriminate..].
  intros H. apply ok_pair_inj in H as [Hs _]. subst s.
  destruct (random_string_shape _ _ _ _ R) as [Lr Fr].
  set (m := (n - length tld)%nat) in *.
  assert (3 <= m)%nat as Hm by lia.
  assert (1 <= Nat.div m 2 /\ S (Nat.div m 2) < m)%nat as [Hi1 Hi2] by lia.
  split.
  - rewrite app_length, set_nth_length, Lr. lia.
  - rewrite set_nth_split by lia.
    exists (firstn (Nat.div m 2) r), (skipn (S (Nat.div m 2)) r), tld.
    split; [rewrite <- !app_assoc; reflexivity|].
    split; [exact Hin|].
    split.
    { intros Hnil. apply (f_equal (@length byte)) in Hnil. rewrite firstn_length in Hnil. cbn [length] in Hnil. lia. }
    split.
    { intros Hnil. apply (f_equal (@length byte)) in Hnil. rewrite skipn_length in Hnil. cbn [length] in Hnil. lia. }
    split; [apply Forall_firstn_cs; exact Fr| apply Forall_skipn_cs; exact Fr].
Qed.

Lemma random_email_shape : forall n t s t',
  random_email n t = Ok (s, t') ->
  length s = n /\
  (n < 6 -> Forall in_charset s)%nat /\
  (6 <= n -> exists loc dom tld,
      s = loc ++ [x40] ++ dom ++ tld /\ In tld (TOK_GENERIC_TLDS ++ TOK_CC_TLDS) /\
      loc <> [] /\ dom <> [] /\ Forall in_charset loc /\ Forall in_charset dom)%nat.
Proof.
  intros n t s t'. rewrite random_email_eq, email_min_is_shortest_email.
  destruct (Nat.ltb n 6) eqn:E; intros H.
  - apply Nat.ltb_lt in E. destruct (random_string_shape _ _ _ _ H) as [L F].
    split; [exact L|]. split; [intros _; exact F| intros Hge; lia].
  - apply Nat.ltb_ge in E. destruct (email_body_shape _ _ _ _ E H) as [L X].
    split; [exact L|]. split; [intros Hlt; lia| intros _; exact X].
Qed.

(** ** 5. gen_value *)
Lemma gen_value_no_panic : forall ty v t, gen_value ty v t <> Panic.
Proof.
  intros ty v t. destruct ty; cbn [gen_value].
  - apply draw_no_panic.
  - apply draw_no_panic.
  - apply random_string_no_panic.
  - apply draw_no_panic.
  - apply random_email_no_panic.
Qed.

Lemma gen_value_length : forall ty v t tok t',
  gen_value ty v t = Ok (tok, t') ->
  length tok = match ty with TInt32 => 4%nat | TInt64 => 8%nat | _ => length v end.
Proof.
  intros ty v t tok t'. destruct ty; cbn [gen_value]; intros H.
  - exact (draw_length _ _ _ _ H).
  - exact (draw_length _ _ _ _ H).
  - exact (proj1 (random_string_shape _ _ _ _ H)).
  - exact (draw_length _ _ _ _ H).
  - exact (proj1 (random_email_shape _ _ _ _ H)).
Qed.

(** ** 7. string tokens *)
Lemma gen_value_str_shape : forall v t tok t',
  gen_value TStr v t = Ok (tok, t') -> length tok = length v /\ Forall in_charset tok.
Proof. intros v t tok t' H. cbn [gen_value] in H. exact (random_string_shape _ _ _ _ H). Qed.

(** ** 8. e-mail tokens, positional form (s62): exactly one '@', not first; non-empty domain label in
    front of the TLD; the TLD is the part from the last '.' on *)
Lemma charset_no_at_dot : existsb (fun b => byte_eqb b x40 || byte_eqb b x2e) TOK_CHARSET = false.
Proof. vm_compute. reflexivity. Qed.
Lemma tlds_dot_then_letters :
  forallb (fun tld => match tld with
                      | d :: rest => byte_eqb d x2e && negb (existsb (fun b => byte_eqb b x40 || byte_eqb b x2e) rest)
                      | [] => false end) (TOK_GENERIC_TLDS ++ TOK_CC_TLDS) = true.
Proof. vm_compute. reflexivity. Qed.

Lemma in_charset_not_at_dot b : in_charset b -> b <> x40 /\ b <> x2e.
Proof.
  intros Hin. pose proof charset_no_at_dot as F.
  destruct (existsb (fun b => byte_eqb b x40 || byte_eqb b x2e) TOK_CHARSET) eqn:E; [discriminate|].
  assert (byte_eqb b x40 || byte_eqb b x2e = false) as Hb.
  { destruct (byte_eqb b x40 || byte_eqb b x2e) eqn:B; [|reflexivity].
    assert (existsb (fun b => byte_eqb b x40 || byte_eqb b x2e) TOK_CHARSET = true) as X
      by (apply existsb_exists; exists b; split; [exact Hin| exact B]).
    rewrite X in E. discriminate. }
  apply orb_false_iff in Hb as [B1 B2].
  split; intros ->; rewrite byte_eqb_refl in *; discriminate.
Qed.

Lemma tld_dot_then_letters tld :
  In tld (TOK_GENERIC_TLDS ++ TOK_CC_TLDS) ->
  exists rest, tld = x2e :: rest /\ ~ In x40 rest /\ ~ In x2e rest.
Proof.
  intros Hin. pose proof tlds_dot_then_letters as F. rewrite forallb_forall in F. specialize (F tld Hin).
  destruct tld as [|d rest]; [discriminate|].
  apply andb_true_iff in F as [F1 F2]. apply byte_eqb_eq in F1. subst d.
  exists rest. split; [reflexivity|].
  apply negb_true_iff in F2.
  assert (forall b, In b rest -> byte_eqb b x40 || byte_eqb b x2e = false) as N.
  { intros b Hb. destruct (byte_eqb b x40 || byte_eqb b x2e) eqn:B; [|reflexivity].
    assert (existsb (fun b => byte_eqb b x40 || byte_eqb b x2e) rest = true) as X
      by (apply existsb_exists; exists b; split; [exact Hb| exact B]).
    rewrite X in F2. discriminate. }
  split; intros Hb; specialize (N _ Hb); rewrite byte_eqb_refl in N; cbn in N; discriminate.
Qed.

(** the token read position by position: [a] is the index of the '@', [d] the index of the last '.' *)
Definition email_wellformed (n : nat) (tok : bytes) : Prop :=
  exists a tld rest,
    In tld (TOK_GENERIC_TLDS ++ TOK_CC_TLDS) /\ tld = x2e :: rest /\
    length tok = n /\
    let d := (n - length tld)%nat in
    (0 < a)%nat /\                      (* non-empty local part: the '@' is not the first byte *)
    (a + 1 < d)%nat /\                  (* non-empty domain label between the '@' and the '.' of the TLD *)
    (d < n)%nat /\
    (forall j, nth_error tok j = Some x40 <-> j = a) /\                    (* exactly one '@' *)
    (forall j, nth_error tok j = Some x2e -> (j <= d)%nat) /\ nth_error tok d = Some x2e /\  (* d is the last '.' *)
    (forall j, (j < d)%nat -> j <> a -> exists b, nth_error tok j = Some b /\ in_charset b) /\
    skipn d tok = tld.

Lemma nth_error_app_mid {A} (l1 : list A) x l2 : nth_error (l1 ++ x :: l2) (length l1) = Some x.
Proof. rewrite nth_error_app2 by lia. rewrite Nat.sub_diag. reflexivity. Qed.

Lemma email_decomposition_wellformed (loc dom tld : bytes) :
  In tld (TOK_GENERIC_TLDS ++ TOK_CC_TLDS) -> loc <> [] -> dom <> [] ->
  Forall in_charset loc -> Forall in_charset dom ->
  email_wellformed (length (loc ++ [x40] ++ dom ++ tld)) (loc ++ [x40] ++ dom ++ tld).
Proof.
  intros Hin Hl Hd Fl Fd.
  destruct (tld_dot_then_letters _ Hin) as [rest [Ht [Na Nd]]].
  exists (length loc), tld, rest.
  assert (0 < length loc)%nat as Ll by (destruct loc; [congruence| cbn [length]; lia]).
  assert (0 < length dom)%nat as Ld by (destruct dom; [congruence| cbn [length]; lia]).
  assert (length (loc ++ [x40] ++ dom ++ tld) - length tld = length loc + 1 + length dom)%nat as D
    by (rewrite !app_length; cbn [length]; lia).
  assert (0 < length tld)%nat as Lt by (rewrite Ht; cbn [length]; lia).
  (* every position of the token *)
  assert (forall j b, nth_error (loc ++ [x40] ++ dom ++ tld) j = Some b ->
            (j < length loc /\ in_charset b)%nat \/ (j = length loc /\ b = x40) \/
            (length loc < j < length loc + 1 + length dom /\ in_charset b)%nat \/
            (j = length loc + 1 + length dom /\ b = x2e)%nat \/
            (length loc + 1 + length dom < j /\ In b rest)%nat) as Pos.
  { intros j b Hj.
    destruct (Nat.lt_ge_cases j (length loc)) as [C1|C1].
    { left. split; [exact C1|]. rewrite nth_error_app1 in Hj by exact C1.
      rewrite Forall_forall in Fl. apply Fl. eapply nth_error_In. exact Hj. }
    rewrite nth_error_app2 in Hj by exact C1.
    destruct (j - length loc)%nat as [|k] eqn:K.
    { right. left. cbn in Hj. split; [lia| congruence]. }
    cbn [app nth_error] in Hj.
    destruct (Nat.lt_ge_cases k (length dom)) as [C2|C2].
    { right. right. left. split; [lia|]. rewrite nth_error_app1 in Hj by exact C2.
      rewrite Forall_forall in Fd. apply Fd. eapply nth_error_In. exact Hj. }
    rewrite nth_error_app2 in Hj by exact C2. rewrite Ht in Hj.
    destruct (k - length dom)%nat as [|m] eqn:M.
    { right. right. right. left. cbn in Hj. split; [lia| congruence]. }
    right. right. right. right. cbn [nth_error] in Hj. split; [lia| eapply nth_error_In; exact Hj]. }
  split; [exact Hin|]. split; [exact Ht|]. split; [reflexivity|].
  cbv zeta. rewrite D.
  split; [exact Ll|]. split; [lia|]. split; [rewrite !app_length; cbn [length]; lia|].
  split.
  { intros j. split.
    - intros Hj. destruct (Pos _ _ Hj) as [[_ C]|[[C _]|[[_ C]|[[_ C]|[_ C]]]]].
      + destruct (in_charset_not_at_dot _ C) as [X _]. congruence.
      + exact C.
      + destruct (in_charset_not_at_dot _ C) as [X _]. congruence.
      + discriminate C.
      + contradiction.
    - intros ->. apply nth_error_app_mid. }
  split.
  { intros j Hj. destruct (Pos _ _ Hj) as [[C _]|[[C _]|[[C _]|[[C _]|[_ C]]]]]; try lia. contradiction. }
  split.
  { replace (loc ++ [x40] ++ dom ++ tld) with ((loc ++ [x40] ++ dom) ++ x2e :: rest)
      by (rewrite Ht, <- !app_assoc; reflexivity).
    replace (length loc + 1 + length dom)%nat with (length (loc ++ [x40] ++ dom))
      by (rewrite !app_length; cbn [length]; lia).
    apply nth_error_app_mid. }
  split.
  { intros j Hj Hne.
    destruct (nth_error (loc ++ [x40] ++ dom ++ tld) j) as [b|] eqn:E.
    - exists b. split; [reflexivity|].
      destruct (Pos _ _ E) as [[_ C]|[[C _]|[[_ C]|[[C _]|[C _]]]]]; try exact C; lia.
    - apply nth_error_None in E. rewrite !app_length in E. cbn [length] in E. lia. }
  replace (loc ++ [x40] ++ dom ++ tld) with ((loc ++ [x40] ++ dom) ++ tld) by (rewrite <- !app_assoc; reflexivity).
  replace (length loc + 1 + length dom)%nat with (length (loc ++ [x40] ++ dom))
    by (rewrite !app_length; cbn [length]; lia).
  rewrite skipn_app, skipn_all, Nat.sub_diag. reflexivity.
Qed.

(** for EVERY length from "a@b.cc" on and EVERY tape the generated e-mail token is well-formed *)
Lemma random_email_wellformed : forall n t tok t',
  (6 <= n)%nat -> random_email n t = Ok (tok, t') -> email_wellformed n tok.
Proof.
  intros n t tok t' Hn H.
  destruct (random_email_shape _ _ _ _ H) as [L [_ S]].
  destruct (S Hn) as [loc [dom [tld [E [Hin [Hl [Hd [Fl Fd]]]]]]]].
  pose proof (email_decomposition_wellformed loc dom tld Hin Hl Hd Fl Fd) as W.
  rewrite <- E in W. rewrite L in W. exact W.
Qed.
