(** Shape and no-panic lemmas for the random value generators of the token model (C10). *)
From Acra Require Import Lib.Bytes Lib.Outcome Lib.Sha256 Gen.TokenConsts Model.Tokens Proofs.Tokens.
From Coq Require Import ZifyN ZifyNat ZifyBool.

Definition in_charset (b : byte) : Prop := In b TOK_CHARSET.

(** ** helpers *)
Lemma ok_pair_inj {A B} (a a' : A) (b b' : B) : Ok (a, b) = Ok (a', b') -> a = a' /\ b = b'.
Proof. intros H. injection H. auto. Qed.

(** computed facts about the generated constants *)
Lemma charset_len : length TOK_CHARSET = 62%nat.
Proof. vm_compute. reflexivity. Qed.
Lemma cc_len : length TOK_CC_TLDS = 6%nat.
Proof. vm_compute. reflexivity. Qed.
Lemma all_len : length (TOK_GENERIC_TLDS ++ TOK_CC_TLDS) = 11%nat.
Proof. vm_compute. reflexivity. Qed.
Lemma cc_tld_len : forallb (fun t => Nat.eqb (length t) 3) TOK_CC_TLDS = true.
Proof. vm_compute. reflexivity. Qed.
Lemma all_tld_len :
  forallb (fun t => (3 <=? length t)%nat && (length t <=? 5)%nat) (TOK_GENERIC_TLDS ++ TOK_CC_TLDS) = true.
Proof. vm_compute. reflexivity. Qed.

Lemma cc_tld_len_in tld : In tld TOK_CC_TLDS -> length tld = 3%nat.
Proof.
  intros Hin. pose proof cc_tld_len as F. rewrite forallb_forall in F.
  apply Nat.eqb_eq. exact (F tld Hin).
Qed.
Lemma all_tld_len_in tld : In tld (TOK_GENERIC_TLDS ++ TOK_CC_TLDS) -> (3 <= length tld <= 5)%nat.
Proof.
  intros Hin. pose proof all_tld_len as F. rewrite forallb_forall in F.
  specialize (F tld Hin). apply andb_true_iff in F as [F1 F2].
  apply Nat.leb_le in F1. apply Nat.leb_le in F2. split; assumption.
Qed.

(** ** 1. draw *)
Lemma draw_no_panic : forall n t, draw n t <> Panic.
Proof.
  intros n t. destruct n as [|n]; cbn [draw]; [discriminate|].
  destruct t as [|c r]; [discriminate|].
  destruct (Nat.eqb (length c) (S n)) eqn:E; discriminate.
Qed.

(** ** 2. int31 / int31n *)
Lemma int31_no_panic t : int31 t <> Panic.
Proof.
  unfold int31. pose proof (draw_no_panic 8 t) as D.
  destruct (draw 8 t) as [[c t']|e|]; cbn [bind]; [discriminate|discriminate|exfalso; apply D; reflexivity].
Qed.

Lemma int31_consumes t v t' : int31 t = Ok (v, t') -> length t = S (length t').
Proof.
  unfold int31. destruct t as [|c r]; cbn [draw bind]; [discriminate|].
  destruct (Nat.eqb (length c) 8) eqn:E; cbn [bind]; [|discriminate].
  intros H. apply ok_pair_inj in H as [_ Ht]. subst t'. reflexivity.
Qed.

Lemma int31n_loop_no_panic fuel n max t : int31n_loop fuel n max t <> Panic.
Proof.
  revert t. induction fuel as [|f IH]; intros t; cbn [int31n_loop]; [discriminate|].
  pose proof (int31_no_panic t) as D.
  destruct (int31 t) as [[v t']|e|]; cbn [bind]; [|discriminate|exfalso; apply D; reflexivity].
  destruct (N.ltb max v) eqn:E; [apply IH|discriminate].
Qed.

Lemma int31n_loop_lt fuel n max t v t' :
  n <> 0%N -> int31n_loop fuel n max t = Ok (v, t') -> (v < n)%N.
Proof.
  intros Hn. revert t. induction fuel as [|f IH]; intros t; cbn [int31n_loop]; [discriminate|].
  destruct (int31 t) as [[w t1]|e|] eqn:I; cbn [bind]; [|discriminate..].
  destruct (N.ltb max w) eqn:E; [apply IH|].
  intros H. apply ok_pair_inj in H as [Hv _]. subst v. apply N.mod_lt. exact Hn.
Qed.

Lemma int31n_loop_consumes fuel n max t v t' :
  int31n_loop fuel n max t = Ok (v, t') -> (length t' < length t)%nat.
Proof.
  revert t. induction fuel as [|f IH]; intros t; cbn [int31n_loop]; [discriminate|].
  destruct (int31 t) as [[w t1]|e|] eqn:I; cbn [bind]; [|discriminate..].
  apply int31_consumes in I.
  destruct (N.ltb max w) eqn:E.
  - intros H. specialize (IH t1 H). lia.
  - intros H. apply ok_pair_inj in H as [_ Ht]. subst t'. lia.
Qed.

Lemma pos_land_le p q : (Pos.land p q <= Npos q)%N.
Proof.
  revert q. induction p as [p IH|p IH|]; intros [q|q|]; cbn [Pos.land]; try lia.
  all: specialize (IH q); destruct (Pos.land p q); cbn [Pos.Ndouble Pos.Nsucc_double]; lia.
Qed.

Lemma N_land_le_r a b : (N.land a b <= b)%N.
Proof.
  destruct a as [|p]; destruct b as [|q]; cbn [N.land]; try lia. apply pos_land_le.
Qed.

Lemma int31n_no_panic : forall n t, n <> 0%N -> int31n n t <> Panic.
Proof.
  intros n t Hn. unfold int31n.
  destruct (N.eqb n 0) eqn:E0; [apply N.eqb_eq in E0; contradiction|].
  destruct (N.eqb (N.land n (n - 1)) 0) eqn:E1.
  - pose proof (int31_no_panic t) as D.
    destruct (int31 t) as [[v t']|e|]; cbn [bind]; [discriminate|discriminate|exfalso; apply D; reflexivity].
  - apply int31n_loop_no_panic.
Qed.

Lemma int31n_lt : forall n t v t', n <> 0%N -> int31n n t = Ok (v, t') -> (v < n)%N.
Proof.
  intros n t v t' Hn. unfold int31n.
  destruct (N.eqb n 0) eqn:E0; [discriminate|].
  destruct (N.eqb (N.land n (n - 1)) 0) eqn:E1.
  - destruct (int31 t) as [[w t1]|e|]; cbn [bind]; [|discriminate..].
    intros H. apply ok_pair_inj in H as [Hv _]. subst v.
    pose proof (N_land_le_r w (n - 1)) as L. lia.
  - apply int31n_loop_lt. exact Hn.
Qed.

Lemma int31n_consumes : forall n t v t', int31n n t = Ok (v, t') -> (length t' < length t)%nat.
Proof.
  intros n t v t'. unfold int31n.
  destruct (N.eqb n 0) eqn:E0; [discriminate|].
  destruct (N.eqb (N.land n (n - 1)) 0) eqn:E1.
  - destruct (int31 t) as [[w t1]|e|] eqn:I; cbn [bind]; [|discriminate..].
    apply int31_consumes in I.
    intros H. apply ok_pair_inj in H as [_ Ht]. subst t'. lia.
  - apply int31n_loop_consumes.
Qed.

(** ** 3. random_string *)
Lemma charset_n_nonzero : N.of_nat (length TOK_CHARSET) <> 0%N.
Proof. rewrite charset_len. discriminate. Qed.

Lemma nthb_in_charset i : (i < N.of_nat (length TOK_CHARSET))%N -> in_charset (nthb i TOK_CHARSET).
Proof. intros H. unfold in_charset, nthb. apply nth_In. lia. Qed.

Lemma random_string_shape : forall n t s t',
  random_string n t = Ok (s, t') -> length s = n /\ Forall in_charset s.
Proof.
  induction n as [|n IH]; intros t s t'; cbn [random_string].
  - intros H. apply ok_pair_inj in H as [Hs _]. subst s. split; [reflexivity| constructor].
  - destruct (int31n (N.of_nat (length TOK_CHARSET)) t) as [[i t1]|e|] eqn:I; cbn [bind]; [|discriminate..].
    destruct (random_string n t1) as [[r t2]|e|] eqn:R; cbn [bind]; [|discriminate..].
    intros H. apply ok_pair_inj in H as [Hs _]. subst s.
    destruct (IH _ _ _ R) as [L F].
    apply int31n_lt in I; [|exact charset_n_nonzero].
    split; [cbn [length]; rewrite L; reflexivity|].
    constructor; [apply nthb_in_charset; exact I| exact F].
Qed.

Lemma random_string_no_panic : forall n t, random_string n t <> Panic.
Proof.
  induction n as [|n IH]; intros t; cbn [random_string]; [discriminate|].
  pose proof (int31n_no_panic _ t charset_n_nonzero) as D.
  destruct (int31n (N.of_nat (length TOK_CHARSET)) t) as [[i t1]|e|]; cbn [bind]; [|discriminate|exfalso; apply D; reflexivity].
  specialize (IH t1).
  destruct (random_string n t1) as [[r t2]|e|]; cbn [bind]; [discriminate|discriminate|exfalso; apply IH; reflexivity].
Qed.

(** ** set_nth *)
Lemma set_nth_length i b l : length (set_nth i b l) = length l.
Proof.
  revert i. induction l as [|x r IH]; intros i; destruct i as [|i]; cbn [set_nth length]; try reflexivity.
  rewrite IH. reflexivity.
Qed.

Lemma set_nth_split i b l :
  (i < length l)%nat -> set_nth i b l = firstn i l ++ [b] ++ skipn (S i) l.
Proof.
  revert i. induction l as [|x r IH]; intros i Hi; cbn [length] in Hi; [lia|].
  destruct i as [|i]; cbn [set_nth firstn skipn app]; [reflexivity|].
  rewrite IH by lia. reflexivity.
Qed.

Lemma Forall_firstn_cs {A} (P : A -> Prop) n l : Forall P l -> Forall P (firstn n l).
Proof.
  intros F. revert n. induction F as [|x l Hx F IH]; intros [|n]; cbn [firstn]; constructor; auto.
Qed.
Lemma Forall_skipn_cs {A} (P : A -> Prop) n l : Forall P l -> Forall P (skipn n l).
Proof.
  intros F. revert n. induction F as [|x l Hx F IH]; intros [|n]; cbn [skipn]; auto.
Qed.

(** ** 4. random_email *)
(** the body of [random_email] for lengths >= EMAIL_MIN, over an arbitrary TLD list *)
Definition email_body (tlds : list bytes) (n : nat) (t : tape) : res (bytes * tape) :=
  do (i, t1) <- int31n (N.of_nat (length tlds)) t;
  let tld := nth (N.to_nat i) tlds [] in
  if Nat.ltb n (length tld) then Panic else
  let m := (n - length tld)%nat in
  do (s, t2) <- random_string m t1;
  Ok (set_nth (Nat.div m 2) x40 s ++ tld, t2).

Definition email_tlds (n : nat) : list bytes :=
  if Nat.ltb n EMAIL_LONG then TOK_CC_TLDS else TOK_GENERIC_TLDS ++ TOK_CC_TLDS.

Lemma random_email_eq n t :
  random_email n t = if Nat.ltb n EMAIL_MIN then random_string n t else email_body (email_tlds n) n t.
Proof. reflexivity. Qed.

Lemma email_tlds_nonempty n : N.of_nat (length (email_tlds n)) <> 0%N.
Proof.
  unfold email_tlds. destruct (Nat.ltb n EMAIL_LONG); [rewrite cc_len| rewrite all_len]; discriminate.
Qed.

(** every TLD that can be chosen for length [n >= 6] leaves at least 3 characters *)
Lemma email_tlds_fit n tld :
  (6 <= n)%nat -> In tld (email_tlds n) ->
  In tld (TOK_GENERIC_TLDS ++ TOK_CC_TLDS) /\ (length tld + 3 <= n)%nat.
Proof.
  intros Hn. unfold email_tlds, EMAIL_LONG. destruct (Nat.ltb n 8) eqn:L; intros Hin.
  - apply Nat.ltb_lt in L. pose proof (cc_tld_len_in _ Hin) as H3.
    split; [apply in_or_app; right; exact Hin| lia].
  - apply Nat.ltb_ge in L. pose proof (all_tld_len_in _ Hin) as H5.
    split; [exact Hin| lia].
Qed.

Lemma email_body_no_panic n t : (6 <= n)%nat -> email_body (email_tlds n) n t <> Panic.
Proof.
  intros Hn. unfold email_body.
  pose proof (int31n_no_panic _ t (email_tlds_nonempty n)) as D.
  destruct (int31n (N.of_nat (length (email_tlds n))) t) as [[i t1]|e|] eqn:I; cbn [bind];
    [|discriminate|exfalso; apply D; reflexivity].
  apply int31n_lt in I; [|apply email_tlds_nonempty].
  assert (In (nth (N.to_nat i) (email_tlds n) []) (email_tlds n)) as Hin by (apply nth_In; lia).
  apply (email_tlds_fit n _ Hn) in Hin as [_ Hfit].
  cbv zeta.
  destruct (Nat.ltb n (length (nth (N.to_nat i) (email_tlds n) []))) eqn:E;
    [apply Nat.ltb_lt in E; lia|].
  pose proof (random_string_no_panic (n - length (nth (N.to_nat i) (email_tlds n) [])) t1) as P.
  destruct (random_string (n - length (nth (N.to_nat i) (email_tlds n) [])) t1) as [[s t2]|e|]; cbn [bind];
    [discriminate|discriminate|exfalso; apply P; reflexivity].
Qed.

Lemma random_email_no_panic : forall n t, random_email n t <> Panic.
Proof.
  intros n t. rewrite random_email_eq. unfold EMAIL_MIN.
  destruct (Nat.ltb n 6) eqn:E.
  - apply random_string_no_panic.
  - apply Nat.ltb_ge in E. apply email_body_no_panic. exact E.
Qed.

(** ** 6. shape of random_email *)
Lemma email_body_shape n t s t' :
  (6 <= n)%nat -> email_body (email_tlds n) n t = Ok (s, t') ->
  length s = n /\
  exists loc dom tld, s = loc ++ [x40] ++ dom ++ tld /\ In tld (TOK_GENERIC_TLDS ++ TOK_CC_TLDS) /\
                      loc <> [] /\ dom <> [] /\ Forall in_charset loc /\ Forall in_charset dom.
Proof.
  intros Hn. unfold email_body.
  destruct (int31n (N.of_nat (length (email_tlds n))) t) as [[i t1]|e|] eqn:I; cbn [bind]; [|discriminate..].
  apply int31n_lt in I; [|apply email_tlds_nonempty].
  assert (In (nth (N.to_nat i) (email_tlds n) []) (email_tlds n)) as Hin by (apply nth_In; lia).
  apply (email_tlds_fit n _ Hn) in Hin as [Hin Hfit].
  cbv zeta. set (tld := nth (N.to_nat i) (email_tlds n) []) in *.
  destruct (Nat.ltb n (length tld)) eqn:E; [discriminate|].
  destruct (random_string (n - length tld) t1) as [[r t2]|e|] eqn:R; cbn [bind]; [|discriminate..].
  intros H. apply ok_pair_inj in H as [Hs _]. subst s.
  destruct (random_string_shape _ _ _ _ R) as [Lr Fr].
  set (m := (n - length tld)%nat) in *.
  assert (3 <= m)%nat as Hm by lia.
  assert (1 <= Nat.div m 2 /\ S (Nat.div m 2) < m)%nat as [Hi1 Hi2] by lia.
  split.
  - rewrite app_length, set_nth_length, Lr. lia.
  - rewrite set_nth_split by lia.
    exists (firstn (Nat.div m 2) r), (skipn (S (Nat.div m 2)) r), tld.
    split; [rewrite <- !app_assoc; reflexivity|].
    split; [exact Hin|].
    split.
    { intros Hnil. apply (f_equal (@length byte)) in Hnil. rewrite firstn_length in Hnil. cbn [length] in Hnil. lia. }
    split.
    { intros Hnil. apply (f_equal (@length byte)) in Hnil. rewrite skipn_length in Hnil. cbn [length] in Hnil. lia. }
    split; [apply Forall_firstn_cs; exact Fr| apply Forall_skipn_cs; exact Fr].
Qed.

Lemma random_email_shape : forall n t s t',
  random_email n t = Ok (s, t') ->
  length s = n /\
  (n < 6 -> Forall in_charset s)%nat /\
  (6 <= n -> exists loc dom tld,
      s = loc ++ [x40] ++ dom ++ tld /\ In tld (TOK_GENERIC_TLDS ++ TOK_CC_TLDS) /\
      loc <> [] /\ dom <> [] /\ Forall in_charset loc /\ Forall in_charset dom)%nat.
Proof.
  intros n t s t'. rewrite random_email_eq. unfold EMAIL_MIN.
  destruct (Nat.ltb n 6) eqn:E; intros H.
  - apply Nat.ltb_lt in E. destruct (random_string_shape _ _ _ _ H) as [L F].
    split; [exact L|]. split; [intros _; exact F| intros Hge; lia].
  - apply Nat.ltb_ge in E. destruct (email_body_shape _ _ _ _ E H) as [L X].
    split; [exact L|]. split; [intros Hlt; lia| intros _; exact X].
Qed.

(** ** 5. gen_value *)
Lemma gen_value_no_panic : forall ty v t, gen_value ty v t <> Panic.
Proof.
  intros ty v t. destruct ty; cbn [gen_value].
  - apply draw_no_panic.
  - apply draw_no_panic.
  - apply random_string_no_panic.
  - apply draw_no_panic.
  - apply random_email_no_panic.
Qed.

Lemma gen_value_length : forall ty v t tok t',
  gen_value ty v t = Ok (tok, t') ->
  length tok = match ty with TInt32 => 4%nat | TInt64 => 8%nat | _ => length v end.
Proof.
  intros ty v t tok t'. destruct ty; cbn [gen_value]; intros H.
  - exact (draw_length _ _ _ _ H).
  - exact (draw_length _ _ _ _ H).
  - exact (proj1 (random_string_shape _ _ _ _ H)).
  - exact (draw_length _ _ _ _ H).
  - exact (proj1 (random_email_shape _ _ _ _ H)).
Qed.

(** ** 7. string tokens *)
Lemma gen_value_str_shape : forall v t tok t',
  gen_value TStr v t = Ok (tok, t') -> length tok = length v /\ Forall in_charset tok.
Proof. intros v t tok t' H. cbn [gen_value] in H. exact (random_string_shape _ _ _ _ H). Qed.
