(** s74: plaintexts that merely BEGIN like a serialized container ('%%%' + 8 length bytes + a registered
    envelope id) are plaintexts: they are protected and revealed like any other byte string. *)
From Coq Require Import List Bool NArith ZArith Lia.
From Acra Require Import Lib.Bytes Lib.Outcome Crypto.Interface Gen.Consts Model.Envelope Proofs.Envelope Proofs.EnvelopeHandlers.
Import ListNotations.

(** what a look-alike is: the handler of the column does not match it, and whatever DeserializeEncryptedData
    makes of its header (an error because the declared length does not fit, or some inner bytes and an id)
    is not an envelope of the kind the id byte names *)
Definition header_lookalike (id : byte) (x : bytes) : Prop :=
  handler_match id x = false /\
  forall internal id', sc_deserialize x = Ok (internal, id') -> handler_match id' internal = false.

Lemma header_lookalike_not_protected id x :
  header_lookalike id x -> looks_protected id x = false.
Proof.
  intros [Hh Hd]. unfold looks_protected, registry_match. rewrite Hh. cbn [orb].
  destruct (sc_deserialize x) as [[internal id']| e |] eqn:E; auto.
Qed.

Lemma not_protected_header_lookalike id x :
  looks_protected id x = false -> header_lookalike id x.
Proof.
  unfold looks_protected, registry_match. intros H. apply orb_false_iff in H. destruct H as [Hh Hr].
  split; [exact Hh|]. intros internal id' E. rewrite E in Hr. exact Hr.
Qed.

(** the round trip of a look-alike through the entry points: it is wrapped (the result is a container, hence
    different from the input and itself passed through from then on) and revealed to the same bytes *)
Lemma lookalike_roundtrip_as :
  forall (C : crypto), Correct C ->
  forall (ks ks' : keyset) (tape : list bytes) (x sb : bytes) (before after : list bytes),
  header_lookalike ENVELOPE_ID_ACRASTRUCT x ->
  x <> [] -> (N.of_nat (length x) < MAXMSG)%N -> good_as_tape tape -> length sb = SEED_LEN ->
  ks_pub ks = Some (pub_of C sb) ->
  ks_privs ks' = before ++ priv_of C sb :: after ->
  (forall v, Forall (fun p => exists e, as_decrypt C v p [] = Err e) before) ->
  exists v, encrypt_with_handler C ENVELOPE_ID_ACRASTRUCT ks tape x = Ok v /\
            v <> x /\ looks_protected ENVELOPE_ID_ACRASTRUCT v = true /\
            decrypt_with_handler C ENVELOPE_ID_ACRASTRUCT ks' v = Ok x /\
            registry_process C ks' v = Ok x.
Proof.
  intros C HC ks ks' tape x sb before after Hl Hx Hlen Htape Hsb Hpub Hprivs Hbefore.
  pose proof (header_lookalike_not_protected _ _ Hl) as Hnp.
  destruct (handler_roundtrip_as C HC ks ks' tape x sb before after Hnp Hx Hlen Htape Hsb Hpub Hprivs Hbefore)
    as (v & He & Hd & Hp & Hagain & inner & Hv & Hin & Hil & Hm & _).
  assert (Hlv : looks_protected ENVELOPE_ID_ACRASTRUCT v = true).
  { subst v. apply container_looks_protected; auto. }
  exists v. repeat split; auto.
  intro Hvx. subst x. rewrite Hlv in Hnp. discriminate.
Qed.

Lemma lookalike_roundtrip_ab :
  forall (C : crypto), Correct C ->
  forall (ks ks' : keyset) (tape : list bytes) (x key : bytes) (rest before after : list bytes),
  header_lookalike ENVELOPE_ID_ACRABLOCK x ->
  x <> [] -> (N.of_nat (length x) < MAXMSG)%N -> good_ab_tape tape -> key <> [] ->
  ks_syms ks = key :: rest ->
  ks_syms ks' = before ++ key :: after ->
  (forall ek, Forall (fun k => bytes_eqb (ab_key_id k []) (ab_key_id key []) = false
                               \/ cell_decrypt C k [] ek = None) before) ->
  exists v, encrypt_with_handler C ENVELOPE_ID_ACRABLOCK ks tape x = Ok v /\
            v <> x /\ looks_protected ENVELOPE_ID_ACRABLOCK v = true /\
            decrypt_with_handler C ENVELOPE_ID_ACRABLOCK ks' v = Ok x /\
            registry_process C ks' v = Ok x.
Proof.
  intros C HC ks ks' tape x key rest before after Hl Hx Hlen Htape Hkey Hsyms Hsyms' Hbefore.
  pose proof (header_lookalike_not_protected _ _ Hl) as Hnp.
  destruct (handler_roundtrip_ab C HC ks ks' tape x key rest before after Hnp Hx Hlen Htape Hkey Hsyms Hsyms' Hbefore)
    as (v & He & Hd & Hp & Hagain & inner & Hv & Hin & Hil & Hm & _).
  assert (Hlv : looks_protected ENVELOPE_ID_ACRABLOCK v = true).
  { subst v. apply container_looks_protected; auto. }
  exists v. repeat split; auto.
  intro Hvx. subst x. rewrite Hlv in Hnp. discriminate.
Qed.
