(** C13_statements: the TEXT printer and the TOKEN printer describe the same statement: the tokens of the pieces
    the Format methods print are the token list the round-trip theorem is about. *)
From Acra Require Import Lib.Bytes Gen.Prec Gen.SqlWords Model.SqlStmt Model.SqlStmtText
  Proofs.SqlStmtFacts Proofs.SqlStmtEqns Proofs.SqlStmtPpEqns.
From Coq Require Import Arith Lia.

Section T.
Variable pg : bool.
Notation toks := (toks pg).

Lemma toks_app a b : toks (a ++ b) = toks a ++ toks b.
Proof. unfold SqlStmtText.toks. apply flat_map_app. Qed.
Lemma toks_cons_s a : toks (PS :: a) = toks a. Proof. reflexivity. Qed.
Lemma toks_cons_t t a : toks (PT t :: a) = t :: toks a. Proof. reflexivity. Qed.
Lemma toks_cons_i i a : toks (PI i :: a) = id_tok pg i :: toks a. Proof. reflexivity. Qed.
Lemma toks_cons_r v a : toks (PR v :: a) = raw_tok v :: toks a. Proof. reflexivity. Qed.
Lemma toks_nil : toks [] = []. Proof. reflexivity. Qed.
Lemma toks_sp w : toks (sp w) = [TW w]. Proof. reflexivity. Qed.
Lemma toks_comma : toks comma = [TP PComma]. Proof. reflexivity. Qed.
Lemma toks_words ws : toks (words ws) = map TW ws.
Proof. induction ws as [|w [|w' ws'] IH]; try reflexivity. change (words (w :: w' :: ws')) with (PT (TW w) :: PS :: words (w' :: ws')). rewrite toks_cons_t, toks_cons_s, IH. reflexivity. Qed.
Lemma toks_map_pt l : toks (map PT l) = l.
Proof. induction l as [|t l IH]; [reflexivity|]. cbn [map]. rewrite toks_cons_t, IH. reflexivity. Qed.
Lemma toks_cmp o : toks (pp_cmp o) = cmp_toks o. Proof. destruct o; reflexivity. Qed.
Lemma toks_is s : toks (pp_is s) = is_toks s. Proof. destruct s; reflexivity. Qed.
Lemma toks_between n : toks (pp_between n) = between_toks n. Proof. destruct n; reflexivity. Qed.
Lemma toks_jk k : toks (pp_jk k) = jk_toks k. Proof. destruct k; reflexivity. Qed.
Lemma toks_ut u : toks (pp_ut u) = ut_toks u. Proof. destruct u; reflexivity. Qed.
Lemma toks_dir d : toks (pp_dir d) = dir_toks d. Proof. destruct d; reflexivity. Qed.
Lemma toks_lock l : toks (pp_lock l) = lock_toks l. Proof. destruct l; reflexivity. Qed.
Lemma toks_un o : toks (pp_un o) = [un_tok o]. Proof. destruct o; reflexivity. Qed.
Lemma toks_lit t v cs : toks (pp_lit t v cs) = lit_toks t v ++ map TCast cs.
Proof.
  unfold pp_lit. rewrite toks_app, toks_map_pt. f_equal. induction cs as [|c cs IH]; [reflexivity|]. cbn [map]. rewrite toks_cons_t, IH. reflexivity.
Qed.
Lemma toks_qual q : toks (pp_qual q) = qual_toks pg q.
Proof. induction q as [|a q IH]; [reflexivity|]. cbn [pp_qual qual_toks]. rewrite toks_cons_i, toks_cons_t, IH. reflexivity. Qed.
Lemma toks_col q n : toks (pp_col q n) = col_toks pg q n.
Proof. unfold pp_col, col_toks. rewrite toks_app, toks_qual. reflexivity. Qed.
Lemma toks_tname q n : toks (pp_tname q n) = tname_toks pg q n.
Proof. unfold pp_tname, tname_toks. destruct (id_empty q); reflexivity. Qed.
Lemma toks_alias a : toks (pp_alias a) = alias_toks pg a.
Proof. unfold pp_alias, alias_toks. destruct (id_empty a); reflexivity. Qed.
Lemma toks_idlist l : toks (pp_idlist l) = idlist_toks pg l.
Proof.
  induction l as [|a [|b l'] IH]; try reflexivity.
  change (pp_idlist (a :: b :: l')) with (PI a :: PT (TP PComma) :: PS :: pp_idlist (b :: l')).
  change (idlist_toks pg (a :: b :: l')) with (id_tok pg a :: TP PComma :: idlist_toks pg (b :: l')).
  rewrite toks_cons_i, toks_cons_t, toks_cons_s, IH. reflexivity.
Qed.
Lemma toks_columns l : toks (pp_columns l) = columns_toks pg l.
Proof. unfold pp_columns, columns_toks. rewrite toks_cons_t, toks_app, toks_idlist. reflexivity. Qed.
Lemma toks_ctype c : toks (pp_ctype c) = ctype_toks c.
Proof. destruct c as [ty [l|] [s|]]; reflexivity. Qed.

Ltac tk := repeat (rewrite ?toks_app, ?toks_cons_s, ?toks_cons_t, ?toks_cons_i, ?toks_cons_r, ?toks_nil, ?toks_sp, ?toks_comma, ?toks_words,
  ?toks_map_pt, ?toks_cmp, ?toks_is, ?toks_between, ?toks_jk, ?toks_ut, ?toks_dir, ?toks_lock, ?toks_un, ?toks_lit, ?toks_col, ?toks_qual,
  ?toks_tname, ?toks_alias, ?toks_columns, ?toks_ctype; cbn [map app]).

Definition Te (e : expr) : Prop := toks (pp e) = print pg e.
Definition Txs (xs : exprs) : Prop := toks (pp_exprs xs) = print_exprs pg xs.
Definition Toe (o : oexpr) : Prop := match o with NoE => True | SomeE x => Te x end.
Definition Tws (ws : whens) : Prop := toks (pp_whens ws) = print_whens pg ws.
Definition Tse (s : selexpr) : Prop := toks (pp_selexpr s) = print_selexpr pg s.
Definition Tses (xs : selexprs) : Prop := toks (pp_selexprs xs) = print_selexprs pg xs.
Definition Tsel (s : sel) : Prop := toks (pp_sel s) = print_sel pg s.
Definition Tt (t : texpr) : Prop := toks (pp_texpr t) = print_texpr pg t.
Definition Tts (ts : texprs) : Prop := toks (pp_texprs ts) = print_texprs pg ts.
Definition Tjc (c : jcond) : Prop := toks (pp_jcond c) = print_jcond pg c.
Definition Tos (os : orders) : Prop := forall first, toks (pp_orders first os) = print_orders pg first os.
Definition Tlm (l : lim) : Prop := toks (pp_lim l) = print_lim pg l.

Theorem toks_pp_all :
  (forall e, Te e) /\ (forall xs, Txs xs) /\ (forall o, Toe o) /\ (forall ws, Tws ws) /\ (forall s, Tse s)
  /\ (forall xs, Tses xs) /\ (forall s, Tsel s) /\ (forall t, Tt t) /\ (forall ts, Tts ts) /\ (forall c, Tjc c)
  /\ (forall os, Tos os) /\ (forall l, Tlm l).
Proof.
  apply ast_mutind; unfold Te, Txs, Toe, Tws, Tse, Tses, Tsel, Tt, Tts, Tjc, Tos, Tlm; intros.
  - rewrite pp_EAnd, print_EAnd. tk. rewrite H, H0. reflexivity.
  - rewrite pp_EOr, print_EOr. tk. rewrite H, H0. reflexivity.
  - rewrite pp_ENot, print_ENot. tk. rewrite H. reflexivity.
  - rewrite pp_ECmp, print_ECmp. tk. rewrite H, H0. reflexivity.
  - rewrite pp_ECmpEsc, print_ECmpEsc. tk. rewrite H, H0, H1. reflexivity.
  - rewrite pp_ERange, print_ERange. tk. rewrite H, H0, H1. reflexivity.
  - rewrite pp_EIs, print_EIs. tk. rewrite H. reflexivity.
  - rewrite pp_EExists, print_EExists. tk. rewrite H. reflexivity.
  - rewrite pp_EBin, print_EBin. unfold pp_bin. tk. rewrite H, H0. reflexivity.
  - rewrite pp_EUn, print_EUn. tk. destruct (is_un x); tk; rewrite H; reflexivity.
  - rewrite pp_ECollate, print_ECollate. tk. rewrite H. reflexivity.
  - rewrite pp_ELit, print_ELit. tk. reflexivity.
  - reflexivity.
  - destruct b; reflexivity.
  - reflexivity.
  - rewrite pp_ECol, print_ECol. tk. reflexivity.
  - rewrite pp_EParen, print_EParen. tk. rewrite H. reflexivity.
  - rewrite pp_ETuple, print_ETuple. tk. rewrite H. reflexivity.
  - rewrite pp_ESubq, print_ESubq. tk. rewrite H. reflexivity.
  - rewrite pp_EFunc, print_EFunc. destruct (id_empty q), d; tk; rewrite H; reflexivity.
  - rewrite pp_ECase, print_ECase. tk. rewrite H0.
    destruct x as [|y]; destruct el as [|z]; rewrite ?print_oexpr_NoE, ?print_oexpr_SomeE; cbn [Toe] in *; tk; rewrite ?H, ?H1; rewrite ?app_nil_r; repeat rewrite <- app_assoc; reflexivity.
  - rewrite pp_EConvert, print_EConvert. tk. rewrite H. reflexivity.
  - rewrite pp_EConvertUsing, print_EConvertUsing. tk. rewrite H. reflexivity.
  - rewrite pp_EInterval, print_EInterval. tk. rewrite H. destruct unit; reflexivity.
  - rewrite pp_EValuesFunc, print_EValuesFunc. tk. reflexivity.
  - reflexivity.
  - destruct xs as [|y ys]; [rewrite pp_exprs_XCons, print_exprs_XCons; exact H|].
    rewrite pp_exprs_XCons2, print_exprs_XCons2. tk. rewrite H, H0. reflexivity.
  - exact I.
  - exact H.
  - reflexivity.
  - rewrite pp_whens_WCons, print_whens_WCons. tk. rewrite H, H0, H1. reflexivity.
  - rewrite pp_selexpr_SStar, print_selexpr_SStar. tk. reflexivity.
  - rewrite pp_selexpr_SAliased, print_selexpr_SAliased. tk. rewrite H. reflexivity.
  - reflexivity.
  - destruct xs as [|y ys]; [rewrite pp_selexprs_SCons, print_selexprs_SCons; exact H|].
    rewrite pp_selexprs_SCons2, print_selexprs_SCons2. tk. rewrite H, H0. reflexivity.
  - rewrite pp_sel_Select, print_sel_Select. tk. rewrite H, H0, H4, H5.
    destruct d; destruct wh as [|w]; destruct hv as [|h]; rewrite ?print_oexpr_NoE, ?print_oexpr_SomeE; cbn [Toe] in *;
      destruct gb; tk; rewrite ?H1, ?H3, ?H2; try reflexivity.
  - rewrite pp_sel_Union, print_sel_Union. tk. rewrite H, H0, H1, H2. reflexivity.
  - rewrite pp_sel_ParenSel, print_sel_ParenSel. tk. rewrite H. reflexivity.
  - rewrite pp_texpr_TTable, print_texpr_TTable. tk. reflexivity.
  - rewrite pp_texpr_TSubq, print_texpr_TSubq. tk. rewrite H. reflexivity.
  - rewrite pp_texpr_TParen, print_texpr_TParen. tk. rewrite H. reflexivity.
  - rewrite pp_texpr_TJoin, print_texpr_TJoin. tk. rewrite H, H0, H1. reflexivity.
  - reflexivity.
  - destruct ts as [|y ys]; [rewrite pp_texprs_TCons, print_texprs_TCons; exact H|].
    rewrite pp_texprs_TCons2, print_texprs_TCons2. tk. rewrite H, H0. reflexivity.
  - reflexivity.
  - rewrite pp_jcond_JOn, print_jcond_JOn. tk. rewrite H. reflexivity.
  - rewrite pp_jcond_JUsing, print_jcond_JUsing. tk. reflexivity.
  - reflexivity.
  - rewrite pp_orders_OCons, print_orders_OCons. tk. rewrite H, H0.
    destruct first; tk; destruct x; tk; try reflexivity; destruct (bytes_eqb (lower n) x_rand); tk; reflexivity.
  - reflexivity.
  - rewrite pp_lim_LOnly, print_lim_LOnly. tk. rewrite H. reflexivity.
  - rewrite pp_lim_LOffset, print_lim_LOffset. tk. rewrite H, H0. reflexivity.
  - rewrite pp_lim_LComma, print_lim_LComma. tk. rewrite H, H0. reflexivity.
  - reflexivity.
  - rewrite pp_lim_LAllOffset, print_lim_LAllOffset. tk. rewrite H. reflexivity.
Qed.

Lemma toks_e e : toks (pp e) = print pg e. Proof. exact (proj1 toks_pp_all e). Qed.
Lemma toks_xs xs : toks (pp_exprs xs) = print_exprs pg xs. Proof. exact (proj1 (proj2 toks_pp_all) xs). Qed.
Lemma toks_ses xs : toks (pp_selexprs xs) = print_selexprs pg xs.
Proof. exact (proj1 (proj2 (proj2 (proj2 (proj2 (proj2 toks_pp_all))))) xs). Qed.
Lemma toks_sel s : toks (pp_sel s) = print_sel pg s.
Proof. exact (proj1 (proj2 (proj2 (proj2 (proj2 (proj2 (proj2 toks_pp_all)))))) s). Qed.
Lemma toks_ts ts : toks (pp_texprs ts) = print_texprs pg ts.
Proof. exact (proj1 (proj2 (proj2 (proj2 (proj2 (proj2 (proj2 (proj2 (proj2 toks_pp_all)))))))) ts). Qed.
Lemma toks_os os first : toks (pp_orders first os) = print_orders pg first os.
Proof. exact (proj1 (proj2 (proj2 (proj2 (proj2 (proj2 (proj2 (proj2 (proj2 (proj2 (proj2 toks_pp_all)))))))))) os first). Qed.
Lemma toks_lm l : toks (pp_lim l) = print_lim pg l.
Proof. exact (proj2 (proj2 (proj2 (proj2 (proj2 (proj2 (proj2 (proj2 (proj2 (proj2 (proj2 toks_pp_all)))))))))) l). Qed.

Lemma toks_updates us : toks (pp_updates us) = print_updates pg us.
Proof.
  induction us as [|q n x [|q' n' x' us'] IH]; [reflexivity| |].
  - cbn [pp_updates print_updates]. tk. rewrite toks_e. reflexivity.
  - change (pp_updates (UCons q n x (UCons q' n' x' us'))) with
      (pp_col q n ++ PS :: PT (TP PEq) :: PS :: pp x ++ comma ++ pp_updates (UCons q' n' x' us')).
    change (print_updates pg (UCons q n x (UCons q' n' x' us'))) with
      (col_toks pg q n ++ TP PEq :: print pg x ++ TP PComma :: print_updates pg (UCons q' n' x' us')).
    tk. rewrite toks_e, IH. reflexivity.
Qed.
Lemma toks_rows rs : toks (pp_rows rs) = print_rows pg rs.
Proof.
  induction rs as [|r [|r' rs'] IH]; [reflexivity| |].
  - cbn [pp_rows print_rows]. tk. rewrite toks_xs. reflexivity.
  - change (pp_rows (RCons r (RCons r' rs'))) with
      (PT (TP PLParen) :: pp_exprs r ++ PT (TP PRParen) :: comma ++ pp_rows (RCons r' rs')).
    change (print_rows pg (RCons r (RCons r' rs'))) with
      (TP PLParen :: print_exprs pg r ++ TP PRParen :: TP PComma :: print_rows pg (RCons r' rs')).
    tk. rewrite toks_xs, IH. reflexivity.
Qed.
Lemma toks_where wh : toks (pp_where wh) = print_oexpr pg [TW W_where] wh.
Proof. destruct wh; [reflexivity|]. unfold pp_where. rewrite print_oexpr_SomeE. tk. rewrite toks_e. reflexivity. Qed.
Lemma toks_ret r : toks (pp_ret r) = print_ret pg r.
Proof. unfold pp_ret, print_ret. destruct r; [reflexivity|]. tk. rewrite toks_ses. reflexivity. Qed.
Lemma toks_dup us : toks (pp_dup us) = print_dup pg us.
Proof. unfold pp_dup, print_dup. destruct us; [reflexivity|]. tk. rewrite toks_updates. reflexivity. Qed.

(** the tokens of the pieces String(t) consists of are the token list of the round-trip theorem (every tree) *)
Theorem toks_pp_stmt t : toks (pp_stmt t) = print_stmt pg t.
Proof.
  destruct t as [q|repl ign tq tn cols r dup ret|repl ign tq tn|ts set from wh ob lm ret|ts wh ob lm ret|targets ts wh ret];
    cbn [pp_stmt print_stmt].
  - apply toks_sel.
  - unfold pp_ins_head, ins_head. tk. rewrite toks_dup, toks_ret.
    destruct r as [rs|q]; cbn [pp_irows print_irows]; tk; rewrite ?toks_rows, ?toks_sel;
      destruct ign; destruct cols; tk; reflexivity.
  - unfold pp_ins_head, ins_head. destruct ign; tk; reflexivity.
  - tk. rewrite toks_ts, toks_updates, toks_where, toks_os, toks_lm, toks_ret.
    destruct from; tk; rewrite ?toks_ts; reflexivity.
  - tk. rewrite toks_ts, toks_where, toks_os, toks_lm, toks_ret. reflexivity.
  - tk. rewrite !toks_ts, toks_where, toks_ret. reflexivity.
Qed.
End T.
