(** Proofs about Model/KeyRingV2Ext.v: keystore v2 export -> import at key granularity. *)
From Coq Require Import List NArith ZArith Bool Lia.
From Acra Require Import Lib.Bytes Lib.Outcome Crypto.Interface Gen.KsConsts Gen.X18Consts
  Model.KeyAtRest Model.DerV2Ext Model.KeyRingV2Ext Proofs.DerV2Ext.
Import ListNotations.

(** ---------------- back end ---------------- *)
Lemma b_get_put_same p r b : b_get p (b_put p r b) = Some (sorted_ring r).
Proof. unfold b_put. cbn [b_get]. now rewrite bytes_eqb_refl. Qed.

Lemma b_get_put_other p q r b : q <> p -> b_get q (b_put p r b) = b_get q b.
Proof.
  intros Hne. unfold b_put. cbn [b_get].
  destruct (bytes_eqb q p) eqn:E; [apply bytes_eqb_eq in E; contradiction | reflexivity].
Qed.

(** ---------------- SET OF sorting: a permutation, the identity on at most one element ---------------- *)
Lemma length_ins {A} (y : bytes * A) l : length (ins y l) = S (length l).
Proof.
  induction l as [|z l IH]; cbn [ins]; [reflexivity|].
  destruct (bytes_leb (fst y) (fst z)); cbn [length]; [reflexivity | now rewrite IH].
Qed.
Lemma length_isort {A} (l : list (bytes * A)) : length (isort l) = length l.
Proof.
  induction l as [|y l IH]; cbn [isort fold_right]; [reflexivity|].
  fold (isort l). now rewrite length_ins, IH.
Qed.

Lemma set_of_forall {A} (enc : A -> bytes) (P : A -> Prop) l :
  Forall P l -> Forall P (map snd (set_of enc l)).
Proof.
  intros H. apply Forall_forall. intros x Hx.
  apply (proj1 (in_map_iff _ _ _)) in Hx. destruct Hx as [[e y] [Hy Hin]]. cbn in Hy. subst y.
  unfold set_of in Hin. apply (proj1 (in_isort _ _)) in Hin. apply (proj1 (in_map_iff _ _ _)) in Hin.
  destruct Hin as [z [Hz Hin]]. inversion Hz; subst.
  rewrite Forall_forall in H. now apply H.
Qed.
Lemma set_of_length {A} (enc : A -> bytes) l : length (map snd (set_of enc l)) = length l.
Proof. unfold set_of. now rewrite map_length, length_isort, map_length. Qed.
Lemma set_of_single {A} (enc : A -> bytes) l : (length l <= 1)%nat -> map snd (set_of enc l) = l.
Proof.
  destruct l as [|x [|y l]]; cbn [length]; intros H; [reflexivity | reflexivity | lia].
Qed.

Lemma Forall2_length {A B} (R : A -> B -> Prop) l l' : Forall2 R l l' -> length l = length l'.
Proof. induction 1; cbn; congruence. Qed.

Definition single (k : rkey) : Prop := (length (k_data k) <= 1)%nat.

Lemma sorted_data_single k : single k -> sorted_data k = k.
Proof. intros H. unfold sorted_data. rewrite set_of_single by exact H. now destruct k. Qed.
Lemma sorted_ring_single r : Forall single (r_keys r) -> sorted_ring r = r.
Proof.
  intros H. unfold sorted_ring.
  replace (map sorted_data (r_keys r)) with (r_keys r); [now destruct r|].
  induction H as [|k l Hk _ IH]; cbn [map]; [reflexivity|].
  now rewrite sorted_data_single, <- IH.
Qed.
Lemma sorted_ring_purpose r : r_purpose (sorted_ring r) = r_purpose r.
Proof. reflexivity. Qed.
Lemma sorted_ring_current r : r_current (sorted_ring r) = r_current r.
Proof. reflexivity. Qed.

Section Proofs.
  Variable C : crypto.
  Hypothesis HC : Correct C.

  Definition nonces_ok (tape : list bytes) : Prop := Forall (fun n => length n = NONCE_LEN) tape.
  Definition small (b : bytes) : Prop := (N.of_nat (length b) < MAXMSG)%N.

  (** ---------------- one encrypted field ---------------- *)
  (** [f] is what is stored for the plaintext [plain]: nothing, or one seal under (master, ctx) *)
  Definition stored_for (master ctx plain f : bytes) : Prop :=
    (plain = [] /\ f = []) \/
    (plain <> [] /\ exists n, length n = NONCE_LEN /\ f = seal_enc C master ctx n plain).

  Lemma enc_field_ok master ctx tape plain e t :
    nonces_ok tape -> enc_field C master ctx tape plain = (Ok e, t) ->
    nonces_ok t /\ plain <> [] /\ exists n, length n = NONCE_LEN /\ e = seal_enc C master ctx n plain.
  Proof.
    intros Hn H. unfold enc_field in H. destruct tape as [|n tl]; [discriminate|].
    inversion Hn as [|? ? Hlen Htl]; subst.
    unfold cell_encrypt in H. destruct (is_nil master || is_nil plain) eqn:E; [discriminate|].
    inversion H; subst. apply orb_false_iff in E. destruct E as [_ E].
    split; [exact Htl|]. split; [destruct plain; [discriminate|congruence]|].
    exists n. split; [exact Hlen | reflexivity].
  Qed.
  Lemma enc_field_tape master ctx tape plain x t :
    nonces_ok tape -> enc_field C master ctx tape plain = (x, t) -> nonces_ok t.
  Proof.
    intros Hn H. unfold enc_field in H. destruct tape as [|n tl]; [inversion H; constructor|].
    destruct (cell_encrypt C master ctx n plain); inversion H; subst; [now inversion Hn | exact Hn].
  Qed.

  Lemma stored_for_view master ctx plain f :
    master <> [] -> small plain -> stored_for master ctx plain f ->
    view_field C master ctx f = plain_field plain.
  Proof.
    intros Hm Hs [[Hp Hf]|[Hp [n [Hn Hf]]]]; subst.
    - reflexivity.
    - unfold view_field, plain_field.
      assert (Hlen : length (seal_enc C master ctx n plain) = (SEAL_OVERHEAD + length plain)%nat)
        by (apply (seal_len C HC); exact Hn).
      destruct (seal_enc C master ctx n plain) as [|c0 cs] eqn:Ec; [cbn in Hlen; unfold SEAL_OVERHEAD in Hlen; lia|].
      cbn [is_nil]. unfold cell_decrypt. rewrite (is_nil_false master Hm). cbn [is_nil orb].
      rewrite <- Ec, (seal_rt C HC) by assumption.
      now rewrite (is_nil_false plain Hp).
  Qed.

  (** ---------------- addKeyData / copyKey ---------------- *)
  (** plaintext key data as acra itself produces it *)
  Definition wf_pdata (d : kdata) : Prop :=
    (kd_format d = FORMAT_KEYPAIR -> kd_sym d = []) /\
    (kd_format d = FORMAT_SYMMETRIC -> kd_pub d = [] /\ kd_priv d = []) /\
    small (kd_priv d) /\ small (kd_sym d).

  Definition data_imported (master path : bytes) (seq : Z) (d d' : kdata) : Prop :=
    (kd_format d = FORMAT_KEYPAIR /\ kd_pub d <> [] /\
     kd_format d' = kd_format d /\ kd_pub d' = kd_pub d /\ kd_sym d' = [] /\
     stored_for master (key_ctx path true seq) (kd_priv d) (kd_priv d')) \/
    (kd_format d = FORMAT_SYMMETRIC /\
     kd_format d' = kd_format d /\ kd_pub d' = [] /\ kd_priv d' = [] /\
     stored_for master (key_ctx path false seq) (kd_sym d) (kd_sym d')).

  Lemma add_key_data_ok master path seq tape d acc acc' t :
    nonces_ok tape -> add_key_data C master path seq tape d acc = (Ok acc', t) ->
    nonces_ok t /\ exists d', acc' = acc ++ [d'] /\ data_imported master path seq d d'.
  Proof.
    intros Hn H. unfold add_key_data in H.
    destruct (has_format (kd_format d) acc); [discriminate|].
    destruct (kd_format d =? FORMAT_KEYPAIR)%Z eqn:Ef.
    - apply Z.eqb_eq in Ef.
      destruct (is_nil (kd_pub d)) eqn:Ep; [discriminate|].
      assert (Hpub : kd_pub d <> []) by (destruct (kd_pub d); [discriminate|congruence]).
      destruct (is_nil (kd_priv d)) eqn:Epr.
      + inversion H; subst. split; [exact Hn|]. eexists. split; [reflexivity|].
        left. cbn. repeat split; try assumption. left. split; [|reflexivity].
        destruct (kd_priv d); [reflexivity|discriminate].
      + destruct (enc_field C master (key_ctx path true seq) tape (kd_priv d)) as [x t0] eqn:Ee.
        destruct x as [e|e|]; cbn [bind] in H; inversion H; subst.
        destruct (enc_field_ok _ _ _ _ _ _ Hn Ee) as [Ht [Hp [n [Hl He]]]].
        split; [exact Ht|]. eexists. split; [reflexivity|].
        left. cbn. repeat split; try assumption. right. split; [exact Hp|]. now exists n.
    - destruct (kd_format d =? FORMAT_SYMMETRIC)%Z eqn:Es; [|discriminate].
      apply Z.eqb_eq in Es.
      destruct (is_nil (kd_sym d)) eqn:Ey; [discriminate|].
      destruct (enc_field C master (key_ctx path false seq) tape (kd_sym d)) as [x t0] eqn:Ee.
      destruct x as [e|e|]; cbn [bind] in H; inversion H; subst.
      destruct (enc_field_ok _ _ _ _ _ _ Hn Ee) as [Ht [Hp [n [Hl He]]]].
      split; [exact Ht|]. eexists. split; [reflexivity|].
      right. cbn. repeat split; try assumption. right. split; [exact Hp|]. now exists n.
  Qed.

  Lemma add_all_ok master path seq ds : forall tape acc acc' t,
    nonces_ok tape -> add_all C master path seq tape ds acc = (Ok acc', t) ->
    nonces_ok t /\ exists ds', acc' = acc ++ ds' /\ Forall2 (data_imported master path seq) ds ds'.
  Proof.
    induction ds as [|d r IH]; intros tape acc acc' t Hn H; cbn [add_all] in H.
    - inversion H; subst. split; [exact Hn|]. exists []. split; [now rewrite app_nil_r | constructor].
    - destruct (add_key_data C master path seq tape d acc) as [x t0] eqn:Ea.
      destruct x as [a|e|]; try (inversion H; fail).
      destruct (add_key_data_ok _ _ _ _ _ _ _ _ Hn Ea) as [Ht0 [d' [Ha Hd]]]. subst a.
      destruct (IH _ _ _ _ Ht0 H) as [Ht [ds' [Hacc HF]]].
      split; [exact Ht|]. exists (d' :: ds'). split; [now rewrite Hacc, <- app_assoc | now constructor].
  Qed.

  Lemma data_imported_view master path seq d d' :
    master <> [] -> wf_pdata d -> data_imported master path seq d d' ->
    view_data C master path seq d' = plain_data d.
  Proof.
    intros Hm [Hk [Hs [Hsp Hss]]] [[Hf [Hpub [Hf' [Hp' [Hs' Hst]]]]] | [Hf [Hf' [Hp' [Hpr' Hst]]]]];
      unfold view_data, plain_data.
    - rewrite Hf', Hp', Hs', (Hk Hf). rewrite (stored_for_view _ _ _ _ Hm Hsp Hst). reflexivity.
    - destruct (Hs Hf) as [Hp0 Hpr0]. rewrite Hf', Hp', Hpr', Hp0, Hpr0.
      rewrite (stored_for_view _ _ _ _ Hm Hss Hst). reflexivity.
  Qed.

  Definition wf_pkey (k : rkey) : Prop := Forall wf_pdata (k_data k).

  Lemma copy_key_ok master path tape k k' t :
    master <> [] -> nonces_ok tape -> wf_pkey k ->
    copy_key C master path tape k = (Ok k', t) ->
    nonces_ok t /\ view_key C master path k' = plain_key k /\ length (k_data k') = length (k_data k) /\
    k_seq k' = k_seq k /\ Forall2 (data_imported master path (k_seq k)) (k_data k) (k_data k').
  Proof.
    intros Hm Hn Hwf H. unfold copy_key in H.
    destruct (time_after (k_since k) (k_until k)); [discriminate|].
    destruct (is_nil (k_data k) && negb (k_state k =? STATE_DESTROYED)%Z); [discriminate|].
    destruct (add_all C master path (k_seq k) tape (k_data k) []) as [x t0] eqn:Ea.
    destruct x as [ds|e|]; cbn [bind] in H; inversion H; subst.
    destruct (add_all_ok _ _ _ _ _ _ _ _ Hn Ea) as [Ht [ds' [Hacc HF]]]. cbn [app] in Hacc. subst ds'.
    split; [exact Ht|]. unfold view_key, plain_key. cbn.
    split; [|split; [symmetry; eapply Forall2_length; exact HF | split; [reflexivity | exact HF]]].
    f_equal. unfold wf_pkey in Hwf. clear Ea.
    induction HF as [|d d' l l' Hd _ IH]; cbn [map]; [reflexivity|].
    inversion Hwf; subst. rewrite (data_imported_view _ _ _ _ _ Hm H2 Hd). f_equal. now apply IH.
  Qed.

  Lemma copy_keys_ok master path ks : forall tape ks' t,
    master <> [] -> nonces_ok tape -> Forall wf_pkey ks ->
    copy_keys C master path tape ks = (Ok ks', t) ->
    nonces_ok t /\ map (view_key C master path) ks' = map plain_key ks /\
    Forall2 (fun k k' => length (k_data k') = length (k_data k) /\ k_seq k' = k_seq k /\
                         Forall2 (data_imported master path (k_seq k)) (k_data k) (k_data k')) ks ks'.
  Proof.
    induction ks as [|k r IH]; intros tape ks' t Hm Hn Hwf H; cbn [copy_keys] in H.
    - inversion H; subst. repeat split; [exact Hn | constructor].
    - destruct (copy_key C master path tape k) as [x t0] eqn:Ek.
      destruct x as [k'|e|]; try (inversion H; fail).
      inversion Hwf; subst.
      destruct (copy_key_ok _ _ _ _ _ _ Hm Hn H2 Ek) as [Ht0 [Hv [Hl [Hs HF]]]].
      destruct (copy_keys C master path t0 r) as [y t1] eqn:Er.
      destruct y as [r'|e|]; cbn [bind] in H; inversion H; subst.
      destruct (IH _ _ _ Hm Ht0 H3 Er) as [Ht [Hvs HF2]].
      split; [exact Ht|]. split; [cbn [map]; now rewrite Hv, Hvs | constructor; auto].
  Qed.

  (** ---------------- export ---------------- *)
  Definition private_mode (mode : N) : Prop := (N.land mode EXPORT_PRIVATE_KEYS =? 0)%N = false.

  (** stored key data as acra itself produces it (addKeyData), with fields shorter than 4 GiB *)
  Definition wf_sdata (d : kdata) : Prop :=
    (kd_format d = FORMAT_KEYPAIR -> kd_sym d = []) /\
    (kd_format d = FORMAT_SYMMETRIC -> kd_pub d = [] /\ kd_priv d = []) /\
    small (kd_priv d) /\ small (kd_sym d).

  Lemma dec_field_ok master ctx f p :
    small f -> dec_field C master ctx f = Ok p ->
    plain_field p = view_field C master ctx f /\ small p /\ (f = [] -> p = []).
  Proof.
    intros Hs H. unfold dec_field in H. unfold view_field.
    destruct (is_nil f) eqn:E.
    - inversion H; subst. destruct p; [|discriminate]. repeat split; auto.
    - destruct (cell_decrypt C master ctx f) as [m|] eqn:Ed; cbn in H; inversion H; subst.
      unfold cell_decrypt in Ed. destruct (is_nil master || is_nil f); [discriminate|].
      destruct (seal_dec_len C HC _ _ _ _ Ed) as [Hl Hne].
      unfold plain_field. rewrite (is_nil_false p Hne). repeat split.
      + unfold small in *. rewrite Hl in Hs. lia.
      + intros ->. discriminate.
  Qed.

  Lemma decrypt_key_data_ok master path seq mode d pd :
    private_mode mode -> wf_sdata d ->
    decrypt_key_data C master path seq mode d = Ok pd ->
    plain_data pd = view_data C master path seq d /\ wf_pdata pd.
  Proof.
    intros Hmode [Hk [Hs [Hsp Hss]]] H. unfold decrypt_key_data in H. rewrite Hmode in H.
    destruct (dec_field C master (key_ctx path true seq) (kd_priv d)) as [p|e|] eqn:Ep; cbn [bind] in H; try discriminate.
    destruct (dec_field C master (key_ctx path false seq) (kd_sym d)) as [s|e|] eqn:Es; cbn [bind] in H; try discriminate.
    inversion H; subst.
    destruct (dec_field_ok _ _ _ _ Hsp Ep) as [Hvp [Hpp Hp0]].
    destruct (dec_field_ok _ _ _ _ Hss Es) as [Hvs [Hps Hs0]].
    split.
    - unfold plain_data, view_data. cbn. now rewrite Hvp, Hvs.
    - unfold wf_pdata. cbn. repeat split; try assumption.
      + intros Hf. apply Hs0. now apply Hk.
      + apply (proj1 (Hs H0)).
      + apply Hp0. apply (proj2 (Hs H0)).
  Qed.

  Definition wf_skey (k : rkey) : Prop := Forall wf_sdata (k_data k).

  Lemma map_res_forall2 {A B} (f : A -> res B) (l : list A) : forall l',
    map_res f l = Ok l' -> Forall2 (fun x y => f x = Ok y) l l'.
  Proof.
    induction l as [|x r IH]; intros l' H; cbn [map_res] in H.
    - inversion H. constructor.
    - destruct (f x) as [y|e|] eqn:Ex; cbn [bind] in H; try discriminate.
      destruct (map_res f r) as [ys|e|] eqn:Er; cbn [bind] in H; try discriminate.
      inversion H; subst. constructor; [exact Ex | now apply IH].
  Qed.

  Lemma export_key_ok master path mode k pk :
    private_mode mode -> wf_skey k -> export_key C master path mode k = Ok pk ->
    plain_key pk = view_key C master path k /\ wf_pkey pk /\ length (k_data pk) = length (k_data k).
  Proof.
    intros Hmode Hwf H. unfold export_key in H.
    destruct (map_res (decrypt_key_data C master path (k_seq k) mode) (k_data k)) as [ds|e|] eqn:Em; cbn [bind] in H; try discriminate.
    inversion H; subst. apply map_res_forall2 in Em.
    unfold plain_key, view_key, wf_pkey. cbn.
    assert (HH : map plain_data ds = map (view_data C master path (k_seq k)) (k_data k) /\ Forall wf_pdata ds).
    { unfold wf_skey in Hwf. clear H. induction Em as [|d pd l l' Hd _ IH]; [split; [reflexivity | constructor]|].
      inversion Hwf as [|? ? Hwd Hwl]; subst. destruct (decrypt_key_data_ok _ _ _ _ _ _ Hmode Hwd Hd) as [Hv Hp].
      destruct (IH Hwl) as [Hvs Hps]. split; [cbn [map]; now rewrite Hv, Hvs | now constructor]. }
    destruct HH as [Hv Hp]. rewrite Hv. split; [reflexivity|]. split; [exact Hp|]. symmetry. eapply Forall2_length. exact Em.
  Qed.

  Definition wf_sring (r : ring) : Prop := Forall wf_skey (r_keys r).

  Lemma export_ring_ok master b mode path r pr :
    private_mode mode -> b_get path b = Some r -> wf_sring r ->
    export_ring C master b mode path = Ok pr ->
    plain_ring pr = view_ring C master path r /\ Forall wf_pkey (r_keys pr) /\ r_purpose pr = r_purpose r /\
    Forall2 (fun k pk => length (k_data pk) = length (k_data k)) (r_keys r) (r_keys pr).
  Proof.
    intros Hmode Hget Hwf H. unfold export_ring in H. rewrite Hget in H.
    destruct (map_res (export_key C master path mode) (r_keys r)) as [ks|e|] eqn:Em; cbn [bind] in H; try discriminate.
    inversion H; subst. apply map_res_forall2 in Em. unfold plain_ring, view_ring. cbn.
    assert (HH : map plain_key ks = map (view_key C master path) (r_keys r) /\ Forall wf_pkey ks /\
                 Forall2 (fun k pk => length (k_data pk) = length (k_data k)) (r_keys r) ks).
    { unfold wf_sring in Hwf. clear H Hget. induction Em as [|k pk l l' Hk _ IH]; [repeat split; constructor|].
      inversion Hwf as [|? ? Hwk Hwl]; subst. destruct (export_key_ok _ _ _ _ _ Hmode Hwk Hk) as [Hv [Hp Hl]].
      destruct (IH Hwl) as [Hvs [Hps Hls]]. repeat split; [cbn [map]; now rewrite Hv, Hvs | now constructor | now constructor]. }
    destruct HH as [Hv [Hp Hl]]. rewrite Hv. split; [reflexivity|]. split; [exact Hp|]. split; [reflexivity | exact Hl].
  Qed.

  (** ---------------- import of one ring ---------------- *)
  Definition imports_it (deleg : ring -> ring -> decision) (b : backend) (nr : ring) : Prop :=
    match b_get (r_purpose nr) b with
    | None => True
    | Some cur => deleg cur nr = DOverwrite
    end.

  Lemma import_asn1_ok master b tape path base nr :
    master <> [] -> nonces_ok tape -> Forall wf_pkey (r_keys nr) -> Forall single (r_keys nr) ->
    im_res (import_asn1 C master b tape path base nr) = Ok tt ->
    nonces_ok (im_tape (import_asn1 C master b tape path base nr)) /\
    option_map (view_ring C master path) (b_get path (im_b (import_asn1 C master b tape path base nr))) = Some (plain_ring nr) /\
    forall q, q <> path -> b_get q (im_b (import_asn1 C master b tape path base nr)) = b_get q b.
  Proof.
    intros Hm Hn Hwf Hsingle H. unfold import_asn1 in *.
    destruct (copy_keys C master path tape (r_keys nr)) as [x t] eqn:Ec.
    destruct x as [ks|e|]; cbn in H; try discriminate.
    destruct (copy_keys_ok _ _ _ _ _ _ Hm Hn Hwf Ec) as [Ht [Hv HF]]. cbn [im_b im_tape im_events im_res].
    split; [exact Ht|]. split.
    - rewrite b_get_put_same. cbn [option_map]. f_equal.
      rewrite sorted_ring_single.
      + unfold view_ring, plain_ring. cbn. now rewrite Hv.
      + cbn. clear Ec Hv. induction HF as [|k k' l l' [Hl _] _ IH]; [constructor|].
        inversion Hsingle; subst. inversion Hwf; subst. constructor; [unfold single in *; lia | now apply IH].
    - intros q Hq. now apply b_get_put_other.
  Qed.

  Lemma import_ring_ok master deleg b tape nr :
    master <> [] -> nonces_ok tape -> Forall wf_pkey (r_keys nr) -> Forall single (r_keys nr) ->
    imports_it deleg b nr ->
    im_res (import_ring C master deleg b tape nr) = Ok tt ->
    nonces_ok (im_tape (import_ring C master deleg b tape nr)) /\
    store_view C master (im_b (import_ring C master deleg b tape nr)) (r_purpose nr) = Some (plain_ring nr) /\
    forall q, q <> r_purpose nr -> b_get q (im_b (import_ring C master deleg b tape nr)) = b_get q b.
  Proof.
    intros Hm Hn Hwf Hs Hi H. unfold import_ring, imports_it, store_view in *.
    destruct (b_get (r_purpose nr) b) as [cur|] eqn:Eg.
    - rewrite Hi in *. now apply import_asn1_ok.
    - cbn in H |- *.
      destruct (import_asn1_ok master (b_put (r_purpose nr) (empty_ring (r_purpose nr)) b) tape (r_purpose nr)
                  (empty_ring (r_purpose nr)) nr Hm Hn Hwf Hs H) as [Ht [Hv Hf]].
      split; [exact Ht|]. split; [exact Hv|].
      intros q Hq. rewrite (Hf q Hq). now apply b_get_put_other.
  Qed.

  (** whatever the delegate and the outcome: only the ring named by the bundle entry can change *)
  Lemma import_ring_frame master deleg b tape nr q :
    q <> r_purpose nr -> b_get q (im_b (import_ring C master deleg b tape nr)) = b_get q b.
  Proof.
    intros Hq. unfold import_ring.
    destruct (b_get (r_purpose nr) b) as [cur|].
    - destruct (deleg cur nr); try reflexivity. unfold import_asn1.
      destruct (copy_keys C master (r_purpose nr) tape (r_keys nr)) as [[ks|e|] t]; cbn [im_b]; try reflexivity.
      now apply b_get_put_other.
    - cbn [im_b]. unfold import_asn1.
      destruct (copy_keys C master (r_purpose nr) tape (r_keys nr)) as [[ks|e|] t]; cbn [im_b].
      + rewrite b_get_put_other by exact Hq. now apply b_get_put_other.
      + now apply b_get_put_other.
      + now apply b_get_put_other.
  Qed.

  Lemma import_rings_frame master deleg rs : forall b tape q,
    ~ In q (map r_purpose rs) -> b_get q (im_b (import_rings C master deleg b tape rs)) = b_get q b.
  Proof.
    induction rs as [|nr rest IH]; intros b tape q Hq; cbn [import_rings]; [reflexivity|].
    cbn [map In] in Hq.
    destruct (im_res (import_ring C master deleg b tape nr)) eqn:Er; cbn.
    - rewrite IH by tauto. apply import_ring_frame. intros ->. tauto.
    - apply import_ring_frame. intros ->. tauto.
    - apply import_ring_frame. intros ->. tauto.
  Qed.

  (** a skipped ring (delegate says skip) stays as it is *)
  Lemma import_ring_skip master deleg b tape nr cur :
    b_get (r_purpose nr) b = Some cur -> deleg cur nr = DSkip ->
    im_b (import_ring C master deleg b tape nr) = b /\ im_res (import_ring C master deleg b tape nr) = Ok tt /\
    im_events (import_ring C master deleg b tape nr) = [].
  Proof. intros Hg Hd. unfold import_ring. rewrite Hg, Hd. auto. Qed.

  (** the default delegate never replaces an existing ring *)
  Lemma import_ring_default_conflict master b tape nr cur :
    b_get (r_purpose nr) b = Some cur ->
    im_b (import_ring C master deleg_default b tape nr) = b /\
    im_res (import_ring C master deleg_default b tape nr) = Err E_RING_EXISTS /\
    im_events (import_ring C master deleg_default b tape nr) = [].
  Proof. intros Hg. unfold import_ring. rewrite Hg. cbn. auto. Qed.

  (** ---------------- import of a bundle's ring list ---------------- *)
  Definition wf_pring (nr : ring) : Prop := Forall wf_pkey (r_keys nr) /\ Forall single (r_keys nr).

  (** every ring is imported (new, or the delegate overwrites), whatever the store looks like at that point *)
  Definition always_imports (deleg : ring -> ring -> decision) : Prop := forall cur nr, deleg cur nr = DOverwrite.

  Theorem import_rings_identity master deleg rs : forall b tape,
    master <> [] -> nonces_ok tape -> Forall wf_pring rs -> NoDup (map r_purpose rs) ->
    (always_imports deleg \/ Forall (fun nr => b_get (r_purpose nr) b = None) rs) ->
    im_res (import_rings C master deleg b tape rs) = Ok tt ->
    Forall (fun nr => store_view C master (im_b (import_rings C master deleg b tape rs)) (r_purpose nr) = Some (plain_ring nr)) rs.
  Proof.
    induction rs as [|nr rest IH]; intros b tape Hm Hn Hwf Hnd Hdel H; [constructor|].
    cbn [import_rings] in *. inversion Hwf as [|? ? [Hk Hs] Hwf']; subst.
    cbn [map] in Hnd. inversion Hnd as [|? ? Hnotin Hnd']; subst.
    assert (Hi : imports_it deleg b nr).
    { unfold imports_it. destruct Hdel as [Ha|Hnone].
      - destruct (b_get (r_purpose nr) b); [apply Ha | exact I].
      - inversion Hnone; subst. now rewrite H2. }
    destruct (im_res (import_ring C master deleg b tape nr)) as [[]|e|] eqn:Er; cbn in H; try (rewrite Er in H; discriminate).
    destruct (import_ring_ok _ _ _ _ _ Hm Hn Hk Hs Hi Er) as [Ht [Hv Hf]].
    cbn. constructor.
    - unfold store_view in *. rewrite import_rings_frame by exact Hnotin. exact Hv.
    - apply IH; try assumption.
      destruct Hdel as [Ha|Hnone]; [now left | right].
      inversion Hnone; subst. clear IH H Hwf Hwf' Hnd Hnd'.
      apply Forall_forall. intros x Hx. rewrite Forall_forall in H3.
      rewrite Hf; [now apply H3|]. intros Heq. apply Hnotin. rewrite <- Heq. now apply in_map.
  Qed.

  (** ---------------- what import writes is sealed under the target's master key ---------------- *)
  Definition field_sealed (master ctx f : bytes) : Prop :=
    f = [] \/ exists n plain, f = seal_enc C master ctx n plain.
  Definition data_sealed (master path : bytes) (seq : Z) (d : kdata) : Prop :=
    field_sealed master (key_ctx path true seq) (kd_priv d) /\ field_sealed master (key_ctx path false seq) (kd_sym d).
  Definition key_sealed (master path : bytes) (k : rkey) : Prop := Forall (data_sealed master path (k_seq k)) (k_data k).
  Definition ring_sealed (master path : bytes) (r : ring) : Prop := Forall (key_sealed master path) (r_keys r).

  Lemma stored_for_sealed master ctx plain f : stored_for master ctx plain f -> field_sealed master ctx f.
  Proof. intros [[_ ->]|[_ [n [_ ->]]]]; [now left | right; eauto]. Qed.

  Lemma data_imported_sealed master path seq d d' : data_imported master path seq d d' -> data_sealed master path seq d'.
  Proof.
    intros [[_ [_ [_ [_ [Hs Hst]]]]] | [_ [_ [_ [Hp Hst]]]]]; split.
    - eapply stored_for_sealed; exact Hst.
    - rewrite Hs. now left.
    - rewrite Hp. now left.
    - eapply stored_for_sealed; exact Hst.
  Qed.

  Lemma sorted_ring_sealed master path r : ring_sealed master path r -> ring_sealed master path (sorted_ring r).
  Proof.
    unfold ring_sealed, sorted_ring. cbn. intros H. induction H as [|k l Hk _ IH]; cbn [map]; constructor; [|exact IH].
    unfold key_sealed, sorted_data in *. cbn. now apply set_of_forall.
  Qed.

  Lemma import_asn1_sealed master b tape path base nr :
    nonces_ok tape ->
    Forall (fun e => ring_sealed master (fst e) (snd e)) (im_events (import_asn1 C master b tape path base nr)).
  Proof.
    intros Hn. unfold import_asn1.
    destruct (copy_keys C master path tape (r_keys nr)) as [x t] eqn:Ec.
    destruct x as [ks|e|]; cbn; [|constructor|constructor].
    constructor; [|constructor]. cbn. apply sorted_ring_sealed. unfold ring_sealed. cbn.
    revert tape ks t Hn Ec. induction (r_keys nr) as [|k r IH]; intros tape ks t Hn Ec; cbn [copy_keys] in Ec.
    - inversion Ec. constructor.
    - destruct (copy_key C master path tape k) as [x t0] eqn:Ek.
      destruct x as [k'|e|]; try (inversion Ec; fail).
      destruct (copy_keys C master path t0 r) as [y t1] eqn:Er.
      destruct y as [r'|e|]; cbn [bind] in Ec; inversion Ec; subst.
      unfold copy_key in Ek.
      destruct (time_after (k_since k) (k_until k)); [discriminate|].
      destruct (is_nil (k_data k) && negb (k_state k =? STATE_DESTROYED)%Z); [discriminate|].
      destruct (add_all C master path (k_seq k) tape (k_data k) []) as [z t2] eqn:Ea.
      destruct z as [ds|e|]; cbn [bind] in Ek; inversion Ek; subst.
      destruct (add_all_ok _ _ _ _ _ _ _ _ Hn Ea) as [Ht [ds' [Hacc HF]]]. cbn [app] in Hacc. subst ds'.
      constructor.
      + unfold key_sealed. cbn. clear Ea Ek Ec. induction HF as [|d d' l l' Hd _ IH2]; [constructor|].
        constructor; [|exact IH2]. eapply data_imported_sealed; exact Hd.
      + eapply IH; [exact Ht | exact Er].
  Qed.

  Lemma empty_ring_sealed master path : ring_sealed master path (empty_ring path).
  Proof. constructor. Qed.

  Lemma import_asn1_tape master b tape path base nr :
    nonces_ok tape -> nonces_ok (im_tape (import_asn1 C master b tape path base nr)).
  Proof.
    intros Hn. unfold import_asn1.
    assert (HH : forall ks tape x t, nonces_ok tape -> copy_keys C master path tape ks = (x, t) -> nonces_ok t).
    { clear. intros ks. induction ks as [|k r IH]; intros tape x t Hn H; cbn [copy_keys] in H.
      - inversion H; now subst.
      - destruct (copy_key C master path tape k) as [y t0] eqn:Ek.
        assert (Ht0 : nonces_ok t0).
        { unfold copy_key in Ek.
          destruct (time_after (k_since k) (k_until k)); [inversion Ek; now subst|].
          destruct (is_nil (k_data k) && negb (k_state k =? STATE_DESTROYED)%Z); [inversion Ek; now subst|].
          destruct (add_all C master path (k_seq k) tape (k_data k) []) as [z t2] eqn:Ea. inversion Ek; subst.
          clear Ek. revert Ea Hn. generalize (@nil kdata). generalize tape. clear.
          induction (k_data k) as [|d ds IHd]; intros tape acc Ea Hn; cbn [add_all] in Ea.
          - inversion Ea; now subst.
          - destruct (add_key_data C master path (k_seq k) tape d acc) as [w t3] eqn:Ead.
            assert (Ht3 : nonces_ok t3).
            { unfold add_key_data in Ead.
              repeat match type of Ead with
                     | (if ?c then _ else _) = _ => destruct c
                     | (let (_, _) := ?e in _) = _ => let E := fresh "E" in destruct e eqn:E
                     end; inversion Ead; subst; try assumption;
                eapply enc_field_tape; eauto. }
            destruct w; [eapply IHd; eauto | inversion Ea; now subst | inversion Ea; now subst]. }
        destruct y as [k'|e|]; [|inversion H; now subst|inversion H; now subst].
        destruct (copy_keys C master path t0 r) as [y t1] eqn:Er. inversion H; subst.
        eapply IH; eauto. }
    destruct (copy_keys C master path tape (r_keys nr)) as [x t] eqn:Ec.
    specialize (HH _ _ _ _ Hn Ec). destruct x; cbn; assumption.
  Qed.

  Lemma import_ring_sealed master deleg b tape nr :
    nonces_ok tape ->
    Forall (fun e => ring_sealed master (fst e) (snd e)) (im_events (import_ring C master deleg b tape nr)) /\
    nonces_ok (im_tape (import_ring C master deleg b tape nr)).
  Proof.
    intros Hn. unfold import_ring.
    destruct (b_get (r_purpose nr) b) as [cur|].
    - destruct (deleg cur nr); cbn; try (split; [constructor | exact Hn]).
      split; [now apply import_asn1_sealed | now apply import_asn1_tape].
    - cbn. split; [|now apply import_asn1_tape].
      constructor; [apply empty_ring_sealed | now apply import_asn1_sealed].
  Qed.

  Theorem import_rings_sealed master deleg rs : forall b tape,
    nonces_ok tape ->
    Forall (fun e => ring_sealed master (fst e) (snd e)) (im_events (import_rings C master deleg b tape rs)).
  Proof.
    induction rs as [|nr rest IH]; intros b tape Hn; cbn [import_rings]; [constructor|].
    destruct (import_ring_sealed master deleg b tape nr Hn) as [Hs Ht].
    destruct (im_res (import_ring C master deleg b tape nr)); cbn; try exact Hs.
    apply Forall_app. split; [exact Hs | now apply IH].
  Qed.

  (** the events are exactly what reaches the back end: replaying them gives the final store *)
  Definition apply_events (b : backend) (es : list (bytes * ring)) : backend :=
    fold_left (fun b e => (fst e, snd e) :: b) es b.

  Lemma import_ring_events master deleg b tape nr :
    im_b (import_ring C master deleg b tape nr) = apply_events b (im_events (import_ring C master deleg b tape nr)).
  Proof.
    unfold import_ring, apply_events.
    destruct (b_get (r_purpose nr) b) as [cur|].
    - destruct (deleg cur nr); try reflexivity. unfold import_asn1.
      destruct (copy_keys C master (r_purpose nr) tape (r_keys nr)) as [[ks|e|] t]; reflexivity.
    - unfold import_asn1.
      destruct (copy_keys C master (r_purpose nr) tape (r_keys nr)) as [[ks|e|] t]; reflexivity.
  Qed.

  Theorem import_rings_events master deleg rs : forall b tape,
    im_b (import_rings C master deleg b tape rs) = apply_events b (im_events (import_rings C master deleg b tape rs)).
  Proof.
    induction rs as [|nr rest IH]; intros b tape; cbn [import_rings]; [reflexivity|].
    destruct (im_res (import_ring C master deleg b tape nr)); cbn; try apply import_ring_events.
    rewrite IH. unfold apply_events. rewrite fold_left_app. f_equal. apply import_ring_events.
  Qed.
End Proofs.
