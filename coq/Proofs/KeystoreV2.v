(** C06 — keystore v2 (key rings) refines the key specification with [hide = false]:
    simulation by induction over the operation history with the abstraction [v2_abs]. *)
From Coq Require Import List NArith ZArith Bool Lia.
From Acra Require Import Lib.Bytes Lib.Outcome Gen.KeyStates Model.KeySpec Model.KeystoreV1 Model.KeystoreV2
  Proofs.KeySpec Proofs.KeystoreV1.
Import ListNotations.
Local Open Scope Z_scope.

Definition alive (k : v2key) : bool := negb (destroyed k).

(** seqnums are consecutive *)
Fixpoint seqs_from (q : Z) (ks : list v2key) : Prop :=
  match ks with [] => True | k :: r => k_seq k = q /\ seqs_from (q + 1) r end.

Lemma seqs_from_app q a b : seqs_from q (a ++ b) <-> seqs_from q a /\ seqs_from (q + Z.of_nat (length a)) b.
Proof.
  revert q. induction a as [|k r IH]; intro q; cbn [app seqs_from length].
  - rewrite Z.add_0_r. tauto.
  - rewrite IH. replace (q + 1 + Z.of_nat (length r)) with (q + Z.of_nat (S (length r))) by lia. tauto.
Qed.

Lemma seqs_from_ge q ks k : seqs_from q ks -> In k ks -> q <= k_seq k < q + Z.of_nat (length ks).
Proof.
  revert q. induction ks as [|a r IH]; intros q Hs Hin; [contradiction|].
  destruct Hs as [Ha Hr]. cbn [length]. destruct Hin as [Hin|Hin].
  - subst a. lia.
  - specialize (IH _ Hr Hin). lia.
Qed.

Lemma lookup_in q ks k : seqs_from q ks -> In k ks -> key_with_seqnum ks (k_seq k) = Some k.
Proof.
  revert q. induction ks as [|a r IH]; intros q Hs Hin; [contradiction|].
  destruct Hs as [Ha Hr]. cbn [key_with_seqnum]. destruct Hin as [Hin|Hin].
  - subst a. rewrite Z.eqb_refl. reflexivity.
  - pose proof (seqs_from_ge _ _ _ Hr Hin) as Hge.
    destruct (k_seq a =? k_seq k) eqn:E; [apply Z.eqb_eq in E; lia|]. eapply IH; eassumption.
Qed.

Lemma lookup_out q ks x : seqs_from q ks -> (x < q \/ q + Z.of_nat (length ks) <= x) -> key_with_seqnum ks x = None.
Proof.
  revert q. induction ks as [|a r IH]; intros q Hs Hx; [reflexivity|].
  destruct Hs as [Ha Hr]. cbn [key_with_seqnum]. cbn [length] in Hx.
  destruct (k_seq a =? x) eqn:E; [apply Z.eqb_eq in E; lia|]. apply (IH (q + 1) Hr). lia.
Qed.

Lemma seqs_nodup q ks : seqs_from q ks -> NoDup (map k_seq ks).
Proof.
  revert q. induction ks as [|a r IH]; intros q Hs; cbn [map]; [constructor|].
  destruct Hs as [Ha Hr]. constructor; [|eapply IH; exact Hr].
  intro Hin. apply in_map_iff in Hin. destruct Hin as [k [Hk Hin]].
  pose proof (seqs_from_ge _ _ _ Hr Hin). lia.
Qed.

(** destroyed marking *)
Definition mark (q : Z) (x : v2key) : v2key :=
  if k_seq x =? q then {| k_seq := k_seq x; k_state := KEY_DESTROYED; k_data := k_data x |} else x.

Lemma mark_seq q x : k_seq (mark q x) = k_seq x.
Proof. unfold mark. destruct (k_seq x =? q); reflexivity. Qed.
Lemma mark_data q x : k_data (mark q x) = k_data x.
Proof. unfold mark. destruct (k_seq x =? q); reflexivity. Qed.
Lemma mark_alive q x : alive (mark q x) = alive x && negb (k_seq x =? q).
Proof.
  unfold mark. destruct (k_seq x =? q); [|rewrite andb_true_r; reflexivity].
  rewrite andb_false_r. reflexivity.
Qed.

Lemma seqs_from_mark q0 q ks : seqs_from q0 ks -> seqs_from q0 (map (mark q) ks).
Proof.
  revert q0. induction ks as [|a r IH]; intros q0 Hs; [exact I|].
  destruct Hs as [Ha Hr]. cbn [map seqs_from]. rewrite mark_seq. split; [exact Ha | apply IH; exact Hr].
Qed.

Lemma map_mark_id q l : (forall k, In k l -> k_seq k <> q) -> map (mark q) l = l.
Proof.
  induction l as [|a r IH]; intro H; [reflexivity|]. cbn [map]. rewrite IH by (intros k Hk; apply H; right; exact Hk).
  unfold mark. destruct (k_seq a =? q) eqn:E; [apply Z.eqb_eq in E; exfalso; apply (H a); [left; reflexivity | exact E] | reflexivity].
Qed.

Lemma filter_alive_mark q l :
  map k_data (filter alive (map (mark q) l)) = map k_data (filter (fun k => negb (k_seq k =? q)) (filter alive l)).
Proof.
  induction l as [|a r IH]; [reflexivity|]. cbn [map filter]. rewrite mark_alive.
  destruct (alive a) eqn:Ea; cbn [andb filter].
  - destruct (negb (k_seq a =? q)); cbn [map]; [rewrite mark_data, IH; reflexivity | exact IH].
  - exact IH.
Qed.

Lemma filter_rev {A} (p : A -> bool) l : filter p (rev l) = rev (filter p l).
Proof.
  induction l as [|a r IH]; [reflexivity|]. cbn [rev filter]. rewrite filter_app, IH. cbn [filter].
  destruct (p a); [reflexivity | rewrite app_nil_r; reflexivity].
Qed.

Lemma nodup_map_filter {A B} (g : A -> B) (p : A -> bool) l : NoDup (map g l) -> NoDup (map g (filter p l)).
Proof.
  induction l as [|a r IH]; intro H; [constructor|]. cbn [map] in H. inversion H as [|? ? Hn Hd]; subst.
  cbn [filter]. destruct (p a); [|apply IH; exact Hd]. cbn [map]. constructor; [|apply IH; exact Hd].
  intro Hin. apply Hn. apply in_map_iff in Hin. destruct Hin as [x [Hx Hin]]. apply filter_In in Hin.
  apply in_map_iff. exists x. tauto.
Qed.

Lemma filter_neq_remove_nth (l : list v2key) p q :
  NoDup (map k_seq l) -> nth_error (map k_seq l) p = Some q ->
  filter (fun k => negb (k_seq k =? q)) l = remove_nth p l.
Proof.
  revert p. induction l as [|a r IH]; intros p Hd Hn; [destruct p; discriminate|].
  cbn [map] in Hd. inversion Hd as [|? ? Hna Hdr]; subst. destruct p as [|p].
  - cbn in Hn. inversion Hn as [Hq]. cbn [filter]. rewrite Hq, Z.eqb_refl. cbn [negb].
    change (remove_nth 0 (a :: r)) with r.
    rewrite <- Hq. clear IH Hn Hd Hq. induction r as [|b r' IHr]; [reflexivity|].
    cbn [filter]. destruct (k_seq b =? k_seq a) eqn:E.
    + apply Z.eqb_eq in E. exfalso. apply Hna. left. exact E.
    + cbn [negb]. f_equal. apply IHr.
      * intro H. apply Hna. right. exact H.
      * inversion Hdr. assumption.
  - cbn [nth_error map] in Hn. cbn [filter]. change (remove_nth (S p) (a :: r)) with (a :: remove_nth p r).
    destruct (k_seq a =? q) eqn:E.
    + apply Z.eqb_eq in E. exfalso. apply Hna. rewrite E. eapply nth_error_In. exact Hn.
    + cbn [negb]. f_equal. apply IH; assumption.
Qed.

Lemma nth_error_rev_some {A} (l : list A) j x :
  nth_error (rev l) j = Some x -> (j < length l)%nat /\ nth_error l (length l - 1 - j) = Some x.
Proof.
  intro Hn.
  assert (Hlt : (j < length l)%nat).
  { rewrite <- (rev_length l). apply nth_error_Some. rewrite Hn. discriminate. }
  split; [exact Hlt|].
  assert (Hr : (j < length (rev l))%nat) by (rewrite rev_length; exact Hlt).
  rewrite (nth_error_nth' _ x Hr) in Hn. inversion Hn as [Hk].
  rewrite (rev_nth _ x Hlt).
  replace (length l - 1 - j)%nat with (length l - S j)%nat by lia.
  apply nth_error_nth'. lia.
Qed.

(** * well-formed rings and the abstraction *)
Definition ring_ok (r : ring) : Prop :=
  seqs_from V2_FIRST_SEQNUM (r_keys r)
  /\ r_cur r = (if Nat.eqb (length (r_keys r)) 0 then V2_NOKEY else Z.of_nat (length (r_keys r)))
  /\ Forall (fun k => k_state k = KEY_PREACTIVE \/ k_state k = KEY_DESTROYED) (r_keys r).

Definition empty_slot : sslot := {| s_cur := None; s_rot := [] |}.

Definition abs_ring (r : ring) : sslot :=
  match rev (r_keys r) with
  | [] => empty_slot
  | k :: older => {| s_cur := if destroyed k then None else Some (k_data k);
                     s_rot := map k_data (filter alive older) |}
  end.

Definition v2_abs (st : v2state) (s : slot) : sslot :=
  match st s with None => empty_slot | Some r => abs_ring r end.

Record R (st : v2state) (sp : sstate) : Prop := {
  r_abs : forall s : slot, sp s = v2_abs st s;
  r_ok : forall (s : slot) (r : ring), st s = Some r -> ring_ok r
}.

Lemma v2upd_same st s r : v2upd st s r s = Some r.
Proof. unfold v2upd. rewrite slot_eqb_refl. reflexivity. Qed.
Lemma v2upd_other st s r x : x <> s -> v2upd st s r x = st x.
Proof. intro H. unfold v2upd. apply slot_eqb_neq in H. rewrite H. reflexivity. Qed.

Lemma ring_ok_empty : ring_ok empty_ring.
Proof. repeat split. constructor. Qed.

Lemma R_upd st sp s r' v :
  R st sp -> ring_ok r' -> v = abs_ring r' -> R (v2upd st s r') (supd sp s v).
Proof.
  intros [Ha Ho] Hr Hv. split.
  - intro x. unfold v2_abs. destruct (slot_eqb x s) eqn:E.
    + apply slot_eqb_eq in E. subst x. rewrite supd_same, v2upd_same. exact Hv.
    + apply slot_eqb_neq in E. rewrite supd_other, v2upd_other by exact E. apply Ha.
  - intros x r Hx. destruct (slot_eqb x s) eqn:E.
    + apply slot_eqb_eq in E. subst x. rewrite v2upd_same in Hx. inversion Hx. subst. exact Hr.
    + apply slot_eqb_neq in E. rewrite v2upd_other in Hx by exact E. eapply Ho. exact Hx.
Qed.

Lemma supd_id (sp : sstate) s v : v = sp s -> forall x, supd sp s v x = sp x.
Proof.
  intros Hv x. destruct (slot_eqb x s) eqn:E.
  - apply slot_eqb_eq in E. subst x. rewrite supd_same. exact Hv.
  - apply slot_eqb_neq in E. apply supd_other. exact E.
Qed.

Lemma R_ext st sp sp' : R st sp -> (forall x, sp' x = sp x) -> R st sp'.
Proof. intros [Ha Ho] H. split; [intro x; rewrite H; apply Ha | exact Ho]. Qed.

(** OpenKeyRingRW keeps the abstraction *)
Lemma open_rw_R st sp s :
  R st sp ->
  R (fst (open_rw st s)) sp /\ fst (open_rw st s) s = Some (snd (open_rw st s))
  /\ ring_ok (snd (open_rw st s)) /\ sp s = abs_ring (snd (open_rw st s)).
Proof.
  intro HR. pose proof (r_abs _ _ HR s) as Hs. unfold v2_abs in Hs. unfold open_rw.
  destruct (st s) as [r|] eqn:E; cbn [fst snd].
  - split; [exact HR | split; [exact E | split; [eapply (r_ok _ _ HR); exact E | exact Hs]]].
  - split; [|split; [|split]].
    + apply (R_ext _ (supd sp s (sp s))).
      * apply R_upd; [exact HR | exact ring_ok_empty | exact Hs].
      * intro x. symmetry. apply supd_id. reflexivity.
    + apply v2upd_same.
    + exact ring_ok_empty.
    + exact Hs.
Qed.

(** facts about a non-empty well-formed ring *)
Lemma ring_last r kl older :
  ring_ok r -> rev (r_keys r) = kl :: older ->
  r_keys r = rev older ++ [kl]
  /\ k_seq kl = Z.of_nat (length (r_keys r))
  /\ r_cur r = Z.of_nat (length (r_keys r))
  /\ (forall k, In k older -> In k (r_keys r) /\ k_seq k <> Z.of_nat (length (r_keys r)))
  /\ In kl (r_keys r).
Proof.
  intros [Hs [Hc Hst]] Hrev.
  assert (Hk : r_keys r = rev older ++ [kl]).
  { rewrite <- (rev_involutive (r_keys r)), Hrev. reflexivity. }
  rewrite Hk in Hs. apply seqs_from_app in Hs. destruct Hs as [Hs1 Hs2]. cbn [seqs_from] in Hs2.
  destruct Hs2 as [Hl _]. unfold V2_FIRST_SEQNUM in *.
  assert (Hlen : length (r_keys r) = S (length older)).
  { rewrite Hk, app_length, rev_length. cbn [length]. lia. }
  rewrite rev_length in Hl. repeat split.
  - exact Hk.
  - lia.
  - rewrite Hc, Hlen. cbn [Nat.eqb]. reflexivity.
  - rewrite Hk. apply in_or_app. left. apply in_rev in H. exact H.
  - apply in_rev in H. pose proof (seqs_from_ge _ _ _ Hs1 H) as Hge. rewrite rev_length in Hge. lia.
  - rewrite Hk. apply in_or_app. right. left. reflexivity.
Qed.

Lemma ring_empty r : ring_ok r -> rev (r_keys r) = [] -> r_keys r = [] /\ r_cur r = V2_NOKEY.
Proof.
  intros [Hs [Hc Hst]] Hrev.
  assert (Hk : r_keys r = []) by (rewrite <- (rev_involutive (r_keys r)), Hrev; reflexivity).
  split; [exact Hk|]. rewrite Hc, Hk. reflexivity.
Qed.

(** * reads *)
Lemma all_keys_spec r l :
  (forall k, In k l -> key_with_seqnum (r_keys r) (k_seq k) = Some k) ->
  all_keys r (map k_seq l) = Ok (map k_data (filter alive l)).
Proof.
  induction l as [|a t IH]; intro H; [reflexivity|]. cbn [map all_keys filter].
  rewrite (H a) by (left; reflexivity). unfold alive at 1.
  rewrite IH by (intros k Hk; apply H; right; exact Hk).
  destruct (destroyed a); reflexivity.
Qed.

Lemma all_keys_ring r :
  ring_ok r -> all_keys r (all_seqnums (r_keys r)) = Ok (s_all false (abs_ring r)).
Proof.
  intro Hok. unfold all_seqnums. rewrite <- map_rev. rewrite all_keys_spec.
  - unfold abs_ring. destruct (rev (r_keys r)) as [|kl older] eqn:E; [reflexivity|].
    cbn [filter]. unfold alive at 1, s_all. cbn [s_cur s_rot].
    destruct (destroyed kl); reflexivity.
  - intros k Hk. destruct Hok as [Hs _]. eapply lookup_in; [exact Hs | apply in_rev; exact Hk].
Qed.

Lemma rotated_active_spec r :
  forall mid pre post, r_keys r = pre ++ mid ++ post -> seqs_from 1 (r_keys r) ->
  rotated_active r (1 + Z.of_nat (length pre)) (length mid) = Ok (map k_seq (filter alive mid)).
Proof.
  induction mid as [|k mid IH]; intros pre post Hk Hs; [reflexivity|].
  cbn [length rotated_active].
  assert (Hin : In k (r_keys r)).
  { rewrite Hk. apply in_or_app. right. left. reflexivity. }
  assert (Hq : k_seq k = 1 + Z.of_nat (length pre)).
  { rewrite Hk in Hs. apply seqs_from_app in Hs. destruct Hs as [_ Hs]. cbn [app seqs_from] in Hs. tauto. }
  rewrite <- Hq. rewrite (lookup_in _ _ _ Hs Hin).
  specialize (IH (pre ++ [k]) post).
  rewrite app_length in IH. cbn [length] in IH.
  replace (k_seq k + 1) with (1 + Z.of_nat (length pre + 1)) by lia.
  rewrite IH; [|rewrite Hk, <- app_assoc; reflexivity | exact Hs].
  cbn [bind filter]. assert (Ha : alive k = negb (destroyed k)) by reflexivity. rewrite Ha.
  destruct (destroyed k); cbn [negb map]; [reflexivity|].
  rewrite Hq. reflexivity.
Qed.

Lemma rotated_active_ring r :
  ring_ok r ->
  rotated_active_of r = Ok (rev (map k_seq (filter alive (tl (rev (r_keys r)))))).
Proof.
  intro Hok. unfold rotated_active_of. destruct (rev (r_keys r)) as [|kl older] eqn:E.
  - destruct (ring_empty _ Hok E) as [Hk _]. rewrite Hk. reflexivity.
  - destruct (ring_last _ _ _ Hok E) as [Hk _]. cbn [tl].
    assert (Hlen : (length (r_keys r) - 1 = length (rev older))%nat).
    { rewrite Hk, app_length. cbn [length]. lia. }
    rewrite Hlen.
    pose proof (rotated_active_spec r (rev older) [] [kl]) as H. cbn [length app Z.of_nat] in H.
    rewrite Z.add_0_r in H. rewrite H.
    + rewrite filter_rev, map_rev. reflexivity.
    + exact Hk.
    + destruct Hok as [Hs _]. exact Hs.
Qed.

Lemma abs_rot_tl r : s_rot (abs_ring r) = map k_data (filter alive (tl (rev (r_keys r)))).
Proof. unfold abs_ring. destruct (rev (r_keys r)); reflexivity. Qed.

Lemma act_length r : length (rev (map k_seq (filter alive (tl (rev (r_keys r)))))) = length (s_rot (abs_ring r)).
Proof. rewrite abs_rot_tl, rev_length, !map_length. reflexivity. Qed.

(** * destruction *)
Lemma tv_pre : transition_valid KEY_PREACTIVE KEY_DESTROYED = true.
Proof. reflexivity. Qed.
Lemma tv_des : transition_valid KEY_DESTROYED KEY_DESTROYED = false.
Proof. reflexivity. Qed.

Lemma key_state_cases r k : ring_ok r -> In k (r_keys r) ->
  (alive k = true /\ k_state k = KEY_PREACTIVE) \/ (alive k = false /\ k_state k = KEY_DESTROYED).
Proof.
  intros [_ [_ Hst]] Hin. rewrite Forall_forall in Hst. specialize (Hst _ Hin).
  unfold alive, destroyed. destruct Hst as [H|H]; rewrite H; [left | right]; split; reflexivity.
Qed.

Definition marked (r : ring) (q : Z) : ring := {| r_keys := map (mark q) (r_keys r); r_cur := r_cur r |}.

Lemma destroy_key_alive r k : ring_ok r -> In k (r_keys r) -> alive k = true ->
  destroy_key r (k_seq k) = Ok (marked r (k_seq k)).
Proof.
  intros Hok Hin Ha. unfold destroy_key. destruct Hok as [Hs Hrest].
  rewrite (lookup_in _ _ _ Hs Hin).
  destruct (key_state_cases r k (conj Hs Hrest) Hin) as [[_ Hst]|[Hd _]]; [|congruence].
  rewrite Hst, tv_pre. reflexivity.
Qed.

Lemma destroy_key_dead r k : ring_ok r -> In k (r_keys r) -> alive k = false ->
  exists e, destroy_key r (k_seq k) = Err e.
Proof.
  intros Hok Hin Ha. unfold destroy_key. destruct Hok as [Hs Hrest].
  rewrite (lookup_in _ _ _ Hs Hin).
  destruct (key_state_cases r k (conj Hs Hrest) Hin) as [[Hd _]|[_ Hst]]; [congruence|].
  rewrite Hst, tv_des. eexists. reflexivity.
Qed.

Lemma ring_ok_marked r q : ring_ok r -> ring_ok (marked r q).
Proof.
  intros [Hs [Hc Hst]]. unfold marked. split; [|split]; cbn [r_keys r_cur].
  - apply seqs_from_mark. exact Hs.
  - rewrite map_length. exact Hc.
  - apply Forall_forall. intros x Hx. apply in_map_iff in Hx. destruct Hx as [y [Hy Hin]]. subst x.
    rewrite Forall_forall in Hst. specialize (Hst _ Hin). unfold mark.
    destruct (k_seq y =? q); [right; reflexivity | exact Hst].
Qed.

Lemma abs_marked_last r kl older :
  ring_ok r -> rev (r_keys r) = kl :: older ->
  abs_ring (marked r (k_seq kl)) = {| s_cur := None; s_rot := s_rot (abs_ring r) |}.
Proof.
  intros Hok E. destruct (ring_last _ _ _ Hok E) as [_ [Hn [_ [Hold _]]]].
  unfold abs_ring at 1. unfold marked. cbn [r_keys]. rewrite <- map_rev, E. cbn [map].
  rewrite map_mark_id by (intros k Hk; destruct (Hold k Hk) as [_ H]; rewrite Hn; exact H).
  unfold mark at 1. rewrite Z.eqb_refl. unfold destroyed at 1. cbn [k_state]. rewrite N.eqb_refl.
  unfold abs_ring. rewrite E. reflexivity.
Qed.

Lemma abs_marked_rot r kl older q :
  ring_ok r -> rev (r_keys r) = kl :: older -> q <> k_seq kl ->
  abs_ring (marked r q)
  = {| s_cur := s_cur (abs_ring r);
       s_rot := map k_data (filter (fun k => negb (k_seq k =? q)) (filter alive older)) |}.
Proof.
  intros Hok E Hq. unfold abs_ring. unfold marked. cbn [r_keys]. rewrite <- map_rev, E. cbn [map].
  assert (Em : mark q kl = kl).
  { unfold mark. destruct (k_seq kl =? q) eqn:Eq; [apply Z.eqb_eq in Eq; congruence | reflexivity]. }
  rewrite Em. rewrite filter_alive_mark. reflexivity.
Qed.

Lemma nth_error_map_some {A B} (g : A -> B) l p y :
  nth_error (map g l) p = Some y -> exists x, nth_error l p = Some x /\ g x = y.
Proof.
  revert p. induction l as [|a r IH]; intros p H; [destruct p; discriminate|].
  destruct p as [|p]; cbn in H.
  - inversion H. exists a. split; reflexivity.
  - apply IH. exact H.
Qed.

Lemma nodup_older r kl older : ring_ok r -> rev (r_keys r) = kl :: older -> NoDup (map k_seq older).
Proof.
  intros Hok E. destruct (ring_last _ _ _ Hok E) as [Hk _]. destruct Hok as [Hs _].
  rewrite Hk in Hs. apply seqs_from_app in Hs. destruct Hs as [Hs _].
  apply seqs_nodup in Hs. rewrite map_rev in Hs. apply NoDup_rev in Hs. rewrite rev_involutive in Hs. exact Hs.
Qed.

(** * one step of the simulation *)
Lemma rot_pos_none_bad n i : ((i <? 2) || (Z.of_nat n <? i - 1) = true)%bool -> rot_pos n i = None.
Proof.
  intro H. unfold rot_pos.
  destruct ((2 <=? i) && (i <=? Z.of_nat n + 1))%bool eqn:E; [|reflexivity].
  apply andb_true_iff in E. destruct E as [E1 E2]. apply Z.leb_le in E1. apply Z.leb_le in E2.
  apply orb_true_iff in H. destruct H as [H|H]; apply Z.ltb_lt in H; lia.
Qed.

Lemma rot_pos_some_good n i : ((i <? 2) || (Z.of_nat n <? i - 1) = false)%bool ->
  rot_pos n i = Some (n - 1 - Z.to_nat (i - 2))%nat /\ (Z.to_nat (i - 2) < n)%nat.
Proof.
  intro H. apply orb_false_iff in H. destruct H as [H1 H2]. apply Z.ltb_ge in H1. apply Z.ltb_ge in H2.
  unfold rot_pos.
  assert (E : ((2 <=? i) && (i <=? Z.of_nat n + 1))%bool = true).
  { apply andb_true_iff. split; apply Z.leb_le; lia. }
  rewrite E. split; [reflexivity | lia].
Qed.

Lemma v2_step_sim st sp op :
  R st sp ->
  canon op (snd (v2_step st op)) = snd (spec_step false sp op)
  /\ R (fst (v2_step st op)) (fst (spec_step false sp op)).
Proof.
  intro HR. destruct op as [s o t1 t2|s|s|s|s|s i| |].
  - (* Gen *)
    cbn [v2_step spec_step fst snd].
    destruct (open_rw_R st sp s HR) as [HR1 [Hst1 [Hok Habs]]].
    destruct (open_rw st s) as [st1 r]. cbn [fst snd] in *.
    unfold next_seqnum. destruct (rev (r_keys r)) as [|kl older] eqn:E.
    + destruct (ring_empty _ Hok E) as [Hk Hc]. rewrite Hk, Hc. cbn [key_with_seqnum app].
      rewrite Z.eqb_refl. cbn [negb andb fst snd canon]. split; [reflexivity|].
      apply R_upd; [exact HR1 | |].
      * split; [|split]; cbn [r_keys r_cur length Nat.eqb]; [split; [reflexivity | exact I] | reflexivity |].
        constructor; [left; reflexivity | constructor].
      * rewrite Habs. unfold abs_ring. rewrite E. cbn [r_keys rev app s_cur s_rot empty_slot filter map].
        reflexivity.
    + destruct (ring_last _ _ _ Hok E) as [Hk [Hn [Hc [Hold Hinl]]]].
      assert (Hs : seqs_from V2_FIRST_SEQNUM (r_keys r)) by (destruct Hok as [Hs _]; exact Hs).
      assert (Hnone : key_with_seqnum (r_keys r) (k_seq kl + 1) = None).
      { eapply lookup_out; [exact Hs|]. right. unfold V2_FIRST_SEQNUM. lia. }
      rewrite Hnone.
      set (new := {| k_seq := k_seq kl + 1; k_state := KEY_PREACTIVE; k_data := o |}).
      assert (Hs' : seqs_from V2_FIRST_SEQNUM (r_keys r ++ [new])).
      { apply seqs_from_app. split; [exact Hs|]. cbn [seqs_from]. split; [|exact I].
        unfold new. cbn [k_seq]. unfold V2_FIRST_SEQNUM. lia. }
      cbn [r_keys r_cur].
      assert (Hl : key_with_seqnum (r_keys r ++ [new]) (r_cur r) = Some kl).
      { rewrite Hc, <- Hn. eapply lookup_in; [exact Hs'|]. apply in_or_app. left. exact Hinl. }
      rewrite Hl. rewrite andb_false_r. cbn [fst snd canon]. split; [reflexivity|].
      apply R_upd; [exact HR1 | |].
      * split; [|split]; cbn [r_keys r_cur].
        -- exact Hs'.
        -- rewrite app_length. cbn [length]. replace (length (r_keys r) + 1)%nat with (S (length (r_keys r))) by lia.
           cbn [Nat.eqb]. lia.
        -- apply Forall_app. split; [destruct Hok as [_ [_ H]]; exact H|].
           constructor; [left; reflexivity | constructor].
      * rewrite Habs. unfold abs_ring. cbn [r_keys]. rewrite rev_app_distr, E. cbn [rev app filter].
        assert (Ha : alive kl = negb (destroyed kl)) by reflexivity. rewrite Ha.
        cbn [s_cur s_rot]. destruct (destroyed kl); reflexivity.
  - (* Cur *)
    cbn [v2_step spec_step fst snd].
    assert (G : forall st1 ro, R st1 sp -> ro = st1 s ->
      canon (Cur s) (match ro with
            | None => Err E_GENERIC
            | Some r => if r_cur r =? V2_NOKEY then Err E_GENERIC
                        else match key_data r (r_cur r) with Ok o => Ok [o] | Err e => Err e | Panic => Panic end
            end) = match s_cur (sp s) with Some c => OKeys [c] | None => ONone end).
    { intros st1 ro HR1 Hro. rewrite (r_abs _ _ HR1 s). unfold v2_abs. rewrite <- Hro.
      destruct ro as [r|]; [|reflexivity].
      assert (Hok : ring_ok r) by (eapply (r_ok _ _ HR1); symmetry; exact Hro).
      unfold abs_ring. destruct (rev (r_keys r)) as [|kl older] eqn:E.
      - destruct (ring_empty _ Hok E) as [_ Hc]. rewrite Hc. reflexivity.
      - destruct (ring_last _ _ _ Hok E) as [_ [Hn [Hc [_ Hinl]]]].
        assert (Hne : (r_cur r =? V2_NOKEY) = false).
        { apply Z.eqb_neq. rewrite Hc. unfold V2_NOKEY. lia. }
        rewrite Hne. unfold key_data. rewrite Hc, <- Hn.
        destruct Hok as [Hs _]. rewrite (lookup_in _ _ _ Hs Hinl). cbn [s_cur].
        destruct (destroyed kl); reflexivity. }
    destruct (read_creates (fst s)).
    + destruct (open_rw_R st sp s HR) as [HR1 [Hst1 _]].
      destruct (open_rw st s) as [st1 r]. cbn [fst snd] in *. split; [|exact HR1].
      apply (G st1 (Some r) HR1). symmetry. exact Hst1.
    + cbn [fst snd]. split; [|exact HR]. apply (G st (st s) HR). reflexivity.
  - (* All *)
    cbn [v2_step spec_step fst snd].
    assert (G : forall st1 ro (b : bool), R st1 sp -> ro = st1 s ->
      canon (All s) (match ro with
            | None => Err E_GENERIC
            | Some r => match all_keys r (all_seqnums (r_keys r)) with
                        | Ok [] => if b then Err E_GENERIC else Ok []
                        | x => x
                        end
            end) = keys_obs (s_all false (sp s))).
    { intros st1 ro b HR1 Hro. rewrite (r_abs _ _ HR1 s). unfold v2_abs. rewrite <- Hro.
      destruct ro as [r|]; [|reflexivity].
      assert (Hok : ring_ok r) by (eapply (r_ok _ _ HR1); symmetry; exact Hro).
      rewrite (all_keys_ring _ Hok). destruct (s_all false (abs_ring r)) as [|x l]; [destruct b|]; reflexivity. }
    destruct (read_creates (fst s)).
    + destruct (open_rw_R st sp s HR) as [HR1 [Hst1 _]].
      destruct (open_rw st s) as [st1 r]. cbn [fst snd] in *. split; [|exact HR1].
      apply (G st1 (Some r) true HR1). symmetry. exact Hst1.
    + cbn [fst snd]. split; [|exact HR]. apply (G st (st s) false HR). reflexivity.
  - (* ListRot *)
    cbn [v2_step spec_step fst snd]. split; [|exact HR].
    rewrite (r_abs _ _ HR s). unfold v2_abs. destruct (st s) as [r|] eqn:E; [|reflexivity].
    assert (Hok : ring_ok r) by (eapply (r_ok _ _ HR); exact E).
    rewrite (rotated_active_ring _ Hok). cbn [canon]. rewrite act_length. reflexivity.
  - (* DestroyCur *)
    cbn [v2_step spec_step fst snd].
    destruct (open_rw_R st sp s HR) as [HR1 [Hst1 [Hok Habs]]].
    destruct (open_rw st s) as [st1 r]. cbn [fst snd] in *.
    assert (Hnoop : s_cur (sp s) = None -> R st1 (supd sp s {| s_cur := None; s_rot := s_rot (sp s) |})).
    { intro Hc. apply (R_ext _ sp); [exact HR1|]. apply supd_id.
      destruct (sp s) as [c0 r0]. cbn [s_cur s_rot] in *. subst c0. reflexivity. }
    destruct (rev (r_keys r)) as [|kl older] eqn:E.
    + destruct (ring_empty _ Hok E) as [_ Hc]. rewrite Hc, Z.eqb_refl. cbn [fst snd canon]. split; [reflexivity|].
      apply Hnoop. rewrite Habs. unfold abs_ring. rewrite E. reflexivity.
    + destruct (ring_last _ _ _ Hok E) as [_ [Hn [Hc [_ Hinl]]]].
      assert (Hne : (r_cur r =? V2_NOKEY) = false).
      { apply Z.eqb_neq. rewrite Hc. unfold V2_NOKEY. lia. }
      rewrite Hne, Hc, <- Hn.
      destruct (alive kl) eqn:Ea.
      * rewrite (destroy_key_alive _ _ Hok Hinl Ea). cbn [fst snd canon]. split; [reflexivity|].
        apply R_upd; [exact HR1 | apply ring_ok_marked; exact Hok |].
        rewrite (abs_marked_last _ _ _ Hok E), Habs. reflexivity.
      * destruct (destroy_key_dead _ _ Hok Hinl Ea) as [e He]. rewrite He. cbn [fst snd canon].
        split; [reflexivity|]. apply Hnoop. rewrite Habs. unfold abs_ring. rewrite E. cbn [s_cur].
        unfold alive in Ea. destruct (destroyed kl); [reflexivity | discriminate].
  - (* DestroyRot *)
    cbn [v2_step spec_step fst snd].
    destruct (open_rw_R st sp s HR) as [HR1 [Hst1 [Hok Habs]]].
    destruct (open_rw st s) as [st1 r]. cbn [fst snd] in *.
    rewrite (rotated_active_ring _ Hok). rewrite act_length. rewrite <- Habs.
    destruct ((i <? 2) || (Z.of_nat (length (s_rot (sp s))) <? i - 1))%bool eqn:Eb.
    + rewrite (rot_pos_none_bad _ _ Eb). cbn [fst snd canon]. split; [reflexivity | exact HR1].
    + destruct (rot_pos_some_good _ _ Eb) as [Hpos Hj]. rewrite Hpos.
      set (j := Z.to_nat (i - 2)) in *.
      destruct (rev (r_keys r)) as [|kl older] eqn:E.
      { exfalso. rewrite Habs in Hj. unfold abs_ring in Hj. rewrite E in Hj. cbn in Hj. lia. }
      cbn [tl].
      assert (Hrot : s_rot (sp s) = map k_data (filter alive older)).
      { rewrite Habs. unfold abs_ring. rewrite E. reflexivity. }
      set (A := filter alive older) in *.
      assert (HlenA : length (s_rot (sp s)) = length A) by (rewrite Hrot, map_length; reflexivity).
      destruct (nth_error (rev (map k_seq A)) j) as [q|] eqn:En.
      2:{ exfalso. apply nth_error_None in En. rewrite rev_length, map_length in En. lia. }
      destruct (nth_error_rev_some _ _ _ En) as [_ Hn']. rewrite map_length in Hn'.
      destruct (nth_error_map_some _ _ _ _ Hn') as [kq [Hkq Hq]].
      assert (HinA : In kq A) by (eapply nth_error_In; exact Hkq).
      unfold A in HinA. apply filter_In in HinA. destruct HinA as [Hino Haq].
      destruct (ring_last _ _ _ Hok E) as [_ [Hnl [_ [Hold _]]]].
      destruct (Hold kq Hino) as [Hink Hneq].
      rewrite <- Hq. rewrite (destroy_key_alive _ _ Hok Hink Haq). cbn [fst snd canon]. split; [reflexivity|].
      apply R_upd; [exact HR1 | apply ring_ok_marked; exact Hok |].
      rewrite (abs_marked_rot _ _ _ (k_seq kq) Hok E) by (rewrite Hnl; exact Hneq).
      f_equal.
      * rewrite Habs. reflexivity.
      * fold A. rewrite Hq.
        rewrite (filter_neq_remove_nth A (length A - 1 - j) q).
        -- rewrite map_remove_nth. rewrite HlenA. rewrite Hrot. reflexivity.
        -- apply nodup_map_filter. eapply nodup_older; eassumption.
        -- exact Hn'.
  - cbn [v2_step spec_step fst snd canon]. split; [reflexivity | exact HR].
  - cbn [v2_step spec_step fst snd canon]. split; [reflexivity | exact HR].
Qed.

(** * refinement *)
Fixpoint v2_state_after_from (st : v2state) (ops : list kop) : v2state :=
  match ops with [] => st | o :: rest => v2_state_after_from (fst (v2_step st o)) rest end.
Definition v2_state_after (ops : list kop) : v2state := v2_state_after_from v2_init ops.

Lemma v2_sim : forall ops st sp, R st sp ->
  canon_all ops (v2_run st ops) = spec_run false sp ops
  /\ forall s, v2_abs (v2_state_after_from st ops) s = spec_state_after false sp ops s.
Proof.
  induction ops as [|op ops IH]; intros st sp HR.
  - split; [reflexivity|]. intro s. symmetry. apply (r_abs _ _ HR).
  - destruct (v2_step_sim st sp op HR) as [Hc HR'].
    cbn [v2_run spec_run v2_state_after_from spec_state_after].
    destruct (v2_step st op) as [st' r]. destruct (spec_step false sp op) as [sp' ob].
    cbn [fst snd] in *. destruct (IH st' sp' HR') as [IH1 IH2].
    split; [|exact IH2]. cbn [canon_all]. rewrite Hc, IH1. reflexivity.
Qed.

Lemma R_init : R v2_init s_init.
Proof. split; [intro s; reflexivity | intros s r H; discriminate]. Qed.

Theorem v2_refines_spec :
  forall ops, canon_all ops (v2_run v2_init ops) = spec_run false s_init ops.
Proof. intro ops. apply (v2_sim ops v2_init s_init R_init). Qed.

Theorem v2_abs_after :
  forall ops s, v2_abs (v2_state_after ops) s = spec_state_after false s_init ops s.
Proof. intros ops s. apply (v2_sim ops v2_init s_init R_init). Qed.
