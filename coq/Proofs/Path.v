(** C07 path confinement: Model/Path.v (lexical filepath.Clean/Join, v2 osPath, v1 key-file paths). *)
From Acra Require Import Lib.Bytes Lib.Outcome Gen.KsConsts Model.Path.
From Coq Require Import ZifyN ZifyNat ZifyBool.

Definition sepfree (c : bytes) : Prop := ~ In SEP c.

Lemma good_sepfree c : good_comp c -> sepfree c.
Proof. intros (_ & _ & _ & H). exact H. Qed.

(** ---------- split / join ---------- *)
Lemma split_nonempty p : split_sep p <> [].
Proof.
  destruct p as [|c r]; cbn [split_sep]; [discriminate|].
  destruct (byte_eqb c SEP); [discriminate|]. destruct (split_sep r); discriminate.
Qed.

Lemma split_app (a b : bytes) : split_sep (a ++ SEP :: b) = split_sep a ++ split_sep b.
Proof.
  induction a as [|x a IH]; cbn [app split_sep].
  - rewrite byte_eqb_refl. reflexivity.
  - destruct (byte_eqb x SEP).
    + rewrite IH. reflexivity.
    + rewrite IH. destruct (split_sep a) as [|h t] eqn:E; [exfalso; exact (split_nonempty a E)|]. reflexivity.
Qed.

Lemma split_sepfree_single (c : bytes) : sepfree c -> split_sep c = [c].
Proof.
  induction c as [|x c IH]; intros H; cbn [split_sep]; [reflexivity|].
  destruct (byte_eqb x SEP) eqn:E.
  - apply byte_eqb_eq in E. subst. exfalso. apply H. left. reflexivity.
  - rewrite IH; [reflexivity|]. intros Hin. apply H. right. exact Hin.
Qed.

Lemma split_join (cs : list bytes) : cs <> [] -> Forall sepfree cs -> split_sep (join_sep cs) = cs.
Proof.
  induction cs as [|c r IH]; intros Hne Hf; [contradiction|].
  inversion Hf as [|? ? Hc Hr]; subst.
  destruct r as [|c2 r'].
  - cbn [join_sep]. apply split_sepfree_single. exact Hc.
  - change (join_sep (c :: c2 :: r')) with (c ++ SEP :: join_sep (c2 :: r')).
    rewrite split_app, (split_sepfree_single c Hc), IH; [reflexivity| discriminate| exact Hr].
Qed.

Lemma join_app (a b : list bytes) : a <> [] -> b <> [] -> join_sep (a ++ b) = join_sep a ++ SEP :: join_sep b.
Proof.
  induction a as [|x a IH]; intros Ha Hb; [contradiction|].
  destruct a as [|y a'].
  - cbn [app]. destruct b as [|z b']; [contradiction|]. reflexivity.
  - change (join_sep ((x :: y :: a') ++ b)) with (x ++ SEP :: join_sep ((y :: a') ++ b)).
    rewrite IH by (try discriminate; exact Hb).
    change (join_sep (x :: y :: a')) with (x ++ SEP :: join_sep (y :: a')).
    rewrite <- app_assoc. reflexivity.
Qed.

Lemma join_good_nonempty (cs : list bytes) : cs <> [] -> Forall good_comp cs -> join_sep cs <> [].
Proof.
  destruct cs as [|c r]; intros Hne Hf; [contradiction|]. inversion Hf as [|? ? Hc _]; subst.
  destruct Hc as (Hc & _). destruct r; cbn [join_sep]; destruct c; try contradiction; discriminate.
Qed.

Lemma split_sepfree_all p : Forall sepfree (split_sep p).
Proof.
  induction p as [|c r IH]; cbn [split_sep].
  - constructor; [intros []| constructor].
  - destruct (byte_eqb c SEP) eqn:E.
    + constructor; [intros []| exact IH].
    + destruct (split_sep r) as [|h t]; [constructor; [|constructor]|].
      * intros [H|[]]. subst. rewrite byte_eqb_refl in E. discriminate.
      * inversion IH as [|? ? Hh Ht]; subst. constructor; [|exact Ht].
        intros [H|H]; [subst; rewrite byte_eqb_refl in E; discriminate| exact (Hh H)].
Qed.

(** ---------- the stack of Clean on a rooted path ---------- *)
Lemma nilb_false (c : bytes) : c <> [] -> nilb c = false.
Proof. destruct c; [contradiction| reflexivity]. Qed.

Lemma step_good rooted stack c : good_comp c -> clean_step rooted stack c = c :: stack.
Proof.
  intros (H1 & H2 & H3 & _). unfold clean_step.
  rewrite (nilb_false c H1). apply bytes_eqb_neq in H2, H3. rewrite H2, H3. reflexivity.
Qed.

Lemma step_rooted_inv stack c :
  Forall good_comp stack -> sepfree c -> Forall good_comp (clean_step true stack c).
Proof.
  intros Hs Hc. unfold clean_step.
  destruct (nilb c) eqn:En; cbn [orb]; [exact Hs|].
  destruct (bytes_eqb c dot) eqn:Ed; [exact Hs|].
  destruct (bytes_eqb c dotdot) eqn:Edd.
  - destruct stack as [|top rest]; [constructor|].
    inversion Hs as [|? ? Ht Hr]; subst.
    destruct (bytes_eqb top dotdot) eqn:Et; [|exact Hr].
    apply bytes_eqb_eq in Et. destruct Ht as (_ & _ & Ht & _). contradiction.
  - constructor; [|exact Hs]. repeat split.
    + intros ->. discriminate.
    + apply bytes_eqb_neq. exact Ed.
    + apply bytes_eqb_neq. exact Edd.
    + exact Hc.
Qed.

Lemma fold_rooted_inv cs stack :
  Forall good_comp stack -> Forall sepfree cs -> Forall good_comp (fold_left (clean_step true) cs stack).
Proof.
  revert stack. induction cs as [|c r IH]; intros stack Hs Hc; cbn [fold_left]; [exact Hs|].
  inversion Hc; subst. apply IH; [apply step_rooted_inv; assumption| assumption].
Qed.

Lemma fold_push_good rooted cs stack :
  Forall good_comp cs -> fold_left (clean_step rooted) cs stack = rev cs ++ stack.
Proof.
  revert stack. induction cs as [|c r IH]; intros stack Hf; cbn [fold_left rev app]; [reflexivity|].
  inversion Hf; subst. rewrite step_good by assumption. rewrite IH by assumption.
  rewrite <- app_assoc. reflexivity.
Qed.

Lemma fold_skip_nil rooted cs stack :
  fold_left (clean_step rooted) ([] :: cs) stack = fold_left (clean_step rooted) cs stack.
Proof. reflexivity. Qed.

Lemma Forall_rev {A} (P : A -> Prop) l : Forall P l -> Forall P (rev l).
Proof. intros H. apply Forall_forall. intros x Hx. apply in_rev in Hx. revert x Hx. apply Forall_forall. exact H. Qed.

(** a cleaned rooted path is "/" followed by good components joined by "/" *)
Theorem clean_rooted_shape : forall p : bytes, is_rooted p = true ->
  exists comps, Forall good_comp comps /\ clean p = SEP :: join_sep comps.
Proof.
  intros p Hr. unfold clean. rewrite Hr. unfold clean_comps, render.
  exists (rev (fold_left (clean_step true) (split_sep p) [])). split; [|reflexivity].
  apply Forall_rev. apply fold_rooted_inv; [constructor| apply split_sepfree_all].
Qed.

Lemma split_rooted_shape comps : Forall good_comp comps ->
  split_sep (SEP :: join_sep comps) = [] :: (match comps with [] => [[]] | _ => comps end).
Proof.
  intros Hf. cbn [split_sep]. rewrite byte_eqb_refl. f_equal.
  destruct comps as [|c r]; [reflexivity|].
  apply split_join; [discriminate|]. eapply Forall_impl; [|exact Hf]. intros a; apply good_sepfree.
Qed.

(** … hence contains no ".." component *)
Theorem clean_no_dotdot : forall p : bytes, is_rooted p = true -> ~ In dotdot (split_sep (clean p)).
Proof.
  intros p Hr. destruct (clean_rooted_shape p Hr) as (comps & Hf & ->).
  rewrite split_rooted_shape by exact Hf. intros [H|H]; [discriminate|].
  destruct comps as [|c r]; [destruct H as [H|[]]; discriminate|].
  rewrite Forall_forall in Hf. destruct (Hf _ H) as (_ & _ & Hdd & _). apply Hdd. reflexivity.
Qed.

(** Clean is idempotent — proved for rooted paths (the ones the confinement theorems use); for
    relative paths the statement is checked on the real filepath.Clean by the harness only. *)
Theorem clean_idempotent_partial : forall p : bytes, is_rooted p = true -> clean (clean p) = clean p.
Proof.
  intros p Hr. destruct (clean_rooted_shape p Hr) as (comps & Hf & E). rewrite E.
  unfold clean at 1. cbn [is_rooted]. rewrite byte_eqb_refl.
  rewrite split_rooted_shape by exact Hf. unfold clean_comps, render.
  destruct comps as [|c r].
  - cbn. reflexivity.
  - rewrite fold_skip_nil, fold_push_good by exact Hf. rewrite app_nil_r, rev_involutive. reflexivity.
Qed.

(** ---------- joining good components below a rooted directory ---------- *)
Lemma rooted_app (root rest : bytes) : is_rooted root = true -> is_rooted (root ++ rest) = true.
Proof. destruct root; [discriminate| intros H; exact H]. Qed.

Lemma clean_below_gen (root : bytes) (skip comps : list bytes) (rest : bytes) :
  is_rooted root = true -> comps <> [] -> Forall good_comp comps ->
  split_sep rest = skip ++ comps -> Forall (fun c => c = []) skip ->
  clean (root ++ SEP :: rest) = dir_prefix (clean root) ++ join_sep comps.
Proof.
  intros Hr Hne Hf Hs Hskip. unfold clean. rewrite (rooted_app root _ Hr), Hr.
  unfold clean_comps, render. rewrite split_app, Hs, !fold_left_app.
  set (S := fold_left (clean_step true) (split_sep root) []).
  assert (HS : Forall good_comp S) by (apply fold_rooted_inv; [constructor| apply split_sepfree_all]).
  assert (Hsk : fold_left (clean_step true) skip S = S).
  { clear Hs. induction skip as [|x sk IH]; [reflexivity|]. inversion Hskip; subst. cbn [fold_left].
    unfold clean_step at 2. cbn [nilb orb]. apply IH. assumption. }
  rewrite Hsk, fold_push_good by exact Hf. rewrite rev_app_distr, rev_involutive.
  destruct (rev S) as [|s0 sr] eqn:ES.
  - cbn [app join_sep]. unfold dir_prefix. rewrite bytes_eqb_refl. reflexivity.
  - assert (Hgood : Forall good_comp (s0 :: sr)) by (rewrite <- ES; apply Forall_rev; exact HS).
    rewrite join_app by (try discriminate; exact Hne).
    unfold dir_prefix.
    assert (Hn : bytes_eqb (SEP :: join_sep (s0 :: sr)) [SEP] = false).
    { apply bytes_eqb_neq. intros [= E]. exact (join_good_nonempty (s0 :: sr) ltac:(discriminate) Hgood E). }
    rewrite Hn. cbn [app]. rewrite <- app_assoc. reflexivity.
Qed.

Theorem clean_below_root : forall (root : bytes) (comps : list bytes),
  is_rooted root = true -> comps <> [] -> Forall good_comp comps ->
  clean (root ++ SEP :: join_sep comps) = dir_prefix (clean root) ++ join_sep comps.
Proof.
  intros root comps Hr Hne Hf. apply (clean_below_gen root [] comps); auto.
  cbn [app]. apply split_join; [exact Hne|]. eapply Forall_impl; [|exact Hf]. intros a; apply good_sepfree.
Qed.

(** same with a doubled separator, as produced by Join(root, "/a/b") *)
Theorem clean_below_root' : forall (root : bytes) (comps : list bytes),
  is_rooted root = true -> comps <> [] -> Forall good_comp comps ->
  clean (root ++ SEP :: SEP :: join_sep comps) = dir_prefix (clean root) ++ join_sep comps.
Proof.
  intros root comps Hr Hne Hf. apply (clean_below_gen root [[]] comps); auto.
  - rewrite split_rooted_shape by exact Hf. destruct comps; [contradiction| reflexivity].
Qed.

(** ---------- confinement ---------- *)
Theorem confined_proper_prefix : forall root full : bytes, confined root full ->
  exists rest, rest <> [] /\ full = dir_prefix (clean root) ++ rest.
Proof.
  intros root full (comps & Hne & Hf & ->). exists (join_sep comps). split; [|reflexivity].
  apply join_good_nonempty; assumption.
Qed.

Theorem confined_no_dotdot : forall root full : bytes, is_rooted root = true -> confined root full ->
  ~ In dotdot (split_sep full).
Proof.
  intros root full Hr (comps & Hne & Hf & ->).
  rewrite <- (clean_below_root root comps Hr Hne Hf).
  apply clean_no_dotdot. apply rooted_app. exact Hr.
Qed.

(** v2 directory backend, repaired osPath: every accepted key path maps strictly below the root *)
Theorem os_path_confined : forall root path full : bytes,
  is_rooted root = true -> os_path root path = Ok full -> confined root full.
Proof.
  intros root path full Hr. unfold os_path.
  set (rel := replace_seps path). set (conf := clean (SEP :: rel)).
  destruct (bytes_eqb conf [SEP]) eqn:E1; cbn [orb]; [discriminate|].
  destruct (bytes_eqb (join2 root rel) (join2 root conf)) eqn:E2; cbn [negb]; [|discriminate].
  intros [= <-]. apply bytes_eqb_eq in E2. rewrite E2.
  destruct (clean_rooted_shape (SEP :: rel)) as (comps & Hf & Hc).
  { cbn [is_rooted]. apply byte_eqb_refl. }
  fold conf in Hc. assert (Hne : comps <> []).
  { intros ->. cbn [join_sep] in Hc. rewrite Hc, bytes_eqb_refl in E1. discriminate. }
  exists comps. split; [exact Hne|]. split; [exact Hf|].
  unfold join2. destruct root as [|r0 rr]; [discriminate|]. cbn [nilb]. rewrite Hc.
  apply clean_below_root'; assumption.
Qed.

(** the pinned osPath accepts an escaping path: root "/ks", key path "../escaped" *)
Definition ks_root : bytes := [x2f; x6b; x73].
Definition escaped_path : bytes := [x2e; x2e; x2f; x65; x73; x63; x61; x70; x65; x64].
Definition escaped_full : bytes := Eval vm_compute in join2 ks_root escaped_path.

Lemma not_confined_by_prefix root full :
  starts_with (dir_prefix (clean root)) full = false -> ~ confined root full.
Proof.
  intros H (comps & _ & _ & E). rewrite E, starts_with_app in H. discriminate.
Qed.

Theorem os_path_pinned_refuted : exists root path full : bytes,
  is_rooted root = true /\ os_path_pinned root path = Ok full /\ ~ confined root full.
Proof.
  exists ks_root, escaped_path, escaped_full. split; [reflexivity|]. split; [vm_compute; reflexivity|].
  apply not_confined_by_prefix. vm_compute. reflexivity.
Qed.

(** ---------- v1 ---------- *)
Definition kind_suffix (k : v1kind) : bytes :=
  match k with
  | KStoragePriv => SUFFIX_STORAGE
  | KStoragePub => SUFFIX_STORAGE ++ SUFFIX_PUB
  | KStorageSym => SUFFIX_STORAGE ++ SUFFIX_SYM
  | KHmac => SUFFIX_HMAC
  end.
Lemma v1_fname_kind_suffix k id : v1_fname k id = id ++ kind_suffix k.
Proof. destruct k; reflexivity. Qed.

Lemma suffix_sepfree k : existsb (fun x => byte_eqb x SEP) (kind_suffix k) = false.
Proof. destruct k; vm_compute; reflexivity. Qed.
Lemma sep_not_id_char : is_id_char SEP = false.
Proof. vm_compute. reflexivity. Qed.
Lemma min_id_len : Nat.ltb 2 MIN_CLIENT_ID_LEN = true.
Proof. vm_compute. reflexivity. Qed.

Theorem validate_id_good_fname : forall (k : v1kind) (id : bytes),
  validate_id id = true -> good_comp (v1_fname k id).
Proof.
  intros k id Hv. unfold validate_id in Hv.
  apply andb_true_iff in Hv as [Hv Hchars]. apply andb_true_iff in Hv as [Hmin _].
  apply Nat.leb_le in Hmin. pose proof min_id_len as Hm. apply Nat.ltb_lt in Hm.
  rewrite v1_fname_kind_suffix.
  assert (Hlen : 2 < length (id ++ kind_suffix k)) by (rewrite app_length; lia).
  repeat split.
  - intros E. rewrite E in Hlen. cbn in Hlen. lia.
  - intros E. rewrite E in Hlen. cbn in Hlen. lia.
  - intros E. rewrite E in Hlen. cbn in Hlen. lia.
  - intros Hin. apply in_app_or in Hin as [Hin|Hin].
    + rewrite forallb_forall in Hchars. specialize (Hchars _ Hin). rewrite sep_not_id_char in Hchars. discriminate.
    + pose proof (suffix_sepfree k) as Hs.
      assert (Ht : existsb (fun x => byte_eqb x SEP) (kind_suffix k) = true).
      { apply existsb_exists. exists SEP. split; [exact Hin| apply byte_eqb_refl]. }
      rewrite Ht in Hs. discriminate.
Qed.

(** a validated id gives a key file strictly below the key directory, for every key kind *)
Theorem v1_op_confined : forall (dir : bytes) (k : v1kind) (id p : bytes),
  is_rooted dir = true -> v1_op_path dir k id = Ok p -> confined dir (clean p).
Proof.
  intros d k id p Hr. unfold v1_op_path. destruct (validate_id id) eqn:Hv; [|discriminate].
  intros [= <-]. pose proof (validate_id_good_fname k id Hv) as Hg.
  exists [v1_fname k id]. split; [discriminate|]. split; [constructor; [exact Hg| constructor]|].
  unfold v1_path. apply (clean_below_root d [v1_fname k id]); [exact Hr| discriminate| constructor; [exact Hg| constructor]].
Qed.

(** without the id check the same builder escapes: dir "/ks/private", id "../../outside" *)
Definition v1_dir : bytes := [x2f; x6b; x73; x2f; x70; x72; x69; x76; x61; x74; x65].
Definition outside_id : bytes := [x2e; x2e; x2f; x2e; x2e; x2f; x6f; x75; x74; x73; x69; x64; x65].
Theorem v1_unvalidated_escapes : exists (dir id : bytes) (k : v1kind),
  is_rooted dir = true /\ ~ confined dir (clean (v1_path dir (v1_fname k id))).
Proof.
  exists v1_dir, outside_id, KStorageSym. split; [reflexivity|].
  apply not_confined_by_prefix. vm_compute. reflexivity.
Qed.

(** well-formed key paths are still accepted by the repaired osPath *)
Theorem os_path_accepts_good : forall (root : bytes) (comps : list bytes),
  is_rooted root = true -> comps <> [] -> Forall good_comp comps -> ~ In BSL (join_sep comps) ->
  os_path root (join_sep comps) = Ok (dir_prefix (clean root) ++ join_sep comps).
Proof.
  intros root comps Hr Hne Hf Hb. unfold os_path.
  assert (Hrep : replace_seps (join_sep comps) = join_sep comps).
  { unfold replace_seps. induction (join_sep comps) as [|c r IH]; [reflexivity|].
    cbn [map]. destruct (byte_eqb c BSL) eqn:E.
    - apply byte_eqb_eq in E. subst. exfalso. apply Hb. left. reflexivity.
    - rewrite IH; [reflexivity|]. intros Hin. apply Hb. right. exact Hin. }
  rewrite Hrep.
  assert (Hconf : clean (SEP :: join_sep comps) = SEP :: join_sep comps).
  { unfold clean. cbn [is_rooted]. rewrite byte_eqb_refl. rewrite split_rooted_shape by exact Hf.
    unfold clean_comps, render. destruct comps as [|c r]; [contradiction|].
    rewrite fold_skip_nil, fold_push_good by exact Hf. rewrite app_nil_r, rev_involutive. reflexivity. }
  rewrite Hconf.
  assert (Hn : bytes_eqb (SEP :: join_sep comps) [SEP] = false).
  { apply bytes_eqb_neq. intros [= E]. exact (join_good_nonempty comps Hne Hf E). }
  rewrite Hn. cbn [orb]. unfold join2. destruct root as [|r0 rr]; [discriminate|]. cbn [nilb].
  rewrite (clean_below_root (r0 :: rr) comps Hr Hne Hf), (clean_below_root' (r0 :: rr) comps Hr Hne Hf).
  rewrite bytes_eqb_refl. reflexivity.
Qed.

(** ---------- non-vacuity ---------- *)
Example clean_example :
  clean [x2f; x61; x2f; x2e; x2e; x2f; x2e; x2e; x2f; x62; x2f; x2e; x2f; x63; x2f; x2f; x64; x2f]
  = [x2f; x62; x2f; x63; x2f; x64].
Proof. vm_compute. reflexivity. Qed.
Example os_path_good_example :
  os_path ks_root [x63; x6c; x2f; x73] = Ok [x2f; x6b; x73; x2f; x63; x6c; x2f; x73].
Proof. vm_compute. reflexivity. Qed.
Example os_path_escape_rejected : os_path ks_root escaped_path = Err E_INVALID_PATH.
Proof. vm_compute. reflexivity. Qed.
Example validate_example : validate_id [x63; x6c; x69; x65; x6e; x74; x5f; x31] = true.
Proof. vm_compute. reflexivity. Qed.
Example v1_op_example : exists p, v1_op_path v1_dir KHmac [x63; x6c; x69; x65; x6e; x74] = Ok p.
Proof. eexists. vm_compute. reflexivity. Qed.
