(** Proofs about the PostgreSQL wire model: relay identity, DataRow re-framing, totality. *)
From Acra Require Import Lib.Bytes Lib.Outcome Gen.WireConsts Model.PgWire.
From Coq Require Import ZifyN ZifyNat ZifyBool.
Local Open Scope N_scope.

(** ---------- readers ---------- *)
Lemma read_n_inv n s a b : read_n n s = Ok (a, b) -> s = a ++ b /\ length a = Z.to_nat n.
Proof.
  unfold read_n. destruct (Z.of_nat (length s) <? n)%Z eqn:E; [discriminate|].
  intros H. injection H as <- <-. split; [symmetry; apply firstn_skipn|].
  rewrite firstn_length. apply Z.ltb_ge in E. lia.
Qed.

Lemma read_n_app n (a b : bytes) : n = Z.of_nat (length a) -> read_n n (a ++ b) = Ok (a, b).
Proof.
  intros ->. unfold read_n. rewrite app_length.
  destruct (Z.of_nat (length a + length b) <? Z.of_nat (length a))%Z eqn:E; [lia|].
  rewrite Nat2Z.id, firstn_app_len, skipn_app_len. reflexivity.
Qed.

Lemma read_n_not_panic n s : read_n n s <> Panic.
Proof. unfold read_n. destruct (Z.of_nat (length s) <? n)%Z; discriminate. Qed.

Lemma slice_ok s lo hi : (lo <= hi)%nat -> (hi <= length s)%nat -> slice s lo hi = Ok (sub lo (hi - lo) s).
Proof.
  intros H1 H2. unfold slice.
  destruct (lo <=? hi)%nat eqn:E1; [|apply Nat.leb_gt in E1; lia].
  destruct (hi <=? length s)%nat eqn:E2; [|apply Nat.leb_gt in E2; lia]. reflexivity.
Qed.

Lemma len1 (t : bytes) : length t = 1%nat -> t = [hd_byte t].
Proof. destruct t as [|b [|c r]]; cbn; intros H; try discriminate. reflexivity. Qed.

(** ---------- framing: relay identity ---------- *)
Definition frame (tag : byte) (payload : bytes) : bytes :=
  tag :: packet_length_buf (N.of_nat (length payload)) ++ payload.

Lemma read_msg_inv s p rest :
  read_msg s = Ok (p, rest) ->
  s = [p_type p] ++ p_lenbuf p ++ p_desc p ++ rest /\ length (p_lenbuf p) = 4%nat
  /\ Z.of_nat (length (p_desc p)) = data_length (p_lenbuf p).
Proof.
  unfold read_msg.
  destruct (read_n 1 s) as [[t s1]| |] eqn:E1; cbn [Outcome.bind]; try discriminate.
  destruct (read_n 4 s1) as [[lb s2]| |] eqn:E2; cbn [Outcome.bind]; try discriminate.
  destruct (data_length lb <? 0)%Z eqn:E3; [discriminate|].
  destruct (read_n (data_length lb) s2) as [[d s3]| |] eqn:E4; cbn [Outcome.bind]; try discriminate.
  intros H. injection H as <- <-. cbn [p_type p_lenbuf p_desc].
  apply read_n_inv in E1 as [-> L1]. apply read_n_inv in E2 as [-> L2]. apply read_n_inv in E4 as [-> L4].
  rewrite <- (len1 t) by exact L1. split; [reflexivity|]. split; [exact L2|].
  apply Z.ltb_ge in E3. lia.
Qed.

(** every message the proxy reads and does not rewrite is written back byte for byte *)
Theorem pg_relay_identity s p rest :
  read_msg s = Ok (p, rest) -> p_type p <> PG_WITHOUT_MESSAGE_TYPE -> marshal p ++ rest = s.
Proof.
  intros H Ht. apply read_msg_inv in H as [-> _]. unfold marshal.
  destruct (byte_eqb (p_type p) PG_WITHOUT_MESSAGE_TYPE) eqn:E; [apply byte_eqb_eq in E; contradiction|].
  rewrite <- !app_assoc. reflexivity.
Qed.

Lemma packet_length_buf_length n : length (packet_length_buf n) = 4%nat.
Proof. apply be_enc_length. Qed.

Lemma data_length_buf n : n + 4 < 2^32 -> data_length (packet_length_buf n) = Z.of_N n.
Proof.
  intros H. unfold data_length, packet_length_buf.
  rewrite be_dec_enc_small by (change (256 ^ N.of_nat 4) with (2^32); change PG_LENGTH_BUF_SIZE with 4; lia).
  change PG_LENGTH_BUF_SIZE with 4. lia.
Qed.

(** a well-framed message is read as exactly its tag, length field and payload *)
Theorem pg_read_frame tag payload rest :
  N.of_nat (length payload) + 4 < 2^32 ->
  read_msg (frame tag payload ++ rest) = Ok (mk_packet tag (packet_length_buf (N.of_nat (length payload))) payload, rest).
Proof.
  intros H. unfold read_msg, frame.
  replace ((tag :: packet_length_buf (N.of_nat (length payload)) ++ payload) ++ rest)
    with ([tag] ++ (packet_length_buf (N.of_nat (length payload)) ++ (payload ++ rest)))
    by (cbn [app]; rewrite <- app_assoc; reflexivity).
  rewrite (read_n_app 1 [tag]) by reflexivity. cbn [Outcome.bind].
  rewrite read_n_app by (rewrite packet_length_buf_length; reflexivity). cbn [Outcome.bind].
  rewrite data_length_buf by exact H.
  destruct (Z.of_N (N.of_nat (length payload)) <? 0)%Z eqn:E; [lia|].
  rewrite read_n_app by lia. cbn [Outcome.bind hd_byte]. reflexivity.
Qed.

Theorem pg_frame_marshal tag payload :
  tag <> PG_WITHOUT_MESSAGE_TYPE ->
  marshal (mk_packet tag (packet_length_buf (N.of_nat (length payload))) payload) = frame tag payload.
Proof.
  intros Ht. unfold marshal, frame. cbn [p_type p_lenbuf p_desc].
  destruct (byte_eqb tag PG_WITHOUT_MESSAGE_TYPE) eqn:E; [apply byte_eqb_eq in E; contradiction|]. reflexivity.
Qed.

(** the read/send loop relays any sequence of well-framed messages unchanged and in order *)

Definition wf_msg (m : byte * bytes) : Prop :=
  fst m <> PG_WITHOUT_MESSAGE_TYPE /\ N.of_nat (length (snd m)) + 4 < 2^32.
Definition frames (ms : list (byte * bytes)) : bytes := concat (map (fun m => frame (fst m) (snd m)) ms).

Theorem pg_relay_stream ms fuel :
  Forall wf_msg ms -> (length ms < fuel)%nat -> relay fuel (frames ms) = frames ms.
Proof.
  revert fuel. induction ms as [|[tag pl] ms IH]; intros fuel Hwf Hf.
  - destruct fuel; [lia|]. reflexivity.
  - destruct fuel as [|f]; [lia|]. inversion Hwf as [|? ? [Ht Hl] Hwf']; subst. cbn [fst snd] in *.
    unfold frames. cbn [map concat fst snd]. cbn [relay].
    rewrite pg_read_frame by exact Hl. rewrite pg_frame_marshal by exact Ht.
    f_equal. apply IH; [exact Hwf'| cbn in Hf; lia].
Qed.

(** start-up messages (no type byte) *)
Theorem pg_startup_identity s p rest : read_startup s = Ok (p, rest) -> marshal p ++ rest = s.
Proof.
  unfold read_startup.
  destruct (read_n 8 s) as [[h s1]| |] eqn:E1; cbn [Outcome.bind]; try discriminate.
  destruct (bytes_eqb (skipn 4 h) PG_STARTUP_REQUEST || bytes_eqb h PG_SSL_REQUEST_HEADER
            || bytes_eqb h PG_CANCEL_REQUEST_HEADER || bytes_eqb h PG_GSSENC_REQUEST_HEADER); [|discriminate].
  destruct (data_length (firstn 4 h) - 4 <? 0)%Z; [discriminate|].
  destruct (read_n (data_length (firstn 4 h) - 4) s1) as [[d s2]| |] eqn:E2; cbn [Outcome.bind]; try discriminate.
  intros H. injection H as <- <-. apply read_n_inv in E1 as [-> _]. apply read_n_inv in E2 as [-> _].
  unfold marshal. cbn [p_type p_lenbuf p_desc]. rewrite byte_eqb_refl. cbn [app].
  rewrite <- !app_assoc. rewrite (app_assoc (firstn 4 h)), firstn_skipn. reflexivity.
Qed.

(** ---------- DataRow ---------- *)
(** protocol encoding of a row (None = SQL NULL), written from the protocol description *)
Definition enc_col (c : option bytes) : bytes :=
  match c with None => be_enc 4 PG_NULL_COLUMN | Some d => be_enc 4 (N.of_nat (length d)) ++ d end.
Definition datarow_payload (cols : list (option bytes)) : bytes :=
  be_enc 2 (N.of_nat (length cols)) ++ concat (map enc_col cols).
Definition wf_col (c : option bytes) : Prop :=
  match c with None => True | Some d => N.of_nat (length d) < PG_NULL_COLUMN end.
Definition col_of (c : option bytes) : column :=
  match c with
  | None => mk_col (be_enc 4 PG_NULL_COLUMN) [] false true
  | Some d => mk_col (be_enc 4 (N.of_nat (length d))) d false false
  end.
Definition formats_ok (fmts : list N) (i k : nat) : Prop :=
  forall j, (i <= j < i + k)%nat -> exists f, param_format j fmts = Ok f.
(** the intended row after the transformation: NULLs stay, every other value is replaced by [tr i old] *)
Fixpoint map_tr (tr : nat -> bytes -> bytes) (i : nat) (cols : list (option bytes)) : list (option bytes) :=
  match cols with
  | [] => []
  | c :: r => option_map (tr i) c :: map_tr tr (S i) r
  end.

Lemma be4_roundtrip n : n < 2^32 -> be_dec (be_enc 4 n) = n.
Proof. intros H. apply be_dec_enc_small. change (256 ^ N.of_nat 4) with (2^32). exact H. Qed.

Lemma null_col_const : PG_NULL_COLUMN = 4294967295. Proof. reflexivity. Qed.

Lemma parse_cols_spec fmts cols : forall i rest,
  Forall wf_col cols -> formats_ok fmts i (length cols) ->
  parse_cols fmts (length cols) i (concat (map enc_col cols) ++ rest) = Ok (map col_of cols, rest).
Proof.
  induction cols as [|c cols IH]; intros i rest Hwf Hf; [reflexivity|].
  inversion Hwf as [|? ? Hc Hwf']; subst.
  destruct (Hf i) as [f Hfi]; [cbn [length]; lia|].
  assert (Hf' : formats_ok fmts (S i) (length cols)) by (intros j Hj; apply Hf; cbn [length]; lia).
  cbn [length map concat parse_cols]. pose proof null_col_const as Hnc.
  destruct c as [d|]; cbn [enc_col wf_col col_of] in *.
  - rewrite <- !app_assoc. rewrite read_n_app by (rewrite be_enc_length; reflexivity). cbn [Outcome.bind].
    rewrite be4_roundtrip by lia.
    destruct (N.of_nat (length d) =? PG_NULL_COLUMN) eqn:E1; [lia|]. cbn [negb andb].
    destruct (N.of_nat (length (d ++ concat (map enc_col cols) ++ rest)) <? N.of_nat (length d)) eqn:E2;
      [rewrite app_length in E2; lia|].
    rewrite Hfi. cbn [Outcome.bind]. rewrite read_n_app by lia. cbn [Outcome.bind].
    rewrite IH by assumption. reflexivity.
  - rewrite <- !app_assoc. rewrite read_n_app by (rewrite be_enc_length; reflexivity). cbn [Outcome.bind].
    rewrite be4_roundtrip by lia. rewrite N.eqb_refl. cbn [negb andb].
    rewrite Hfi. cbn [Outcome.bind]. rewrite IH by assumption. reflexivity.
Qed.

Lemma be2_roundtrip n : n < 2^16 -> be_dec (be_enc 2 n) = n.
Proof. intros H. apply be_dec_enc_small. change (256 ^ N.of_nat 2) with (2^16). exact H. Qed.

(** parseColumns on the protocol encoding of a row yields exactly its columns *)
Theorem pg_parse_columns_spec fmts cols :
  N.of_nat (length cols) < 2^16 -> Forall wf_col cols -> formats_ok fmts 0 (length cols) ->
  parse_columns fmts (datarow_payload cols) = Ok (N.of_nat (length cols), map col_of cols).
Proof.
  intros Hn Hwf Hf. unfold parse_columns, datarow_payload.
  set (body := concat (map enc_col cols)).
  assert (Hl : length (be_enc 2 (N.of_nat (length cols)) ++ body) = (2 + length body)%nat)
    by (rewrite app_length, be_enc_length; reflexivity).
  rewrite Hl. destruct (2 + length body <? 2)%nat eqn:E; [apply Nat.ltb_lt in E; lia|].
  rewrite slice_ok by lia. cbn [Outcome.bind].
  replace (sub 0 (2 - 0) (be_enc 2 (N.of_nat (length cols)) ++ body)) with (be_enc 2 (N.of_nat (length cols)))
    by (unfold sub; cbn [skipn]; rewrite firstn_app_len' by (rewrite be_enc_length; reflexivity); reflexivity).
  rewrite be2_roundtrip by exact Hn.
  destruct (N.of_nat (length cols) =? 0) eqn:E0.
  - destruct cols; [reflexivity| cbn [length] in E0; lia].
  - rewrite slice_ok by lia. cbn [Outcome.bind].
    replace (sub 2 (2 + length body - 2) (be_enc 2 (N.of_nat (length cols)) ++ body)) with body.
    + rewrite Nat2N.id. rewrite <- (app_nil_r body). unfold body.
      rewrite parse_cols_spec by assumption. reflexivity.
    + unfold sub. rewrite skipn_app_len' by (rewrite be_enc_length; reflexivity).
      replace (2 + length body - 2)%nat with (length body) by lia. rewrite firstn_all. reflexivity.
Qed.

(** re-framing after the per-column transformation *)
Lemma apply_tr_bytes tr cols : forall i,
  cols_bytes (apply_tr tr i (map col_of cols)) = concat (map enc_col (map_tr tr i cols)).
Proof.
  induction cols as [|c cols IH]; intros i; [reflexivity|].
  unfold cols_bytes in *. cbn [map apply_tr map_tr concat]. rewrite IH.
  destruct c as [d|]; reflexivity.
Qed.

Lemma apply_tr_lengths tr cols : forall i,
  Forall wf_col (map_tr tr i cols) ->
  N.of_nat (length (concat (map enc_col (map_tr tr i cols))))
  = N.of_nat (length cols) * 4 + sum_lengths (apply_tr tr i (map col_of cols)).
Proof.
  induction cols as [|c cols IH]; intros i Hwf; [reflexivity|].
  cbn [map_tr] in Hwf. inversion Hwf as [|? ? Hc Hwf']; subst.
  cbn [map apply_tr map_tr concat length]. unfold sum_lengths in *. cbn [fold_right].
  rewrite app_length, Nat2N.inj_add, IH by exact Hwf'. pose proof null_col_const as Hnc.
  destruct c as [d|]; cbn [option_map enc_col col_of c_null c_data set_data col_length c_lenbuf wf_col] in *.
  - rewrite app_length, be_enc_length. rewrite be4_roundtrip by lia. lia.
  - rewrite be_enc_length. lia.
Qed.

Lemma apply_tr_unchanged tr cols : forall i,
  existsb c_changed (apply_tr tr i (map col_of cols)) = false -> map_tr tr i cols = cols.
Proof.
  induction cols as [|c cols IH]; intros i H; [reflexivity|].
  cbn [map apply_tr existsb map_tr] in *. apply orb_false_iff in H as [H1 H2].
  rewrite IH by exact H2. destruct c as [d|]; [cbn in H1; discriminate| reflexivity].
Qed.

Lemma map_tr_length tr cols : forall i, length (map_tr tr i cols) = length cols.
Proof. induction cols as [|c cols IH]; intros i; cbn [map_tr length]; [reflexivity| rewrite IH; reflexivity]. Qed.

(** Main DataRow theorem.  For every row, every transformation of its non-NULL values (shrinking,
    growing, keeping, to any length below 2^32-1) and every valid format list: reading the framed row,
    splitting it, applying the transformation and re-framing yields EXACTLY the protocol encoding of
    the intended row – hence declared lengths = actual lengths (column and message), column count and
    NULL markers preserved, untouched values byte-identical. *)
Theorem pg_datarow_rewrite_wf fmts tr cols rest :
  N.of_nat (length cols) < 2^16 -> Forall wf_col cols -> Forall wf_col (map_tr tr 0 cols) ->
  formats_ok fmts 0 (length cols) ->
  N.of_nat (length (datarow_payload cols)) + 4 < 2^32 ->
  exists p',
    (do (p, _) <- read_msg (frame PG_DATAROW_TYPE (datarow_payload cols) ++ rest); process_datarow fmts tr p) = Ok p'
    /\ marshal p' = frame PG_DATAROW_TYPE (datarow_payload (map_tr tr 0 cols)).
Proof.
  intros Hn Hwf Hwf' Hf Hlen.
  rewrite pg_read_frame by exact Hlen. cbn [Outcome.bind]. unfold process_datarow. cbn [p_desc].
  rewrite pg_parse_columns_spec by assumption. cbn [Outcome.bind].
  assert (HD : PG_DATAROW_TYPE <> PG_WITHOUT_MESSAGE_TYPE) by discriminate.
  destruct (N.of_nat (length cols) =? 0) eqn:E0.
  - destruct cols; [|cbn [length] in E0; lia]. eexists. split; [reflexivity|].
    apply pg_frame_marshal. exact HD.
  - unfold update_data_from_columns.
    destruct (existsb c_changed (apply_tr tr 0 (map col_of cols))) eqn:Ech.
    + eexists. split; [reflexivity|]. cbn [p_type].
      rewrite apply_tr_bytes.
      replace (N.of_nat (length cols) * 4 + 2 + sum_lengths (apply_tr tr 0 (map col_of cols)))
        with (N.of_nat (length (datarow_payload (map_tr tr 0 cols)))).
      * replace (be_enc 2 (N.of_nat (length cols)) ++ concat (map enc_col (map_tr tr 0 cols)))
          with (datarow_payload (map_tr tr 0 cols)) by (unfold datarow_payload; rewrite map_tr_length; reflexivity).
        apply pg_frame_marshal. exact HD.
      * unfold datarow_payload. rewrite app_length, be_enc_length, Nat2N.inj_add, apply_tr_lengths by exact Hwf'. lia.
    + rewrite (apply_tr_unchanged _ _ _ Ech). eexists. split; [reflexivity|]. apply pg_frame_marshal. exact HD.
Qed.

(** on ARBITRARY payload bytes: whatever parseColumns accepts, re-framing the unchanged columns
    reproduces the bytes it consumed (count, length buffers, values), so nothing is lost or reordered *)
Lemma parse_cols_inv fmts k : forall i r cs r',
  parse_cols fmts k i r = Ok (cs, r') ->
  r = cols_bytes cs ++ r' /\ length cs = k /\ existsb c_changed cs = false
  /\ Forall (fun c => length (c_lenbuf c) = 4%nat /\
                      (if c_null c then be_dec (c_lenbuf c) = PG_NULL_COLUMN /\ c_data c = []
                       else N.of_nat (length (c_data c)) = be_dec (c_lenbuf c))) cs.
Proof.
  induction k as [|k IH]; intros i r cs r' H; cbn [parse_cols] in H.
  - injection H as <- <-. repeat split; constructor.
  - destruct (read_n 4 r) as [[lb r1]| |] eqn:E1; cbn [Outcome.bind] in H; try discriminate.
    apply read_n_inv in E1 as [-> L1].
    destruct (negb (be_dec lb =? PG_NULL_COLUMN) && (N.of_nat (length r1) <? be_dec lb)) eqn:E2; [discriminate|].
    destruct (param_format i fmts) as [f| |]; cbn [Outcome.bind] in H; try discriminate.
    destruct (be_dec lb =? PG_NULL_COLUMN) eqn:E3.
    + destruct (parse_cols fmts k (S i) r1) as [[cs1 r1']| |] eqn:E4; cbn [Outcome.bind] in H; try discriminate.
      injection H as <- <-. apply IH in E4 as (-> & L & C & F).
      unfold cols_bytes in *. cbn [map concat c_lenbuf c_data length existsb c_changed orb].
      rewrite <- !app_assoc. repeat split; try congruence.
      constructor; [|exact F]. cbn [c_lenbuf c_null c_data]. apply N.eqb_eq in E3. auto.
    + destruct (read_n (Z.of_N (be_dec lb)) r1) as [[d r2]| |] eqn:E5; cbn [Outcome.bind] in H; try discriminate.
      apply read_n_inv in E5 as [-> L5].
      destruct (parse_cols fmts k (S i) r2) as [[cs1 r2']| |] eqn:E4; cbn [Outcome.bind] in H; try discriminate.
      injection H as <- <-. apply IH in E4 as (-> & L & C & F).
      unfold cols_bytes in *. cbn [map concat c_lenbuf c_data length existsb c_changed orb].
      rewrite <- !app_assoc. repeat split; try congruence.
      constructor; [|exact F]. cbn [c_lenbuf c_null c_data]. split; [exact L1| lia].
Qed.

Definition col_consistent (c : column) : Prop :=
  length (c_lenbuf c) = 4%nat /\
  (if c_null c then be_dec (c_lenbuf c) = PG_NULL_COLUMN /\ c_data c = []
   else N.of_nat (length (c_data c)) = be_dec (c_lenbuf c)).

Lemma parse_columns_inv fmts desc count cs :
  parse_columns fmts desc = Ok (count, cs) -> count <> 0 ->
  exists trailing, desc = be_enc 2 count ++ cols_bytes cs ++ trailing /\ N.of_nat (length cs) = count
                   /\ Forall col_consistent cs.
Proof.
  unfold parse_columns. destruct (length desc <? 2)%nat eqn:E; [discriminate|]. apply Nat.ltb_ge in E.
  rewrite slice_ok by lia. cbn [Outcome.bind].
  destruct (be_dec (sub 0 (2 - 0) desc) =? 0) eqn:E0; [intros H; injection H as <- <-; intros; congruence|].
  rewrite slice_ok by lia. cbn [Outcome.bind].
  destruct (parse_cols fmts (N.to_nat (be_dec (sub 0 (2 - 0) desc))) 0 (sub 2 (length desc - 2) desc)) as [[cs1 r']| |] eqn:E1;
    cbn [Outcome.bind]; try discriminate.
  intros H _. injection H as <- <-. apply parse_cols_inv in E1 as (Hr & L & _ & F).
  exists r'. split; [|split; [|exact F]].
  - rewrite <- Hr. unfold sub. change (skipn 0 desc) with desc. change (2 - 0)%nat with 2%nat.
    replace (be_enc 2 (be_dec (firstn 2 desc))) with (firstn 2 desc).
    + replace (firstn (length desc - 2) (skipn 2 desc)) with (skipn 2 desc)
        by (symmetry; apply firstn_all2; rewrite skipn_length; lia).
      symmetry. apply firstn_skipn.
    + rewrite <- (be_enc_dec (firstn 2 desc)) at 1. rewrite firstn_length. replace (Nat.min 2 (length desc)) with 2%nat by lia. reflexivity.
  - rewrite L. apply N2Nat.id.
Qed.

Theorem pg_datarow_parse_marshal fmts desc count cs :
  parse_columns fmts desc = Ok (count, cs) -> count <> 0 ->
  exists trailing, desc = be_enc 2 count ++ cols_bytes cs ++ trailing /\ N.of_nat (length cs) = count
                   /\ Forall col_consistent cs.
Proof. apply parse_columns_inv. Qed.

(** ---------- totality (reused by C14): no input makes a decoder panic ---------- *)
Theorem wire_pg_read_msg_total s : read_msg s <> Panic.
Proof.
  unfold read_msg.
  destruct (read_n 1 s) as [[t s1]| |] eqn:E1; cbn [Outcome.bind]; try discriminate; [|exfalso; eapply read_n_not_panic; eauto].
  destruct (read_n 4 s1) as [[lb s2]| |] eqn:E2; cbn [Outcome.bind]; try discriminate; [|exfalso; eapply read_n_not_panic; eauto].
  destruct (data_length lb <? 0)%Z; [discriminate|].
  destruct (read_n (data_length lb) s2) as [[d s3]| |] eqn:E3; cbn [Outcome.bind]; try discriminate.
  exfalso; eapply read_n_not_panic; eauto.
Qed.

Theorem wire_pg_read_startup_total s : read_startup s <> Panic.
Proof.
  unfold read_startup.
  destruct (read_n 8 s) as [[h s1]| |] eqn:E1; cbn [Outcome.bind]; try discriminate; [|exfalso; eapply read_n_not_panic; eauto].
  destruct (bytes_eqb (skipn 4 h) PG_STARTUP_REQUEST || bytes_eqb h PG_SSL_REQUEST_HEADER
            || bytes_eqb h PG_CANCEL_REQUEST_HEADER || bytes_eqb h PG_GSSENC_REQUEST_HEADER); [|discriminate].
  destruct (data_length (firstn 4 h) - 4 <? 0)%Z; [discriminate|].
  destruct (read_n (data_length (firstn 4 h) - 4) s1) as [[d s2]| |] eqn:E2; cbn [Outcome.bind]; try discriminate.
  exfalso; eapply read_n_not_panic; eauto.
Qed.

Lemma parse_cols_total fmts k : forall i r, parse_cols fmts k i r <> Panic.
Proof.
  induction k as [|k IH]; intros i r; cbn [parse_cols]; [discriminate|].
  destruct (read_n 4 r) as [[lb r1]| |] eqn:E1; cbn [Outcome.bind]; try discriminate; [|exfalso; eapply read_n_not_panic; eauto].
  destruct (negb (be_dec lb =? PG_NULL_COLUMN) && (N.of_nat (length r1) <? be_dec lb)); [discriminate|].
  assert (Hpf : param_format i fmts <> Panic).
  { unfold param_format, check_format. destruct fmts as [|f [|g fs]]; [discriminate| |].
    - destruct (f =? PG_BIND_FORMAT_TEXT); [discriminate|]. destruct (f =? PG_BIND_FORMAT_BINARY); discriminate.
    - destruct (nth_error (f :: g :: fs) i) as [x|]; [|discriminate].
      destruct (x =? PG_BIND_FORMAT_TEXT); [discriminate|]. destruct (x =? PG_BIND_FORMAT_BINARY); discriminate. }
  destruct (param_format i fmts) as [f| |]; cbn [Outcome.bind]; try discriminate; [|congruence].
  destruct (be_dec lb =? PG_NULL_COLUMN).
  - specialize (IH (S i) r1). destruct (parse_cols fmts k (S i) r1) as [[cs r']| |]; cbn [Outcome.bind]; try discriminate. congruence.
  - destruct (read_n (Z.of_N (be_dec lb)) r1) as [[d r2]| |] eqn:E2; cbn [Outcome.bind]; try discriminate; [|exfalso; eapply read_n_not_panic; eauto].
    specialize (IH (S i) r2). destruct (parse_cols fmts k (S i) r2) as [[cs r']| |]; cbn [Outcome.bind]; try discriminate. congruence.
Qed.

Theorem wire_pg_parse_columns_total fmts desc : parse_columns fmts desc <> Panic.
Proof.
  unfold parse_columns. destruct (length desc <? 2)%nat eqn:E; [discriminate|]. apply Nat.ltb_ge in E.
  rewrite slice_ok by lia. cbn [Outcome.bind].
  destruct (be_dec (sub 0 (2 - 0) desc) =? 0); [discriminate|].
  rewrite slice_ok by lia. cbn [Outcome.bind].
  pose proof (parse_cols_total fmts (N.to_nat (be_dec (sub 0 (2 - 0) desc))) 0 (sub 2 (length desc - 2) desc)) as H.
  destruct (parse_cols fmts _ 0 _) as [[cs r']| |]; cbn [Outcome.bind]; try discriminate. congruence.
Qed.

(** bounded consumption: a successful parse never claims more columns than 4-byte length fields fit *)
Theorem wire_pg_parse_columns_bounded fmts desc count cs :
  parse_columns fmts desc = Ok (count, cs) -> 2 + 4 * count <= N.of_nat (length desc).
Proof.
  intros H. destruct (N.eq_dec count 0) as [->|Hc].
  - unfold parse_columns in H. destruct (length desc <? 2)%nat eqn:E; [discriminate|]. apply Nat.ltb_ge in E. lia.
  - destruct (parse_columns_inv _ _ _ _ H Hc) as (tr & -> & L & F).
    rewrite !app_length, be_enc_length. rewrite <- L.
    assert (Hcb : (4 * length cs <= length (cols_bytes cs))%nat).
    { clear -F. induction F as [|c l [Hl _] F IH]; [cbn; lia|].
      unfold cols_bytes in *. cbn [map concat]. rewrite !app_length. cbn [length]. lia. }
    lia.
Qed.

Theorem wire_pg_process_datarow_total fmts tr p : process_datarow fmts tr p <> Panic.
Proof.
  unfold process_datarow. pose proof (wire_pg_parse_columns_total fmts (p_desc p)) as H.
  destruct (parse_columns fmts (p_desc p)) as [[count cs]| |]; cbn [Outcome.bind]; try discriminate; [|congruence].
  destruct (count =? 0); discriminate.
Qed.

(** ---------- simple Query ---------- *)
Theorem pg_replace_query_wf p q :
  p_type p = PG_QUERY_TYPE -> marshal (replace_query p q) = frame PG_QUERY_TYPE (q ++ [x00]).
Proof.
  intros Ht. unfold replace_query. rewrite Ht, byte_eqb_refl.
  replace (N.of_nat (length q) + 1) with (N.of_nat (length (q ++ [x00]))) by (rewrite app_length; cbn [length]; lia).
  apply pg_frame_marshal. discriminate.
Qed.

Theorem pg_replace_query_other p q : p_type p <> PG_QUERY_TYPE -> replace_query p q = p.
Proof.
  intros Ht. unfold replace_query.
  destruct (byte_eqb (p_type p) PG_QUERY_TYPE) eqn:E; [apply byte_eqb_eq in E; contradiction| reflexivity].
Qed.
