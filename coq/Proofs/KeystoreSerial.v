(** C17: UNBOUNDED serializability of concurrent key store handles.

    For ANY number of handles, ANY programs over ANY operation alphabet whose operation programs
    respect the lock discipline ([safe], Proofs/KeystoreLock.v: outside a section a program can
    only take a lock; inside a shared section no call changes the storage), ANY initial storage and
    EVERY schedule of back-end steps: the state reached is the state of the SERIAL execution of the
    completed locked sections, in the order in which they released (= for exclusive sections: took)
    the lock, plus the started sections of the current lock holders ([xrel]).

    Proof: forward simulation by induction over the schedule. The abstraction lags behind: a section
    is executed on the serial state at the moment it releases the lock. While handle [i] holds the
    exclusive lock nobody else steps (lock discipline), so the concurrent state is the serial state
    after [n] calls of [i] alone; holders of the shared lock do not change the storage, so each of
    them is as after its own calls alone on the serial state, and the section of one of them
    commutes with the started sections of the others ([xpart_frame]). *)
From Acra Require Import Lib.Bytes Lib.Outcome Gen.KswConsts Model.KeystoreWrite Model.KeystoreSerial
  Proofs.KeystoreWrite Proofs.KeystoreLock.
Local Open Scope Z_scope.

(** * Lists *)
Lemma nth_set_hit {A} (x : A) : forall l i y, nth_error l i = Some y -> nth_error (set_nth i x l) i = Some x.
Proof.
  induction l as [|z t IH]; intros i y H; destruct i as [|i']; cbn [set_nth nth_error] in *; try discriminate.
  - reflexivity.
  - eapply IH. exact H.
Qed.

Lemma nth_error_ext {A} : forall (l l' : list A), (forall j, nth_error l j = nth_error l' j) -> l = l'.
Proof.
  induction l as [|x t IH]; intros l' H; destruct l' as [|y t'].
  - reflexivity.
  - specialize (H O). discriminate H.
  - specialize (H O). discriminate H.
  - pose proof (H O) as H0. cbn [nth_error] in H0. inversion H0; subst y. f_equal.
    apply IH. intro j. exact (H (S j)).
Qed.

Lemma nolock_not_release c : is_lock_call c = false -> is_release (Some c) = None /\ is_acquire (Some c) = None.
Proof. intro H. destruct c; try discriminate H; split; reflexivity. Qed.

Section XProofs.
  Variables (Op Loc Res : Type).
  Variable oprog : Loc -> Op -> prog (Res * Loc).
  Hypothesis oprog_safe : forall s o, safe (oprog s o).

  Notation XH := (xhandle Op Loc Res).
  Notation XS := (xstate Op Loc Res).

  (** * The lock-discipline invariant on the generic machine (as [ginv] of Proofs/KeystoreLock.v) *)
  Definition xrole (st : storage) (l : lockst) (i : nat) (p : prog (Res * Loc)) : Prop :=
    match l with
    | LFree => safe p
    | LExcl j => if Nat.eqb i j then insec st p else safe p
    | LShared hs => if in_shared i hs then inrd st p else safe p
    end.

  Definition xrole_ok (st : storage) (l : lockst) (i : nat) (h : XH) : Prop :=
    match xh_cur (xsettled oprog h) with
    | None => True
    | Some p => xrole st l i p
    end.

  Definition xginv (g : XS) : Prop :=
    lock_ne (x_lock g) /\
    forall i h, nth_error (x_hs g) i = Some h -> xrole_ok (x_st g) (x_lock g) i h.

  Definition xcur_safe (h : XH) : Prop :=
    match xh_cur h with None => True | Some p => safe p end.

  Lemma xsettle_safe fuel : forall h, xcur_safe h -> xcur_safe (xsettle oprog fuel h).
  Proof.
    induction fuel as [|n IH]; intros h H; cbn [xsettle]; [exact H|].
    unfold xcur_safe in H. destruct (xh_cur h) as [[[r s]|c k]|] eqn:Ec.
    - apply IH. exact I.
    - unfold xcur_safe. rewrite Ec. exact H.
    - destruct (xh_todo h) as [|o rest].
      + unfold xcur_safe. rewrite Ec. exact I.
      + apply IH. unfold xcur_safe. cbn [xh_cur]. apply oprog_safe.
  Qed.

  Lemma xsettled_safe h : xcur_safe h -> xcur_safe (xsettled oprog h).
  Proof. apply xsettle_safe. Qed.

  Lemma xsettled_call h c k : xh_cur h = Some (Call c k) -> xsettled oprog h = h.
  Proof.
    intro H. unfold xsettled. destruct (2 * length (xh_todo h) + 2)%nat as [|n]; cbn [xsettle]; [reflexivity|].
    rewrite H. reflexivity.
  Qed.

  Lemma xrole_ok_new st l i hn p :
    xh_cur hn = Some p -> xrole st l i p -> xrole_ok st l i (xsettled oprog hn).
  Proof.
    intros Hc Hr.
    assert (Hsafe : safe p -> match xh_cur (xsettled oprog (xsettled oprog hn)) with None => True | Some q => safe q end).
    { intro Hp. apply (xsettled_safe (xsettled oprog hn)), xsettled_safe. unfold xcur_safe. rewrite Hc. exact Hp. }
    assert (Hcall : forall c k, p = Call c k -> xh_cur (xsettled oprog (xsettled oprog hn)) = Some p).
    { intros c k E. subst p. rewrite !(xsettled_call hn c k Hc). exact Hc. }
    unfold xrole_ok, xrole in *. destruct l as [|j|hs].
    - apply Hsafe. exact Hr.
    - destruct (Nat.eqb i j); [|apply Hsafe; exact Hr].
      destruct (insec_is_call _ _ Hr) as (c & k & E). rewrite (Hcall c k E). exact Hr.
    - destruct (in_shared i hs); [|apply Hsafe; exact Hr].
      destruct (inrd_is_call _ _ Hr) as (c & k & E). rewrite (Hcall c k E). exact Hr.
  Qed.

  (** what the call of handle [i] can be, given who holds the lock; what it does to the lock *)
  Definition step_case (st : storage) (l : lockst) (i : nat) (c : bcall) (l' : lockst) : Prop :=
    (l = LFree /\ c = BLock /\ l' = LExcl i) \/
    (l = LFree /\ c = BRLock /\ l' = LShared [i]) \/
    (l = LExcl i /\ c = BUnlock /\ l' = LFree) \/
    (l = LExcl i /\ is_lock_call c = false /\ l' = LExcl i) \/
    (exists hs, l = LShared hs /\ in_shared i hs = false /\ c = BRLock /\ l' = LShared (i :: hs)) \/
    (exists hs, l = LShared hs /\ in_shared i hs = true /\ c = BRUnlock /\
                l' = match remove_nat i hs with [] => LFree | hs' => LShared hs' end) \/
    (exists hs, l = LShared hs /\ in_shared i hs = true /\ is_lock_call c = false /\
                snd (do_call c st) = st /\ l' = LShared hs).

  Lemma xrole_step st l i c k l' :
    lock_ne l -> xrole st l i (Call c k) -> lock_step i c l = Some l' ->
    step_case st l i c l' /\
    lock_ne l' /\
    xrole (snd (do_call c st)) l' i (k (fst (do_call c st))) /\
    (forall j p, j <> i -> xrole st l j p -> xrole (snd (do_call c st)) l' j p).
  Proof.
    intros Hne Hr Hl. unfold step_case. destruct l as [|j0|hs]; cbn [xrole] in Hr.
    - destruct (safe_call_inv c k Hr) as [[-> Hk]|[-> Hk]]; cbn [lock_step] in Hl; inversion Hl; subst l';
        cbn [do_call fst snd].
      + split; [left; repeat split|]. split; [exact I|]. split.
        * cbn [xrole]. rewrite Nat.eqb_refl. apply Hk.
        * intros j p Hj Hp. cbn [xrole] in *. destruct (Nat.eqb_spec j i); [contradiction|exact Hp].
      + split; [right; left; repeat split|]. split; [discriminate|]. split.
        * cbn [xrole]. rewrite in_shared_cons, Nat.eqb_refl. cbn [orb]. apply Hk.
        * intros j p Hj Hp. cbn [xrole] in *. rewrite in_shared_cons.
          destruct (Nat.eqb_spec j i); [contradiction|]. cbn [orb in_shared existsb]. exact Hp.
    - destruct (Nat.eqb_spec i j0) as [E|E].
      + subst j0. destruct (insec_call_inv st c k Hr) as [[-> Hk]|(Hc & Hm & Hk)].
        * cbn [lock_step] in Hl. inversion Hl; subst l'. cbn [do_call fst snd].
          split; [right; right; left; repeat split|]. split; [exact I|]. split; [exact Hk|].
          intros j p Hj Hp. cbn [xrole] in *. destruct (Nat.eqb_spec j i); [contradiction|exact Hp].
        * rewrite (nolock_step i c _ Hc) in Hl. inversion Hl; subst l'.
          split; [right; right; right; left; repeat split; exact Hc|]. split; [exact I|]. split.
          -- cbn [xrole]. rewrite Nat.eqb_refl. exact Hk.
          -- intros j p Hj Hp. cbn [xrole] in *. destruct (Nat.eqb_spec j i); [contradiction|exact Hp].
      + destruct (safe_call_inv c k Hr) as [[-> Hk]|[-> Hk]]; cbn [lock_step] in Hl; discriminate Hl.
    - destruct (in_shared i hs) eqn:Ei.
      + destruct (inrd_call_inv st c k Hr) as [[-> Hk]|(Hc & Hm & Hk)].
        * cbn [lock_step] in Hl. inversion Hl; subst l'; clear Hl. cbn [do_call fst snd].
          split; [do 5 right; left; exists hs; repeat split; exact Ei|].
          destruct (remove_nat i hs) as [|x t] eqn:Er.
          -- split; [exact I|]. split; [exact Hk|].
             intros j p Hj Hp. cbn [xrole] in *.
             rewrite <- (in_shared_remove_other j i hs Hj), Er in Hp. exact Hp.
          -- split; [discriminate|]. split.
             ++ cbn [xrole]. rewrite <- Er, in_shared_remove_same. exact Hk.
             ++ intros j p Hj Hp. cbn [xrole] in *.
                rewrite <- Er, (in_shared_remove_other j i hs Hj). exact Hp.
        * rewrite (nolock_step i c _ Hc) in Hl. inversion Hl; subst l'.
          split; [do 6 right; exists hs; repeat split; assumption|]. rewrite Hm.
          split; [exact Hne|]. split.
          -- cbn [xrole]. rewrite Ei. exact Hk.
          -- intros j p Hj Hp. exact Hp.
      + destruct (safe_call_inv c k Hr) as [[-> Hk]|[-> Hk]]; cbn [lock_step] in Hl; [discriminate Hl|].
        inversion Hl; subst l'. cbn [do_call fst snd].
        split; [do 4 right; left; exists hs; repeat split; exact Ei|]. split; [discriminate|]. split.
        * cbn [xrole]. rewrite in_shared_cons, Nat.eqb_refl. cbn [orb]. apply Hk.
        * intros j p Hj Hp. cbn [xrole] in *. rewrite in_shared_cons.
          destruct (Nat.eqb_spec j i); [contradiction|]. cbn [orb]. exact Hp.
  Qed.

  (** ** the shape of a step *)
  Definition xnew (h0 : XH) (k : res bval -> prog (Res * Loc)) (v : res bval) : XH :=
    xsettled oprog (mk_xh (xh_loc (xsettled oprog h0)) (xh_todo (xsettled oprog h0)) (Some (k v))
                          (xh_out (xsettled oprog h0))).

  Lemma xstep_spec g i g' :
    xstep oprog g i = Some g' ->
    exists h0 c k l',
      nth_error (x_hs g) i = Some h0 /\ xh_cur (xsettled oprog h0) = Some (Call c k) /\
      lock_step i c (x_lock g) = Some l' /\
      g' = mk_x (snd (do_call c (x_st g))) l' (set_nth i (xnew h0 k (fst (do_call c (x_st g)))) (x_hs g)).
  Proof.
    intro Hs. unfold xstep in Hs. cbv zeta in Hs.
    destruct (nth_error (x_hs g) i) as [h0|] eqn:En; [|discriminate].
    destruct (xh_cur (xsettled oprog h0)) as [[a|c k]|] eqn:Ec; try discriminate.
    destruct (lock_step i c (x_lock g)) as [l'|] eqn:El; [|discriminate].
    destruct (do_call c (x_st g)) as [v st'] eqn:Ed. inversion Hs; subst g'.
    exists h0, c, k, l'. split; [reflexivity|]. split; [exact Ec|]. split; [exact El|].
    rewrite Ed. reflexivity.
  Qed.

  Lemma xstep_intro g i h0 c k l' :
    nth_error (x_hs g) i = Some h0 -> xh_cur (xsettled oprog h0) = Some (Call c k) ->
    lock_step i c (x_lock g) = Some l' ->
    xstep oprog g i =
    Some (mk_x (snd (do_call c (x_st g))) l' (set_nth i (xnew h0 k (fst (do_call c (x_st g)))) (x_hs g))).
  Proof.
    intros En Ec El. unfold xstep. cbv zeta. rewrite En, Ec, El.
    destruct (do_call c (x_st g)) as [v st'] eqn:Ed. reflexivity.
  Qed.

  Lemma xnext_call_spec g i h0 c k :
    nth_error (x_hs g) i = Some h0 -> xh_cur (xsettled oprog h0) = Some (Call c k) ->
    xnext_call oprog g i = Some c.
  Proof. intros En Ec. unfold xnext_call, xhead_call. rewrite En, Ec. reflexivity. Qed.

  Lemma xstep_other g i g' j : xstep oprog g i = Some g' -> j <> i -> nth_error (x_hs g') j = nth_error (x_hs g) j.
  Proof.
    intros Hs Hj. destruct (xstep_spec g i g' Hs) as (h0 & c & k & l' & _ & _ & _ & ->).
    cbn [x_hs]. apply nth_set_other. exact Hj.
  Qed.

  Theorem xginv_init st hs : (forall h, In h hs -> xh_cur h = None) -> xginv (mk_x st LFree hs).
  Proof.
    intro H. split; [exact I|]. cbn [x_hs x_st x_lock]. intros i h Hn.
    unfold xrole_ok. cbn [xrole]. apply (xsettled_safe h). unfold xcur_safe.
    rewrite (H h (nth_error_In _ _ Hn)). exact I.
  Qed.

  (** a step keeps the invariant, and is one of the seven cases *)
  Theorem xstep_inv g i g' h0 c k l' :
    xginv g -> xstep oprog g i = Some g' ->
    nth_error (x_hs g) i = Some h0 -> xh_cur (xsettled oprog h0) = Some (Call c k) ->
    lock_step i c (x_lock g) = Some l' ->
    xginv g' /\ step_case (x_st g) (x_lock g) i c l'.
  Proof.
    intros [Hne Hall] Hs En Ec El.
    pose proof (Hall i h0 En) as Hr. unfold xrole_ok in Hr. rewrite Ec in Hr.
    destruct (xrole_step _ _ _ _ _ _ Hne Hr El) as (Hcase & Hne' & Hri & Hro).
    rewrite (xstep_intro g i h0 c k l' En Ec El) in Hs. inversion Hs; subst g'; clear Hs.
    split; [|exact Hcase]. split; cbn [x_lock x_st x_hs]; [exact Hne'|].
    intros j hj Hj. destruct (Nat.eq_dec j i) as [E|E].
    - subst j. apply nth_set_same in Hj. subst hj. unfold xnew. eapply xrole_ok_new; [|exact Hri]. reflexivity.
    - rewrite nth_set_other in Hj by exact E. pose proof (Hall j hj Hj) as Hrj.
      unfold xrole_ok in *. destruct (xh_cur (xsettled oprog hj)); [|exact I]. apply Hro; assumption.
  Qed.

  Lemma xstep_ginv g i g' : xginv g -> xstep oprog g i = Some g' -> xginv g'.
  Proof.
    intros Hg Hs. destruct (xstep_spec g i g' Hs) as (h0 & c & k & l' & En & Ec & El & _).
    exact (proj1 (xstep_inv g i g' h0 c k l' Hg Hs En Ec El)).
  Qed.

  Lemma xrun_ginv : forall sched g, xginv g -> xginv (xrun oprog g sched).
  Proof.
    induction sched as [|i rest IH]; intros g Hg; cbn [xrun]; [exact Hg|].
    destruct (xstep oprog g i) as [g'|] eqn:Es; [|apply IH; exact Hg].
    apply IH. eapply xstep_ginv; eassumption.
  Qed.

  (** * Sections *)
  Lemma xpart_snoc : forall n a i b b',
    xpart oprog n a i = Some b -> xstep oprog b i = Some b' -> x_lock b' <> LFree ->
    xpart oprog (S n) a i = Some b'.
  Proof.
    induction n as [|n IH]; intros a i b b' Hp Hs Hl.
    - cbn [xpart] in Hp. inversion Hp; subst b. cbn [xpart]. rewrite Hs.
      destruct (x_lock b'); [contradiction|reflexivity|reflexivity].
    - cbn [xpart] in Hp. destruct (xstep oprog a i) as [a1|] eqn:Ea; [|discriminate].
      change (xpart oprog (S (S n)) a i) with
        (match xstep oprog a i with
         | None => None
         | Some g' => match x_lock g' with LFree => None | _ => xpart oprog (S n) g' i end
         end).
      rewrite Ea. destruct (x_lock a1); [discriminate| |]; eapply IH; eassumption.
  Qed.

  Lemma xpart_section : forall n a i b b',
    xpart oprog n a i = Some b -> xstep oprog b i = Some b' -> x_lock b' = LFree ->
    xrun_section oprog (S n) a i = Some b'.
  Proof.
    induction n as [|n IH]; intros a i b b' Hp Hs Hl.
    - cbn [xpart] in Hp. inversion Hp; subst b. cbn [xrun_section]. rewrite Hs, Hl. reflexivity.
    - cbn [xpart] in Hp. destruct (xstep oprog a i) as [a1|] eqn:Ea; [|discriminate].
      change (xrun_section oprog (S (S n)) a i) with
        (match xstep oprog a i with
         | None => None
         | Some g' => match x_lock g' with LFree => Some g' | _ => xrun_section oprog (S n) g' i end
         end).
      rewrite Ea. destruct (x_lock a1); [discriminate| |]; eapply IH; eassumption.
  Qed.

  Lemma xpart_other : forall n a i b j,
    xpart oprog n a i = Some b -> j <> i -> nth_error (x_hs b) j = nth_error (x_hs a) j.
  Proof.
    induction n as [|n IH]; intros a i b j Hp Hj; cbn [xpart] in Hp.
    - inversion Hp; subst b. reflexivity.
    - destruct (xstep oprog a i) as [a1|] eqn:Ea; [|discriminate].
      assert (Hp' : xpart oprog n a1 i = Some b) by (destruct (x_lock a1); [discriminate|exact Hp|exact Hp]).
      rewrite (IH a1 i b j Hp' Hj). eapply xstep_other; eassumption.
  Qed.

  (** the steps of handle [j] depend only on the storage, the lock and handle [j] itself *)
  Definition agree_on (j : nat) (g1 g2 : XS) : Prop :=
    x_st g1 = x_st g2 /\ x_lock g1 = x_lock g2 /\ nth_error (x_hs g1) j = nth_error (x_hs g2) j.

  Lemma xstep_frame j g1 g2 g1' :
    agree_on j g1 g2 -> xstep oprog g1 j = Some g1' ->
    exists g2', xstep oprog g2 j = Some g2' /\ agree_on j g1' g2'.
  Proof.
    intros (Hst & Hl & Hn) Hs.
    destruct (xstep_spec g1 j g1' Hs) as (h0 & c & k & l' & En & Ec & El & ->).
    rewrite Hn in En. rewrite Hl in El.
    eexists. split; [apply (xstep_intro g2 j h0 c k l' En Ec El)|].
    unfold agree_on. cbn [x_st x_lock x_hs]. rewrite Hst. split; [reflexivity|]. split; [reflexivity|].
    rewrite (nth_set_hit _ _ _ _ En). rewrite <- Hn in En. rewrite (nth_set_hit _ _ _ _ En). reflexivity.
  Qed.

  Lemma xpart_frame : forall n j a1 a2 b1,
    agree_on j a1 a2 -> xpart oprog n a1 j = Some b1 ->
    exists b2, xpart oprog n a2 j = Some b2 /\ agree_on j b1 b2.
  Proof.
    induction n as [|n IH]; intros j a1 a2 b1 Hag Hp; cbn [xpart] in *.
    - inversion Hp; subst b1. exists a2. split; [reflexivity|exact Hag].
    - destruct (xstep oprog a1 j) as [a1'|] eqn:Ea; [|discriminate].
      destruct (xstep_frame j a1 a2 a1' Hag Ea) as (a2' & Ea2 & Hag').
      rewrite Ea2. destruct Hag' as (Hst' & Hl' & Hn'). rewrite <- Hl'.
      destruct (x_lock a1') eqn:El1; [discriminate| |]; apply (IH j a1' a2' b1); try exact Hp;
        (split; [exact Hst'|]; split; [congruence|exact Hn']).
  Qed.

  (** * The simulation: one concurrent step *)
  Lemma xsim_step g a i g' :
    xginv g -> xrel oprog g a -> xstep oprog g i = Some g' ->
    match is_release (xnext_call oprog g i) with
    | Some _ => exists a', xsection oprog a i a' /\ xrel oprog g' a'
    | None => xrel oprog g' a
    end.
  Proof.
    intros Hg [Hfree Hrel] Hs.
    destruct (xstep_spec g i g' Hs) as (h0 & c & k & l' & En & Ec & El & Eg').
    destruct (xstep_inv g i g' h0 c k l' Hg Hs En Ec El) as [_ Hcase].
    rewrite (xnext_call_spec g i h0 c k En Ec).
    assert (Hl' : x_lock g' = l') by (subst g'; reflexivity).
    assert (Hst' : x_st g' = snd (do_call c (x_st g))) by (subst g'; reflexivity).
    assert (Hni : nth_error (x_hs g') i = Some (xnew h0 k (fst (do_call c (x_st g))))).
    { subst g'. cbn [x_hs]. eapply nth_set_hit. exact En. }
    assert (Hno : forall j, j <> i -> nth_error (x_hs g') j = nth_error (x_hs g) j).
    { intros j Hj. eapply xstep_other; eassumption. }
    destruct Hcase as [(Hl & -> & ->)|[(Hl & -> & ->)|[(Hl & -> & ->)|[(Hl & Hc & ->)|
                       [(hs & Hl & Hi & -> & ->)|[(hs & Hl & Hi & -> & ->)|(hs & Hl & Hi & Hc & Hm & ->)]]]]]];
      rewrite Hl in Hrel.
    - (* the lock is free, [i] takes it exclusively *)
      cbn [is_release]. subst a. split; [exact Hfree|]. rewrite Hl'.
      exists 1%nat. cbn [xpart]. rewrite Hs, Hl'. reflexivity.
    - (* the lock is free, [i] takes it shared *)
      cbn [is_release]. subst a. split; [exact Hfree|]. rewrite Hl'.
      split; [rewrite Hst'; reflexivity|]. intro j. unfold xholds. cbn [existsb]. rewrite Bool.orb_false_r.
      destruct (Nat.eqb_spec j i) as [E|E].
      + subst j. exists O, g'. cbn [xpart]. rewrite Hs, Hl'. repeat split. rewrite Hst'. reflexivity.
      + apply Hno. exact E.
    - (* the holder of the exclusive lock releases it: its section is committed *)
      cbn [is_release]. destruct Hrel as [n Hn]. exists g'. split.
      + split; [exact Hfree|]. exists (S n). eapply xpart_section; eassumption.
      + split; [exact Hl'|]. rewrite Hl'. reflexivity.
    - (* the holder of the exclusive lock makes a call *)
      rewrite (proj1 (nolock_not_release c Hc)). destruct Hrel as [n Hn].
      split; [exact Hfree|]. rewrite Hl'. exists (S n). eapply xpart_snoc; [exact Hn|exact Hs|].
      rewrite Hl'. discriminate.
    - (* one more reader *)
      cbn [is_release]. destruct Hrel as [Hsa Hall]. split; [exact Hfree|]. rewrite Hl'.
      split; [rewrite Hst'; exact Hsa|]. intro j.
      change (xholds j (i :: hs)) with (Nat.eqb j i || in_shared j hs)%bool.
      destruct (Nat.eqb_spec j i) as [E|E]; cbn [orb].
      + subst j. pose proof (Hall i) as Hi'. change (xholds i hs) with (in_shared i hs) in Hi'.
        rewrite Hi in Hi'. rewrite En in Hi'. symmetry in Hi'.
        assert (Ela : lock_step i BRLock (x_lock a) = Some (LShared [i])) by (rewrite Hfree; reflexivity).
        pose proof (xstep_intro a i h0 BRLock k _ Hi' Ec Ela) as Hsa'.
        eexists O, _. cbn [xpart]. rewrite Hsa'. cbn [x_lock x_st x_hs do_call fst snd].
        split; [reflexivity|]. split; [reflexivity|]. split; [reflexivity|].
        cbn [x_hs]. cbn [do_call fst] in Hni. rewrite (nth_set_hit _ _ _ _ Hi'), Hni. reflexivity.
      + pose proof (Hall j) as Hj. change (xholds j hs) with (in_shared j hs) in Hj.
        destruct (in_shared j hs).
        * destruct Hj as (n & b & Hp & Hlb & Hsb & Hnb). exists n, b. rewrite (Hno j E). repeat split; assumption.
        * rewrite (Hno j E). exact Hj.
    - (* a reader releases: its section is committed *)
      cbn [is_release]. destruct Hrel as [Hsa Hall].
      pose proof (Hall i) as Hi'. change (xholds i hs) with (in_shared i hs) in Hi'. rewrite Hi in Hi'.
      destruct Hi' as (n & b & Hp & Hlb & Hsb & Hnb). rewrite En in Hnb.
      assert (Elb : lock_step i BRUnlock (x_lock b) = Some LFree).
      { rewrite Hlb. cbn [lock_step remove_nat]. rewrite Nat.eqb_refl. reflexivity. }
      pose proof (xstep_intro b i h0 BRUnlock k _ Hnb Ec Elb) as Hsb'.
      cbn [do_call fst snd] in Hsb', Hni, Hst'.
      set (a' := mk_x (x_st b) LFree (set_nth i (xnew h0 k (Ok VUnit)) (x_hs b))) in *.
      assert (Hoa : forall j, j <> i -> nth_error (x_hs a') j = nth_error (x_hs a) j).
      { intros j Hj. unfold a'. cbn [x_hs]. rewrite nth_set_other by exact Hj.
        eapply xpart_other; eassumption. }
      exists a'. split.
      + split; [exact Hfree|]. exists (S (S n)). eapply xpart_section; [exact Hp|exact Hsb'|reflexivity].
      + split; [reflexivity|]. rewrite Hl'.
        destruct (remove_nat i hs) as [|x t] eqn:Er.
        * (* the last reader: the two states are the same *)
          assert (Hhs : x_hs g = x_hs b).
          { apply nth_error_ext. intro j. destruct (Nat.eq_dec j i) as [E|E].
            - subst j. rewrite En, Hnb. reflexivity.
            - pose proof (Hall j) as Hj. change (xholds j hs) with (in_shared j hs) in Hj.
              rewrite <- (in_shared_remove_other j i hs E), Er in Hj. cbn [in_shared existsb] in Hj.
              rewrite Hj. symmetry. eapply xpart_other; eassumption. }
          rewrite Eg'. unfold a'. cbn [do_call fst snd]. rewrite Hhs, Hsa, <- Hsb. reflexivity.
        * split; [rewrite Hst'; unfold a'; cbn [x_st]; congruence|]. intro j. rewrite <- Er.
          change (xholds j (remove_nat i hs)) with (in_shared j (remove_nat i hs)).
          destruct (Nat.eq_dec j i) as [E|E].
          -- subst j. rewrite in_shared_remove_same, Hni. unfold a'. cbn [x_hs].
             rewrite (nth_set_hit _ _ _ _ Hnb). reflexivity.
          -- rewrite (in_shared_remove_other j i hs E).
             pose proof (Hall j) as Hj. change (xholds j hs) with (in_shared j hs) in Hj.
             destruct (in_shared j hs).
             ++ destruct Hj as (m & bj & Hpj & Hlbj & Hsbj & Hnbj).
                assert (Hag : agree_on j a a').
                { split; [unfold a'; cbn [x_st]; congruence|]. split; [rewrite Hfree; reflexivity|].
                  symmetry. apply Hoa. exact E. }
                destruct (xpart_frame (S m) j a a' bj Hag Hpj) as (bj' & Hpj' & (H1 & H2 & H3)).
                exists m, bj'. split; [exact Hpj'|]. split; [congruence|].
                split; [unfold a'; cbn [x_st]; congruence|]. rewrite (Hno j E). congruence.
             ++ rewrite (Hno j E), (Hoa j E). exact Hj.
    - (* a reader makes a call: the storage stays *)
      rewrite (proj1 (nolock_not_release c Hc)). destruct Hrel as [Hsa Hall].
      split; [exact Hfree|]. rewrite Hl'. split; [rewrite Hst', Hm; exact Hsa|]. intro j.
      destruct (Nat.eq_dec j i) as [E|E].
      + subst j. change (xholds i hs) with (in_shared i hs). rewrite Hi.
        pose proof (Hall i) as Hi'. change (xholds i hs) with (in_shared i hs) in Hi'. rewrite Hi in Hi'.
        destruct Hi' as (n & b & Hp & Hlb & Hsb & Hnb). rewrite En in Hnb.
        assert (Elb : lock_step i c (x_lock b) = Some (LShared [i])) by (rewrite Hlb; apply nolock_step; exact Hc).
        pose proof (xstep_intro b i h0 c k _ Hnb Ec Elb) as Hsb'.
        assert (Esb : x_st b = x_st g) by congruence. rewrite Esb in Hsb'.
        eexists (S n), _. split; [eapply xpart_snoc; [exact Hp|exact Hsb'|discriminate]|].
        cbn [x_lock x_st x_hs]. split; [reflexivity|]. split; [rewrite Hm; exact Hsa|].
        rewrite (nth_set_hit _ _ _ _ Hnb), Hni. reflexivity.
      + pose proof (Hall j) as Hj. destruct (xholds j hs).
        * destruct Hj as (n & b & Hp & Hlb & Hsb & Hnb). exists n, b. rewrite (Hno j E). repeat split; assumption.
        * rewrite (Hno j E). exact Hj.
  Qed.

  (** * The simulation: whole schedules *)
  Lemma xsim_run : forall sched g a,
    xginv g -> xrel oprog g a ->
    exists a', xserial oprog a (map fst (xcommits oprog g sched)) a' /\ xrel oprog (xrun oprog g sched) a'.
  Proof.
    induction sched as [|i rest IH]; intros g a Hg Hr; cbn [xrun xcommits].
    - exists a. split; [apply xserial_nil|exact Hr].
    - destruct (xstep oprog g i) as [g'|] eqn:Es; [|apply IH; assumption].
      pose proof (xstep_ginv g i g' Hg Es) as Hg'.
      pose proof (xsim_step g a i g' Hg Hr Es) as Hsim.
      destruct (is_release (xnext_call oprog g i)) as [e|].
      + destruct Hsim as (a1 & Hsec & Hr1). destruct (IH g' a1 Hg' Hr1) as (a' & Hser & Hr').
        exists a'. split; [|exact Hr']. cbn [map fst]. eapply xserial_cons; eassumption.
      + apply IH; assumption.
  Qed.

  (** ** the main theorem *)
  Theorem xserializable st hs sched :
    (forall h, In h hs -> xh_cur h = None) ->
    let g0 := mk_x st LFree hs in
    exists a, xserial oprog g0 (map fst (xcommits oprog g0 sched)) a /\ xrel oprog (xrun oprog g0 sched) a.
  Proof.
    intros Hinit g0. apply xsim_run; [apply xginv_init; exact Hinit|].
    split; [reflexivity|]. reflexivity.
  Qed.

  (** when nobody holds a lock at the end, the state reached IS the serial one: storage, every
      handle's results, key ring objects and remaining programs *)
  Theorem xserializable_quiescent st hs sched :
    (forall h, In h hs -> xh_cur h = None) ->
    let g0 := mk_x st LFree hs in
    x_lock (xrun oprog g0 sched) = LFree ->
    xserial oprog g0 (map fst (xcommits oprog g0 sched)) (xrun oprog g0 sched).
  Proof.
    intros Hinit g0 Hl. destruct (xserializable st hs sched Hinit) as (a & Hser & [_ Hrel]).
    fold g0 in Hser, Hrel. rewrite Hl in Hrel. rewrite Hrel. exact Hser.
  Qed.

  (** what [xrel] says about the handles that are NOT inside a section: they are as in the serial
      state; and unless a writer is inside its section the storage is the serial one *)
  Theorem xrel_idle g a :
    xrel oprog g a ->
    (forall j, match x_lock g with LFree => True | LExcl i => j <> i | LShared hs => xholds j hs = false end ->
               nth_error (x_hs g) j = nth_error (x_hs a) j) /\
    (match x_lock g with LExcl _ => True | _ => x_st g = x_st a end).
  Proof.
    intros [_ Hrel]. destruct (x_lock g) as [|i|hs].
    - subst a. split; [reflexivity|reflexivity].
    - destruct Hrel as [n Hn]. split; [|exact I]. intros j Hj. eapply xpart_other; eassumption.
    - destruct Hrel as [Hst Hall]. split; [|exact Hst]. intros j Hj. pose proof (Hall j) as H. rewrite Hj in H. exact H.
  Qed.

  (** * The serial order is the order in which the exclusive lock was taken *)
  Definition excl_pre (l : lockst) : list nat := match l with LExcl i => [i] | _ => [] end.
  Definition excl_only (l : list (nat * bool)) : list nat := map fst (filter snd l).

  Lemma xacq_commits : forall sched g,
    xginv g ->
    excl_pre (x_lock g) ++ excl_only (xacquires oprog g sched) =
    excl_only (xcommits oprog g sched) ++ excl_pre (x_lock (xrun oprog g sched)).
  Proof.
    induction sched as [|i rest IH]; intros g Hg; cbn [xrun xcommits xacquires].
    - unfold excl_only. cbn [filter map]. rewrite app_nil_r. reflexivity.
    - destruct (xstep oprog g i) as [g'|] eqn:Es; [|apply IH; exact Hg].
      destruct (xstep_spec g i g' Es) as (h0 & c & k & l' & En & Ec & El & Eg').
      destruct (xstep_inv g i g' h0 c k l' Hg Es En Ec El) as [Hg' Hcase].
      rewrite (xnext_call_spec g i h0 c k En Ec).
      assert (Hl' : x_lock g' = l') by (subst g'; reflexivity).
      pose proof (IH g' Hg') as H. rewrite Hl' in H.
      destruct Hcase as [(Hl & -> & ->)|[(Hl & -> & ->)|[(Hl & -> & ->)|[(Hl & Hc & ->)|
                         [(hs & Hl & Hi & -> & ->)|[(hs & Hl & Hi & -> & ->)|(hs & Hl & Hi & Hc & Hm & ->)]]]]]];
        rewrite Hl; try rewrite (proj1 (nolock_not_release c Hc)); try rewrite (proj2 (nolock_not_release c Hc));
        cbn [is_release is_acquire excl_pre] in *; unfold excl_only in *; cbn [filter snd map fst app] in *;
        try exact H; try (rewrite <- H; reflexivity); try (f_equal; exact H);
        try (destruct (remove_nat i hs); exact H).
  Qed.

  Theorem xcommit_order_is_lock_order st hs sched :
    (forall h, In h hs -> xh_cur h = None) ->
    let g0 := mk_x st LFree hs in
    excl_only (xacquires oprog g0 sched) =
    excl_only (xcommits oprog g0 sched) ++ excl_pre (x_lock (xrun oprog g0 sched)).
  Proof.
    intros Hinit g0. exact (xacq_commits sched g0 (xginv_init st hs Hinit)).
  Qed.

  (** * A serial execution is itself a run of the machine: a schedule of contiguous blocks *)
  Lemma xrun_app : forall s1 s2 g, xrun oprog g (s1 ++ s2) = xrun oprog (xrun oprog g s1) s2.
  Proof.
    induction s1 as [|i s1 IH]; intros s2 g; cbn [app xrun]; [reflexivity|].
    destruct (xstep oprog g i); apply IH.
  Qed.

  Lemma xrun_section_run : forall fuel g i g',
    xrun_section oprog fuel g i = Some g' -> exists n, xrun oprog g (repeat i n) = g'.
  Proof.
    induction fuel as [|f IH]; intros g i g' H; cbn [xrun_section] in H; [discriminate|].
    destruct (xstep oprog g i) as [g1|] eqn:Es; [|discriminate].
    destruct (x_lock g1) eqn:El.
    - inversion H; subst g'. exists 1%nat. cbn [repeat xrun]. rewrite Es. reflexivity.
    - destruct (IH g1 i g' H) as [n Hn]. exists (S n). cbn [repeat xrun]. rewrite Es. exact Hn.
    - destruct (IH g1 i g' H) as [n Hn]. exists (S n). cbn [repeat xrun]. rewrite Es. exact Hn.
  Qed.

  Theorem xserial_is_run g ser a :
    xserial oprog g ser a ->
    exists ns, length ns = length ser /\ xrun oprog g (xblocks (combine ser ns)) = a.
  Proof.
    induction 1 as [g|g i g1 rest g' [_ [fuel Hsec]] _ IH].
    - exists []. split; reflexivity.
    - destruct IH as (ns & Hlen & Hrun). destruct (xrun_section_run fuel g i g1 Hsec) as [n Hn].
      exists (n :: ns). split; [cbn [length]; congruence|].
      unfold xblocks in *. cbn [combine flat_map fst snd]. rewrite xrun_app, Hn. exact Hrun.
  Qed.

  (** a shared section leaves the storage as it is: a reader can be placed anywhere inside its
      section, in particular at its read (Get/ListAll) *)
  Lemma xsec_shared_aux : forall fuel g i g',
    xginv g -> x_lock g = LShared [i] -> xrun_section oprog fuel g i = Some g' -> x_st g' = x_st g.
  Proof.
    induction fuel as [|f IH]; intros g i g' Hg Hl H; cbn [xrun_section] in H; [discriminate|].
    destruct (xstep oprog g i) as [g1|] eqn:Es; [|discriminate].
    destruct (xstep_spec g i g1 Es) as (h0 & c & k & l' & En & Ec & El & Eg1).
    destruct (xstep_inv g i g1 h0 c k l' Hg Es En Ec El) as [Hg1 Hcase].
    assert (Hii : in_shared i [i] = true) by (cbn [in_shared existsb]; rewrite Nat.eqb_refl; reflexivity).
    destruct Hcase as [(Hl0 & _)|[(Hl0 & _)|[(Hl0 & _)|[(Hl0 & _)|
                       [(hs & Hl0 & Hi & _)|[(hs & Hl0 & Hi & -> & ->)|(hs & Hl0 & Hi & Hc & Hm & ->)]]]]]];
      rewrite Hl in Hl0; try discriminate Hl0; inversion Hl0; subst hs.
    - rewrite Hii in Hi. discriminate Hi.
    - subst g1. cbn [x_lock remove_nat] in H. rewrite Nat.eqb_refl in H. inversion H; subst g'. reflexivity.
    - assert (Hl1 : x_lock g1 = LShared [i]) by (subst g1; reflexivity).
      rewrite Hl1 in H. rewrite (IH g1 i g' Hg1 Hl1 H). subst g1. cbn [x_st]. exact Hm.
  Qed.

  Theorem xsection_shared_storage g i g' :
    xginv g -> xsection oprog g i g' -> xnext_call oprog g i = Some BRLock -> x_st g' = x_st g.
  Proof.
    intros Hg [Hfree [fuel H]] Hc. destruct fuel as [|f]; cbn [xrun_section] in H; [discriminate|].
    destruct (xstep oprog g i) as [g1|] eqn:Es; [|discriminate].
    destruct (xstep_spec g i g1 Es) as (h0 & c & k & l' & En & Ec & El & Eg1).
    destruct (xstep_inv g i g1 h0 c k l' Hg Es En Ec El) as [Hg1 _].
    rewrite (xnext_call_spec g i h0 c k En Ec) in Hc. inversion Hc; subst c.
    rewrite Hfree in El. cbn [lock_step] in El. inversion El; subst l'.
    assert (Hl1 : x_lock g1 = LShared [i]) by (subst g1; reflexivity).
    rewrite Hl1 in H. rewrite (xsec_shared_aux f g1 i g' Hg1 Hl1 H). subst g1. reflexivity.
  Qed.

  (** * Executable serial runs (for the examples): [xserial_run fuel g ser = Some a] is a serial execution *)
  Fixpoint xserial_run (fuel : nat) (g : XS) (ser : list nat) : option XS :=
    match ser with
    | [] => Some g
    | i :: rest =>
        match x_lock g with
        | LFree => match xrun_section oprog fuel g i with Some g1 => xserial_run fuel g1 rest | None => None end
        | _ => None
        end
    end.

  Lemma xserial_run_sound fuel : forall ser g a, xserial_run fuel g ser = Some a -> xserial oprog g ser a.
  Proof.
    induction ser as [|i rest IH]; intros g a H; cbn [xserial_run] in H.
    - inversion H; subst a. apply xserial_nil.
    - destruct (x_lock g) eqn:El; try discriminate.
      destruct (xrun_section oprog fuel g i) as [g1|] eqn:Es; [|discriminate].
      eapply xserial_cons; [split; [exact El|exists fuel; exact Es]|apply IH; exact H].
  Qed.
End XProofs.
