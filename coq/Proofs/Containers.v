(** Facts about serialized containers shared by C11 and C15: what the registry handler does with
    something that is / is not a well-formed envelope; totality of RegistryHandler.Process. *)
From Acra Require Import Lib.Bytes Lib.Outcome Lib.Sha256 Crypto.Interface Gen.Consts
  Model.Envelope Proofs.Envelope Proofs.EnvelopeHandlers Proofs.Scanner.
From Coq Require Import ZifyN ZifyNat ZifyBool.

Section Containers.
Variable C : crypto.

Lemma registry_unmatched_err ks c :
  registry_match c = false -> exists e, registry_process C ks c = Err e.
Proof.
  unfold registry_match, registry_process, decrypt_with_handler, sc_deserialize.
  destruct (envelope_kind c) as [id|id|] eqn:Ek.
  - destruct (sc_internal_length c) as [n|]; cbn [bind]; [|eauto].
    intros ->. cbn [negb]. eauto.
  - cbn [bind]. intros ->. cbn [negb]. eauto.
  - eauto.
Qed.

(** [v] is a well-formed serialized envelope around [inner] *)
Definition is_envelope (id : byte) (inner v : bytes) : Prop :=
  v = sc_layout inner id /\ inner <> [] /\ known_envelope id = true /\
  (N.of_nat (length inner) < 4294967296)%N /\ handler_match id inner = true.

Lemma envelope_matches id inner (v s : bytes) : is_envelope id inner v -> registry_match (v ++ s) = true.
Proof.
  intros (-> & Hne & Hk & Hl & Hm). unfold registry_match.
  destruct (container_roundtrip inner id s Hne Hk Hl) as [-> _]. exact Hm.
Qed.

Lemma envelope_process id inner (v s : bytes) ks :
  is_envelope id inner v -> registry_process C ks (v ++ s) = handler_decrypt C id ks inner.
Proof.
  intros (-> & Hne & Hk & Hl & Hm). unfold registry_process.
  rewrite envelope_kind_layout by assumption. unfold decrypt_with_handler.
  destruct (container_roundtrip inner id s Hne Hk Hl) as [-> _]. cbn [bind]. rewrite Hm. reflexivity.
Qed.

Lemma envelope_length id inner v : is_envelope id inner v -> length v = SC_MIN_SIZE + length inner.
Proof. intros (-> & _). apply sc_layout_length. Qed.


(** RegistryHandler.Process never panics *)
Lemma as_decrypt_total data p ctx : as_decrypt C data p ctx <> Panic.
Proof.
  unfold as_decrypt. destruct (negb _); [discriminate|]. destruct (msg_unwrap _ _ _ _); [|discriminate].
  destruct (cell_decrypt _ _ _ _); discriminate.
Qed.

Lemma as_decrypt_rotated_total data privs ctx : as_decrypt_rotated C data privs ctx <> Panic.
Proof.
  induction privs as [|p rest IH]; cbn [as_decrypt_rotated]; [discriminate|].
  pose proof (as_decrypt_total data p ctx). destruct (as_decrypt C data p ctx); [discriminate| |contradiction].
  destruct rest; [discriminate| exact IH].
Qed.

Lemma ab_decrypt_total b keys ctx : ab_decrypt C b keys ctx <> Panic.
Proof.
  unfold ab_decrypt. destruct (Nat.ltb _ _); [discriminate|]. destruct (Nat.ltb _ _); [discriminate|].
  destruct (negb _); [discriminate|]. destruct (ab_find_key _ _ _ _ _); [|discriminate].
  destruct (cell_decrypt _ _ _ _); discriminate.
Qed.

Lemma handler_decrypt_total id ks data : handler_decrypt C id ks data <> Panic.
Proof.
  unfold handler_decrypt. destruct (byte_eqb _ _).
  - destruct (negb _); [discriminate|]. destruct (is_nil _); [discriminate|]. apply as_decrypt_rotated_total.
  - pose proof (ab_extract_total data). destruct (ab_extract data) as [[n b]| |]; [|discriminate|contradiction].
    destruct (is_nil _); [discriminate|]. pose proof (ab_decrypt_total b (ks_syms ks) []).
    destruct (ab_decrypt C b (ks_syms ks) []); [discriminate|discriminate|contradiction].
Qed.

Lemma registry_process_total ks c : registry_process C ks c <> Panic.
Proof.
  unfold registry_process, decrypt_with_handler, sc_deserialize.
  destruct (envelope_kind c) as [id|id|]; [| |discriminate].
  - destruct (sc_internal_length c); cbn [bind]; [|discriminate].
    destruct (negb _); [discriminate| apply handler_decrypt_total].
  - cbn [bind]. destruct (negb _); [discriminate| apply handler_decrypt_total].
Qed.

End Containers.
