(** Proofs about Model/MysqlWireExt.v (C12: relay identity / rewrite well-formedness; C14: totality, bounds). *)
From Acra Require Import Lib.Bytes Lib.Outcome Lib.GoSlice Gen.WireMysqlConsts Model.MysqlWire Model.MysqlWireExt
  Proofs.MysqlWire.
From Coq Require Import ZifyN ZifyNat ZifyBool.
Local Open Scope Z_scope.

(** * 0. Helpers *)

Lemma lenN_len s : Z.of_N (lenN s) = len s.
Proof. unfold lenN, len. lia. Qed.

Lemma read_full_spec n s a b : read_full n s = Ok (a, b) -> s = a ++ b /\ lenN a = n.
Proof.
  unfold read_full, lenN. destruct (N.ltb_spec (N.of_nat (length s)) n) as [H|H]; [discriminate|].
  intros [= <- <-]. split; [symmetry; apply firstn_skipn|]. rewrite firstn_length. lia.
Qed.

Lemma read_full_never_panics n s : read_full n s <> Panic.
Proof. unfold read_full. destruct (_ <? _)%N; discriminate. Qed.

Lemma read_full_app (a b : bytes) : read_full (lenN a) (a ++ b) = Ok (a, b).
Proof.
  unfold read_full, lenN. rewrite app_length.
  destruct (N.ltb_spec (N.of_nat (length a + length b)) (N.of_nat (length a))) as [H|H]; [lia|].
  rewrite Nat2N.id, firstn_app_len, skipn_app_len. reflexivity.
Qed.

Lemma read_full_app' n (a b : bytes) : n = lenN a -> read_full n (a ++ b) = Ok (a, b).
Proof. intros ->. apply read_full_app. Qed.

Lemma hdr_len_enc n (seq : byte) : (n < 16777216)%N -> hdr_len (le_enc 3 n ++ [seq]) = n.
Proof.
  intros H. unfold hdr_len. rewrite firstn_app_len' by (rewrite le_enc_length; reflexivity).
  apply le_dec_enc_small. exact H.
Qed.

Lemma hdr_len_lt h : (hdr_len h < 16777216)%N.
Proof.
  unfold hdr_len. pose proof (le_dec_lt (firstn 3 h)) as H. rewrite firstn_length in H.
  assert (Hp : (256 ^ N.of_nat (Nat.min 3 (length h)) <= 256 ^ 3)%N) by (apply N.pow_le_mono_r; lia).
  change (256 ^ 3)%N with 16777216%N in Hp. lia.
Qed.

(** * 1. Packet framing *)

(** a packet below MaxPayloadLen is relayed byte-identically: ReadPacket then Dump gives back the bytes read *)
Theorem mysql_packet_relay_identity maxp s p rest :
  read_packet maxp s = Ok (p, rest) -> (lenN (p_data p) < maxp)%N -> dump maxp p ++ rest = s.
Proof.
  unfold read_packet. intros H Hsmall.
  destruct (read_full MY_HEADER_SIZE s) as [[h s1]|e|] eqn:E1; cbn [bind] in H; try discriminate.
  apply read_full_spec in E1. destruct E1 as [Hs Hh].
  destruct (hdr_len h <? 1)%N; [discriminate|].
  destruct (read_full (hdr_len h) s1) as [[d s2]|e|] eqn:E2; cbn [bind] in H; try discriminate.
  apply read_full_spec in E2. destruct E2 as [Hs1 Hd].
  destruct (N.ltb_spec (hdr_len h) maxp) as [Hlt|Hge].
  - injection H as <- <-. unfold dump. cbn [p_data p_header].
    destruct (N.ltb_spec (lenN d) maxp); [|cbn [p_data] in Hsmall; lia].
    subst s s1. rewrite <- !app_assoc. reflexivity.
  - destruct (read_cont maxp (S (length s2)) s2) as [[more s3]|e|]; cbn [bind] in H; try discriminate.
    injection H as <- <-. cbn [p_data] in Hsmall. unfold lenN in *. rewrite app_length in Hsmall. exfalso. lia.
Qed.

(** what ReadPacket returns: a 4-byte header and a non-empty payload *)
Theorem mysql_read_packet_shape maxp s p rest :
  read_packet maxp s = Ok (p, rest) -> length (p_header p) = 4%nat /\ p_data p <> [].
Proof.
  unfold read_packet. intros H.
  destruct (read_full MY_HEADER_SIZE s) as [[h s1]|e|] eqn:E1; cbn [bind] in H; try discriminate.
  apply read_full_spec in E1. destruct E1 as [Hs Hh].
  destruct (N.ltb_spec (hdr_len h) 1) as [Hz|Hz]; [discriminate|].
  destruct (read_full (hdr_len h) s1) as [[d s2]|e|] eqn:E2; cbn [bind] in H; try discriminate.
  apply read_full_spec in E2. destruct E2 as [Hs1 Hd].
  assert (Hd0 : d <> []) by (intros ->; unfold lenN in Hd; cbn [length] in Hd; lia).
  assert (Hh4 : length h = 4%nat) by (unfold lenN, MY_HEADER_SIZE in Hh; lia).
  destruct (hdr_len h <? maxp)%N.
  - injection H as <- <-. split; assumption.
  - destruct (read_cont maxp (S (length s2)) s2) as [[more s3]|e|]; cbn [bind] in H; try discriminate.
    injection H as <- <-. cbn [p_header p_data]. split; [assumption|]. destruct d; [contradiction|discriminate].
Qed.

Lemma read_cont_never_panics maxp fuel : forall s, read_cont maxp fuel s <> Panic.
Proof.
  induction fuel as [|f IH]; intros s; cbn [read_cont]; [discriminate|].
  destruct (read_full MY_HEADER_SIZE s) as [[h s1]|e|] eqn:E1; cbn [bind]; try discriminate;
    [|exfalso; exact (read_full_never_panics _ _ E1)].
  destruct (read_full (hdr_len h) s1) as [[d s2]|e|] eqn:E2; cbn [bind]; try discriminate;
    [|exfalso; exact (read_full_never_panics _ _ E2)].
  destruct (hdr_len h <? maxp)%N; [discriminate|].
  specialize (IH s2). destruct (read_cont maxp f s2) as [[more s3]|e|]; cbn [bind]; try discriminate. contradiction.
Qed.

Theorem mysql_read_packet_total maxp s : read_packet maxp s <> Panic.
Proof.
  unfold read_packet.
  destruct (read_full MY_HEADER_SIZE s) as [[h s1]|e|] eqn:E1; cbn [bind]; try discriminate;
    [|exfalso; exact (read_full_never_panics _ _ E1)].
  destruct (hdr_len h <? 1)%N; [discriminate|].
  destruct (read_full (hdr_len h) s1) as [[d s2]|e|] eqn:E2; cbn [bind]; try discriminate;
    [|exfalso; exact (read_full_never_panics _ _ E2)].
  destruct (hdr_len h <? maxp)%N; [discriminate|].
  pose proof (read_cont_never_panics maxp (S (length s2)) s2) as Hc.
  destruct (read_cont maxp (S (length s2)) s2) as [[more s3]|e|]; cbn [bind]; try discriminate. contradiction.
Qed.

(** nothing is allocated that did not arrive: payload and rest are the bytes of the stream behind the headers *)
Theorem mysql_read_packet_bounded maxp s p rest :
  read_packet maxp s = Ok (p, rest) -> (length (p_data p) + length rest + 4 <= length s)%nat.
Proof.
  unfold read_packet. intros H.
  destruct (read_full MY_HEADER_SIZE s) as [[h s1]|e|] eqn:E1; cbn [bind] in H; try discriminate.
  apply read_full_spec in E1. destruct E1 as [Hs Hh].
  destruct (hdr_len h <? 1)%N; [discriminate|].
  destruct (read_full (hdr_len h) s1) as [[d s2]|e|] eqn:E2; cbn [bind] in H; try discriminate.
  apply read_full_spec in E2. destruct E2 as [Hs1 Hd].
  assert (Hh4 : length h = 4%nat) by (unfold lenN, MY_HEADER_SIZE in Hh; lia).
  assert (Hc : forall fuel s2 more s3, read_cont maxp fuel s2 = Ok (more, s3) -> (length more + length s3 <= length s2)%nat).
  { clear. induction fuel as [|f IH]; intros s2 more s3 H; cbn [read_cont] in H; [discriminate|].
    destruct (read_full MY_HEADER_SIZE s2) as [[h s1]|e|] eqn:E1; cbn [bind] in H; try discriminate.
    apply read_full_spec in E1. destruct E1 as [-> _].
    destruct (read_full (hdr_len h) s1) as [[d s4]|e|] eqn:E2; cbn [bind] in H; try discriminate.
    apply read_full_spec in E2. destruct E2 as [-> _].
    destruct (hdr_len h <? maxp)%N.
    - injection H as <- <-. rewrite !app_length. lia.
    - destruct (read_cont maxp f s4) as [[m s5]|e|] eqn:E3; cbn [bind] in H; try discriminate.
      injection H as <- <-. apply IH in E3. rewrite !app_length. lia. }
  destruct (hdr_len h <? maxp)%N.
  - injection H as <- <-. cbn [p_data]. subst s s1. rewrite !app_length. lia.
  - destruct (read_cont maxp (S (length s2)) s2) as [[more s3]|e|] eqn:E3; cbn [bind] in H; try discriminate.
    injection H as <- <-. cbn [p_data]. apply Hc in E3. subst s s1. rewrite !app_length. lia.
Qed.

(** ** payloads of MaxPayloadLen bytes and more: Dump splits, ReadPacket joins *)

Lemma min_to_nat_firstn (d : bytes) n : (n <= lenN d)%N -> lenN (firstn (N.to_nat n) d) = n.
Proof. unfold lenN. intros H. rewrite firstn_length. lia. Qed.

Lemma dump_split_length_ge maxp : (1 <= maxp)%N ->
  forall fuel d seq, (length d < fuel)%nat -> (length d <= length (dump_split maxp fuel seq d))%nat.
Proof.
  intros Hm. induction fuel as [|f IH]; intros d seq Hf; [lia|].
  cbn [dump_split]. set (n := N.min (lenN d) maxp).
  assert (Hn : (n <= lenN d)%N) by (unfold n; lia).
  rewrite !app_length, firstn_length.
  destruct (N.ltb_spec n maxp) as [Hlt|Hge].
  - assert (n = lenN d) by (unfold n in *; lia). unfold lenN in *. lia.
  - assert (Hnm : n = maxp) by (unfold n in *; lia).
    specialize (IH (skipn (N.to_nat n) d) (seq + 1)%N).
    rewrite skipn_length in IH. unfold lenN in *. lia.
Qed.

Lemma read_cont_dump_split maxp : (1 <= maxp < 16777216)%N ->
  forall fuel d seq rest fuel', (length d < fuel)%nat -> (length d < fuel')%nat ->
  read_cont maxp fuel' (dump_split maxp fuel seq d ++ rest) = Ok (d, rest).
Proof.
  intros Hm. induction fuel as [|f IH]; intros d seq rest fuel' Hf Hf'; [lia|].
  destruct fuel' as [|f']; [lia|].
  cbn [dump_split read_cont]. set (n := N.min (lenN d) maxp).
  assert (Hn : (n <= lenN d)%N) by (unfold n; lia).
  assert (Hn24 : (n < 16777216)%N) by (unfold n; lia).
  replace ((le_enc 3 n ++ [n2b seq] ++ firstn (N.to_nat n) d ++
            (if (n <? maxp)%N then [] else dump_split maxp f (seq + 1)%N (skipn (N.to_nat n) d))) ++ rest)
    with ((le_enc 3 n ++ [n2b seq]) ++ firstn (N.to_nat n) d ++
            (if (n <? maxp)%N then [] else dump_split maxp f (seq + 1)%N (skipn (N.to_nat n) d)) ++ rest)
    by (rewrite <- !app_assoc; reflexivity).
  rewrite read_full_app' by (unfold lenN; rewrite app_length, le_enc_length; reflexivity).
  cbn [bind]. rewrite hdr_len_enc by exact Hn24.
  rewrite read_full_app' by (symmetry; apply min_to_nat_firstn; exact Hn).
  cbn [bind].
  destruct (N.ltb_spec n maxp) as [Hlt|Hge].
  - assert (Hnd : n = lenN d) by (unfold n in *; lia).
    rewrite firstn_all2 by (unfold lenN in Hnd; lia). reflexivity.
  - assert (Hnm : n = maxp) by (unfold n in *; lia).
    rewrite (IH (skipn (N.to_nat n) d) (seq + 1)%N rest f')
      by (rewrite skipn_length; unfold lenN in *; lia).
    cbn [bind]. rewrite firstn_skipn. reflexivity.
Qed.

(** Dump then ReadPacket is the identity on payloads of ANY length (the header of a large payload is the
    header of its first part); in particular a payload that is a multiple of MaxPayloadLen gets its empty
    last packet and is read back *)
Theorem mysql_packet_roundtrip maxp h d rest :
  (1 <= maxp < 16777216)%N -> length h = 4%nat -> d <> [] ->
  ((lenN d < maxp)%N -> hdr_len h = lenN d) ->
  read_packet maxp (dump maxp (mk_packet h d) ++ rest)
  = Ok (mk_packet (if (lenN d <? maxp)%N then h else le_enc 3 maxp ++ [hdr_seq h]) d, rest).
Proof.
  intros Hm Hh Hd Hlen. unfold dump, read_packet. cbn [p_data p_header].
  assert (Hd1 : (1 <= lenN d)%N) by (unfold lenN; destruct d; [contradiction|cbn [length]; lia]).
  destruct (N.ltb_spec (lenN d) maxp) as [Hlt|Hge].
  - rewrite <- app_assoc. rewrite read_full_app' by (unfold lenN, MY_HEADER_SIZE; lia). cbn [bind].
    rewrite (Hlen Hlt).
    destruct (N.ltb_spec (lenN d) 1); [lia|].
    rewrite read_full_app. cbn [bind].
    destruct (N.ltb_spec (lenN d) maxp); [reflexivity|lia].
  - cbn [dump_split]. set (n := N.min (lenN d) maxp).
    assert (Hnm : n = maxp) by (unfold n; lia).
    rewrite n2b_b2n.
    replace ((le_enc 3 n ++ [hdr_seq h] ++ firstn (N.to_nat n) d ++
              (if (n <? maxp)%N then [] else dump_split maxp (length d) (b2n (hdr_seq h) + 1)%N (skipn (N.to_nat n) d))) ++ rest)
      with ((le_enc 3 n ++ [hdr_seq h]) ++ firstn (N.to_nat n) d ++
              (if (n <? maxp)%N then [] else dump_split maxp (length d) (b2n (hdr_seq h) + 1)%N (skipn (N.to_nat n) d)) ++ rest)
      by (rewrite <- !app_assoc; reflexivity).
    rewrite read_full_app' by (unfold lenN, MY_HEADER_SIZE; rewrite app_length, le_enc_length; reflexivity).
    cbn [bind]. rewrite hdr_len_enc by lia.
    destruct (N.ltb_spec n 1); [lia|].
    rewrite read_full_app' by (symmetry; apply min_to_nat_firstn; lia).
    cbn [bind].
    destruct (N.ltb_spec n maxp); [lia|].
    assert (Hsk : (length (skipn (N.to_nat n) d) < length d)%nat) by (rewrite skipn_length; unfold lenN in *; lia).
    rewrite read_cont_dump_split; [|exact Hm|exact Hsk|].
    + cbn [bind]. rewrite firstn_skipn, Hnm. reflexivity.
    + rewrite app_length.
      pose proof (dump_split_length_ge maxp ltac:(lia) (length d) (skipn (N.to_nat n) d) (b2n (hdr_seq h) + 1)%N Hsk). lia.
Qed.

(** the code as found (maxp = 3 stands for 2^24-1): the payload "abcd" sent as the packets 3:abc and 1:d is
    dumped behind the header of its LAST part, and a payload of exactly maxp bytes (empty last part) is refused *)
Theorem mysql_multipacket_old_refuted :
  (exists s p, read_packet_old 3 9 s = Ok (p, []) /\ dump_old p <> s /\ hdr_len (p_header p) <> lenN (p_data p))
  /\ (exists s, read_packet_old 3 9 s = Err E_INVALID_LEN /\ read_packet 3 s = Ok (mk_packet (hb 0x103000005) (hb 0x1616263), [])).
Proof.
  split.
  - exists (hb 0x1030000056162630100000664), (mk_packet (hb 0x101000006) (hb 0x161626364)).
    vm_compute. split; [reflexivity | split; discriminate].
  - exists (hb 0x10300000561626300000006). vm_compute. split; reflexivity.
Qed.

(** SetData: the three length bytes are those of the new payload, the sequence id stays *)
Lemma update_size_shape h n : length h = 4%nat ->
  update_size h n = le_enc 3 n ++ [hdr_seq h] /\ length (update_size h n) = 4%nat.
Proof.
  intros Hh. destruct h as [|a [|b [|c [|e [|x t]]]]]; try discriminate Hh. split; reflexivity.
Qed.

Theorem mysql_set_data_wf maxp p d rest :
  (1 <= maxp < 16777216)%N -> length (p_header p) = 4%nat -> d <> [] ->
  read_packet maxp (dump maxp (set_data p d) ++ rest)
  = Ok (mk_packet (le_enc 3 (N.min (lenN d) maxp) ++ [hdr_seq (p_header p)]) d, rest).
Proof.
  intros Hm Hh Hd. unfold set_data.
  destruct (update_size_shape (p_header p) (lenN d) Hh) as [Hu Hu4].
  assert (Hlen : (lenN d < maxp)%N -> hdr_len (update_size (p_header p) (lenN d)) = lenN d).
  { intros Hlt. rewrite Hu. apply hdr_len_enc. lia. }
  rewrite (mysql_packet_roundtrip maxp _ d rest Hm Hu4 Hd Hlen).
  rewrite Hu. destruct (N.ltb_spec (lenN d) maxp).
  - rewrite N.min_l by lia. reflexivity.
  - rewrite N.min_r by lia. reflexivity.
Qed.

(** replaceQuery: command byte kept, new text behind it, length = 1 + len(new) *)
Theorem mysql_replace_query_wf p q c t : p_data p = c :: t -> length (p_header p) = 4%nat ->
  replace_query p q = Ok (mk_packet (le_enc 3 (lenN q + 1) ++ [hdr_seq (p_header p)]) (c :: q)).
Proof.
  intros Hd Hh. unfold replace_query. rewrite Hd.
  rewrite gslice_from_ok by (unfold len; cbn [length]; lia).
  rewrite gslice_to_ok by (unfold len; cbn [length]; lia). cbn [bind].
  destruct (update_size_shape (p_header p) (lenN q + 1)%N Hh) as [-> _]. reflexivity.
Qed.

(** ** classification *)

Theorem mysql_classification_total maxp p : p_data p <> [] ->
  is_ok p <> Panic /\ is_eof p <> Panic /\ is_err p <> Panic /\ is_rows_end maxp p <> Panic.
Proof.
  intros Hd. unfold is_ok, is_eof, is_err, is_rows_end, first_byte.
  destruct (p_data p) as [|b t]; [contradiction|].
  rewrite gindex_ok by (unfold len; cbn [length]; lia). cbn [bind]. repeat split; discriminate.
Qed.

(** a text-protocol row (any number >= 1 of columns, whatever they hold: empty strings, NULLs, values of 16 MiB)
    in its packet is never taken for the end of the rows: a first byte 0xfe announces a first value of 2^24
    bytes or more, which makes the packet one of maximum length.  (IsEOF, used before the fix c74e6c4, says
    "end" for a row starting with an empty string: [mysql_is_eof_on_row_refuted].) *)
Theorem mysql_text_row_not_rows_end maxp (vs : list (option bytes)) (seq : byte) :
  (1 <= maxp <= 16777215)%N -> vs <> [] ->
  let d := put_text_row vs in
  is_rows_end maxp (mk_packet (le_enc 3 (N.min (lenN d) maxp) ++ [seq]) d) = Ok false.
Proof.
  intros Hm Hvs d. destruct vs as [|v vs']; [contradiction|].
  unfold is_rows_end, first_byte. cbn [p_data p_header].
  rewrite hdr_len_enc by lia.
  assert (Hd : d = put_lenenc_string v ++ put_text_row vs') by reflexivity.
  destruct v as [x|].
  - cbn [put_lenenc_string] in Hd. unfold put_lenenc_int in Hd.
    destruct (N.leb_spec (N.of_nat (length x)) 250) as [H1|H1].
    { rewrite Hd. cbn [app]. rewrite gindex_ok by (unfold len; cbn [length]; lia). cbn [bind nth Z.to_nat].
      rewrite b2n_n2b. replace (N.of_nat (length x) mod 256)%N with (N.of_nat (length x)) by (symmetry; apply N.mod_small; lia).
      unfold MY_EOF. destruct (N.eqb_spec (N.of_nat (length x)) 254); [lia|reflexivity]. }
    destruct (N.leb_spec (N.of_nat (length x)) 0xffff) as [H2|H2].
    { rewrite Hd. cbn [app]. rewrite gindex_ok by (unfold len; cbn [length]; lia). reflexivity. }
    destruct (N.leb_spec (N.of_nat (length x)) 0xffffff) as [H3|H3].
    { rewrite Hd. cbn [app]. rewrite gindex_ok by (unfold len; cbn [length]; lia). reflexivity. }
    assert (Hlen : (maxp <= lenN d)%N).
    { rewrite Hd. unfold lenN. rewrite !app_length. lia. }
    rewrite Hd at 1. cbn [app]. rewrite gindex_ok by (unfold len; cbn [length]; lia). cbn [bind nth Z.to_nat].
    rewrite N.min_r by exact Hlen. rewrite N.ltb_irrefl. apply f_equal. apply andb_false_r.
  - rewrite Hd. cbn [put_lenenc_string app]. rewrite gindex_ok by (unfold len; cbn [length]; lia). reflexivity.
Qed.

Theorem mysql_is_eof_on_row_refuted :
  (* the row ("", "abcdefgh") *)
  let row := put_text_row [Some []; Some (hb 0x16162636465666768)] in
  is_eof (mk_packet (le_enc 3 (lenN row) ++ [x05]) row) = Ok true.
Proof. vm_compute. reflexivity. Qed.

(** * 2. Binary protocol rows *)

Lemma gslice_from_app (pre x : bytes) : gslice_from (len pre) (pre ++ x) = Ok x.
Proof.
  rewrite gslice_from_ok by (rewrite ?len_app; pose proof (len_nonneg pre); pose proof (len_nonneg x); lia).
  unfold len. rewrite Nat2Z.id, skipn_app_len. reflexivity.
Qed.

Lemma gslice_app_mid (pre x rest : bytes) : gslice (len pre) (len pre + len x) (pre ++ x ++ rest) = Ok x.
Proof.
  pose proof (len_nonneg pre). pose proof (len_nonneg x). pose proof (len_nonneg rest).
  rewrite gslice_ok by (rewrite ?len_app; lia).
  unfold sub, len. replace (Z.of_nat (length pre) + Z.of_nat (length x) - Z.of_nat (length pre)) with (Z.of_nat (length x)) by lia.
  rewrite !Nat2Z.id, skipn_app_len, firstn_app_len. reflexivity.
Qed.

(** the two tables generated from the code agree: a type that extractData slices with a fixed width has that
    width in base.NumericTypesStorageBytes (which the added length check consults) *)
Lemma kind_storage ty :
  match extract_kind ty with
  | KFixed w => storage_width ty = Some w /\ 0 <= w /\ w <= 8
  | KLenenc => storage_width ty = None
  | KUnknown => True
  end.
Proof.
  unfold extract_kind, storage_width, MY_EXTRACT_KIND, MY_NUMERIC_STORAGE, MY_KIND_LENENC. cbn [assoc].
  repeat match goal with
  | |- context [(ty =? ?k)%N] =>
      destruct (N.eqb_spec ty k) as [->|?];
      [vm_compute; first [exact I | reflexivity | (split; [reflexivity | split; discriminate])] |]
  end.
  exact I.
Qed.

Lemma lstr_at_spec pos data : 0 <= pos <= len data -> len data < TWO63 ->
  match lstr_at pos data with
  | Ok (v, n) => 1 <= n /\ pos + n <= len data
  | Err _ => True
  | Panic => False
  end.
Proof.
  intros Hp Hl. unfold lstr_at. rewrite gslice_from_ok by lia. cbn [bind].
  assert (Hr : (N.of_nat (length (skipn (Z.to_nat pos) data)) < 2 ^ 63)%N).
  { rewrite skipn_length. unfold len, TWO63 in *. change (2^63)%N with 9223372036854775808%N. lia. }
  pose proof (lenenc_string_spec _ Hr) as Hs.
  destruct (lenenc_string (skipn (Z.to_nat pos) data)) as [[v n]|e|]; cbn [bind]; [|exact I|exact Hs].
  rewrite skipn_length in Hs. unfold len in *. lia.
Qed.

Lemma extract_data_spec pos row ty : 0 <= pos <= len row -> len row < TWO63 ->
  match extract_data true pos row ty with
  | Ok (v, n) => 0 <= n /\ pos + n <= len row
  | Err _ => True
  | Panic => False
  end.
Proof.
  intros Hp Hl. unfold extract_data. pose proof (kind_storage ty) as Hk.
  destruct (extract_kind ty) as [w| |].
  - destruct Hk as [-> [Hw0 Hw8]]. cbn [andb].
    destruct (Z.ltb_spec (len row - pos) w); [exact I|].
    destruct (Z.eqb_spec w 0); [lia|].
    rewrite gslice_ok by lia. cbn [bind]. lia.
  - cbn [andb]. pose proof (lstr_at_spec pos row Hp Hl) as Hs.
    destruct (storage_width ty) as [w|]; [destruct (len row - pos <? w); [exact I|]|];
      destruct (lstr_at pos row) as [[v n]|e|]; try exact I; try exact Hs; lia.
  - destruct (true && _); exact I.
Qed.

Definition bm_bit (bm : bytes) (k : Z) : bool := N.testbit (b2n (nth (Z.to_nat (k / 8)) bm x00)) (Z.to_N (k mod 8)).

Lemma bitmap_bit_ok bm k : 0 <= k -> k / 8 < len bm -> bitmap_bit bm k = Ok (bm_bit bm k).
Proof. intros H0 H1. unfold bitmap_bit. rewrite gindex_ok by lia. reflexivity. Qed.

Lemma bin_cols_total tr row bm : (forall i v, tr i v <> Panic) -> len row < TWO63 ->
  forall tys i pos out, 0 <= pos <= len row -> (Z.of_nat i + Z.of_nat (length tys) + 9) / 8 <= len bm ->
  bin_cols true tr row bm i tys pos out <> Panic.
Proof.
  intros Htr Hl. induction tys as [|ty tys IH]; intros i pos out Hp Hb; cbn [bin_cols]; [discriminate|].
  cbn [length] in Hb.
  rewrite bitmap_bit_ok by lia. cbn [bind].
  assert (Hb' : (Z.of_nat (S i) + Z.of_nat (length tys) + 9) / 8 <= len bm) by (replace (Z.of_nat (S i) + Z.of_nat (length tys)) with (Z.of_nat i + Z.of_nat (S (length tys))) by lia; exact Hb).
  destruct (bm_bit bm (Z.of_nat i + 2)); [apply IH; assumption|].
  pose proof (extract_data_spec pos row ty Hp Hl) as Hs.
  destruct (extract_data true pos row ty) as [[v n]|e|]; cbn [bind]; [|discriminate|contradiction].
  specialize (Htr i v). destruct (tr i v) as [v'|e|]; cbn [bind]; [|discriminate|contradiction].
  specialize (IH (S i) (pos + n) (out ++ v') ltac:(lia) Hb').
  destruct (bin_cols true tr row bm (S i) tys (pos + n) (out ++ v')) as [[o seen]|e|]; cbn [bind]; try discriminate. contradiction.
Qed.

(** processBinaryDataRow never panics: any row bytes, any column types, any subscribers that do not panic *)
Theorem mysql_process_binary_row_total tr row tys :
  (forall i v, tr i v <> Panic) -> len row < TWO63 -> process_binary_row_seen true tr row tys <> Panic.
Proof.
  intros Htr Hl. unfold process_binary_row_seen. cbn [andb].
  pose proof (len_nonneg row).
  destruct (Z.eqb_spec (len row) 0); [discriminate|].
  rewrite gindex_ok by lia. cbn [bind].
  destruct (_ =? MY_EOF)%N; [discriminate|]. destruct (negb _); [discriminate|].
  set (pos := 1 + (Z.of_nat (length tys) + 9) / 8).
  assert (Hpos : 1 <= pos) by (unfold pos; lia).
  destruct (Z.ltb_spec (len row) pos); [discriminate|].
  rewrite gslice_ok by lia. unfold gslice_to. rewrite gslice_ok by lia. cbn [bind].
  apply bin_cols_total; try assumption; [lia|].
  unfold len, sub. rewrite firstn_length, skipn_length. unfold len, pos in *. lia.
Qed.

(** the code as found: a row shorter than its NULL bitmap, a row that ends inside a fixed-width value *)
Theorem mysql_process_binary_row_old_refuted :
  process_binary_row false (fun _ v => Ok []) (hb 0x100) [3%N; 252%N] = Panic /\
  process_binary_row false (fun _ v => Ok []) (hb 0x10000010203) [3%N; 252%N] = Panic /\
  process_binary_row false (fun _ v => Ok []) [] [3%N] = Panic.
Proof. repeat split; vm_compute; reflexivity. Qed.

(** ** rewriting a binary row.  Specification of a row, written from the protocol text: 0x00, the NULL bitmap
    (bit (i+2) of the bitmap bytes = column i is NULL), then for each non-NULL column its value: fixed-width
    types verbatim, all others as length-encoded strings. *)
Definition cell_ok (c : N * bytes) : Prop :=
  match extract_kind (fst c) with
  | KFixed w => len (snd c) = w
  | KLenenc => (N.of_nat (length (snd c)) < 2 ^ 63)%N
  | KUnknown => False
  end.
Definition enc_cell (f : nat -> bytes -> bytes) (i : nat) (c : N * bytes) : bytes :=
  match extract_kind (fst c) with
  | KLenenc => put_lenenc_string (Some (f i (snd c)))
  | _ => snd c
  end.
Fixpoint spec_cells (f : nat -> bytes -> bytes) (bm : bytes) (i : nat) (cols : list (N * bytes)) : bytes :=
  match cols with
  | [] => []
  | c :: r => (if bm_bit bm (Z.of_nat i + 2) then [] else enc_cell f i c) ++ spec_cells f bm (S i) r
  end.
Definition spec_row (f : nat -> bytes -> bytes) (bm : bytes) (cols : list (N * bytes)) : bytes :=
  x00 :: bm ++ spec_cells f bm 0 cols.
Definition idf : nat -> bytes -> bytes := fun _ d => d.

(** the subscribers: fixed-width values come back as they were (decode to text, encode again: C19), the
    others are replaced by [f i value] and framed as a length-encoded string *)
Definition std_tr (f : nat -> bytes -> bytes) (tys : list N) : cell_tr := fun i v =>
  match v with
  | None => Ok [xfb]
  | Some d => match extract_kind (nth i tys 0%N) with
              | KLenenc => Ok (put_lenenc_string (Some (f i d)))
              | _ => Ok d
              end
  end.

Lemma bin_cols_spec f bm row : forall cols done pre out,
  row = pre ++ spec_cells idf bm (length done) cols ->
  (Z.of_nat (length done) + Z.of_nat (length cols) + 9) / 8 <= len bm ->
  Forall cell_ok cols ->
  exists seen,
    bin_cols true (std_tr f (done ++ map fst cols)) row bm (length done) (map fst cols) (len pre) out
    = Ok (out ++ spec_cells f bm (length done) cols, seen).
Proof.
  induction cols as [|c cols IH]; intros done pre out Hrow Hb Hok.
  - exists []. cbn [map bin_cols spec_cells]. rewrite app_nil_r. reflexivity.
  - inversion Hok as [|c' cols' Hc Hok']; subst c' cols'.
    cbn [map bin_cols]. cbn [length] in Hb.
    rewrite bitmap_bit_ok by lia. cbn [bind].
    assert (Hdone : done ++ fst c :: map fst cols = (done ++ [fst c]) ++ map fst cols) by (rewrite <- app_assoc; reflexivity).
    assert (Hlen1 : length (done ++ [fst c]) = S (length done)) by (rewrite app_length; cbn [length]; lia).
    assert (Hb' : (Z.of_nat (length (done ++ [fst c])) + Z.of_nat (length cols) + 9) / 8 <= len bm).
    { rewrite Hlen1. replace (Z.of_nat (S (length done)) + Z.of_nat (length cols)) with (Z.of_nat (length done) + Z.of_nat (S (length cols))) by lia. exact Hb. }
    cbn [spec_cells] in Hrow |- *.
    destruct (bm_bit bm (Z.of_nat (length done) + 2)) eqn:Ebit.
    + cbn [app] in Hrow |- *.
      destruct (IH (done ++ [fst c]) pre out) as [seen Hs]; [rewrite Hlen1; exact Hrow|exact Hb'|exact Hok'|].
      rewrite Hlen1 in Hs. rewrite Hdone. exists seen. exact Hs.
    + set (e0 := enc_cell idf (length done) c) in *.
      assert (Hext : extract_data true (len pre) row (fst c) = Ok (Some (snd c), len e0)).
      { unfold extract_data. pose proof (kind_storage (fst c)) as Hk. unfold cell_ok in Hc.
        subst e0. unfold enc_cell, idf in *.
        destruct (extract_kind (fst c)) as [w| |]; [| |contradiction].
        - destruct Hk as [-> [Hw0 Hw8]]. cbn [andb].
          assert (Hrl : len row = len pre + w + len (spec_cells (fun _ d => d) bm (S (length done)) cols)) by (rewrite Hrow, !len_app; lia).
          pose proof (len_nonneg (spec_cells (fun _ d => d) bm (S (length done)) cols)).
          destruct (Z.ltb_spec (len row - len pre) w); [lia|].
          destruct (Z.eqb_spec w 0) as [Hw|Hw].
          + destruct (snd c); [rewrite Hw in Hc; reflexivity|unfold len in Hc; cbn [length] in Hc; lia].
          + rewrite Hrow, <- Hc. rewrite gslice_app_mid. reflexivity.
        - rewrite Hk. cbn [andb]. unfold lstr_at. rewrite Hrow. rewrite gslice_from_app. cbn [bind].
          rewrite (lenenc_string_roundtrip_gen (Some (snd c))) by exact Hc. cbn [bind]. reflexivity. }
      rewrite Hext. cbn [bind].
      assert (Htr : std_tr f (done ++ fst c :: map fst cols) (length done) (Some (snd c)) = Ok (enc_cell f (length done) c)).
      { unfold std_tr, enc_cell. rewrite app_nth2 by lia. rewrite Nat.sub_diag. cbn [nth].
        destruct (extract_kind (fst c)); reflexivity. }
      rewrite Htr. cbn [bind].
      destruct (IH (done ++ [fst c]) (pre ++ e0) (out ++ enc_cell f (length done) c)) as [seen Hs];
        [rewrite Hlen1, <- app_assoc; exact Hrow|exact Hb'|exact Hok'|].
      rewrite Hlen1, len_app in Hs. rewrite Hdone, Hs. cbn [bind].
      exists (Some (snd c) :: seen). rewrite <- app_assoc. reflexivity.
Qed.

(** C12 for binary rows: for EVERY bitmap, EVERY list of typed columns and EVERY replacement function the
    processed row is the protocol encoding of the intended row: header and NULL bitmap unchanged (so the NULL
    positions), fixed-width columns and columns with [f i d = d] byte-identical, every rewritten value behind
    the length prefix of ITS length *)
Theorem mysql_binary_row_rewrite_wf f bm (cols : list (N * bytes)) :
  len bm = (Z.of_nat (length cols) + 9) / 8 -> Forall cell_ok cols ->
  process_binary_row true (std_tr f (map fst cols)) (spec_row idf bm cols) (map fst cols) = Ok (spec_row f bm cols).
Proof.
  intros Hbm Hok. unfold process_binary_row, process_binary_row_seen, spec_row. cbn [andb].
  set (cells := spec_cells idf bm 0 cols).
  change (x00 :: bm ++ cells) with ([x00] ++ bm ++ cells).
  pose proof (len_nonneg bm). pose proof (len_nonneg cells).
  assert (H1 : len [x00] = 1) by reflexivity.
  assert (Hl : len ([x00] ++ bm ++ cells) = 1 + len bm + len cells) by (rewrite !len_app, H1; lia).
  destruct (Z.eqb_spec (len ([x00] ++ bm ++ cells)) 0); [lia|].
  rewrite gindex_ok by lia. cbn [bind].
  change (nth (Z.to_nat 0) ([x00] ++ bm ++ cells) x00) with x00.
  change (b2n x00 =? MY_EOF)%N with false. change (negb (b2n x00 =? MY_OK)%N) with false. cbv iota.
  rewrite map_length, <- Hbm.
  destruct (Z.ltb_spec (len ([x00] ++ bm ++ cells)) (1 + len bm)); [lia|].
  rewrite <- H1 at 1 2. rewrite gslice_app_mid. cbn [bind].
  assert (Hto : gslice_to (len [x00] + len bm) ([x00] ++ bm ++ cells) = Ok ([x00] ++ bm)).
  { rewrite gslice_to_ok by lia. replace ([x00] ++ bm ++ cells) with (([x00] ++ bm) ++ cells) by (rewrite <- app_assoc; reflexivity).
    rewrite <- len_app. unfold len. rewrite Nat2Z.id, firstn_app_len. reflexivity. }
  rewrite H1 in Hto. rewrite Hto. cbn [bind].
  destruct (bin_cols_spec f bm ([x00] ++ bm ++ cells) cols [] ([x00] ++ bm) ([x00] ++ bm)) as [seen Hs];
    [rewrite <- app_assoc; reflexivity|cbn [length]; lia|exact Hok|].
  cbn [length] in Hs. rewrite len_app, H1 in Hs. change (@nil N ++ map fst cols) with (map fst cols) in Hs. rewrite Hs. cbn [res_map fst]. rewrite <- app_assoc. reflexivity.
Qed.

(** non-vacuity: three columns (LONG, VAR_STRING rewritten to a longer value, NULL BLOB) *)
Example mysql_binary_row_rewrite_nonvacuous :
  let cols := [(3%N, hb 0x101020304); (253%N, hb 0x1616263); (252%N, [])] in
  let bm := [x10] in
  let f := fun (i : nat) (d : bytes) => d ++ d in
  len bm = (Z.of_nat (length cols) + 9) / 8 /\ Forall cell_ok cols /\
  spec_row idf bm cols = hb 0x100100102030403616263 /\
  spec_row f bm cols = hb 0x100100102030406616263616263.
Proof.
  cbv zeta. split; [reflexivity|]. split; [|split; vm_compute; reflexivity].
  repeat constructor; vm_compute; reflexivity.
Qed.

(** * 3. Column definition packets *)

Lemma skip_lenenc_string_spec data :
  match skip_lenenc_string data with
  | Ok n => (n <= length data)%nat
  | Err _ => True
  | Panic => False
  end.
Proof.
  unfold skip_lenenc_string. pose proof (lenenc_int_spec data) as Hs.
  destruct (lenenc_int data) as [[[num isnull] n]|e|]; cbn [bind]; [|exact I|exact Hs].
  destruct Hs as [Hn Hnum].
  destruct (N.ltb_spec num 1); [lia|].
  destruct (N.ltb_spec (N.of_nat (length data - n)) num); [exact I|]. lia.
Qed.

Lemma byte_at_ok pos data : 0 <= pos < len data -> exists v, byte_at pos data = Ok v.
Proof. intros H. unfold byte_at. rewrite gindex_ok by lia. eexists. reflexivity. Qed.

Lemma le_at_pos_ok w pos data : (0 < w)%nat -> 0 <= pos -> pos + Z.of_nat w <= len data ->
  exists v, le_at_pos w pos data = Ok v.
Proof.
  intros Hw Hp Hl. unfold le_at_pos. rewrite gslice_from_ok by lia. cbn [bind].
  rewrite gindex_ok by (unfold len in *; rewrite ?skipn_length; lia). cbn [bind]. eexists. reflexivity.
Qed.

Lemma TWO63_val : TWO63 = 9223372036854775808. Proof. reflexivity. Qed.
Lemma TWO64_val : TWO64 = 18446744073709551616. Proof. reflexivity. Qed.
Lemma TWO64N_val : TWO64N = 18446744073709551616%N. Proof. reflexivity. Qed.

Lemma lenenc_int_at_spec pos data : 0 <= pos <= len data ->
  match (do r <- gslice_from pos data; lenenc_int r) with
  | Ok (num, isnull, n) => 1 <= Z.of_nat n /\ pos + Z.of_nat n <= len data /\ (num < 18446744073709551616)%N
  | Err _ => True
  | Panic => False
  end.
Proof.
  intros Hp. rewrite gslice_from_ok by lia. cbn [bind].
  pose proof (lenenc_int_spec (skipn (Z.to_nat pos) data)) as Hs.
  destruct (lenenc_int (skipn (Z.to_nat pos) data)) as [[[num isnull] n]|e|]; [|exact I|exact Hs].
  rewrite skipn_length in Hs. change (2^64)%N with 18446744073709551616%N in Hs. unfold len in *. lia.
Qed.

Lemma parse_ext_spec pos data : 0 <= pos <= len data -> len data < TWO63 ->
  match parse_ext true pos data with
  | Ok (e, p') => pos <= p' <= len data
  | Err _ => True
  | Panic => False
  end.
Proof.
  intros Hp Hl. unfold parse_ext. cbn [andb]. rewrite TWO63_val in Hl.
  destruct (Z.leb_spec (len data) pos); [exact I|].
  destruct (byte_at_ok pos data ltac:(lia)) as [b ->]. cbn [bind].
  destruct (b =? 0)%N; [lia|].
  pose proof (lenenc_int_at_spec pos data Hp) as Hs.
  destruct (gslice_from pos data) as [r|e|]; cbn [bind] in Hs |- *; [|exact I|exact Hs].
  destruct (lenenc_int r) as [[[num isnull] n]|e|]; cbn [bind]; [|exact I|exact Hs].
  destruct Hs as [Hn1 [Hn2 Hnum]].
  rewrite u64_of_int_small by (rewrite TWO64_val; lia).
  destruct (N.leb_spec (Z.to_N (len data - pos)) num); [exact I|].
  assert (Hadd : u64_add num 1 = (num + 1)%N) by (unfold u64_add; rewrite TWO64N_val; apply N.mod_small; lia).
  rewrite Hadd.
  assert (Hoff : int_of_u64 (num + 1) = Z.of_N num + 1).
  { unfold int_of_u64. destruct (N.ltb_spec (num + 1) 9223372036854775808); lia. }
  rewrite Hoff. unfold int_add. rewrite wrap_int_small by (rewrite TWO63_val; lia).
  rewrite gslice_ok by lia. cbn [bind]. lia.
Qed.

Ltac lstr_step Hl :=
  match goal with |- context [lstr_at ?p ?d] =>
    let Hs := fresh "Hs" in
    pose proof (lstr_at_spec p d ltac:(lia) Hl) as Hs;
    destruct (lstr_at p d) as [[? ?]|?|]; cbn [bind]; [|discriminate|contradiction]
  end.

(** ParseResultField (with the added checks) never panics, for both protocol flavours *)
Theorem mysql_parse_result_field_total maria data : len data < TWO63 -> parse_result_field true maria data <> Panic.
Proof.
  intros Hl. unfold parse_result_field. cbv zeta.
  pose proof (skip_lenenc_string_spec data) as H0.
  destruct (skip_lenenc_string data) as [n0|e|]; cbn [bind]; [|discriminate|contradiction].
  assert (Hn0 : 0 <= Z.of_nat n0 <= len data) by (unfold len; lia).
  do 5 lstr_step Hl.
  set (p5 := Z.of_nat n0 + z + z0 + z1 + z2 + z3) in *.
  assert (Hp5 : 0 <= p5 <= len data) by (unfold p5; lia).
  assert (Hext : match (if maria then parse_ext true p5 data else Ok ([], p5)) with
                 | Ok (e, p') => p5 <= p' <= len data | Err _ => True | Panic => False end).
  { destruct maria; [apply parse_ext_spec; assumption|lia]. }
  destruct (if maria then parse_ext true p5 data else Ok ([], p5)) as [[ext p6]|e|]; cbn [bind]; [|discriminate|contradiction].
  cbn [andb]. destruct (Z.ltb_spec (len data - p6) 11); [discriminate|].
  destruct (le_at_pos_ok 2 (p6 + 1) data ltac:(lia) ltac:(lia) ltac:(lia)) as [v1 ->]. cbn [bind].
  destruct (le_at_pos_ok 4 (p6 + 1 + 2) data ltac:(lia) ltac:(lia) ltac:(lia)) as [v2 ->]. cbn [bind].
  destruct (byte_at_ok (p6 + 1 + 2 + 4) data ltac:(lia)) as [v3 ->]. cbn [bind].
  destruct (le_at_pos_ok 2 (p6 + 1 + 2 + 4 + 1) data ltac:(lia) ltac:(lia) ltac:(lia)) as [v4 ->]. cbn [bind].
  destruct (byte_at_ok (p6 + 1 + 2 + 4 + 1 + 2) data ltac:(lia)) as [v5 ->]. cbn [bind].
  set (p7 := p6 + 1 + 2 + 4 + 1 + 2 + 1 + 2).
  destruct (Z.leb_spec (len data) p7); [discriminate|].
  pose proof (lenenc_int_at_spec p7 data ltac:(unfold p7; lia)) as Hdf.
  destruct (gslice_from p7 data) as [r|e|]; cbn [bind] in Hdf |- *; [|discriminate|contradiction].
  destruct (lenenc_int r) as [[[deflen isnull] n]|e|]; cbn [bind]; [|discriminate|contradiction].
  destruct Hdf as [Hn1 [Hn2 Hnum]]. rewrite TWO63_val in Hl.
  rewrite u64_of_int_small by (rewrite TWO64_val; lia).
  destruct (N.ltb_spec (Z.to_N (len data - (p7 + Z.of_nat n))) deflen); [discriminate|].
  assert (Hoff : int_of_u64 deflen = Z.of_N deflen).
  { unfold int_of_u64. destruct (N.ltb_spec deflen 9223372036854775808); lia. }
  rewrite Hoff. unfold int_add. rewrite wrap_int_small by (rewrite TWO63_val; lia).
  rewrite gslice_ok by lia. cbn [bind]. discriminate.
Qed.

(** the code as found, on the inputs that panicked on the real code: the definition cut behind org_name, inside
    the fixed-length fields (with and without the MariaDB flag), and default-value lengths of 2^64-1 / 2^63 *)
Definition coldef_sample : bytes := hb 0x103646566017301740174016e016e0c21000a000000fd0000000000.
Theorem mysql_parse_result_field_old_refuted :
  parse_result_field false false (firstn 14 coldef_sample) = Panic /\
  parse_result_field false true (firstn 14 coldef_sample) = Panic /\
  parse_result_field false false (firstn 17 coldef_sample) = Panic /\
  parse_result_field false true (firstn 20 coldef_sample) = Panic /\
  parse_result_field false false (firstn 24 coldef_sample) = Panic /\
  parse_result_field false false (coldef_sample ++ hb 0x1feffffffffffffffff) = Panic /\
  parse_result_field false false (coldef_sample ++ hb 0x1fe0000000000000080) = Panic /\
  (forall m, Outcome.is_ok (parse_result_field true m (firstn 14 coldef_sample)) = false) /\
  Outcome.is_ok (parse_result_field true false coldef_sample) = true.
Proof. repeat split; try (intros []); vm_compute; reflexivity. Qed.

(** * 4. COM_STMT_EXECUTE parameter block *)

Lemma storage_width_nonneg ty w : storage_width ty = Some w -> 0 <= w.
Proof. unfold storage_width. destruct (assoc ty MY_NUMERIC_STORAGE); cbn [option_map]; [intros [= <-]; lia|discriminate]. Qed.

Lemma bound_value_spec r ty : len r < TWO63 ->
  match bound_value r ty with
  | Ok (v, n) => 0 <= n <= len r
  | Err _ => True
  | Panic => False
  end.
Proof.
  intros Hl. unfold bound_value. pose proof (len_nonneg r).
  destruct (storage_width ty) as [w|] eqn:Es.
  - apply storage_width_nonneg in Es. destruct (Z.eqb_spec w 0); [lia|].
    destruct (Z.ltb_spec (len r) w); [exact I|lia].
  - assert (Hr : (N.of_nat (length r) < 2 ^ 63)%N) by (unfold len, TWO63 in Hl; change (2^63)%N with 9223372036854775808%N; lia).
    pose proof (lenenc_string_spec r Hr) as Hs.
    destruct (lenenc_string r) as [[v n]|e|]; cbn [bind]; [|exact I|exact Hs]. unfold len. lia.
Qed.

Lemma param_types_ok data : forall k pos, 0 <= pos -> pos + 2 * Z.of_nat k <= len data ->
  exists ts, param_types data pos k = Ok ts /\ length ts = k.
Proof.
  induction k as [|k IH]; intros pos Hp Hl; cbn [param_types]; [exists []; split; reflexivity|].
  destruct (byte_at_ok pos data ltac:(lia)) as [t ->]. cbn [bind].
  destruct (IH (pos + 2) ltac:(lia) ltac:(lia)) as [ts [-> Hts]]. cbn [bind].
  exists (t :: ts). split; [reflexivity|cbn [length]; lia].
Qed.

Lemma param_values_total data bm : len data < TWO63 ->
  forall tys i pos, 0 <= pos <= len data -> (Z.of_nat i + Z.of_nat (length tys) + 7) / 8 <= len bm ->
  param_values data bm i tys pos <> Panic.
Proof.
  intros Hl. induction tys as [|ty tys IH]; intros i pos Hp Hb; cbn [param_values]; [discriminate|].
  cbn [length] in Hb.
  assert (Hbit : (if (0 <? length bm)%nat then bitmap_bit bm (Z.of_nat i) else Ok false) = Ok (bm_bit bm (Z.of_nat i))
                 \/ (if (0 <? length bm)%nat then bitmap_bit bm (Z.of_nat i) else Ok false) = Ok false).
  { destruct (0 <? length bm)%nat; [left; apply bitmap_bit_ok; lia|right; reflexivity]. }
  assert (Hb' : (Z.of_nat (S i) + Z.of_nat (length tys) + 7) / 8 <= len bm)
    by (replace (Z.of_nat (S i) + Z.of_nat (length tys)) with (Z.of_nat i + Z.of_nat (S (length tys))) by lia; exact Hb).
  assert (Hnn : forall isnull,
    (if isnull : bool then do vs <- param_values data bm (S i) tys pos; Ok ((ty, None) :: vs)
     else do r <- gslice_from pos data; do (v, n) <- bound_value r ty;
          do vs <- param_values data bm (S i) tys (pos + n); Ok ((ty, v) :: vs)) <> Panic).
  { intros [|].
    - specialize (IH (S i) pos Hp Hb'). destruct (param_values data bm (S i) tys pos); cbn [bind]; try discriminate. contradiction.
    - rewrite gslice_from_ok by lia. cbn [bind].
      assert (Hr : len (skipn (Z.to_nat pos) data) = len data - pos) by (unfold len; rewrite skipn_length; unfold len in Hp; lia).
      pose proof (bound_value_spec (skipn (Z.to_nat pos) data) ty ltac:(lia)) as Hs.
      destruct (bound_value (skipn (Z.to_nat pos) data) ty) as [[v n]|e|]; cbn [bind]; [|discriminate|contradiction].
      specialize (IH (S i) (pos + n) ltac:(lia) Hb').
      destruct (param_values data bm (S i) tys (pos + n)); cbn [bind]; try discriminate. contradiction. }
  destruct Hbit as [-> | ->]; cbn [bind]; [exact (Hnn (bm_bit bm (Z.of_nat i))) | exact (Hnn false)].
Qed.

(** GetBindParameters (with the added checks) never panics: any packet bytes, any parameter count *)
Theorem mysql_get_bind_parameters_total data pn : len data < TWO63 -> get_bind_parameters true data pn <> Panic.
Proof.
  intros Hl. unfold get_bind_parameters. cbv zeta. cbn [andb].
  destruct (pn =? 0)%nat eqn:Epn; [discriminate|]. apply Nat.eqb_neq in Epn.
  set (bl := (Z.of_nat pn + 7) / 8). assert (Hbl : 1 <= bl) by (unfold bl; lia).
  destruct (Z.ltb_spec (len data) (10 + bl + 1)); [discriminate|].
  destruct (gslice 10 (10 + bl) data) as [bm|e|] eqn:Ebm; [|exfalso; exact (gslice_never_err _ _ _ _ Ebm)|
    exfalso; apply gslice_panic in Ebm; lia].
  cbn [bind]. apply gslice_length in Ebm.
  destruct (byte_at_ok (10 + bl) data ltac:(lia)) as [fl ->]. cbn [bind].
  destruct (negb (fl =? 1)%N); [discriminate|].
  destruct (Z.ltb_spec (len data) (10 + bl + 1 + 2 * Z.of_nat pn)); [discriminate|].
  destruct (param_types_ok data pn (10 + bl + 1) ltac:(lia) ltac:(lia)) as [ts [-> Hts]]. cbn [bind].
  pose proof (param_values_total data bm Hl ts 0%nat (10 + bl + 1 + 2 * Z.of_nat pn) ltac:(lia)) as Hv.
  rewrite Hts in Hv. specialize (Hv ltac:(unfold bl in *; cbn [Z.of_nat]; lia)).
  destruct (param_values data bm 0 ts (10 + bl + 1 + 2 * Z.of_nat pn)); cbn [bind]; try discriminate. contradiction.
Qed.

Definition np_sane (v : new_param) : Prop := np_negative v <> Panic /\ np_encoded v <> Panic.

Lemma set_types_total data bm : forall vals i pos out,
  Forall np_sane vals -> 0 <= pos -> pos + 2 * Z.of_nat (length vals) <= len data ->
  (Z.of_nat i + Z.of_nat (length vals) + 7) / 8 <= len bm ->
  set_types true data bm i pos vals out <> Panic.
Proof.
  induction vals as [|v vals IH]; intros i pos out Hs Hp Hl Hb; cbn [set_types]; [discriminate|].
  inversion Hs as [|v' vals' [Hneg Henc] Hs']; subst v' vals'. cbn [length] in Hl, Hb.
  rewrite gslice_ok by lia. cbn [bind].
  assert (Hb' : (Z.of_nat (S i) + Z.of_nat (length vals) + 7) / 8 <= len bm)
    by (replace (Z.of_nat (S i) + Z.of_nat (length vals)) with (Z.of_nat i + Z.of_nat (S (length vals))) by lia; exact Hb).
  destruct ((np_type v =? MY_TYPE_LONG)%N || (np_type v =? MY_TYPE_LONGLONG)%N).
  - rewrite bitmap_bit_ok by lia. cbn [bind].
    destruct (bm_bit bm (Z.of_nat i)); cbn [bind]; [apply IH; try assumption; lia|].
    destruct (np_negative v) as [neg|e|]; cbn [bind]; [|discriminate|contradiction].
    apply IH; try assumption; lia.
  - cbn [bind]. apply IH; try assumption; lia.
Qed.

Lemma set_values_total bm : forall vals i out,
  Forall np_sane vals -> (Z.of_nat i + Z.of_nat (length vals) + 7) / 8 <= len bm ->
  set_values bm i vals out <> Panic.
Proof.
  induction vals as [|v vals IH]; intros i out Hs Hb; cbn [set_values]; [discriminate|].
  inversion Hs as [|v' vals' [Hneg Henc] Hs']; subst v' vals'. cbn [length] in Hb.
  rewrite bitmap_bit_ok by lia. cbn [bind].
  assert (Hb' : (Z.of_nat (S i) + Z.of_nat (length vals) + 7) / 8 <= len bm)
    by (replace (Z.of_nat (S i) + Z.of_nat (length vals)) with (Z.of_nat i + Z.of_nat (S (length vals))) by lia; exact Hb).
  destruct (bm_bit bm (Z.of_nat i)); [apply IH; assumption|].
  destruct (np_encoded v) as [e|e|]; cbn [bind]; [|discriminate|contradiction]. apply IH; assumption.
Qed.

(** SetParameters (with the added check) never panics, whatever GetType / GetData / Encode of the values answer *)
Theorem mysql_set_parameters_total p vals : Forall np_sane vals -> set_parameters true p vals <> Panic.
Proof.
  intros Hs. unfold set_parameters. cbv zeta. cbn [andb].
  destruct (length vals =? 0)%nat eqn:Ek; [discriminate|]. apply Nat.eqb_neq in Ek.
  set (k := Z.of_nat (length vals)). set (bl := (k + 7) / 8).
  assert (Hbl : 1 <= bl) by (unfold bl, k; lia).
  destruct (Z.ltb_spec (len (p_data p)) (10 + bl + 1 + 2 * k)); [discriminate|].
  destruct (gslice 10 (10 + bl) (p_data p)) as [bm|e|] eqn:Ebm; [|exfalso; exact (gslice_never_err _ _ _ _ Ebm)|
    exfalso; apply gslice_panic in Ebm; unfold k in *; lia].
  cbn [bind]. apply gslice_length in Ebm.
  rewrite gslice_to_ok by (unfold k in *; lia). cbn [bind].
  pose proof (set_types_total (p_data p) bm vals 0%nat (10 + bl + 1) (firstn (Z.to_nat (10 + bl + 1)) (p_data p)) Hs
                ltac:(lia) ltac:(unfold k in *; lia) ltac:(unfold bl, k in *; cbn [Z.of_nat]; lia)) as Ht.
  destruct (set_types true (p_data p) bm 0 (10 + bl + 1) vals _) as [o|e|]; cbn [bind]; [|discriminate|contradiction].
  pose proof (set_values_total bm vals 0%nat o Hs ltac:(unfold bl, k in *; cbn [Z.of_nat]; lia)) as Hv.
  destruct (set_values bm 0 vals o); cbn [bind]; try discriminate. contradiction.
Qed.

(** the code as found: COM_STMT_EXECUTE cut inside the NULL bitmap / before the flag / inside the types / inside
    a value, and a NULL parameter of type LONG together with a rewritten parameter (ParseInt of its empty text) *)
Definition execute_sample : bytes := hb 0x11701000000000100000000010300fd0007000000026869.
Theorem mysql_get_bind_parameters_old_refuted :
  get_bind_parameters false (firstn 5 execute_sample) 2 = Panic /\
  get_bind_parameters false (firstn 10 execute_sample) 2 = Panic /\
  get_bind_parameters false (firstn 11 execute_sample) 2 = Panic /\
  get_bind_parameters false (firstn 13 execute_sample) 2 = Panic /\
  get_bind_parameters false (firstn 15 execute_sample) 2 = Panic /\
  set_parameters false (mk_packet (hb 0x105000000) (firstn 5 execute_sample)) [mk_new_param 3 (Ok false) (Ok [])] = Panic /\
  Outcome.is_ok (get_bind_parameters true execute_sample 2) = true /\
  (forall k, (k < 23)%nat -> Outcome.is_ok (get_bind_parameters true (firstn k execute_sample) 2) = false).
Proof.
  do 7 (split; [vm_compute; reflexivity|]).
  intros k Hk. do 23 (destruct k as [|k]; [vm_compute; reflexivity|]). lia.
Qed.

(** a NULL parameter of type LONG (NULL bitmap 0x01) next to a rewritten one: the code as found asked ParseInt
    for the sign of its empty text and failed the whole packet *)
Theorem mysql_set_parameters_null_long_old_refuted :
  let p := mk_packet (hb 0x112000000) (hb 0x11701000000000100000001010300fd00026869) in
  let vals := [mk_new_param 3 (Err E_CALLBACK) (Ok (hb 0x100000000)); mk_new_param 252 (Ok false) (Ok (hb 0x10441424344))] in
  set_parameters false p vals = Err E_CALLBACK /\
  set_parameters true p vals = Ok (mk_packet (hb 0x115000000) (hb 0x11701000000000100000001010300fc000441424344)).
Proof. cbv zeta. split; vm_compute; reflexivity. Qed.

(** KNOWN FINDING mysql-execute-unsigned-int-sign: the unsigned flag of an UNTOUCHED LONG / LONGLONG parameter is
    replaced by "signed" when its value has the top bit set (GetBindParameters reads every integer as signed and
    SetParameters derives the flag from the sign of that text): 3094705185 is forwarded as -1200262111.
    [vals] are the answers of the values GetBindParameters itself produced for [p] (text "-1200262111"). *)
Theorem mysql_execute_unsigned_flag_refuted :
  let p := mk_packet (hb 0x112000000) (hb 0x11701000000000100000000010380fd00217075b8026869) in
  let vals := [mk_new_param 3 (Ok true) (Ok (hb 0x1217075b8)); mk_new_param 252 (Ok false) (Ok (hb 0x10441424344))] in
  get_bind_parameters true (p_data p) 2 = Ok (Some [(3%N, Some (hb 0x1217075b8)); (253%N, Some (hb 0x16869))]) /\
  nth 13 (p_data p) x00 = x80 /\
  set_parameters true p vals = Ok (mk_packet (hb 0x119000000) (hb 0x11701000000000100000000010300fc00217075b80441424344)).
Proof. cbv zeta. split; [vm_compute; reflexivity|]. split; vm_compute; reflexivity. Qed.
