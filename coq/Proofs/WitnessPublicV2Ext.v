(** Concrete witnesses (stand-in crypto) for the public-only export -> import theorems: a source with
    a rotated key-pair ring whose OLD key was destroyed, a symmetric ring and a second key-pair ring,
    exported without the private bit and imported over a target that holds other content; and the
    refutation witness of the known finding v2-public-export-drops-mixed-ring. *)
From Coq Require Import List NArith ZArith Bool Lia.
From Acra Require Import Lib.Bytes Lib.Outcome Crypto.Interface Crypto.Stub Gen.KsConsts Gen.X18Consts
  Model.KeyAtRest Model.DerV2Ext Model.KeyRingV2Ext Model.BundleV2Ext Model.PublicExportV2Ext
  Proofs.DerV2Ext Proofs.KeyRingV2Ext Proofs.ExportImportV2Ext Proofs.HistoryV2Ext Proofs.WitnessV2Ext
  Proofs.PublicExportV2Ext.
Import ListNotations.

Definition wp_pub_only (b : byte) : kdata :=
  {| kd_format := FORMAT_KEYPAIR; kd_pub := repeat_bytes b 45; kd_priv := []; kd_sym := [] |}.

(** generate, rotate, `acra-keys destroy --index 2`: the old key of the storage ring is a destroyed marker;
    the poison ring has a public-only key and a full key pair; a symmetric ring lives beside them *)
Definition wp_ops : list rop :=
  [RAddKey w_path_pair w_t1 w_t2 [w_pair x43]; RSetCurrent w_path_pair 1;
   RAddKey w_path_sym w_t1 w_t2 [w_sym x41]; RSetCurrent w_path_sym 1;
   RAddKey w_path_pair w_t1 w_t2 [w_pair x45]; RSetCurrent w_path_pair 2;
   RAddKey RING_POISON w_t1 w_t2 [wp_pub_only x46]; RSetCurrent RING_POISON 1;
   RDestroy w_path_pair 1;
   RAddKey RING_POISON w_t1 w_t2 [w_pair x47]; RSetState RING_POISON 1 2].
Definition wp_tape : list bytes := map w_nonce [x01; x02; x03; x04; x05; x06].
Definition wp_src : backend := built Stub w_master1 wp_tape wp_ops.
(** the target holds the storage ring with another key, and an unrelated ring *)
Definition wp_tgt : backend :=
  built Stub w_master2 (map w_nonce [x11; x12])
        [RAddKey w_path_pair w_t1 w_t2 [w_pair x51]; RAddKey RING_AUDIT_LOG w_t1 w_t2 [w_sym x52]].
Definition wp_paths := [w_path_sym; w_path_pair; RING_POISON].
Definition wp_exported : res (list ring) := export_rings Stub w_master1 wp_src EXPORT_PUBLIC_ONLY wp_paths.
Definition wp_import : imp :=
  match wp_exported with
  | Ok rs => import_rings Stub w_master2 deleg_overwrite wp_tgt [] (sorted_rings rs)
  | _ => imp_fail wp_tgt [] (Err 0%N)
  end.

Lemma wp_public_modes :
  public_mode EXPORT_PUBLIC_ONLY /\ public_mode EXPORT_ALL_KEYS /\ ~ public_mode EXPORT_PRIVATE_KEYS /\
  ~ public_mode (N.lor EXPORT_PUBLIC_ONLY EXPORT_PRIVATE_KEYS).
Proof. unfold public_mode. repeat split; try reflexivity; intros H; discriminate H. Qed.

Ltac wp_keypair_ring :=
  repeat (apply Forall_cons;
          [ intros Hp; try (vm_compute in Hp; discriminate Hp); cbn [keypair_op]; repeat constructor | ]);
  apply Forall_nil.

Lemma wp_keypair_rings : keypair_ring w_path_pair wp_ops /\ keypair_ring RING_POISON wp_ops.
Proof. split; unfold keypair_ring, wp_ops; wp_keypair_ring. Qed.

Lemma wp_sym_ring_not_keypair : ~ keypair_ring w_path_sym wp_ops.
Proof.
  unfold keypair_ring, wp_ops. intros H.
  inversion H as [|? ? _ H1]; subst. inversion H1 as [|? ? _ H2]; subst. inversion H2 as [|? ? H3 _]; subst.
  specialize (H3 eq_refl). cbn [keypair_op] in H3. inversion H3 as [|? ? Hf _]; subst. discriminate Hf.
Qed.

(** premises of the identity theorem hold, the export holds two rings, the import succeeds *)
Definition wp_check : bool :=
  match wp_exported with
  | Ok rs =>
      (Nat.eqb (length rs) 2) &&
      (match im_res wp_import with Ok _ => true | _ => false end) &&
      (match parse_rings (der_rings rs) with Some rs' => Nat.eqb (length rs') 2 | None => false end)
  | _ => false
  end.
Lemma wp_check_true : wp_check = true.
Proof. vm_compute. reflexivity. Qed.

Lemma wp_nodup : NoDup wp_paths.
Proof.
  unfold wp_paths. repeat constructor; cbn [In]; intros H;
    repeat (destruct H as [H|H]; [vm_compute in H; discriminate H|]); exact H.
Qed.

(** what the target reads afterwards: both keys in order, the destroyed marker, the current key, the
    public key of the surviving key identical — and no private key; the symmetric ring did not travel *)
Definition wp_queries (v : vring) :=
  (g_current v, g_all_keys v, g_state v 1, g_public v 1 FORMAT_KEYPAIR, g_public v 2 FORMAT_KEYPAIR,
   g_private v 2 FORMAT_KEYPAIR, g_since v 2).
Lemma wp_getters_agree :
  option_map wp_queries (store_view Stub w_master2 (im_b wp_import) w_path_pair) =
    Some (Ok 2%Z, [2%Z; 1%Z], Ok STATE_DESTROYED, Err E_KEY_DESTROYED, Ok (repeat_bytes x45 45),
          Err E_NO_KEY_DATA, Ok w_t1) /\
  option_map wp_queries (store_view Stub w_master1 wp_src w_path_pair) =
    Some (Ok 2%Z, [2%Z; 1%Z], Ok STATE_DESTROYED, Err E_KEY_DESTROYED, Ok (repeat_bytes x45 45),
          Ok (repeat_bytes x45 44 ++ [x01]), Ok w_t1) /\
  store_pub_view (im_b wp_import) w_path_pair = store_pub_view wp_src w_path_pair /\
  store_pub_view (im_b wp_import) RING_POISON = store_pub_view wp_src RING_POISON /\
  store_pub_view wp_src RING_POISON <> None /\
  b_get w_path_sym (im_b wp_import) = None /\ b_get w_path_sym wp_src <> None /\
  b_get RING_AUDIT_LOG (im_b wp_import) = b_get RING_AUDIT_LOG wp_tgt /\ b_get RING_AUDIT_LOG wp_tgt <> None.
Proof. vm_compute. repeat split; try reflexivity; intros H; discriminate H. Qed.

(** KNOWN FINDING v2-public-export-drops-mixed-ring: a ring (reachable through api.MutableKeyRing only; acra's
    ServerKeyStore never builds it) that holds a key pair AND a symmetric key: its public key is readable,
    yet the public-only export of exactly this ring succeeds with an EMPTY bundle *)
Definition wp_path_custom : bytes := [x7a; x7a; x2f; x72; x69; x6e; x67].
Definition wp_mixed_ops : list rop :=
  [RAddKey wp_path_custom w_t1 w_t2 [w_pair x43]; RSetCurrent wp_path_custom 1;
   RAddKey wp_path_custom w_t1 w_t2 [w_sym x41]; RSetCurrent wp_path_custom 2].
Definition wp_mixed_src : backend := built Stub w_master1 wp_tape wp_mixed_ops.

Lemma public_export_mixed_ring_refuted :
  exists (ops : list rop) (p pub : bytes),
    let sb := built Stub w_master1 wp_tape ops in
    option_map (fun v => g_public v 1 FORMAT_KEYPAIR) (store_view Stub w_master1 sb p) = Some (Ok pub) /\
    pub <> [] /\
    export_rings Stub w_master1 sb EXPORT_PUBLIC_ONLY [p] = Ok [] /\
    (exists rs, export_rings Stub w_master1 sb EXPORT_PRIVATE_KEYS [p] = Ok rs /\ length rs = 1%nat).
Proof.
  exists wp_mixed_ops, wp_path_custom, (repeat_bytes x43 45). cbv zeta.
  split; [vm_compute; reflexivity|]. split; [intros H; discriminate H|].
  split; [vm_compute; reflexivity|].
  destruct (export_rings Stub w_master1 (built Stub w_master1 wp_tape wp_mixed_ops) EXPORT_PRIVATE_KEYS [wp_path_custom])
    as [rs|e|] eqn:E; vm_compute in E; try discriminate E.
  exists rs. split; [reflexivity|]. inversion E. reflexivity.
Qed.
