(** Proofs about the complete write chain and read chain of the proxies (Model/FullChain.v): which stage acts for
    which column flavour, and write-then-reveal round trips per flavour for ALL plaintexts, keys and later key
    histories, built on the stage theorems of C01 (envelopes, scanner), C01_old (wrapper, re-encryptor),
    C09 (hmac.Processor) and C11 (masking). *)
From Coq Require Import Lia ZifyN ZifyNat ZifyBool.
From Acra Require Import Lib.Bytes Lib.Outcome Lib.Sha256 Crypto.Interface Gen.Consts Gen.MaskConsts
  Model.Envelope Model.EnvelopeOld Model.Masking Model.MaskingWrite Model.Search Model.SearchExt Model.Bytea
  Model.LegacyChain Model.FullChain
  Proofs.Envelope Proofs.Containers Proofs.EnvelopeHandlers Proofs.Scanner Proofs.EnvelopeOld Proofs.Search Proofs.SearchExt
  Proofs.LegacyChain Proofs.Masking.

Lemma bind_ok_r {A} (r : res A) : (do x <- r; Ok x) = r.
Proof. destruct r; reflexivity. Qed.

Lemma fs_id_ab st : byte_eqb (fs_id st) ENVELOPE_ID_ACRABLOCK = fs_env_ab st.
Proof. unfold fs_id. destruct (fs_env_ab st); reflexivity. Qed.

Lemma only_enc_parts st : fs_only_enc st = true -> fs_searchable st = false /\ is_nil (ms_pattern (fs_mask st)) = true.
Proof.
  unfold fs_only_enc. intros H. apply andb_true_iff in H as [H1 H2].
  split; [destruct (fs_searchable st); [discriminate|reflexivity]| exact H2].
Qed.

Section FullChainProofs.
Variable C : crypto.

(** * which stage acts: at most one stage of a call creates an envelope *)
Lemma mask_stage_idle st ks tape data :
  is_nil (ms_pattern (fs_mask st)) = true -> fc_stage_mask C st ks tape data = Ok data.
Proof. intros H. unfold fc_stage_mask, mask_encryptor, encrypt_by_function. rewrite H. reflexivity. Qed.

(* plain encrypted column: EncryptHandler, then ReEncryptHandler; the optional stages hand the value on *)
Theorem fc_write_plain sch st ks tape data :
  fs_only_enc st = true ->
  fc_write C sch st ks tape data =
    (do d1 <- encrypt_with_handler C (fs_id st) ks tape data;
     reencrypt C (fs_env_ab st) true (fs_reenc st) ks tape d1).
Proof.
  intros H. destruct (only_enc_parts st H) as [Hs Hm].
  unfold fc_write, fc_stage_encrypt, fc_stage_search, fc_stage_reenc. rewrite H, Hs.
  destruct (encrypt_with_handler C (fs_id st) ks tape data) as [d1| |]; cbn [bind]; try reflexivity.
  destruct (fc_search sch); cbn [bind]; (destruct (fc_mask sch); cbn [bind]; [rewrite mask_stage_idle by exact Hm; cbn [bind]|]; reflexivity).
Qed.

(* searchable column: only SearchableDataEncryptor acts *)
Theorem fc_write_searchable sch st ks tape data :
  fs_searchable st = true -> is_nil (ms_pattern (fs_mask st)) = true -> fc_search sch = true ->
  fc_write C sch st ks tape data = searchable_encrypt C (fs_id st) ks tape data.
Proof.
  intros Hs Hm Hsch. unfold fc_write, fc_stage_encrypt, fc_stage_search, fc_stage_reenc, fs_only_enc.
  rewrite Hs, Hsch. cbn [negb andb bind].
  destruct (searchable_encrypt C (fs_id st) ks tape data) as [d| |]; cbn [bind]; try reflexivity.
  destruct (fc_mask sch); cbn [bind]; [rewrite mask_stage_idle by exact Hm; cbn [bind]|];
    (unfold reencrypt; rewrite orb_true_r; reflexivity).
Qed.

(* masked column: only masking.DataEncryptor acts; the chain is C11's write chain *)
Theorem fc_write_masked sch st ks tape data :
  fs_searchable st = false -> is_nil (ms_pattern (fs_mask st)) = false -> fc_mask sch = true ->
  fc_write C sch st ks tape data = mask_encryptor C (fs_id st) ks tape (fs_mask st) data
  /\ fc_write C sch st ks tape data = write_chain C (fs_id st) ks tape (fs_mask st) (fs_reenc st) data.
Proof.
  intros Hs Hm Hsch.
  assert (fc_write C sch st ks tape data = mask_encryptor C (fs_id st) ks tape (fs_mask st) data) as E.
  { unfold fc_write, fc_stage_encrypt, fc_stage_search, fc_stage_mask, fc_stage_reenc, fs_only_enc.
    rewrite Hs, Hm, Hsch. cbn [negb andb bind].
    destruct (fc_search sch); cbn [bind];
      (destruct (mask_encryptor C (fs_id st) ks tape (fs_mask st) data) as [d| |]; cbn [bind]; try reflexivity;
       unfold reencrypt; rewrite orb_true_r; reflexivity). }
  split; [exact E|]. rewrite E.
  unfold write_chain, encrypt_handler_standalone, only_encryption. rewrite Hm. cbn [bind].
  destruct (mask_encryptor C (fs_id st) ks tape (fs_mask st) data) as [d| |]; cbn [bind]; try reflexivity.
  unfold reencrypt. cbn [negb]. rewrite orb_true_r. reflexivity.
Qed.

(** * read chain *)
(* a setting without masking pattern: the detector's callbacks are the ones C01_old reasons about *)
Lemma fc_cbs_plain sch st ks :
  is_nil (ms_pattern (fs_mask st)) = true -> fc_cbs C sch (Some st) ks = old_cbs C ks.
Proof.
  intros H. unfold fc_cbs, fc_processor, old_cbs. destruct (fc_mask sch); [|reflexivity].
  destruct st as [a b c [pat plen side dt]]. cbn in H. destruct pat; [|discriminate]. reflexivity.
Qed.

Lemma fc_cbs_none sch ks : fc_cbs C sch None ks = old_cbs C ks.
Proof. unfold fc_cbs, fc_processor, old_cbs. destruct (fc_mask sch); reflexivity. Qed.

(* masked setting: the detector is C11's wrapper chain (without poison detector) *)
Lemma fc_detector_masked sch st ks col :
  fc_mask sch = true ->
  fc_detector C sch (Some st) ks col = on_column_old [wrapper_cb; decrypt_handler (legacy_proc C (Some (fs_mask st)) ks)] col.
Proof. intros H. unfold fc_detector, fc_cbs, fc_processor. rewrite H. reflexivity. Qed.

(* no index in front: hmac.Processor and its verifier leave the column to the detector *)
Theorem fc_read_core_no_index sch st ks col :
  extract_hash col = None -> fc_read_core C sch st ks col = fc_detector C sch st ks col.
Proof.
  intros H. unfold fc_read_core. destruct (fc_search sch); [|reflexivity].
  unfold hp_column, hp_strip. rewrite H.
  destruct (fc_detector C sch st ks col) as [[d ch]| |]; cbn; [rewrite andb_true_r|..]; reflexivity.
Qed.

(* index ++ envelope: the envelope is revealed and the index verified against the PLAINTEXT *)
Theorem fc_read_core_index sch st ks key cont dec ch :
  ks_hmac ks = Some key -> envelope_match cont = true -> fc_detector C sch st ks cont = Ok (dec, ch) ->
  fc_search sch = true ->
  fc_read_core C sch st ks (blind_index key dec ++ cont) = Ok (dec, ch).
Proof.
  intros Hk Hm Hd Hs. unfold fc_read_core. rewrite Hs.
  rewrite (hp_match_delivers_plaintext envelope_match (fc_detector C sch st ks) ks key None cont dec ch Hk Hm Hd).
  reflexivity.
Qed.

(* an index that is NOT the index of the revealed plaintext: the column is delivered as stored, unmarked *)
Theorem fc_read_core_wrong_index sch st ks key h cont dec ch :
  ks_hmac ks = Some key -> extract_hash (h ++ cont) = Some (h, cont) ->
  envelope_match cont = true -> fc_detector C sch st ks cont = Ok (dec, ch) ->
  fc_search sch = true -> h <> blind_index key dec ->
  fc_read_core C sch st ks (h ++ cont) = Ok (h ++ cont, false).
Proof.
  intros Hk He Hm Hd Hs Hne. unfold fc_read_core. rewrite Hs.
  rewrite (hp_mismatch_delivered_as_stored envelope_match (fc_detector C sch st ks) ks key None (h ++ cont) h cont dec ch Hk He Hm Hd Hne).
  reflexivity.
Qed.

(** * serialized containers in the read chain *)
Lemma sc_layout_head inner id : exists r, sc_layout inner id = SC_TAG_SYMBOL :: r.
Proof.
  unfold sc_layout. eexists.
  change sc_tag with (SC_TAG_SYMBOL :: repeat_bytes SC_TAG_SYMBOL (SC_TAG_SIZE - 1)). cbn [app]. reflexivity.
Qed.

Lemma container_no_index inner id : extract_hash (sc_layout inner id) = None.
Proof.
  destruct (sc_layout_head inner id) as [r ->]. unfold extract_hash.
  replace (byte_eqb SC_TAG_SYMBOL HMAC_FUNC_SHA256) with false by reflexivity. reflexivity.
Qed.

Lemma index_of_tag_nil : index_of sc_tag [] = None.
Proof. reflexivity. Qed.

Lemma on_column_container cbs inner id x :
  inner <> [] -> known_envelope id = true -> (N.of_nat (length inner) < 4294967296)%N ->
  run_callbacks cbs (sc_layout inner id) = Ok (Some x) ->
  on_column cbs (sc_layout inner id) = Ok (x, true).
Proof.
  intros Hne Hk Hl Hr.
  pose proof (column_reveal cbs [] inner id [] x Hne Hk Hl) as H.
  rewrite !app_nil_r in H. cbn [app] in H. rewrite H.
  - cbn [scan length]. rewrite index_of_tag_nil. cbn [lift_out app]. rewrite app_nil_r. reflexivity.
  - intros j Hj. cbn in Hj. lia.
  - exact Hr.
Qed.

(* EnvelopeMatcher.Match accepts every serialized container *)
Theorem envelope_match_container inner id :
  inner <> [] -> known_envelope id = true -> (N.of_nat (length inner) < 4294967296)%N ->
  envelope_match (sc_layout inner id) = true.
Proof.
  intros Hne Hk Hl. unfold envelope_match.
  set (f := fun _ : bytes => Ok ([] : bytes)).
  set (v := sc_layout inner id).
  assert (bytes_eqb [] v = false) as Hv.
  { destruct (sc_layout_head inner id) as [r Hr]. unfold v. rewrite Hr. reflexivity. }
  assert (on_column [f] v = Ok ([], true)) as Hc.
  { apply on_column_container; try assumption. cbn [run_callbacks]. unfold f. fold v. rewrite Hv. reflexivity. }
  pose proof (on_column_m_proj [f] v) as P. rewrite Hc in P.
  unfold on_column_old.
  destruct (on_column_m [f] v) as [[[o ch] m]| |]; cbn in P; try discriminate.
  injection P as -> ->. rewrite Hv. cbn [negb]. rewrite orb_true_r. rewrite Hv. reflexivity.
Qed.

Section WithLaws.
Hypothesis HC : Correct C.

(* the detector behind the wrapper reveals a container whose inner envelope the reader's keys open *)
Theorem detector_reveals_container ks id inner x :
  inner <> [] -> known_envelope id = true -> (N.of_nat (length inner) < 4294967296)%N ->
  handler_match id inner = true -> handler_decrypt C id ks inner = Ok x -> length x < length inner ->
  on_column_old (old_cbs C ks) (sc_layout inner id) = Ok (x, true).
Proof.
  intros Hne Hk Hl Hm Hd Hlen.
  change (old_cbs C ks) with (wrapper_cb :: column_cbs C ks).
  apply container_value_behind_wrapper; [discriminate|].
  apply on_column_container; try assumption.
  pose proof (registry_cb_reveals C ks inner id [] x Hne Hk Hl Hm Hd) as H.
  rewrite app_nil_r in H. apply H.
  intros E. apply (f_equal (@length byte)) in E. rewrite sc_layout_length in E. lia.
Qed.

(** ** plain encrypted columns *)
Lemma reenc_match_ab_container inner :
  inner <> [] -> (N.of_nat (length inner) < 4294967296)%N -> handler_match ENVELOPE_ID_ACRABLOCK inner = true ->
  reenc_match (sc_layout inner ENVELOPE_ID_ACRABLOCK) = true.
Proof.
  intros Hne Hl Hm. unfold reenc_match.
  destruct (container_roundtrip inner ENVELOPE_ID_ACRABLOCK [] Hne eq_refl Hl) as [Hd _].
  rewrite app_nil_r in Hd. rewrite Hd.
  unfold handler_match in Hm. replace (byte_eqb ENVELOPE_ID_ACRABLOCK ENVELOPE_ID_ACRASTRUCT) with false in Hm by reflexivity.
  rewrite Hm. apply orb_true_r.
Qed.

Theorem chain_plain_roundtrip_as sch st ks ks' tape x sb before after :
  fs_env_ab st = false -> fs_only_enc st = true ->
  looks_protected ENVELOPE_ID_ACRASTRUCT x = false ->
  x <> [] -> (N.of_nat (length x) < MAXMSG)%N -> good_as_tape tape -> length sb = SEED_LEN ->
  ks_pub ks = Some (pub_of C sb) ->
  ks_privs ks' = before ++ priv_of C sb :: after ->
  (forall v, Forall (fun p => exists e, as_decrypt C v p [] = Err e) before) ->
  exists v, fc_write C sch st ks tape x = Ok v /\
            fc_read_core C sch (Some st) ks' v = Ok (x, true) /\
            (forall ks2 tape2, fc_write C sch st ks2 tape2 v = Ok v).
Proof.
  intros Hab Ho Hlp Hne Hl Ht Hsb Hpub Hpriv Hbef.
  destruct (handler_roundtrip_as C HC ks ks' tape x sb before after Hlp Hne Hl Ht Hsb Hpub Hpriv Hbef)
    as (v & Hw & _ & _ & Hid & inner & Hv & Hine & Hil & Him & Hdec & Hlen).
  destruct (only_enc_parts st Ho) as [_ Hm].
  assert (fs_id st = ENVELOPE_ID_ACRASTRUCT) as Hidv by (unfold fs_id; rewrite Hab; reflexivity).
  exists v. split; [|split].
  - rewrite fc_write_plain by exact Ho. rewrite Hidv, Hw. cbn [bind]. apply reencrypt_unchanged. left. exact Hab.
  - subst v. rewrite fc_read_core_no_index by apply container_no_index.
    unfold fc_detector. rewrite fc_cbs_plain by exact Hm.
    apply detector_reveals_container; try assumption. reflexivity.
  - intros ks2 tape2. rewrite fc_write_plain by exact Ho. rewrite Hid. cbn [bind]. apply reencrypt_unchanged. left. exact Hab.
Qed.

Theorem chain_plain_roundtrip_ab sch st ks ks' tape x key rest before after :
  fs_env_ab st = true -> fs_only_enc st = true ->
  looks_protected ENVELOPE_ID_ACRABLOCK x = false ->
  x <> [] -> (N.of_nat (length x) < MAXMSG)%N -> good_ab_tape tape -> key <> [] ->
  ks_syms ks = key :: rest ->
  ks_syms ks' = before ++ key :: after ->
  (forall ek, Forall (fun k => bytes_eqb (ab_key_id k []) (ab_key_id key []) = false
                               \/ cell_decrypt C k [] ek = None) before) ->
  exists v, fc_write C sch st ks tape x = Ok v /\
            fc_read_core C sch (Some st) ks' v = Ok (x, true) /\
            (forall ks2 tape2, fc_write C sch st ks2 tape2 v = Ok v).
Proof.
  intros Hab Ho Hlp Hne Hl Ht Hk Hsyms Hsyms' Hbef.
  destruct (handler_roundtrip_ab C HC ks ks' tape x key rest before after Hlp Hne Hl Ht Hk Hsyms Hsyms' Hbef)
    as (v & Hw & _ & _ & Hid & inner & Hv & Hine & Hil & Him & Hdec & Hlen).
  destruct (only_enc_parts st Ho) as [_ Hm].
  assert (fs_id st = ENVELOPE_ID_ACRABLOCK) as Hidv by (unfold fs_id; rewrite Hab; reflexivity).
  assert (reenc_match v = true) as Hrm by (subst v; apply reenc_match_ab_container; assumption).
  exists v. split; [|split].
  - rewrite fc_write_plain by exact Ho. rewrite Hidv, Hw. cbn [bind]. apply reencrypt_unchanged. right. right. left. exact Hrm.
  - subst v. rewrite fc_read_core_no_index by apply container_no_index.
    unfold fc_detector. rewrite fc_cbs_plain by exact Hm.
    apply detector_reveals_container; try assumption. reflexivity.
  - intros ks2 tape2. rewrite fc_write_plain by exact Ho. rewrite Hid. cbn [bind]. apply reencrypt_unchanged. right. right. left. exact Hrm.
Qed.

(* already protected input in a plain column: stored as it is (acrastruct column, or acrablock column without
   re-encryption, or an AcraBlock in any form) *)
Theorem chain_plain_passthrough sch st ks tape e :
  fs_only_enc st = true -> looks_protected (fs_id st) e = true ->
  (fs_env_ab st = false \/ reenc_match e = true \/ (fs_reenc st = false /\ looks_protected ENVELOPE_ID_ACRABLOCK e = true)) ->
  fc_write C sch st ks tape e = Ok e.
Proof.
  intros Ho Hlp Hc. rewrite fc_write_plain by exact Ho. rewrite passthrough by exact Hlp. cbn [bind].
  apply reencrypt_unchanged. destruct Hc as [H|[H|H]]; [left; exact H| right; right; left; exact H| right; right; right; exact H].
Qed.

(** ** searchable columns *)
(* the stored index is HMAC(owner key, PLAINTEXT): of the value itself, or of what an already protected value holds *)
Theorem chain_searchable_index_of_plaintext sch st ks tape data s :
  fs_searchable st = true -> is_nil (ms_pattern (fs_mask st)) = true -> fc_search sch = true ->
  fc_write C sch st ks tape data = Ok s ->
  exists key p cont, ks_hmac ks = Some key /\ meaning C ks data = Ok p /\ s = blind_index key p ++ cont.
Proof.
  intros Hs Hm Hsch H. rewrite fc_write_searchable in H by assumption. eapply stored_index. exact H.
Qed.

(* already protected input: <index of the plaintext><same envelope>, and the owner reads the plaintext *)
Theorem chain_searchable_protected sch st ks tape key e x :
  fs_searchable st = true -> is_nil (ms_pattern (fs_mask st)) = true -> fc_search sch = true ->
  ks_hmac ks = Some key -> registry_match e = true -> registry_process C ks e = Ok x ->
  fc_write C sch st ks tape e = Ok (blind_index key x ++ e)
  /\ forall ks' ch, ks_hmac ks' = Some key -> envelope_match e = true ->
       on_column_old (old_cbs C ks') e = Ok (x, ch) ->
       fc_read_core C sch (Some st) ks' (blind_index key x ++ e) = Ok (x, ch).
Proof.
  intros Hs Hm Hsch Hk Hrm Hp. split.
  - rewrite fc_write_searchable by assumption. unfold searchable_encrypt. rewrite Hk, Hrm, Hp. reflexivity.
  - intros ks' ch Hk' Hem Hd. apply fc_read_core_index; try assumption.
    unfold fc_detector. rewrite fc_cbs_plain by exact Hm. exact Hd.
Qed.

(* the same for a serialized container of the client, all premises discharged *)
Theorem chain_searchable_protected_container sch st ks ks' tape key id inner x :
  fs_searchable st = true -> is_nil (ms_pattern (fs_mask st)) = true -> fc_search sch = true ->
  ks_hmac ks = Some key -> ks_hmac ks' = Some key ->
  inner <> [] -> known_envelope id = true -> (N.of_nat (length inner) < 4294967296)%N ->
  handler_match id inner = true -> length x < length inner ->
  handler_decrypt C id ks inner = Ok x -> handler_decrypt C id ks' inner = Ok x ->
  fc_write C sch st ks tape (sc_layout inner id) = Ok (blind_index key x ++ sc_layout inner id)
  /\ fc_read_core C sch (Some st) ks' (blind_index key x ++ sc_layout inner id) = Ok (x, true).
Proof.
  intros Hs Hm Hsch Hk Hk' Hne Hkn Hl Hhm Hlen Hd Hd'.
  assert (is_envelope id inner (sc_layout inner id)) as He by (repeat split; assumption).
  pose proof (envelope_matches id inner (sc_layout inner id) [] He) as Hrm. rewrite app_nil_r in Hrm.
  pose proof (envelope_process C id inner (sc_layout inner id) [] ks He) as Hp. rewrite app_nil_r, Hd in Hp.
  destruct (chain_searchable_protected sch st ks tape key (sc_layout inner id) x Hs Hm Hsch Hk Hrm Hp) as [Hw Hr].
  split; [exact Hw|].
  apply Hr; [exact Hk'| apply envelope_match_container; assumption| apply detector_reveals_container; assumption].
Qed.

(* fresh plaintext *)
Theorem chain_searchable_roundtrip_as sch st ks ks' tape key x sb before after :
  fs_env_ab st = false -> fs_searchable st = true -> is_nil (ms_pattern (fs_mask st)) = true -> fc_search sch = true ->
  ks_hmac ks = Some key -> ks_hmac ks' = Some key ->
  looks_protected ENVELOPE_ID_ACRASTRUCT x = false ->
  x <> [] -> (N.of_nat (length x) < MAXMSG)%N -> good_as_tape tape -> length sb = SEED_LEN ->
  ks_pub ks = Some (pub_of C sb) ->
  ks_privs ks' = before ++ priv_of C sb :: after ->
  (forall v, Forall (fun p => exists e, as_decrypt C v p [] = Err e) before) ->
  exists v, fc_write C sch st ks tape x = Ok (blind_index key x ++ v) /\
            fc_read_core C sch (Some st) ks' (blind_index key x ++ v) = Ok (x, true).
Proof.
  intros Hab Hs Hm Hsch Hk Hk' Hlp Hne Hl Ht Hsb Hpub Hpriv Hbef.
  destruct (handler_roundtrip_as C HC ks ks' tape x sb before after Hlp Hne Hl Ht Hsb Hpub Hpriv Hbef)
    as (v & Hw & _ & _ & _ & inner & Hv & Hine & Hil & Him & Hdec & Hlen).
  assert (fs_id st = ENVELOPE_ID_ACRASTRUCT) as Hidv by (unfold fs_id; rewrite Hab; reflexivity).
  assert (registry_match x = false) as Hrm.
  { unfold looks_protected in Hlp. apply orb_false_iff in Hlp. tauto. }
  exists v. split.
  - rewrite fc_write_searchable by assumption. unfold searchable_encrypt. rewrite Hk, Hrm, Hidv, Hw. reflexivity.
  - subst v. apply fc_read_core_index; try assumption.
    + apply envelope_match_container; [assumption|reflexivity|assumption].
    + unfold fc_detector. rewrite fc_cbs_plain by exact Hm. apply detector_reveals_container; try assumption. reflexivity.
Qed.

Theorem chain_searchable_roundtrip_ab sch st ks ks' tape hkey x key rest before after :
  fs_env_ab st = true -> fs_searchable st = true -> is_nil (ms_pattern (fs_mask st)) = true -> fc_search sch = true ->
  ks_hmac ks = Some hkey -> ks_hmac ks' = Some hkey ->
  looks_protected ENVELOPE_ID_ACRABLOCK x = false ->
  x <> [] -> (N.of_nat (length x) < MAXMSG)%N -> good_ab_tape tape -> key <> [] ->
  ks_syms ks = key :: rest ->
  ks_syms ks' = before ++ key :: after ->
  (forall ek, Forall (fun k => bytes_eqb (ab_key_id k []) (ab_key_id key []) = false
                               \/ cell_decrypt C k [] ek = None) before) ->
  exists v, fc_write C sch st ks tape x = Ok (blind_index hkey x ++ v) /\
            fc_read_core C sch (Some st) ks' (blind_index hkey x ++ v) = Ok (x, true).
Proof.
  intros Hab Hs Hm Hsch Hk Hk' Hlp Hne Hl Ht Hkne Hsyms Hsyms' Hbef.
  destruct (handler_roundtrip_ab C HC ks ks' tape x key rest before after Hlp Hne Hl Ht Hkne Hsyms Hsyms' Hbef)
    as (v & Hw & _ & _ & _ & inner & Hv & Hine & Hil & Him & Hdec & Hlen).
  assert (fs_id st = ENVELOPE_ID_ACRABLOCK) as Hidv by (unfold fs_id; rewrite Hab; reflexivity).
  assert (registry_match x = false) as Hrm.
  { unfold looks_protected in Hlp. apply orb_false_iff in Hlp. tauto. }
  exists v. split.
  - rewrite fc_write_searchable by assumption. unfold searchable_encrypt. rewrite Hk, Hrm, Hidv, Hw. reflexivity.
  - subst v. apply fc_read_core_index; try assumption.
    + apply envelope_match_container; [assumption|reflexivity|assumption].
    + unfold fc_detector. rewrite fc_cbs_plain by exact Hm. apply detector_reveals_container; try assumption. reflexivity.
Qed.

End WithLaws.

(* reduction: an index taken over something else than the plaintext reveals the plaintext only with an HMAC
   collision (no injectivity is assumed) *)
Theorem chain_index_over_other_bytes sch st ks key m cont dec ch out flag :
  ks_hmac ks = Some key -> fc_search sch = true ->
  envelope_match cont = true -> fc_detector C sch st ks cont = Ok (dec, ch) ->
  fc_read_core C sch st ks (blind_index key m ++ cont) = Ok (out, flag) ->
  (out = dec /\ flag = ch /\ hmac_sha256 key m = hmac_sha256 key dec)
  \/ (out = blind_index key m ++ cont /\ flag = false).
Proof.
  intros Hk Hs Hm Hd H. unfold fc_read_core in H. rewrite Hs in H.
  destruct (hp_column envelope_match (fc_detector C sch st ks) ks None (blind_index key m ++ cont)) as [st' r] eqn:E.
  cbn [snd] in H. subst r.
  assert (He : extract_hash (blind_index key m ++ cont) = Some (blind_index key m, cont)).
  { unfold extract_hash. unfold blind_index at 1, generate_hmac at 1. cbn [app].
    rewrite byte_eqb_refl. cbn [negb].
    change (HMAC_FUNC_SHA256 :: hmac_sha256 key m ++ cont) with (blind_index key m ++ cont).
    destruct (Nat.ltb (length (blind_index key m ++ cont)) HMAC_HASH_SIZE) eqn:El.
    - apply Nat.ltb_lt in El. rewrite app_length, blind_index_length in El. lia.
    - rewrite firstn_app_len', skipn_app_len' by (symmetry; apply blind_index_length). reflexivity. }
  destruct (hp_plaintext_only_if_index_matches envelope_match (fc_detector C sch st ks) ks key None
              (blind_index key m ++ cont) st' (blind_index key m) cont dec ch out flag Hk He Hm Hd E)
    as [(H1 & H2 & H3)|(H1 & H2 & _)].
  - left. repeat split; try assumption. apply blind_index_eq. exact H3.
  - right. split; assumption.
Qed.

(** ** masked columns: C11's owner theorem through the complete chain.  The premise [extract_hash .. = None]
    (the stored value does not start like <index>) is needed only when the schema has a searchable column: see
    C01_chain_masked_window_taken_for_index_refuted *)
Theorem chain_masked_roundtrip sch st ks tape ks' x v inner :
  fs_searchable st = false -> fc_mask sch = true ->
  validate_masking_params (fs_mask st) = true ->
  protects C (fs_id st) ks tape ks' (mask_hidden (fs_mask st) x) v inner ->
  window_clear (fs_mask st) (mask_window (fs_mask st) x) v ->
  (fc_search sch = true -> extract_hash (mask_join (fs_mask st) (mask_window (fs_mask st) x) v) = None) ->
  fc_write C sch st ks tape x = Ok (mask_join (fs_mask st) (mask_window (fs_mask st) x) v) /\
  fc_read_core C sch (Some st) ks' (mask_join (fs_mask st) (mask_window (fs_mask st) x) v) = Ok (x, true).
Proof.
  intros Hs Hsch Hv Hp Hw Hni.
  destruct (mask_owner_gets_original C (fs_mask st) (fs_id st) ks tape ks' x v inner Hv Hp Hw) as [Hwr Hrd].
  assert (is_nil (ms_pattern (fs_mask st)) = false) as Hm.
  { unfold validate_masking_params in Hv. destruct (is_nil (ms_pattern (fs_mask st))); [discriminate|reflexivity]. }
  split.
  - destruct (fc_write_masked sch st ks tape x Hs Hm Hsch) as [E _]. rewrite E. exact Hwr.
  - assert (fc_detector C sch (Some st) ks' (mask_join (fs_mask st) (mask_window (fs_mask st) x) v) = Ok (x, true)) as Hd.
    { rewrite fc_detector_masked by exact Hsch.
      apply container_value_behind_wrapper; [discriminate|]. exact Hrd. }
    unfold fc_read_core. destruct (fc_search sch) eqn:Es; [|exact Hd].
    fold (fc_read_core C sch (Some st) ks' (mask_join (fs_mask st) (mask_window (fs_mask st) x) v)).
    assert (fc_read_core C sch (Some st) ks' (mask_join (fs_mask st) (mask_window (fs_mask st) x) v)
            = fc_detector C sch (Some st) ks' (mask_join (fs_mask st) (mask_window (fs_mask st) x) v)) as E
      by (apply fc_read_core_no_index; apply Hni; reflexivity).
    unfold fc_read_core in E. rewrite Es in E. rewrite E. exact Hd.
Qed.

End FullChainProofs.
