(** C15 over histories: the poison detector is a long-lived object, detection must not depend on what it saw before.
    Model/PoisonHistory.v threads the detector's state through a history of values (each value carries the keystore's
    poison keys AT THAT TIME); here: the state never changes, the trace of the k-th value is the single-value trace of
    Model/Poison.v, hence every detection / no-false-alarm theorem of Proofs/Poison.v holds at every position of every
    history under every keystore history.  [detector_is_stateless] ties the "state = configuration only" reading to the
    struct declarations and method bodies of the sources (Gen/PoisonDetectorState.v). *)
From Coq Require Import String.
From Acra Require Import Lib.Bytes Lib.Outcome Lib.Sha256 Crypto.Interface Gen.Consts Gen.MaskConsts Gen.PoisonDetectorState
  Model.Envelope Model.Poison Model.PoisonHistory
  Proofs.Envelope Proofs.EnvelopeHandlers Proofs.Scanner Proofs.Containers Proofs.Poison.
From Coq Require Import ZifyN ZifyNat ZifyBool.

(** * the sources declare no state *)
(** [only_setters_write setters methods]: every method outside [setters] writes no field of its receiver *)
Definition only_setters_write (setters : list string) (methods : list (string * bool * list string)) : bool :=
  forallb (fun m => existsb (String.eqb (fst (fst m))) setters || is_nil (snd m)) methods.

(** what Model/PoisonHistory.v accounts for, object by object:
    - PoisonRecordDetector {processor; keyStore; callbacks}: references to the registry handler, to the keystore (whose
      contents are the per-step input [pk]) and to the callback storage ([ds_has_cb], [ds_cb_err]); only the setter
      SetPoisonRecordCallbacks (called before the first value) writes a field; the file declares no package variable;
    - EnvelopeDetector {callbacks}: the callback list, written by AddCallback while the chain is built ([proxy_chain],
      [translator_chain]); OnColumn / OnCryptoEnvelope write nothing;
    - DecryptHandler {processor; keyStore}, RegistryHandler {keystore}: references; no method writes;
    - TranslatorService {data; handler; poisonDetector}: references set by NewTranslatorService; no method writes. *)
Local Open Scope string_scope.
Definition detector_is_stateless_statement : Prop :=
  poison_detector_fields = [("processor", "base.DataProcessor"); ("keyStore", "keystore.RecordProcessorKeyStore");
                            ("callbacks", "base.PoisonRecordCallbackStorage")]
  /\ only_setters_write ["SetPoisonRecordCallbacks"] poison_detector_methods = true
  /\ poison_detector_file_vars = []
  /\ envelope_detector_fields = [("callbacks", "[]EnvelopeCallbackHandler")]
  /\ only_setters_write ["AddCallback"] envelope_detector_methods = true
  /\ envelope_detector_file_vars = []
  /\ decrypt_handler_fields = [("processor", "base.DataProcessor"); ("keyStore", "keystore.DataEncryptorKeyStore")]
  /\ only_setters_write [] decrypt_handler_methods = true
  /\ decrypt_handler_file_vars = []
  /\ registry_handler_fields = [("keystore", "keystore.DataEncryptorKeyStore")]
  /\ only_setters_write [] registry_handler_methods = true
  /\ translator_service_fields = [("data", "*TranslatorData"); ("handler", "crypto.RegistryHandler");
                                  ("poisonDetector", "*crypto.EnvelopeDetector")]
  /\ only_setters_write [] translator_service_methods = true.
Local Close Scope string_scope.

Theorem detector_is_stateless : detector_is_stateless_statement.
Proof. unfold detector_is_stateless_statement. repeat split; vm_compute; reflexivity. Qed.

(** the obligation is not vacuous: a method that writes a field, outside the setters, is rejected *)
Example only_setters_write_rejects :
  only_setters_write ["SetPoisonRecordCallbacks"%string]
    [("OnCryptoEnvelope"%string, false, ["noPoisonKeys"%string]); ("SetPoisonRecordCallbacks"%string, true, ["callbacks"%string])] = false.
Proof. vm_compute. reflexivity. Qed.

(** * general: machines *)
Lemma run_machine_app {S} (M : machine S) : forall h1 s h2,
  run_machine M s (h1 ++ h2) = run_machine M s h1 ++ run_machine M (state_after M s h1) h2.
Proof.
  induction h1 as [|v t IH]; intros s h2; [reflexivity|].
  cbn [app run_machine state_after]. destruct (m_step M s v) as [s' o]. cbn [fst]. rewrite IH. reflexivity.
Qed.

Lemma count_callback_events_app a b :
  count_callback_events (a ++ b) = count_callback_events a + count_callback_events b.
Proof.
  induction a as [|e a IH]; [reflexivity|]. cbn [app count_callback_events]. destruct e; rewrite IH; reflexivity.
Qed.

Section History.
Variable C : crypto.

(** * the detector's state never changes *)
Lemma hstep_state s v : fst (hstep C s v) = s.
Proof.
  destruct v as [pk c|pk ks col|id ks pk data]; cbn [hstep].
  - destruct (poison_detector C (ds_has_cb s) (ds_cb_err s) pk c). reflexivity.
  - destruct (on_column_ev _ col). reflexivity.
  - destruct (tr_decrypt_ev C id ks (ds_has_cb s) (ds_cb_err s) pk data). reflexivity.
Qed.

Theorem state_after_history s h : state_after (detector_machine C) s h = s.
Proof.
  induction h as [|v t IH]; [reflexivity|]. cbn [state_after detector_machine m_step]. rewrite hstep_state. exact IH.
Qed.

(** history independence, full strength: after ANY prefix (values and keystore states) the object answers the next value
    - events, returned bytes, error - exactly as it answers it first *)
Theorem detector_history_independent s : history_independent (detector_machine C) s.
Proof. intros pre v. rewrite state_after_history. reflexivity. Qed.

(** * the k-th value of a history has the trace of a single value *)
Lemma hstep_trace s v : trace_of (snd (hstep C s v)) = value_trace C (ds_has_cb s) (ds_cb_err s) v.
Proof.
  destruct v as [pk c|pk ks col|id ks pk data]; cbn [hstep value_trace].
  - unfold finish. destruct (poison_detector C (ds_has_cb s) (ds_cb_err s) pk c) as [ev r].
    unfold trace_of. cbn [fst snd hfinal]. destruct r; reflexivity.
  - unfold column_trace, finish. destruct (on_column_ev _ col) as [ev r].
    unfold trace_of. cbn [fst snd hfinal]. destruct r as [[x b]| |]; reflexivity.
  - unfold translator_trace, finish. destruct (tr_decrypt_ev C id ks (ds_has_cb s) (ds_cb_err s) pk data) as [ev r].
    unfold trace_of. cbn [fst snd hfinal]. destruct r; reflexivity.
Qed.

Theorem history_traces_pointwise s h :
  history_traces C s h = map (value_trace C (ds_has_cb s) (ds_cb_err s)) h.
Proof.
  unfold history_traces, run_history. induction h as [|v t IH]; [reflexivity|].
  cbn [run_machine detector_machine m_step map].
  pose proof (hstep_state s v) as Hs. pose proof (hstep_trace s v) as Ht.
  destruct (hstep C s v) as [s' o]. cbn [fst snd] in Hs, Ht. subst s'. cbn [map]. rewrite Ht. f_equal. exact IH.
Qed.

Theorem history_kth s h k v :
  nth_error h k = Some v ->
  nth_error (history_traces C s h) k = Some (value_trace C (ds_has_cb s) (ds_cb_err s) v).
Proof. intros H. rewrite history_traces_pointwise. apply map_nth_error. exact H. Qed.

(** a history can be cut anywhere: what follows the cut is unaffected by what precedes it *)
Theorem history_traces_app s h1 h2 :
  history_traces C s (h1 ++ h2) = history_traces C s h1 ++ history_traces C s h2.
Proof. rewrite !history_traces_pointwise. apply map_app. Qed.

(** callback runs of a whole history = the sum over its values of the single-value counts *)
Theorem history_callback_count s h :
  count_callback_events (concat (history_traces C s h))
  = list_sum (map (fun v => count_callback_events (value_trace C (ds_has_cb s) (ds_cb_err s) v)) h).
Proof.
  rewrite history_traces_pointwise. induction h as [|v t IH]; [reflexivity|].
  cbn [map concat list_sum]. rewrite count_callback_events_app, IH. reflexivity.
Qed.

(** * detection at every position, under the keystore of that moment *)
Theorem history_detects_column s h k pk ks (p v sfx : bytes) id inner d :
  ds_has_cb s = true ->
  nth_error h k = Some (HVColumn pk ks (p ++ v ++ sfx)) ->
  is_envelope id inner v -> poison_opens C pk (v ++ sfx) = Ok d -> quiet p (v ++ sfx) ->
  exists n fin, nth_error (history_traces C s h) k = Some (repeat Callback (S n) ++ [fin]) /\ is_final fin.
Proof.
  intros Hcb Hk He Hop Hq.
  destruct (poison_detected_before_delivery C (ds_cb_err s) pk ks p v sfx id inner d He Hop Hq) as (n & fin & Htr & Hfin).
  exists n, fin. split; [|exact Hfin].
  rewrite (history_kth s h k _ Hk). cbn [value_trace]. rewrite Hcb, Htr. reflexivity.
Qed.

Theorem history_detects_envelope s h k pk c d :
  ds_has_cb s = true ->
  nth_error h k = Some (HVEnvelope pk c) -> poison_opens C pk c = Ok d ->
  nth_error (history_traces C s h) k = Some [Callback; if ds_cb_err s then Abort else Deliver c].
Proof.
  intros Hcb Hk Hop. rewrite (history_kth s h k _ Hk). cbn [value_trace]. rewrite Hcb.
  rewrite (detector_fires C (ds_cb_err s) pk c d Hop). unfold finish. cbn [fst snd app].
  destruct (ds_cb_err s); reflexivity.
Qed.

Theorem history_detects_translator s h k id ks pk (p v sfx : bytes) eid inner d e :
  ds_has_cb s = true ->
  nth_error h k = Some (HVTranslate id ks pk (p ++ v ++ sfx)) ->
  decrypt_with_handler C id ks (p ++ v ++ sfx) = Err e ->
  is_envelope eid inner v -> poison_opens C pk (v ++ sfx) = Ok d -> quiet p (v ++ sfx) ->
  exists evs, nth_error (history_traces C s h) k = Some (Callback :: evs ++ [Abort]).
Proof.
  intros Hcb Hk Hd He Hop Hq.
  destruct (translator_detects C id ks (ds_cb_err s) pk p v sfx eid inner d e Hd He Hop Hq) as (evs & r & Htr & Hr).
  exists evs. rewrite (history_kth s h k _ Hk). cbn [value_trace]. rewrite Hcb.
  unfold translator_trace, finish. rewrite Htr. cbn [fst snd app].
  destruct r as [x| |]; [exfalso; exact (Hr x eq_refl)| |]; reflexivity.
Qed.

(** * no false alarm at any position: a callback run for the k-th value exhibits bytes of THAT value which a poison
    key of the keystore at THAT time opens - whatever the object inspected before *)
Lemma in_callback_finish {A} (deliver : A -> bytes) (r : list event * res A) :
  In Callback (finish deliver r) -> In Callback (fst r).
Proof.
  unfold finish. intros H. apply in_app_or in H. destruct H as [H|H]; [exact H|].
  destruct H as [H|[]]. destruct (snd r); discriminate.
Qed.

Lemma value_alarm_has_witness has cb_err v :
  In Callback (value_trace C has cb_err v) -> value_has_poison C v.
Proof.
  destruct v as [pk c|pk ks col|id ks pk data]; cbn [value_trace value_has_poison]; intros H.
  - apply in_callback_finish in H. unfold poison_detector in H.
    destruct (negb has); [destruct H|].
    destruct (poison_opens C pk c) as [d| |]; [exists d; reflexivity|destruct H|destruct H].
  - unfold column_trace in H. apply in_callback_finish in H. destruct has.
    + rewrite proxy_chain_shape in H. exact (callback_has_witness C true cb_err pk _ col H).
    + unfold proxy_chain in H. cbn [app] in H.
      rewrite (on_column_lift [decrypt_handler (registry_process C ks)]) in H. destruct H.
  - unfold translator_trace in H. apply in_callback_finish in H.
    exact (translator_callback_has_witness C id ks has cb_err pk data H).
Qed.

Theorem history_alarm_has_witness s h k v t :
  nth_error h k = Some v -> nth_error (history_traces C s h) k = Some t -> In Callback t ->
  value_has_poison C v.
Proof.
  intros Hk Ht Hin. rewrite (history_kth s h k v Hk) in Ht. injection Ht as <-.
  exact (value_alarm_has_witness _ _ v Hin).
Qed.

Theorem history_no_false_alarm s h k v t :
  nth_error h k = Some v -> nth_error (history_traces C s h) k = Some t ->
  ~ value_has_poison C v -> ~ In Callback t.
Proof. intros Hk Ht Hno Hin. exact (Hno (history_alarm_has_witness s h k v t Hk Ht Hin)). Qed.

(** every trace of a history: callback runs, then exactly one final event *)
Theorem history_trace_shape s h k t :
  nth_error (history_traces C s h) k = Some t ->
  exists ev fin, t = ev ++ [fin] /\ is_final fin.
Proof.
  unfold history_traces. intros H. apply nth_error_In in H. apply in_map_iff in H. destruct H as (o & <- & _).
  exists (fst o), (hfinal (snd o)). split; [reflexivity|].
  destruct (snd o) as [[x| |]|[[x b]| |]|[x| |]]; exact I.
Qed.

End History.
