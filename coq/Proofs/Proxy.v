(** C04 proofs: the proxy's write path forwards protected forms for configured columns and leaves the rest
    alone; the read path returns originals to the owner and stored forms to everybody else.
    Composition of the C01 theorems (Proofs/EnvelopeHandlers.v, Proofs/Scanner.v). *)
From Acra Require Import Lib.Bytes Lib.Outcome Lib.Sha256 Crypto.Interface Gen.Consts Model.Envelope
  Model.Proxy Proofs.Envelope Proofs.EnvelopeHandlers Proofs.Scanner.
From Coq Require Import ZifyN ZifyNat ZifyBool.

Lemma skipn_add {A} : forall a b (l : list A), skipn (a + b) l = skipn b (skipn a l).
Proof.
  induction a as [|a IH]; intros b l; [reflexivity|].
  destruct l as [|x l]; cbn [Nat.add skipn]; [now destruct b| apply IH].
Qed.

(** * write path, value lists: pointwise characterisation *)
Section Write.
Variable C : crypto.
Variable cfg : config.
Variable kr : keyring.
Variable conn : bytes.

Lemma protect_list_pointwise : forall (vals : list bytes) (ccs : list colcfg) (tapes : list (list bytes)) (out : list bytes),
  protect_list C kr conn ccs tapes vals = Ok out ->
  length out = length vals /\
  forall j, j < length vals ->
    protect_value C kr conn (nth j ccs CPlain) (nth j tapes []) (nth j vals []) = Ok (nth j out []).
Proof.
  induction vals as [|v vals IH]; intros ccs tapes out H; cbn [protect_list] in H.
  - inversion H. split; [reflexivity|]. intros j Hj. cbn in Hj. lia.
  - destruct (protect_value C kr conn (hd CPlain ccs) (hd [] tapes) v) as [v'| |] eqn:Ev; cbn [bind] in H; try discriminate.
    destruct (protect_list C kr conn (tl ccs) (tl tapes) vals) as [rest| |] eqn:Er; cbn [bind] in H; try discriminate.
    inversion H; subst out. destruct (IH _ _ _ Er) as [Hl Hp].
    split; [cbn [length]; lia|]. intros j Hj. destruct j as [|j].
    + destruct ccs, tapes; exact Ev.
    + cbn [length] in Hj. specialize (Hp j ltac:(lia)).
      destruct ccs, tapes; cbn [nth tl] in *; try exact Hp;
      destruct j; exact Hp.
Qed.

(** a value of a column the configuration does not cover is forwarded identical *)
Lemma protect_value_plain tape v : protect_value C kr conn CPlain tape v = Ok v.
Proof. reflexivity. Qed.

(** statements the configuration does not cover are forwarded identical *)
Theorem write_select_other_unchanged st tapes :
  (exists i t w, st = Select i t w) \/ (exists x, st = Other x) ->
  proxy_write C cfg kr conn st tapes = Ok st.
Proof. intros [(i & t & w & ->)|(x & ->)]; reflexivity. Qed.

Theorem write_unconfigured_insert_unchanged tbl cols rows ret tapes :
  assoc tbl cfg = None ->
  proxy_write C cfg kr conn (Insert tbl cols rows ret) tapes = Ok (Insert tbl cols rows ret).
Proof. intros H. cbn [proxy_write]. unfold insert_columns. rewrite H. reflexivity. Qed.

Lemma protect_list_all_plain : forall (vals : list bytes) ccs tapes,
  (forall j, nth j ccs CPlain = CPlain) ->
  protect_list C kr conn ccs tapes vals = Ok vals.
Proof.
  induction vals as [|v vals IH]; intros ccs tapes H; cbn [protect_list]; [reflexivity|].
  assert (hd CPlain ccs = CPlain) as -> by (specialize (H 0); destruct ccs; exact H).
  cbn [protect_value bind]. rewrite IH; [reflexivity|].
  intros j. specialize (H (S j)). destruct ccs; [destruct j; reflexivity| exact H].
Qed.

Lemma combine_fst_snd {A B} (l : list (A * B)) : combine (map fst l) (map snd l) = l.
Proof. induction l as [|[a b] l IH]; cbn; [reflexivity| now rewrite IH]. Qed.

Theorem write_unconfigured_update_unchanged tbl sets whr ret tapes :
  assoc tbl cfg = None ->
  proxy_write C cfg kr conn (Update tbl sets whr ret) tapes = Ok (Update tbl sets whr ret).
Proof.
  intros H. cbn [proxy_write]. rewrite protect_list_all_plain.
  - cbn [bind]. now rewrite combine_fst_snd.
  - intros j. revert j. induction sets as [|s sets IH]; intros [|j]; cbn [map nth]; try reflexivity.
    + unfold col_setting. now rewrite H.
    + apply IH.
Qed.

(** row level (encryptInsertQuery, fixed): every tuple not longer than the column list is protected position
    by position; a longer tuple (rejected by PostgreSQL) is forwarded as it is *)
Lemma protect_rows_pointwise : forall (rows : list (list bytes)) ccs tapes out,
  protect_rows C kr conn ccs tapes rows = Ok out ->
  length out = length rows /\
  forall i, i < length rows ->
    let r := nth i rows [] in
    let off := length (concat (firstn i rows)) in
    if Nat.ltb (length ccs) (length r) then nth i out [] = r
    else protect_list C kr conn ccs (firstn (length r) (skipn off tapes)) r = Ok (nth i out []).
Proof.
  induction rows as [|r rows IH]; intros ccs tapes out H; cbn [protect_rows] in H.
  - inversion H. split; [reflexivity|]. intros i Hi. cbn in Hi. lia.
  - destruct (if Nat.ltb (length ccs) (length r) then Ok r else protect_list C kr conn ccs (firstn (length r) tapes) r)
      as [r'| |] eqn:Er; cbn [bind] in H; try discriminate.
    destruct (protect_rows C kr conn ccs (skipn (length r) tapes) rows) as [rest| |] eqn:Es; cbn [bind] in H; try discriminate.
    inversion H; subst out. destruct (IH _ _ _ Es) as [Hl Hp].
    split; [cbn [length]; lia|]. intros i Hi. destruct i as [|i].
    + cbn [nth firstn concat length skipn]. destruct (Nat.ltb (length ccs) (length r)); [now inversion Er| exact Er].
    + cbn [length] in Hi. specialize (Hp i ltac:(lia)). cbn [nth firstn concat].
      rewrite app_length, skipn_add. exact Hp.
Qed.
End Write.

(** * value level: what a configured column receives, and what comes back *)
Section Values.
Variable C : crypto.
Hypothesis HC : Correct C.
Variable kr : keyring.

Lemma scan_nil_rest cbs : scan 1 cbs [] [] false = Ok ([], false).
Proof. reflexivity. Qed.

Lemma quiet_nil t : quiet [] t.
Proof. intros j Hj. cbn in Hj. lia. Qed.

(** the stored form of a protected value: a serialized container for the column's envelope, different from
    the client's value, which the owner's read path turns back into the client's value *)
Definition stored_form (env : byte) (v x : bytes) : Prop :=
  exists inner, v = sc_layout inner env /\ inner <> [] /\ handler_match env inner = true /\ length x < length inner.

Lemma stored_form_differs env v x : stored_form env v x -> v <> x.
Proof.
  intros (inner & -> & _ & _ & Hl) E. apply (f_equal (@length byte)) in E.
  rewrite sc_layout_length in E. lia.
Qed.

Theorem protect_reveal_ab conn owner reader tape x key rest before after :
  looks_protected ENVELOPE_ID_ACRABLOCK x = false ->
  x <> [] -> (N.of_nat (length x) < MAXMSG)%N -> good_ab_tape tape -> key <> [] ->
  ks_syms (keys_of kr (enc_client conn owner)) = key :: rest ->
  ks_syms (keys_of kr reader) = before ++ key :: after ->
  (forall ek, Forall (fun k => bytes_eqb (ab_key_id k []) (ab_key_id key []) = false
                               \/ cell_decrypt C k [] ek = None) before) ->
  exists v, protect_value C kr conn (CProt ENVELOPE_ID_ACRABLOCK owner) tape x = Ok v /\
            stored_form ENVELOPE_ID_ACRABLOCK v x /\
            reveal_cell C kr reader (Some v) = Ok (Some x).
Proof.
  intros Hnp Hx Hlen Htape Hkey Hsyms Hsyms' Hbefore.
  destruct (handler_roundtrip_ab C HC _ _ tape x key rest before after Hnp Hx Hlen Htape Hkey Hsyms Hsyms' Hbefore)
    as (v & Henc & _ & _ & _ & inner & Ev & Hne & Hsm & Hm & Hd & Hl).
  exists v. split; [|split].
  - cbn [protect_value]. rewrite (is_nil_false x Hx). exact Henc.
  - exists inner. auto.
  - subst v. cbn [reveal_cell].
    pose proof (column_reveal_inner C (keys_of kr reader) ENVELOPE_ID_ACRABLOCK inner x [] [] Hne known_ab Hsm Hm Hd Hl
                  (quiet_nil _)) as Hr.
    cbn [app] in Hr. rewrite app_nil_r in Hr. unfold reader_cbs. try unfold column_cbs in Hr. rewrite Hr.
    cbn [length]. rewrite scan_nil_rest. cbn [lift_out bind fst orb]. rewrite app_nil_r. reflexivity.
Qed.

Theorem protect_reveal_as conn owner reader tape x sb before after :
  looks_protected ENVELOPE_ID_ACRASTRUCT x = false ->
  x <> [] -> (N.of_nat (length x) < MAXMSG)%N -> good_as_tape tape -> length sb = SEED_LEN ->
  ks_pub (keys_of kr (enc_client conn owner)) = Some (pub_of C sb) ->
  ks_privs (keys_of kr reader) = before ++ priv_of C sb :: after ->
  (forall v, Forall (fun p => exists e, as_decrypt C v p [] = Err e) before) ->
  exists v, protect_value C kr conn (CProt ENVELOPE_ID_ACRASTRUCT owner) tape x = Ok v /\
            stored_form ENVELOPE_ID_ACRASTRUCT v x /\
            reveal_cell C kr reader (Some v) = Ok (Some x).
Proof.
  intros Hnp Hx Hlen Htape Hsb Hpub Hprivs Hbefore.
  destruct (handler_roundtrip_as C HC _ _ tape x sb before after Hnp Hx Hlen Htape Hsb Hpub Hprivs Hbefore)
    as (v & Henc & _ & _ & _ & inner & Ev & Hne & Hsm & Hm & Hd & Hl).
  exists v. split; [|split].
  - cbn [protect_value]. rewrite (is_nil_false x Hx). exact Henc.
  - exists inner. auto.
  - subst v. cbn [reveal_cell].
    pose proof (column_reveal_inner C (keys_of kr reader) ENVELOPE_ID_ACRASTRUCT inner x [] [] Hne known_as Hsm Hm Hd Hl
                  (quiet_nil _)) as Hr.
    cbn [app] in Hr. rewrite app_nil_r in Hr. unfold reader_cbs. try unfold column_cbs in Hr. rewrite Hr.
    cbn [length]. rewrite scan_nil_rest. cbn [lift_out bind fst orb]. rewrite app_nil_r. reflexivity.
Qed.

(** result cells: NULL stays NULL; a cell in which no container tag occurs comes back identical for every
    reader; a cell none of whose candidate containers can be opened by the reader comes back identical *)
Theorem reveal_null reader : reveal_cell C kr reader None = Ok None.
Proof. reflexivity. Qed.

Theorem reveal_tag_free reader b :
  index_of sc_tag b = None -> reveal_cell C kr reader (Some b) = Ok (Some b).
Proof.
  intros H. cbn [reveal_cell]. unfold on_column.
  destruct (Nat.ltb (length b) SC_MIN_SIZE || is_nil (reader_cbs C (keys_of kr reader))); [reflexivity|].
  cbn [scan]. rewrite H. reflexivity.
Qed.

Theorem reveal_not_openable reader b :
  (forall c, run_callbacks (reader_cbs C (keys_of kr reader)) c = Ok None) ->
  reveal_cell C kr reader (Some b) = Ok (Some b).
Proof. intros H. cbn [reveal_cell]. rewrite on_column_passthrough by exact H. reflexivity. Qed.

(** a reader without any key (or whose keys open nothing) satisfies the premise above *)
Lemma no_keys_open_nothing c : run_callbacks (reader_cbs C no_keys) c = Ok None.
Proof.
  cbn [run_callbacks reader_cbs]. unfold decrypt_handler.
  assert (exists e, registry_process C no_keys c = Err e) as [e He].
  { unfold registry_process. destruct (envelope_kind c); [| |eexists; reflexivity];
    unfold decrypt_with_handler; (destruct (sc_deserialize c) as [[internal i]| |] eqn:Ed;
      [|eexists; reflexivity| exfalso]).
    1,3: cbn [bind]; destruct (negb (handler_match id internal)); [eexists; reflexivity|];
         unfold handler_decrypt, no_keys; cbn [ks_privs ks_syms is_nil];
         destruct (byte_eqb id ENVELOPE_ID_ACRASTRUCT);
         [destruct (negb (as_validate internal)); eexists; reflexivity|
          destruct (ab_extract internal) as [[n blk]| |] eqn:Ea; try (eexists; reflexivity);
          exfalso; eapply ab_extract_total; exact Ea].
    all: unfold sc_deserialize in Ed; destruct (envelope_kind c); try discriminate;
         destruct (sc_internal_length c); discriminate. }
  rewrite He. rewrite bytes_eqb_refl. reflexivity.
Qed.
End Values.

(** * histories: a list of writes, then a read *)
Section Histories.
Variable C : crypto.
Variable cfg : config.
Variable kr : keyring.

Lemma addr_eqb_refl a : addr_eqb a a = true.
Proof. destruct a as [[t r] c]. cbn. now rewrite !bytes_eqb_refl. Qed.

(** later writes to OTHER addresses do not disturb a stored cell (induction over the history) *)
Lemma run_writes_keeps : forall (post : list write) (s s' : store) (a : addr) (v : bytes),
  lookup a s = Some v ->
  (forall w, In w post -> addr_eqb a (w_addr w) = false) ->
  run_writes C cfg kr s post = Ok s' -> lookup a s' = Some v.
Proof.
  induction post as [|w post IH]; intros s s' a v Hl Hno Hr; cbn [run_writes] in Hr.
  - now inversion Hr; subst.
  - destruct (protect_value C kr (w_conn w) (addr_setting cfg (w_addr w)) (w_tape w) (w_val w)) as [v'| |] eqn:Ev;
      cbn [bind] in Hr; try discriminate.
    eapply IH; [| |exact Hr].
    + cbn [lookup]. rewrite (Hno w (or_introl eq_refl)). exact Hl.
    + intros w0 Hin. apply Hno. now right.
Qed.

(** the cell holds the protected form of its LAST write, whatever happened before (any prefix history, any
    starting store) and after (writes to other cells) *)
Theorem last_write_stored : forall (pre post : list write) (w : write) (s0 s : store) (v : bytes),
  run_writes C cfg kr s0 (pre ++ w :: post) = Ok s ->
  (forall w', In w' post -> addr_eqb (w_addr w) (w_addr w') = false) ->
  protect_value C kr (w_conn w) (addr_setting cfg (w_addr w)) (w_tape w) (w_val w) = Ok v ->
  lookup (w_addr w) s = Some v.
Proof.
  induction pre as [|p pre IH]; intros post w s0 s v Hr Hno Hv.
  - cbn [app run_writes] in Hr. rewrite Hv in Hr. cbn [bind] in Hr.
    eapply run_writes_keeps; [| exact Hno | exact Hr].
    cbn [lookup]. now rewrite addr_eqb_refl.
  - cbn [app run_writes] in Hr.
    destruct (protect_value C kr (w_conn p) (addr_setting cfg (w_addr p)) (w_tape p) (w_val p)) as [v'| |];
      cbn [bind] in Hr; try discriminate.
    eapply IH; eassumption.
Qed.

(** read-back: after ANY history whose last write to the cell stored [x] through the write path, a reader for
    whom the read path opens that stored form receives [x]; a reader who can open nothing receives the stored
    bytes unchanged *)
Theorem read_back_history pre post w s0 s v reader x :
  run_writes C cfg kr s0 (pre ++ w :: post) = Ok s ->
  (forall w', In w' post -> addr_eqb (w_addr w) (w_addr w') = false) ->
  protect_value C kr (w_conn w) (addr_setting cfg (w_addr w)) (w_tape w) (w_val w) = Ok v ->
  reveal_cell C kr reader (Some v) = Ok (Some x) ->
  read_cell C kr s reader (w_addr w) = Ok (Some x).
Proof.
  intros Hr Hno Hv Hrev. unfold read_cell.
  rewrite (last_write_stored pre post w s0 s v Hr Hno Hv). exact Hrev.
Qed.

Theorem non_owner_history pre post w s0 s v reader :
  run_writes C cfg kr s0 (pre ++ w :: post) = Ok s ->
  (forall w', In w' post -> addr_eqb (w_addr w) (w_addr w') = false) ->
  protect_value C kr (w_conn w) (addr_setting cfg (w_addr w)) (w_tape w) (w_val w) = Ok v ->
  (forall c, run_callbacks (reader_cbs C (keys_of kr reader)) c = Ok None) ->
  read_cell C kr s reader (w_addr w) = Ok (Some v).
Proof.
  intros Hr Hno Hv Hnone. eapply read_back_history; try eassumption.
  apply reveal_not_openable, Hnone.
Qed.
End Histories.
