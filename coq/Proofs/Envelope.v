(** Round-trip lemmas for the envelope model, for every crypto instance satisfying [Correct]. *)
From Acra Require Import Lib.Bytes Lib.Outcome Lib.Sha256 Crypto.Interface Gen.Consts Model.Envelope.
From Coq Require Import ZifyN ZifyNat ZifyBool.

Lemma sub_app_mid {A} (a b c : list A) n k :
  n = length a -> k = length b -> sub n k (a ++ b ++ c) = b.
Proof. intros -> ->. unfold sub. rewrite skipn_app_len. apply firstn_app_len. Qed.

Lemma sub_0 {A} (b c : list A) k : k = length b -> sub 0 k (b ++ c) = b.
Proof. intros ->. unfold sub. cbn. apply firstn_app_len. Qed.

Lemma int_of_u64_small n : (n < 9223372036854775808)%N -> int_of_u64 n = Z.of_N n.
Proof. intros H. unfold int_of_u64. destruct (N.ltb_spec n 9223372036854775808); [reflexivity| lia]. Qed.

Lemma repeat_bytes_eq b n : repeat_bytes b n = repeat b n.
Proof. induction n; cbn; congruence. Qed.

Ltac unfold_consts :=
  unfold as_min, as_key_block, AS_TAG_LEN, AS_PUBKEY_LEN, AS_SMSG_LEN, AS_DATALEN_SIZE, AS_SYMKEY_SIZE,
    AB_MIN_SIZE, AB_TAG_SIZE, AB_DEK_SIZE, AB_REST_LEN_SIZE, AB_DEK_LEN_SIZE, AB_KEY_ID_SIZE,
    SC_MIN_SIZE, SC_TAG_SIZE, SC_LEN_SIZE, SEAL_OVERHEAD, WRAP_OVERHEAD, NONCE_LEN, SEED_LEN, ECKEY_LEN, MAXMSG,
    HMAC_HASH_SIZE in *.

Section Proofs.
Variable C : crypto.
Hypothesis HC : Correct C.

Lemma cell_rt k c r m :
  k <> [] -> m <> [] -> length r = NONCE_LEN -> (N.of_nat (length m) < MAXMSG)%N ->
  exists ct, cell_encrypt C k c r m = Some ct /\ length ct = SEAL_OVERHEAD + length m /\
             cell_decrypt C k c ct = Some m.
Proof.
  intros Hk Hm Hr Hl. exists (seal_enc C k c r m). unfold cell_encrypt, cell_decrypt.
  rewrite (is_nil_false k Hk), (is_nil_false m Hm). cbn [orb].
  pose proof (seal_len C HC k c r m Hr) as Hlen.
  split; [reflexivity|]. split; [exact Hlen|].
  rewrite (is_nil_len (seal_enc C k c r m) (43 + length m)) by (rewrite Hlen; reflexivity).
  apply (seal_rt C HC); assumption.
Qed.

(** ** AcraStruct *)
Definition good_as_tape (tape : list bytes) : Prop :=
  exists seed dkey wn sn rest, tape = seed :: dkey :: wn :: sn :: rest /\
    length seed = SEED_LEN /\ length dkey = AS_SYMKEY_SIZE /\ length wn = NONCE_LEN /\ length sn = NONCE_LEN.

Lemma as_tag_length : length as_tag = AS_TAG_LEN.
Proof. apply repeat_bytes_length. Qed.

Theorem as_roundtrip tape data sb ctx :
  good_as_tape tape -> length sb = SEED_LEN -> data <> [] -> (N.of_nat (length data) < MAXMSG)%N ->
  exists v, as_create C tape data (pub_of C sb) ctx = Ok v /\
            as_validate v = true /\
            length v = as_min + SEAL_OVERHEAD + length data /\
            as_decrypt C v (priv_of C sb) ctx = Ok data.
Proof.
  intros (seed & dkey & wn & sn & rest & -> & Hs & Hd & Hwn & Hsn) Hsb Hdata Hlen.
  unfold as_create.
  destruct (keypair C seed) as [epriv epub] eqn:Ekp.
  assert (epriv = priv_of C seed) as -> by (unfold priv_of; rewrite Ekp; reflexivity).
  assert (epub = pub_of C seed) as -> by (unfold pub_of; rewrite Ekp; reflexivity).
  destruct (key_len C HC seed Hs) as [Hpl Hql].
  destruct (key_len C HC sb Hsb) as [Hpl' Hql'].
  assert (dkey <> []) as Hdk by (destruct dkey; [discriminate| congruence]).
  destruct (wrap_rt C HC seed sb wn dkey Hs Hsb Hwn Hdk) as (w & Hw & Hwl & Huw).
  { rewrite Hd. vm_compute. reflexivity. }
  unfold msg_wrap. rewrite (is_nil_len _ 44 Hpl), (is_nil_len _ 44 Hql'), (is_nil_false _ Hdk).
  cbn [orb]. rewrite Hw, (is_nil_false _ Hdata).
  destruct (cell_rt dkey ctx sn data Hdk Hdata Hsn Hlen) as (ed & He & Hel & Hdec).
  rewrite He. eexists. split; [reflexivity|].
  set (lenb := le_enc AS_DATALEN_SIZE (N.of_nat (length ed))).
  assert (length lenb = 8) as Hlb by apply le_enc_length.
  assert (length (as_tag ++ pub_of C seed ++ w ++ lenb ++ ed) = as_min + length ed) as Htot.
  { rewrite !app_length, as_tag_length, Hql, Hwl, Hlb, Hd. unfold as_min, as_key_block. cbn. lia. }
  assert (as_validate (as_tag ++ pub_of C seed ++ w ++ lenb ++ ed) = true) as Hval.
  { unfold as_validate. rewrite Htot.
    destruct (Nat.ltb_spec (as_min + length ed) as_min); [lia|].
    rewrite (firstn_app_len' AS_TAG_LEN) by (symmetry; apply as_tag_length).
    rewrite bytes_eqb_refl. cbn [negb].
    unfold as_data_length.
    replace (as_tag ++ pub_of C seed ++ w ++ lenb ++ ed)
      with ((as_tag ++ pub_of C seed ++ w) ++ lenb ++ ed) by (rewrite <- !app_assoc; reflexivity).
    rewrite sub_app_mid.
    - unfold lenb. rewrite le_dec_enc_small.
      + rewrite int_of_u64_small by (unfold MAXMSG in Hlen; rewrite Hel; unfold SEAL_OVERHEAD; lia). lia.
      + rewrite Hel. unfold MAXMSG in Hlen. unfold SEAL_OVERHEAD, AS_DATALEN_SIZE. cbn. lia.
    - rewrite !app_length, as_tag_length, Hql, Hwl, Hd. reflexivity.
    - rewrite Hlb. reflexivity. }
  split; [exact Hval|]. split; [rewrite Htot, Hel; lia|].
  unfold as_decrypt. rewrite Hval. cbn [negb].
  rewrite (skipn_app_len' AS_TAG_LEN) by (symmetry; apply as_tag_length).
  rewrite (firstn_app_len' AS_PUBKEY_LEN) by (rewrite Hql; reflexivity).
  rewrite (sub_app_mid (pub_of C seed) w) by (rewrite ?Hql, ?Hwl, ?Hd; reflexivity).
  unfold msg_unwrap.
  rewrite (is_nil_len _ 44 Hpl'), (is_nil_len _ 44 Hql), (is_nil_len w 83) by (rewrite Hwl, Hd; reflexivity).
  cbn [orb]. rewrite Huw.
  replace (pub_of C seed ++ w ++ lenb ++ ed) with ((pub_of C seed ++ w ++ lenb) ++ ed)
    by (rewrite <- !app_assoc; reflexivity).
  rewrite skipn_app_len' by (rewrite !app_length, Hql, Hwl, Hlb, Hd; reflexivity).
  rewrite Hdec. reflexivity.
Qed.

(** rotated keys: every key tried before the right one fails *)
Theorem as_rotated_roundtrip v data before priv after ctx :
  as_decrypt C v priv ctx = Ok data ->
  Forall (fun p => exists e, as_decrypt C v p ctx = Err e) before ->
  as_decrypt_rotated C v (before ++ priv :: after) ctx = Ok data.
Proof.
  intros Hok. induction before as [|p before IH]; intros Hall; cbn [app as_decrypt_rotated].
  - rewrite Hok. reflexivity.
  - inversion Hall as [|? ? [e He] Hrest]; subst. rewrite He.
    specialize (IH Hrest).
    destruct (before ++ priv :: after) as [|b l] eqn:E; [destruct before; discriminate|]. exact IH.
Qed.

(** ** AcraBlock *)
Definition good_ab_tape (tape : list bytes) : Prop :=
  exists dek n1 n2 rest, tape = dek :: n1 :: n2 :: rest /\
    length dek = AB_DEK_SIZE /\ length n1 = NONCE_LEN /\ length n2 = NONCE_LEN.

Lemma ab_tag_length : length ab_tag = AB_TAG_SIZE.
Proof. apply repeat_bytes_length. Qed.

Lemma ab_key_id_length k c : length (ab_key_id k c) <= 2.
Proof. unfold ab_key_id. rewrite firstn_length. apply Nat.le_min_l. Qed.

(** the SHA-256 output has 32 bytes, so a key id always has exactly two; proved by computation
    on the structure of [sha256] *)
Lemma flat_map_be4_length (l : list N) : length (flat_map (be_enc 4) l) = 4 * length l.
Proof. induction l as [|x l IH]; cbn [flat_map length]; [reflexivity|]. rewrite app_length, be_enc_length, IH. lia. Qed.

Lemma compress_length h b : length h = 8 -> length (compress h b) = 8.
Proof.
  intros Hh. unfold compress. rewrite map_length, combine_length, Hh.
  assert (forall kws st, length st = 8 -> length (fold_left round kws st) = 8) as Hf.
  { induction kws as [|k kws IHk]; intros st Hst; cbn [fold_left]; [exact Hst|].
    apply IHk. destruct st as [|a [|b0 [|c [|d [|e [|f [|g [|h0 [|]]]]]]]]]; try discriminate. reflexivity. }
  rewrite Hf by exact Hh. reflexivity.
Qed.

Lemma blocks_length n h bs : length h = 8 -> length (blocks h bs n) = 8.
Proof. revert h bs; induction n as [|n IH]; intros h bs Hh; cbn [blocks]; [exact Hh|]. apply IH, compress_length, Hh. Qed.

Lemma sha256_length m : length (sha256 m) = 32.
Proof. unfold sha256. rewrite flat_map_be4_length, blocks_length; reflexivity. Qed.

Lemma ab_key_id_len k c : length (ab_key_id k c) = AB_KEY_ID_SIZE.
Proof. unfold ab_key_id. rewrite firstn_length, sha256_length. reflexivity. Qed.

Definition ab_layout (key ctx ek ed : bytes) : bytes :=
  ab_tag ++ le_enc AB_REST_LEN_SIZE (N.of_nat (AB_MIN_SIZE + length ed + length ek - AB_TAG_SIZE))
    ++ [AB_KEK_TYPE_SECURE_CELL] ++ ab_key_id key ctx ++ [AB_DATA_TYPE_SECURE_CELL]
    ++ le_enc AB_DEK_LEN_SIZE (N.of_nat (length ek)) ++ ek ++ ed.

Lemma ab_layout_length key ctx ek ed :
  length (ab_layout key ctx ek ed) = AB_MIN_SIZE + length ek + length ed.
Proof.
  unfold ab_layout. rewrite !app_length, ab_tag_length, !le_enc_length, ab_key_id_len. cbn. lia.
Qed.

(* split the layout at the fixed positions *)
Lemma ab_layout_split key ctx ek ed :
  exists hd4 l8 kid2 l2,
    ab_layout key ctx ek ed = hd4 ++ l8 ++ [AB_KEK_TYPE_SECURE_CELL] ++ kid2 ++ [AB_DATA_TYPE_SECURE_CELL] ++ l2 ++ ek ++ ed
    /\ hd4 = ab_tag /\ length hd4 = 4 /\ length l8 = 8 /\ length kid2 = 2 /\ length l2 = 2
    /\ l8 = le_enc 8 (N.of_nat (AB_MIN_SIZE + length ed + length ek - AB_TAG_SIZE))
    /\ kid2 = ab_key_id key ctx /\ l2 = le_enc 2 (N.of_nat (length ek)).
Proof.
  do 4 eexists. split; [reflexivity|].
  repeat split; try reflexivity; rewrite ?ab_tag_length, ?le_enc_length, ?ab_key_id_len; reflexivity.
Qed.

Lemma nthb_app_at (a : bytes) (x : byte) (r : bytes) n : n = length a -> nthb n (a ++ x :: r) = x.
Proof. intros ->. unfold nthb. rewrite app_nth2, Nat.sub_diag by lia. reflexivity. Qed.

Theorem ab_extract_layout key ctx ek ed suffix :
  (N.of_nat (length ek + length ed) < 4294967296)%N ->
  ab_extract (ab_layout key ctx ek ed ++ suffix)
  = Ok (length (ab_layout key ctx ek ed), ab_layout key ctx ek ed).
Proof.
  intros Hsmall.
  pose proof (ab_layout_length key ctx ek ed) as Hlen.
  destruct (ab_layout_split key ctx ek ed) as (hd4 & l8 & kid2 & l2 & E & Hhd & H4 & H8 & Hk2 & H2 & El8 & _ & _).
  unfold ab_extract. rewrite app_length, Hlen.
  destruct (Nat.ltb_spec (AB_MIN_SIZE + length ek + length ed + length suffix) AB_MIN_SIZE); [lia|].
  set (L := ab_layout key ctx ek ed) in *.
  assert (firstn AB_TAG_SIZE (L ++ suffix) = ab_tag) as ->.
  { rewrite E, <- Hhd, <- app_assoc. apply firstn_app_len'. rewrite H4. reflexivity. }
  rewrite bytes_eqb_refl.
  assert (sub AB_REST_LEN_POS AB_REST_LEN_SIZE (L ++ suffix) = l8) as ->.
  { rewrite E, <- !app_assoc. apply sub_app_mid; [rewrite H4| rewrite H8]; reflexivity. }
  assert (nthb AB_KEK_TYPE_POS (L ++ suffix) = AB_KEK_TYPE_SECURE_CELL) as ->.
  { rewrite E. replace ((hd4 ++ l8 ++ [AB_KEK_TYPE_SECURE_CELL] ++ kid2 ++ [AB_DATA_TYPE_SECURE_CELL] ++ l2 ++ ek ++ ed) ++ suffix)
      with ((hd4 ++ l8) ++ AB_KEK_TYPE_SECURE_CELL :: (kid2 ++ [AB_DATA_TYPE_SECURE_CELL] ++ l2 ++ ek ++ ed) ++ suffix)
      by (rewrite <- !app_assoc; reflexivity).
    apply nthb_app_at. rewrite app_length, H4, H8. reflexivity. }
  assert (nthb AB_DATA_TYPE_POS (L ++ suffix) = AB_DATA_TYPE_SECURE_CELL) as ->.
  { rewrite E. replace ((hd4 ++ l8 ++ [AB_KEK_TYPE_SECURE_CELL] ++ kid2 ++ [AB_DATA_TYPE_SECURE_CELL] ++ l2 ++ ek ++ ed) ++ suffix)
      with ((hd4 ++ l8 ++ [AB_KEK_TYPE_SECURE_CELL] ++ kid2) ++ AB_DATA_TYPE_SECURE_CELL :: (l2 ++ ek ++ ed) ++ suffix)
      by (rewrite <- !app_assoc; reflexivity).
    apply nthb_app_at. rewrite !app_length, H4, H8, Hk2. reflexivity. }
  rewrite !byte_eqb_refl. rewrite El8, le_dec_enc_small.
  2:{ unfold AB_MIN_SIZE, AB_TAG_SIZE. cbn. lia. }
  set (rest := N.of_nat (AB_MIN_SIZE + length ed + length ek - AB_TAG_SIZE)).
  assert (N.leb (N.of_nat (AB_MIN_SIZE - AB_TAG_SIZE)) rest = true) as -> by (apply N.leb_le; unfold rest, AB_MIN_SIZE, AB_TAG_SIZE; lia).
  assert (N.leb rest (N.of_nat (AB_MIN_SIZE + length ek + length ed + length suffix - AB_TAG_SIZE)) = true) as ->
    by (apply N.leb_le; unfold rest, AB_MIN_SIZE, AB_TAG_SIZE; lia).
  cbn [andb].
  assert (AB_TAG_SIZE + N.to_nat rest = length L) as -> by (rewrite Hlen; unfold rest, AB_MIN_SIZE, AB_TAG_SIZE; lia).
  rewrite firstn_app_len, Hlen. reflexivity.
Qed.

Theorem ab_roundtrip tape data key ctx :
  good_ab_tape tape -> key <> [] -> data <> [] -> (N.of_nat (length data) < MAXMSG)%N ->
  exists ek ed, ab_create C tape data key ctx = Ok (ab_layout key ctx ek ed) /\
    length ek = SEAL_OVERHEAD + AB_DEK_SIZE /\ length ed = SEAL_OVERHEAD + length data /\
    forall before after,
      Forall (fun k => bytes_eqb (ab_key_id k ctx) (ab_key_id key ctx) = false
                       \/ cell_decrypt C k ctx ek = None) before ->
      ab_decrypt C (ab_layout key ctx ek ed) (before ++ key :: after) ctx = Ok data.
Proof.
  intros (dek & n1 & n2 & rest & -> & Hd & Hn1 & Hn2) Hkey Hdata Hlen.
  assert (dek <> []) as Hdk by (destruct dek; [discriminate| congruence]).
  destruct (cell_rt dek ctx n1 data Hdk Hdata Hn1 Hlen) as (ed & He & Hel & Hdec).
  destruct (cell_rt key ctx n2 dek Hkey Hdk Hn2) as (ek & Hk & Hkl & Hkdec).
  { rewrite Hd. vm_compute. reflexivity. }
  exists ek, ed. unfold ab_create.
  rewrite (is_nil_false _ Hdata), He, (is_nil_false _ Hkey), Hk.
  split; [reflexivity|]. split; [rewrite Hkl, Hd; reflexivity|]. split; [exact Hel|].
  intros before after Hbefore.
  pose proof (ab_layout_length key ctx ek ed) as HL.
  destruct (ab_layout_split key ctx ek ed) as (hd4 & l8 & kid2 & l2 & E & Hhd & H4 & H8 & Hk2 & H2 & El8 & Ekid & El2).
  unfold ab_decrypt. set (L := ab_layout key ctx ek ed) in *.
  rewrite HL. destruct (Nat.ltb_spec (AB_MIN_SIZE + length ek + length ed) AB_MIN_SIZE); [lia|].
  assert (sub AB_DEK_LEN_POS AB_DEK_LEN_SIZE L = l2) as ->.
  { rewrite E. replace (hd4 ++ l8 ++ [AB_KEK_TYPE_SECURE_CELL] ++ kid2 ++ [AB_DATA_TYPE_SECURE_CELL] ++ l2 ++ ek ++ ed)
      with ((hd4 ++ l8 ++ [AB_KEK_TYPE_SECURE_CELL] ++ kid2 ++ [AB_DATA_TYPE_SECURE_CELL]) ++ l2 ++ ek ++ ed)
      by (rewrite <- !app_assoc; reflexivity).
    apply sub_app_mid; [rewrite !app_length, H4, H8, Hk2| rewrite H2]; reflexivity. }
  rewrite El2, le_dec_enc_small by (rewrite Hkl, Hd; vm_compute; reflexivity).
  rewrite Nat2N.id.
  destruct (Nat.ltb_spec (AB_MIN_SIZE + length ek + length ed) (AB_MIN_SIZE + length ek)); [lia|].
  assert (nthb AB_KEK_TYPE_POS L = AB_KEK_TYPE_SECURE_CELL) as ->.
  { rewrite E. replace (hd4 ++ l8 ++ [AB_KEK_TYPE_SECURE_CELL] ++ kid2 ++ [AB_DATA_TYPE_SECURE_CELL] ++ l2 ++ ek ++ ed)
      with ((hd4 ++ l8) ++ AB_KEK_TYPE_SECURE_CELL :: (kid2 ++ [AB_DATA_TYPE_SECURE_CELL] ++ l2 ++ ek ++ ed))
      by (rewrite <- !app_assoc; reflexivity).
    apply nthb_app_at. rewrite app_length, H4, H8. reflexivity. }
  assert (nthb AB_DATA_TYPE_POS L = AB_DATA_TYPE_SECURE_CELL) as ->.
  { rewrite E. replace (hd4 ++ l8 ++ [AB_KEK_TYPE_SECURE_CELL] ++ kid2 ++ [AB_DATA_TYPE_SECURE_CELL] ++ l2 ++ ek ++ ed)
      with ((hd4 ++ l8 ++ [AB_KEK_TYPE_SECURE_CELL] ++ kid2) ++ AB_DATA_TYPE_SECURE_CELL :: (l2 ++ ek ++ ed))
      by (rewrite <- !app_assoc; reflexivity).
    apply nthb_app_at. rewrite !app_length, H4, H8, Hk2. reflexivity. }
  rewrite !byte_eqb_refl. cbn [andb negb].
  assert (sub AB_ENC_KEY_POS (length ek) L = ek) as ->.
  { rewrite E. replace (hd4 ++ l8 ++ [AB_KEK_TYPE_SECURE_CELL] ++ kid2 ++ [AB_DATA_TYPE_SECURE_CELL] ++ l2 ++ ek ++ ed)
      with ((hd4 ++ l8 ++ [AB_KEK_TYPE_SECURE_CELL] ++ kid2 ++ [AB_DATA_TYPE_SECURE_CELL] ++ l2) ++ ek ++ ed)
      by (rewrite <- !app_assoc; reflexivity).
    apply sub_app_mid; [rewrite !app_length, H4, H8, Hk2, H2|]; reflexivity. }
  assert (skipn (AB_MIN_SIZE + length ek) L = ed) as ->.
  { rewrite E. replace (hd4 ++ l8 ++ [AB_KEK_TYPE_SECURE_CELL] ++ kid2 ++ [AB_DATA_TYPE_SECURE_CELL] ++ l2 ++ ek ++ ed)
      with ((hd4 ++ l8 ++ [AB_KEK_TYPE_SECURE_CELL] ++ kid2 ++ [AB_DATA_TYPE_SECURE_CELL] ++ l2 ++ ek) ++ ed)
      by (rewrite <- !app_assoc; reflexivity).
    apply skipn_app_len'. rewrite !app_length, H4, H8, Hk2, H2. cbn. lia. }
  assert (sub AB_KEY_ID_POS AB_KEY_ID_SIZE L = kid2) as ->.
  { rewrite E. replace (hd4 ++ l8 ++ [AB_KEK_TYPE_SECURE_CELL] ++ kid2 ++ [AB_DATA_TYPE_SECURE_CELL] ++ l2 ++ ek ++ ed)
      with ((hd4 ++ l8 ++ [AB_KEK_TYPE_SECURE_CELL]) ++ kid2 ++ ([AB_DATA_TYPE_SECURE_CELL] ++ l2 ++ ek ++ ed))
      by (rewrite <- !app_assoc; reflexivity).
    apply sub_app_mid; [rewrite !app_length, H4, H8| rewrite Hk2]; reflexivity. }
  assert (ab_find_key C (before ++ key :: after) ctx kid2 ek = Some dek) as ->.
  { rewrite Ekid. clear -Hbefore Hkdec. induction before as [|k before IH]; cbn [app ab_find_key].
    - rewrite bytes_eqb_refl, Hkdec. reflexivity.
    - inversion Hbefore as [|? ? Hk Hrest]; subst. destruct Hk as [Hk|Hk].
      + rewrite Hk. apply IH, Hrest.
      + destruct (bytes_eqb (ab_key_id k ctx) (ab_key_id key ctx)); [rewrite Hk|]; apply IH, Hrest. }
  rewrite Hdec. reflexivity.
Qed.

(** ** Serialized container *)
Lemma sc_tag_length : length sc_tag = SC_TAG_SIZE.
Proof. apply repeat_bytes_length. Qed.

Definition sc_layout (enc : bytes) (id : byte) : bytes :=
  sc_tag ++ le_enc SC_LEN_SIZE (N.of_nat (SC_MIN_SIZE + length enc)) ++ [id] ++ enc.

Lemma sc_serialize_ok enc id : enc <> [] -> sc_serialize enc id = Ok (sc_layout enc id).
Proof. intros H. unfold sc_serialize. rewrite (is_nil_false _ H). reflexivity. Qed.

Lemma sc_layout_length enc id : length (sc_layout enc id) = SC_MIN_SIZE + length enc.
Proof. unfold sc_layout. rewrite !app_length, sc_tag_length, le_enc_length. cbn. lia. Qed.

Lemma sc_validate_layout enc id suffix :
  enc <> [] -> known_envelope id = true -> sc_validate (sc_layout enc id ++ suffix) = Some id.
Proof.
  intros He Hid. unfold sc_validate. rewrite app_length, sc_layout_length.
  destruct enc as [|e0 enc]; [contradiction|].
  destruct (Nat.leb_spec (SC_MIN_SIZE + length (e0 :: enc) + length suffix) SC_MIN_SIZE); [cbn [length] in *; lia|].
  unfold sc_layout. rewrite <- !app_assoc.
  rewrite (firstn_app_len' SC_TAG_SIZE) by (symmetry; apply sc_tag_length).
  rewrite bytes_eqb_refl. cbn [negb].
  replace (sc_tag ++ le_enc SC_LEN_SIZE (N.of_nat (SC_MIN_SIZE + length (e0 :: enc))) ++ [id] ++ (e0 :: enc) ++ suffix)
    with ((sc_tag ++ le_enc SC_LEN_SIZE (N.of_nat (SC_MIN_SIZE + length (e0 :: enc)))) ++ id :: ((e0 :: enc) ++ suffix))
    by (rewrite <- !app_assoc; reflexivity).
  rewrite nthb_app_at by (rewrite app_length, sc_tag_length, le_enc_length; reflexivity).
  rewrite Hid. reflexivity.
Qed.

Lemma sc_len_field enc id suffix :
  sub SC_TAG_SIZE SC_LEN_SIZE (sc_layout enc id ++ suffix) = le_enc SC_LEN_SIZE (N.of_nat (SC_MIN_SIZE + length enc)).
Proof.
  unfold sc_layout. rewrite <- !app_assoc. apply sub_app_mid; [symmetry; apply sc_tag_length| rewrite le_enc_length; reflexivity].
Qed.

Theorem container_roundtrip enc id suffix :
  enc <> [] -> known_envelope id = true -> (N.of_nat (length enc) < 4294967296)%N ->
  sc_deserialize (sc_layout enc id ++ suffix) = Ok (enc, id) /\
  sc_extract (sc_layout enc id ++ suffix) = Ok (length (sc_layout enc id), sc_layout enc id ++ suffix).
Proof.
  intros He Hid Hlen.
  pose proof (sc_validate_layout enc id suffix He Hid) as Hv.
  assert (le_dec (le_enc SC_LEN_SIZE (N.of_nat (SC_MIN_SIZE + length enc))) = N.of_nat (SC_MIN_SIZE + length enc)) as Hld.
  { apply le_dec_enc_small. unfold SC_MIN_SIZE, SC_LEN_SIZE. cbn. lia. }
  split.
  - unfold sc_deserialize, envelope_kind. rewrite Hv.
    unfold sc_internal_length. rewrite sc_len_field, Hld.
    assert (((N.of_nat (SC_MIN_SIZE + length enc) + M64N - N.of_nat SC_MIN_SIZE) mod M64N)%N = N.of_nat (length enc)) as ->.
    { unfold M64N, SC_MIN_SIZE. replace (N.of_nat (12 + length enc) + 18446744073709551616 - N.of_nat 12)%N
        with (N.of_nat (length enc) + 1 * 18446744073709551616)%N by lia.
      rewrite N.mod_add by lia. apply N.mod_small. lia. }
    rewrite app_length, sc_layout_length.
    destruct (N.ltb_spec (N.of_nat (SC_MIN_SIZE + length enc + length suffix - SC_MIN_SIZE)) (N.of_nat (length enc))); [lia|].
    rewrite Nat2N.id. unfold sc_layout.
    replace ((sc_tag ++ le_enc SC_LEN_SIZE (N.of_nat (SC_MIN_SIZE + length enc)) ++ [id] ++ enc) ++ suffix)
      with ((sc_tag ++ le_enc SC_LEN_SIZE (N.of_nat (SC_MIN_SIZE + length enc)) ++ [id]) ++ enc ++ suffix)
      by (rewrite <- !app_assoc; reflexivity).
    rewrite skipn_app_len' by (rewrite !app_length, sc_tag_length, le_enc_length; reflexivity).
    rewrite firstn_app_len. reflexivity.
  - unfold sc_extract. rewrite Hv, sc_len_field, Hld, app_length, sc_layout_length.
    destruct enc as [|e0 enc]; [contradiction|].
    destruct (N.leb_spec (N.of_nat (SC_MIN_SIZE + length (e0 :: enc))) (N.of_nat SC_MIN_SIZE)); [cbn [length] in *; lia|].
    destruct (N.ltb_spec (N.of_nat (SC_MIN_SIZE + length (e0 :: enc) + length suffix)) (N.of_nat (SC_MIN_SIZE + length (e0 :: enc)))); [lia|].
    cbn [orb]. rewrite Nat2N.id. reflexivity.
Qed.

End Proofs.
