(** C13_statements, round trip, part 5: expression lists, parentheses / tuples / sub-selects, select expressions
    (star forms, aliases), function calls. *)
From Acra Require Import Lib.Bytes Gen.Prec Gen.SqlWords Model.SqlStmt Model.SqlStmtParse
  Proofs.SqlStmtUnfold Proofs.SqlStmtFacts Proofs.SqlStmtEqns Proofs.SqlStmtHeads Proofs.SqlStmtRT1 Proofs.SqlStmtRT2 Proofs.SqlStmtRT3 Proofs.SqlStmtRT4.
From Coq Require Import Arith Lia.

(** keyword-named function calls: the token of the name is no other atom head (checked on the generated lists) *)
Definition special_first (t : tok) : bool :=
  match t with
  | TLit _ _ | TId _ | TDq _ | TP PLParen => true
  | TW w => match w with
            | W_null | W_true | W_false | W_default | W_exists | W_case | W_convert | W_interval | W_values => true
            | _ => false
            end
  | _ => false
  end.
Definition fkw_ok2 (n : bytes) : bool :=
  match fname_class n with
  | Some cls =>
      negb (is_keyword n) ||
      (negb (special_first (kw_tok n)) && match kw_name (kw_tok n) with Some n' => bytes_eqb n n' | None => false end)
  | None => true
  end.
Lemma fkw_all2 : forallb fkw_ok2 fkw_names = true.
Proof. vm_compute; reflexivity. Qed.

Section RT.
Variable pg : bool.
Notation Cst := (Cst pg). Notation Ust := (Ust pg). Notation Ast := (Ast pg). Notation Pe := (Pe pg).
Notation Dst := (Dst pg). Notation Pxs := (Pxs pg). Notation Pse := (Pse pg). Notation Pses := (Pses pg).
Notation Ssel := (Ssel pg).

Ltac KL := unfold K in *; lia.
Ltac fuel f := destruct f as [|f]; [KL|].

Lemma atom_head_kw t r : special_first t = false ->
  atom_head pg (t :: TP PLParen :: r) =
  match kw_name t with
  | Some n => match fname_class n with Some cls => AHKwFunc n cls r | None => AHNone end
  | None => AHNone
  end.
Proof.
  destruct t as [| | | |p|w|]; try discriminate; intros H.
  - reflexivity.
  - destruct p; try discriminate; reflexivity.
  - destruct w; try discriminate; reflexivity.
  - reflexivity.
Qed.

Lemma fname_kw_head n cls r : fname_class n = Some cls -> is_keyword n = true ->
  raw_tok n = kw_tok n /\ atom_head pg (kw_tok n :: TP PLParen :: r) = AHKwFunc n cls r.
Proof.
  intros H Hk. destruct (fname_class_kw_in n cls H Hk) as [Hin Hl].
  pose proof (proj1 (forallb_forall _ _) fkw_all2 n Hin) as Hok. unfold fkw_ok2 in Hok. rewrite H, Hk in Hok.
  cbn [negb orb] in Hok. apply andb_prop in Hok as [Hs Hn]. apply Bool.negb_true_iff in Hs.
  split; [unfold raw_tok; rewrite Hk, Hl; reflexivity|].
  rewrite (atom_head_kw _ r Hs). destruct (kw_name (kw_tok n)) as [n'|]; [|discriminate Hn].
  apply bytes_eqb_eq in Hn. subst n'. rewrite H. reflexivity.
Qed.

(* ---------- expression lists ---------- *)
Lemma case_XNil : Pxs XNil.
Proof. intros _ H. congruence. Qed.

Lemma case_XCons x xs : Pe x -> Pxs xs -> Pxs (XCons x xs).
Proof.
  intros [Cx _] IH Hwf _ rest Hh Hc f Hf. rewrite wf_exprs_XCons in Hwf. split_andb.
  rewrite need_exprs_XCons in Hf. fuel f. rewrite pexprs_S. destruct xs as [|y ys].
  - rewrite print_exprs_XCons. rewrite (pexpr_of_C pg x rest f Cx) by first [assumption | KL]. rewrite Hc. reflexivity.
  - rewrite print_exprs_XCons2. rewrite <- app_assoc. cbn [app].
    rewrite (pexpr_of_C pg x (TP PComma :: print_exprs pg (XCons y ys) ++ rest) f Cx) by first [assumption | reflexivity | KL].
    rewrite (expect_p_hit PComma). rewrite (IH ltac:(assumption) ltac:(discriminate) rest Hh Hc f) by KL. reflexivity.
Qed.

Lemma case_EParen x : Pe x -> Pe (EParen x).
Proof.
  intros [Cx _]. apply P_of_D; [reflexivity|reflexivity| |exact I].
  intros Hwf rest Hg f Hf. rewrite wf_EParen in Hwf. rewrite print_EParen, need_EParen in *.
  destruct f as [|[|f]]; try KL. cbn [app]. rewrite <- app_assoc. cbn [app].
  rewrite patom_S. cbn [atom_head].
  destruct (print_head pg x Hwf) as [t0 [r0 [E Hs]]]. rewrite E. cbn [app].
  rewrite (estart_head_w t0 _ W_select Hs eq_refl).
  change (t0 :: r0 ++ TP PRParen :: rest) with ((t0 :: r0) ++ TP PRParen :: rest). rewrite <- E.
  rewrite pexprs_S. rewrite (pexpr_of_C pg x (TP PRParen :: rest) f Cx) by first [assumption | reflexivity | KL].
  change (expect_p PComma (TP PRParen :: rest)) with (@None (list tok)). cbv beta iota. rewrite (expect_p_hit PRParen). reflexivity.
Qed.

Lemma case_ETuple xs : Pxs xs -> Pe (ETuple xs).
Proof.
  intros IH. apply P_of_D; [reflexivity|reflexivity| |exact IH].
  intros Hwf rest Hg f Hf. rewrite wf_ETuple in Hwf. rewrite print_ETuple, need_ETuple in *.
  destruct xs as [|x [|y ys]]; try discriminate.
  fuel f. cbn [app]. rewrite <- app_assoc. cbn [app]. rewrite patom_S. cbn [atom_head].
  destruct (print_exprs_head pg (XCons x (XCons y ys)) (TP PRParen :: rest) Hwf ltac:(discriminate)) as [t0 [r0 [E Hs]]].
  rewrite E. rewrite (estart_head_w t0 _ W_select Hs eq_refl). rewrite <- E.
  rewrite (IH Hwf ltac:(discriminate) (TP PRParen :: rest)) by first [reflexivity | KL].
  rewrite (expect_p_hit PRParen). reflexivity.
Qed.

Lemma case_ESubq q : Ssel q -> Pe (ESubq q).
Proof.
  intros IH. apply P_of_D; [reflexivity|reflexivity| |exact IH].
  intros Hwf rest Hg f Hf. rewrite wf_ESubq in Hwf. split_andb. negb_hyps. rewrite print_ESubq, need_ESubq in *.
  fuel f. cbn [app]. rewrite <- app_assoc. cbn [app]. rewrite patom_S. cbn [atom_head].
  destruct (sel_head pg q ltac:(assumption)) as [r0 E]. rewrite E. cbn [app]. rewrite head_w_hit.
  change (TW W_select :: r0 ++ TP PRParen :: rest) with ((TW W_select :: r0) ++ TP PRParen :: rest). rewrite <- E.
  rewrite (subq_ok pg q rest f IH) by first [assumption | KL]. rewrite (expect_p_hit PRParen). reflexivity.
Qed.

Lemma case_EExists q : Ssel q -> Pe (EExists q).
Proof.
  intros IH. apply P_of_D; [reflexivity|reflexivity| |exact I].
  intros Hwf rest Hg f Hf. rewrite wf_EExists in Hwf. split_andb. negb_hyps. rewrite print_EExists, need_EExists in *.
  fuel f. cbn [app]. rewrite <- app_assoc. cbn [app]. rewrite patom_S. cbn [atom_head].
  destruct (sel_head pg q ltac:(assumption)) as [r0 E]. rewrite E. cbn [app]. rewrite head_w_hit.
  change (TW W_select :: r0 ++ TP PRParen :: rest) with ((TW W_select :: r0) ++ TP PRParen :: rest). rewrite <- E.
  rewrite (subq_ok pg q rest f IH) by first [assumption | KL]. rewrite (expect_p_hit PRParen). reflexivity.
Qed.

(* ---------- select expressions ---------- *)
Definition nodot (ts : list tok) : bool := match ts with TP PDot :: _ => false | _ => true end.
Lemma star_none1 t1 ts : estart t1 = true -> nodot ts = true -> star_head pg (t1 :: ts) = None.
Proof.
  intros H1 H2. destruct ts as [|t2 ts].
  - destruct t1 as [| | | |p| |]; try reflexivity. destruct p; try reflexivity; discriminate H1.
  - destruct t2 as [| | | |p2| |]; try (destruct t1 as [| | | |p| |]; try reflexivity; destruct p; try reflexivity; discriminate H1).
    destruct p2; try discriminate H2; (destruct t1 as [| | | |p| |]; try reflexivity; destruct p; try reflexivity; discriminate H1).
Qed.
Lemma gstop_nodot r : gstop r = true -> nodot r = true.
Proof. destruct r as [|[| | | |p| |] r]; try reflexivity. destruct p; try reflexivity. discriminate. Qed.
Lemma estart_nodot t r : estart t = true -> nodot (t :: r) = true.
Proof. destruct t as [| | | |p| |]; try reflexivity. destruct p; try reflexivity. discriminate. Qed.
Lemma nodot_app a b : a <> [] -> nodot a = true -> nodot (a ++ b) = true.
Proof. destruct a; [congruence|]. intros _ H. exact H. Qed.

Lemma id_tok_not_star i : wf_id pg i = true -> forall (A : Type) (X Y : A),
  match id_tok pg i with TP PStar => X | _ => Y end = Y.
Proof. intros H A X Y. destruct (wf_id_tok_shape pg i H) as [[v [-> _]]|[v [-> _]]]; reflexivity. Qed.

Lemma star_head_col q n r : wf_col pg q n = true -> gstop r = true -> star_head pg (col_toks pg q n ++ r) = None.
Proof.
  unfold wf_col, col_toks. intros H Hg. split_andb. leb_hyps.
  destruct q as [|a [|b [|c q]]]; cbn [length] in *; try lia; cbn [forallb] in *; split_andb; cbn [qual_toks app].
  - apply star_none1; [apply estart_id_tok; assumption|apply gstop_nodot; exact Hg].
  - destruct (wf_id_tok_shape pg a ltac:(assumption)) as [[va [-> _]]|[va [-> _]]];
    destruct (wf_id_tok_shape pg n ltac:(assumption)) as [[vn [-> _]]|[vn [-> _]]];
    destruct r as [|[| | | |p| |] r]; try reflexivity; destruct p; try reflexivity; discriminate Hg.
  - destruct (wf_id_tok_shape pg a ltac:(assumption)) as [[va [-> _]]|[va [-> _]]];
    destruct (wf_id_tok_shape pg b ltac:(assumption)) as [[vb [-> _]]|[vb [-> _]]];
    destruct (wf_id_tok_shape pg n ltac:(assumption)) as [[vn [-> _]]|[vn [-> _]]]; reflexivity.
Qed.

Lemma lit_toks_star t v ts : nodot ts = true -> star_head pg (lit_toks t v ++ ts) = None.
Proof.
  intros H. unfold lit_toks. destruct (is_int t); [destruct v as [|c v]; [|destruct (byte_eqb c x_minus)]|]; cbn [app];
    try (apply star_none1; [reflexivity|exact H]).
  apply star_none1; reflexivity.
Qed.

Lemma no_star x : wf pg x = true -> forall r, gstop r = true -> star_head pg (print pg x ++ r) = None.
Proof.
  induction x; intros Hwf r Hg.
  - rewrite wf_EAnd in Hwf. split_andb. rewrite print_EAnd, <- app_assoc. apply IHx1; [assumption|reflexivity].
  - rewrite wf_EOr in Hwf. split_andb. rewrite print_EOr, <- app_assoc. apply IHx1; [assumption|reflexivity].
  - rewrite wf_ENot in Hwf. split_andb. rewrite print_ENot. cbn [app]. apply star_none1; [reflexivity|].
    destruct (print_head pg x ltac:(assumption)) as [t0 [r0 [-> Hs]]]. apply estart_nodot. exact Hs.
  - rewrite wf_ECmp in Hwf. split_andb. rewrite print_ECmp, <- app_assoc. apply IHx1; [assumption|destruct op; reflexivity].
  - rewrite wf_ECmpEsc in Hwf. split_andb. rewrite print_ECmpEsc, <- app_assoc. apply IHx1; [assumption|destruct op; reflexivity].
  - rewrite wf_ERange in Hwf. split_andb. rewrite print_ERange, <- app_assoc. apply IHx1; [assumption|destruct neg; reflexivity].
  - rewrite wf_EIs in Hwf. split_andb. rewrite print_EIs, <- app_assoc. apply IHx; [assumption|destruct s; reflexivity].
  - rewrite print_EExists. apply star_none1; reflexivity.
  - rewrite wf_EBin in Hwf. split_andb. rewrite print_EBin, <- app_assoc. apply IHx1; [assumption|destruct op; reflexivity].
  - rewrite wf_EUn in Hwf. split_andb. rewrite print_EUn. cbn [app]. apply star_none1; [destruct op; reflexivity|].
    destruct (print_head pg x ltac:(assumption)) as [t0 [r0 [-> Hs]]]. apply estart_nodot. exact Hs.
  - rewrite wf_ECollate in Hwf. split_andb. rewrite print_ECollate, <- app_assoc. apply IHx; [assumption|reflexivity].
  - rewrite print_ELit, <- app_assoc. apply lit_toks_star. destruct casts; [apply gstop_nodot; exact Hg|reflexivity].
  - rewrite print_ENull. apply star_none1; [reflexivity|apply gstop_nodot; exact Hg].
  - rewrite print_EBool. apply star_none1; [destruct b; reflexivity|apply gstop_nodot; exact Hg].
  - rewrite print_EDefault. apply star_none1; [reflexivity|apply gstop_nodot; exact Hg].
  - rewrite wf_ECol in Hwf. rewrite print_ECol. apply star_head_col; assumption.
  - rewrite wf_EParen in Hwf. rewrite print_EParen. cbn [app]. apply star_none1; [reflexivity|].
    destruct (print_head pg x Hwf) as [t0 [r0 [-> Hs]]]. apply estart_nodot. exact Hs.
  - rewrite print_ETuple. cbn [app]. apply star_none1; [reflexivity|].
    rewrite wf_ETuple in Hwf. destruct xs as [|y [|z zs]]; try discriminate.
    destruct (print_exprs_head pg _ ([TP PRParen] ++ r) Hwf ltac:(discriminate)) as [t0 [r0 [E Hs]]].
    rewrite <- app_assoc. rewrite E. apply estart_nodot. exact Hs.
  - rewrite print_ESubq. cbn [app]. apply star_none1; [reflexivity|].
    rewrite wf_ESubq in Hwf. split_andb. negb_hyps. destruct (sel_head pg q ltac:(assumption)) as [r0 ->]. reflexivity.
  - destruct (func_wf_class pg _ _ _ _ Hwf) as [cls Hc]. destruct (fname_tok_start pg n cls Hc) as [Hs _].
    rewrite wf_EFunc in Hwf. split_andb. rewrite print_EFunc. destruct (id_empty q) eqn:Eq; cbn [app].
    + apply star_none1; [exact Hs|reflexivity].
    + match goal with H : is_no_id q || wf_id pg q = true |- _ => apply Bool.orb_true_iff in H as [H|H] end;
        [destruct q as [[| |] [|? ?]]; discriminate|].
      match goal with H : is_no_id q || _ = true |- _ => apply Bool.orb_true_iff in H as [H|H] end;
        [destruct q as [[| |] [|? ?]]; discriminate|]. split_andb.
      rewrite (rawid_tok n) by assumption.
      destruct (wf_id_tok_shape pg q ltac:(assumption)) as [[vq [-> _]]|[vq [-> _]]]; reflexivity.
  - rewrite print_ECase. apply star_none1; [reflexivity|]. destruct x as [|y]; [|rewrite wf_ECase in Hwf; split_andb].
    + rewrite print_oexpr_NoE. cbn [app]. rewrite wf_ECase in Hwf. split_andb. destruct ws; [discriminate|].
      rewrite print_whens_WCons. reflexivity.
    + rewrite print_oexpr_SomeE. cbn [app]. rewrite wf_oexpr_SomeE in *.
      destruct (print_head pg y ltac:(assumption)) as [t0 [r0 [-> Hs]]]. apply estart_nodot. exact Hs.
  - rewrite print_EConvert. apply star_none1; reflexivity.
  - rewrite print_EConvertUsing. apply star_none1; reflexivity.
  - rewrite print_EInterval. cbn [app]. apply star_none1; [reflexivity|].
    rewrite wf_EInterval in Hwf. split_andb. destruct (print_head pg x ltac:(assumption)) as [t0 [r0 [-> Hs]]].
    apply estart_nodot. exact Hs.
  - rewrite print_EValuesFunc. apply star_none1; reflexivity.
Qed.
End RT.
