(** C12, MySQL wire format beyond length-encoded values: packet framing (incl. payloads of 2^24-1 bytes and
    more), packet classification, binary-protocol rows, column definition packets, COM_STMT_EXECUTE parameters.
    "Relayed protocol messages stay byte-identical; rewritten ones stay well-formed."
    Statements only; proofs in Proofs/MysqlWireExt.v.  [maxp] is MaxPayloadLen: the theorems hold for every
    value in the stated range, MY_MAX_PAYLOAD = 2^24-1 (Gen/WireMysqlConsts.v) is one of them. *)
From Acra Require Import Lib.Bytes Lib.Outcome Lib.GoSlice Gen.WireMysqlConsts Model.MysqlWire Model.MysqlWireExt
  Proofs.MysqlWire Proofs.MysqlWireExt Proofs.MysqlWireExt2.
Local Open Scope Z_scope.

(** ReadPacket then Dump gives back exactly the bytes read, for every byte stream the reader accepts *)
Theorem C12_mysql_packet_relay_identity : forall maxp s p rest,
  read_packet maxp s = Ok (p, rest) -> (lenN (p_data p) < maxp)%N -> dump maxp p ++ rest = s.
Proof. exact mysql_packet_relay_identity. Qed.
Print Assumptions C12_mysql_packet_relay_identity.

(** Dump then ReadPacket is the identity for payloads of ANY length: a payload of maxp bytes or more is split
    into packets of maxp bytes + a shorter (possibly EMPTY) last one with consecutive sequence ids, and read back *)
Theorem C12_mysql_packet_roundtrip : forall maxp h d rest,
  (1 <= maxp < 16777216)%N -> length h = 4%nat -> d <> [] ->
  ((lenN d < maxp)%N -> hdr_len h = lenN d) ->
  read_packet maxp (dump maxp (mk_packet h d) ++ rest)
  = Ok (mk_packet (if (lenN d <? maxp)%N then h else le_enc 3 maxp ++ [hdr_seq h]) d, rest).
Proof. exact mysql_packet_roundtrip. Qed.
Print Assumptions C12_mysql_packet_roundtrip.

Example C12_mysql_packet_roundtrip_instance : (1 <= MY_MAX_PAYLOAD < 16777216)%N.
Proof. vm_compute. split; [discriminate|reflexivity]. Qed.

(** non-vacuity on a small instance (maxp = 3): 6 bytes = two full packets + the empty one *)
Example C12_mysql_packet_roundtrip_nonvacuous :
  dump 3 (mk_packet (hb 0x1030000fe) (hb 0x1616263646566)) = hb 0x1030000fe616263030000ff64656600000000 /\
  read_packet 3 (hb 0x1030000fe616263030000ff6465660000000007) = Ok (mk_packet (hb 0x1030000fe) (hb 0x1616263646566), [x07]).
Proof. split; vm_compute; reflexivity. Qed.

(** the code as found sent a multi-packet payload behind the header of its last part (declared length <> actual)
    and refused a payload of exactly maxp bytes *)
Theorem C12_mysql_multipacket_old_refuted :
  (exists s p, read_packet_old 3 9 s = Ok (p, []) /\ dump_old p <> s /\ hdr_len (p_header p) <> lenN (p_data p))
  /\ (exists s, read_packet_old 3 9 s = Err E_INVALID_LEN /\ read_packet 3 s = Ok (mk_packet (hb 0x103000005) (hb 0x1616263), [])).
Proof. exact mysql_multipacket_old_refuted. Qed.
Print Assumptions C12_mysql_multipacket_old_refuted.

(** a rewritten payload (SetData) of ANY length goes out well-framed: declared lengths = actual, sequence id kept *)
Theorem C12_mysql_set_data_wf : forall maxp p d rest,
  (1 <= maxp < 16777216)%N -> length (p_header p) = 4%nat -> d <> [] ->
  read_packet maxp (dump maxp (set_data p d) ++ rest)
  = Ok (mk_packet (le_enc 3 (N.min (lenN d) maxp) ++ [hdr_seq (p_header p)]) d, rest).
Proof. exact mysql_set_data_wf. Qed.
Print Assumptions C12_mysql_set_data_wf.

(** a rewritten query (COM_QUERY / COM_STMT_PREPARE): command byte kept, length = 1 + len(new text) *)
Theorem C12_mysql_replace_query_wf : forall p q c t, p_data p = c :: t -> length (p_header p) = 4%nat ->
  replace_query p q = Ok (mk_packet (le_enc 3 (lenN q + 1) ++ [hdr_seq (p_header p)]) (c :: q)).
Proof. exact mysql_replace_query_wf. Qed.
Print Assumptions C12_mysql_replace_query_wf.

(** no text row is taken for the end of the rows (so none is forwarded unprocessed), whatever its columns hold *)
Theorem C12_mysql_text_row_not_rows_end : forall maxp (vs : list (option bytes)) (seq : byte),
  (1 <= maxp <= 16777215)%N -> vs <> [] ->
  let d := put_text_row vs in
  is_rows_end maxp (mk_packet (le_enc 3 (N.min (lenN d) maxp) ++ [seq]) d) = Ok false.
Proof. exact mysql_text_row_not_rows_end. Qed.
Print Assumptions C12_mysql_text_row_not_rows_end.

Theorem C12_mysql_is_eof_on_row_refuted :
  let row := put_text_row [Some []; Some (hb 0x16162636465666768)] in
  is_eof (mk_packet (le_enc 3 (lenN row) ++ [x05]) row) = Ok true.
Proof. exact mysql_is_eof_on_row_refuted. Qed.
Print Assumptions C12_mysql_is_eof_on_row_refuted.

(** binary rows: for every NULL bitmap, every list of typed columns and every replacement function the processed
    row is the protocol encoding of the intended row (bitmap and header unchanged, fixed-width and untouched
    columns byte-identical, each rewritten value behind the length prefix of its own length) *)
Theorem C12_mysql_binary_row_rewrite_wf : forall f bm (cols : list (N * bytes)),
  len bm = (Z.of_nat (length cols) + 9) / 8 -> Forall cell_ok cols ->
  process_binary_row true (std_tr f (map fst cols)) (spec_row idf bm cols) (map fst cols) = Ok (spec_row f bm cols).
Proof. exact mysql_binary_row_rewrite_wf. Qed.
Print Assumptions C12_mysql_binary_row_rewrite_wf.

Example C12_mysql_binary_row_rewrite_nonvacuous :
  let cols := [(3%N, hb 0x101020304); (253%N, hb 0x1616263); (252%N, [])] in
  let bm := [x10] in
  let f := fun (i : nat) (d : bytes) => d ++ d in
  len bm = (Z.of_nat (length cols) + 9) / 8 /\ Forall cell_ok cols /\
  spec_row idf bm cols = hb 0x100100102030403616263 /\
  spec_row f bm cols = hb 0x100100102030406616263616263.
Proof. exact mysql_binary_row_rewrite_nonvacuous. Qed.

(** an unchanged column definition is relayed byte-identically *)
Theorem C12_mysql_coldef_relay_identity : forall g maria p f, dump_field g maria false p f = p_header p ++ p_data p.
Proof. reflexivity. Qed.
Print Assumptions C12_mysql_coldef_relay_identity.

(** a CHANGED column definition (type replaced): the payload Dump builds parses back to exactly the fields, for
    every field content (NULL / empty / long names, MariaDB extended type info, default value) ... *)
Theorem C12_mysql_coldef_changed_roundtrip : forall maria f,
  coldef_ok maria f -> len (dump_field_payload true maria f) < TWO63 ->
  parse_result_field true maria (dump_field_payload true maria f) = Ok f.
Proof. exact mysql_coldef_changed_roundtrip. Qed.
Print Assumptions C12_mysql_coldef_changed_roundtrip.

(** ... and its header declares exactly the bytes that follow, with the sequence id received *)
Theorem C12_mysql_coldef_changed_frame : forall maria p f,
  length (p_header p) = 4%nat -> (lenN (dump_field_payload true maria f) < 16777216)%N ->
  exists h, dump_field true maria true p f = h ++ dump_field_payload true maria f /\
            length h = 4%nat /\ hdr_len h = lenN (dump_field_payload true maria f) /\ hdr_seq h = hdr_seq (p_header p).
Proof. exact mysql_coldef_changed_frame. Qed.
Print Assumptions C12_mysql_coldef_changed_frame.

Example C12_mysql_coldef_changed_nonvacuous :
  let f := mk_coldef (Some (hb 0x173)) None (Some []) (Some (hb 0x16e)) (Some (hb 0x16e)) (hb 0x1026162) 33 10 253 4097 31 2 (Some (hb 0x16869)) in
  coldef_ok true f /\ len (dump_field_payload true true f) < TWO63 /\
  dump_field_payload true true f = hb 0x1036465660173fb00016e016e0261620c21000a000000fd01101f0000026869.
Proof.
  cbv zeta. split; [|split; [vm_compute; reflexivity|vm_compute; reflexivity]].
  unfold coldef_ok, ext_ok, small_field. cbn [cd_schema cd_table cd_org_table cd_name cd_org_name cd_ext cd_charset cd_collen cd_type cd_flag cd_decimal cd_deflen cd_default].
  repeat split; try (vm_compute; reflexivity).
  right. exists 2%N, (hb 0x16162). repeat split; vm_compute; try reflexivity; discriminate.
Qed.

Theorem C12_mysql_coldef_dump_old_refuted :
  let f := mk_coldef (Some (hb 0x173)) (Some (hb 0x174)) (Some (hb 0x174)) (Some (hb 0x16e)) (Some (hb 0x16e)) [] 33 10 253 0 0 2 (Some (hb 0x16869)) in
  parse_result_field true false (dump_field_payload true false f) = Ok f /\
  parse_result_field true false (dump_field_payload false false f) <> Ok f /\
  hdr_len (firstn 4 (dump_field false false true (mk_packet (hb 0x122000005) []) f)) <> lenN (dump_field_payload false false f).
Proof. exact mysql_coldef_dump_old_refuted. Qed.
Print Assumptions C12_mysql_coldef_dump_old_refuted.

(** COM_STMT_EXECUTE rewritten by SetParameters, whatever the new values are: command, statement id, flags,
    iteration count, NULL bitmap and bound flag unchanged; header = new payload length + sequence id received *)
Theorem C12_mysql_set_parameters_wf : forall p vals p',
  vals <> [] -> length (p_header p) = 4%nat -> set_parameters true p vals = Ok p' ->
  let k := Z.to_nat (10 + (Z.of_nat (length vals) + 7) / 8 + 1) in
  firstn k (p_data p') = firstn k (p_data p) /\ (k <= length (p_data p))%nat /\
  (k + 2 * length vals <= length (p_data p'))%nat /\
  p_header p' = le_enc 3 (lenN (p_data p')) ++ [hdr_seq (p_header p)].
Proof. exact mysql_set_parameters_wf. Qed.
Print Assumptions C12_mysql_set_parameters_wf.

(** COM_STMT_EXECUTE: a NULL LONG parameter next to a rewritten one failed the whole packet (code as found) *)
Theorem C12_mysql_set_parameters_null_long_old_refuted :
  let p := mk_packet (hb 0x112000000) (hb 0x11701000000000100000001010300fd00026869) in
  let vals := [mk_new_param 3 (Err E_CALLBACK) (Ok (hb 0x100000000)); mk_new_param 252 (Ok false) (Ok (hb 0x10441424344))] in
  set_parameters false p vals = Err E_CALLBACK /\
  set_parameters true p vals = Ok (mk_packet (hb 0x115000000) (hb 0x11701000000000100000001010300fc000441424344)).
Proof. exact mysql_set_parameters_null_long_old_refuted. Qed.
Print Assumptions C12_mysql_set_parameters_null_long_old_refuted.

(** KNOWN FINDING mysql-execute-unsigned-int-sign (not fixed): see Proofs/MysqlWireExt.v *)
Theorem C12_mysql_execute_unsigned_flag_refuted :
  let p := mk_packet (hb 0x112000000) (hb 0x11701000000000100000000010380fd00217075b8026869) in
  let vals := [mk_new_param 3 (Ok true) (Ok (hb 0x1217075b8)); mk_new_param 252 (Ok false) (Ok (hb 0x10441424344))] in
  get_bind_parameters true (p_data p) 2 = Ok (Some [(3%N, Some (hb 0x1217075b8)); (253%N, Some (hb 0x16869))]) /\
  nth 13 (p_data p) x00 = x80 /\
  set_parameters true p vals = Ok (mk_packet (hb 0x119000000) (hb 0x11701000000000100000000010300fc00217075b80441424344)).
Proof. exact mysql_execute_unsigned_flag_refuted. Qed.
Print Assumptions C12_mysql_execute_unsigned_flag_refuted.
