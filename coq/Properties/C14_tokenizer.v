(** C14 — the SQL tokenizer (sqlparser/token.go, Tokenizer.Scan and everything it calls) on ALL byte strings,
    both dialects (and MySQL's ANSI mode), every state reachable from a fresh tokenizer through Scan and the
    parser-side calls (ForceEOF, multi, Error(), reset()).  Model: Model/SqlTokenizer.v (checked: every index and
    slice through Lib/GoSlice.v; the code AFTER patches/fix_mysql_comment_version_only.diff and
    patches/fix_mysql_comment_recursion.diff); tied to the real code by domain c14tok.
    (1) totality  (2) progress / termination  (3) bounds  (4) lexical facts used by C13 / C16. *)
From Acra Require Import Lib.Bytes Lib.Outcome Lib.GoSlice Gen.Prec Model.SqlExpr Proofs.SqlEscape.
From Acra Require Import Gen.SqlKeywords Model.SqlTokenizer Proofs.SqlTokenizer Proofs.SqlTokenizerScan Proofs.SqlTokenizerLex.
Local Open Scope Z_scope.

(** * (1) totality *)
(** the cursor invariant (0 <= bufPos <= len buf, Position = bufPos (+1 at EOF), posVarIndex <= Position, the same for
    the nested tokenizer, whose text is shorter than what was consumed) holds in every reachable state *)
Theorem C14_tok_reachable_invariant : forall d dd sql t,
  reachable d dd sql t -> inv t /\ t_buf t = sql.
Proof. exact reachable_inv. Qed.
Print Assumptions C14_tok_reachable_invariant.

Theorem C14_tok_Scan_total : forall d dd sql t,
  reachable d dd sql t -> exists t' tok val, Scan t = Ok (t', tok, val).
Proof. exact Scan_total. Qed.
Print Assumptions C14_tok_Scan_total.

Theorem C14_tok_Scan_never_panics : forall d dd sql t,
  reachable d dd sql t -> Scan t <> Panic /\ Scan t <> Err E_OUT_OF_FUEL.
Proof. exact Scan_never_panics. Qed.
Print Assumptions C14_tok_Scan_never_panics.

Theorem C14_tok_Error_resync_total : forall d dd sql t,
  reachable d dd sql t -> exists t', error_resync t = Ok t'.
Proof. exact error_resync_total. Qed.
Print Assumptions C14_tok_Error_resync_total.

(** ExtractMysqlComment (fixed) on any text of at least 5 bytes: no panic, and the inner SQL is 5 bytes shorter *)
Theorem C14_tok_extract_mysql_comment_total : forall sql,
  5 <= len sql -> exists inner, extract_mysql_comment sql = Ok inner /\ len inner + 5 <= len sql.
Proof. intros sql H. exact (wp_elim _ _ (extract_mysql_comment_spec sql H)). Qed.
Print Assumptions C14_tok_extract_mysql_comment_total.

(** the pinned code (no test for strings.IndexFunc == -1) panics on a version comment without SQL text:
    "/*!*/", "/*!1*/", "/*!12345*/" (found by domain c14tok; fixed by patches/fix_mysql_comment_version_only.diff).
    These are exactly the buffers scanMySQLSpecificComment hands over for the queries of the same text. *)
Theorem C14_tok_extract_mysql_comment_old_refuted :
  exists sql, 5 <= len sql /\ extract_mysql_comment_old sql = Panic /\ extract_mysql_comment sql = Ok [].
Proof. exists (hb 0x12f2a212a2f). vm_compute. repeat split; intros C; discriminate C. Qed.
Print Assumptions C14_tok_extract_mysql_comment_old_refuted.

Example C14_tok_extract_old_more_witnesses :
  extract_mysql_comment_old (hb 0x12f2a21312a2f) = Panic /\                     (* /*!1*/ *)
  extract_mysql_comment_old (hb 0x12f2a2131323334352a2f) = Panic /\             (* /*!12345*/ *)
  extract_mysql_comment_old (hb 0x12f2a213132333435362a2f) = Ok [x36] /\        (* /*!123456*/: the sixth digit stops IndexFunc *)
  extract_mysql_comment_old (hb 0x12f2a2131323334352073656c6563742a2f) = Ok (hb 0x173656c656374).  (* /*!12345 select*/ *)
Proof. vm_compute. repeat split. Qed.

(** with the fix the query of the reviewer's report tokenizes: select, then 1 (the empty nested tokenizer is dropped) *)
Example C14_tok_version_only_comment_stream :
  tokenize 20 (fresh DMySQL DMySQL (hb 0x173656c656374202f2a2131323334352a2f2031)) =
  Ok [(match kw_lookup KEYWORDS (hb 0x173656c656374) with Some id => id | None => 0 end, hb 0x173656c656374); (TK_INTEGRAL, hb 0x131)].
Proof. vm_compute. reflexivity. Qed.

(** * (2) progress and termination *)
(** [mu]: bytes not yet read (of the tokenizer and of the nested one).  Every call that returns a token
    (anything but 0, LEX_ERROR included) strictly lowers it. *)
Theorem C14_tok_Scan_progress : forall t t' tok val,
  inv t -> Scan t = Ok (t', tok, val) -> mu t' <= mu t /\ (tok <> 0 -> mu t' < mu t) /\ 0 <= mu t'.
Proof. exact Scan_progress. Qed.
Print Assumptions C14_tok_Scan_progress.

Theorem C14_tok_Scan_advances_position : forall t t' tok val,
  inv t -> Scan t = Ok (t', tok, val) -> t_special t = None -> t_special t' = None -> tok <> 0 ->
  Z.max (t_pos t) 1 < t_pos t' <= len (t_buf t) + 1.
Proof. exact Scan_advances_position. Qed.
Print Assumptions C14_tok_Scan_advances_position.

(** n bytes: the token list is produced by at most n+1 calls, has at most n tokens, (3) every token is at most n
    bytes (a positional variable ":v<k>": at most 3 + log2 (n+1)), all tokens together at most
    n + n * (3 + log2 (n+1)) bytes *)
Theorem C14_tok_tokenize_terminates_bounded : forall d dd sql,
  exists l, tokenize (S (length sql)) (fresh d dd sql) = Ok l /\
            (length l <= length sql)%nat /\
            Forall (tok_ok (len sql) (len sql)) l /\
            total_len l <= len sql + pv_bound (len sql) * len sql.
Proof. exact tokenize_fresh. Qed.
Print Assumptions C14_tok_tokenize_terminates_bounded.

(** * (3) bounds, call by call *)
Theorem C14_tok_Scan_bounds : forall t t' tok val,
  inv t -> Scan t = Ok (t', tok, val) ->
  t_buf t' = t_buf t /\
  (len val <= mu t - mu t' \/ (tok = TK_VALUE_ARG /\ len val <= pv_bound (len (t_buf t)))).
Proof. exact Scan_bounds. Qed.
Print Assumptions C14_tok_Scan_bounds.

Theorem C14_tok_nested_tokenizer_bounded : forall d dd sql t s,
  reachable d dd sql t -> t_special t = Some s -> len (t_buf s) + 5 <= t_pos t /\ t_pos t <= len sql + 1.
Proof. exact nested_tokenizer_bounded. Qed.
Print Assumptions C14_tok_nested_tokenizer_bounded.

(** * (4) lexical facts *)
(** scanString with all its cursor arithmetic (scan-ahead over the buffer, slicing, stale lastChar) computes the
    list-level scanner [sspec], for every delimiter byte, every text and every cursor position *)
Theorem C14_tok_scan_string_refines_spec : forall delim typ t0,
  (delim < 256)%N -> delim <> 92%N ->
  forall fuel j acc index, -1 <= index -> (length (skipn j (t_buf t0)) < fuel)%nat ->
  match sspec delim (index =? -1) acc (skipn j (t_buf t0)) with
  | Some (v, rest) =>
      scan_string_loop fuel delim typ (curj t0 j) acc index = Ok (curj t0 (length (t_buf t0) - length rest), typ, v)
  | None => exists t' b, scan_string_loop fuel delim typ (curj t0 j) acc index = Ok (t', TK_LEX_ERROR, b)
  end.
Proof. exact loop_result. Qed.
Print Assumptions C14_tok_scan_string_refines_spec.

(** for the single quote [sspec] is the string scanner of the C13 model *)
Theorem C14_tok_spec_is_C13_scanner : forall s first acc,
  sspec 39 first acc s = SqlExpr.scan_string first acc s.
Proof. intros s first acc. exact (sspec_quote_eq (length s) s first acc (le_n _)). Qed.
Print Assumptions C14_tok_spec_is_C13_scanner.

(** C13 tie: the text sqltypes.encodeBytesSQL writes for ANY value scans back to that value (all dialects), also
    behind blanks, and the cursor ends right behind the closing quote *)
Theorem C14_tok_literal_roundtrip : forall d dd ws v rest,
  blanks ws -> not_quote_head rest ->
  let sql := ws ++ encode_sql v ++ rest in
  Scan (fresh d dd sql) = Ok (curj (fresh d dd sql) (length sql - length rest), TK_SINGLE_QUOTE_STRING, v).
Proof. exact Scan_encoded_literal. Qed.
Print Assumptions C14_tok_literal_roundtrip.

(** blank skipping consumes blanks only and stops AT the first other byte *)
Theorem C14_tok_skip_blank_stops : forall d dd sql j ws c s,
  skipn j sql = ws ++ c :: s -> blanks ws -> is_blank (b2n c) = false ->
  skip_blank (loop_fuel (curj (fresh d dd sql) j)) (curj (fresh d dd sql) j) = Ok (curj (fresh d dd sql) (j + length ws)) /\
  t_last (curj (fresh d dd sql) (j + length ws)) = b2n c.
Proof. exact skip_blank_stops. Qed.
Print Assumptions C14_tok_skip_blank_stops.

(** a block comment is returned verbatim and ends with its first "*/": quotes inside it open no literal, and it
    swallows nothing of the literal behind it, which the next call returns intact *)
Theorem C14_tok_comment_then_literal : forall d dd ws1 body ws2 v rest,
  blanks ws1 -> blanks ws2 -> no_close body -> match body with c :: _ => c <> x21 | [] => True end ->
  not_quote_head rest ->
  let comment := x2f :: x2a :: body ++ [x2a; x2f] in
  let sql := ws1 ++ comment ++ ws2 ++ encode_sql v ++ rest in
  exists t1,
    Scan (fresh d dd sql) = Ok (t1, TK_COMMENT, comment) /\
    Scan t1 = Ok (curj (fresh d dd sql) (length sql - length rest), TK_SINGLE_QUOTE_STRING, v).
Proof. exact Scan_comment_then_literal. Qed.
Print Assumptions C14_tok_comment_then_literal.

(** the same for a "--" comment up to its line feed *)
Theorem C14_tok_line_comment_then_literal : forall d dd ws1 line ws2 v rest,
  blanks ws1 -> blanks ws2 -> Forall (fun c => c <> x0a) line -> not_quote_head rest ->
  let comment := x2d :: x2d :: line ++ [x0a] in
  let sql := ws1 ++ comment ++ ws2 ++ encode_sql v ++ rest in
  exists t1,
    Scan (fresh d dd sql) = Ok (t1, TK_COMMENT, comment) /\
    Scan t1 = Ok (curj (fresh d dd sql) (length sql - length rest), TK_SINGLE_QUOTE_STRING, v).
Proof. exact Scan_line_comment_then_literal. Qed.
Print Assumptions C14_tok_line_comment_then_literal.

(** * non-vacuity *)
Definition ex_sql : bytes := (* select 'it''s' /*! 1*/ ? , "a" `b` 0x1F -- c *)
  hb 0x173656c656374202769742727732720 ++ hb 0x12f2a2120312a2f203f202c2022612220 ++ hb 0x16062602030783146202d2d2063.
Definition ex_tokens := Eval vm_compute in tokenize (S (length ex_sql)) (fresh DMySQL DMySQL ex_sql).
Example C14_tok_example_stream :
  exists l, ex_tokens = Ok l /\ length l = 9%nat /\
            nth 1 l (0, []) = (TK_SINGLE_QUOTE_STRING, hb 0x1697427 ++ hb 0x173) /\
            nth 2 l (0, []) = (TK_INTEGRAL, hb 0x131) /\
            nth 3 l (0, []) = (TK_VALUE_ARG, hb 0x13a7631).
Proof. eexists. split; [reflexivity|]. repeat split. Qed.

(** a reachable state with a nested tokenizer: after the second Scan of "a /*! b c*/" *)
Definition ex_sql2 : bytes := hb 0x161202f2a21206220632a2f.
Definition ex_t0 := fresh DPostgres DMySQL ex_sql2.
Definition ex_t1 := Eval vm_compute in match Scan ex_t0 with Ok (t, _, _) => t | _ => ex_t0 end.
Definition ex_t2 := Eval vm_compute in match Scan ex_t1 with Ok (t, _, _) => t | _ => ex_t0 end.
Definition ex_sub := Eval vm_compute in match t_special ex_t2 with Some s => s | None => ex_t0 end.
Example C14_tok_example_nested :
  Scan ex_t0 = Ok (ex_t1, TK_ID, hb 0x161) /\ Scan ex_t1 = Ok (ex_t2, TK_ID, hb 0x162) /\
  t_special ex_t2 = Some ex_sub /\ t_buf ex_sub = hb 0x1622063 /\ t_dia ex_sub = DMySQL /\
  reachable DPostgres DMySQL ex_sql2 ex_t2.
Proof.
  assert (E1 : Scan ex_t0 = Ok (ex_t1, TK_ID, hb 0x161)) by (vm_compute; reflexivity).
  assert (E2 : Scan ex_t1 = Ok (ex_t2, TK_ID, hb 0x162)) by (vm_compute; reflexivity).
  split; [exact E1|]. split; [exact E2|]. split; [reflexivity|]. split; [reflexivity|]. split; [reflexivity|].
  exact (R_scan _ _ _ ex_t1 ex_t2 _ _ (R_scan _ _ _ ex_t0 ex_t1 _ _ (R_fresh _ _ _) E1) E2).
Qed.

(** premises of the lexical theorems *)
Example C14_tok_example_blanks : blanks [x20; x0a; x09; x0d].
Proof. repeat constructor. Qed.
Example C14_tok_example_no_close : no_close (hb 0x120272a202a2a2022).
Proof. vm_compute. repeat split; intros [A B]; discriminate. Qed.
Example C14_tok_example_roundtrip :
  Scan (fresh DPostgres DPostgres ([x20] ++ encode_sql (hb 0x16127625c) ++ [x2c]))
  = Ok (curj (fresh DPostgres DPostgres ([x20] ++ encode_sql (hb 0x16127625c) ++ [x2c])) 9, TK_SINGLE_QUOTE_STRING, hb 0x16127625c).
Proof. vm_compute. reflexivity. Qed.
