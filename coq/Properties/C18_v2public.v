(** C18 (extension v2public, strengthening s59) — keystore v2 export WITHOUT the private bit
    (`acra-keys export <key-id>` without --private_keys = keystore.ExportPublicOnly; ExportAllKeys alone)
    followed by import.  Only statements, closed by [exact].
    Models: Model/KeyRingV2Ext.v ([decrypt_key_data] = export.go decryptKeyData PER STORED FORMAT,
    [export_key] = decryptAllKeyData, [export_ring] = exportASN1, [export_rings] = exportKeyRings, [import_rings]),
    Model/PublicExportV2Ext.v (what that comes to without the private bit; the PUBLIC VIEW of a ring:
    keys in order with sequence number, state — destroyed markers included —, validity, per format the
    format and public key, and the current marker), Model/DerV2Ext.v ([sorted_rings]: the order in which
    the importer meets the rings and formats of the DER bundle).  Replayed byte-exactly against the real
    code by the domains c18pub (every mode x ring shape x target) and c18v2.
    The public-only path performs no cryptographic operation: no theorem here needs [Correct C]. *)
From Coq Require Import List NArith ZArith Bool Permutation.
From Acra Require Import Lib.Bytes Lib.Outcome Crypto.Interface Crypto.Stub Gen.KsConsts Gen.X18Consts
  Model.KeyAtRest Model.DerV2Ext Model.KeyRingV2Ext Model.BundleV2Ext Model.PublicExportV2Ext
  Proofs.DerV2Ext Proofs.KeyRingV2Ext Proofs.ExportImportV2Ext Proofs.HistoryV2Ext Proofs.WitnessV2Ext
  Proofs.PublicExportV2Ext Proofs.WitnessPublicV2Ext.
Import ListNotations.

(** HEADLINE.  For every crypto instance, EVERY source history of ring operations (any formats, any
    number of formats per key, rotations, state changes, DESTROYED keys anywhere), every selection of
    rings, every export mode without the private bit, every target back end whatsoever (empty, other
    rings, the same rings) with a delegate that overwrites (or a target not holding the selected rings):
    if the export succeeds and ImportKeyRings of the rings in DER SET order succeeds, then
      (a) every selected ring exists in the source (a missing ring is an error of the export);
      (b) NO KEY-PAIR RING IS DROPPED: every selected ring to which the history only ever added key pairs
          — whatever it rotated, re-stated or destroyed in it — has the SAME PUBLIC VIEW in the target as
          in the source (public keys, formats, states, validity, sequence numbers, order, destroyed
          markers, current key), and the ring stored in the target has no private / symmetric field;
      (c) the same for every selected ring all of whose stored formats have public data;
      (d) a selected ring with a stored format without public data (symmetric keys) is left out and the
          target's ring of that name is untouched; (e) so is every ring outside the selection;
      (f) NO private / symmetric field — plaintext or sealed — is in any ring of the bundle, and the import
          performs no encryption (draws no nonce). *)
Theorem C18_v2_public_export_import_identity :
  forall (C : crypto) (smaster : bytes) (stape : list bytes) (sops : list rop) (mode : N) (paths : list bytes)
         (rs : list ring) (tmaster : bytes) (deleg : ring -> ring -> decision) (tb : backend) (tape : list bytes),
  public_mode mode -> NoDup paths ->
  export_rings C smaster (built C smaster stape sops) mode paths = Ok rs ->
  (always_imports deleg \/ Forall (fun p => b_get p tb = None) paths) ->
  let sb := built C smaster stape sops in
  let i := import_rings C tmaster deleg tb tape (sorted_rings rs) in
  im_res i = Ok tt ->
  (forall p, In p paths -> store_pub_view sb p <> None) /\
  (forall p, In p paths -> keypair_ring p sops ->
     store_pub_view (im_b i) p = store_pub_view sb p /\ stored_stripped (im_b i) p) /\
  (forall p r, In p paths -> b_get p sb = Some r -> ring_all_public r = true ->
     store_pub_view (im_b i) p = store_pub_view sb p /\ stored_stripped (im_b i) p) /\
  (forall p r, In p paths -> b_get p sb = Some r -> ring_all_public r = false -> b_get p (im_b i) = b_get p tb) /\
  (forall q, ~ In q paths -> b_get q (im_b i) = b_get q tb) /\
  Forall stripped_ring rs /\ im_tape i = tape.
Proof. exact public_export_import_identity_histories. Qed.
Print Assumptions C18_v2_public_export_import_identity.

(** the same for ANY source back end that keeps each ring under its purpose (not only built ones) *)
Theorem C18_v2_public_export_import_identity_any_source :
  forall (C : crypto) (smaster : bytes) (sb : backend) (mode : N) (paths : list bytes) (rs : list ring)
         (tmaster : bytes) (deleg : ring -> ring -> decision) (tb : backend) (tape : list bytes),
  public_mode mode -> NoDup paths -> purpose_ok sb ->
  export_rings C smaster sb mode paths = Ok rs ->
  (always_imports deleg \/ Forall (fun p => b_get p tb = None) paths) ->
  let i := import_rings C tmaster deleg tb tape (sorted_rings rs) in
  im_res i = Ok tt ->
  (forall p, In p paths -> exists r, b_get p sb = Some r) /\
  (forall p r, In p paths -> b_get p sb = Some r -> ring_all_public r = true ->
     store_pub_view (im_b i) p = store_pub_view sb p /\ stored_stripped (im_b i) p) /\
  (forall p r, In p paths -> b_get p sb = Some r -> ring_all_public r = false -> b_get p (im_b i) = b_get p tb) /\
  (forall q, ~ In q paths -> b_get q (im_b i) = b_get q tb) /\
  Forall stripped_ring rs /\ im_tape i = tape.
Proof. exact public_export_import_identity. Qed.
Print Assumptions C18_v2_public_export_import_identity_any_source.

(** what is in the bundle, exactly: the export fails iff a selected ring is missing; otherwise the bundle
    holds, in selection order, the selected rings all of whose stored formats have public data, with the
    private and symmetric fields removed and everything else (keys, order, states, validity, destroyed
    markers, current) as stored *)
Theorem C18_v2_public_export_contents :
  forall (C : crypto) (master : bytes) (b : backend) (mode : N) (paths : list bytes) (rs : list ring),
  public_mode mode -> export_rings C master b mode paths = Ok rs ->
  Forall (fun p => exists r, b_get p b = Some r) paths /\ rs = flat_map (pub_pick b) paths.
Proof. exact (fun C master b mode paths rs Hm => export_rings_public C master b mode paths Hm rs). Qed.
Print Assumptions C18_v2_public_export_contents.

Theorem C18_v2_public_export_succeeds :
  forall (C : crypto) (master : bytes) (b : backend) (mode : N) (paths : list bytes),
  public_mode mode -> Forall (fun p => exists r, b_get p b = Some r) paths ->
  export_rings C master b mode paths = Ok (flat_map (pub_pick b) paths).
Proof. exact export_rings_public_ok. Qed.
Print Assumptions C18_v2_public_export_succeeds.

(** per ring: the decision is taken per stored FORMAT; a destroyed marker (no format) never excludes a ring *)
Theorem C18_v2_public_export_ring :
  forall (C : crypto) (master : bytes) (b : backend) (mode : N) (path : bytes) (r : ring),
  public_mode mode -> b_get path b = Some r ->
  export_ring C master b mode path = if ring_all_public r then Ok (strip_ring r) else Err E_NO_PUBLIC_DATA.
Proof. exact export_ring_public. Qed.
Print Assumptions C18_v2_public_export_ring.

(** by induction over EVERY history: a ring that only ever received key pairs has public data in every
    stored format of every key, whatever was destroyed; and every ring is stored under its purpose *)
Theorem C18_v2_keypair_ring_always_exportable :
  forall (C : crypto) (master : bytes) (tape : list bytes) (ops : list rop) (p : bytes) (r : ring),
  keypair_ring p ops -> b_get p (built C master tape ops) = Some r -> ring_all_public r = true.
Proof. exact history_keypair_ring_all_public. Qed.
Print Assumptions C18_v2_keypair_ring_always_exportable.

Theorem C18_v2_history_purpose_is_path :
  forall (C : crypto) (master : bytes) (tape : list bytes) (ops : list rop), purpose_ok (built C master tape ops).
Proof. exact history_purpose_ok. Qed.
Print Assumptions C18_v2_history_purpose_is_path.

(** NON-INTERFERENCE of the bundle: two source stores — any crypto, any master keys — whose selected rings
    agree once private and symmetric fields are removed export the SAME ring list (hence the same bundle
    plaintext): the public-only bundle is a function of public data only *)
Theorem C18_v2_public_export_independent_of_secrets :
  forall (C1 C2 : crypto) (m1 m2 : bytes) (b1 b2 : backend) (mode : N) (paths : list bytes),
  public_mode mode ->
  (forall p, In p paths -> option_map strip_ring (b_get p b1) = option_map strip_ring (b_get p b2)) ->
  export_rings C1 m1 b1 mode paths = export_rings C2 m2 b2 mode paths.
Proof. exact public_export_ignores_secrets. Qed.
Print Assumptions C18_v2_public_export_independent_of_secrets.

(** import side alone: a ring list without private fields, if imported successfully, is stored key by
    key as it is (and each key has at most one format), with no nonce drawn *)
Theorem C18_v2_public_import_stores_as_is :
  forall (C : crypto) (master : bytes) (deleg : ring -> ring -> decision) (rs : list ring) (b : backend) (tape : list bytes),
  Forall stripped_ring rs -> NoDup (map r_purpose rs) ->
  (always_imports deleg \/ Forall (fun nr => b_get (r_purpose nr) b = None) rs) ->
  im_res (import_rings C master deleg b tape rs) = Ok tt ->
  im_tape (import_rings C master deleg b tape rs) = tape /\
  Forall (fun nr => Forall single (r_keys nr) /\
            exists r', b_get (r_purpose nr) (im_b (import_rings C master deleg b tape rs)) = Some r' /\
                       r_keys r' = r_keys nr /\ r_current r' = r_current nr) rs.
Proof. exact import_rings_stripped. Qed.
Print Assumptions C18_v2_public_import_stores_as_is.

(** the public view is what a reader gets: CurrentKey, AllKeys, State, ValidSince, ValidUntil, Formats and
    PublicKey of the stored ring — under any master key — are functions of its public view *)
Theorem C18_v2_public_getters_read_public_view :
  forall (C : crypto) (master path : bytes) (r : ring),
  let v := view_ring C master path r in
  let pv := pub_ring r in
  g_current v = pg_current pv /\ g_all_keys v = pg_all_keys pv /\
  (forall seq, g_state v seq = pg_state pv seq /\ g_since v seq = pg_since pv seq /\
               g_until v seq = pg_until pv seq /\ g_formats v seq = pg_formats pv seq) /\
  (forall seq format, g_public v seq format = pg_public pv seq format).
Proof. exact public_getters_of_pub_view. Qed.
Print Assumptions C18_v2_public_getters_read_public_view.

(** KNOWN FINDING v2-public-export-drops-mixed-ring (API-only ring shape): a ring with a key pair and a
    symmetric key has a readable public key, is exported in full with the private bit, but the
    public-only export of exactly this ring succeeds with an empty bundle *)
Theorem C18_v2_public_export_mixed_ring_refuted :
  exists (ops : list rop) (p pub : bytes),
    let sb := built Stub w_master1 wp_tape ops in
    option_map (fun v => g_public v 1 FORMAT_KEYPAIR) (store_view Stub w_master1 sb p) = Some (Ok pub) /\
    pub <> [] /\
    export_rings Stub w_master1 sb EXPORT_PUBLIC_ONLY [p] = Ok [] /\
    (exists rs, export_rings Stub w_master1 sb EXPORT_PRIVATE_KEYS [p] = Ok rs /\ length rs = 1%nat).
Proof. exact public_export_mixed_ring_refuted. Qed.
Print Assumptions C18_v2_public_export_mixed_ring_refuted.

(** ======================= non-vacuity ======================= *)
Example C18_v2_public_modes :
  public_mode EXPORT_PUBLIC_ONLY /\ public_mode EXPORT_ALL_KEYS /\ ~ public_mode EXPORT_PRIVATE_KEYS /\
  ~ public_mode (N.lor EXPORT_PUBLIC_ONLY EXPORT_PRIVATE_KEYS).
Proof. exact wp_public_modes. Qed.
(** a rotated storage ring whose old key was destroyed + a poison ring + a symmetric ring, exported
    public-only and imported over a target holding the storage ring with another key: the premises hold *)
Example C18_v2_public_scenario_premises :
  wp_check = true /\ NoDup wp_paths /\ keypair_ring w_path_pair wp_ops /\ keypair_ring RING_POISON wp_ops /\
  ~ keypair_ring w_path_sym wp_ops.
Proof. exact (conj wp_check_true (conj wp_nodup (conj (proj1 wp_keypair_rings) (conj (proj2 wp_keypair_rings) wp_sym_ring_not_keypair)))). Qed.
Example C18_v2_public_scenario_getters :
  option_map wp_queries (store_view Stub w_master2 (im_b wp_import) w_path_pair) =
    Some (Ok 2%Z, [2%Z; 1%Z], Ok STATE_DESTROYED, Err E_KEY_DESTROYED, Ok (repeat_bytes x45 45),
          Err E_NO_KEY_DATA, Ok w_t1) /\
  option_map wp_queries (store_view Stub w_master1 wp_src w_path_pair) =
    Some (Ok 2%Z, [2%Z; 1%Z], Ok STATE_DESTROYED, Err E_KEY_DESTROYED, Ok (repeat_bytes x45 45),
          Ok (repeat_bytes x45 44 ++ [x01]), Ok w_t1) /\
  store_pub_view (im_b wp_import) w_path_pair = store_pub_view wp_src w_path_pair /\
  store_pub_view (im_b wp_import) RING_POISON = store_pub_view wp_src RING_POISON /\
  store_pub_view wp_src RING_POISON <> None /\
  b_get w_path_sym (im_b wp_import) = None /\ b_get w_path_sym wp_src <> None /\
  b_get RING_AUDIT_LOG (im_b wp_import) = b_get RING_AUDIT_LOG wp_tgt /\ b_get RING_AUDIT_LOG wp_tgt <> None.
Proof. exact wp_getters_agree. Qed.
