(** Property C14 (robustness), part "hand-written text decoders" (work package x14log): the audit-log line
    parsers and the log file scanner, the key file name / key ring path parsers of both key stores and the
    smaller slicers of network/, acra-censor/common and the translator's HTTP API never panic, terminate (fuel
    never runs out: every result is [Ok]/[Err] with the stated value) and produce output bounded by their input,
    for ALL byte strings.  Models: Model/ParsersExt.v (checked: every index through Lib/GoSlice.v), replayed
    against the real functions by harness domain c14par on every run. *)
From Acra Require Import Lib.Bytes Lib.Outcome Lib.GoSlice Gen.AuditLogConsts Gen.KsConsts Gen.ParsersConsts
  Gen.Consts Model.AuditLog Model.Path Model.Backup Model.EnvelopeChecked Model.ParsersExt Model.HashExt Model.RunParsersExt
  Proofs.ParsersExt Proofs.HashExt Proofs.ParsersExtRun.
Local Open Scope Z_scope.

(** ===== library functions written out with explicit indices ===== *)
Theorem C14_last_index_is_model : forall tok s : bytes,
  c_last_index tok s = Ok (match last_index tok s with Some i => Z.of_nat i | None => -1 end).
Proof. exact c_last_index_ok. Qed.
Print Assumptions C14_last_index_is_model.

(** the scan loop makes progress: with fuel [len s + 2] it always finishes (never [E_OUT_OF_FUEL]) *)
Theorem C14_last_index_fuel : forall tok s : bytes, c_last_index tok s <> Err E_OUT_OF_FUEL /\ c_last_index tok s <> Panic.
Proof. intros tok s. rewrite c_last_index_ok. split; discriminate. Qed.
Print Assumptions C14_last_index_fuel.

Theorem C14_hex_decode_is_model : forall src : bytes, c_hex_decode src = Ok (hex_decode src).
Proof. exact c_hex_decode_ok. Qed.
Print Assumptions C14_hex_decode_is_model.

Theorem C14_hex_decode_bounded : forall src out : bytes, c_hex_decode src = Ok (Some out) -> (2 * length out = length src)%nat.
Proof. intros src out H. rewrite c_hex_decode_ok in H. injection H as H. apply hex_decode_length in H. lia. Qed.
Print Assumptions C14_hex_decode_bounded.

Theorem C14_has_suffix_is_model : forall suf s : bytes, c_has_suffix suf s = Ok (has_suffix suf s).
Proof. exact c_has_suffix_ok. Qed.
Print Assumptions C14_has_suffix_is_model.

Theorem C14_trim_suffix_is_model : forall suf s : bytes,
  c_trim_suffix suf s = Ok (if has_suffix suf s then trim_suffix suf s else s).
Proof. exact c_trim_suffix_ok. Qed.
Print Assumptions C14_trim_suffix_is_model.

(** ===== 1. audit-log line parsers ===== *)
Theorem C14_split_integrity_is_model : forall line : bytes, c_split_integrity line = Ok (split_last line).
Proof. exact c_split_integrity_ok. Qed.
Print Assumptions C14_split_integrity_is_model.

(** checked = functional model of C20, for every line and both formats *)
Theorem C14_parse_text_is_model : forall (cef : bool) (line : bytes), c_parse_text cef line = Ok (parse_text cef line).
Proof. exact c_parse_text_ok. Qed.
Print Assumptions C14_parse_text_is_model.

Theorem C14_parse_text_total : forall (cef : bool) (line : bytes),
  c_parse_text cef line <> Panic /\ c_parse_text cef line <> Err E_OUT_OF_FUEL.
Proof. intros cef line. rewrite c_parse_text_ok. split; discriminate. Qed.
Print Assumptions C14_parse_text_total.

Theorem C14_line_pres_is_model : forall (cef : bool) (line : bytes),
  c_line_pres cef line = Ok (line_pres (parse_text cef) line).
Proof. exact c_line_pres_ok. Qed.
Print Assumptions C14_line_pres_is_model.

(** what is cut out of a line is no larger than the line: signed part + token + hex text of the check *)
Theorem C14_parse_text_bounded : forall (cef : bool) (line : bytes) (p : parsed),
  c_parse_text cef line = Ok (POk p) ->
  (length (p_raw p) + length AL_SPLIT_TOKEN + 2 * length (p_integ p) <= length line)%nat.
Proof. intros cef line p H. rewrite c_parse_text_ok in H. injection H as H. exact (parse_text_bounded cef line p H). Qed.
Print Assumptions C14_parse_text_bounded.

(** log file scanner (after fix_auditlog_scanner_err): every line is delivered or an error is reported,
    and a delivered line fits the scanner's buffer *)
Theorem C14_scan_file_total : forall file : bytes, scan_file file <> Panic.
Proof. exact scan_file_never_panics. Qed.
Print Assumptions C14_scan_file_total.

Theorem C14_scan_file_bounded : forall (file : bytes) (ls : list bytes),
  scan_file file = Ok ls -> ls = split_lines file /\ Forall (fun l => len l + 2 <= PAR_MAX_LOG_LINE) ls.
Proof. exact scan_file_bounded. Qed.
Print Assumptions C14_scan_file_bounded.

(** ===== 2. keystore v1: key file names ===== *)
Theorem C14_describe_v1_total : forall name : bytes, c_describe_v1 name <> Panic.
Proof. exact c_describe_v1_total. Qed.
Print Assumptions C14_describe_v1_total.

Theorem C14_describe_v1_bounded : forall name kid cid pur : bytes,
  c_describe_v1 name = Ok (kid, cid, pur) -> (length kid <= length name)%nat /\ (length cid <= length name)%nat.
Proof. intros name kid cid pur H. pose proof (c_describe_v1_spec name) as S. rewrite H in S. exact S. Qed.
Print Assumptions C14_describe_v1_bounded.

Theorem C14_describe_key_file_total : forall name : bytes, c_describe_key_file name <> Panic.
Proof. exact c_describe_key_file_total. Qed.
Print Assumptions C14_describe_key_file_total.

(** bound relative to the name and its path.Clean form (path.Clean("") = "." is the only growth) *)
Theorem C14_describe_key_file_bounded : forall name kid cid pur : bytes,
  c_describe_key_file name = Ok (kid, cid, pur) ->
  (length kid <= Nat.max (length name) (length (clean name)))%nat /\
  (length cid <= Nat.max (length name) (length (clean name)))%nat.
Proof. exact c_describe_key_file_bounded. Qed.
Print Assumptions C14_describe_key_file_bounded.

(** getContextFromFilename: total for both answers of the time.Parse test, never an error *)
Theorem C14_ctx_from_filename_total : forall (hist : bool) (fname : bytes),
  exists purpose cid ctx, c_ctx_from_filename hist fname = Ok (purpose, cid, ctx).
Proof. exact c_ctx_from_filename_total. Qed.
Print Assumptions C14_ctx_from_filename_total.

Theorem C14_ctx_from_base_name_bounded : forall fname purpose cid ctx : bytes,
  c_ctx_from_base_name fname = Ok (purpose, cid, ctx) -> (length cid + length ctx <= length fname)%nat.
Proof. intros fname purpose cid ctx H. pose proof (c_ctx_from_base_name_spec fname) as S. rewrite H in S. exact S. Qed.
Print Assumptions C14_ctx_from_base_name_bounded.

(** checked = the functional classification C18 uses (Model/Backup.v), for every simple name *)
Theorem C14_ctx_from_base_name_is_model : forall n : bytes,
  exists p cid ctx, c_ctx_from_base_name n = Ok (p, cid, ctx) /\ cid ++ ctx = ctx_from_name n.
Proof. exact c_ctx_from_base_name_is_model. Qed.
Print Assumptions C14_ctx_from_base_name_is_model.

(** ===== 3. keystore v2: ring paths ===== *)
Theorem C14_describe_key_ring_total : forall path : bytes, c_describe_key_ring path <> Panic.
Proof. intros path H. pose proof (c_describe_key_ring_spec path) as S. rewrite H in S. exact S. Qed.
Print Assumptions C14_describe_key_ring_total.

Theorem C14_describe_key_ring_bounded : forall path kid cid pur : bytes,
  c_describe_key_ring path = Ok (kid, cid, pur) -> (length kid <= length path)%nat /\ (length cid <= length path)%nat.
Proof. intros path kid cid pur H. pose proof (c_describe_key_ring_spec path) as S. rewrite H in S. exact S. Qed.
Print Assumptions C14_describe_key_ring_bounded.

(** ===== 4. smaller slicers ===== *)
Theorem C14_sni_or_hostname_total : forall sni hostname : bytes,
  exists r, c_sni_or_hostname sni hostname = Ok r /\ (length r <= Nat.max (length sni) (length hostname))%nat.
Proof. exact c_sni_or_hostname_spec. Qed.
Print Assumptions C14_sni_or_hostname_total.

Theorem C14_trim_to_n_total : forall (q : bytes) (n : Z), 0 <= n ->
  exists r, c_trim_to_n q n = Ok r /\ (length r <= length q)%nat /\ (len r <= Z.max n 0 \/ r = q).
Proof. exact c_trim_to_n_spec. Qed.
Print Assumptions C14_trim_to_n_total.

(** the guard [0 <= n] is needed (acra only passes the constant LogQueryLength) *)
Theorem C14_trim_to_n_negative_refuted : exists q n, c_trim_to_n q n = Panic.
Proof. exact c_trim_to_n_negative_refuted. Qed.
Print Assumptions C14_trim_to_n_negative_refuted.

Theorem C14_tls_convert_bounded : forall (H : bytes -> bytes) (id : bytes),
  length (tls_convert H id) = (2 * length (H id))%nat.
Proof. exact tls_convert_length. Qed.
Print Assumptions C14_tls_convert_bounded.

Theorem C14_binary_unmarshal_total : forall (dec : bytes -> bytes) (raw : bytes),
  (forall src, len (dec src) <= b64_decoded_len (len src)) -> go_len raw ->
  match c_binary_unmarshal dec raw with
  | Ok (Some out) => (length out <= length raw)%nat
  | Ok None => True
  | Err _ => False
  | Panic => False
  end.
Proof. exact c_binary_unmarshal_spec. Qed.
Print Assumptions C14_binary_unmarshal_total.

(** the linear-time splitter the replay runs is the model's *)
Theorem C14_scan_file_fast_is_model : forall file : bytes, scan_file_fast file = scan_file file.
Proof. exact scan_file_fast_eq. Qed.
Print Assumptions C14_scan_file_fast_is_model.

(** ===== 5. searchable-hash extractor and everything that slices behind it (hmac/hash.go, hmac/dataProcessor.go),
    for EVERY registry of hash functions with non-negative digest sizes, slices with capacity = length ===== *)
Theorem C14_hx_ExtractHash_total : forall (reg : list (N * Z)) (data : bytes), reg_ok reg -> hx_extract_hash reg data <> Panic.
Proof. exact hx_extract_hash_total. Qed.
Print Assumptions C14_hx_ExtractHash_total.

(** a found hash is a prefix of the value: [size + 1 <= len data] (the length check that m58 weakens) *)
Theorem C14_hx_ExtractHash_bounded : forall (reg : list (N * Z)) (data h : bytes), reg_ok reg ->
  hx_extract_hash reg data = Ok (Some h) ->
  exists size, 0 <= size /\ size + 1 <= len data /\ h = firstn (Z.to_nat (size + 1)) data.
Proof. intros reg data h Hreg E. pose proof (hx_extract_hash_spec reg data Hreg) as S. rewrite E in S. exact S. Qed.
Print Assumptions C14_hx_ExtractHash_bounded.

Theorem C14_hx_ExtractHashAndData_total : forall (reg : list (N * Z)) (data : bytes), reg_ok reg ->
  match hx_extract_hash_and_data reg data with
  | Ok None => True
  | Ok (Some (h, rest)) => data = h ++ rest
  | Err _ => False
  | Panic => False
  end.
Proof. exact hx_extract_hash_and_data_spec. Qed.
Print Assumptions C14_hx_ExtractHashAndData_total.

(** Processor.OnColumn for every envelope matcher: never panics; what is passed on is the column or its tail
    behind the hash, and the kept raw copy is the column *)
Theorem C14_hx_OnColumn_total : forall (reg : list (N * Z)) (matcher : bytes -> bool) (data : bytes), reg_ok reg ->
  match hx_on_column reg matcher data with
  | Ok (out, None) => out = data
  | Ok (out, Some (hashData, raw)) => raw = data /\ data = hashData ++ out
  | Err _ => False
  | Panic => False
  end.
Proof. exact hx_on_column_spec. Qed.
Print Assumptions C14_hx_OnColumn_total.

(** NewHashProcessor / DecryptRotatedSearchableAcraStruct / DecryptRotatedSearchableAcraBlock: the slicing in front
    of the inner step never panics, whatever the inner step is (as long as it does not panic itself) *)
Theorem C14_hx_strip_then_total : forall (reg : list (N * Z)) (A : Type) (inner : bytes -> res A) (data : bytes),
  reg_ok reg -> (forall x, inner x <> Panic) -> hx_strip_then reg inner data <> Panic.
Proof. intros reg A inner data. apply hx_strip_then_total. Qed.
Print Assumptions C14_hx_strip_then_total.

Theorem C14_hx_registry_ok : reg_ok HX_REGISTRY.
Proof. exact hx_registry_ok. Qed.
Print Assumptions C14_hx_registry_ok.

(** for the registry acra has, this is the extractor of Model/EnvelopeChecked.v (C14_envelope) *)
Theorem C14_hx_ExtractHash_is_model : forall data : bytes,
  hx_extract_hash [(b2n HMAC_FUNC_SHA256, zn (HMAC_HASH_SIZE - 1))] data = extract_hash_checked data.
Proof. exact hx_extract_hash_is_model. Qed.
Print Assumptions C14_hx_ExtractHash_is_model.
Example C14_hx_registry_is_the_modelled_one : HX_REGISTRY = [(b2n HMAC_FUNC_SHA256, zn (HMAC_HASH_SIZE - 1))].
Proof. vm_compute. reflexivity. Qed.

(** exhaustive boundary table: every length 0..81 x every first byte, capacity = length: no panic in
    ExtractHashAndData, Processor.OnColumn (matcher always true) and the strip-then-process shape *)
Theorem C14_hx_sweep_no_panic :
  hx_sweep_ok (fun d => negb (is_panic (hx_extract_hash_and_data HX_REGISTRY d))
                        && negb (is_panic (hx_on_column HX_REGISTRY (fun _ => true) d))
                        && negb (is_panic (hx_strip_then HX_REGISTRY (fun x => Ok x) d))) = true.
Proof. exact hx_sweep_no_panic. Qed.
Print Assumptions C14_hx_sweep_no_panic.

(** the length check is needed: the seeded variant m58 ([len(data) < size]) panics on a value of exactly 32 bytes *)
Theorem C14_hx_ExtractHash_m58_refuted :
  exists data : bytes, length data = 32%nat /\ hx_extract_hash_m58 HX_REGISTRY data = Panic /\ hx_extract_hash HX_REGISTRY data = Ok None.
Proof. exact hx_extract_hash_m58_refuted. Qed.
Print Assumptions C14_hx_ExtractHash_m58_refuted.

(** ===== non-vacuity: concrete runs, and the generated literal tables are the ones the model names ===== *)
From Coq Require Import String.
Local Open Scope string_scope.
Definition ex_line : bytes := bytes_of_string "msg=a integrity=x integrity=00aa chain=new".
Example C14_parsers_nonvacuous_line :
  c_parse_text false ex_line = Ok (POk (mk_parsed (bytes_of_string "msg=a integrity=x") [x00; xaa] true false)).
Proof. vm_compute. reflexivity. Qed.
Example C14_parsers_nonvacuous_cef_trim :
  c_parse_text true (bytes_of_string "CEF:0|a\|b|c\=d integrity=00AA  ") =
  Ok (POk (mk_parsed (bytes_of_string "CEF:0|a\|b|c\=d") [x00; xaa] false false)).
Proof. vm_compute. reflexivity. Qed.
Example C14_parsers_nonvacuous_skip_err :
  c_parse_text false (bytes_of_string "no field") = Ok PSkip /\ c_parse_text false (bytes_of_string "x integrity=0") = Ok PErr.
Proof. vm_compute. split; reflexivity. Qed.
Example C14_parsers_nonvacuous_v1 :
  c_describe_key_file (bytes_of_string "a_b_storage_sym") = Ok (bytes_of_string "a_b_storage_sym", bytes_of_string "a_b", PAR_PURPOSE_StorageClientSymmetricKey)
  /\ c_describe_key_file (bytes_of_string "_") = Err E_UNRECOGNIZED.
Proof. vm_compute. split; reflexivity. Qed.
Example C14_parsers_nonvacuous_v2 :
  c_describe_key_file (bytes_of_string "x/client/../client/id7/hmac-sym.keyring") =
    Ok (bytes_of_string "hmac-sym.keyring", bytes_of_string "id7", PAR_PURPOSE_SearchHMAC)
  /\ c_describe_key_file (bytes_of_string "client/storage.keyring") = Err E_V2_PATH.
Proof. vm_compute. split; reflexivity. Qed.
Example C14_parsers_nonvacuous_ctx :
  c_ctx_from_filename true (bytes_of_string "keys/cl_storage_sym.old/2020-01-02T03:04:05.1") =
    Ok (PAR_PURPOSE_StorageClientSymmetricKey, bytes_of_string "cl", []).
Proof. vm_compute. reflexivity. Qed.
Example C14_parsers_nonvacuous_ring :
  c_describe_key_ring (bytes_of_string "client/id7/storage-sym") =
    Ok (bytes_of_string "client/id7/storage-sym", bytes_of_string "id7", PAR_V2_PURPOSE_StorageClientSym).
Proof. vm_compute. reflexivity. Qed.
Example C14_parsers_nonvacuous_scan :
  scan_file (bytes_of_string "a
b") = Ok [bytes_of_string "a"; bytes_of_string "b"].
Proof. vm_compute. reflexivity. Qed.
(** the go/ast literal tables have the shape the model indexes into *)
Example C14_parsers_literal_tables :
  map lit1 [0; 1; 2; 4; 6; 8; 9; 10; 11; 13; 14; 15; 16; 17; 18; 19; 20]%nat =
    map bytes_of_string ["_"; ".pub"; "hmac"; "storage"; "storage.pub"; "zone"; "zone.pub"; "storage"; "sym"; "zone"; "sym"; "log"; "key";
                         "server"; "server.pub"; "translator"; "translator.pub"]%string
  /\ map lit2 [0; 1; 2; 4; 5; 6; 7; 9; 10; 11]%nat =
    map bytes_of_string [".keyring"; ""; "client"; ".keyring"; "hmac-sym"; "storage"; "storage-sym"; "audit-log"; "poison-record"; "poison-record-sym"]%string
  /\ map lit1 [3; 5; 7; 12]%nat = map bytes_of_string ["_"; "_"; "_"; "_"]%string.
Proof. vm_compute. repeat split; reflexivity. Qed.
