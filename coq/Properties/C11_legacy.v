(** C11, legacy part — masked columns whose stored value is the clear window next to a RAW (container-less)
    AcraStruct / AcraBlock, or next to a serialized container, read through the column chain the proxies
    install: subscribers decoder ; OldContainerDetectorWrapper ; encoder, detector callbacks
    [wrapper ; poison detector (when configured) ; DecryptHandler(masking.Processor(RegistryHandler))].
    Only statements, closed by [exact], and their assumptions.  The model is the FIXED wrapper
    (patches/fix_wrapper_acrablock_alias.diff).  [C] ranges over every crypto instance; [Correct C] is needed only
    where the C01 round trip is invoked (C11_legacy_raw_*_premises).
    Vocabulary (Model/LegacyChain.v, Proofs/LegacyChain.v):
      legacy_read_ev C has cb_err pk s ks col : events and (output, decrypted mark) of the wrapper for a column
                          whose context carries setting [s], read by a client whose keys are [ks]
      raw_envelope id v / raw_at k v : [v] is a well-formed raw envelope which the raw scanner of kind [k] finds
      window_quiet k st w v y : tag premises: no container header in the stored value, no AcraStruct / AcraBlock tag
                          occurrence in the clear window and in the delivered view (the scanners re-read it)
      cannot_open C ks c : the reader's decrypt step returns an error or the unchanged container (C11). *)
From Acra Require Import Lib.Bytes Lib.Outcome Lib.GoSlice Crypto.Interface Gen.Consts Gen.MaskConsts
  Model.Envelope Model.EnvelopeOld Model.Masking Model.Poison Model.Bytea Model.LegacyChain
  Proofs.Envelope Proofs.EnvelopeHandlers Proofs.Scanner Proofs.Containers Proofs.EnvelopeOld Proofs.Poison
  Proofs.Masking Proofs.Bytea Proofs.LegacyChain.

(** ** the traced wrapper is C01_old's wrapper once the events are forgotten, for ANY callback list *)
Theorem C11_legacy_chain_erases_to_c01_wrapper :
  forall (cbs : list ecb) (inb : bytes), snd (on_column_old_ev cbs inb) = on_column_old (map erase cbs) inb.
Proof. exact on_column_old_erase. Qed.
Print Assumptions C11_legacy_chain_erases_to_c01_wrapper.

(** a poison detector in the chain (callbacks that do not fail) or its absence never changes what is delivered *)
Theorem C11_legacy_detector_does_not_change_views :
  forall (C : crypto) (has : bool) (pk : poison_keys) (s : option mask_setting) (ks : keyset) (col : bytes),
  snd (legacy_read_ev C has false pk s ks col) = on_column_old (plain_cbs C s ks) col.
Proof. exact legacy_detector_transparent. Qed.
Print Assumptions C11_legacy_detector_does_not_change_views.

(** ** stored value in container form: everything C11 proves about [masked_read] holds behind the wrapper *)
Theorem C11_legacy_container_form_same_view :
  forall (C : crypto) (s : option mask_setting) (has : bool) (pk : poison_keys) (ks : keyset) (col out : bytes),
  masked_read C s ks col = Ok (out, true) ->
  snd (legacy_read_ev C has false pk s ks col) = Ok (out, true).
Proof. exact legacy_container_view. Qed.
Print Assumptions C11_legacy_container_form_same_view.

(** ** stored value in RAW form (window joined with a raw AcraStruct or AcraBlock of the hidden part).
    The owner - any client whose keys open the envelope - receives the complete original value: all patterns,
    all window lengths (0 .. beyond the value), both sides, both envelope kinds *)
Theorem C11_legacy_raw_owner_gets_original :
  forall (C : crypto) (k : raw_kind) (st : mask_setting) (has : bool) (pk : poison_keys) (ks : keyset) (x v : bytes),
  raw_envelope (kind_id k) v -> raw_at k v ->
  handler_decrypt C (kind_id k) ks v = Ok (mask_hidden st x) -> length (mask_hidden st x) < length v ->
  window_quiet k st (mask_window st x) v (mask_hidden st x) ->
  snd (legacy_read_ev C has false pk (Some st) ks (mask_join st (mask_window st x) v)) = Ok (x, true).
Proof.
  intros C k st has pk ks x v He Hat Hd Hl Hq.
  rewrite (legacy_mask_owner_view C k st has pk ks _ v _ He Hat Hd Hl Hq), mask_split_join. reflexivity.
Qed.
Print Assumptions C11_legacy_raw_owner_gets_original.

(** a reader whose keys cannot open the envelope receives EXACTLY window ++ pattern (left) or pattern ++ window
    (right): no ciphertext byte, no hidden plaintext byte *)
Theorem C11_legacy_raw_non_owner_view :
  forall (C : crypto) (k : raw_kind) (st : mask_setting) (has : bool) (pk : poison_keys) (reader : keyset) (w v : bytes),
  ms_pattern st <> [] -> raw_envelope (kind_id k) v -> raw_at k v ->
  cannot_open C reader (sc_layout v (kind_id k)) ->
  ms_pattern st <> sc_layout v (kind_id k) -> ms_pattern st <> v ->
  window_quiet k st w v (ms_pattern st) ->
  snd (legacy_read_ev C has false pk (Some st) reader (mask_join st w v))
  = Ok (mask_join st w (ms_pattern st), true).
Proof. exact legacy_mask_non_owner_view. Qed.
Print Assumptions C11_legacy_raw_non_owner_view.

(** hence the view does not depend on the hidden part, the envelope kind, the keys or the write randomness *)
Theorem C11_legacy_raw_non_owner_view_independent :
  forall (C : crypto) (k1 k2 : raw_kind) (st : mask_setting) (has1 has2 : bool) (pk1 pk2 : poison_keys)
         (reader : keyset) (w v1 v2 : bytes),
  ms_pattern st <> [] ->
  raw_envelope (kind_id k1) v1 -> raw_at k1 v1 -> raw_envelope (kind_id k2) v2 -> raw_at k2 v2 ->
  cannot_open C reader (sc_layout v1 (kind_id k1)) -> cannot_open C reader (sc_layout v2 (kind_id k2)) ->
  ms_pattern st <> sc_layout v1 (kind_id k1) -> ms_pattern st <> sc_layout v2 (kind_id k2) ->
  ms_pattern st <> v1 -> ms_pattern st <> v2 ->
  window_quiet k1 st w v1 (ms_pattern st) -> window_quiet k2 st w v2 (ms_pattern st) ->
  snd (legacy_read_ev C has1 false pk1 (Some st) reader (mask_join st w v1))
  = snd (legacy_read_ev C has2 false pk2 (Some st) reader (mask_join st w v2)).
Proof.
  intros C k1 k2 st has1 has2 pk1 pk2 reader w v1 v2 Hp E1 A1 E2 A2 N1 N2 D1 D2 D3 D4 Q1 Q2.
  rewrite (legacy_mask_non_owner_view C k1 st has1 pk1 reader w v1 Hp E1 A1 N1 D1 D3 Q1).
  rewrite (legacy_mask_non_owner_view C k2 st has2 pk2 reader w v2 Hp E2 A2 N2 D2 D4 Q2). reflexivity.
Qed.
Print Assumptions C11_legacy_raw_non_owner_view_independent.

(** values not longer than the window are protected in full: the window is empty and a reader that cannot decrypt
    receives the pattern and nothing else *)
Theorem C11_legacy_short_values_fully_protected :
  forall (C : crypto) (k : raw_kind) (st : mask_setting) (has : bool) (pk : poison_keys) (reader : keyset) (x v : bytes),
  ms_pattern st <> [] -> (Z.of_nat (length x) <= ms_plen st)%Z ->
  raw_envelope (kind_id k) v -> raw_at k v ->
  cannot_open C reader (sc_layout v (kind_id k)) ->
  ms_pattern st <> sc_layout v (kind_id k) -> ms_pattern st <> v ->
  window_quiet k st [] v (ms_pattern st) ->
  mask_window st x = [] /\ mask_hidden st x = x /\
  snd (legacy_read_ev C has false pk (Some st) reader (mask_join st (mask_window st x) v)) = Ok (ms_pattern st, true).
Proof.
  intros C k st has pk reader x v Hp Hlen He Hat Hno D1 D2 Hq.
  destruct (short_values_fully_protected (fun d => Ok d) st x Hp Hlen) as (Hw & Hh & _).
  split; [exact Hw|]. split; [exact Hh|]. rewrite Hw.
  rewrite (legacy_mask_non_owner_view C k st has pk reader [] v Hp He Hat Hno D1 D2 Hq).
  unfold mask_join. destruct (is_end_masking st); [reflexivity| rewrite app_nil_r; reflexivity].
Qed.
Print Assumptions C11_legacy_short_values_fully_protected.

(** the C01 round trip supplies the premises about the envelope for both kinds and any later key history:
    a raw AcraStruct made by CreateAcrastruct / a raw AcraBlock made by CreateAcraBlock for the hidden part *)
Theorem C11_legacy_raw_acrastruct_premises :
  forall (C : crypto), Correct C ->
  forall (ks' : keyset) (tape : list bytes) (h sb : bytes) (before after : list bytes),
  h <> [] -> (N.of_nat (length h) < MAXMSG)%N -> good_as_tape tape -> length sb = SEED_LEN ->
  ks_privs ks' = before ++ priv_of C sb :: after ->
  (forall v, Forall (fun p => exists e, as_decrypt C v p [] = Err e) before) ->
  exists v, as_create C tape h (pub_of C sb) [] = Ok v /\
    raw_envelope ENVELOPE_ID_ACRASTRUCT v /\ raw_at RawAcraStruct v /\
    handler_decrypt C ENVELOPE_ID_ACRASTRUCT ks' v = Ok h /\ length h < length v.
Proof. exact raw_acrastruct_facts. Qed.
Print Assumptions C11_legacy_raw_acrastruct_premises.

Theorem C11_legacy_raw_acrablock_premises :
  forall (C : crypto), Correct C ->
  forall (ks' : keyset) (tape : list bytes) (h key : bytes) (before after : list bytes),
  h <> [] -> (N.of_nat (length h) < MAXMSG)%N -> good_ab_tape tape -> key <> [] ->
  ks_syms ks' = before ++ key :: after ->
  (forall ek, Forall (fun k => bytes_eqb (ab_key_id k []) (ab_key_id key []) = false
                               \/ cell_decrypt C k [] ek = None) before) ->
  exists v, ab_create C tape h key [] = Ok v /\
    raw_envelope ENVELOPE_ID_ACRABLOCK v /\ raw_at RawAcraBlock v /\
    handler_decrypt C ENVELOPE_ID_ACRABLOCK ks' v = Ok h /\ length h < length v /\ AB_TAG_SIZE <= length v.
Proof. exact raw_acrablock_facts. Qed.
Print Assumptions C11_legacy_raw_acrablock_premises.

(** ** setting -> context -> processor.  A column without setting, or whose setting has no masking pattern, is
    handled by the registry handler alone (nothing is ever replaced by a pattern) *)
Theorem C11_legacy_no_pattern_no_masking :
  forall (C : crypto) (s : option mask_setting) (ks : keyset) (d : bytes),
  match s with None => True | Some st => ms_pattern st = [] end ->
  legacy_proc C s ks d = registry_process C ks d.
Proof.
  intros C s ks d H. unfold legacy_proc, masking_processor. destruct s as [st|]; [|reflexivity].
  rewrite H. reflexivity.
Qed.
Print Assumptions C11_legacy_no_pattern_no_masking.

(** which column gets which setting: column [k] of a delivered row is the column chain run with the setting at index
    [k] of the statement's setting list (none when the list is absent, too short, or nil there); NULLs stay NULL *)
Theorem C11_legacy_row_column_gets_its_setting :
  forall (C : crypto) (has cb_err : bool) (pk : poison_keys) (store : key_store) (cid : bytes)
         (settings : option (list (option mask_setting))) (binary : bool) (cols : list (option bytes))
         (ev : list event) (out : list (option bytes)),
  pg_data_row C has cb_err pk store cid settings binary cols = (ev, Ok out) ->
  length out = length cols /\
  forall k, match nth_error cols k with
            | Some None => nth_error out k = Some None
            | Some (Some d) =>
                exists d', snd (pg_column_ev C has cb_err pk store cid (setting_for settings k) binary d) = Ok d' /\
                           nth_error out k = Some (Some d')
            | None => True
            end.
Proof. exact pg_row_column_setting. Qed.
Print Assumptions C11_legacy_row_column_gets_its_setting.

(** the reader is the ACCESSING client of the session: its keys, or none when the keystore has none for it *)
Theorem C11_legacy_reader_is_the_accessing_client :
  forall (store : key_store) (cid : bytes) (ks : keyset),
  client_keys ((cid, ks) :: store) cid = ks /\
  ((forall id ks', In (id, ks') store -> id <> cid) -> client_keys store cid = no_keys).
Proof. intros store cid ks. split; [apply client_keys_head| apply client_keys_unknown]. Qed.
Print Assumptions C11_legacy_reader_is_the_accessing_client.

(** ** the three subscribers.  Text format (bytea hex, as the database sends it): the wrapper sees the stored bytes,
    the events are the wrapper's, and the client receives the hex form of the wrapper's output when something was
    revealed or replaced, the text it would have received without acra otherwise *)
Theorem C11_legacy_pg_chain_text :
  forall (C : crypto) (has cb_err : bool) (pk : poison_keys) (store : key_store) (cid : bytes)
         (s : option mask_setting) (col : bytes),
  let R := legacy_read_ev C has cb_err pk s (client_keys store cid) col in
  pg_column_ev C has cb_err pk store cid s false (pg_encode_hex col) = (fst R, pg_view false (pg_encode_hex col) (snd R)).
Proof. exact pg_column_text. Qed.
Print Assumptions C11_legacy_pg_chain_text.

Theorem C11_legacy_pg_chain_binary :
  forall (C : crypto) (has cb_err : bool) (pk : poison_keys) (store : key_store) (cid : bytes)
         (s : option mask_setting) (col : bytes),
  decode_escaped col = Err E_OCTAL ->
  let R := legacy_read_ev C has cb_err pk s (client_keys store cid) col in
  pg_column_ev C has cb_err pk store cid s true col
  = (fst R, match snd R with Ok (out, _) => Ok out | Err e => Err e | Panic => Panic end).
Proof. exact pg_column_binary. Qed.
Print Assumptions C11_legacy_pg_chain_binary.

(** ** non-vacuity, the fixed defect and the known finding, on the stand-in crypto the harness runs *)
From Acra Require Import Crypto.Stub Proofs.StubCorrect.
Local Open Scope Z_scope.
Definition l_as_tape : list bytes := [repeat_bytes x01 32; repeat_bytes x02 32; repeat_bytes x03 12; repeat_bytes x04 12].
Definition l_ab_tape : list bytes := [repeat_bytes x05 32; repeat_bytes x06 12; repeat_bytes x08 12].
Definition l_seed : bytes := repeat_bytes x09 32.
Definition l_key : bytes := repeat_bytes x07 32.
Definition l_owner := Build_keyset (Some (pub_of Stub l_seed)) [priv_of Stub l_seed] [l_key] None.
Definition l_other := Build_keyset (Some (pub_of Stub (repeat_bytes x0b 32))) [priv_of Stub (repeat_bytes x0b 32)] [repeat_bytes x0c 32] None.
Definition l_store : key_store := [([x6f], l_owner); ([x74], l_other)].   (* clients "o" and "t" *)
Definition l_pk := Build_poison_keys [] [].
Definition l_pat : bytes := [x78; x78; x78; x78].
Definition l_left := Build_mask_setting l_pat 4 MASK_SIDE_LEFT ENC_TYPE_STRING.
Definition l_right := Build_mask_setting l_pat 5 MASK_SIDE_RIGHT ENC_TYPE_BYTES.
(* "4111-2222-3333" *)
Definition l_x : bytes := [x34; x31; x31; x31; x2d; x32; x32; x32; x32; x2d; x33; x33; x33; x33].
Definition l_getok (r : res bytes) : bytes := match r with Ok v => v | _ => [] end.
Definition l_vas : bytes := Eval vm_compute in l_getok (as_create Stub l_as_tape (skipn 4 l_x) (pub_of Stub l_seed) []).
Definition l_vab : bytes := Eval vm_compute in l_getok (ab_create Stub l_ab_tape (firstn 9 l_x) l_key []).

Example C11_legacy_concrete_left_acrastruct :
  mask_window l_left l_x = firstn 4 l_x /\ mask_hidden l_left l_x = skipn 4 l_x /\
  as_create Stub l_as_tape (skipn 4 l_x) (pub_of Stub l_seed) [] = Ok l_vas /\
  snd (legacy_read_ev Stub false false l_pk (Some l_left) l_owner (firstn 4 l_x ++ l_vas)) = Ok (l_x, true) /\
  snd (legacy_read_ev Stub false false l_pk (Some l_left) no_keys (firstn 4 l_x ++ l_vas)) = Ok (firstn 4 l_x ++ l_pat, true) /\
  snd (legacy_read_ev Stub false false l_pk (Some l_left) l_other (firstn 4 l_x ++ l_vas)) = Ok (firstn 4 l_x ++ l_pat, true).
Proof. repeat split; vm_compute; reflexivity. Qed.

Example C11_legacy_concrete_right_acrablock :
  mask_window l_right l_x = skipn 9 l_x /\ mask_hidden l_right l_x = firstn 9 l_x /\
  ab_create Stub l_ab_tape (firstn 9 l_x) l_key [] = Ok l_vab /\
  snd (legacy_read_ev Stub false false l_pk (Some l_right) l_owner (l_vab ++ skipn 9 l_x)) = Ok (l_x, true) /\
  snd (legacy_read_ev Stub false false l_pk (Some l_right) no_keys (l_vab ++ skipn 9 l_x)) = Ok (l_pat ++ skipn 9 l_x, true) /\
  (* the whole chain, text format, accessing client "t" (other keys) and an unknown client *)
  pg_column_ev Stub false false l_pk l_store [x74] (Some l_right) false (pg_encode_hex (l_vab ++ skipn 9 l_x))
    = ([], Ok (pg_encode_hex (l_pat ++ skipn 9 l_x))) /\
  pg_column_ev Stub false false l_pk l_store [x7a] (Some l_right) false (pg_encode_hex (l_vab ++ skipn 9 l_x))
    = ([], Ok (pg_encode_hex (l_pat ++ skipn 9 l_x))) /\
  pg_column_ev Stub false false l_pk l_store [x6f] (Some l_right) false (pg_encode_hex (l_vab ++ skipn 9 l_x))
    = ([], Ok (pg_encode_hex l_x)).
Proof. repeat split; vm_compute; reflexivity. Qed.

(** the premises of the view theorems hold on these values *)
Fixpoint l_no_byte (b0 : byte) (l : bytes) : bool :=
  match l with [] => true | b :: r => negb (byte_eqb b b0) && l_no_byte b0 r end.
Lemma l_no_byte_forall b0 l : l_no_byte b0 l = true -> Forall (fun b => b <> b0) l.
Proof.
  induction l as [|b r IH]; cbn [l_no_byte]; intros H; [constructor|].
  apply andb_true_iff in H as [H1 H2]. constructor; [|apply IH, H2].
  intros ->. rewrite byte_eqb_refl in H1. discriminate.
Qed.

Example C11_legacy_premises_hold :
  validate_masking_params l_left = true /\
  window_quiet RawAcraStruct l_left (firstn 4 l_x) l_vas (skipn 4 l_x) /\
  window_quiet RawAcraStruct l_left (firstn 4 l_x) l_vas l_pat /\
  cannot_open Stub no_keys (sc_layout l_vas ENVELOPE_ID_ACRASTRUCT) /\
  cannot_open Stub l_other (sc_layout l_vas ENVELOPE_ID_ACRASTRUCT) /\
  l_pat <> sc_layout l_vas ENVELOPE_ID_ACRASTRUCT /\ l_pat <> l_vas.
Proof.
  split; [vm_compute; reflexivity|].
  assert (Hq : forall y, l_no_byte x22 (firstn 4 l_x ++ y) = true ->
                         window_quiet RawAcraStruct l_left (firstn 4 l_x) l_vas y).
  { intros y Hy. cbn [window_quiet]. replace (is_end_masking l_left) with true by (vm_compute; reflexivity).
    split; [apply no_container_b_sound; vm_compute; reflexivity|].
    split; [apply quiet_tag_if_no_symbol, l_no_byte_forall; vm_compute; reflexivity|].
    split; [intros j Hj; cbn in Hj; lia|].
    rewrite app_nil_r. apply (quiet_tag_if_no_symbol x22), l_no_byte_forall, Hy. }
  split; [apply Hq; vm_compute; reflexivity|]. split; [apply Hq; vm_compute; reflexivity|].
  split; [left; eexists; vm_compute; reflexivity|]. split; [left; eexists; vm_compute; reflexivity|].
  split; intros H; apply (f_equal (@length byte)) in H; vm_compute in H; discriminate.
Qed.

(** FIXED defect (fix_wrapper_acrablock_alias): a pattern LONGER than the raw AcraBlock.  The wrapper used to call
    ProcessAcraBlocks with aliased buffers; the in-place reading (Model/EnvelopeOld.v, [raw_scan_inplace]) of that
    call overwrites the first bytes of the clear window with the tail of the pattern, the fixed wrapper returns
    exactly pattern ++ window. *)
Definition l_long : bytes := repeat_bytes x2a 150.
Definition l_long_right := Build_mask_setting l_long 5 MASK_SIDE_RIGHT ENC_TYPE_BYTES.
Definition l_long_proc := on_old_envelope ENVELOPE_ID_ACRABLOCK (plain_cbs Stub (Some l_long_right) no_keys).
Definition l_inplace : bytes := Eval vm_compute in
  match raw_scan_inplace ab_tag ab_candidate l_long_proc (S (length (l_vab ++ skipn 9 l_x))) (l_vab ++ skipn 9 l_x) 0 0 with
  | Ok (Some o) => o | _ => [] end.
Theorem C11_legacy_aliased_second_pass_refuted :
  Nat.ltb (length l_vab) (length l_long) = true /\
  (* fixed wrapper *)
  snd (legacy_read_ev Stub false false l_pk (Some l_long_right) no_keys (l_vab ++ skipn 9 l_x))
    = Ok (l_long ++ skipn 9 l_x, true) /\
  (* the aliased call it replaces: the window comes back damaged *)
  raw_scan_inplace ab_tag ab_candidate l_long_proc (S (length (l_vab ++ skipn 9 l_x))) (l_vab ++ skipn 9 l_x) 0 0
    = Ok (Some l_inplace) /\
  l_inplace <> l_long ++ skipn 9 l_x /\ skipn (length l_inplace - 5) l_inplace <> skipn 9 l_x.
Proof.
  split; [vm_compute; reflexivity|]. split; [vm_compute; reflexivity|]. split; [vm_compute; reflexivity|].
  split; vm_compute; intros H; discriminate H.
Qed.
Print Assumptions C11_legacy_aliased_second_pass_refuted.

(** REFUTED at full strength ("all values, including values containing envelope tags") - known finding
    legacy-raw-next-to-container: bytes in the clear window that ExtractSerializedContainer accepts as a container
    header ('%%%', a declared length that fits, a known envelope id) set the wrapper's hasMatchedEnvelope flag; the
    raw scans are skipped and EVERY reader - owner included - receives window ++ ciphertext. *)
Definition l_hdr : bytes := [x61; x25; x25; x25; x0e; x00; x00; x00; x00; x00; x00; x00; xf0; x62; x63; x64; x65].
Definition l_hdr_left := Build_mask_setting l_pat 17 MASK_SIDE_LEFT ENC_TYPE_STRING.
Theorem C11_legacy_raw_next_to_container_header_refuted :
  exists st w v h reader,
    validate_masking_params st = true /\ mask_window st (w ++ h) = w /\ mask_hidden st (w ++ h) = h /\
    as_create Stub l_as_tape h (pub_of Stub l_seed) [] = Ok v /\
    is_ok (sc_extract (skipn 1 (w ++ v))) = true /\ registry_match (skipn 1 (w ++ v)) = false /\
    snd (legacy_read_ev Stub false false l_pk (Some st) l_owner (mask_join st w v)) = Ok (w ++ v, false) /\
    snd (legacy_read_ev Stub false false l_pk (Some st) reader (mask_join st w v)) = Ok (w ++ v, false) /\
    (* without the header the same envelope is handled as C11 requires *)
    snd (legacy_read_ev Stub false false l_pk (Some l_left) l_owner (firstn 4 l_x ++ v)) = Ok (l_x, true).
Proof.
  exists l_hdr_left, l_hdr, l_vas, (skipn 4 l_x), no_keys. repeat split; vm_compute; reflexivity.
Qed.
Print Assumptions C11_legacy_raw_next_to_container_header_refuted.

(** which column gets which setting, on a concrete row: two masked columns with different settings, a NULL, a column
    without setting; read by the client without keys *)
Example C11_legacy_concrete_row :
  pg_data_row Stub false false l_pk l_store [x7a] (Some [Some l_left; None; Some l_right]) false
    [Some (pg_encode_hex (firstn 4 l_x ++ l_vas)); None; Some (pg_encode_hex (l_vab ++ skipn 9 l_x)); Some (pg_encode_hex l_x)]
  = ([], Ok [Some (pg_encode_hex (firstn 4 l_x ++ l_pat)); None; Some (pg_encode_hex (l_pat ++ skipn 9 l_x)); Some (pg_encode_hex l_x)]).
Proof. vm_compute. reflexivity. Qed.
