(** C01, legacy part — raw (container-less) AcraStructs / AcraBlocks inside column values
    (crypto.OldContainerDetectorWrapper.OnColumn with acrastruct.ProcessAcraStructs and
    acrablock.ProcessAcraBlocks) and crypto.ReEncryptHandler.EncryptWithClientID.
    Only statements, closed by [exact], and their assumptions.  [C] ranges over every crypto
    instance satisfying [Correct]. *)
From Acra Require Import Lib.Bytes Lib.Outcome Lib.GoSlice Crypto.Interface Gen.Consts Model.Envelope Model.EnvelopeOld
  Proofs.Envelope Proofs.EnvelopeHandlers Proofs.Scanner Proofs.EnvelopeOld.

(** ** the container scan with the wrapper's "matched" flag is the C01 scanner plus a flag *)
Theorem C01_old_scan_m_projects :
  forall (cbs : list (bytes -> res bytes)) (f : nat) (rest out : bytes) (ch m : bool),
  drop_m (scan_m f cbs rest out ch m) = scan f cbs rest out ch.
Proof. exact scan_m_proj. Qed.
Print Assumptions C01_old_scan_m_projects.

Theorem C01_old_on_column_m_projects :
  forall (cbs : list (bytes -> res bytes)) (inb : bytes), drop_m (on_column_m cbs inb) = on_column cbs inb.
Proof. exact on_column_m_proj. Qed.
Print Assumptions C01_old_on_column_m_projects.

(** ** reveal in place.  A RAW AcraStruct made by CreateAcrastruct for the client (nil context, as
    AcraWriter makes it), after ANY prefix in which no occurrence of the 8-byte tag starts and before ANY
    suffix, in a column in which the container scan finds nothing: ProcessAcraStructs replaces it by the
    plaintext, processes the suffix as a column of its own, and ProcessAcraBlocks then runs over the result.
    Second part: if no occurrence of the 4-byte AcraBlock tag starts inside prefix ++ plaintext, the
    plaintext stands in place of the envelope.  Keys may have rotated ([before]/[after]). *)
Theorem C01_old_column_reveal_as :
  forall (C : crypto), Correct C ->
  forall (ks' : keyset) (tape : list bytes) (x sb : bytes) (before after : list bytes) (p s : bytes),
  x <> [] -> (N.of_nat (length x) < MAXMSG)%N -> good_as_tape tape -> length sb = SEED_LEN ->
  ks_privs ks' = before ++ priv_of C sb :: after ->
  exists v, as_create C tape x (pub_of C sb) [] = Ok v /\
   (Forall (fun k => exists e, as_decrypt C v k [] = Err e) before ->
    no_container (p ++ v ++ s) -> quiet_tag as_tag p (v ++ s) ->
    on_column_old (old_cbs C ks') (p ++ v ++ s) =
      (do s1 <- process_acrastructs (proc_as C ks') s;
       do o <- process_acrablocks (proc_ab C ks') (p ++ x ++ s1);
       Ok (o, true))
    /\ forall s1, process_acrastructs (proc_as C ks') s = Ok s1 -> quiet_tag ab_tag (p ++ x) s1 ->
       on_column_old (old_cbs C ks') (p ++ v ++ s) =
         (do s2 <- process_acrablocks (proc_ab C ks') s1; Ok (p ++ x ++ s2, true))).
Proof. exact old_column_reveal_as. Qed.
Print Assumptions C01_old_column_reveal_as.

(** A RAW AcraBlock made by CreateAcraBlock under a symmetric key the client still has.  ProcessAcraStructs
    runs first over the whole value: nothing may start an AcraStruct candidate before the end of the block
    (8-byte tag), and no 4-byte tag occurrence starts in the prefix. *)
Theorem C01_old_column_reveal_ab :
  forall (C : crypto), Correct C ->
  forall (ks' : keyset) (tape : list bytes) (x key : bytes) (before after : list bytes) (p s : bytes),
  x <> [] -> (N.of_nat (length x) < MAXMSG)%N -> good_ab_tape tape -> key <> [] ->
  ks_syms ks' = before ++ key :: after ->
  exists v, ab_create C tape x key [] = Ok v /\
   (Forall (fun k => bytes_eqb (ab_key_id k []) (ab_key_id key []) = false
                     \/ forall ek, cell_decrypt C k [] ek = None) before ->
    no_container (p ++ v ++ s) ->
    quiet_tag as_tag (p ++ v) s -> quiet_tag ab_tag p (v ++ s) ->
    on_column_old (old_cbs C ks') (p ++ v ++ s) =
      (do s1 <- process_acrastructs (proc_as C ks') s;
       do s2 <- process_acrablocks (proc_ab C ks') s1;
       Ok (p ++ x ++ s2, true))).
Proof. exact old_column_reveal_ab. Qed.
Print Assumptions C01_old_column_reveal_ab.

(** the same with the weakest premise on the first pass: it handed the block on untouched *)
Theorem C01_old_column_reveal_ab_after :
  forall (C : crypto), Correct C ->
  forall (ks' : keyset) (tape : list bytes) (x key : bytes) (before after : list bytes) (p s s1 : bytes),
  x <> [] -> (N.of_nat (length x) < MAXMSG)%N -> good_ab_tape tape -> key <> [] ->
  ks_syms ks' = before ++ key :: after ->
  exists v, ab_create C tape x key [] = Ok v /\
   (Forall (fun k => bytes_eqb (ab_key_id k []) (ab_key_id key []) = false
                     \/ forall ek, cell_decrypt C k [] ek = None) before ->
    no_container (p ++ v ++ s) ->
    process_acrastructs (proc_as C ks') (p ++ v ++ s) = Ok (p ++ v ++ s1) ->
    quiet_tag ab_tag p (v ++ s1) ->
    on_column_old (old_cbs C ks') (p ++ v ++ s) =
      (do s2 <- process_acrablocks (proc_ab C ks') s1; Ok (p ++ x ++ s2, true))).
Proof. exact old_column_reveal_ab_after. Qed.
Print Assumptions C01_old_column_reveal_ab_after.

(** the premises are satisfiable by arbitrary binary data without the tag symbols *)
Theorem C01_old_quiet_if_no_symbol :
  forall (b0 : byte) (tag' p t : bytes), Forall (fun b => b <> b0) p -> quiet_tag (b0 :: tag') p t.
Proof. exact quiet_tag_if_no_symbol. Qed.
Print Assumptions C01_old_quiet_if_no_symbol.

Theorem C01_old_no_container_if_no_tag_symbol :
  forall (col : bytes), Forall (fun b => b <> SC_TAG_SYMBOL) col -> no_container col.
Proof. exact no_container_if_no_tag_symbol. Qed.
Print Assumptions C01_old_no_container_if_no_tag_symbol.

(** ** progress: every iteration of both raw scanners consumes at least one byte, so the result does not
    depend on the fuel once it exceeds the input length (the out-of-fuel error is unreachable) *)
Theorem C01_old_process_acrastructs_fuel_independent :
  forall (proc : bytes -> res bytes) (inb : bytes) (f : nat), length inb < f ->
  process_acrastructs proc inb = raw_scan as_tag as_candidate proc f inb [].
Proof. exact process_acrastructs_fuel. Qed.
Print Assumptions C01_old_process_acrastructs_fuel_independent.

Theorem C01_old_process_acrablocks_fuel_independent :
  forall (proc : bytes -> res bytes) (inb : bytes) (f : nat), length inb < f ->
  process_acrablocks proc inb = raw_scan ab_tag ab_candidate proc f inb [].
Proof. exact process_acrablocks_fuel. Qed.
Print Assumptions C01_old_process_acrablocks_fuel_independent.

(** ** nothing can be opened => the column comes out byte-identical and unmarked *)
Theorem C01_old_column_passthrough :
  forall (cbs : list (bytes -> res bytes)) (inb : bytes),
  (forall c, run_callbacks cbs c = Ok None) -> on_column_old cbs inb = Ok (inb, false).
Proof. exact on_column_old_passthrough. Qed.
Print Assumptions C01_old_column_passthrough.

(** ** totality for arbitrary bytes (any processor / callbacks that do not panic themselves) *)
Theorem C01_old_process_acrastructs_total :
  forall (proc : bytes -> res bytes) (inb : bytes), (forall x, proc x <> Panic) -> process_acrastructs proc inb <> Panic.
Proof. exact process_acrastructs_total. Qed.
Print Assumptions C01_old_process_acrastructs_total.

Theorem C01_old_process_acrablocks_total :
  forall (proc : bytes -> res bytes) (inb : bytes), (forall x, proc x <> Panic) -> process_acrablocks proc inb <> Panic.
Proof. exact process_acrablocks_total. Qed.
Print Assumptions C01_old_process_acrablocks_total.

Theorem C01_old_column_total :
  forall (cbs : list (bytes -> res bytes)) (inb : bytes),
  (forall cb x, In cb cbs -> cb x <> Panic) -> on_column_old cbs inb <> Panic.
Proof. exact on_column_old_total. Qed.
Print Assumptions C01_old_column_total.

(* the proxies' callback list satisfies the premise *)
Theorem C01_old_real_callbacks_total :
  forall (C : crypto) (ks : keyset) (cb : bytes -> res bytes) (y : bytes), In cb (old_cbs C ks) -> cb y <> Panic.
Proof. exact old_cbs_total. Qed.
Print Assumptions C01_old_real_callbacks_total.

(** ** aliased buffers.  What the wrapper substitutes for a candidate is never longer than the candidate
    (a Secure Cell plaintext is 44 bytes shorter than its ciphertext), hence the write index of the in-place
    ProcessAcraBlocks never passes its read index and the in-place run equals the pure model. *)
Theorem C01_old_wrapper_never_grows :
  forall (C : crypto), Correct C ->
  forall (id : byte) (ks : keyset) (v y : bytes),
  on_old_envelope id (old_cbs C ks) v = Ok y -> length y <= length v.
Proof. exact old_proc_shrinks. Qed.
Print Assumptions C01_old_wrapper_never_grows.

Theorem C01_old_aliasing_sound :
  forall (proc : bytes -> res bytes) (buf : bytes),
  (forall x y, proc x = Ok y -> length y <= length x) ->
  raw_scan_inplace ab_tag ab_candidate proc (S (length buf)) buf 0 0
  = match process_acrablocks proc buf with Ok o => Ok (Some o) | Err e => Err e | Panic => Panic end.
Proof. exact process_acrablocks_aliased_sound. Qed.
Print Assumptions C01_old_aliasing_sound.

(** ** the re-encryptor (reencrypting_to_acrablocks) *)
Theorem C01_old_reencrypt_roundtrip :
  forall (C : crypto), Correct C ->
  forall (ks_w ks ks' : keyset) (tape tape2 : list bytes) (x sb : bytes) (before after : list bytes)
         (key : bytes) (rest before2 after2 : list bytes),
  looks_protected ENVELOPE_ID_ACRASTRUCT x = false -> looks_protected ENVELOPE_ID_ACRABLOCK x = false ->
  x <> [] -> (N.of_nat (length x) < MAXMSG)%N -> good_as_tape tape -> length sb = SEED_LEN ->
  ks_pub ks_w = Some (pub_of C sb) ->
  ks_privs ks = before ++ priv_of C sb :: after ->
  (forall v, Forall (fun p => exists e, as_decrypt C v p [] = Err e) before) ->
  good_ab_tape tape2 -> key <> [] -> ks_syms ks = key :: rest ->
  ks_syms ks' = before2 ++ key :: after2 ->
  (forall ek, Forall (fun k => bytes_eqb (ab_key_id k []) (ab_key_id key []) = false
                               \/ cell_decrypt C k [] ek = None) before2) ->
  exists v, encrypt_with_handler C ENVELOPE_ID_ACRASTRUCT ks_w tape x = Ok v /\
   (reenc_match v = false ->
    exists w, reencrypt C true true true ks tape2 v = Ok w /\
              registry_process C ks' w = Ok x /\
              decrypt_with_handler C ENVELOPE_ID_ACRABLOCK ks' w = Ok x /\
              (forall f1 f2 f3 ks2 t2, reencrypt C f1 f2 f3 ks2 t2 w = Ok w)).
Proof. exact reencrypt_roundtrip. Qed.
Print Assumptions C01_old_reencrypt_roundtrip.

Theorem C01_old_reencrypt_unchanged :
  forall (C : crypto) (env_ab only_enc reenc : bool) (ks : keyset) (tape : list bytes) (data : bytes),
  env_ab = false \/ only_enc = false \/ reenc_match data = true \/
  (reenc = false /\ looks_protected ENVELOPE_ID_ACRABLOCK data = true) ->
  reencrypt C env_ab only_enc reenc ks tape data = Ok data.
Proof. exact reencrypt_unchanged. Qed.
Print Assumptions C01_old_reencrypt_unchanged.

Theorem C01_old_reencrypt_undecryptable :
  forall (C : crypto) (ks : keyset) (tape : list bytes) (data : bytes) (n : nat) (ser : bytes) (e : N),
  reenc_match data = false -> sc_extract data = Ok (n, ser) -> registry_process C ks ser = Err e ->
  reencrypt C true true true ks tape data = Err e.
Proof. exact reencrypt_undecryptable. Qed.
Print Assumptions C01_old_reencrypt_undecryptable.

Theorem C01_old_reencrypt_plain :
  forall (C : crypto) (reenc : bool) (ks : keyset) (tape : list bytes) (data : bytes),
  reenc_match data = false -> (reenc = true -> exists e, sc_extract data = Err e) ->
  reencrypt C true true reenc ks tape data = encrypt_with_handler C ENVELOPE_ID_ACRABLOCK ks tape data.
Proof. exact reencrypt_plain. Qed.
Print Assumptions C01_old_reencrypt_plain.

(** ** non-vacuity and refutations, on the stand-in crypto the harness runs *)
From Acra Require Import Crypto.Stub Proofs.StubCorrect.

Definition o_seed : bytes := repeat_bytes x09 32.
Definition o_key : bytes := repeat_bytes x07 32.
Definition o_ks := Build_keyset (Some (pub_of Stub o_seed)) [priv_of Stub o_seed] [o_key] None.
Definition o_as_tape : list bytes := [repeat_bytes x01 32; repeat_bytes x02 32; repeat_bytes x03 12; repeat_bytes x04 12].
Definition o_ab_tape : list bytes := [repeat_bytes x05 32; repeat_bytes x06 12; repeat_bytes x08 12].
Definition o_ab_tape2 : list bytes := [repeat_bytes x0a 32; repeat_bytes x0b 12; repeat_bytes x0c 12].
Definition o_x : bytes := [x73; x65; x63; x72; x65; x74].
Definition o_y : bytes := [x79; x65; x73].
Definition o_p : bytes := [x69; x64; x3d].          (* "id=" *)
Definition o_s : bytes := [x22; x22; x21].
Definition getok (r : res bytes) : bytes := match r with Ok v => v | _ => [] end.
Definition o_vas : bytes := Eval vm_compute in getok (as_create Stub o_as_tape o_x (pub_of Stub o_seed) []).
Definition o_vab : bytes := Eval vm_compute in getok (ab_create Stub o_ab_tape o_x o_key []).
Definition o_vab2 : bytes := Eval vm_compute in getok (ab_create Stub o_ab_tape2 o_y o_key []).
Definition o_cont : bytes := Eval vm_compute in getok (encrypt_with_handler Stub ENVELOPE_ID_ACRABLOCK o_ks o_ab_tape2 o_y).
Definition o_nested : bytes := Eval vm_compute in getok (as_create Stub o_as_tape o_vab2 (pub_of Stub o_seed) []).

(** the reveal theorems' conclusions on a concrete column (premises hold: see the next example) *)
Example C01_old_reveal_examples :
  as_create Stub o_as_tape o_x (pub_of Stub o_seed) [] = Ok o_vas /\ length o_vas = 195 /\
  on_column_old (old_cbs Stub o_ks) (o_p ++ o_vas ++ o_s) = Ok (o_p ++ o_x ++ o_s, true) /\
  ab_create Stub o_ab_tape o_x o_key [] = Ok o_vab /\
  on_column_old (old_cbs Stub o_ks) (o_p ++ o_vab ++ o_s) = Ok (o_p ++ o_x ++ o_s, true) /\
  (* two raw envelopes of different kinds in one value *)
  on_column_old (old_cbs Stub o_ks) (o_vab ++ o_p ++ o_vas) = Ok (o_x ++ o_p ++ o_x, true).
Proof. repeat split; vm_compute; reflexivity. Qed.

Fixpoint no_byte (b0 : byte) (l : bytes) : bool :=
  match l with [] => true | b :: r => negb (byte_eqb b b0) && no_byte b0 r end.
Lemma no_byte_forall b0 l : no_byte b0 l = true -> Forall (fun b => b <> b0) l.
Proof.
  induction l as [|b r IH]; cbn [no_byte]; intros H; [constructor|].
  apply andb_true_iff in H as [H1 H2]. constructor; [|apply IH, H2].
  intros ->. rewrite byte_eqb_refl in H1. discriminate.
Qed.

Example C01_old_premises_hold :
  good_as_tape o_as_tape /\ good_ab_tape o_ab_tape /\ o_x <> [] /\
  no_container (o_p ++ o_vas ++ o_s) /\ quiet_tag as_tag o_p (o_vas ++ o_s) /\ quiet_tag ab_tag (o_p ++ o_x) o_s /\
  no_container (o_p ++ o_vab ++ o_s) /\ quiet_tag ab_tag o_p (o_vab ++ o_s).
Proof.
  split; [exists (repeat_bytes x01 32), (repeat_bytes x02 32), (repeat_bytes x03 12), (repeat_bytes x04 12), []; repeat split|].
  split; [exists (repeat_bytes x05 32), (repeat_bytes x06 12), (repeat_bytes x08 12), []; repeat split|].
  split; [discriminate|].
  split; [apply no_container_b_sound; vm_compute; reflexivity|].
  split; [apply quiet_tag_if_no_symbol, no_byte_forall; vm_compute; reflexivity|].
  split; [apply quiet_tag_if_no_symbol, no_byte_forall; vm_compute; reflexivity|].
  split; [apply no_container_b_sound; vm_compute; reflexivity|].
  apply quiet_tag_if_no_symbol, no_byte_forall; vm_compute; reflexivity.
Qed.

(** REFUTED at full strength ("whatever the bytes that surround it"): a raw envelope of the client that
    shares a column value with a serialized container is NOT revealed — the container match sets
    hasMatchedEnvelope and the raw scans are skipped (known finding, class raw-next-to-container). *)
Theorem C01_old_raw_next_to_container_refuted :
  exists ks c y v x,
    registry_process Stub ks c = Ok y /\ proc_as Stub ks v = Ok x /\
    on_column_old (old_cbs Stub ks) v = Ok (x, true) /\
    on_column_old (old_cbs Stub ks) (c ++ v) = Ok (y ++ v, true) /\
    on_column_old (old_cbs Stub ks) (v ++ c) = Ok (v ++ y, true).
Proof. exists o_ks, o_cont, o_y, o_vas, o_x. repeat split; vm_compute; reflexivity. Qed.
Print Assumptions C01_old_raw_next_to_container_refuted.

(** REFUTED at full strength ("whatever its content"): a plaintext that is itself a raw AcraBlock of the
    client does not come back: after ProcessAcraStructs revealed it, ProcessAcraBlocks opens it as well
    (known finding, class nested-raw-envelope).  All premises of C01_old_column_reveal_as hold. *)
Theorem C01_old_nested_raw_envelope_refuted :
  exists ks tape x sb v y,
    x <> [] /\ good_as_tape tape /\ length sb = SEED_LEN /\ ks_privs ks = [priv_of Stub sb] /\
    as_create Stub tape x (pub_of Stub sb) [] = Ok v /\
    no_container v /\
    on_column_old (old_cbs Stub ks) v = Ok (y, true) /\ y <> x.
Proof.
  exists o_ks, o_as_tape, o_vab2, o_seed, o_nested, o_y.
  split; [discriminate|].
  split; [exists (repeat_bytes x01 32), (repeat_bytes x02 32), (repeat_bytes x03 12), (repeat_bytes x04 12), []; repeat split|].
  split; [reflexivity|]. split; [reflexivity|]. split; [vm_compute; reflexivity|].
  split; [apply no_container_b_sound; vm_compute; reflexivity|].
  split; [vm_compute; reflexivity| discriminate].
Qed.
Print Assumptions C01_old_nested_raw_envelope_refuted.

(** the premise of C01_old_aliasing_sound is needed: with a processor that returns ONE byte more than it
    was given, the in-place run overwrites input it has not read yet and the results differ *)
Definition grow_proc (b : bytes) : res bytes := if bytes_eqb b o_vab then Ok (b ++ [x00]) else Ok b.
Definition alias_buf : bytes := o_vab ++ o_p ++ o_vab2.
Theorem C01_old_aliasing_needs_shrinking_refuted :
  exists proc buf o1 o2,
    raw_scan_inplace ab_tag ab_candidate proc (S (length buf)) buf 0 0 = Ok (Some o1) /\
    process_acrablocks proc buf = Ok o2 /\ o1 <> o2.
Proof.
  exists grow_proc, alias_buf.
  eexists (getok (match raw_scan_inplace ab_tag ab_candidate grow_proc (S (length alias_buf)) alias_buf 0 0 with
                  | Ok (Some o) => Ok o | _ => Err 0%N end)),
          (getok (process_acrablocks grow_proc alias_buf)).
  split; [vm_compute; reflexivity|]. split; [vm_compute; reflexivity|].
  vm_compute. intros H. discriminate H.
Qed.
Print Assumptions C01_old_aliasing_needs_shrinking_refuted.

(** the re-encryptor on concrete values: container of the client -> AcraBlock container revealing to x *)
Definition o_ascont : bytes := Eval vm_compute in getok (encrypt_with_handler Stub ENVELOPE_ID_ACRASTRUCT o_ks o_as_tape o_x).
Definition o_reenc : bytes := Eval vm_compute in getok (reencrypt Stub true true true o_ks o_ab_tape o_ascont).
Example C01_old_reencrypt_example :
  reenc_match o_ascont = false /\
  reencrypt Stub true true true o_ks o_ab_tape o_ascont = Ok o_reenc /\ o_reenc <> o_ascont /\
  registry_process Stub o_ks o_reenc = Ok o_x /\
  reencrypt Stub true true true o_ks o_ab_tape2 o_reenc = Ok o_reenc /\
  reencrypt Stub false true true o_ks o_ab_tape o_ascont = Ok o_ascont.
Proof. repeat split; try (vm_compute; reflexivity). vm_compute. intros H. discriminate H. Qed.
