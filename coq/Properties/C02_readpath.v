(** C02 (read path) — Data protected for one client is never revealed under another identity: WHICH identity the
    transparent write path and every read-path column processor of AcraServer act under.
    Only statements, closed by [exact], and their assumptions.  Model: Model/ReadPath.v (identity selection) over
    Model/FullChain.v (the complete chains the proxy factories install) and Model/IsoTokens.v (token stack);
    implementation side: domain c02rp (real factories, every processor x client_id of the setting x connection).
    [s] ranges over settings WITH and WITHOUT client_id; [K] over all key maps; [ws] over all histories of writes
    by any connections; [C] over all crypto instances ([Correct C] only where a round trip is needed; nothing is
    assumed about unforgeability: reductions to explicit collision / forgery witnesses as in Properties/C02.v). *)
From Coq Require Import List.
From Acra Require Import Lib.Bytes Lib.Outcome Lib.Sha256 Crypto.Interface Gen.Consts Gen.IsoTokenConsts
  Model.Envelope Model.FullChain Model.IsoTokens Model.ReadPath
  Proofs.Envelope Proofs.EnvelopeHandlers Proofs.Isolation Proofs.IsoTokens Proofs.ReadPath.
Import ListNotations.

(** * 1. identity selection *)

(** write path (QueryDataEncryptor.encryptWithColumnSettings): the token scope / token key resp. the envelope keys
    are the ones of [rp_write_id] = client_id of the column if set, else the connection *)
Theorem C02_readpath_write_identity :
  forall (C : crypto) (sch : fc_schema) (K : rp_keys) (st : store) (s : rp_setting) (conn : bytes)
         (tape : list bytes) (data : bytes),
  rp_write C sch K st s conn tape data =
  match rp_kind_of s with
  | RpTok c => step C true (rp_tokkeys K) st (TTokenize c (rp_tc (rp_write_id s conn)) tape data)
  | RpEnc fs => (st, fc_write C sch fs (rp_keyset K (rp_write_id s conn)) tape data)
  end.
Proof. exact write_acts_under_write_id. Qed.
Print Assumptions C02_readpath_write_identity.

(** a column that names a client is written identically by every connection (so data of A may be written by B) *)
Theorem C02_readpath_write_explicit_any_connection :
  forall (C : crypto) (sch : fc_schema) (K : rp_keys) (st : store) (s : rp_setting) (conn1 conn2 : bytes)
         (tape : list bytes) (data : bytes),
  rp_cid s <> [] ->
  rp_write C sch K st s conn1 tape data = rp_write C sch K st s conn2 tape data.
Proof. exact write_explicit_any_connection. Qed.
Print Assumptions C02_readpath_write_explicit_any_connection.

(** read path: EVERY processor (token processor; hmac processor; detector -> DecryptHandler -> registry handler or
    masking processor; hmac verifier; the PostgreSQL decoder / encoder around them) is blind to the client_id of the
    setting of the column, for every setting, connection, token store and column value *)
Theorem C02_readpath_ignores_setting_client_id :
  forall (C : crypto) (sch : fc_schema) (K : rp_keys) (st : store) (s : rp_setting) (cid conn col : bytes) (binary : bool),
  rp_token_processor C K st (Some (rp_with_cid s cid)) conn col = rp_token_processor C K st (Some s) conn col /\
  rp_read_core C sch K st (Some (rp_with_cid s cid)) conn col = rp_read_core C sch K st (Some s) conn col /\
  rp_read_pg C sch K st (Some (rp_with_cid s cid)) conn binary col = rp_read_pg C sch K st (Some s) conn binary col.
Proof.
  intros. split; [apply token_processor_ignores_setting_client_id|].
  split; [apply read_core_ignores_setting_client_id| apply read_pg_ignores_setting_client_id].
Qed.
Print Assumptions C02_readpath_ignores_setting_client_id.

(** ... and acts under the CONNECTION: de-tokenization with the token context (connection id, no additional
    context); decryption / unmasking / index verification with the keyset of the connection *)
Theorem C02_readpath_detokenizes_under_connection :
  forall (C : crypto) (K : rp_keys) (st : store) (s : rp_setting) (c : bool) (conn t : bytes),
  rp_kind_of s = RpTok c ->
  rp_token_processor C K st (Some s) conn t = deanonymize C true (rp_tokkeys K) st (Build_token_context conn []) t.
Proof. exact token_processor_acts_under_connection. Qed.
Print Assumptions C02_readpath_detokenizes_under_connection.

Theorem C02_readpath_decrypts_under_connection :
  forall (C : crypto) (sch : fc_schema) (K : rp_keys) (st : store) (s : rp_setting) (fs : fc_setting) (conn col : bytes),
  rp_kind_of s = RpEnc fs ->
  rp_read_core C sch K st (Some s) conn col = fc_read_core C sch (Some fs) (rp_keyset K conn) col.
Proof. exact read_core_acts_under_connection_enc. Qed.
Print Assumptions C02_readpath_decrypts_under_connection.

(** * 2. de-tokenization on the read path under another identity (composes C02_token_scope_frame /
      C02_detokenize_other_client_ids of Properties/C02.v with the identity selection).
    For EVERY history of writes -- by any connections, through columns with or without client_id, tokenized or
    encrypted, any tapes and keys -- in which nothing was protected for B (B's connection may well have WRITTEN
    values into columns that name another client), a connection of identity B that reads ANY bytes [t], in
    particular every token made for A, through ANY setting [s], in particular one with client_id = A, gets [t]
    back unchanged from the token processor; otherwise the history holds an explicit SHA-256 collision between
    the scope string of an owner and the one of B. *)
Theorem C02_readpath_token_other_client :
  forall (C : crypto) (sch : fc_schema) (K : rp_keys) (ws : list rp_w) (idB : bytes) (s : option rp_setting) (t : bytes),
  Forall (fun w => rp_owner w <> idB) ws ->
  rp_token_processor C K (rp_store C sch K ws) s idB t = Ok t
  \/ exists w, In w ws /\ rp_owner w <> idB /\ sha256 (STR_CLIENT ++ rp_owner w) = sha256 (STR_CLIENT ++ idB).
Proof. exact readpath_token_other_client. Qed.
Print Assumptions C02_readpath_token_other_client.

(** the whole subscriber chain: B receives what the decrypting subscribers make of the STORED bytes under B's own
    keyset, exactly as if the column had no token processor (C02_column_unchanged_unless_opened then says: the
    stored bytes themselves, unless an envelope inside them opens under B's keys) *)
Theorem C02_readpath_token_other_client_column :
  forall (C : crypto) (sch : fc_schema) (K : rp_keys) (ws : list rp_w) (idB : bytes) (s : option rp_setting) (t : bytes),
  Forall (fun w => rp_owner w <> idB) ws ->
  rp_read_core C sch K (rp_store C sch K ws) s idB t = fc_read_core C sch (option_map rp_fs s) (rp_keyset K idB) t
  \/ exists w, In w ws /\ rp_owner w <> idB /\ sha256 (STR_CLIENT ++ rp_owner w) = sha256 (STR_CLIENT ++ idB).
Proof. exact readpath_token_other_client_core. Qed.
Print Assumptions C02_readpath_token_other_client_column.

(** * 3. decryption on the read path under another identity (composes C02_no_cross_client_reveal_symmetric).
    A value written through an acrablock column by ANY connection [connW] is protected for A = rp_write_id s connW
    (key in use [keyA], any older keys [rest]).  Whatever connection B meets it on the read path, and whatever
    setting the column it is read through carries: a reveal by the registry handler exhibits a key of B's keyset
    that opens A's key block; without one the DecryptHandler hands the container back unchanged. *)
Theorem C02_readpath_decrypt_other_client :
  forall (C : crypto), Correct C ->
  forall (sch : fc_schema) (K : rp_keys) (st : store) (s : rp_setting) (fs : fc_setting) (connW : bytes)
         (tape : list bytes) (x keyA : bytes) (rest : list bytes) (connB : bytes),
  rp_kind_of s = RpEnc fs -> fs_env_ab fs = true -> fs_only_enc fs = true ->
  looks_protected ENVELOPE_ID_ACRABLOCK x = false ->
  x <> [] -> (N.of_nat (length x) < MAXMSG)%N -> good_ab_tape tape -> keyA <> [] ->
  ks_syms (rp_keyset K (rp_write_id s connW)) = keyA :: rest ->
  exists v dek nonce,
    rp_write C sch K st s connW tape x = (st, Ok v) /\
    (forall y, registry_process C (rp_keyset K connB) v = Ok y ->
               opens_ab_key_block C (ks_syms (rp_keyset K connB)) keyA [] nonce dek) /\
    (~ opens_ab_key_block C (ks_syms (rp_keyset K connB)) keyA [] nonce dek ->
     decrypt_handler (registry_process C (rp_keyset K connB)) v = Ok v).
Proof. exact readpath_decrypt_other_client. Qed.
Print Assumptions C02_readpath_decrypt_other_client.

(** * 4. the statements discriminate: a read path selecting its identity like the write path does (client_id of the
      column first) hands A's plaintext to a connection of B for which nothing was ever protected *)
Theorem C02_readpath_identity_from_setting_refuted :
  exists sch K ws s idB t x,
    Forall (fun w => rp_owner w <> idB) ws /\ x <> t /\
    rp_read_core_by_setting Crypto.Stub.Stub sch K (rp_store Crypto.Stub.Stub sch K ws) (Some s) idB t = Ok (x, false) /\
    rp_read_core Crypto.Stub.Stub sch K (rp_store Crypto.Stub.Stub sch K ws) (Some s) idB t = Ok (t, false).
Proof. exact read_identity_from_setting_refuted. Qed.
Print Assumptions C02_readpath_identity_from_setting_refuted.

(** the replayed case files need this module compiled (./check builds the cone of the property files only) *)
From Acra Require Model.RunReadPath.

(** * Non-vacuity (stand-in crypto): bob's connection writes into a column with client_id alice; alice reads her
      value, bob gets the stored form; the premises of 2. and 3. hold on these scenarios *)
From Acra Require Import Crypto.Stub.

Example C02_readpath_token_scenario :
  snd (rp_write Stub rpx_sch rpx_K init_store rpx_s_tok rpx_B rpx_tape rpx_secret) = Ok rpx_token /\
  Forall (fun w => rp_owner w <> rpx_B) rpx_ws /\
  rp_read_core Stub rpx_sch rpx_K (rp_store Stub rpx_sch rpx_K rpx_ws) (Some rpx_s_tok) rpx_A rpx_token = Ok (rpx_secret, false) /\
  rp_read_core Stub rpx_sch rpx_K (rp_store Stub rpx_sch rpx_K rpx_ws) (Some rpx_s_tok) rpx_B rpx_token = Ok (rpx_token, false).
Proof.
  split; [apply rpx_write_protects_for_column_client|]. split; [exact rpx_premise_satisfiable|].
  split; [exact rpx_owner_reads| exact rpx_other_gets_token].
Qed.

Example C02_readpath_decrypt_scenario :
  fs_only_enc (rp_fs rpx_s_ab) = true /\ looks_protected ENVELOPE_ID_ACRABLOCK rpx_x = false /\ good_ab_tape rpx_ab_tape /\
  ks_syms (rp_keyset rpx_K (rp_write_id rpx_s_ab rpx_B)) = [rpx_keyA] /\
  rp_write Stub rpx_sch rpx_K init_store rpx_s_ab rpx_B rpx_ab_tape rpx_x = (init_store, Ok rpx_v) /\
  ~ opens_ab_key_block Stub (ks_syms (rp_keyset rpx_K rpx_B)) rpx_keyA [] (repeat_bytes x03 12) (repeat_bytes x01 32) /\
  rp_read_core Stub rpx_sch rpx_K init_store (Some rpx_s_ab) rpx_A rpx_v = Ok (rpx_x, true) /\
  rp_read_core Stub rpx_sch rpx_K init_store (Some rpx_s_ab) rpx_B rpx_v = Ok (rpx_v, false).
Proof. exact rpx_decrypt_premises_hold. Qed.
