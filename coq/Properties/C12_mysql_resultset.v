(** C12, MySQL: WHOLE result sets through the row loop of QueryResponseHandler (Model/MysqlResultSet.v).
    "Relayed protocol messages stay byte-identical": a result set without protected columns reaches the client
    unchanged and the handler stops exactly at the terminator - for the EOF_Packet and for the OK_Packet with the
    0xfe header a CLIENT_DEPRECATE_EOF client gets, of ANY length below MaxPayloadLen (info string, session-state
    data).  Statements only; proofs in Proofs/MysqlResultSet.v.  [maxp] is MaxPayloadLen (every value in range). *)
From Acra Require Import Lib.Bytes Lib.Outcome Lib.GoSlice Gen.WireMysqlConsts Model.MysqlWire Model.MysqlWireExt
  Model.MysqlResultSet Proofs.MysqlWire Proofs.MysqlWireExt Proofs.MysqlResultSet.
Local Open Scope Z_scope.

(** a packet that starts with 0xfe and has 1 .. maxp-1 payload bytes ends the rows: the 5-byte EOF_Packet, the
    7-byte OK_Packet, and the OK_Packet with an info string / session-state data of any length *)
Theorem C12_mysql_fe_packet_is_rows_end : forall maxp (seq : byte) (t : bytes),
  (1 <= maxp <= 16777215)%N -> (lenN (n2b MY_EOF :: t) < maxp)%N ->
  is_rows_end maxp (mk_packet (le_enc 3 (lenN (n2b MY_EOF :: t)) ++ [seq]) (n2b MY_EOF :: t)) = Ok true.
Proof. exact mysql_fe_packet_is_rows_end. Qed.
Print Assumptions C12_mysql_fe_packet_is_rows_end.

(** the whole stream, for every number of rows and every sequence id: row packets as the protocol frames them
    below maxp bytes (never starting with 0xfe / 0xff, see C12_mysql_text_row_not_rows_end) that the row processing
    leaves alone (no protected column), then a 0xfe terminator of ANY length below maxp, then anything:
    the client gets exactly the bytes the database sent up to and including the terminator, and nothing behind
    the terminator is consumed *)
Theorem C12_mysql_resultset_relay : forall maxp tr (rows : list (byte * bytes)) (seq : byte) (t rest : bytes),
  (1 <= maxp <= 16777215)%N ->
  Forall (row_ok maxp) rows -> (forall sp, In sp rows -> tr (snd sp) = Ok (snd sp)) ->
  (lenN (n2b MY_EOF :: t) < maxp)%N ->
  forall fuel, (length rows < fuel)%nat ->
  rows_loop maxp tr fuel (frames rows ++ frame (seq, n2b MY_EOF :: t) ++ rest)
  = Ok (frames rows ++ frame (seq, n2b MY_EOF :: t), rest).
Proof. exact mysql_rows_relay. Qed.
Print Assumptions C12_mysql_resultset_relay.

(** an ERR_Packet in the row position ends the rows and is relayed (fix_mysql_err_after_rows) *)
Theorem C12_mysql_resultset_relay_err : forall maxp tr (seq : byte) (t rest : bytes),
  (1 <= maxp <= 16777215)%N -> (lenN (n2b MY_ERR :: t) < maxp)%N ->
  rows_loop maxp tr 1 (frame (seq, n2b MY_ERR :: t) ++ rest) = Ok (frame (seq, n2b MY_ERR :: t), rest).
Proof. exact mysql_rows_relay_err. Qed.
Print Assumptions C12_mysql_resultset_relay_err.

(** non-vacuity (maxp = MY_MAX_PAYLOAD): two rows ("42"; NULL), a 16-byte OK_Packet with the 0xfe header carrying
    session-state data, one byte of the next answer behind it: premises hold and the model computes the claim *)
Definition c12rs_rows : list (byte * bytes) := [(n2b 3, hb 0x1023432); (n2b 4, hb 0x1fb)].
Definition c12rs_term_tail : bytes := hb 0x1000002400000000701050474657374.
Example C12_mysql_resultset_relay_nonvacuous :
  Forall (row_ok MY_MAX_PAYLOAD) c12rs_rows /\ (lenN (n2b MY_EOF :: c12rs_term_tail) = 16)%N /\
  relay_rows MY_MAX_PAYLOAD (fun d => Ok d) (frames c12rs_rows ++ frame (n2b 5, n2b MY_EOF :: c12rs_term_tail) ++ [x07])
  = Ok (hb 0x10300000302343201000004fb10000005fe000002400000000701050474657374, [x07]).
Proof.
  split; [|split; vm_compute; reflexivity].
  repeat constructor; eexists; eexists; (split; [reflexivity|]); vm_compute; repeat split; try discriminate; reflexivity.
Qed.
