(** Property C14, bytea ESCAPE-format decoder over RUNES (utils/dbByteArrayEncoders.go DecodeOctal / DecodeEscaped and
    their consumers; domain c14bytea, Model/ByteaRunes.v, Model/RunByteaRunes.v).
    DecodeOctal converts its input with [[]rune(string(data))] (Model/Bytea.v [to_runes]: Go's UTF-8 decoder, every
    invalid byte becomes ONE rune U+FFFD) and then indexes the RUNE slice: [decode_octal_checked] performs Go's bounds
    check at every [text[...]] and its two "escape sequence incomplete" guards compare against [len(text)].
    The theorems quantify over ALL byte strings. *)
From Acra Require Import Lib.Bytes Lib.Outcome Lib.GoSlice Model.Bytea Model.ByteaRunes Model.RunByteaRunes Proofs.Bytea Proofs.ByteaRunes.
Local Open Scope N_scope.

(** the index-checked loop over the rune slice computes exactly the structural model of Model/Bytea.v (the one
    C12's round-trip theorems are stated for), for every byte string: valid, invalid, multi-byte or not *)
Theorem C14_bytea_runes_checked_is_model : forall d : bytes, decode_octal_checked d = decode_octal d.
Proof. exact decode_octal_checked_eq. Qed.
Print Assumptions C14_bytea_runes_checked_is_model.

Theorem C14_bytea_runes_escaped_checked_is_model : forall d : bytes, decode_escaped_checked d = decode_escaped d.
Proof. exact decode_escaped_checked_eq. Qed.
Print Assumptions C14_bytea_runes_escaped_checked_is_model.

(** no index of DecodeOctal leaves the rune slice, whatever the bytes are *)
Theorem C14_bytea_runes_decode_octal_never_panics : forall d : bytes, decode_octal_checked d <> Panic.
Proof. exact decode_octal_checked_total. Qed.
Print Assumptions C14_bytea_runes_decode_octal_never_panics.

Theorem C14_bytea_runes_decode_escaped_never_panics : forall d : bytes, decode_escaped_checked d <> Panic.
Proof. exact decode_escaped_checked_total. Qed.
Print Assumptions C14_bytea_runes_decode_escaped_never_panics.

(** every replayed entry (DecodeOctal, DecodeEscaped, SQL literal coder, text Bind parameter, text DataRow value
    with and without the bytea type) ends in ok or err for every value *)
Theorem C14_bytea_runes_entries_never_panic : forall o : op, run o <> XPanic.
Proof. exact run_never_panics. Qed.
Print Assumptions C14_bytea_runes_entries_never_panic.

(** guards that compare against the BYTE length [len(data)] are the same function exactly as long as the rune count
    equals the byte count (ASCII, and invalid bytes: one rune each) ... *)
Theorem C14_bytea_runes_bytelen_same_when_counts_equal : forall d : bytes,
  length (to_runes d) = length d -> decode_octal_bytelen d = decode_octal_checked d.
Proof. exact bytelen_agrees. Qed.
Print Assumptions C14_bytea_runes_bytelen_same_when_counts_equal.

Theorem C14_bytea_runes_bytelen_same_on_ascii : forall d : bytes,
  Forall (fun b => b2n b < 128) d -> decode_octal_bytelen d = decode_octal_checked d.
Proof. exact bytelen_agrees_ascii. Qed.
Print Assumptions C14_bytea_runes_bytelen_same_on_ascii.

(** ... and are UNSOUND otherwise: one valid two-byte character before a lone backslash indexes text[2] of a
    two-rune slice ("é\"), where the real guards answer ErrDecodeOctalString *)
Definition w_e_bs : bytes := hb 0x1c3a95c.          (* "é\"   *)
Definition w_e_bs12 : bytes := hb 0x1c3a95c3132.    (* "é\12" *)
Definition w_euro2_bs7 : bytes := hb 0x1e282ace282ac5c37. (* "€€\7" *)
Theorem C14_bytea_runes_bytelen_refuted :
  exists d : bytes, decode_octal_bytelen d = Panic /\ decode_octal_checked d = Err E_OCTAL.
Proof. exists w_e_bs. vm_compute. split; reflexivity. Qed.
Print Assumptions C14_bytea_runes_bytelen_refuted.

(** non-vacuity / concrete values *)
Example C14_bytea_runes_examples :
  decode_octal_bytelen w_e_bs12 = Panic /\ decode_octal_checked w_e_bs12 = Err E_OCTAL /\
  decode_octal_bytelen w_euro2_bs7 = Panic /\ decode_octal_checked w_euro2_bs7 = Err E_OCTAL /\
  (* a complete escape after a multi-byte character decodes; the character is copied *)
  decode_octal_checked (hb 0x1c3a95c313031) = Ok (hb 0x1c3a941) /\
  (* an invalid byte becomes U+FFFD (EF BF BD); rune count = byte count *)
  decode_octal_checked (hb 0x1ff5c5c) = Ok (hb 0x1efbfbd5c) /\
  length (to_runes (hb 0x1ff5c5c)) = length (hb 0x1ff5c5c) /\
  length (to_runes w_e_bs) <> length w_e_bs /\
  run (BrRow w_e_bs) = XOk [w_e_bs] /\ run (BrBind w_e_bs) = XErr /\
  Forall (fun b => b2n b < 128) (hb 0x1615c31) /\ decode_octal_checked (hb 0x1615c31) = Err E_OCTAL.
Proof. vm_compute. repeat split; try discriminate; repeat constructor. Qed.
