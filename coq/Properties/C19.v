(** C19 — Typed columns come back in the declared type or per the failure policy (PostgreSQL side).
    Only statements, closed by [exact], their assumptions and non-vacuity examples.
    Vocabulary (Proofs/Typed.v): [typed_repr k binary p] = p encoded as kind k in the format,
    [cipher_repr k binary c] = the stored bytes as returned under the ciphertext policy,
    [default_repr k binary d] = the configured default encoded as kind k, [wire_of binary raw] = the cell
    PostgreSQL sends for a bytea value [raw]; [reveal] is ANY function (the reveal step, C01/C14). *)
From Acra Require Import Lib.Bytes Lib.Outcome Gen.TypedConsts Model.Typed Model.RunTyped
  Proofs.TypedInt Proofs.Typed.
Local Open Scope N_scope.

(** The outcome matrix: for every registered type id / kind, every policy, both formats, every reveal
    function and every non-empty stored value, the delivered cell is chosen by the policy exactly as the
    property says, and the row description names the same type id.
    Side conditions, each one the exact boundary of a reproduced finding or of the wire format:
    - integer kinds, binary format: the stored cell is not 4 or 8 bytes long (such cells are plain binary
      integers for the decoder: [C19_int_binary_cell_roundtrip], [C19_int4_8byte_cell_refuted]);
    - unrevealed cell of an integer column: the stored bytes are not themselves an integer literal
      (then they are a plain value and are delivered typed: Proofs.Typed.encoder_int_literal);
    - revealed value [p] of an integer column that is no integer literal is handed through as is
      ([typed_repr] says so; [C19_owner_nonint_plaintext_refuted]). *)
Theorem C19_typed_outcome_matrix :
  forall (s : setting) (k : tykind) (binary : bool) (reveal : bytes -> option bytes) (raw : bytes) (db_oid : N),
  pg_encoder_for (s_type_id s) = Some k ->
  s_binop s = true -> s_type_aware s = true ->
  raw <> [] ->
  (is_int_kind k = true -> binary = true -> length raw <> 4%nat /\ length raw <> 8%nat) ->
  match reveal raw with
  | Some p =>
      p <> [] -> pg_cell s binary reveal (wire_of binary raw) = Ok (typed_repr k binary p)
  | None =>
      (is_int_kind k = true -> parse_int (int_bits k) raw = None) ->
      match s_policy s with
      | PEmpty | PCiphertext => pg_cell s binary reveal (wire_of binary raw) = Ok (cipher_repr k binary raw)
      | PDefault =>
          match s_default s with
          | Some d => validate_default k d = true ->
                      pg_cell s binary reveal (wire_of binary raw) = Ok (default_repr k binary d)
          | None => pg_cell s binary reveal (wire_of binary raw) = Ok (cipher_repr k binary raw)
          end
      | PError => pg_cell s binary reveal (wire_of binary raw) = Err E_ENCODING
      | PBad => pg_cell s binary reveal (wire_of binary raw) = Err E_GENERIC
      end
  end
  /\ pg_described_oid s db_oid = s_type_id s.
Proof. exact typed_outcome_matrix_pg. Qed.
Print Assumptions C19_typed_outcome_matrix.

(** case (a) for integer columns: what the owner receives parses back as the declared type to the value *)
Theorem C19_typed_value_parses :
  forall (k : tykind) (p : bytes) (z : Z),
  is_int_kind k = true -> parse_int (int_bits k) p = Some z ->
  typed_repr k false p = p /\
  typed_repr k true p = be_of_int (int_width k) z /\
  length (typed_repr k true p) = int_width k /\
  int_of_be (typed_repr k true p) = z.
Proof. exact typed_repr_int. Qed.
Print Assumptions C19_typed_value_parses.

(** never partial: for ALL settings (typed or not, validated or not), formats, reveal functions and cells *)
Theorem C19_never_partial :
  forall (s : setting) (binary : bool) (reveal : bytes -> option bytes) (stored v : bytes),
  pg_cell s binary reveal stored = Ok v ->
  exists (c0 : cctx) (seen : bytes),
    pg_decoder s binary ctx0 stored = Ok (c0, seen) /\
    match reveal seen with
    | Some p => whole_of p v \/ default_of s binary v
    | None => whole_of seen v \/ default_of s binary v \/ v = stored
    end.
Proof. exact never_partial_pg. Qed.
Print Assumptions C19_never_partial.

(** int_text_binary_roundtrip, values: every int32 / int64 *)
Theorem C19_int_text_binary_roundtrip :
  forall (k : tykind) (z : Z),
  is_int_kind k = true ->
  (- Z.of_N (2 ^ (int_bits k - 1)) <= z < Z.of_N (2 ^ (int_bits k - 1)))%Z ->
  parse_int (int_bits k) (print_int z) = Some z /\
  int_of_be (be_of_int (int_width k) z) = z /\
  length (be_of_int (int_width k) z) = int_width k /\
  typed_repr k true (print_int z) = be_of_int (int_width k) z /\
  print_int (int_of_be (be_of_int (int_width k) z)) = print_int z.
Proof. exact int_text_binary_roundtrip. Qed.
Print Assumptions C19_int_text_binary_roundtrip.

(** int_text_binary_roundtrip, processors: every binary cell of the declared width decodes to the decimal
    text of its value and encodes back to the same bytes, whatever the policy and the context *)
Theorem C19_int_binary_cell_roundtrip :
  forall (s : setting) (k : tykind) (c : cctx) (bs : bytes),
  pg_encoder_for (s_type_id s) = Some k -> is_int_kind k = true -> length bs = int_width k ->
  exists (c' : cctx) (t : bytes),
    pg_decoder s true c bs = Ok (c', t) /\ t = print_int (int_of_be bs) /\
    parse_int (int_bits k) t = Some (int_of_be bs) /\
    forall c2, pg_encoder s true c2 t = Ok bs.
Proof. exact int_binary_cell_roundtrip. Qed.
Print Assumptions C19_int_binary_cell_roundtrip.

(** the bytea text form round trips: DecodeEscaped (PgEncodeToHex d) = d *)
Theorem C19_hex_roundtrip : forall d : bytes, decode_escaped (pg_hex d) = Ok d.
Proof. exact decode_escaped_pg_hex. Qed.
Print Assumptions C19_hex_roundtrip.

(** Init (both databases: any encoder / type id tables): what an accepted configuration guarantees *)
Theorem C19_init_validates :
  forall (encoders type_ids : list (N * N)) (i : init_in) (s : setting),
  init_setting encoders type_ids i = Ok s ->
  s_binop s = true /\ s_type_aware s = true /\
  (s_policy s = PCiphertext \/ s_policy s = PDefault \/ s_policy s = PError) /\
  s_default s = i_default i /\
  forall d, s_default s = Some d ->
    s_policy s = PDefault /\
    exists k, encoder_for encoders (s_type_id s) = Some k /\ validate_default k d = true.
Proof. exact init_validates. Qed.
Print Assumptions C19_init_validates.

(** invalid_default_rejected_at_config_time: a default accepted by Init always encodes, in both formats,
    to the default of the declared type *)
Theorem C19_invalid_default_rejected_at_config_time :
  forall (i : init_in) (s : setting) (d : bytes) (binary : bool),
  pg_init i = Ok s -> s_default s = Some d ->
  exists k, pg_encoder_for (s_type_id s) = Some k /\
            pg_encode_on_fail k s binary = Ok (Some (default_repr k binary d)) /\
            (is_int_kind k = true -> exists z, parse_int (int_bits k) d = Some z) /\
            (k = TText -> utf8_valid d = true) /\
            (k = TBytea -> exists v, b64_decode d = Some v).
Proof. exact invalid_default_rejected_at_config_time_pg. Qed.
Print Assumptions C19_invalid_default_rejected_at_config_time.

Theorem C19_init_rejects_invalid_default :
  forall (i : init_in) (k : tykind) (d : bytes),
  i_default i = Some d ->
  (forall s, pg_init i = Ok s -> pg_encoder_for (s_type_id s) = Some k) ->
  validate_default k d = false -> forall s, pg_init i <> Ok s.
Proof. exact init_rejects_invalid_default. Qed.
Print Assumptions C19_init_rejects_invalid_default.

(** Known finding 1 (class int-column-plaintext-not-integer): the owner of an int32 column whose protected
    value is 2147483648 receives the 10 ASCII bytes in binary format, in a column described as int4,
    policy [error] notwithstanding. *)
Theorem C19_owner_nonint_plaintext_refuted :
  exists (s : setting) (raw p : bytes),
    pg_encoder_for (s_type_id s) = Some TInt4 /\ s_policy s = PError /\
    parse_int 32 p = None /\
    pg_cell s true (fun _ => Some p) raw = Ok p /\ length p <> 4%nat /\
    pg_described_oid s 17 = 23.
Proof. exact owner_nonint_plaintext_refuted. Qed.
Print Assumptions C19_owner_nonint_plaintext_refuted.

(** Known finding 2 (class int4-binary-8-byte-cell-reinterpreted) *)
Theorem C19_int4_8byte_cell_refuted :
  exists (s : setting) (raw v : bytes),
    pg_encoder_for (s_type_id s) = Some TInt4 /\ s_policy s = PCiphertext /\
    pg_cell s true (fun _ => None) raw = Ok v /\ v <> raw /\ length v <> 4%nat.
Proof. exact int4_8byte_cell_refuted. Qed.
Print Assumptions C19_int4_8byte_cell_refuted.

(** * Non-vacuity: the premises are satisfiable on concrete non-trivial values *)
Definition ex_default : bytes := [x2d; x34; x32].                     (* "-42" *)
Definition ex_init : init_in := mk_init 1 0 0 (Some ex_default).      (* data_type: int32, default_data_value: -42 *)
Definition ex_setting : setting := mk_setting 23 PDefault (Some ex_default) true true.
Definition ex_raw : bytes := [x25; x25; x25; x01; x02; x03; xff; x00; x5c].
Definition ex_plain : bytes := [x2d; x32; x31; x34; x37; x34; x38; x33; x36; x34; x38].  (* "-2147483648" *)

Example ex_init_accepts : pg_init ex_init = Ok ex_setting.
Proof. vm_compute. reflexivity. Qed.
Example ex_init_rejects_out_of_range :
  pg_init (mk_init 1 0 0 (Some [x32; x31; x34; x37; x34; x38; x33; x36; x34; x38])) = Err E_GENERIC.
Proof. vm_compute. reflexivity. Qed.
Example ex_init_rejects_error_policy_with_default : pg_init (mk_init 1 0 3 (Some ex_default)) = Err E_GENERIC.
Proof. vm_compute. reflexivity. Qed.
Example ex_premises :
  pg_encoder_for (s_type_id ex_setting) = Some TInt4 /\ s_binop ex_setting = true /\ s_type_aware ex_setting = true /\
  ex_raw <> [] /\ length ex_raw <> 4%nat /\ length ex_raw <> 8%nat /\ parse_int 32 ex_raw = None /\
  validate_default TInt4 ex_default = true /\ parse_int 32 ex_plain = Some (-2147483648)%Z.
Proof. vm_compute. repeat split; congruence. Qed.
(** the four outcomes, both formats, on the concrete column *)
Example ex_owner_binary :
  pg_cell ex_setting true (fun _ => Some ex_plain) (wire_of true ex_raw) = Ok [x80; x00; x00; x00].
Proof. vm_compute. reflexivity. Qed.
Example ex_owner_text :
  pg_cell ex_setting false (fun _ => Some ex_plain) (wire_of false ex_raw) = Ok ex_plain.
Proof. vm_compute. reflexivity. Qed.
Example ex_default_binary :
  pg_cell ex_setting true (fun _ => None) (wire_of true ex_raw) = Ok [xff; xff; xff; xd6].
Proof. vm_compute. reflexivity. Qed.
Example ex_ciphertext_text :
  pg_cell (mk_setting 17 PCiphertext None true true) false (fun _ => None) (wire_of false ex_raw) = Ok (pg_hex ex_raw).
Proof. vm_compute. reflexivity. Qed.
Example ex_error :
  pg_cell (mk_setting 25 PError None true true) false (fun _ => None) (wire_of false ex_raw) = Err E_ENCODING.
Proof. vm_compute. reflexivity. Qed.
Example ex_roundtrip_boundaries :
  parse_int 64 (print_int (-9223372036854775808)%Z) = Some (-9223372036854775808)%Z /\
  be_of_int 8 (-9223372036854775808)%Z = [x80; x00; x00; x00; x00; x00; x00; x00] /\
  parse_int 32 (print_int 2147483648%Z) = None /\
  run (PInt 64 (print_int 9223372036854775807%Z)) = XOk [[x00]; print_int 9223372036854775807%Z].
Proof. vm_compute. repeat split; reflexivity. Qed.
