(** C02 — Data protected for one client is never revealed under another identity.
    Only statements, closed by [exact], and their assumptions.  [C] ranges over every crypto instance
    satisfying [Correct] (round-trip and length laws only).  NOTHING is assumed about unforgeability or key
    commitment of the AEAD (that would be unsatisfiable for a fixed-overhead scheme): isolation is stated as a
    REDUCTION — a reveal under B's keyset succeeds only if B's keyset holds a key that opens A's key block,
    i.e. A's key itself (shared key) or an explicit forgery witness (a successful seal_dec / unwrap of a
    ciphertext under a key it was not produced with).  Keysets are arbitrary lists = arbitrary key histories. *)
From Acra Require Import Lib.Bytes Lib.Outcome Lib.Sha256 Crypto.Interface Gen.Consts Model.Envelope
  Proofs.Envelope Proofs.EnvelopeHandlers Proofs.Scanner Proofs.Isolation
  Gen.TlsWrapper Model.TlsWrapper Proofs.TlsWrapper.

(** * 1. Soundness of every reveal: which bytes were opened with which key of the REVEALING keyset *)

(** AcraStruct, exact characterisation: success <=> the private key unwrapped the bytes at the key-block
    position (peer key = the bytes at the public-key position) and the unwrapped key opened the payload *)
Theorem C02_reveal_sound_as :
  forall (C : crypto) (data priv ctx y : bytes),
  as_decrypt C data priv ctx = Ok y <->
  (as_validate data = true /\
   exists symkey, msg_unwrap C priv (as_pub_of data) (as_wrapped_of data) = Some symkey /\
                  cell_decrypt C symkey ctx (as_payload_of data) = Some y).
Proof. exact reveal_sound_as. Qed.
Print Assumptions C02_reveal_sound_as.

(** any number of rotated private keys: a success is the success of ONE key of the list *)
Theorem C02_reveal_sound_as_rotated :
  forall (C : crypto) (data : bytes) (privs : list bytes) (ctx y : bytes),
  as_decrypt_rotated C data privs ctx = Ok y ->
  exists priv, In priv privs /\ as_opened C data priv ctx y.
Proof. exact as_rotated_sound. Qed.
Print Assumptions C02_reveal_sound_as_rotated.

(** AcraBlock: a key OF THE LIST, whose key id is the declared one, opened the key block at its declared
    position and length; the data key it yielded opened the rest *)
Theorem C02_reveal_sound_ab :
  forall (C : crypto) (b : bytes) (keys : list bytes) (ctx y : bytes),
  ab_decrypt C b keys ctx = Ok y ->
  exists k dk, In k keys /\ ab_key_id k ctx = ab_kid_of b /\
               cell_decrypt C k ctx (ab_ek_of b) = Some dk /\
               cell_decrypt C dk ctx (ab_ed_of b) = Some y.
Proof. exact reveal_sound_ab. Qed.
Print Assumptions C02_reveal_sound_ab.

(** RegistryHandler.DecryptWithHandler = translator Decrypt/DecryptSym, for ARBITRARY stored bytes and any handler *)
Theorem C02_reveal_sound_handler :
  forall (C : crypto) (id : byte) (ks : keyset) (stored y : bytes),
  decrypt_with_handler C id ks stored = Ok y ->
  exists inner id0, sc_deserialize stored = Ok (inner, id0) /\ handler_match id inner = true /\
    (if byte_eqb id ENVELOPE_ID_ACRASTRUCT
     then exists priv, In priv (ks_privs ks) /\ as_opened C inner priv [] y
     else exists n block, ab_extract inner = Ok (n, block) /\ ab_opened C block (ks_syms ks) [] y).
Proof. exact decrypt_with_handler_sound. Qed.
Print Assumptions C02_reveal_sound_handler.

(** RegistryHandler.Process (the column DecryptHandler) *)
Theorem C02_reveal_sound_process :
  forall (C : crypto) (ks : keyset) (stored y : bytes),
  registry_process C ks stored = Ok y ->
  exists id, (envelope_kind stored = EnvNew id \/ envelope_kind stored = EnvOld id) /\ revealed C id ks stored y.
Proof. exact registry_process_sound. Qed.
Print Assumptions C02_reveal_sound_process.

(** searchable decryption: the envelope part as above AND the hash part verified under the HMAC key of the same keyset *)
Theorem C02_reveal_sound_searchable :
  forall (C : crypto) (id : byte) (ks : keyset) (data : bytes) (hash : option bytes) (y : bytes),
  tr_decrypt_searchable C id ks data hash = Ok y ->
  exists hpart cdata,
    extract_hash (match hash with Some h => h ++ data | None => data end) = Some (hpart, cdata) /\
    revealed C id ks cdata y /\ hash_is_equal hpart y ks = true.
Proof. exact tr_decrypt_searchable_sound. Qed.
Print Assumptions C02_reveal_sound_searchable.

(** transparent column processing: a column is handed back byte-identical unless some candidate envelope in it
    opens under the acting identity's keyset (and then [C02_reveal_sound_process] applies to that candidate) *)
Theorem C02_column_unchanged_unless_opened :
  forall (C : crypto) (ks : keyset) (col : bytes),
  (forall i n c y, sc_extract (skipn i col) = Ok (n, c) -> registry_process C ks c = Ok y -> y = c) ->
  on_column (column_cbs C ks) col = Ok (col, false).
Proof. exact column_unchanged_unless_opened. Qed.
Print Assumptions C02_column_unchanged_unless_opened.

(** no reveal entry point panics, whatever the bytes and keys *)
Theorem C02_reveal_total :
  forall (C : crypto) (id : byte) (ks : keyset) (stored : bytes) (hash : option bytes),
  decrypt_with_handler C id ks stored <> Panic /\ registry_process C ks stored <> Panic /\
  tr_decrypt_searchable C id ks stored hash <> Panic.
Proof.
  intros. split; [apply decrypt_with_handler_total|]. split; [apply registry_process_total| apply tr_decrypt_searchable_total].
Qed.
Print Assumptions C02_reveal_total.

(** * 2. No cross-client reveal (reductions) *)

(** library level, any context: CreateAcraBlock for A's key, AcraBlock.Decrypt with ANY key list of B *)
Theorem C02_no_cross_client_acrablock :
  forall (C : crypto), Correct C ->
  forall (tape : list bytes) (data keyA ctx : bytes) (keysB : list bytes),
  good_ab_tape tape -> keyA <> [] -> data <> [] ->
  exists v dek nonce, ab_create C tape data keyA ctx = Ok v /\
    forall y, ab_decrypt C v keysB ctx = Ok y ->
      exists k m, In k keysB /\ seal_dec C k ctx (seal_enc C keyA ctx nonce dek) = Some m.
Proof. exact ab_cross_client. Qed.
Print Assumptions C02_no_cross_client_acrablock.

(** library level: CreateAcrastruct for A's public key, DecryptRotatedAcrastruct with ANY private key list of B *)
Theorem C02_no_cross_client_acrastruct :
  forall (C : crypto), Correct C ->
  forall (tape : list bytes) (data sbA ctx : bytes) (privsB : list bytes),
  good_as_tape tape -> length sbA = SEED_LEN -> data <> [] ->
  exists v eseed nonce dkey w,
    as_create C tape data (pub_of C sbA) ctx = Ok v /\
    wrap C (priv_of C eseed) (pub_of C sbA) nonce dkey = Some w /\
    forall y, as_decrypt_rotated C v privsB ctx = Ok y ->
      exists priv m, In priv privsB /\ unwrap C priv (pub_of C eseed) w = Some m.
Proof. exact as_cross_client. Qed.
Print Assumptions C02_no_cross_client_acrastruct.

(** "opens A's key block" = shared key, or an explicit forgery witness *)
Theorem C02_opens_is_shared_key_or_forgery_sym :
  forall (C : crypto) (keysB : list bytes) (keyA ctx nonce dek : bytes),
  opens_ab_key_block C keysB keyA ctx nonce dek ->
  In keyA keysB \/
  exists k, In k keysB /\ k <> keyA /\ exists m, seal_dec C k ctx (seal_enc C keyA ctx nonce dek) = Some m.
Proof. exact opens_ab_shared_or_forgery. Qed.
Print Assumptions C02_opens_is_shared_key_or_forgery_sym.

Theorem C02_opens_is_shared_key_or_forgery_asym :
  forall (C : crypto) (privsB : list bytes) (privA epub w : bytes),
  opens_as_key_block C privsB epub w ->
  In privA privsB \/
  exists priv, In priv privsB /\ priv <> privA /\ exists m, unwrap C priv epub w = Some m.
Proof. exact opens_as_shared_or_forgery. Qed.
Print Assumptions C02_opens_is_shared_key_or_forgery_asym.

(** entry points, symmetric envelope.  Protect for A: RegistryHandler.EncryptWithHandler = EncryptWithClientID =
    translator EncryptSym (= envelope part of EncryptSymSearchable).  Reveal under B: DecryptWithHandler =
    translator DecryptSym, RegistryHandler.Process, DecryptSymSearchable (hash as argument or joined), and the
    column DecryptHandler on a column that continues after the value.  For EVERY key history of A (the key in
    use when the value was written is [keyA], [rest] arbitrary) and EVERY key history of B ([ksB] arbitrary):
    (a) a success exhibits a key of B's keyset that opens A's key block; (b) without one, every entry point
    answers with an error and a column holding the value anywhere is handed back unchanged (unless some OTHER
    candidate envelope of that column opens under B's keys, e.g. B's own data in the same column). *)
Theorem C02_no_cross_client_reveal_symmetric :
  forall (C : crypto), Correct C ->
  forall (ksA ksB : keyset) (tape : list bytes) (x keyA : bytes) (rest : list bytes),
  looks_protected ENVELOPE_ID_ACRABLOCK x = false ->
  x <> [] -> (N.of_nat (length x) < MAXMSG)%N -> good_ab_tape tape -> keyA <> [] ->
  ks_syms ksA = keyA :: rest ->
  exists v dek nonce,
    encrypt_with_handler C ENVELOPE_ID_ACRABLOCK ksA tape x = Ok v /\
    (forall y,
       (decrypt_with_handler C ENVELOPE_ID_ACRABLOCK ksB v = Ok y \/
        registry_process C ksB v = Ok y \/
        (exists hash, length hash = HMAC_HASH_SIZE /\ tr_decrypt_searchable C ENVELOPE_ID_ACRABLOCK ksB v (Some hash) = Ok y) \/
        (exists hash, length hash = HMAC_HASH_SIZE /\ tr_decrypt_searchable C ENVELOPE_ID_ACRABLOCK ksB (hash ++ v) None = Ok y) \/
        (exists s, registry_process C ksB (v ++ s) = Ok y)) ->
       opens_ab_key_block C (ks_syms ksB) keyA [] nonce dek) /\
    (~ opens_ab_key_block C (ks_syms ksB) keyA [] nonce dek ->
       (exists e, decrypt_with_handler C ENVELOPE_ID_ACRABLOCK ksB v = Err e) /\
       (exists e, registry_process C ksB v = Err e) /\
       (forall hash, length hash = HMAC_HASH_SIZE ->
          exists e, tr_decrypt_searchable C ENVELOPE_ID_ACRABLOCK ksB v (Some hash) = Err e) /\
       (forall p s,
          (forall i n c y, i <> length p -> sc_extract (skipn i (p ++ v ++ s)) = Ok (n, c) ->
                           registry_process C ksB c = Ok y -> y = c) ->
          on_column (column_cbs C ksB) (p ++ v ++ s) = Ok (p ++ v ++ s, false))).
Proof. exact no_cross_client_reveal_ab. Qed.
Print Assumptions C02_no_cross_client_reveal_symmetric.

(** entry points, asymmetric envelope (Encrypt / EncryptSearchable for A; Decrypt, Process, DecryptSearchable,
    column under B); [w] is A's key block: the data key wrapped for A's public key by the ephemeral pair [eseed] *)
Theorem C02_no_cross_client_reveal_asymmetric :
  forall (C : crypto), Correct C ->
  forall (ksA ksB : keyset) (tape : list bytes) (x sbA : bytes),
  looks_protected ENVELOPE_ID_ACRASTRUCT x = false ->
  x <> [] -> (N.of_nat (length x) < MAXMSG)%N -> good_as_tape tape -> length sbA = SEED_LEN ->
  ks_pub ksA = Some (pub_of C sbA) ->
  exists v eseed nonce dkey w,
    encrypt_with_handler C ENVELOPE_ID_ACRASTRUCT ksA tape x = Ok v /\
    wrap C (priv_of C eseed) (pub_of C sbA) nonce dkey = Some w /\
    (forall y,
       (decrypt_with_handler C ENVELOPE_ID_ACRASTRUCT ksB v = Ok y \/
        registry_process C ksB v = Ok y \/
        (exists hash, length hash = HMAC_HASH_SIZE /\ tr_decrypt_searchable C ENVELOPE_ID_ACRASTRUCT ksB v (Some hash) = Ok y) \/
        (exists hash, length hash = HMAC_HASH_SIZE /\ tr_decrypt_searchable C ENVELOPE_ID_ACRASTRUCT ksB (hash ++ v) None = Ok y) \/
        (exists s, registry_process C ksB (v ++ s) = Ok y)) ->
       opens_as_key_block C (ks_privs ksB) (pub_of C eseed) w) /\
    (~ opens_as_key_block C (ks_privs ksB) (pub_of C eseed) w ->
       (exists e, decrypt_with_handler C ENVELOPE_ID_ACRASTRUCT ksB v = Err e) /\
       (exists e, registry_process C ksB v = Err e) /\
       (forall hash, length hash = HMAC_HASH_SIZE ->
          exists e, tr_decrypt_searchable C ENVELOPE_ID_ACRASTRUCT ksB v (Some hash) = Err e) /\
       (forall p s,
          (forall i n c y, i <> length p -> sc_extract (skipn i (p ++ v ++ s)) = Ok (n, c) ->
                           registry_process C ksB c = Ok y -> y = c) ->
          on_column (column_cbs C ksB) (p ++ v ++ s) = Ok (p ++ v ++ s, false))).
Proof. exact no_cross_client_reveal_as. Qed.
Print Assumptions C02_no_cross_client_reveal_asymmetric.

(** blind index: a search hash made under A's HMAC key verifies under B's keyset only for the same (key, data)
    or an explicit HMAC-SHA256 collision *)
Theorem C02_blind_index_other_client :
  forall (hkA x y : bytes) (ksB : keyset),
  hash_is_equal (generate_hmac hkA x) y ksB = true ->
  exists hkB, ks_hmac ksB = Some hkB /\
    ((hkB = hkA /\ y = x) \/
     ((hkB, y) <> (hkA, x) /\ hmac_sha256 hkB y = hmac_sha256 hkA x)).
Proof. exact Isolation.blind_index_other_client. Qed.
Print Assumptions C02_blind_index_other_client.

(** * 3. TLS identity override (finite domain: the RPC set of the pinned tree, regenerated by go/ast every run) *)

(** every RPC of the wrapped gRPC service interfaces is declared by TLSDecryptServiceWrapper with the shape
    "id from connection; return on error; request.ClientId = id; delegate same method with same request" *)
Theorem C02_tls_identity_overrides_all_rpcs :
  forall r, In r tls_rpcs -> row_overrides r = true.
Proof. exact tls_identity_overrides_all_rpcs. Qed.
Print Assumptions C02_tls_identity_overrides_all_rpcs.

(** hence, for every RPC, connection identity and pair of request ids: the service sees the same thing, and what
    it sees is the connection identity (or it is not reached) *)
Theorem C02_tls_forged_id_ignored :
  forall (name : bytes) (conn : option bytes) (forged forged' : bytes),
    tls_seen name conn forged = tls_seen name conn forged' /\
    forall id, tls_seen name conn forged = Ok id -> conn = Some id.
Proof. exact tls_forged_id_ignored. Qed.
Print Assumptions C02_tls_forged_id_ignored.

(** * 4. Key store: storage names ((purpose, client id) -> file / key-ring name), both formats *)
From Acra Require Import Gen.KeyNames Model.KeyNames Proofs.KeyNames.
(** ---- C02, key store part: "different clients always get different keys; a key stored for one client
    cannot be loaded as another client's key; both keystore formats" — storage-name level.
    Requires: From Acra Require Import Lib.Bytes Gen.KeyNames Model.KeyNames Model.RunKeyNames Proofs.KeyNames.
    (Model.RunKeyNames must be in the import cone: ./check only builds Properties/<ID>.vo and the replayed case files need RunKeyNames.vo) ---- *)

(** keystore v1, every byte string as id (validity not needed): apart from the legacy AcraConnector key pair
    (purposes ConnPriv/ConnPub), two (purpose, client id) pairs with the same file name are the same pair *)
Theorem C02_keyname_v1_injective :
  forall (p1 p2 : v1_purpose) (id1 id2 : bytes),
  v1_connector p1 = false -> v1_connector p2 = false ->
  name_v1 p1 id1 = name_v1 p2 id2 -> p1 = p2 /\ id1 = id2.
Proof. exact name_v1_injective. Qed.
Print Assumptions C02_keyname_v1_injective.

(** keystore v1, ids accepted by ValidateID, the purposes acra uses today (storage key pair, symmetric key, HMAC key) *)
Theorem C02_keyname_v1_injective_current :
  forall (p1 p2 : v1_purpose) (id1 id2 : bytes),
  valid_id id1 = true -> valid_id id2 = true -> v1_current p1 = true -> v1_current p2 = true ->
  name_v1 p1 id1 = name_v1 p2 id2 -> p1 = p2 /\ id1 = id2.
Proof. exact name_v1_injective_current. Qed.
Print Assumptions C02_keyname_v1_injective_current.

(** keystore v1 REFUTED when the legacy connector key pair is included: two valid, different (purpose, id)
    pairs share one file (connector key of "<x>_storage" = storage key of "<x>") — known finding
    class keyname-collision-legacy-connector *)
Theorem C02_keyname_v1_injective_refuted :
  exists p1 id1 p2 id2,
    valid_id id1 = true /\ valid_id id2 = true /\ (p1, id1) <> (p2, id2) /\
    name_v1 p1 id1 = name_v1 p2 id2.
Proof. exact name_v1_injective_refuted. Qed.
Print Assumptions C02_keyname_v1_injective_refuted.

Theorem C02_keyname_v1_public_refuted :
  exists id1 id2, valid_id id1 = true /\ valid_id id2 = true /\ id1 <> id2 /\
    name_v1 ConnPub id1 = name_v1 StoragePub id2.
Proof. exact name_v1_public_refuted. Qed.
Print Assumptions C02_keyname_v1_public_refuted.

(** keystore v1: a per-client file (non-connector purpose, any id) never is a global key file
    (poison key pair, poison symmetric key, audit-log key) *)
Theorem C02_keyname_v1_not_global :
  forall (p : v1_purpose) (id : bytes), v1_connector p = false -> ~ In (name_v1 p id) V1_GLOBALS.
Proof. exact name_v1_not_global. Qed.
Print Assumptions C02_keyname_v1_not_global.

(** keystore v2, all ids in the modelled domain of filepath.Join (every valid id is: next theorem) *)
Theorem C02_keyname_v2_injective :
  forall (p1 p2 : v2_purpose) (id1 id2 n : bytes),
  name_v2 p1 id1 = Some n -> name_v2 p2 id2 = Some n -> p1 = p2 /\ id1 = id2.
Proof. exact name_v2_injective. Qed.
Print Assumptions C02_keyname_v2_injective.

Theorem C02_valid_id_is_plain_path_component :
  forall id : bytes, valid_id id = true ->
  join_plain id = true /\ existsb (byte_eqb DOT) id = false /\ ID_MIN_LEN <= length id <= ID_MAX_LEN.
Proof. intros id H. split; [exact (valid_id_join_plain id H)|]. split; [exact (valid_id_no_dot id H)| exact (valid_id_length id H)]. Qed.
Print Assumptions C02_valid_id_is_plain_path_component.

Theorem C02_keyname_v2_not_global :
  forall (p : v2_purpose) (id n : bytes), name_v2 p id = Some n -> ~ In n V2_GLOBALS.
Proof. exact name_v2_not_global. Qed.
Print Assumptions C02_keyname_v2_not_global.

(** both formats, valid ids *)
Theorem C02_keyname_injective :
  forall (id1 id2 : bytes), valid_id id1 = true -> valid_id id2 = true ->
  (forall p1 p2, v1_connector p1 = false -> v1_connector p2 = false ->
     name_v1 p1 id1 = name_v1 p2 id2 -> p1 = p2 /\ id1 = id2) /\
  (forall p1 p2, name_v2 p1 id1 = name_v2 p2 id2 -> p1 = p2 /\ id1 = id2).
Proof. exact name_injective. Qed.
Print Assumptions C02_keyname_injective.

(** non-vacuity: the premises hold on concrete non-trivial values *)
Example C02_keyname_nonvacuous :
  (valid_id id_x = true /\ valid_id id_x_storage = true) /\
  (v1_connector StorageSym = false /\ v1_connector Hmac = false /\
   name_v1 StorageSym id_x = name_v1 StorageSym id_x /\ name_v1 StorageSym id_x <> name_v1 Hmac id_x /\
   name_v1 StoragePriv id_x_storage <> name_v1 StorageSym id_x).
Proof. exact (conj valid_id_ex name_v1_premises_ex). Qed.

(** * 5. Tokens *)
From Acra Require Import Gen.IsoTokenConsts Model.IsoTokens Proofs.IsoTokens.
(* ---- C02, token / blind-index part (paste into Properties/C02.v).
   Needs: From Acra Require Import Lib.Bytes Lib.Outcome Lib.Sha256 Crypto.Interface Gen.Consts Gen.IsoTokenConsts
          Model.Envelope Model.IsoTokens Proofs.IsoTokens.   (and From Coq Require Import List. Import ListNotations.) ---- *)

(** De-tokenization under another identity: for EVERY history of Tokenize/Detokenize operations (consistent or
    not, any tapes, any keystore, bare or encrypting storage, any crypto instance) that ran under contexts other
    than B's, Detokenize under B of any byte string -- in particular of every token produced for A -- hands it
    back unchanged; otherwise the history contains an explicit SHA-256 collision on the context strings. *)
Theorem C02_detokenize_other_client_returns_token :
  forall (C : crypto) (enc : bool) (ks : keystore) (ops : list tok_op) (cB : token_context) (t : bytes),
  Forall (fun o => ctx_part (op_ctx o) <> ctx_part cB) ops ->
  deanonymize C enc ks (final_store C enc ks ops) cB t = Ok t
  \/ exists o, In o ops /\ ctx_part (op_ctx o) <> ctx_part cB
               /\ sha256 (ctx_part (op_ctx o)) = sha256 (ctx_part cB).
Proof. exact detokenize_other_client_returns_token. Qed.
Print Assumptions C02_detokenize_other_client_returns_token.

(** client-id form (no additional context, as in every production entry point) *)
Theorem C02_detokenize_other_client_ids :
  forall (C : crypto) (enc : bool) (ks : keystore) (ops : list tok_op) (idB t : bytes),
  Forall (fun o => tc_additional (op_ctx o) = [] /\ tc_client (op_ctx o) <> idB) ops ->
  deanonymize C enc ks (final_store C enc ks ops) (mkc idB) t = Ok t
  \/ exists o, In o ops /\ tc_client (op_ctx o) <> idB
               /\ sha256 (STR_CLIENT ++ tc_client (op_ctx o)) = sha256 (STR_CLIENT ++ idB).
Proof. exact detokenize_other_client_ids. Qed.
Print Assumptions C02_detokenize_other_client_ids.

(** frame: an operation under another storage scope never changes what scope [h] can see *)
Theorem C02_token_scope_frame :
  forall (C : crypto) (enc : bool) (ks : keystore) (h : bytes) (ops : list tok_op) (st : store),
  Forall (fun o => aggregate_token_context (op_ctx o) <> h) ops ->
  forall id, mem_get (fst (run_from C enc ks st ops)) h id = mem_get st h id.
Proof. exact run_from_frame. Qed.
Print Assumptions C02_token_scope_frame.

(** generateDataID does not separate (value, client) pairs: refutation witness + the whole family *)
Theorem C02_data_id_collision_refuted :
  exists v1 id1 v2 id2, v1 <> v2 /\ id1 <> id2 /\
    generate_data_id v1 (mkc id1) TOKEN_TYPE_BYTES = generate_data_id v2 (mkc id2) TOKEN_TYPE_BYTES.
Proof. exact data_id_collision_refuted. Qed.
Print Assumptions C02_data_id_collision_refuted.

Theorem C02_data_id_collision_family : forall (d s cid : bytes) (ty : N),
  generate_data_id d (mkc (s ++ STR_CLIENT ++ cid)) ty = generate_data_id (d ++ STR_CLIENT ++ s) (mkc cid) ty.
Proof. exact data_id_collision_family. Qed.
Print Assumptions C02_data_id_collision_family.

(** blind index: corollary for distinct keys (the general reduction is C02_blind_index_other_client above) *)
Theorem C02_blind_index_distinct_keys : forall (hkA hkB x y : bytes) (ksB : keyset),
  ks_hmac ksB = Some hkB -> hkB <> hkA ->
  hash_is_equal (generate_hmac hkA x) y ksB = true ->
  hkA <> hkB /\ hmac_sha256 hkA x = hmac_sha256 hkB y.
Proof. exact blind_index_distinct_keys. Qed.
Print Assumptions C02_blind_index_distinct_keys.

(** the replayed case files need these modules compiled (./check builds the cone of this file only) *)
From Acra Require Model.RunEnvelope Model.RunTls Model.RunKeyNames Model.RunIsoTokens.

(** * Non-vacuity: the premises hold on a concrete scenario (stand-in crypto), the "no key of B opens A's key
      block" premise is satisfiable, and the shared-key disjunct is real *)
From Acra Require Import Crypto.Stub Proofs.StubCorrect.

Definition exA_key : bytes := repeat_bytes x11 32.
Definition exB_keys : list bytes := [repeat_bytes x21 32; repeat_bytes x22 32; repeat_bytes x23 32].
Definition ex_ab_tape : list bytes := [repeat_bytes x01 32; repeat_bytes x02 12; repeat_bytes x03 12].
Definition ex2_x : bytes := [x73; x65; x63; x72; x65; x74; x25; x25; x25; x22].
Definition exA_ks := Build_keyset None [] [exA_key; repeat_bytes x12 32] None.
Definition exB_ks := Build_keyset None [] exB_keys None.
Definition exB_ks_shared := Build_keyset None [] (exB_keys ++ [exA_key]) None.
Definition ex2_v : bytes := Eval vm_compute in
  match encrypt_with_handler Stub ENVELOPE_ID_ACRABLOCK exA_ks ex_ab_tape ex2_x with Ok v => v | _ => [] end.

Example C02_premises_hold :
  good_ab_tape ex_ab_tape /\ ex2_x <> [] /\ looks_protected ENVELOPE_ID_ACRABLOCK ex2_x = false /\
  encrypt_with_handler Stub ENVELOPE_ID_ACRABLOCK exA_ks ex_ab_tape ex2_x = Ok ex2_v /\
  ~ opens_ab_key_block Stub (ks_syms exB_ks) exA_key [] (repeat_bytes x03 12) (repeat_bytes x01 32) /\
  decrypt_with_handler Stub ENVELOPE_ID_ACRABLOCK exA_ks ex2_v = Ok ex2_x /\
  (exists e, decrypt_with_handler Stub ENVELOPE_ID_ACRABLOCK exB_ks ex2_v = Err e) /\
  on_column (column_cbs Stub exB_ks) ([x41] ++ ex2_v ++ [x42]) = Ok ([x41] ++ ex2_v ++ [x42], false) /\
  (* B holding A's key anywhere in its history does read the value: the disjunct is not idle *)
  decrypt_with_handler Stub ENVELOPE_ID_ACRABLOCK exB_ks_shared ex2_v = Ok ex2_x.
Proof.
  split; [exists (repeat_bytes x01 32), (repeat_bytes x02 12), (repeat_bytes x03 12), []; repeat split|].
  split; [discriminate|]. split; [vm_compute; reflexivity|]. split; [vm_compute; reflexivity|].
  split.
  { intros (k & m & Hin & H). cbn [ks_syms exB_ks exB_keys In] in Hin.
    destruct Hin as [<-|[<-|[<-|[]]]]; vm_compute in H; discriminate. }
  split; [vm_compute; reflexivity|]. split; [eexists; vm_compute; reflexivity|].
  split; vm_compute; reflexivity.
Qed.

Example C02_tls_table_nonempty :
  tls_rpcs <> [] /\ exists r, find_rpc (hb 0x144656372797074) tls_rpcs = Some r.   (* "Decrypt" *)
Proof. exact tls_rpc_set_nonempty. Qed.
