(** C09, alias shadowing: a column qualifier that is the ALIAS of one FROM entry denotes that entry even when it is
    spelled like the hidden (real) name of another, aliased entry of the same FROM list / JOIN tree
    (`FROM audit AS a JOIN customers AS audit ... WHERE audit.email = ..` searches customers.email).
    Companion of Properties/C09_resolution.v; model Model/SearchResolve.v, specification Model/SearchResolveSpec.v. *)
From Coq Require Import List Bool NArith Arith.
From Acra Require Import Lib.Bytes Lib.Outcome Model.SearchResolveSpec Proofs.SearchResolve Proofs.SearchAlias.
Import ListNotations.

(** every dialect, configuration, FROM list of base tables under arbitrary JOIN trees with distinct visible names,
    every entry `n AS a` of it and every column c: FindColumnInfo + GetColumnSetting of a.c = the setting of column c
    of table n (PostgreSQL under the premises of C09_resolution_column_setting_exact: a is not the hidden name of
    an aliased entry [known finding pg-alias-shadows-table-name], encrypted columns listed) *)
Theorem C09_alias_qualifier_resolves_to_aliased_table :
  forall d cfg from n a c,
  scope_ok from -> In (n, a) (bents_f from) -> a <> [] -> ref_ok d from a -> pg_listed d cfg ->
  col_setting_of d cfg from a c = setting_of cfg (Some (n, c)).
Proof. exact alias_setting_exact. Qed.
Print Assumptions C09_alias_qualifier_resolves_to_aliased_table.

(** MySQL: NO premise about the hidden names: whatever real names the other entries of the list have (in particular
    one equal to a, listed earlier or later), a.c is column c of the table that was given the alias a *)
Theorem C09_alias_mysql_hidden_names_irrelevant :
  forall cfg from n a c,
  scope_ok from -> In (n, a) (bents_f from) -> a <> [] ->
  col_setting_of RMY cfg from a c = setting_of cfg (Some (n, c)).
Proof. exact alias_setting_exact_mysql. Qed.
Print Assumptions C09_alias_mysql_hidden_names_irrelevant.

(** ... so the comparison a.c op value is rewritten iff column c of the ALIASED table n is searchable (and op is
    =, <>, <=>), with that column's setting *)
Theorem C09_alias_mysql_comparison_selected_iff_aliased_table_searchable :
  forall cfg srch from n a c op v,
  scope_ok from -> In (n, a) (bents_f from) -> a <> [] ->
  sel_cmp RMY cfg srch from op (ECol a c) (EVal v) =
  match setting_of cfg (Some (n, c)) with
  | Some sid => if is_srch srch sid && value_op RMY op then Some sid else None
  | None => None
  end.
Proof. exact alias_cmp_exact_mysql. Qed.
Print Assumptions C09_alias_mysql_comparison_selected_iff_aliased_table_searchable.

(** * the shape of the statements in question (non-vacuity: the premises hold although a hidden name equals the alias) *)
Definition ab (s : list nat) : bytes := map (fun n => n2b (N.of_nat n)) s.
Definition audit := ab [97;117;100;105;116]. Definition customers := ab [99;117;115;116;111;109;101;114;115].
Definition al_a := ab [97]. Definition al_c := ab [99].
Definition c_id := ab [105;100]. Definition c_email := ab [101;109;97;105;108].
Definition v_x := VLit (ab [120]).
(** customers.email searchable (setting 1), audit.email a plain column *)
Definition a_cfg : CR.rcfg := [((customers, [c_id; c_email]), [(c_email, 1%N)]); ((audit, [c_id; c_email]), [])].
Definition a_srch : list N := [1%N].
Definition on_ids (x y : bytes) : cond := CCmp OpEq (ECol x c_id) (ECol y c_id).

(** FROM audit AS a JOIN customers AS audit ON a.id = audit.id *)
Definition from_join_protected : flist := FCons (TJoin (TBase audit al_a) (TBase customers audit) (on_ids al_a audit)) FNil.
(** FROM audit AS a, customers AS audit *)
Definition from_list_protected : flist := FCons (TBase audit al_a) (FCons (TBase customers audit) FNil).
(** FROM customers AS c JOIN audit AS customers ON c.id = customers.id *)
Definition from_join_plain : flist := FCons (TJoin (TBase customers al_c) (TBase audit customers) (on_ids al_c customers)) FNil.
(** the shadowed table listed LATER: FROM customers AS audit, audit AS a *)
Definition from_list_later : flist := FCons (TBase customers audit) (FCons (TBase audit al_a) FNil).

Example C09_alias_premises_hold_with_shadowing :
  scope_ok from_join_protected /\ In (customers, audit) (bents_f from_join_protected) /\ audit <> [] /\
  (exists a', In (audit, a') (bents_f from_join_protected) /\ a' <> []) /\
  scope_ok from_list_protected /\ scope_ok from_join_plain /\ scope_ok from_list_later.
Proof.
  assert (S := scope_okb_ok).
  split; [apply S; vm_compute; reflexivity|].
  split; [cbn; right; left; reflexivity|].
  split; [discriminate|].
  split; [exists al_a; split; [cbn; left; reflexivity|discriminate]|].
  split; [apply S; vm_compute; reflexivity|].
  split; apply S; vm_compute; reflexivity.
Qed.

(** SELECT .. FROM audit AS a JOIN customers AS audit ON a.id = audit.id WHERE audit.email = 'x': rewritten
    (customers.email), also over the comma list and with the shadowed table listed later; a.email is not *)
Example C09_alias_shadow_protected_rewritten :
  sel_cmp RMY a_cfg a_srch from_join_protected OpEq (ECol audit c_email) (EVal v_x) = Some 1%N /\
  sel_cmp RMY a_cfg a_srch from_list_protected OpEq (ECol audit c_email) (EVal v_x) = Some 1%N /\
  sel_cmp RMY a_cfg a_srch from_list_later OpEq (ECol audit c_email) (EVal v_x) = Some 1%N /\
  sel_cmp RMY a_cfg a_srch from_join_protected OpEq (ECol al_a c_email) (EVal v_x) = None.
Proof. repeat split; vm_compute; reflexivity. Qed.

(** SELECT .. FROM customers AS c JOIN audit AS customers ON c.id = customers.id WHERE customers.email = 'x': NOT
    rewritten (audit.email is a plain column); c.email is *)
Example C09_alias_shadow_plain_untouched :
  sel_cmp RMY a_cfg a_srch from_join_plain OpEq (ECol customers c_email) (EVal v_x) = None /\
  sel_cmp RMY a_cfg a_srch from_join_plain OpEq (ECol al_c c_email) (EVal v_x) = Some 1%N.
Proof. repeat split; vm_compute; reflexivity. Qed.

(** the whole statement of the first example through on_query: only the WHERE comparison changes *)
Example C09_alias_shadow_statement :
  exists h r', rw_s RMY a_cfg a_srch h from_join_protected
      (Sel [mk_item audit c_id []] from_join_protected (CCmp OpEq (ECol audit c_email) (EVal v_x))) =
    Sel [mk_item audit c_id []] from_join_protected (CCmp OpEq (EConv (ESubstr (ECol audit c_email))) r').
Proof. exists (fun v => Some v). eexists. vm_compute. reflexivity. Qed.
