(** Properties C14 / C12, work package xtr: a TIGHTER TIE between code and model.
    Gen/Trans.v is produced on every run by `acra-vh transgo` (harness/xtr), a Go -> Gallina translator
    (go/parser + go/types) applied to the current source of 17 small attacker-facing functions of /repo.
    Each theorem below states that the TRANSLATED definition equals the hand-written checked model that the
    other C12 / C14 theorems are about - for all inputs - so those theorems hold for what the code says now;
    a change of the Go code changes Gen/Trans.v and these proofs are re-checked against it.
    [erase_err] forgets the error class (the envelope models collapse every error to E_GENERIC);
    [go_len s] (= [len s <= 2^47]) holds of every Go byte slice.  Domain c14trans replays the REAL Go
    functions on both columns (Model/RunTrans.v). *)
From Acra Require Import Lib.Bytes Lib.Outcome Lib.GoSlice Gen.Consts Gen.Trans Model.Envelope Model.EnvelopeChecked
  Model.RunTrans Proofs.TransEquiv.
From Acra Require Model.MysqlWire Model.PgWire Model.KeystoreV2.
Local Open Scope Z_scope.

(** * decryptor/mysql/base/utils.go *)
Theorem C14_trans_LengthEncodedInt : forall data : bytes,
  LengthEncodedInt data =
  res_map (fun '(num, isNull, n) => (num, isNull, Z.of_nat n)) (MysqlWire.lenenc_int data).
Proof. exact trans_LengthEncodedInt. Qed.
Print Assumptions C14_trans_LengthEncodedInt.

Theorem C14_trans_LengthEncodedString : forall data : bytes, go_len data ->
  LengthEncodedString data =
  res_map (fun '(v, n) => (opt_bytes v, Z.of_nat n)) (MysqlWire.lenenc_string data).
Proof. exact trans_LengthEncodedString. Qed.
Print Assumptions C14_trans_LengthEncodedString.

Theorem C14_trans_SkipLengthEncodedString : forall data : bytes, go_len data ->
  SkipLengthEncodedString data = res_map Z.of_nat (MysqlWire.skip_lenenc_string data).
Proof. exact trans_SkipLengthEncodedString. Qed.
Print Assumptions C14_trans_SkipLengthEncodedString.

Theorem C14_trans_PutLengthEncodedInt : forall n : N, (n < 2 ^ 64)%N ->
  PutLengthEncodedInt n = Ok (MysqlWire.put_lenenc_int n).
Proof. exact trans_PutLengthEncodedInt. Qed.
Print Assumptions C14_trans_PutLengthEncodedInt.

Theorem C14_trans_UintToBytes : forall n : N,
  Uint16ToBytes n = Ok (le_enc 2 n) /\ Uint32ToBytes n = Ok (le_enc 4 n) /\ Uint64ToBytes n = Ok (le_enc 8 n).
Proof. intros n. split; [apply trans_Uint16ToBytes| split; [apply trans_Uint32ToBytes| apply trans_Uint64ToBytes]]. Qed.
Print Assumptions C14_trans_UintToBytes.

(** * acrastruct/utils.go *)
Theorem C14_trans_GetMinAcraStructLength : GetMinAcraStructLength = Ok as_min_z.
Proof. exact trans_GetMinAcraStructLength. Qed.
Print Assumptions C14_trans_GetMinAcraStructLength.

Theorem C14_trans_GetDataLengthFromAcraStruct : forall data : bytes,
  GetDataLengthFromAcraStruct data = as_data_length_checked data.
Proof. exact trans_GetDataLengthFromAcraStruct. Qed.
Print Assumptions C14_trans_GetDataLengthFromAcraStruct.

(** [as_validate_checked] returns [Ok true] for a nil error and [Ok false] for every error *)
Theorem C14_trans_ValidateAcraStructLength : forall data : bytes,
  erase_err (ValidateAcraStructLength data) =
  erase_err (match as_validate_checked data with
             | Ok true => Ok tt | Ok false => Err E_GENERIC | Err e => Err e | Panic => Panic end).
Proof. exact trans_ValidateAcraStructLength. Qed.
Print Assumptions C14_trans_ValidateAcraStructLength.

Theorem C14_trans_ExtractAcraStruct : forall data : bytes,
  erase_err (ExtractAcraStruct data) = erase_err (as_extract_checked data).
Proof. exact trans_ExtractAcraStruct. Qed.
Print Assumptions C14_trans_ExtractAcraStruct.

(** * acrablock/acrablock.go *)
Theorem C14_trans_EncryptedDataEncryptionKeyLength : forall b : bytes,
  AcraBlock_EncryptedDataEncryptionKeyLength b = ab_key_len_checked b.
Proof. exact trans_AcraBlock_EncryptedDataEncryptionKeyLength. Qed.
Print Assumptions C14_trans_EncryptedDataEncryptionKeyLength.

Theorem C14_trans_getKeyEncryptionKeyID : forall b : bytes,
  erase_err (AcraBlock_getKeyEncryptionKeyID b) = erase_err (ab_block_key_id_checked b).
Proof. exact trans_AcraBlock_getKeyEncryptionKeyID. Qed.
Print Assumptions C14_trans_getKeyEncryptionKeyID.

Theorem C14_trans_ExtractAcraBlockFromData : forall data : bytes, go_len data ->
  erase_err (ExtractAcraBlockFromData data) = erase_err (ab_extract_checked data).
Proof. exact trans_ExtractAcraBlockFromData. Qed.
Print Assumptions C14_trans_ExtractAcraBlockFromData.

(** * crypto/registry_handler.go *)
Theorem C14_trans_getSerializedContainerLength : forall data : bytes, go_len data ->
  erase_err (getSerializedContainerLength data) = erase_err (sc_internal_length_checked data).
Proof. exact trans_getSerializedContainerLength. Qed.
Print Assumptions C14_trans_getSerializedContainerLength.

(** * decryptor/postgresql/utils.go: the hand model takes the column index as a [nat] (the callers pass loop
    indices); the Go function takes an [int] and PANICS on a negative index into two or more formats *)
Theorem C14_trans_GetParameterFormatByIndex : forall (i : Z) (fmts : list N), 0 <= i ->
  GetParameterFormatByIndex i fmts = PgWire.param_format (Z.to_nat i) fmts.
Proof. exact trans_GetParameterFormatByIndex. Qed.
Print Assumptions C14_trans_GetParameterFormatByIndex.

Theorem C14_trans_GetParameterFormatByIndex_negative_refuted :
  exists (i : Z) (fmts : list N), GetParameterFormatByIndex i fmts = Panic.
Proof. exists (-1), [0%N; 1%N]. vm_compute. reflexivity. Qed.
Print Assumptions C14_trans_GetParameterFormatByIndex_negative_refuted.

(** * keystore/v2/keystore/api/key.go *)
Theorem C14_trans_KeyStateTransitionValid : forall a b : N,
  KeyStateTransitionValid (Z.of_N a) (Z.of_N b) = Ok (KeystoreV2.transition_valid a b).
Proof. exact trans_KeyStateTransitionValid. Qed.
Print Assumptions C14_trans_KeyStateTransitionValid.

(** * what transfers: C14 (never panics) and C12 (round trip) for the definitions regenerated from the code *)
Theorem C14_trans_decoders_total : forall data : bytes, go_len data ->
  LengthEncodedInt data <> Panic /\ LengthEncodedString data <> Panic /\ SkipLengthEncodedString data <> Panic /\
  ValidateAcraStructLength data <> Panic /\ ExtractAcraStruct data <> Panic /\
  ExtractAcraBlockFromData data <> Panic /\ AcraBlock_getKeyEncryptionKeyID data <> Panic.
Proof.
  intros data HL.
  repeat split; [apply trans_LengthEncodedInt_total| apply trans_LengthEncodedString_total; exact HL|
    apply trans_SkipLengthEncodedString_total; exact HL| apply trans_ValidateAcraStructLength_total|
    apply trans_ExtractAcraStruct_total| apply trans_ExtractAcraBlockFromData_total; exact HL|
    apply trans_getKeyEncryptionKeyID_total].
Qed.
Print Assumptions C14_trans_decoders_total.

Theorem C12_trans_lenenc_roundtrip : forall (n : N) (rest : bytes), (n < 2 ^ 64)%N ->
  match PutLengthEncodedInt n with
  | Ok enc => LengthEncodedInt (enc ++ rest) = Ok (n, false, len enc)
  | _ => False
  end.
Proof. exact trans_lenenc_roundtrip. Qed.
Print Assumptions C12_trans_lenenc_roundtrip.

(** * non-vacuity: the premises are satisfiable and the functions reach their interesting branches *)
Example ex_go_len : go_len (hb 0x1fc0100aabb). Proof. vm_compute. discriminate. Qed.
Example ex_lei_fc : LengthEncodedInt (hb 0x1fc0102aabb) = Ok (513%N, false, 3). Proof. vm_compute. reflexivity. Qed.
Example ex_lei_short : LengthEncodedInt (hb 0x1fe01020304050607) = Err 20%N. Proof. vm_compute. reflexivity. Qed.
Example ex_les : LengthEncodedString (hb 0x102aabbcc) = Ok (hb 0x1aabb, 3). Proof. vm_compute. reflexivity. Qed.
Example ex_les_eof : LengthEncodedString (hb 0x1feffffffffffffffff00) = Err 21%N. Proof. vm_compute. reflexivity. Qed.
Example ex_plei : PutLengthEncodedInt 65536 = Ok (hb 0x1fd000001). Proof. vm_compute. reflexivity. Qed.
Example ex_ab_short : ExtractAcraBlockFromData (hb 0x122222222) = Err 44%N. Proof. vm_compute. reflexivity. Qed.
Example ex_ab_ok :
  ExtractAcraBlockFromData (hb 0x1222222220e00000000000000000000000000ff) =
  Ok (18, hb 0x1222222220e00000000000000000000000000).
Proof. vm_compute. reflexivity. Qed.
Example ex_pgfmt : GetParameterFormatByIndex 1 [0%N; 1%N] = Ok 1%N /\ GetParameterFormatByIndex 2 [0%N; 1%N] = Err 32%N.
Proof. split; vm_compute; reflexivity. Qed.
Example ex_ks : KeyStateTransitionValid 1 2 = Ok true /\ KeyStateTransitionValid 6 1 = Ok false.
Proof. split; vm_compute; reflexivity. Qed.
Example ex_datalen_unguarded : GetDataLengthFromAcraStruct [] = Panic. Proof. vm_compute. reflexivity. Qed.
