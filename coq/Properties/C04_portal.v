(** C04, extended query protocol with portals — "a later SELECT of that column by the owning client returns the
    original value ... result columns the configuration does not cover come back unchanged", for ALL SEQUENCES
    OF STATEMENTS WITHIN ONE SESSION: handleQueryDataPacket processes a DataRow with the column settings and
    result formats of the HEAD of pendingQueryPackets, so the property needs every DataRow to meet the queue
    entry of the Execute / Query that produced it.  Model: Model/ProxyPortal.v (after fix_pg_pending_batch);
    statements only, closed by [exact].

    The system of the theorems: the proxy (client side and database side as separate parties) and a back end
    that answers the forwarded messages in order like PostgreSQL: per Execute / Query any number of rows and
    then ONE of CommandComplete / EmptyQueryResponse / PortalSuspended (row limit) / ErrorResponse; after an
    ErrorResponse in the extended protocol everything up to Sync is discarded (also further Executes);
    Parse/Bind/Describe/Close may succeed or fail; ReadyForQuery after Sync and after a simple Query; notices
    at any time.  [evs] is an arbitrary schedule: any client behaviour (any mix of Parse/Bind/Describe/Close,
    Execute of any portal any number of times, Sync anywhere or missing, pipelining over several Syncs, simple
    Queries - a simple Query only where the protocol allows one, i.e. not inside an unsynced extended batch),
    any choice of the back end, any delay of the two FIFOs. *)
From Coq Require Import List Bool Arith NArith.
Import ListNotations.
From Acra Require Import Model.ProxyPortal Proofs.ProxyPortal.

(** every data row is processed with the settings of ITS OWN Execute / Query: [fst o] is the payload of the
    Execute/Query the back end was answering when it sent the row, [snd o] what the proxy used for the row *)
Theorem C04_portal_rows_paired_with_own_statement :
  forall (X : Type) (evs : list (sys_event X)),
  Forall (fun o : obs X => snd o = Some (fst o)) (snd (sys_run db_step sys_init evs)).
Proof. exact rows_aligned. Qed.
Print Assumptions C04_portal_rows_paired_with_own_statement.

(** nothing in flight => nothing queued: no stale entry survives a suspended portal, a closed or abandoned
    portal, an error in the middle of a portal or of a pipeline, messages skipped up to Sync *)
Theorem C04_portal_quiet_queue_empty :
  forall (X : Type) (evs : list (sys_event X)),
  let y := fst (sys_run db_step sys_init evs) in
  cwire y = [] -> dwire y = [] -> mode y = BIdle -> pending (px y) = [].
Proof. exact quiet_queue_empty. Qed.
Print Assumptions C04_portal_quiet_queue_empty.

(** the settings of a queued Execute are those of its portal at the time of the Execute: no later client
    packet (Parse of the same statement name, Bind of the same portal name - the unnamed ones in a pipeline)
    changes or removes a queued entry *)
Theorem C04_portal_queued_settings_immutable :
  forall (st : rstate) (e : pevent), (forall d, e <> PDb d) ->
  exists suffix, pending (rs_q (fst (rstep st e))) = pending (rs_q st) ++ suffix.
Proof. exact rstep_queue_prefix. Qed.
Print Assumptions C04_portal_queued_settings_immutable.

(** ** non-vacuity and refutations of the changed machines *)

(* Parse/Bind/Execute(portal 1, row limit) Parse/Bind/Execute(portal 2) Sync sent back to back (one batch); the
   first Execute is answered with two rows + PortalSuspended, the second with one row + CommandComplete *)
Definition ex_suspended : list (sys_event nat) :=
  [EClient KOther; EClient KOther; EClient (KExec 1);
   EClient KOther; EClient KOther; EClient (KExec 2); EClient KSync;
   EBackTake true; EBackTake true; EBackTake true; EBackRow; EBackRow; EBackTerm false true;
   EBackTake true; EBackTake true; EBackTake true; EBackRow; EBackTerm false false; EBackTake true;
   EProxyDb; EProxyDb; EProxyDb; EProxyDb; EProxyDb; EProxyDb; EProxyDb; EProxyDb; EProxyDb; EProxyDb].

Example C04_portal_example_rows :
  snd (sys_run db_step sys_init ex_suspended) = [(1, Some 1); (1, Some 1); (2, Some 2)].
Proof. vm_compute. reflexivity. Qed.

Example C04_portal_example_quiet :
  let y := fst (sys_run db_step sys_init ex_suspended) in
  cwire y = [] /\ dwire y = [] /\ mode y = BIdle /\ pending (px y) = [].
Proof. vm_compute. auto. Qed.

(** the seeded change m42 (PortalSuspended no longer retires the head of the queue): the row of the second
    statement of the batch is processed with the settings of the first (with fix_pg_pending_batch the stale
    entry is dropped at the ReadyForQuery of its batch, so only statements of the SAME batch are affected) *)
Theorem C04_portal_suspended_not_retired_refuted :
  exists (evs : list (sys_event nat)) (producer used : nat),
    In (producer, Some used) (snd (sys_run db_step_m42 sys_init evs)) /\ producer <> used.
Proof. exists ex_suspended, 2, 1. split; [vm_compute; auto|discriminate]. Qed.
Print Assumptions C04_portal_suspended_not_retired_refuted.

(* Execute 1, Execute 2, Sync, Execute 3, Sync in a pipeline; Execute 1 fails, the back end discards Execute 2 *)
Definition ex_error_in_pipeline : list (sys_event nat) :=
  [EClient (KExec 1); EClient (KExec 2); EClient KSync; EClient (KExec 3); EClient KSync;
   EBackTake true; EBackTerm true false; EBackTake true; EBackTake true; EBackTake true; EBackRow;
   EBackTerm false false; EBackTake true;
   EProxyDb; EProxyDb; EProxyDb; EProxyDb; EProxyDb].

Example C04_portal_example_error_in_pipeline :
  snd (sys_run db_step sys_init ex_error_in_pipeline) = [(3, Some 3)]
  /\ pending (px (fst (sys_run db_step sys_init ex_error_in_pipeline))) = [].
Proof. vm_compute. auto. Qed.

(** the tree BEFORE fix_pg_pending_batch (ErrorResponse retires the head, ReadyForQuery retires nothing): the
    entry of the discarded Execute stays, the row of the next batch is processed with it *)
Theorem C04_portal_before_fix_refuted :
  exists (evs : list (sys_event nat)) (producer used : nat),
    In (producer, Some used) (snd (sys_run db_step_unfixed sys_init evs)) /\ producer <> used.
Proof. exists ex_error_in_pipeline, 3, 2. split; [vm_compute; auto|discriminate]. Qed.
Print Assumptions C04_portal_before_fix_refuted.

(* the registry in front of the queue: the unnamed statement and portal re-used in a pipeline *)
Example C04_portal_example_registry :
  rrun rinit [PParse 0 7; PBind 0 0 1; PExec 0; PParse 0 8; PBind 0 0 2; PExec 0; PSync;
              PHead; PDb DRow; PDb (DTerm true); PHead; PDb DRow; PDb (DTerm false); PDb DReady; PQuiet]
  = [OHead (Some (Settings true 7 1)); OHead (Some (Settings true 8 2)); OQueue []].
Proof. vm_compute. reflexivity. Qed.
