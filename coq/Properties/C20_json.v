(** C20 (extension) — the JSON audit log at the level of the bytes that are authenticated.
    Only statements, closed by [exact], and their assumptions.

    Model (Model/AuditLogJson.v, Model/AuditLogJsonNum.v): JSONFormatterHook.PostFormat = decode the
    formatted entry ([decode_top]: numbers as the decoder represents them — float64 bits [NumF] or, with
    UseNumber, the literal [NumL]) -> convertMapToBytes ([conv_b]: sorted names between `delimiter`
    tokens, values as json.Marshal prints them: [render], shortest float digits [render_float], string
    escaping [quote]) -> HMAC ratchet -> members integrity / chain added -> json.Marshal ([json_line]);
    JSONLogParser.ParseEntry = decode the line -> take integrity / chain out -> convertMapToBytes.
    The decoder configuration of each side is READ from the running code
    ([AL_JSON_WRITER_USENUMBER], [AL_JSON_VERIFIER_USENUMBER] in Gen/AuditLogConsts.v).
    Outside the model: the tokenizer of encoding/json (a JSON text is its syntax tree [wv]; the line the
    verifier reads is [to_wire] of the map the writer marshals — replayed byte for byte, op JWrite).
    SHA-256 / HMAC are the executable functions; nothing is assumed about them. *)
From Acra Require Import Lib.Bytes Lib.Outcome Lib.Sha256 Gen.AuditLogConsts Model.AuditLog
  Model.AuditLogJsonNum Model.AuditLogJson
  Model.AuditLogJsonCanon Gen.AuditLogCanon
  Proofs.AuditLogCrypto Proofs.AuditLogParse Proofs.AuditLog Proofs.AuditLogJsonMap Proofs.AuditLogJson
  Proofs.AuditLogJsonWitness Proofs.AuditLogJsonInj Proofs.AuditLogJsonInjWitness.
From Acra Require Model.RunAuditLogJson.

(** every history of formatted entries (any JSON values: numbers of any size and layout, nested objects
    with repeated names, arrays, any strings) and key resets verifies, under the decidable side condition
    [wf_jb_evs], which asks
    - of the CONTENT only what is true of every text Go's tokenizer delivers and every float64 strconv
      prints ([w_ok]: strings are valid UTF-8; each number literal, decoded, printed and decoded again, is
      the same float64 — checked number by number on every replayed history, never assumed);
    - of the FIELD MAP exactly what the code imposes ([entry_ok]: no member `integrity`; no member `chain`
      on the first entry of a chain; `chain` is not the string "new" — the boundary recorded as known
      finding json-reserved-field);
    - of resets what AuditLogHandler guarantees (verifier's key, after an end-marked entry).
    The proof needs [json_same_decoder]: writer side and verifier side decode numbers alike. *)
Theorem C20_honest_json_verifies :
  forall (K : bytes) (evs : list jbev),
  wf_jb_evs AL_JSON_WRITER_USENUMBER K true None evs = true ->
  json_verifier K (wire_lines (json_writer (calc_new K) evs)) = VAccept.
Proof. exact honest_json_verifies. Qed.
Print Assumptions C20_honest_json_verifies.

(** the same for ANY decoder configuration used on both sides (float64 or json.Number) *)
Theorem C20_honest_json_verifies_same_decoder :
  forall (un : bool) (K : bytes) (evs : list jbev),
  wf_jb_evs un K true None evs = true ->
  verify_json_b un K (wire_lines (write_json_b un (calc_new K) evs)) = VAccept.
Proof. exact honest_json_verifies_same. Qed.
Print Assumptions C20_honest_json_verifies_same_decoder.

(** the obligation the running code has to meet (breaks when one side changes its decoder) … *)
Theorem C20_json_same_decoder : AL_JSON_WRITER_USENUMBER = AL_JSON_VERIFIER_USENUMBER.
Proof. exact json_same_decoder. Qed.
Print Assumptions C20_json_same_decoder.

(** … and it is needed: json.Number on the writer side with float64 on the verifier side rejects an honest
    log with an integer above 2^53 (both symmetric configurations accept it) *)
Theorem C20_json_decoder_asymmetry_refuted :
  wf_jb_evs true jK true None ev_asym = true /\ wf_jb_evs false jK true None ev_asym = true /\
  verify_json_b true jK (wire_lines (write_json_b true (calc_new jK) ev_asym)) = VAccept /\
  verify_json_b false jK (wire_lines (write_json_b false (calc_new jK) ev_asym)) = VAccept /\
  verify_json_b false jK (wire_lines (write_json_b true (calc_new jK) ev_asym)) = VFail 0 C_MISMATCH /\
  verify_json_b false jK (wire_lines (write_json_b true (calc_new jK) ev_asym_small)) = VAccept.
Proof. exact json_decoder_asymmetry_refuted. Qed.
Print Assumptions C20_json_decoder_asymmetry_refuted.

(** the two facts the honest theorem rests on: what a decoder delivers is well formed (sorted maps, clean
    strings, numbers that survive printing) and is read back unchanged from its printed form *)
Theorem C20_json_decoded_is_wellformed :
  forall (un : bool) (w : wv) (v : jv), w_ok un w = true -> decode un w = Some v -> WFV un v.
Proof. exact decode_wf. Qed.
Print Assumptions C20_json_decoded_is_wellformed.

Theorem C20_json_print_then_decode :
  forall (un : bool) (v : jv), WFV un v -> decode un (to_wire v) = Some v.
Proof. exact decode_to_wire. Qed.
Print Assumptions C20_json_print_then_decode.

(** one honest entry: the verifier's parser extracts exactly the bytes the writer authenticated *)
Theorem C20_json_line_roundtrip :
  forall (un : bool) (c : calc) (w : wv) (m : list (bytes * jv)),
  decode_top un w = Some m -> w_ok un w = true -> entry_ok (first_check c) m = true ->
  let body := conv_b m in
  exists m2, json_post_b un c w = Ok (m2, snd (calc_step c body)) /\
    wline_pres un (WLine (to_wire (JObj m2)))
    = POk (mk_parsed body (fst (fst (calc_step c body))) (first_check c) (json_end_marked m)).
Proof. exact json_honest_line. Qed.
Print Assumptions C20_json_line_roundtrip.

(** tampering (corollary of C20_tamper_detected_by_next_parsed): after any honest prefix that ends inside a
    chain, replace the next entry x by ANY lines M (none = deletion, an edited JSON line with any members
    and any integrity value, copies, non-JSON text …) and keep x's honest successor y: verification fails
    no later than at y, or the verifier reaches y in exactly the writer's state, or SHA-256 collides *)
Theorem C20_json_tamper_detected_by_next :
  forall (K : bytes) (evsP : list jbev) (xw yw : wv) (my : list (bytes * jv)) (M R : list wline),
  wf_jb_evs AL_JSON_WRITER_USENUMBER K true None evsP = true ->
  let un := AL_JSON_WRITER_USENUMBER in
  let c := jstate un (calc_new K) evsP in
  first_check c = false ->
  forall mx c1 my2 c2,
  json_post_b un c xw = Ok (mx, c1) ->
  decode_top un yw = Some my -> w_ok un yw = true -> entry_ok false my = true ->
  json_post_b un c1 yw = Ok (my2, c2) ->
  let outsP := json_writer (calc_new K) evsP in
  detected_by (json_verifier K (wire_lines outsP ++ M ++ WLine (to_wire (JObj my2)) :: R)) (length outsP + length M)
  \/ (exists st', vrun K (mk_vstate c (jlast un None evsP)) (map (wline_pres AL_JSON_VERIFIER_USENUMBER) M) = Some st'
                  /\ v_calc st' = c1)
  \/ sha_collision.
Proof. exact json_tamper_detected_by_next. Qed.
Print Assumptions C20_json_tamper_detected_by_next.

(** an edited JSON line in the place of x survives its successor only if its authenticated bytes — the
    canonical form of ITS field map — are those of x, or SHA-256 collides … *)
Theorem C20_json_edited_entry_detected :
  forall (un : bool) K st i (w' : wv) (px py : parsed) (R : list pres) c xb yb,
  v_calc st = c -> length (ck c) = 32 ->
  wline_pres un (WLine w') = POk px -> p_new px = false ->
  p_new py = false -> p_raw py = yb -> p_integ py = fst (fst (calc_step (snd (calc_step c xb)) yb)) ->
  detected_by (verify_pres K st i (wline_pres un (WLine w') :: POk py :: R)) (S i)
  \/ (exists m', decode_top un w' = Some m' /\ conv_b (adel AL_INTEGRITY_KEY m') = xb)
  \/ sha_collision.
Proof. exact json_edited_entry_detected. Qed.
Print Assumptions C20_json_edited_entry_detected.

(** … and that canonical form is NOT injective (known finding json-delimiter-ambiguity, recorded, not fixed):
    an honest log, and a line with ANOTHER field map (three members folded into one whose name spells the
    `delimiter` tokens) that verifies in its place *)
Theorem C20_json_delimiter_ambiguity_refuted :
  exists (K : bytes) (evs : list jbev) (w' : wv) (m m' : list (bytes * jv)),
    wf_jb_evs AL_JSON_WRITER_USENUMBER K true None evs = true /\
    let outs := json_writer (calc_new K) evs in
    json_verifier K (wire_lines outs) = VAccept /\
    decode_top AL_JSON_VERIFIER_USENUMBER (to_wire (JObj (nth 0 outs []))) = Some m /\
    decode_top AL_JSON_VERIFIER_USENUMBER w' = Some m' /\
    adel AL_CHAIN_KEY (adel AL_INTEGRITY_KEY m) <> adel AL_CHAIN_KEY (adel AL_INTEGRITY_KEY m') /\
    conv_b (adel AL_CHAIN_KEY (adel AL_INTEGRITY_KEY m)) = conv_b (adel AL_CHAIN_KEY (adel AL_INTEGRITY_KEY m')) /\
    json_verifier K (WLine w' :: skipn 1 (wire_lines outs)) = VAccept.
Proof. exact json_delimiter_ambiguity_refuted. Qed.
Print Assumptions C20_json_delimiter_ambiguity_refuted.

(** ... and OUTSIDE that finding it is injective, types included.  For all top-level maps the decoder of the
    code delivers (float64 numbers; [w_ok]: what is true of every text Go's tokenizer hands over) whose member
    NAMES do not contain the `delimiter` token — the exact side condition of json-delimiter-ambiguity; values may
    contain it, at any depth —: equal canonical bytes, equal maps.  "123" and 123, "false" and false, "null" and
    null, an object and the string of its rendering, one member and two all get different authenticated bytes:
    json.Marshal is a prefix code whose first byte tells the type, strings end at the unescaped quote
    (proved from the generated escape table), numbers are read back by the decoder, and a name without the
    token ends at the first token because the token has no border ([border_free], computed). *)
Theorem C20_json_canonical_injective_on_typed_values :
  forall (w1 w2 : wv) (m1 m2 : list (bytes * jv)),
  w_ok false w1 = true -> w_ok false w2 = true ->
  decode_top false w1 = Some m1 -> decode_top false w2 = Some m2 ->
  names_free m1 = true -> names_free m2 = true ->
  conv_b m1 = conv_b m2 -> m1 = m2.
Proof. exact json_canonical_injective_float64. Qed.
Print Assumptions C20_json_canonical_injective_on_typed_values.

(** the same for either decoder: with json.Number the literals have to be number-shaped ([nsh_m]: what the
    tokenizer guarantees; implied by [w_ok] for float64) *)
Theorem C20_json_canonical_injective_any_decoder :
  forall (un : bool) (w1 w2 : wv) (m1 m2 : list (bytes * jv)),
  w_ok un w1 = true -> w_ok un w2 = true -> decode_top un w1 = Some m1 -> decode_top un w2 = Some m2 ->
  nsh_m m1 = true -> nsh_m m2 = true -> names_free m1 = true -> names_free m2 = true ->
  conv_b m1 = conv_b m2 -> m1 = m2.
Proof. exact json_canonical_injective. Qed.
Print Assumptions C20_json_canonical_injective_any_decoder.

(** hence, for the chain: an edited line w' in the place of an honest entry x (field map mx, names without the
    token) is reported no later than at x's successor, or it decodes to x's OWN field map — nothing a reader
    of the log sees was changed —, or one of ITS names spells the token (the recorded finding), or SHA-256
    collides *)
Theorem C20_json_edited_entry_detected_or_same_map :
  forall K st i (xw w' : wv) (mx : list (bytes * jv)) (px py : parsed) (R : list pres) c yb,
  v_calc st = c -> length (ck c) = 32 ->
  w_ok false xw = true -> decode_top false xw = Some mx -> names_free mx = true ->
  w_ok false w' = true -> wline_pres false (WLine w') = POk px -> p_new px = false ->
  p_new py = false -> p_raw py = yb -> p_integ py = fst (fst (calc_step (snd (calc_step c (conv_b mx))) yb)) ->
  detected_by (verify_pres K st i (wline_pres false (WLine w') :: POk py :: R)) (S i)
  \/ (exists m', decode_top false w' = Some m' /\
        (adel AL_INTEGRITY_KEY m' = mx \/ names_free (adel AL_INTEGRITY_KEY m') = false))
  \/ sha_collision.
Proof. exact json_edited_entry_detected_or_same_map. Qed.
Print Assumptions C20_json_edited_entry_detected_or_same_map.

(** the obligation the running code has to meet: the layout of the authenticated bytes, PROBED on every run
    (Gen/AuditLogCanon.v: JSONLogParser.ParseEntry on a marker entry), is the modelled one — the three
    separators are the delimiter token and top-level STRING values are marshalled like every other value ... *)
Theorem C20_json_canonical_layout_as_modelled :
  AL_JSON_CANON_PRE = AL_JSON_DELIM /\ AL_JSON_CANON_MID = AL_JSON_DELIM /\ AL_JSON_CANON_POST = AL_JSON_DELIM /\
  AL_JSON_CANON_STRING_QUOTED = true.
Proof. exact json_canon_layout_spec. Qed.
Print Assumptions C20_json_canonical_layout_as_modelled.

(** ... and it is needed: with top-level strings authenticated as their RAW bytes (a "fast path" in getBytes,
    seeded change m60) the statement of C20_json_canonical_injective_on_typed_values is false.  Three pairs of
    well-formed maps with token-free names, different, with the same canonical bytes under [conv_raw]:
    {"granted":"false","unixTime":"1790176222.319"} / {"granted":false,"unixTime":1790176222.319} (retyping),
    {"msg":"transfer approved<D><D>note<D>rolled back"} / {"msg":"transfer approved","note":"rolled back"}
    (a member split off), {"v":"{\"a\":1}"} / {"v":{"a":1}} (an object flattened); [conv_b] separates each.
    By C20_json_edited_entry_detected such a retyped line verifies in the place of the original. *)
Theorem C20_json_raw_string_canonical_refuted :
  (WFM false m_strings /\ WFM false m_typed /\ names_free m_strings = true /\ names_free m_typed = true /\
   m_strings <> m_typed /\ conv_raw m_strings = conv_raw m_typed /\ conv_b m_strings <> conv_b m_typed) /\
  (WFM false m_one /\ WFM false m_two /\ names_free m_one = true /\ names_free m_two = true /\
   m_one <> m_two /\ conv_raw m_one = conv_raw m_two /\ conv_b m_one <> conv_b m_two) /\
  (WFM false m_text /\ WFM false m_obj /\ names_free m_text = true /\ names_free m_obj = true /\
   m_text <> m_obj /\ conv_raw m_text = conv_raw m_obj /\ conv_b m_text <> conv_b m_obj).
Proof. exact conv_raw_not_injective. Qed.
Print Assumptions C20_json_raw_string_canonical_refuted.

(** ... end to end: hook, writer, parser and verifier of the model taken over the raw-string form
    ([write_json_with] / [verify_json_with] with [conv_raw]; over [conv_b] they ARE the modelled path, last
    statement).  An honest log; its first line with "granted":"false" -> false and
    "unixTime":"1790176222.319" -> 1790176222.319, the integrity value kept: a CHANGED protected entry that passes
    verification with the correct key.  The same edit of the same history over the modelled form is reported at
    the edited line. *)
Theorem C20_json_raw_string_retype_refuted :
  verify_json_with conv_raw false jK (wire_lines out_raw) = VAccept /\
  verify_json_with conv_raw false jK (WLine line_raw_retyped :: skipn 1 (wire_lines out_raw)) = VAccept /\
  decode_top false line_raw_retyped <> decode_top false (to_wire (JObj (nth 0 out_raw []))) /\
  w_ok false line_raw_retyped = true /\
  verify_json_b false jK (wire_lines out_mod) = VAccept /\
  verify_json_b false jK (WLine line_mod_retyped :: skipn 1 (wire_lines out_mod)) = VFail 0 C_MISMATCH.
Proof. exact json_raw_string_retype_accepted. Qed.
Print Assumptions C20_json_raw_string_retype_refuted.

Theorem C20_json_path_with_modelled_form :
  (forall un c w, json_post_with conv_b un c w = json_post_b un c w) /\
  (forall un evs c, write_json_with conv_b un c evs = write_json_b un c evs) /\
  (forall un K ls, verify_json_with conv_b un K ls = verify_json_b un K ls).
Proof. exact (conj json_post_with_conv_b (conj write_json_with_conv_b verify_json_with_conv_b)). Qed.
Print Assumptions C20_json_path_with_modelled_form.

(** non-vacuity of the injectivity theorem: two different texts (member order, 1.0 / 1, 1e3 / 1000, a repeated
    name, a nested member NAMED delimiter) that meet every premise *)
Example C20_json_nonvacuous_injective :
  w_inj_1 <> w_inj_2 /\ w_ok false w_inj_1 = true /\ w_ok false w_inj_2 = true /\
  decode_top false w_inj_1 = Some m_inj_1 /\ decode_top false w_inj_2 = Some m_inj_2 /\
  names_free m_inj_1 = true /\ names_free m_inj_2 = true /\ conv_b m_inj_1 = conv_b m_inj_2 /\ List.length m_inj_1 = 3.
Proof. exact json_canonical_injective_example. Qed.

(** known finding json-reserved-field at byte level (the boundary of [entry_ok]) *)
Theorem C20_json_reserved_field_bytes_refuted :
  json_verifier jK (wire_lines (json_writer (calc_new jK) ev_res_integrity)) = VFail 0 C_MISMATCH /\
  json_verifier jK (wire_lines (json_writer (calc_new jK) ev_res_chain_first)) = VFail 0 C_MISMATCH /\
  json_verifier jK (wire_lines (json_writer (calc_new jK) ev_res_chain_new)) = VFail 1 C_MISSING_END /\
  wf_jb_evs AL_JSON_WRITER_USENUMBER jK true None ev_res_integrity = false /\
  wf_jb_evs AL_JSON_WRITER_USENUMBER jK true None ev_res_chain_first = false /\
  wf_jb_evs AL_JSON_WRITER_USENUMBER jK true None ev_res_chain_new = false.
Proof. exact json_reserved_field_b_refuted. Qed.
Print Assumptions C20_json_reserved_field_bytes_refuted.

(** non-vacuity: Proofs/AuditLogJsonWitness.v — [honest_json_b_example] (a history with integers above 2^53
    and 2^63, exponent forms, nested values with a repeated name and an inner member `integrity`, unicode,
    a user member `chain` on a later entry, a reset: [wf_jb_evs] holds, the log verifies, and the
    authenticated bytes of an entry are shown), [json_tamper_premises_example], [json_number_examples]. *)
Example C20_json_nonvacuous_honest :
  wf_jb_evs AL_JSON_WRITER_USENUMBER jK true None ev_json_b = true /\
  length out_json_b = 5 /\
  json_verifier jK (wire_lines out_json_b) = VAccept /\
  (exists p, wline_pres AL_JSON_VERIFIER_USENUMBER (nth 1 (wire_lines out_json_b) WEmpty) = POk p /\
     p_raw p = raw_1_expected).
Proof. exact honest_json_b_example. Qed.

Example C20_json_nonvacuous_tamper :
  let un := AL_JSON_WRITER_USENUMBER in
  let c := jstate un (calc_new jK) jb_prefix in
  wf_jb_evs un jK true None jb_prefix = true /\ first_check c = false /\
  (exists mx c1 my my2 c2, json_post_b un c jb_x = Ok (mx, c1) /\ decode_top un jb_y = Some my /\
     w_ok un jb_y = true /\ entry_ok false my = true /\ json_post_b un c1 jb_y = Ok (my2, c2) /\
     json_verifier jK (wire_lines (firstn 1 out_json_b) ++ [WLine jb_x_edited] ++ WLine (to_wire (JObj my2)) :: [])
     = VFail 1 C_MISMATCH /\
     json_verifier jK (wire_lines (firstn 1 out_json_b) ++ [] ++ WLine (to_wire (JObj my2)) :: []) = VFail 1 C_MISMATCH).
Proof. exact json_tamper_premises_example. Qed.
