(** C20 (extension) — the JSON audit log at the level of the bytes that are authenticated.
    Only statements, closed by [exact], and their assumptions.

    Model (Model/AuditLogJson.v, Model/AuditLogJsonNum.v): JSONFormatterHook.PostFormat = decode the
    formatted entry ([decode_top]: numbers as the decoder represents them — float64 bits [NumF] or, with
    UseNumber, the literal [NumL]) -> convertMapToBytes ([conv_b]: sorted names between `delimiter`
    tokens, values as json.Marshal prints them: [render], shortest float digits [render_float], string
    escaping [quote]) -> HMAC ratchet -> members integrity / chain added -> json.Marshal ([json_line]);
    JSONLogParser.ParseEntry = decode the line -> take integrity / chain out -> convertMapToBytes.
    The decoder configuration of each side is READ from the running code
    ([AL_JSON_WRITER_USENUMBER], [AL_JSON_VERIFIER_USENUMBER] in Gen/AuditLogConsts.v).
    Outside the model: the tokenizer of encoding/json (a JSON text is its syntax tree [wv]; the line the
    verifier reads is [to_wire] of the map the writer marshals — replayed byte for byte, op JWrite).
    SHA-256 / HMAC are the executable functions; nothing is assumed about them. *)
From Acra Require Import Lib.Bytes Lib.Outcome Lib.Sha256 Gen.AuditLogConsts Model.AuditLog
  Model.AuditLogJsonNum Model.AuditLogJson
  Proofs.AuditLogCrypto Proofs.AuditLogParse Proofs.AuditLog Proofs.AuditLogJsonMap Proofs.AuditLogJson
  Proofs.AuditLogJsonWitness.
From Acra Require Model.RunAuditLogJson.

(** every history of formatted entries (any JSON values: numbers of any size and layout, nested objects
    with repeated names, arrays, any strings) and key resets verifies, under the decidable side condition
    [wf_jb_evs], which asks
    - of the CONTENT only what is true of every text Go's tokenizer delivers and every float64 strconv
      prints ([w_ok]: strings are valid UTF-8; each number literal, decoded, printed and decoded again, is
      the same float64 — checked number by number on every replayed history, never assumed);
    - of the FIELD MAP exactly what the code imposes ([entry_ok]: no member `integrity`; no member `chain`
      on the first entry of a chain; `chain` is not the string "new" — the boundary recorded as known
      finding json-reserved-field);
    - of resets what AuditLogHandler guarantees (verifier's key, after an end-marked entry).
    The proof needs [json_same_decoder]: writer side and verifier side decode numbers alike. *)
Theorem C20_honest_json_verifies :
  forall (K : bytes) (evs : list jbev),
  wf_jb_evs AL_JSON_WRITER_USENUMBER K true None evs = true ->
  json_verifier K (wire_lines (json_writer (calc_new K) evs)) = VAccept.
Proof. exact honest_json_verifies. Qed.
Print Assumptions C20_honest_json_verifies.

(** the same for ANY decoder configuration used on both sides (float64 or json.Number) *)
Theorem C20_honest_json_verifies_same_decoder :
  forall (un : bool) (K : bytes) (evs : list jbev),
  wf_jb_evs un K true None evs = true ->
  verify_json_b un K (wire_lines (write_json_b un (calc_new K) evs)) = VAccept.
Proof. exact honest_json_verifies_same. Qed.
Print Assumptions C20_honest_json_verifies_same_decoder.

(** the obligation the running code has to meet (breaks when one side changes its decoder) … *)
Theorem C20_json_same_decoder : AL_JSON_WRITER_USENUMBER = AL_JSON_VERIFIER_USENUMBER.
Proof. exact json_same_decoder. Qed.
Print Assumptions C20_json_same_decoder.

(** … and it is needed: json.Number on the writer side with float64 on the verifier side rejects an honest
    log with an integer above 2^53 (both symmetric configurations accept it) *)
Theorem C20_json_decoder_asymmetry_refuted :
  wf_jb_evs true jK true None ev_asym = true /\ wf_jb_evs false jK true None ev_asym = true /\
  verify_json_b true jK (wire_lines (write_json_b true (calc_new jK) ev_asym)) = VAccept /\
  verify_json_b false jK (wire_lines (write_json_b false (calc_new jK) ev_asym)) = VAccept /\
  verify_json_b false jK (wire_lines (write_json_b true (calc_new jK) ev_asym)) = VFail 0 C_MISMATCH /\
  verify_json_b false jK (wire_lines (write_json_b true (calc_new jK) ev_asym_small)) = VAccept.
Proof. exact json_decoder_asymmetry_refuted. Qed.
Print Assumptions C20_json_decoder_asymmetry_refuted.

(** the two facts the honest theorem rests on: what a decoder delivers is well formed (sorted maps, clean
    strings, numbers that survive printing) and is read back unchanged from its printed form *)
Theorem C20_json_decoded_is_wellformed :
  forall (un : bool) (w : wv) (v : jv), w_ok un w = true -> decode un w = Some v -> WFV un v.
Proof. exact decode_wf. Qed.
Print Assumptions C20_json_decoded_is_wellformed.

Theorem C20_json_print_then_decode :
  forall (un : bool) (v : jv), WFV un v -> decode un (to_wire v) = Some v.
Proof. exact decode_to_wire. Qed.
Print Assumptions C20_json_print_then_decode.

(** one honest entry: the verifier's parser extracts exactly the bytes the writer authenticated *)
Theorem C20_json_line_roundtrip :
  forall (un : bool) (c : calc) (w : wv) (m : list (bytes * jv)),
  decode_top un w = Some m -> w_ok un w = true -> entry_ok (first_check c) m = true ->
  let body := conv_b m in
  exists m2, json_post_b un c w = Ok (m2, snd (calc_step c body)) /\
    wline_pres un (WLine (to_wire (JObj m2)))
    = POk (mk_parsed body (fst (fst (calc_step c body))) (first_check c) (json_end_marked m)).
Proof. exact json_honest_line. Qed.
Print Assumptions C20_json_line_roundtrip.

(** tampering (corollary of C20_tamper_detected_by_next_parsed): after any honest prefix that ends inside a
    chain, replace the next entry x by ANY lines M (none = deletion, an edited JSON line with any members
    and any integrity value, copies, non-JSON text …) and keep x's honest successor y: verification fails
    no later than at y, or the verifier reaches y in exactly the writer's state, or SHA-256 collides *)
Theorem C20_json_tamper_detected_by_next :
  forall (K : bytes) (evsP : list jbev) (xw yw : wv) (my : list (bytes * jv)) (M R : list wline),
  wf_jb_evs AL_JSON_WRITER_USENUMBER K true None evsP = true ->
  let un := AL_JSON_WRITER_USENUMBER in
  let c := jstate un (calc_new K) evsP in
  first_check c = false ->
  forall mx c1 my2 c2,
  json_post_b un c xw = Ok (mx, c1) ->
  decode_top un yw = Some my -> w_ok un yw = true -> entry_ok false my = true ->
  json_post_b un c1 yw = Ok (my2, c2) ->
  let outsP := json_writer (calc_new K) evsP in
  detected_by (json_verifier K (wire_lines outsP ++ M ++ WLine (to_wire (JObj my2)) :: R)) (length outsP + length M)
  \/ (exists st', vrun K (mk_vstate c (jlast un None evsP)) (map (wline_pres AL_JSON_VERIFIER_USENUMBER) M) = Some st'
                  /\ v_calc st' = c1)
  \/ sha_collision.
Proof. exact json_tamper_detected_by_next. Qed.
Print Assumptions C20_json_tamper_detected_by_next.

(** an edited JSON line in the place of x survives its successor only if its authenticated bytes — the
    canonical form of ITS field map — are those of x, or SHA-256 collides … *)
Theorem C20_json_edited_entry_detected :
  forall (un : bool) K st i (w' : wv) (px py : parsed) (R : list pres) c xb yb,
  v_calc st = c -> length (ck c) = 32 ->
  wline_pres un (WLine w') = POk px -> p_new px = false ->
  p_new py = false -> p_raw py = yb -> p_integ py = fst (fst (calc_step (snd (calc_step c xb)) yb)) ->
  detected_by (verify_pres K st i (wline_pres un (WLine w') :: POk py :: R)) (S i)
  \/ (exists m', decode_top un w' = Some m' /\ conv_b (adel AL_INTEGRITY_KEY m') = xb)
  \/ sha_collision.
Proof. exact json_edited_entry_detected. Qed.
Print Assumptions C20_json_edited_entry_detected.

(** … and that canonical form is NOT injective (known finding json-delimiter-ambiguity, recorded, not fixed):
    an honest log, and a line with ANOTHER field map (three members folded into one whose name spells the
    `delimiter` tokens) that verifies in its place *)
Theorem C20_json_delimiter_ambiguity_refuted :
  exists (K : bytes) (evs : list jbev) (w' : wv) (m m' : list (bytes * jv)),
    wf_jb_evs AL_JSON_WRITER_USENUMBER K true None evs = true /\
    let outs := json_writer (calc_new K) evs in
    json_verifier K (wire_lines outs) = VAccept /\
    decode_top AL_JSON_VERIFIER_USENUMBER (to_wire (JObj (nth 0 outs []))) = Some m /\
    decode_top AL_JSON_VERIFIER_USENUMBER w' = Some m' /\
    adel AL_CHAIN_KEY (adel AL_INTEGRITY_KEY m) <> adel AL_CHAIN_KEY (adel AL_INTEGRITY_KEY m') /\
    conv_b (adel AL_CHAIN_KEY (adel AL_INTEGRITY_KEY m)) = conv_b (adel AL_CHAIN_KEY (adel AL_INTEGRITY_KEY m')) /\
    json_verifier K (WLine w' :: skipn 1 (wire_lines outs)) = VAccept.
Proof. exact json_delimiter_ambiguity_refuted. Qed.
Print Assumptions C20_json_delimiter_ambiguity_refuted.

(** known finding json-reserved-field at byte level (the boundary of [entry_ok]) *)
Theorem C20_json_reserved_field_bytes_refuted :
  json_verifier jK (wire_lines (json_writer (calc_new jK) ev_res_integrity)) = VFail 0 C_MISMATCH /\
  json_verifier jK (wire_lines (json_writer (calc_new jK) ev_res_chain_first)) = VFail 0 C_MISMATCH /\
  json_verifier jK (wire_lines (json_writer (calc_new jK) ev_res_chain_new)) = VFail 1 C_MISSING_END /\
  wf_jb_evs AL_JSON_WRITER_USENUMBER jK true None ev_res_integrity = false /\
  wf_jb_evs AL_JSON_WRITER_USENUMBER jK true None ev_res_chain_first = false /\
  wf_jb_evs AL_JSON_WRITER_USENUMBER jK true None ev_res_chain_new = false.
Proof. exact json_reserved_field_b_refuted. Qed.
Print Assumptions C20_json_reserved_field_bytes_refuted.

(** non-vacuity: Proofs/AuditLogJsonWitness.v — [honest_json_b_example] (a history with integers above 2^53
    and 2^63, exponent forms, nested values with a repeated name and an inner member `integrity`, unicode,
    a user member `chain` on a later entry, a reset: [wf_jb_evs] holds, the log verifies, and the
    authenticated bytes of an entry are shown), [json_tamper_premises_example], [json_number_examples]. *)
Example C20_json_nonvacuous_honest :
  wf_jb_evs AL_JSON_WRITER_USENUMBER jK true None ev_json_b = true /\
  length out_json_b = 5 /\
  json_verifier jK (wire_lines out_json_b) = VAccept /\
  (exists p, wline_pres AL_JSON_VERIFIER_USENUMBER (nth 1 (wire_lines out_json_b) WEmpty) = POk p /\
     p_raw p = raw_1_expected).
Proof. exact honest_json_b_example. Qed.

Example C20_json_nonvacuous_tamper :
  let un := AL_JSON_WRITER_USENUMBER in
  let c := jstate un (calc_new jK) jb_prefix in
  wf_jb_evs un jK true None jb_prefix = true /\ first_check c = false /\
  (exists mx c1 my my2 c2, json_post_b un c jb_x = Ok (mx, c1) /\ decode_top un jb_y = Some my /\
     w_ok un jb_y = true /\ entry_ok false my = true /\ json_post_b un c1 jb_y = Ok (my2, c2) /\
     json_verifier jK (wire_lines (firstn 1 out_json_b) ++ [WLine jb_x_edited] ++ WLine (to_wire (JObj my2)) :: [])
     = VFail 1 C_MISMATCH /\
     json_verifier jK (wire_lines (firstn 1 out_json_b) ++ [] ++ WLine (to_wire (JObj my2)) :: []) = VFail 1 C_MISMATCH).
Proof. exact json_tamper_premises_example. Qed.
