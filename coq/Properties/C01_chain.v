(** C01 through the COMPLETE transparent write chain and read chain of the proxies (Model/FullChain.v:
    [TokenEncryptor]; EncryptHandler; [SearchableDataEncryptor]; [masking.DataEncryptor]; ReEncryptHandler on the way
    in, [TokenProcessor]; [hmac.Processor]; OldContainerDetectorWrapper; [hmac.Processor.Verifier()] on the way out):
    a value written through the chain comes back byte-identical, marked decrypted, when the same client reveals it
    - per column flavour, for ALL plaintexts, keys and later key histories; a value that already is protected is
    stored as it is (behind the index of its PLAINTEXT in a searchable column) and reveals to the plaintext it holds.
    Only statements closed by [exact], their assumptions, non-vacuity examples and refutation witnesses. *)
From Acra Require Import Lib.Bytes Lib.Outcome Lib.Sha256 Crypto.Interface Gen.Consts Gen.MaskConsts
  Model.Envelope Model.EnvelopeOld Model.Masking Model.MaskingWrite Model.Search Model.SearchExt Model.LegacyChain
  Model.FullChain
  Proofs.Envelope Proofs.EnvelopeHandlers Proofs.Scanner Proofs.Search Proofs.Masking Proofs.FullChain.

(** * which stage acts for which flavour (at most one stage of a call creates an envelope) *)
Theorem C01_chain_write_plain :
  forall (C : crypto) (sch : fc_schema) (st : fc_setting) (ks : keyset) (tape : list bytes) (data : bytes),
  fs_only_enc st = true ->
  fc_write C sch st ks tape data =
    (do d1 <- encrypt_with_handler C (fs_id st) ks tape data;
     reencrypt C (fs_env_ab st) true (fs_reenc st) ks tape d1).
Proof. exact fc_write_plain. Qed.
Print Assumptions C01_chain_write_plain.

Theorem C01_chain_write_searchable :
  forall (C : crypto) (sch : fc_schema) (st : fc_setting) (ks : keyset) (tape : list bytes) (data : bytes),
  fs_searchable st = true -> is_nil (ms_pattern (fs_mask st)) = true -> fc_search sch = true ->
  fc_write C sch st ks tape data = searchable_encrypt C (fs_id st) ks tape data.
Proof. exact fc_write_searchable. Qed.
Print Assumptions C01_chain_write_searchable.

(** masked column: the complete chain is the masking encryptor = C11's write chain (Model/MaskingWrite.v) *)
Theorem C01_chain_write_masked :
  forall (C : crypto) (sch : fc_schema) (st : fc_setting) (ks : keyset) (tape : list bytes) (data : bytes),
  fs_searchable st = false -> is_nil (ms_pattern (fs_mask st)) = false -> fc_mask sch = true ->
  fc_write C sch st ks tape data = mask_encryptor C (fs_id st) ks tape (fs_mask st) data
  /\ fc_write C sch st ks tape data = write_chain C (fs_id st) ks tape (fs_mask st) (fs_reenc st) data.
Proof. exact fc_write_masked. Qed.
Print Assumptions C01_chain_write_masked.

(** * the read chain around the detector *)
(** no index in front of the value: hmac.Processor and its verifier do nothing *)
Theorem C01_chain_read_no_index :
  forall (C : crypto) (sch : fc_schema) (st : option fc_setting) (ks : keyset) (col : bytes),
  extract_hash col = None -> fc_read_core C sch st ks col = fc_detector C sch st ks col.
Proof. exact fc_read_core_no_index. Qed.
Print Assumptions C01_chain_read_no_index.

(** <index of dec><envelope that the detector reveals to dec>: dec, with the detector's mark *)
Theorem C01_chain_read_index :
  forall (C : crypto) (sch : fc_schema) (st : option fc_setting) (ks : keyset) (key cont dec : bytes) (ch : bool),
  ks_hmac ks = Some key -> envelope_match cont = true -> fc_detector C sch st ks cont = Ok (dec, ch) ->
  fc_search sch = true ->
  fc_read_core C sch st ks (blind_index key dec ++ cont) = Ok (dec, ch).
Proof. exact fc_read_core_index. Qed.
Print Assumptions C01_chain_read_index.

(** an index that is not the index of the revealed plaintext: the column as stored, not marked decrypted *)
Theorem C01_chain_read_wrong_index :
  forall (C : crypto) (sch : fc_schema) (st : option fc_setting) (ks : keyset) (key h cont dec : bytes) (ch : bool),
  ks_hmac ks = Some key -> extract_hash (h ++ cont) = Some (h, cont) ->
  envelope_match cont = true -> fc_detector C sch st ks cont = Ok (dec, ch) ->
  fc_search sch = true -> h <> blind_index key dec ->
  fc_read_core C sch st ks (h ++ cont) = Ok (h ++ cont, false).
Proof. exact fc_read_core_wrong_index. Qed.
Print Assumptions C01_chain_read_wrong_index.

(** EnvelopeMatcher.Match accepts every serialized container; the detector behind the wrapper reveals it *)
Theorem C01_chain_matcher_accepts_container :
  forall (inner : bytes) (id : byte),
  inner <> [] -> known_envelope id = true -> (N.of_nat (length inner) < 4294967296)%N ->
  envelope_match (sc_layout inner id) = true.
Proof. exact envelope_match_container. Qed.
Print Assumptions C01_chain_matcher_accepts_container.

Theorem C01_chain_detector_reveals_container :
  forall (C : crypto) (ks : keyset) (id : byte) (inner x : bytes),
  inner <> [] -> known_envelope id = true -> (N.of_nat (length inner) < 4294967296)%N ->
  handler_match id inner = true -> handler_decrypt C id ks inner = Ok x -> length x < length inner ->
  on_column_old (old_cbs C ks) (sc_layout inner id) = Ok (x, true).
Proof. exact detector_reveals_container. Qed.
Print Assumptions C01_chain_detector_reveals_container.

(** * round trips per flavour *)
(** plain encrypted column, asymmetric envelope (reencrypting_to_acrablocks on or off, any schema): written,
    revealed by the owner under any later key history, and written again unchanged by anybody *)
Theorem C01_chain_plain_roundtrip_asymmetric :
  forall (C : crypto), Correct C ->
  forall (sch : fc_schema) (st : fc_setting) (ks ks' : keyset) (tape : list bytes) (x sb : bytes) (before after : list bytes),
  fs_env_ab st = false -> fs_only_enc st = true ->
  looks_protected ENVELOPE_ID_ACRASTRUCT x = false ->
  x <> [] -> (N.of_nat (length x) < MAXMSG)%N -> good_as_tape tape -> length sb = SEED_LEN ->
  ks_pub ks = Some (pub_of C sb) ->
  ks_privs ks' = before ++ priv_of C sb :: after ->
  (forall v, Forall (fun p => exists e, as_decrypt C v p [] = Err e) before) ->
  exists v, fc_write C sch st ks tape x = Ok v /\
            fc_read_core C sch (Some st) ks' v = Ok (x, true) /\
            (forall ks2 tape2, fc_write C sch st ks2 tape2 v = Ok v).
Proof. exact chain_plain_roundtrip_as. Qed.
Print Assumptions C01_chain_plain_roundtrip_asymmetric.

Theorem C01_chain_plain_roundtrip_symmetric :
  forall (C : crypto), Correct C ->
  forall (sch : fc_schema) (st : fc_setting) (ks ks' : keyset) (tape : list bytes) (x key : bytes)
         (rest before after : list bytes),
  fs_env_ab st = true -> fs_only_enc st = true ->
  looks_protected ENVELOPE_ID_ACRABLOCK x = false ->
  x <> [] -> (N.of_nat (length x) < MAXMSG)%N -> good_ab_tape tape -> key <> [] ->
  ks_syms ks = key :: rest ->
  ks_syms ks' = before ++ key :: after ->
  (forall ek, Forall (fun k => bytes_eqb (ab_key_id k []) (ab_key_id key []) = false
                               \/ cell_decrypt C k [] ek = None) before) ->
  exists v, fc_write C sch st ks tape x = Ok v /\
            fc_read_core C sch (Some st) ks' v = Ok (x, true) /\
            (forall ks2 tape2, fc_write C sch st ks2 tape2 v = Ok v).
Proof. exact chain_plain_roundtrip_ab. Qed.
Print Assumptions C01_chain_plain_roundtrip_symmetric.

(** already protected input in a plain column is stored as it is *)
Theorem C01_chain_plain_passthrough :
  forall (C : crypto) (sch : fc_schema) (st : fc_setting) (ks : keyset) (tape : list bytes) (e : bytes),
  fs_only_enc st = true -> looks_protected (fs_id st) e = true ->
  (fs_env_ab st = false \/ reenc_match e = true \/ (fs_reenc st = false /\ looks_protected ENVELOPE_ID_ACRABLOCK e = true)) ->
  fc_write C sch st ks tape e = Ok e.
Proof. exact chain_plain_passthrough. Qed.
Print Assumptions C01_chain_plain_passthrough.

(** searchable column: whatever is stored starts with HMAC(owner key, PLAINTEXT); an already protected value stands
    for the plaintext it holds ([meaning]) *)
Theorem C01_chain_searchable_index_is_of_plaintext :
  forall (C : crypto) (sch : fc_schema) (st : fc_setting) (ks : keyset) (tape : list bytes) (data s : bytes),
  fs_searchable st = true -> is_nil (ms_pattern (fs_mask st)) = true -> fc_search sch = true ->
  fc_write C sch st ks tape data = Ok s ->
  exists key p cont, ks_hmac ks = Some key /\ meaning C ks data = Ok p /\ s = blind_index key p ++ cont.
Proof. exact chain_searchable_index_of_plaintext. Qed.
Print Assumptions C01_chain_searchable_index_is_of_plaintext.

(** searchable column, fresh plaintext, both envelopes *)
Theorem C01_chain_searchable_roundtrip_asymmetric :
  forall (C : crypto), Correct C ->
  forall (sch : fc_schema) (st : fc_setting) (ks ks' : keyset) (tape : list bytes) (key x sb : bytes) (before after : list bytes),
  fs_env_ab st = false -> fs_searchable st = true -> is_nil (ms_pattern (fs_mask st)) = true -> fc_search sch = true ->
  ks_hmac ks = Some key -> ks_hmac ks' = Some key ->
  looks_protected ENVELOPE_ID_ACRASTRUCT x = false ->
  x <> [] -> (N.of_nat (length x) < MAXMSG)%N -> good_as_tape tape -> length sb = SEED_LEN ->
  ks_pub ks = Some (pub_of C sb) ->
  ks_privs ks' = before ++ priv_of C sb :: after ->
  (forall v, Forall (fun p => exists e, as_decrypt C v p [] = Err e) before) ->
  exists v, fc_write C sch st ks tape x = Ok (blind_index key x ++ v) /\
            fc_read_core C sch (Some st) ks' (blind_index key x ++ v) = Ok (x, true).
Proof. exact chain_searchable_roundtrip_as. Qed.
Print Assumptions C01_chain_searchable_roundtrip_asymmetric.

Theorem C01_chain_searchable_roundtrip_symmetric :
  forall (C : crypto), Correct C ->
  forall (sch : fc_schema) (st : fc_setting) (ks ks' : keyset) (tape : list bytes) (hkey x key : bytes)
         (rest before after : list bytes),
  fs_env_ab st = true -> fs_searchable st = true -> is_nil (ms_pattern (fs_mask st)) = true -> fc_search sch = true ->
  ks_hmac ks = Some hkey -> ks_hmac ks' = Some hkey ->
  looks_protected ENVELOPE_ID_ACRABLOCK x = false ->
  x <> [] -> (N.of_nat (length x) < MAXMSG)%N -> good_ab_tape tape -> key <> [] ->
  ks_syms ks = key :: rest ->
  ks_syms ks' = before ++ key :: after ->
  (forall ek, Forall (fun k => bytes_eqb (ab_key_id k []) (ab_key_id key []) = false
                               \/ cell_decrypt C k [] ek = None) before) ->
  exists v, fc_write C sch st ks tape x = Ok (blind_index hkey x ++ v) /\
            fc_read_core C sch (Some st) ks' (blind_index hkey x ++ v) = Ok (x, true).
Proof. exact chain_searchable_roundtrip_ab. Qed.
Print Assumptions C01_chain_searchable_roundtrip_symmetric.

(** searchable column, ALREADY PROTECTED input (anything the registry handler recognises and the client's keys
    open: raw AcraStruct, raw AcraBlock, serialized container): stored as <index of the PLAINTEXT><same envelope> -
    not wrapped again - and whenever the detector reveals that envelope to its plaintext, so does the whole chain *)
Theorem C01_chain_searchable_roundtrip_protected :
  forall (C : crypto) (sch : fc_schema) (st : fc_setting) (ks : keyset) (tape : list bytes) (key e x : bytes),
  fs_searchable st = true -> is_nil (ms_pattern (fs_mask st)) = true -> fc_search sch = true ->
  ks_hmac ks = Some key -> registry_match e = true -> registry_process C ks e = Ok x ->
  fc_write C sch st ks tape e = Ok (blind_index key x ++ e)
  /\ forall ks' ch, ks_hmac ks' = Some key -> envelope_match e = true ->
       on_column_old (old_cbs C ks') e = Ok (x, ch) ->
       fc_read_core C sch (Some st) ks' (blind_index key x ++ e) = Ok (x, ch).
Proof. exact chain_searchable_protected. Qed.
Print Assumptions C01_chain_searchable_roundtrip_protected.

(** the same with every premise discharged for a serialized container of the client, any later keys that open it *)
Theorem C01_chain_searchable_roundtrip_protected_container :
  forall (C : crypto) (sch : fc_schema) (st : fc_setting) (ks ks' : keyset) (tape : list bytes) (key : bytes) (id : byte) (inner x : bytes),
  fs_searchable st = true -> is_nil (ms_pattern (fs_mask st)) = true -> fc_search sch = true ->
  ks_hmac ks = Some key -> ks_hmac ks' = Some key ->
  inner <> [] -> known_envelope id = true -> (N.of_nat (length inner) < 4294967296)%N ->
  handler_match id inner = true -> length x < length inner ->
  handler_decrypt C id ks inner = Ok x -> handler_decrypt C id ks' inner = Ok x ->
  fc_write C sch st ks tape (sc_layout inner id) = Ok (blind_index key x ++ sc_layout inner id)
  /\ fc_read_core C sch (Some st) ks' (blind_index key x ++ sc_layout inner id) = Ok (x, true).
Proof. exact chain_searchable_protected_container. Qed.
Print Assumptions C01_chain_searchable_roundtrip_protected_container.

(** reduction (no injectivity of HMAC assumed): if the stored index is taken over any other bytes [m] - e.g. over
    the envelope instead of its plaintext - the owner is handed the plaintext only when HMAC(m) = HMAC(plaintext);
    otherwise he gets the column as stored, unmarked *)
Theorem C01_chain_index_over_other_bytes :
  forall (C : crypto) (sch : fc_schema) (st : option fc_setting) (ks : keyset) (key m cont dec : bytes) (ch : bool)
         (out : bytes) (flag : bool),
  ks_hmac ks = Some key -> fc_search sch = true ->
  envelope_match cont = true -> fc_detector C sch st ks cont = Ok (dec, ch) ->
  fc_read_core C sch st ks (blind_index key m ++ cont) = Ok (out, flag) ->
  (out = dec /\ flag = ch /\ hmac_sha256 key m = hmac_sha256 key dec)
  \/ (out = blind_index key m ++ cont /\ flag = false).
Proof. exact chain_index_over_other_bytes. Qed.
Print Assumptions C01_chain_index_over_other_bytes.

(** masked column: C11's owner theorem through the complete chain ([protects] is supplied by C11_protects_asymmetric and C11_protects_symmetric).
    When the schema also has a searchable column the stored value must not start like an index: see
    C01_chain_masked_window_taken_for_index_refuted *)
Theorem C01_chain_masked_roundtrip :
  forall (C : crypto) (sch : fc_schema) (st : fc_setting) (ks : keyset) (tape : list bytes) (ks' : keyset) (x v inner : bytes),
  fs_searchable st = false -> fc_mask sch = true ->
  validate_masking_params (fs_mask st) = true ->
  protects C (fs_id st) ks tape ks' (mask_hidden (fs_mask st) x) v inner ->
  window_clear (fs_mask st) (mask_window (fs_mask st) x) v ->
  (fc_search sch = true -> extract_hash (mask_join (fs_mask st) (mask_window (fs_mask st) x) v) = None) ->
  fc_write C sch st ks tape x = Ok (mask_join (fs_mask st) (mask_window (fs_mask st) x) v) /\
  fc_read_core C sch (Some st) ks' (mask_join (fs_mask st) (mask_window (fs_mask st) x) v) = Ok (x, true).
Proof. exact chain_masked_roundtrip. Qed.
Print Assumptions C01_chain_masked_roundtrip.

(** * non-vacuity and refutations, on the stand-in crypto the harness runs *)
From Acra Require Import Crypto.Stub Proofs.StubCorrect.

Definition k_seed : bytes := repeat_bytes x09 32.
Definition k_sym : bytes := repeat_bytes x07 32.
Definition k_hmac : bytes := repeat_bytes x0b 32.
Definition k_ks := Build_keyset (Some (pub_of Stub k_seed)) [priv_of Stub k_seed] [k_sym] (Some k_hmac).
Definition k_as_tape : list bytes := [repeat_bytes x01 32; repeat_bytes x02 32; repeat_bytes x03 12; repeat_bytes x04 12].
Definition k_ab_tape : list bytes := [repeat_bytes x05 32; repeat_bytes x06 12; repeat_bytes x08 12].
Definition k_x : bytes := hb 0x14f726967696e616c2076616c7565202525252222222222222222.
Definition no_mask := Build_mask_setting [] 0 [] 0.
Definition k_full := Build_fc_schema true true true.
Definition k_search_as := Build_fc_setting false true true no_mask.
Definition k_search_ab := Build_fc_setting true true true no_mask.
Definition k_plain_ab_re := Build_fc_setting true true false no_mask.
Definition getb (r : res bytes) : bytes := match r with Ok v => v | _ => [] end.

(* application-side envelopes of the client: raw AcraStruct, raw AcraBlock, containers *)
Definition k_raw_as : bytes := Eval vm_compute in getb (as_create Stub k_as_tape k_x (pub_of Stub k_seed) []).
Definition k_raw_ab : bytes := Eval vm_compute in getb (ab_create Stub k_ab_tape k_x k_sym []).
Definition k_cont_as : bytes := Eval vm_compute in getb (encrypt_with_handler Stub ENVELOPE_ID_ACRASTRUCT k_ks k_as_tape k_x).
Definition k_cont_ab : bytes := Eval vm_compute in getb (encrypt_with_handler Stub ENVELOPE_ID_ACRABLOCK k_ks k_ab_tape k_x).
Definition k_idx : bytes := Eval vm_compute in blind_index k_hmac k_x.

(** every already-protected form, through a searchable column of either envelope, in the schema that has every
    optional stage: stored as <index of the plaintext><same envelope>, revealed to the plaintext, marked decrypted;
    the premises of C01_chain_searchable_roundtrip_protected hold for the raw forms as well *)
Example C01_chain_searchable_protected_forms :
  forallb (fun e : bytes =>
    forallb (fun st : fc_setting =>
      match fc_write Stub k_full st k_ks k_ab_tape e with
      | Ok s => bytes_eqb s (k_idx ++ e) &&
                match fc_read_core Stub k_full (Some st) k_ks s with
                | Ok (out, d) => bytes_eqb out k_x && d
                | _ => false
                end &&
                registry_match e && envelope_match e &&
                match on_column_old (old_cbs Stub k_ks) e with Ok (o, d) => bytes_eqb o k_x && d | _ => false end
      | _ => false
      end) [k_search_as; k_search_ab])
    [k_raw_as; k_raw_ab; k_cont_as; k_cont_ab] = true.
Proof. vm_compute. reflexivity. Qed.

(** fresh plaintext through every flavour, and an AcraStruct re-encrypted into an AcraBlock column *)
Definition k_mask_l := Build_fc_setting false true false (Build_mask_setting (hb 0x178787878) 9 MASK_SIDE_LEFT 0).
Definition k_mask_r := Build_fc_setting true true false (Build_mask_setting (hb 0x178787878) 5 MASK_SIDE_RIGHT 0).
Example C01_chain_every_flavour :
  forallb (fun p : fc_setting * list bytes =>
      match fc_write Stub k_full (fst p) k_ks (snd p) k_x with
      | Ok s => match fc_read_core Stub k_full (Some (fst p)) k_ks s with
                | Ok (out, d) => bytes_eqb out k_x && d
                | _ => false
                end
      | _ => false
      end)
    [(Build_fc_setting false false false no_mask, k_as_tape); (Build_fc_setting false true false no_mask, k_as_tape);
     (Build_fc_setting true false false no_mask, k_ab_tape); (k_plain_ab_re, k_ab_tape);
     (k_search_as, k_as_tape); (k_search_ab, k_ab_tape); (k_mask_l, k_as_tape); (k_mask_r, k_ab_tape)] = true
  /\ match fc_write Stub k_full k_plain_ab_re k_ks k_ab_tape k_raw_as with
     | Ok s => negb (bytes_eqb s k_raw_as) &&
               match fc_read_core Stub k_full (Some k_plain_ab_re) k_ks s with Ok (out, d) => bytes_eqb out k_x && d | _ => false end
     | _ => false
     end = true.
Proof. split; vm_compute; reflexivity. Qed.

Lemma neq_of_eqb (a b : bytes) : bytes_eqb a b = false -> a <> b.
Proof. intros H E. subst b. rewrite bytes_eqb_refl in H. discriminate. Qed.

(** ** known finding searchable-stored-value-rewrapped: the stored value of a searchable column <index><envelope> is
    not recognised as protected by the write chain (RegistryHandler.MatchDataSignature sees the index first):
    written again it is wrapped a second time, and the owner then reveals the FIRST stored value, not the plaintext *)
Definition r_x : bytes := hb 0x161626364.
Definition r_s1 : bytes := Eval vm_compute in getb (fc_write Stub k_full k_search_ab k_ks k_ab_tape r_x).
Definition r_s2 : bytes := Eval vm_compute in getb (fc_write Stub k_full k_search_ab k_ks k_ab_tape r_s1).
Theorem C01_chain_searchable_stored_value_rewrapped_refuted :
  exists sch st ks tape x s1 s2,
    fc_write Stub sch st ks tape x = Ok s1 /\ fc_read_core Stub sch (Some st) ks s1 = Ok (x, true) /\
    fc_write Stub sch st ks tape s1 = Ok s2 /\ s2 <> s1 /\
    fc_read_core Stub sch (Some st) ks s2 = Ok (s1, true) /\ s1 <> x.
Proof.
  exists k_full, k_search_ab, k_ks, k_ab_tape, r_x, r_s1, r_s2.
  split; [vm_cast_no_check (eq_refl (Ok r_s1))|].
  split; [vm_cast_no_check (eq_refl (Ok (r_x, true)))|].
  split; [vm_cast_no_check (eq_refl (Ok r_s2))|].
  split; [apply neq_of_eqb; vm_cast_no_check (eq_refl false)|].
  split; [vm_cast_no_check (eq_refl (Ok (r_s1, true)))|].
  apply neq_of_eqb; vm_cast_no_check (eq_refl false).
Qed.
Print Assumptions C01_chain_searchable_stored_value_rewrapped_refuted.

(** ** known finding masked-column-cuts-protected-value: masking.DataEncryptor cuts a value that already is a
    protected value (here a serialized AcraBlock container of the client, window of 40 bytes) into clear window and hidden part; the window then
    carries the container header, the scanner takes header + following bytes for a container nobody can open, and
    the owner receives neither the plaintext nor the bytes he wrote *)
Definition m_cut := Build_fc_setting false true false (Build_mask_setting (hb 0x178787878) 40 MASK_SIDE_LEFT 0).
Definition m_s : bytes := Eval vm_compute in getb (fc_write Stub k_full m_cut k_ks k_as_tape k_cont_ab).
Definition m_out : bytes := Eval vm_compute in
  match fc_read_core Stub k_full (Some m_cut) k_ks m_s with Ok (o, _) => o | _ => [] end.
Theorem C01_chain_masked_cuts_protected_value_refuted :
  exists sch st ks tape e x s out d,
    registry_process Stub ks e = Ok x /\ registry_match e = true /\
    fc_write Stub sch st ks tape e = Ok s /\ fc_read_core Stub sch (Some st) ks s = Ok (out, d) /\
    out <> x /\ out <> e.
Proof.
  exists k_full, m_cut, k_ks, k_as_tape, k_cont_ab, k_x, m_s, m_out, true.
  repeat split; try (vm_compute; reflexivity); apply neq_of_eqb; vm_compute; reflexivity.
Qed.
Print Assumptions C01_chain_masked_cuts_protected_value_refuted.

(** ** known finding masked-window-taken-for-index: hmac.Processor does not look at the column's setting.  In a schema
    that has a searchable column, a MASKED column whose clear left window is at least 21 bytes long (33 bytes are
    taken for the index: the window and up to the whole 12-byte container header behind it) and starts with
    the function id 0x7f is taken for <index><envelope>: the verifier fails and the owner gets the value as stored,
    not marked decrypted.  Without a searchable column in the schema the same value comes back *)
Definition w_mask := Build_fc_setting false true false (Build_mask_setting (hb 0x178787878) 33 MASK_SIDE_LEFT 0).
Definition w_x : bytes := x7f :: repeat_bytes x41 40.
Definition w_s : bytes := Eval vm_compute in getb (fc_write Stub k_full w_mask k_ks k_as_tape w_x).
Theorem C01_chain_masked_window_taken_for_index_refuted :
  exists st ks tape x s,
    fc_write Stub (Build_fc_schema false true true) st ks tape x = Ok s /\
    fc_write Stub (Build_fc_schema false false true) st ks tape x = Ok s /\
    fc_read_core Stub (Build_fc_schema false false true) (Some st) ks s = Ok (x, true) /\
    fc_read_core Stub (Build_fc_schema false true true) (Some st) ks s = Ok (s, false) /\ s <> x.
Proof.
  exists w_mask, k_ks, k_as_tape, w_x, w_s.
  repeat split; try (vm_compute; reflexivity); apply neq_of_eqb; vm_compute; reflexivity.
Qed.
Print Assumptions C01_chain_masked_window_taken_for_index_refuted.
