(** C08 (keystore v2), recovery: the temp-file / rename / rollback protocol of the write path under
    ANY NUMBER of faults per operation, over ANY history of operations and re-opens (each of which
    may fail or die as well), including the multi-ring import and the open protocol of the directory
    back end (root directory, version file, lock file).

    Hypotheses (explicit in the models): every back-end call is atomic; Rename is atomic and replaces
    its target; a completed Put is durable; a cut write leaves a strict prefix only in the NEW file
    being created, and a key ring file holding such a prefix does not verify. For the directory:
    os.Rename is atomic, a cut WriteString leaves a strict prefix of the version string. *)
From Acra Require Import Lib.Bytes Lib.Outcome Gen.KswConsts Model.KeystoreWrite Model.KeystoreTx Model.RunKeystoreTx
  Proofs.KeystoreWrite Proofs.KeystoreTx.
Local Open Scope Z_scope.

(** (1) EVERY LOCKED UPDATE IS ALL-OR-NOTHING, for every well-formed storage, every fault SCHEDULE
    (any set of call indices with error | crash before | crash after | torn | torn-and-error):
    - OpenKeyRingRW (ring creation): the ring file is absent as before or the complete empty ring;
    - AddKey/SetCurrent/SetState/DestroyKey on any (also stale) key ring object: the ring file is its
      old self or the complete ring "logged transactions applied to the STORED ring";
    - the import of a ring (read, create if missing, replace keys): old self | complete empty ring
      (only if it did not exist) | the complete imported ring.
    In each case the storage is well formed and no other ring file changes. *)
Theorem C08_rec_update_all_or_nothing :
  forall st, wf st ->
    (forall rid fs, step_inv rid (open_P st rid) st (after_m (execm (open_key_ring_rw rid) fs st 0))) /\
    (forall h o fs txs s,
        h_log h = [] -> snap_ok h st -> prepare h o = Ok (txs, s) ->
        step_inv (h_path h) (upd_P st (h_path h) txs) st (after_m (execm (ring_op h o) fs st 0))) /\
    (forall rid newr d fs, ring_ok newr ->
        step_inv rid (imp_ring_P st rid newr) st (after_m (execm (import_ring rid newr d) fs st 0))).
Proof.
  intros st Hwf. split; [|split].
  - intros rid fs. eapply execm_safe; [apply step_inv_refl; exact Hwf | apply open_safe; exact Hwf].
  - intros h o fs txs s Hlog Hsnap Hp.
    eapply execm_safe; [apply step_inv_refl; exact Hwf | eapply ring_op_safe; eassumption].
  - intros rid newr d fs Hok.
    eapply execm_safe; [apply step_inv_refl; exact Hwf | apply import_ring_safe; assumption].
Qed.
Print Assumptions C08_rec_update_all_or_nothing.

(** (2) COMPOSITE WRITES stop between whole updates only.
    generate / import of a key / SaveDataEncryptionKeys (key pair = one key entry): the ring file is
    its old self (or absent) or one of exactly three complete rings: r0 (the ring as it was, or the
    empty ring just created), r0 + the new key (not current yet), r0 + the new key as current.
    ImportKeyRings (many rings): every ring file is its old self, a just-created empty ring, or the
    complete imported ring of that name; rings that are not in the container are untouched. *)
Theorem C08_rec_composite_states :
  forall st, wf st ->
    (forall rid ord fs, step_inv rid (gen_P st rid ord) st (after_m (execm (gen_key rid ord) fs st 0))) /\
    (forall l d fs, Forall (fun p => ring_ok (snd p)) l ->
        imp_inv l st (after_m (execm (import_rings l d) fs st 0))).
Proof.
  intros st Hwf. split.
  - intros rid ord fs. exact (gen_key_multi rid ord st fs Hwf).
  - intros l d fs Hok. eapply execm_safe; [apply imp_inv_refl; exact Hwf|].
    apply import_rings_safe; [apply imp_inv_refl; exact Hwf | apply incl_refl | exact Hok].
Qed.
Print Assumptions C08_rec_composite_states.

(** (3) txlog_rolled_back IN GENERAL: for every well-formed storage, every key ring object without
    pending transactions whose data is any earlier state of the stored ring, every ring-level
    operation and every fault schedule: when the operation RETURNS, nothing is pending; on success
    the object shows the stored ring, which is the committed update, and the returned seqnum is the
    prepared one; on an error it shows what it showed before or exactly the stored ring (never an
    unpersisted transaction). *)
Theorem C08_rec_txlog_rolled_back :
  forall st h o fs txs s,
    wf st -> h_log h = [] -> snap_ok h st -> prepare h o = Ok (txs, s) ->
    match execm (ring_op h o) fs st 0 with
    | Ret ra st' _ =>
        h_path (snd ra) = h_path h /\ h_log (snd ra) = [] /\
        match fst ra with
        | Ok v => v = s /\ stored_ring st' (h_path h) = Some (h_data (snd ra)) /\
                  upd_P st (h_path h) txs (h_data (snd ra))
        | _ => h_data (snd ra) = h_data h \/ stored_ring st' (h_path h) = Some (h_data (snd ra))
        end
    | Crash _ => True
    end.
Proof.
  intros st h o fs txs s Hwf Hlog Hsnap Hp.
  pose proof (ring_op_multi st h o fs txs s Hwf Hlog Hsnap Hp) as H.
  destruct (execm (ring_op h o) fs st 0) as [ra st' k|st']; [|exact I].
  destruct H as (_ & (Hpath & Hl & Hm) & Hv). split; [exact Hpath|]. split; [exact Hl|].
  destruct (fst ra) as [v| |]; [|exact Hm|exact Hm]. split; [apply Hv; reflexivity|exact Hm].
Qed.
Print Assumptions C08_rec_txlog_rolled_back.

(** applyPendingTX/rollbackPendingTX: rolling back what Apply did restores the ring exactly *)
Theorem C08_rec_rollback_undoes_apply :
  forall r log r' log' ap e,
    apply_pending r [] log = (r', log', ap, e) ->
    length log' = length log /\
    match e with None => rollback_all r' ap = r | Some _ => r' = r end.
Proof. intros r log r' log' ap e H. exact (apply_pending_rollback log r [] r r' log' ap e eq_refl H). Qed.
Print Assumptions C08_rec_rollback_undoes_apply.

(** (4) ANY HISTORY. From any well-formed storage and any directory state whose version file is not
    foreign, run ANY list of steps, each an operation (ring creation, ring-level operation on a stale
    or in-sync object, generate, destroy current, multi-ring import, listing) with ANY fault schedule,
    or a re-open of the directory with ANY fault schedule (so: a crash, then a crash during the
    recovery that follows, and so on). Then: the storage is well formed; every ring that was readable
    is still a verifiable ring; in every ring that no import was told to replace the seqnums only
    grow and every key that no step was told to write (SetState/DestroyKey/destroy current) reads the
    same value; the version file is not foreign, and stays complete once it was complete. *)
Theorem C08_rec_history :
  forall h m st,
    wf st -> dm_good m -> hist_pre st h ->
    keeps (hist_rt h) (hist_kt st h) st (snd (hist_run (m, st) h)) /\
    dm_good (fst (hist_run (m, st) h)) /\
    (dm_version m = Some VFull -> dm_version (fst (hist_run (m, st) h)) = Some VFull).
Proof. exact history_keeps. Qed.
Print Assumptions C08_rec_history.

(** ... and what is reached accepts a new process: the directory opens (a torn version file is
    rewritten), listing succeeds, and a generate on any ring succeeds and reads back - whatever
    temporaries the history left behind *)
Theorem C08_rec_history_accepts :
  forall h m st,
    wf st -> dm_good m -> hist_pre st h ->
    let m1 := fst (hist_run (m, st) h) in
    let st1 := snd (hist_run (m, st) h) in
    (exists m2, oexec (open_dir_rw true) [] m1 0 = (Some (Ok tt), m2) /\
                dm_root m2 = true /\ dm_version m2 = Some VFull /\ dm_lock m2 = true) /\
    (exists l k, exec list_keys None st1 0 = Ret (Ok l) st1 k) /\
    (forall rid ord, ord <> 0%N ->
        exists s st2 k r', exec (gen_key rid ord) None st1 0 = Ret (Ok s) st2 k /\ wf st2 /\
          stored_ring st2 rid = Some r' /\ r_cur r' = s /\ key_value r' s = Ok ord).
Proof.
  intros h m st Hwf Hm Hpre m1 st1.
  destruct (history_keeps h m st Hwf Hm Hpre) as ([Hwf1 _] & Hg & _).
  split; [exact (open_rw_fixed_recovers _ Hg)|]. split; [exact (wf_list_ok _ Hwf1)|].
  intros rid ord Hord.
  destruct (wf_accepts_write _ rid ord Hwf1 Hord) as (s & st2 & k & r' & H1 & H2 & H3 & H4 & H5 & _).
  exists s, st2, k, r'. repeat split; assumption.
Qed.
Print Assumptions C08_rec_history_accepts.

(** (5) LEFTOVERS ARE HARMLESS. Well-formedness - the only premise of all the theorems above and of
    C08_v2_recovered_storage_accepts - does not look at "<ring>.keyring.new" files: any set of leftover
    temporaries with any content is covered. And whenever the write of a ring file reports success,
    whatever failed on the way and whatever temporary was lying around, the ring file is the new ring
    and NO temporary of that ring is left (cleaned, not only ignored). *)
Theorem C08_rec_leftovers_harmless :
  (forall st st', (forall x, lookup (FRing x) st' = lookup (FRing x) st) -> wf st -> wf st') /\
  (forall st n c, wf st -> wf (put (FRingNew n) c st)) /\
  (forall rid r' st fs k,
      match execm (push rid r') fs st k with
      | Ret (Ok _) st' _ => lookup (FRing rid) st' = Some (CRing true r') /\ lookup (FRingNew rid) st' = None
      | _ => True
      end).
Proof. split; [exact wf_ring_files|]. split; [exact wf_put_temp|exact push_multi_cleans]. Qed.
Print Assumptions C08_rec_leftovers_harmless.

(** (6) THE DIRECTORY'S OPEN PROTOCOL (fixed code: version file written to a temporary and renamed,
    a torn version file rewritten by the next read-write open). For every directory state without a
    foreign version file and every fault schedule of CreateDirectoryBackend: no foreign version file
    appears, a complete version file stays complete; and a following fault-free open succeeds. *)
Theorem C08_rec_open_dir :
  forall m, dm_good m ->
    (forall fs, dm_good (snd (oexec (open_dir_rw true) fs m 0)) /\
                (dm_version m = Some VFull -> dm_version (snd (oexec (open_dir_rw true) fs m 0)) = Some VFull)) /\
    (exists m', oexec (open_dir_rw true) [] m 0 = (Some (Ok tt), m') /\
                dm_root m' = true /\ dm_version m' = Some VFull /\ dm_lock m' = true).
Proof.
  intros m Hm. split; [intro fs; exact (open_rw_fixed_safe m fs Hm)|exact (open_rw_fixed_recovers m Hm)].
Qed.
Print Assumptions C08_rec_open_dir.

(** the PINNED createVersionFile (exclusive create, write in place) is refuted: dying right after the
    create - or a failed WriteString - during the first open leaves a version file with which every
    later open fails, read-write and read-only, with the state unchanged (so for ever); the fixed
    open repairs exactly that state. Replayed on the real code by the harness (domain c08tx). *)
Theorem C08_rec_open_dir_unfixed_refuted :
  dm_version dm_stuck = Some VPart /\
  oexec (open_dir_rw false) [] dm_stuck 0 = (Some (Err E_BADVERSION), dm_stuck) /\
  oexec open_dir_ro [] dm_stuck 0 = (Some (Err E_BADVERSION), dm_stuck) /\
  snd (oexec (open_dir_rw false) [(4%nat, KErr)] dm_empty 0) = dm_stuck /\
  (exists m', oexec (open_dir_rw true) [] dm_stuck 0 = (Some (Ok tt), m') /\ dm_version m' = Some VFull).
Proof. exact open_unfixed_stuck. Qed.
Print Assumptions C08_rec_open_dir_unfixed_refuted.

(** several faults generalise the single-fault interpreter of C08 *)
Theorem C08_rec_execm_generalises :
  forall A (p : prog A) st,
    (forall kf kind, execm p [(kf, kind)] st 0 = exec p (Some (kf, kind)) st 0) /\
    execm p [] st 0 = exec p None st 0.
Proof. intros A p st. split; [intros; apply execm_single|apply execm_none]. Qed.
Print Assumptions C08_rec_execm_generalises.

(** * Non-vacuity *)
Example C08_rec_ex_pre : wf ex_st /\ dm_good dm_empty /\ hist_pre ex_st ex_hist.
Proof.
  split; [exact ex_wf|]. split; [discriminate|].
  cbn [ex_hist hist_pre rop_pre]. repeat split.
  apply Forall_cons; [exact ex_imp_ring_ok|apply Forall_cons; [exact ex_imp_ring_ok|apply Forall_nil]].
Qed.

(** the example history (crash in generate, crash while writing the version file during the reopen,
    reopen, import with two error faults, destroy current with an error and then a crash) ends in:
    version file complete, lock file present; ring 1 = its old two keys + the key of the crashed
    generate's retry... - computed: *)
Example C08_rec_ex_run :
  let ms := hist_run (dm_empty, ex_st) ex_hist in
  dm_version (fst ms) = Some VFull /\ dm_lock (fst ms) = true /\
  stored_ring (snd ms) 1 = Some ex_ring /\
  stored_ring (snd ms) 2 = Some empty_ring.
Proof. vm_compute. repeat split. Qed.

(** two faults in one operation: the Put of the temporary fails leaving half a file, and the Unlock
    fails as well; the operation returns an error, nothing is pending, the object shows the stored ring *)
Example C08_rec_ex_two_faults :
  exists st' k, execm (ring_op (mk_hring 1 ex_ring []) (WSetCurrent 1)) [(2%nat, KErr); (3%nat, KErr)] ex_st 0
                = Ret (Err E_IO, mk_hring 1 ex_ring []) st' k /\ stored_ring st' 1 = Some ex_ring.
Proof. vm_compute. eexists _, _. split; reflexivity. Qed.

(** a generate interrupted after its AddKey was committed leaves state r1 (key added, not current) *)
Example C08_rec_ex_gen_state :
  stored_ring (after_m (execm (gen_key 1 7) [(10%nat, KCrashBefore)] ex_st 0)) 1 = Some (gen_r1 ex_st 1 7).
Proof. vm_compute. reflexivity. Qed.

(** the replay functions used by the correspondence check (domain c08tx) are the models the theorems are
    about: [run_steps] runs [execm] on the programs of Model/KeystoreWrite.v and Model/KeystoreTx.v,
    [run_tdir] runs [oexec] on [open_dir_rw true] / [open_dir_ro] *)
Example C08_rec_ex_replay :
  RunKeystoreTx.run (THist [TOp (XK (KGen 1 7)) [(4%nat, KErrTorn); (5%nat, KErr)]; TReopen;
                            TOp (XImport [(1%N, ex_imp_ring)] DOverwrite) []] (KGen 1 8)) <> XErr /\
  RunKeystoreTx.run (TDir true (mk_dmeta true (Some VPart) 1 false)) =
  XOk [encN 0; enc_dmeta (mk_dmeta true (Some VFull) 1 true)].
Proof. vm_compute. split; [discriminate|reflexivity]. Qed.
