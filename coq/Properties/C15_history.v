(** C15 over HISTORIES — the poison detector is a long-lived object (one PoisonRecordDetector per database connection,
    one per translator process): whether the k-th value raises the alarm depends on that value and on the keystore AT
    THAT TIME, never on what the same object inspected before.
    Only statements, closed by [exact], and their assumptions.
    Vocabulary (Model/PoisonHistory.v): a history is a [list hval]; every value carries its environment:
      [HVEnvelope pk c]            PoisonRecordDetector.OnCryptoEnvelope on container [c]
      [HVColumn pk ks col]         EnvelopeDetector.OnColumn of the proxy chain (detector, then decrypt handler) under the
                                   connected client's keys [ks]
      [HVTranslate id ks pk data]  TranslatorService.Decrypt / DecryptSym for the client with keys [ks]
    where [pk] = the poison keys the keystore holds when THAT value is given.  No relation between the [pk] of successive
    values is assumed, so the statements quantify over every keystore history (keys provisioned late, one kind only,
    rotated, removed).  [det_state] = the detector's own fields (the callback storage); [hstep] = one value;
    [history_traces C s h] = the event traces, value by value, of the object started in [s] and fed [h];
    [value_trace C has_cb cb_err v] = the trace of the SINGLE value [v] of Model/Poison.v ([column_trace],
    [translator_trace], the detector itself), the subject of Properties/C15.v. *)
From Coq Require Import String.
From Acra Require Import Lib.Bytes Lib.Outcome Crypto.Interface Gen.Consts Gen.MaskConsts Gen.PoisonDetectorState
  Model.Envelope Model.Poison Model.PoisonHistory
  Proofs.Envelope Proofs.EnvelopeHandlers Proofs.Scanner Proofs.Containers Proofs.Poison Proofs.PoisonHistory.

(** the sources declare no state: the struct fields of every long-lived object on the detection path are exactly the
    references the model accounts for, no method outside the construction-time setters writes a receiver field, and
    crypto/poison_detector.go declares no package-level variable (tables regenerated from the sources by go/ast on every
    run: a NEW field, or a method that starts writing one, breaks this obligation) *)
Theorem C15_detector_is_stateless : detector_is_stateless_statement.
Proof. exact detector_is_stateless. Qed.
Print Assumptions C15_detector_is_stateless.

(** history independence at full strength: after ANY prefix - any values, any keystore states - the object answers the
    next value (events, returned bytes, error) exactly as a fresh object answers it *)
Theorem C15_history_independence :
  forall (C : crypto) (s : det_state) (pre : list hval) (v : hval),
  snd (hstep C (state_after (detector_machine C) s pre) v) = snd (hstep C s v).
Proof. exact detector_history_independent. Qed.
Print Assumptions C15_history_independence.

(** the k-th value of every history has exactly the single-value trace (so Properties/C15.v applies at position k) *)
Theorem C15_history_kth_is_single_value :
  forall (C : crypto) (s : det_state) (h : list hval) (k : nat) (v : hval),
  nth_error h k = Some v ->
  nth_error (history_traces C s h) k = Some (value_trace C (ds_has_cb s) (ds_cb_err s) v).
Proof. exact history_kth. Qed.
Print Assumptions C15_history_kth_is_single_value.

Theorem C15_history_pointwise :
  forall (C : crypto) (s : det_state) (h : list hval),
  history_traces C s h = map (value_trace C (ds_has_cb s) (ds_cb_err s)) h.
Proof. exact history_traces_pointwise. Qed.
Print Assumptions C15_history_pointwise.

(** a history can be cut anywhere: the traces after the cut do not depend on what precedes it *)
Theorem C15_history_cut :
  forall (C : crypto) (s : det_state) (h1 h2 : list hval),
  history_traces C s (h1 ++ h2) = history_traces C s h1 ++ history_traces C s h2.
Proof. exact history_traces_app. Qed.
Print Assumptions C15_history_cut.

(** callback runs of a whole history = sum of the per-value counts (what the harness counts per value) *)
Theorem C15_history_callback_count :
  forall (C : crypto) (s : det_state) (h : list hval),
  count_callback_events (concat (history_traces C s h))
  = list_sum (map (fun v => count_callback_events (value_trace C (ds_has_cb s) (ds_cb_err s) v)) h).
Proof. exact history_callback_count. Qed.
Print Assumptions C15_history_callback_count.

(** detection at EVERY position of EVERY history: a column value holding an envelope which a poison key of the keystore
    at that time opens (any offset after a quiet prefix, any suffix): callback runs, then the one final event *)
Theorem C15_history_detects_column :
  forall (C : crypto) (s : det_state) (h : list hval) (k : nat) (pk : poison_keys) (ks : keyset)
         (p v sfx : bytes) (id : byte) (inner d : bytes),
  ds_has_cb s = true ->
  nth_error h k = Some (HVColumn pk ks (p ++ v ++ sfx)) ->
  is_envelope id inner v -> poison_opens C pk (v ++ sfx) = Ok d -> quiet p (v ++ sfx) ->
  exists n fin, nth_error (history_traces C s h) k = Some (repeat Callback (S n) ++ [fin]) /\ is_final fin.
Proof. exact history_detects_column. Qed.
Print Assumptions C15_history_detects_column.

Theorem C15_history_detects_envelope :
  forall (C : crypto) (s : det_state) (h : list hval) (k : nat) (pk : poison_keys) (c d : bytes),
  ds_has_cb s = true ->
  nth_error h k = Some (HVEnvelope pk c) -> poison_opens C pk c = Ok d ->
  nth_error (history_traces C s h) k = Some [Callback; if ds_cb_err s then Abort else Deliver c].
Proof. exact history_detects_envelope. Qed.
Print Assumptions C15_history_detects_envelope.

Theorem C15_history_detects_translator :
  forall (C : crypto) (s : det_state) (h : list hval) (k : nat) (id : byte) (ks : keyset) (pk : poison_keys)
         (p v sfx : bytes) (eid : byte) (inner d : bytes) (e : N),
  ds_has_cb s = true ->
  nth_error h k = Some (HVTranslate id ks pk (p ++ v ++ sfx)) ->
  decrypt_with_handler C id ks (p ++ v ++ sfx) = Err e ->
  is_envelope eid inner v -> poison_opens C pk (v ++ sfx) = Ok d -> quiet p (v ++ sfx) ->
  exists evs, nth_error (history_traces C s h) k = Some (Callback :: evs ++ [Abort]).
Proof. exact history_detects_translator. Qed.
Print Assumptions C15_history_detects_translator.

(** no false alarm at any position, without assuming unforgeability: a callback run for the k-th value exhibits bytes of
    THAT value which a poison key of the keystore at THAT time opens (reduction form), and conversely a value no poison
    key opens is quiet - whatever the prefix *)
Theorem C15_history_alarm_has_witness :
  forall (C : crypto) (s : det_state) (h : list hval) (k : nat) (v : hval) (t : list event),
  nth_error h k = Some v -> nth_error (history_traces C s h) k = Some t -> In Callback t ->
  value_has_poison C v.
Proof. exact history_alarm_has_witness. Qed.
Print Assumptions C15_history_alarm_has_witness.

Theorem C15_history_no_false_alarm :
  forall (C : crypto) (s : det_state) (h : list hval) (k : nat) (v : hval) (t : list event),
  nth_error h k = Some v -> nth_error (history_traces C s h) k = Some t ->
  ~ value_has_poison C v -> ~ In Callback t.
Proof. exact history_no_false_alarm. Qed.
Print Assumptions C15_history_no_false_alarm.

(** every trace of every history: callback runs first, then exactly one final event (delivery or abort) *)
Theorem C15_history_trace_shape :
  forall (C : crypto) (s : det_state) (h : list hval) (k : nat) (t : list event),
  nth_error (history_traces C s h) k = Some t -> exists ev fin, t = ev ++ [fin] /\ is_final fin.
Proof. exact history_trace_shape. Qed.
Print Assumptions C15_history_trace_shape.

(** * non-vacuity on concrete values (stand-in crypto) *)
From Acra Require Import Crypto.Stub.
Definition hx_tape_as : list bytes := [repeat_bytes x01 32; repeat_bytes x02 32; repeat_bytes x03 12; repeat_bytes x04 12].
Definition hx_tape_ab : list bytes := [repeat_bytes x01 32; repeat_bytes x03 12; repeat_bytes x04 12].
Definition hx_seed := repeat_bytes x09 32.
Definition hx_sym := repeat_bytes x0a 32.
Definition hx_data : bytes := [x70; x6f; x69; x73; x6f; x6e].
Definition hx_client := Build_keyset (Some (pub_of Stub (repeat_bytes x0b 32))) [priv_of Stub (repeat_bytes x0b 32)] [repeat_bytes x0c 32] None.
Definition hx_other := Build_keyset (Some (pub_of Stub (repeat_bytes x1b 32))) [priv_of Stub (repeat_bytes x1b 32)] [repeat_bytes x1c 32] None.
(** provisioning states of the keystore *)
Definition hx_pk_none := Build_poison_keys [] [].
Definition hx_pk_pair := Build_poison_keys [priv_of Stub hx_seed] [].
Definition hx_pk_sym := Build_poison_keys [] [hx_sym].
Definition hx_pk_both := Build_poison_keys [priv_of Stub (repeat_bytes x0d 32); priv_of Stub hx_seed] [repeat_bytes x0e 32; hx_sym].
Definition hx_rec_as : bytes := Eval vm_compute in
  match create_poison_record Stub (pub_of Stub hx_seed) hx_data hx_tape_as with Ok v => v | _ => [] end.
Definition hx_rec_ab : bytes := Eval vm_compute in
  match create_sym_poison_record Stub hx_sym hx_data hx_tape_ab with Ok v => v | _ => [] end.
Definition hx_client_ab : bytes := Eval vm_compute in
  match encrypt_with_handler Stub ENVELOPE_ID_ACRABLOCK hx_client hx_tape_ab hx_data with Ok v => v | _ => [] end.
Definition hx_other_as : bytes := Eval vm_compute in
  match encrypt_with_handler Stub ENVELOPE_ID_ACRASTRUCT hx_other hx_tape_as hx_data with Ok v => v | _ => [] end.
Definition hx_pre : bytes := [x61; x62; x63].
Definition hx_on := {| ds_has_cb := true; ds_cb_err := false |}.

(** only the poison key pair is provisioned; the connection first delivers an ordinary AcraBlock of its client (decrypted,
    quiet), an AcraStruct of another client (left alone, quiet), garbage; the AcraStruct poison record that follows -
    alone, embedded, or given to the translator - raises the alarm; the AcraBlock record (no such key) stays quiet *)
Example C15_history_one_kind_provisioned :
  history_traces Stub hx_on
    [HVColumn hx_pk_pair hx_client hx_client_ab;
     HVColumn hx_pk_pair hx_client hx_other_as;
     HVColumn hx_pk_pair hx_client (repeat_bytes x25 40);
     HVColumn hx_pk_pair hx_client hx_rec_as;
     HVEnvelope hx_pk_pair hx_client_ab;
     HVEnvelope hx_pk_pair hx_rec_as;
     HVTranslate ENVELOPE_ID_ACRABLOCK hx_client hx_pk_pair hx_other_as;
     HVTranslate ENVELOPE_ID_ACRASTRUCT hx_other hx_pk_pair (hx_pre ++ hx_rec_as);
     HVColumn hx_pk_pair hx_client (hx_pre ++ hx_rec_ab ++ hx_pre ++ hx_rec_as)]
  = [[Deliver hx_data];
     [Deliver hx_other_as];
     [Deliver (repeat_bytes x25 40)];
     [Callback; Deliver hx_rec_as];
     [Deliver hx_client_ab];
     [Callback; Deliver hx_rec_as];
     [Abort];
     [Callback; Abort];
     [Callback; Deliver (hx_pre ++ hx_rec_ab ++ hx_pre ++ hx_rec_as)]].
Proof. vm_compute. reflexivity. Qed.

(** the mirror image (only the symmetric poison key), and keys arriving in the middle of the history: the same record
    is quiet before its key is provisioned and raises the alarm afterwards; a rotated key (second of its list) still does *)
Example C15_history_keys_arrive_later :
  history_traces Stub hx_on
    [HVColumn hx_pk_sym hx_client hx_other_as;
     HVColumn hx_pk_sym hx_client (hx_pre ++ hx_rec_ab);
     HVColumn hx_pk_sym hx_client hx_rec_as;
     HVColumn hx_pk_none hx_client hx_rec_ab;
     HVColumn hx_pk_both hx_client hx_rec_as;
     HVColumn hx_pk_both hx_client hx_rec_ab]
  = [[Deliver hx_other_as];
     [Callback; Deliver (hx_pre ++ hx_rec_ab)];
     [Deliver hx_rec_as];
     [Deliver hx_rec_ab];
     [Callback; Deliver hx_rec_as];
     [Callback; Deliver hx_rec_ab]].
Proof. vm_compute. reflexivity. Qed.

(** the premises of the detection theorems are satisfiable in the middle of a history *)
Example C15_history_premises_satisfiable :
  exists d e, poison_opens Stub hx_pk_pair (hx_rec_as ++ hx_pre) = Ok d /\
  decrypt_with_handler Stub ENVELOPE_ID_ACRASTRUCT hx_other (hx_pre ++ hx_rec_as) = Err e /\
  ~ value_has_poison Stub (HVEnvelope hx_pk_pair hx_client_ab).
Proof.
  exists hx_data. eexists. split; [vm_compute; reflexivity|]. split; [vm_compute; reflexivity|].
  intros [d H]. vm_compute in H. discriminate H.
Qed.

(** history independence is a statement that can fail: a detector of the same type that remembers ONE flag "the keystore
    had no such poison keys" (a negative cache; the answer is per envelope kind, the flag is not) is refuted by the
    two-value history above - ordinary AcraBlock, then the AcraStruct poison record *)
Theorem C15_history_negative_cache_refuted :
  exists (s : det_state * bool), ~ history_independent (cached_machine Stub) s.
Proof.
  exists (hx_on, false). intros H.
  specialize (H [HVEnvelope hx_pk_pair hx_client_ab] (HVEnvelope hx_pk_pair hx_rec_as)).
  vm_compute in H. discriminate H.
Qed.
Print Assumptions C15_history_negative_cache_refuted.
