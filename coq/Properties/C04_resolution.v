(** C04, statement analysis: which table/column every written value and every result column belongs to.

    The model (Model/ColumnResolve.v) is the sqlparser-based analysis of encryptor/mysql (the FIXED code:
    patches/fix_mysql_column_resolution.diff) over the generic tree form of the REAL ASTs; the specification
    (Model/ColumnResolveSpec.v) is a short statement of SQL name resolution over the same trees.  Theorems are
    for ALL trees, configurations and dialects of sqlparser; the model is tied to the code by domain c04col. *)
From Coq Require Import String.
From Coq Require Import List Bool NArith ZArith Arith.
From Acra Require Import Lib.Bytes Lib.Outcome Model.Proxy.
From Acra Require Import Model.RunColumnResolve Gen.ColumnResolveWitness Model.ColumnResolveAbstract.
From Acra Require Import Proofs.ColumnResolveBase Proofs.ColumnResolveWrite Proofs.ColumnResolveTotal Proofs.ColumnResolveAbstract Proofs.ColumnResolveRead Proofs.ColumnResolveBind.
Import ListNotations.


(** the generated kind / field schema knows every field the model names *)
Theorem C04_resolution_schema_ok : fields_known = true.
Proof. vm_compute. reflexivity. Qed.
Print Assumptions C04_resolution_schema_ok.

(** * (1) value positions, text protocol (OnQuery of the encrypting instance)

    [write_regular]: what holds for a statement the database accepts (UPDATE: a plain table is updated, the tables
    are visible under distinct names, an unqualified SET target is a column of one updated table only).
    SOUNDNESS: whatever is handed to the encryptor / registered as a placeholder is a value position the
    specification assigns to a configured column, with that column's setting: nothing else is touched. *)
Theorem C04_resolution_nothing_else_touched :
  forall d cfg t evs,
    impl_write d cfg t = Ok evs -> write_regular d cfg t ->
    (forall p s, In (SLit p s) evs -> In (p, s) (spec_lits d cfg t)) /\
    (forall i s, In (SBind i s) evs -> In (i, s) (spec_phs d cfg t)).
Proof. exact write_nothing_else. Qed.
Print Assumptions C04_resolution_nothing_else_touched.

(** COMPLETENESS (fail closed): every value position the specification assigns to a configured column is selected -
    every placeholder, and every literal unless it is a FLOAT literal (or an E'..' string of the PostgreSQL
    dialect); INSERT .. SELECT is outside (both: known findings, refuted below). *)
Theorem C04_resolution_fail_closed :
  forall d cfg t evs,
    impl_write d cfg t = Ok evs -> write_regular d cfg t -> no_insert_select t ->
    (no_gap_literals d cfg t -> forall p s, In (p, s) (spec_lits d cfg t) -> In (SLit p s) evs) /\
    (forall i s, In (i, s) (spec_phs d cfg t) -> In (SBind i s) evs).
Proof. exact write_fail_closed. Qed.
Print Assumptions C04_resolution_fail_closed.

(** the exact result: the literals in call order / the placeholders in order are the specification restricted to
    the literal types the implementation handles and without INSERT .. SELECT *)
Theorem C04_resolution_write_exact :
  forall d cfg t evs,
    impl_write d cfg t = Ok evs -> write_regular d cfg t ->
    lits_of evs = spec_lits_gen d cfg enc_type false t /\ phs_of evs = spec_phs_gen d cfg false t.
Proof. exact impl_write_spec. Qed.
Print Assumptions C04_resolution_write_exact.

(** bound values (OnBind of the encrypting instance; an error = no parameter is processed): the parameters that are
    encrypted are placeholders the specification assigns to configured columns, with that column's setting, and
    every such placeholder is encrypted (with the setting of a column it is the value of) *)
Theorem C04_resolution_bound_parameters :
  forall d cfg t n l,
    impl_bind d cfg t n = Ok l -> write_regular d cfg t ->
    (forall i s, In (i, s) l -> In (i, s) (spec_phs d cfg t)) /\
    (no_insert_select t -> forall i s, In (i, s) (spec_phs d cfg t) -> exists s', In (i, s') l).
Proof.
  intros d cfg t n l H Hr. destruct (impl_bind_spec d cfg t n l H Hr) as [Hs Hc]. split.
  - intros i s Hin. apply spec_phs_gen_incl. exact (Hs i s Hin).
  - intros Hsel i s Hin. apply (Hc i s). rewrite (spec_phs_gen_eq d cfg t Hsel). exact Hin.
Qed.
Print Assumptions C04_resolution_bound_parameters.

(** known finding float-literal-not-protected *)
Theorem C04_resolution_float_literal_refuted :
  exists d cfg t evs p s,
    impl_write d cfg t = Ok evs /\ write_regular d cfg t /\ no_insert_select t /\
    In (p, s) (spec_lits d cfg t) /\ ~ In (SLit p s) evs.
Proof.
  exists (DMysql false), W_CFG, W_FLOAT, [], [7; 0; 0]%nat, 0%N.
  split; [vm_compute; reflexivity|]. split; [intro H; vm_compute in H; discriminate|].
  split; [intros _; vm_compute; reflexivity|]. split; [vm_compute; left; reflexivity|intros []].
Qed.
Print Assumptions C04_resolution_float_literal_refuted.

(** known finding insert-select-literal-not-protected *)
Theorem C04_resolution_insert_select_refuted :
  exists d cfg t evs p s,
    impl_write d cfg t = Ok evs /\ write_regular d cfg t /\ no_gap_literals d cfg t /\
    In (p, s) (spec_lits d cfg t) /\ ~ In (SLit p s) evs.
Proof.
  exists (DMysql false), W_CFG, W_INSERT_SELECT, [], [7; 4; 0; 0]%nat, 0%N.
  split; [vm_compute; reflexivity|]. split; [intro H; vm_compute in H; discriminate|].
  split.
  - intros vp Hin. vm_compute in Hin. destruct Hin as [<-|[]]. vm_compute. reflexivity.
  - split; [vm_compute; left; reflexivity|intros []].
Qed.
Print Assumptions C04_resolution_insert_select_refuted.

(** * (3) totality: no entry point panics on a well-shaped tree *)
Theorem C04_resolution_total :
  forall d cfg t n, wf t = true ->
    impl_write d cfg t <> Panic /\ impl_bind d cfg t n <> Panic /\ impl_read d cfg t <> Panic.
Proof.
  intros d cfg t n Hw. split; [apply impl_write_total; exact Hw|].
  split; [apply impl_bind_total; exact Hw|apply impl_read_total; exact Hw].
Qed.
Print Assumptions C04_resolution_total.

(** * non-vacuity: real parser trees (Gen/ColumnResolveWitness.v) *)


(** the implementation's result is the specification's (the alias field aside) *)
Definition item_eqb (a b : option (N * bytes * bytes)) : bool :=
  match a, b with
  | None, None => true
  | Some (s1, t1, c1), Some (s2, t2, c2) => N.eqb s1 s2 && bytes_eqb t1 t2 && bytes_eqb c1 c2
  | _, _ => false
  end.
Fixpoint items_eqb (a b : list (option (N * bytes * bytes))) : bool :=
  match a, b with
  | [], [] => true
  | x :: a', y :: b' => item_eqb x y && items_eqb a' b'
  | _, _ => false
  end.
Definition strip_ok (r : res rout) (s : option (list (option (N * bytes * bytes)))) : bool :=
  match r, s with
  | Ok (RItems l), Some l' => items_eqb (strip l) l'
  | _, _ => false
  end.

(** insert into t (c, B, A) values ('x', 'y', ('z')), (?, 5, _binary 'w') on duplicate key update T.c = 'v', a = ? *)
Example ex_insert :
  wf W_INSERT = true /\ write_regular (DMysql false) W_CFG W_INSERT /\ no_insert_select W_INSERT /\
  impl_write (DMysql false) W_CFG W_INSERT =
    Ok [SLit [7; 0; 0] 1; SLit [7; 0; 2; 0] 0; SBind 0 1; SLit [7; 1; 2; 1] 0; SLit [8; 0; 1] 1; SBind 1 0]%nat /\
  spec_lits (DMysql false) W_CFG W_INSERT = [([7; 0; 0], 1%N); ([7; 0; 2; 0], 0%N); ([7; 1; 2; 1], 0%N); ([8; 0; 1], 1%N)]%nat /\
  spec_phs (DMysql false) W_CFG W_INSERT = [(0%Z, 1%N); (1%Z, 0%N)] /\
  impl_bind (DMysql false) W_CFG W_INSERT 2 = Ok [(0%Z, 1%N); (1%Z, 0%N)].
Proof.
  split; [vm_compute; reflexivity|]. split; [intro H; vm_compute in H; discriminate|].
  split; [intros _; vm_compute; reflexivity|]. repeat split; vm_compute; reflexivity.
Qed.

(** insert into T values (1, 'a', 'b', 'c'), (2, 'd', 'e'): the order of the schema's columns, a short tuple *)
Example ex_insert_schema_order :
  impl_write (DMysql false) W_CFG W_INSERT_NOCOLS = Ok [SLit [7; 0; 1] 0; SLit [7; 0; 3] 1; SLit [7; 1; 1] 0]%nat /\
  spec_lits (DMysql false) W_CFG W_INSERT_NOCOLS = [([7; 0; 1], 0%N); ([7; 0; 3], 1%N); ([7; 1; 1], 0%N)]%nat.
Proof. split; vm_compute; reflexivity. Qed.

(** update w join t as X on w.id = X.id set c = 'secret', X.a = ?, w.a = 'plain' where w.id = 5 *)
Example ex_update :
  wf W_UPDATE = true /\ write_regular (DMysql false) W_CFG W_UPDATE /\
  impl_write (DMysql false) W_CFG W_UPDATE = Ok [SLit [2; 0; 1] 1; SBind 0 0]%nat /\
  spec_lits (DMysql false) W_CFG W_UPDATE = [([2; 0; 1], 1%N)]%nat /\
  spec_phs (DMysql false) W_CFG W_UPDATE = [(0%Z, 0%N)] /\
  impl_bind (DMysql false) W_CFG W_UPDATE 1 = Ok [(0%Z, 0%N)].
Proof.
  split; [vm_compute; reflexivity|]. split.
  - intros _. unfold update_regular. split; [vm_compute; discriminate|]. split.
    + vm_compute. repeat constructor; cbn; intuition discriminate.
    + intros e He. vm_compute in He. destruct He as [<-|[<-|[<-|[]]]]; vm_compute; auto.
  - repeat split; vm_compute; reflexivity.
Qed.

(** * (2) result columns

    [read_supported d t]: a SELECT over a list of plain tables (FROM t1 [AS a1], t2 [AS a2], ..: visible under
    distinct non-empty names) whose select items are column references (qualified or not, with or without alias),
    `*`, `tbl.*` / `alias.*` or other expressions (no scalar sub-select).  Whenever the specification knows the
    number of result columns (every star ranges over tables with a column list), the implementation returns one
    entry per result column and the entry at every position is the setting of the configured column the
    specification finds there - none elsewhere ([strip] drops the alias field of the entries).
    Joins, sub-selects and RETURNING are tied to the specification by the replay of domain c04col (and the examples
    below); where the implementation deviates: the known findings refuted below. *)
Theorem C04_resolution_result_columns :
  forall d cfg t l,
    read_supported d t = true -> spec_result d cfg t = Some l ->
    exists l', impl_read d cfg t = Ok (RItems l') /\ strip l' = l.
Proof. exact read_select_spec. Qed.
Print Assumptions C04_resolution_result_columns.

(** select X.a as r, c, 1, t.* from t as X, t where X.id = 3 *)
Example ex_result_columns :
  read_supported (DMysql false) W_SELECT = true /\
  spec_result (DMysql false) W_CFG W_SELECT =
    Some [Some (0%N, hb 0x174, hb 0x161); None; None; None; Some (0%N, hb 0x174, hb 0x161); None; Some (1%N, hb 0x174, hb 0x163)].
Proof. split; vm_compute; reflexivity. Qed.

(** known finding read-star-unknown-column-count: select w.*, t.a from w join t on w.id = t.id - the specification
    cannot know the number of result columns, the implementation commits to position 1 for t.a *)
Theorem C04_resolution_star_unknown_refuted :
  exists d cfg t l,
    wf t = true /\ spec_result d cfg t = None /\ impl_read d cfg t = Ok (RItems l) /\
    nth_error (strip l) 1 = Some (Some (0%N, hb 0x174, hb 0x161)).
Proof. exists (DMysql false), W_CFG, W_STAR_UNKNOWN. eexists. repeat split; vm_compute; reflexivity. Qed.
Print Assumptions C04_resolution_star_unknown_refuted.

(** known finding read-join-unqualified-column: select d from t join u on t.id = u.id *)
Theorem C04_resolution_join_unqualified_refuted :
  spec_result (DMysql false) W_CFG W_JOIN_UNQUALIFIED = Some [Some (100%N, hb 0x175, hb 0x164)] /\
  impl_read (DMysql false) W_CFG W_JOIN_UNQUALIFIED = Ok (RItems [None]).
Proof. split; vm_compute; reflexivity. Qed.
Print Assumptions C04_resolution_join_unqualified_refuted.

(** known finding read-derived-table, four shapes; the specification gives t.a (setting 0) each time *)
Theorem C04_resolution_derived_unqualified_refuted :
  spec_result (DMysql false) W_CFG W_DERIVED_UNQUALIFIED = Some [Some (0%N, hb 0x174, hb 0x161)] /\
  impl_read (DMysql false) W_CFG W_DERIVED_UNQUALIFIED = Ok (RItems [None]).
Proof. split; vm_compute; reflexivity. Qed.
Print Assumptions C04_resolution_derived_unqualified_refuted.

Theorem C04_resolution_derived_with_star_refuted :
  spec_result (DMysql false) W_CFG W_DERIVED_WITH_STAR = Some [Some (0%N, hb 0x174, hb 0x161)] /\
  impl_read (DMysql false) W_CFG W_DERIVED_WITH_STAR = Ok (RItems [None]).
Proof. split; vm_compute; reflexivity. Qed.
Print Assumptions C04_resolution_derived_with_star_refuted.

Theorem C04_resolution_derived_star_over_refuted :
  spec_result (DMysql false) W_CFG W_STAR_OVER_DERIVED = Some [Some (0%N, hb 0x174, hb 0x161)] /\
  impl_read (DMysql false) W_CFG W_STAR_OVER_DERIVED = Err E_NOTFOUND.
Proof. split; vm_compute; reflexivity. Qed.
Print Assumptions C04_resolution_derived_star_over_refuted.

Theorem C04_resolution_derived_inner_alias_refuted :
  spec_result (DMysql false) W_CFG W_DERIVED_INNER_ALIAS = Some [Some (0%N, hb 0x174, hb 0x161)] /\
  impl_read (DMysql false) W_CFG W_DERIVED_INNER_ALIAS = Ok (RItems [None]).
Proof. split; vm_compute; reflexivity. Qed.
Print Assumptions C04_resolution_derived_inner_alias_refuted.

(** result columns where implementation and specification agree: aliases, qualified names, stars, joins, a derived table *)
Example ex_select :
  strip_ok (impl_read (DMysql false) W_CFG W_SELECT) (spec_result (DMysql false) W_CFG W_SELECT) = true /\
  strip_ok (impl_read (DMysql false) W_CFG W_SELECT_JOIN) (spec_result (DMysql false) W_CFG W_SELECT_JOIN) = true /\
  strip_ok (impl_read (DMysql false) W_CFG W_SELECT_DERIVED) (spec_result (DMysql false) W_CFG W_SELECT_DERIVED) = true /\
  strip_ok (impl_read (DMysql false) W_CFG W_RETURNING) (spec_result (DMysql false) W_CFG W_RETURNING) = true /\
  spec_result (DMysql false) W_CFG W_SELECT_JOIN =
    Some [None; Some (0%N, hb 0x174, hb 0x161); None; Some (1%N, hb 0x174, hb 0x163); None; Some (100%N, hb 0x175, hb 0x164);
          Some (100%N, hb 0x175, hb 0x164); Some (0%N, hb 0x174, hb 0x161)].
Proof. repeat split; vm_compute; reflexivity. Qed.

(** * (4) composition with the abstract C04 model (Model/Proxy.v; Properties/C04.v, C04_mysql.v)

    The session model takes an abstract statement ([Proxy.stmt]) and an abstract configuration and protects the
    values of an INSERT with the column parameters [Proxy.insert_columns], those of an UPDATE with
    [Proxy.col_setting].  For every tree of the shapes that model covers, [abstract_of d t] is its abstract
    statement, and those column parameters are exactly [cc sid] for the setting sid the statement analysis selects
    for the literal at the same position (and CPlain / nothing where it selects none; an empty literal is left
    alone by both). *)
Theorem C04_resolution_composes_insert :
  forall d cfg cc t tbl cols rows ret evs,
    cfg_regular cfg ->
    abstract_of d t = Some (Insert tbl cols rows ret) ->
    impl_write d cfg t = Ok evs ->
    match insert_columns (to_proxy_cfg cc cfg) tbl cols with
    | None => evs = []
    | Some ccs =>
        exists col_sid : nat -> option N,
          (forall j, nth j ccs CPlain = match col_sid j with Some sid => cc sid | None => CPlain end) /\
          (forall i row j v, nth_error rows i = Some row -> nth_error row j = Some v ->
             forall sid, In (SLit [fnum K_Insert "Rows"; i; j] sid) evs <-> (v <> [] /\ col_sid j = Some sid))
    end.
Proof. exact composes_insert. Qed.
Print Assumptions C04_resolution_composes_insert.

Theorem C04_resolution_composes_update :
  forall d cfg cc t tbl sets whr ret evs,
    cfg_regular cfg ->
    abstract_of d t = Some (Update tbl sets whr ret) ->
    impl_write d cfg t = Ok evs ->
    forall k c v, nth_error sets k = Some (c, v) ->
      Proxy.col_setting (to_proxy_cfg cc cfg) tbl c =
        match get_schema cfg tbl with Some s => col_cc cc s c | None => CPlain end /\
      forall sid, In (SLit [fnum K_Update "Exprs"; k; fnum K_UpdateExpr "Expr"] sid) evs <->
        (v <> [] /\ exists s, get_schema cfg tbl = Some s /\ col_setting s c = Some sid).
Proof. exact composes_update. Qed.
Print Assumptions C04_resolution_composes_update.

(** insert into t (c, b, a) values ('x', 'y', 'z'), ('', 'v', 'w') returning a, *   /   update t set a = 'p', b = 'q' *)
Example ex_abstract :
  cfg_regular W_CFG /\
  abstract_of (DMysql false) W_ABSTRACT_INSERT =
    Some (Insert (hb 0x174) (Some [hb 0x163; hb 0x162; hb 0x161]) [[hb 0x178; hb 0x179; hb 0x17a]; [[]; hb 0x176; hb 0x177]] [SCol (hb 0x161); SStar]) /\
  impl_write (DMysql false) W_CFG W_ABSTRACT_INSERT = Ok [SLit [7; 0; 0] 1; SLit [7; 0; 2] 0; SLit [7; 1; 2] 0]%nat /\
  insert_columns (to_proxy_cfg (fun sid => CProt x00 None) W_CFG) (hb 0x174) (Some [hb 0x163; hb 0x162; hb 0x161]) =
    Some [CProt x00 None; CPlain; CProt x00 None] /\
  abstract_of (DMysql false) W_ABSTRACT_UPDATE = Some (Update (hb 0x174) [(hb 0x161, hb 0x170); (hb 0x162, hb 0x171)] None []) /\
  impl_write (DMysql false) W_CFG W_ABSTRACT_UPDATE = Ok [SLit [2; 0; 1] 0]%nat.
Proof.
  split.
  - split.
    + vm_compute. repeat constructor; cbn; intuition congruence.
    + intros s Hs c sid Hc. apply Proofs.ColumnResolveBase.lookup_last_in in Hc.
      vm_compute in Hs. destruct Hs as [<-|[<-|[]]]; vm_compute in Hc.
      * destruct Hc as [Hc|[Hc|[]]]; inversion Hc; subst; vm_compute; tauto.
      * destruct Hc as [Hc|[]]; inversion Hc; subst; vm_compute; tauto.
  - repeat split; vm_compute; reflexivity.
Qed.
