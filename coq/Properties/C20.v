(** C20 — The audit-log chain verifies when intact and fails when altered.
    Only statements, closed by [exact], and their assumptions.  SHA-256 / HMAC-SHA-256 are the
    executable functions of Lib/Sha256.v; nothing is assumed about them: every tamper claim is a
    reduction to an explicit [sha_collision] (two distinct inputs, equal SHA-256 output) or, where
    the attacker changes the NUMBER of entries, to an explicit [sha_fixed_point].
    Model = acra with patches/fix_auditlog_last_token.diff (parser cuts at the last token). *)
From Acra Require Import Lib.Bytes Lib.Outcome Lib.Sha256 Gen.AuditLogConsts Model.AuditLog
  Proofs.AuditLogCrypto Proofs.AuditLogParse Proofs.AuditLog Proofs.AuditLogWitness.
(* the replay module belongs to the cone of this property (rebuilt with it by ./check --tier thorough) *)
From Acra Require Model.RunAuditLog.

(** what the plaintext / CEF hook writes is parsed back exactly, for EVERY body (it may contain
    the token, quotes, look-alike fields …) and every non-empty check *)
Theorem C20_line_roundtrip :
  forall (cef : bool) (body agg : bytes) (nc : bool), agg <> [] ->
  parse_text cef (body ++ suffix_of agg nc) = POk (mk_parsed body agg nc (end_marked body)).
Proof. exact parse_honest. Qed.
Print Assumptions C20_line_roundtrip.

(** every history of formatted entries (arbitrary bytes) and key resets that satisfies the decidable
    side condition [wf_evs] (entries at least as long as the hook's truncation; resets with the
    verifier's key, after an end-marked entry — what AuditLogHandler guarantees) verifies *)
Theorem C20_honest_log_verifies :
  forall (cef : bool) (K : bytes) (evs : list wev) (chunks : list bytes),
  write_text cef (calc_new K) evs = Ok chunks -> wf_evs cef K None evs = true ->
  verify_lines cef K (map unnl chunks) = VAccept.
Proof. exact honest_log_verifies. Qed.
Print Assumptions C20_honest_log_verifies.

(** … and that side condition is all that is needed for the writer not to fail *)
Theorem C20_wf_history_is_written :
  forall (cef : bool) (K : bytes) (evs : list wev) (last : option bool) (c : calc),
  wf_evs cef K last evs = true -> exists chunks, write_text cef c evs = Ok chunks.
Proof. exact wf_evs_write_ok. Qed.
Print Assumptions C20_wf_history_is_written.

(** tampering, general form at log level: after any honest prefix that ends inside a chain, replace
    the next entry [x] by ANY lines [M] (none = deletion, an edited line with any integrity value,
    copies, other entries …) and keep [x]'s honest successor [y]: verification fails no later than
    at [y], or the verifier reaches [y] in exactly the writer's state, or SHA-256 collides *)
Theorem C20_tamper_detected_by_next :
  forall (cef : bool) (K : bytes) (evsP : list wev) (chunksP : list bytes) (xb yb : bytes) (M R : list bytes),
  write_text cef (calc_new K) evsP = Ok chunksP -> wf_evs cef K None evsP = true ->
  let c := wstate cef (calc_new K) evsP in
  let x := append_integrity c xb in
  let y := append_integrity (snd x) yb in
  first_check c = false ->
  detected_by (verify_lines cef K (map unnl chunksP ++ M ++ fst y :: R)) (length chunksP + length M)
  \/ (exists st', vrun K (mk_vstate c (wlast cef None evsP)) (map (line_pres (parse_text cef)) M) = Some st'
                  /\ v_calc st' = snd x)
  \/ sha_collision.
Proof. exact tamper_detected_by_next. Qed.
Print Assumptions C20_tamper_detected_by_next.

(** the same for any verifier state and any format (parsed lines; used for JSON as well) *)
Theorem C20_tamper_detected_by_next_parsed :
  forall K st i (M : list pres) (py : parsed) (R : list pres) (c : calc) (xb yb : bytes),
  keylen st -> length (ck c) = 32 ->
  let c1 := snd (calc_step c xb) in
  p_new py = false -> p_raw py = yb -> p_integ py = fst (fst (calc_step c1 yb)) ->
  detected_by (verify_pres K st i (M ++ POk py :: R)) (i + length M)
  \/ (exists st', vrun K st M = Some st' /\ v_calc st' = c1)
  \/ sha_collision.
Proof. exact tamper_detected_by_next_gen. Qed.
Print Assumptions C20_tamper_detected_by_next_parsed.

(** named manipulations, verifier in the writer's state [c] before [x] *)
Theorem C20_deleted_or_swapped_entry_detected :
  forall K st i py R c xb yb,
  v_calc st = c -> length (ck c) = 32 ->
  p_new py = false -> p_raw py = yb -> p_integ py = fst (fst (calc_step (snd (calc_step c xb)) yb)) ->
  detected_by (verify_pres K st i (POk py :: R)) i \/ sha_collision \/ sha_fixed_point.
Proof. exact deleted_entry_detected. Qed.
Print Assumptions C20_deleted_or_swapped_entry_detected.

Theorem C20_edited_entry_detected :
  forall K st i (px : parsed) py R c xb yb,
  v_calc st = c -> length (ck c) = 32 -> p_new px = false ->
  p_new py = false -> p_raw py = yb -> p_integ py = fst (fst (calc_step (snd (calc_step c xb)) yb)) ->
  detected_by (verify_pres K st i (POk px :: POk py :: R)) (S i) \/ p_raw px = xb \/ sha_collision.
Proof. exact edited_entry_detected. Qed.
Print Assumptions C20_edited_entry_detected.

Theorem C20_duplicated_entry_detected :
  forall K st i (px : parsed) py R c xb yb,
  v_calc st = c -> length (ck c) = 32 -> p_new px = false ->
  p_new py = false -> p_raw py = yb -> p_integ py = fst (fst (calc_step (snd (calc_step c xb)) yb)) ->
  detected_by (verify_pres K st i (POk px :: POk px :: POk py :: R)) (S (S i)) \/ sha_collision \/ sha_fixed_point.
Proof. exact duplicated_entry_detected. Qed.
Print Assumptions C20_duplicated_entry_detected.

Theorem C20_edit_keeping_check_detected_at_once :
  forall K st st' (px : parsed) c xb,
  v_calc st = c -> length (ck c) = 32 -> p_new px = false ->
  p_integ px = fst (fst (calc_step c xb)) ->
  verify_step K st px = inl st' -> p_raw px = xb \/ sha_collision.
Proof. exact edit_keeping_check_detected_at_once. Qed.
Print Assumptions C20_edit_keeping_check_detected_at_once.

Theorem C20_wrong_key_detected_at_first_entry :
  forall K K' (body : bytes) (e : bool) st',
  verify_step K' (vinit K') (mk_parsed body (fst (fst (calc_step (calc_new K) body))) true e) = inl st' ->
  K' = K \/ sha_collision.
Proof. exact wrong_key_detected_at_first_entry. Qed.
Print Assumptions C20_wrong_key_detected_at_first_entry.

(** the reductions rest on these two facts about the executable functions *)
Theorem C20_hmac_collision_gives_sha_collision :
  forall k1 k2 m1 m2 : bytes, length k1 = 32 -> length k2 = 32 ->
  hmac_sha256 k1 m1 = hmac_sha256 k2 m2 -> (k1 = k2 /\ m1 = m2) \/ sha_collision.
Proof. exact hmac_inj_or_collision. Qed.
Print Assumptions C20_hmac_collision_gives_sha_collision.

(** defects: the parser before the fix (honest log whose body contains the token is rejected at the
    following line; the fixed parser accepts the same log) *)
Theorem C20_body_with_token_refuted :
  exists (K : bytes) (evs : list wev) (chunks : list bytes),
    write_text false (calc_new K) evs = Ok chunks /\ wf_evs false K None evs = true /\
    verify_lines_orig false K (map unnl chunks) = VFail 1 C_MISMATCH /\
    verify_lines false K (map unnl chunks) = VAccept.
Proof. exact body_with_token_refuted. Qed.
Print Assumptions C20_body_with_token_refuted.

(** known finding text-linebreak-in-field-name (recorded, not fixed) *)
Theorem C20_text_linebreak_in_field_name_refuted :
  exists (K : bytes) (evs : list wev) (chunks : list bytes),
    write_text false (calc_new K) evs = Ok chunks /\ wf_evs false K None evs = true /\
    verify_file false K (concat chunks) <> VAccept.
Proof. exact text_linebreak_in_field_name_refuted. Qed.
Print Assumptions C20_text_linebreak_in_field_name_refuted.

(** known finding json-reserved-field (recorded, not fixed) *)
Theorem C20_json_reserved_field_refuted :
  verify_json wK (map JMap (write_json (calc_new wK) ev_json_integrity)) = VFail 0 C_MISMATCH /\
  verify_json wK (map JMap (write_json (calc_new wK) ev_json_chain)) = VFail 0 C_MISMATCH.
Proof. exact json_reserved_field_refuted. Qed.
Print Assumptions C20_json_reserved_field_refuted.

(** non-vacuity: see Proofs/AuditLogWitness.v — [honest_text_example] (a history with the token in
    a message, a field named integrity, a reset: [wf_evs] holds and the log verifies),
    [tamper_examples] (deletion, exchange, duplication, edit, other key on that log: exact verdicts),
    [tamper_premises_example], [honest_json_example]. *)
Example C20_nonvacuous_honest :
  write_text false (calc_new wK) ev_text = Ok ch_text /\ wf_evs false wK None ev_text = true /\
  length ch_text = 5 /\ verify_lines false wK (map unnl ch_text) = VAccept /\
  verify_file false wK (concat ch_text) = VAccept.
Proof. exact honest_text_example. Qed.
