(** C06 (extension x06v1) — keystore v1: rotation keeps old DATA readable, destruction makes exactly
    the data of the chosen key unreadable, what the key listings show; keystore v2: ListKeys succeeds
    on every reachable ring.

    Keystore v1 (Model/KeystoreV1.v, no key cache) composed with the envelope model of C01
    (Model/KeyDataExt.v, [v1_sys NoCache]).  The composition needs more than the refinement of
    Proofs/KeystoreV1.v: the AcraStruct is created with the key in the [.pub] FILE, the reveal side
    reads the PRIVATE files, so the invariant "label of the current .pub file = label of the current
    private file" ([PubEq], for the history directories too) is proved for every operation
    (generate / rotate, destroy current, destroy rotated by index, reads, reset, reopen) under the
    premise of the existing v1 theorems (clock readings that name rotated files strictly increase).

    The recorded class v1-all-keys-fail-without-current is MODELLED, not excluded: the set of
    versions keystore v1 offers is [offered1] = [s_all true] of the specification state (nothing
    while the slot has no current key).  [C06_data_v1_offered_is_spec_offered_while_current] gives
    the exact side condition under which it is the set the property asks for, and
    [C06_data_v1_old_data_unreadable_without_current_refuted] is the witness of the class on data.
    Only statements, closed by [exact]. *)
From Coq Require Import List NArith ZArith Bool Lia.
From Acra Require Import Lib.Bytes Lib.Outcome Lib.Sha256 Crypto.Interface Crypto.Stub Gen.Consts Gen.KeyStates
  Model.KeySpec Model.KeystoreV1 Model.KeystoreV2 Model.Envelope Model.KeyDataExt Model.RunKeyData
  Proofs.Envelope Proofs.EnvelopeHandlers Proofs.RevealReduction Proofs.KeySpec Proofs.KeystoreV1 Proofs.KeystoreV2
  Proofs.RotationData Proofs.RotationDataV1.
Import ListNotations.
Local Open Scope N_scope.
Arguments d_ks {K} _.
Arguments d_vals {K} _.

(** ** the strengthened invariant, all histories of keystore operations (any slot, any kind, incl.
    both destructions): for every key pair slot the current [.pub] file holds the public half of
    the current private key, and the two history directories hold the same versions in the same order *)
Theorem C06_data_v1_pub_label_is_priv_label :
  forall (ops : list kop), increasing_from 0 (clock_readings ops) ->
  forall s : slot, is_pair (fst s) = true ->
    let fs := v_fs (v1_state_after NoCache v1_init ops) in
    f_cur (fs (s, Pub)) = f_cur (fs (s, Priv))
    /\ map snd (f_old (fs (s, Pub))) = map snd (f_old (fs (s, Priv))).
Proof. exact v1_pub_matches_priv. Qed.
Print Assumptions C06_data_v1_pub_label_is_priv_label.

(** one step, every operation: the strengthened relation [R1 = Inv /\ PubEq] is kept and the
    observation is the specification's (hide = true) *)
Theorem C06_data_v1_step_keeps_strengthened_invariant :
  forall (lo : N) (st : v1state) (sp : sstate) (o : kop) (rest : list N),
  R1 lo st sp -> increasing_from lo (clock_readings [o] ++ rest) ->
  exists lo',
    R1 lo' (fst (v1_step NoCache st o)) (fst (spec_step true sp o))
    /\ increasing_from lo' rest
    /\ canon o (snd (v1_step NoCache st o)) = snd (spec_step true sp o).
Proof. exact v1_step_R1. Qed.
Print Assumptions C06_data_v1_step_keeps_strengthened_invariant.

(** ** keystore v1 composed with the envelope layer — EVERY history [pre ++ protect :: post] of
    keystore operations, listings, public-key reads, protects, reveals and searches over all key
    kinds whose clock readings increase: the AcraStruct created with the public key read from the
    [.pub] file after [pre] (version [k], the slot's current one) is, after ANY [post], revealed by
    the decrypt handler fed from GetServerDecryptionPrivateKeys iff version [k] is still offered
    ([offered1]) — up to an explicit other offered version [k'] that opens the container *)
Theorem C06_data_v1_acrastruct_revealed_iff_key_survives :
  forall (C : crypto), Correct C ->
  forall (km : ord -> bytes * bytes) (pre post : list dop) (s : slot) (tape : list bytes) (x sd : bytes) (k : ord),
  fst s = KStoragePair ->
  looks_protected ENVELOPE_ID_ACRASTRUCT x = false -> x <> [] -> (N.of_nat (length x) < MAXMSG)%N ->
  good_as_tape tape -> length sd = SEED_LEN -> km k = keypair C sd ->
  let ops := pre ++ DProtect s tape x :: post in
  increasing_from 0 (clock_readings (kops_of ops)) ->
  s_cur (spec_state_after true s_init (kops_of pre) s) = Some k ->
  let st1 := d_state_after C km (v1_sys NoCache) d1 pre in
  let L := offered1 (spec_state_after true s_init (kops_of ops)) s in
  exists v inner,
    snd (d_step C km (v1_sys NoCache) st1 (DProtect s tape x)) = DB (Ok v) /\ v = sc_layout inner ENVELOPE_ID_ACRASTRUCT /\
    let out := snd (d_step C km (v1_sys NoCache) (d_state_after C km (v1_sys NoCache) d1 ops)
                      (DReveal s (length (d_vals st1)))) in
    (In k L -> out = DB (Ok x)
               \/ exists k' y, In k' L /\ as_decrypt C inner (sec km k') [] = Ok y /\ y <> x)
    /\ (~ In k L -> (exists e, out = DB (Err e))
                    \/ exists k' y, In k' L /\ k' <> k /\ as_decrypt C inner (sec km k') [] = Ok y).
Proof. exact v1_data_pair. Qed.
Print Assumptions C06_data_v1_acrastruct_revealed_iff_key_survives.

(** the same for AcraBlocks under symmetric storage keys (GetClientIDSymmetricKey at protect time,
    GetClientIDSymmetricKeys at reveal time) *)
Theorem C06_data_v1_acrablock_revealed_iff_key_survives :
  forall (C : crypto), Correct C ->
  forall (km : ord -> bytes * bytes) (pre post : list dop) (s : slot) (tape : list bytes) (x : bytes) (k : ord),
  fst s = KStorageSym ->
  looks_protected ENVELOPE_ID_ACRABLOCK x = false -> x <> [] -> (N.of_nat (length x) < MAXMSG)%N ->
  good_ab_tape tape -> sec km k <> [] ->
  let ops := pre ++ DProtect s tape x :: post in
  increasing_from 0 (clock_readings (kops_of ops)) ->
  s_cur (spec_state_after true s_init (kops_of pre) s) = Some k ->
  let st1 := d_state_after C km (v1_sys NoCache) d1 pre in
  let L := offered1 (spec_state_after true s_init (kops_of ops)) s in
  exists v ek ed,
    snd (d_step C km (v1_sys NoCache) st1 (DProtect s tape x)) = DB (Ok v)
    /\ v = sc_layout (ab_layout (sec km k) [] ek ed) ENVELOPE_ID_ACRABLOCK /\
    let out := snd (d_step C km (v1_sys NoCache) (d_state_after C km (v1_sys NoCache) d1 ops)
                      (DReveal s (length (d_vals st1)))) in
    (In k L -> out = DB (Ok x)
               \/ exists k' dk, In k' L /\ sec km k' <> sec km k
                   /\ bytes_eqb (ab_key_id (sec km k') []) (ab_key_id (sec km k) []) = true
                   /\ cell_decrypt C (sec km k') [] ek = Some dk)
    /\ (~ In k L -> (exists e, out = DB (Err e))
                    \/ exists k' dk, In k' L /\ k' <> k
                   /\ bytes_eqb (ab_key_id (sec km k') []) (ab_key_id (sec km k) []) = true
                   /\ cell_decrypt C (sec km k') [] ek = Some dk).
Proof. exact v1_data_sym. Qed.
Print Assumptions C06_data_v1_acrablock_revealed_iff_key_survives.

(** blind index: written with the HMAC key current then, compared with the HMAC key current now *)
Theorem C06_data_v1_blind_index_uses_current_hmac_key_only :
  forall (C : crypto) (km : ord -> bytes * bytes) (pre post : list dop) (s : slot) (tape : list bytes)
         (x x' : bytes) (k : ord),
  fst s = KHmac ->
  let ops := pre ++ DProtect s tape x :: post in
  increasing_from 0 (clock_readings (kops_of ops)) ->
  s_cur (spec_state_after true s_init (kops_of pre) s) = Some k ->
  let st1 := d_state_after C km (v1_sys NoCache) d1 pre in
  let now := s_cur (spec_state_after true s_init (kops_of ops) s) in
  snd (d_step C km (v1_sys NoCache) st1 (DProtect s tape x)) = DB (Ok (generate_hmac (sec km k) x)) /\
  let out := snd (d_step C km (v1_sys NoCache) (d_state_after C km (v1_sys NoCache) d1 ops)
                    (DSearch s (length (d_vals st1)) x')) in
  match now with
  | None => out = DB (Ok [x00])
  | Some k' => (hmac_sha256 (sec km k') x' = hmac_sha256 (sec km k) x -> out = DB (Ok [x01]))
               /\ (hmac_sha256 (sec km k') x' <> hmac_sha256 (sec km k) x -> out = DB (Ok [x00]))
  end.
Proof. exact v1_data_hmac. Qed.
Print Assumptions C06_data_v1_blind_index_uses_current_hmac_key_only.

(** ** what [offered1] is.  The two specification machines (hide = true: keystore v1; hide = false:
    the property, keystore v2) go through the same STATES; while the slot has a current key,
    keystore v1 offers exactly the property's set ([C06_data_key_offered_unless_destroyed] etc. of
    Properties/C06_data.v then say when a version is in it); without a current key it offers nothing *)
Theorem C06_data_v1_offered_is_spec_offered_while_current :
  (forall (ops : list kop) (st : sstate), spec_state_after true st ops = spec_state_after false st ops)
  /\ (forall (st : sstate) (s : slot) (c : ord), s_cur (st s) = Some c -> offered1 st s = offered st s)
  /\ (forall (st : sstate) (s : slot), s_cur (st s) = None -> offered1 st s = []).
Proof. exact (conj spec_state_hide_irrelevant (conj offered1_with_current offered1_without_current)). Qed.
Print Assumptions C06_data_v1_offered_is_spec_offered_while_current.

(** ** listings of keystore v1 = listing of the specification in keystore v1's layout (one row per
    key FILE: a key pair has a private and a public row; index 1 = current, rotated 2,3,… oldest
    first) in every state related to a specification state; the creation times of the rotated rows
    (time stamps of the file names) strictly increase with the index *)
Theorem C06_data_v1_list_keys_is_spec :
  forall (lo : N) (st : v1state) (sp : sstate) (s : slot),
  R1 lo st sp -> v1_list_cur st s = spec1_list_cur (fst s) (sp s).
Proof. exact v1_list_cur_is_spec. Qed.
Print Assumptions C06_data_v1_list_keys_is_spec.

Theorem C06_data_v1_list_rotated_is_spec :
  forall (lo : N) (st : v1state) (sp : sstate) (s : slot), R1 lo st sp ->
  untimed (v1_list_rot st s) = spec1_list_rot (fst s) (sp s)
  /\ ascending (times_of Priv (v1_list_rot st s))
  /\ ascending (times_of Pub (v1_list_rot st s))
  /\ length (times_of Priv (v1_list_rot st s)) = length (s_rot (sp s)).
Proof. exact v1_list_rot_is_spec. Qed.
Print Assumptions C06_data_v1_list_rotated_is_spec.

(** [R1] holds along every history, under EVERY cache mode (the listings read the file tree only) *)
Theorem C06_data_v1_listings_along_every_history :
  forall (m : cmode) (ops : list kop) (s : slot), increasing_from 0 (clock_readings ops) ->
  let st := v1_state_after m v1_init ops in
  let e := spec_state_after true s_init ops s in
  v1_list_cur st s = spec1_list_cur (fst s) e
  /\ untimed (v1_list_rot st s) = spec1_list_rot (fst s) e.
Proof. exact v1_listings_after_any_cache. Qed.
Print Assumptions C06_data_v1_listings_along_every_history.

(** ** keystore v2: ListKeys SUCCEEDS in every related state (the Current seqnum of a well-formed
    non-empty ring names its newest key) and shows index 1 / current iff the slot has a live
    current version; no premise on the key kind *)
Theorem C06_data_v2_list_keys_is_spec :
  forall (st : v2state) (sp : sstate) (s : slot), R st sp -> v2_list_cur st s = Ok (spec_list_cur (sp s)).
Proof. exact v2_list_cur_is_spec. Qed.
Print Assumptions C06_data_v2_list_keys_is_spec.

Theorem C06_data_v2_list_keys_along_every_history :
  forall (ops : list kop) (s : slot),
  v2_list_cur (v2_state_after ops) s = Ok (spec_list_cur (spec_state_after false s_init ops s)).
Proof. exact v2_list_cur_after. Qed.
Print Assumptions C06_data_v2_list_keys_along_every_history.

(** ** non-vacuity and the recorded class on DATA *)
Definition c06v_sd1 : bytes := repeat x01 32.
Definition c06v_sd2 : bytes := repeat x02 32.
Definition c06v_km (k : ord) : bytes * bytes := if k =? 1 then keypair Stub c06v_sd1 else keypair Stub c06v_sd2.
Definition c06v_tape : list bytes := [repeat x03 32; repeat x04 32; repeat x05 12; repeat x06 12].
Definition c06v_s : slot := (KStoragePair, 1).
Definition c06v_pre : list dop := [DK (Gen c06v_s 1 10 11)].
Definition c06v_x : bytes := [x41; x42].

(** the premises of the v1 AcraStruct theorem hold on a concrete history (k = 1) *)
Example c06_data_v1_ex_premises :
  let post := [DK (Gen c06v_s 2 20 21); DK (DestroyRot c06v_s 2%Z)] in
  looks_protected ENVELOPE_ID_ACRASTRUCT c06v_x = false /\ good_as_tape c06v_tape
  /\ length c06v_sd1 = SEED_LEN /\ c06v_km 1 = keypair Stub c06v_sd1
  /\ increasing_from 0 (clock_readings (kops_of (c06v_pre ++ DProtect c06v_s c06v_tape c06v_x :: post)))
  /\ s_cur (spec_state_after true s_init (kops_of c06v_pre) c06v_s) = Some 1.
Proof.
  cbn zeta. split; [vm_compute; reflexivity|]. split.
  - exists (repeat x03 32), (repeat x04 32), (repeat x05 12), (repeat x06 12), []. repeat split.
  - split; [reflexivity|]. split; [reflexivity|]. split; [|reflexivity].
    cbn. repeat split; reflexivity.
Qed.

(** both directions occur: after a rotation version 1 is offered and the value is revealed; after
    the destruction of the rotated version (listed as 2) it is neither *)
Example c06_data_v1_ex_both_directions :
  let P := DProtect c06v_s c06v_tape c06v_x in
  let ops1 := c06v_pre ++ P :: [DK (Gen c06v_s 2 20 21)] in
  let ops2 := c06v_pre ++ P :: [DK (Gen c06v_s 2 20 21); DK (DestroyRot c06v_s 2%Z)] in
  offered1 (spec_state_after true s_init (kops_of ops1)) c06v_s = [2; 1]
  /\ snd (d_step Stub c06v_km (v1_sys NoCache) (d_state_after Stub c06v_km (v1_sys NoCache) d1 ops1) (DReveal c06v_s 0))
     = DB (Ok c06v_x)
  /\ offered1 (spec_state_after true s_init (kops_of ops2)) c06v_s = [2]
  /\ exists e,
     snd (d_step Stub c06v_km (v1_sys NoCache) (d_state_after Stub c06v_km (v1_sys NoCache) d1 ops2) (DReveal c06v_s 0))
     = DB (Err e).
Proof. cbn zeta. split; [|split; [|split]]; try (vm_compute; reflexivity). eexists. vm_compute. reflexivity. Qed.

(** the recorded class v1-all-keys-fail-without-current, on data: version 1 is rotated out (still
    stored, still in the property's set [offered]), then the CURRENT version 2 is destroyed — the
    value protected under version 1 is no longer revealed by keystore v1 *)
Theorem C06_data_v1_old_data_unreadable_without_current_refuted :
  exists (pre post : list dop) (s : slot) (tape : list bytes) (x : bytes) (k : ord),
    let ops := pre ++ DProtect s tape x :: post in
    increasing_from 0 (clock_readings (kops_of ops))
    /\ s_cur (spec_state_after false s_init (kops_of pre) s) = Some k
    /\ In k (offered (spec_state_after false s_init (kops_of ops)) s)
    /\ exists e, snd (d_step Stub c06v_km (v1_sys NoCache) (d_state_after Stub c06v_km (v1_sys NoCache) d1 ops)
                        (DReveal s (length (d_vals (d_state_after Stub c06v_km (v1_sys NoCache) d1 pre)))))
                 = DB (Err e).
Proof.
  exists c06v_pre, [DK (Gen c06v_s 2 20 21); DK (DestroyCur c06v_s)], c06v_s, c06v_tape, c06v_x, 1.
  cbn zeta. split; [cbn; repeat split; reflexivity|]. split; [reflexivity|].
  split; [vm_compute; left; reflexivity|]. eexists. vm_compute. reflexivity.
Qed.
Print Assumptions C06_data_v1_old_data_unreadable_without_current_refuted.

(** listings on a reachable state: a key pair rotated twice (rows of both files, time stamps of the
    file names), and the same state seen through [untimed] = the specification's rows *)
Example c06_data_v1_ex_listing :
  let st := v1_state_after (Lru 2) v1_init [Gen c06v_s 1 10 11; Gen c06v_s 2 20 21; Gen c06v_s 3 30 31] in
  v1_list_rot st c06v_s = [0; 2; 2; 20; 0; 3; 2; 30; 1; 2; 2; 21; 1; 3; 2; 31]
  /\ times_of Priv (v1_list_rot st c06v_s) = [20; 30] /\ times_of Pub (v1_list_rot st c06v_s) = [21; 31]
  /\ v1_list_cur st c06v_s = [0; 1; 1; 0; 1; 1; 1; 0]
  /\ spec1_list_rot KStoragePair {| s_cur := Some 3; s_rot := [2; 1] |} = [0; 2; 2; 0; 0; 3; 2; 0; 1; 2; 2; 0; 1; 3; 2; 0].
Proof. cbn zeta. repeat split; vm_compute; reflexivity. Qed.

(** keystore v2: ListKeys after destroying the current key succeeds with no row *)
Example c06_data_v2_ex_list_keys :
  let s := (KStorageSym, 1) in
  v2_list_cur (v2_state_after [Gen s 1 0 0; Gen s 2 0 0]) s = Ok [0; 1; 1; 0]
  /\ v2_list_cur (v2_state_after [Gen s 1 0 0; Gen s 2 0 0; DestroyCur s]) s = Ok [].
Proof. cbn zeta. split; vm_compute; reflexivity. Qed.
