(** C03 — Any modification of a protected value is detected, never mis-decrypted.
    Statements only.  No unforgeability assumption: a wrong plaintext implies an explicit AEAD forgery
    (an opening that succeeded on a ciphertext never produced under that key and context). *)
From Acra Require Import Lib.Bytes Lib.Outcome Lib.Sha256 Crypto.Interface Crypto.Stub Gen.Consts Model.Envelope
  Proofs.Envelope Proofs.EnvelopeHandlers Proofs.Scanner Proofs.Tamper.

(** every successful symmetric reveal opened exactly the declared byte ranges with a key of the client *)
Theorem C03_acrablock_reveal_sound :
  forall (C : crypto) (b : bytes) (keys : list bytes) (ctx y : bytes),
  ab_decrypt C b keys ctx = Ok y ->
  AB_MIN_SIZE + ab_ksz b <= length b /\
  exists k dk, In k keys /\
    bytes_eqb (ab_key_id k ctx) (sub AB_KEY_ID_POS AB_KEY_ID_SIZE b) = true /\
    cell_decrypt C k ctx (ab_ek b) = Some dk /\
    cell_decrypt C dk ctx (ab_ed b) = Some y.
Proof. exact ab_reveal_sound. Qed.
Print Assumptions C03_acrablock_reveal_sound.

Theorem C03_acrastruct_reveal_sound :
  forall (C : crypto) (v priv ctx y : bytes),
  as_decrypt C v priv ctx = Ok y ->
  as_validate v = true /\
  exists sk, msg_unwrap C priv (firstn AS_PUBKEY_LEN (skipn AS_TAG_LEN v))
                          (sub AS_PUBKEY_LEN AS_SMSG_LEN (skipn AS_TAG_LEN v)) = Some sk /\
             cell_decrypt C sk ctx (skipn (as_key_block + AS_DATALEN_SIZE) (skipn AS_TAG_LEN v)) = Some y.
Proof. exact as_reveal_sound. Qed.
Print Assumptions C03_acrastruct_reveal_sound.

(** ANY byte string b' (bit flips, truncation, extension, length/type/key-id edits…) revealed with ANY key
    list either yields the original plaintext — and then carries the original two ciphertext blocks at the
    positions its header declares — or the AEAD was forged.  [dek] fresh = not one of the client's keys. *)
Theorem C03_acrablock_modification_detected :
  forall (C : crypto) (key dek ek ed x ctx : bytes) (keys : list bytes) (b' y : bytes),
  ~ In dek keys ->
  ab_decrypt C b' keys ctx = Ok y ->
  (y = x /\ ab_ek b' = ek /\ ab_ed b' = ed) \/ Forgery C [OSeal key ctx ek dek; OSeal dek ctx ed x].
Proof. exact ab_tamper_detected. Qed.
Print Assumptions C03_acrablock_modification_detected.

Theorem C03_acrastruct_modification_detected :
  forall (C : crypto) (priv pub ek sk ed x ctx v' y : bytes),
  as_decrypt C v' priv ctx = Ok y ->
  (y = x /\ skipn (as_key_block + AS_DATALEN_SIZE) (skipn AS_TAG_LEN v') = ed)
  \/ Forgery C [OWrap priv pub ek sk; OSeal sk ctx ed x].
Proof. exact as_tamper_detected. Qed.
Print Assumptions C03_acrastruct_modification_detected.

(** splices: among any number of honest values of one client (fresh, pairwise distinct data keys), whatever is
    revealed has key block AND data block of the same honest value *)
Theorem C03_splice_detected :
  forall (C : crypto) (ctx : bytes) (vs : list honest_ab) (keys : list bytes) (b' y : bytes),
  (forall v, In v vs -> ~ In (hv_dek v) keys) ->
  (forall v w, In v vs -> In w vs -> hv_dek v <> hv_key w) ->
  (forall v w, In v vs -> In w vs -> hv_dek v = hv_dek w -> v = w) ->
  ab_decrypt C b' keys ctx = Ok y ->
  (exists v, In v vs /\ ab_ek b' = hv_ek v /\ ab_ed b' = hv_ed v /\ y = hv_x v) \/ Forgery C (openings_of ctx vs).
Proof. exact ab_splice_detected. Qed.
Print Assumptions C03_splice_detected.

(** entry points (DecryptWithHandler = translator Decrypt/DecryptSym = Process): what success rests on *)
Theorem C03_entrypoint_reveal_sound :
  forall (C : crypto) (id : byte) (ks : keyset) (v' y : bytes),
  decrypt_with_handler C id ks v' = Ok y ->
  exists inner id', sc_deserialize v' = Ok (inner, id') /\ handler_match id inner = true /\
    ((byte_eqb id ENVELOPE_ID_ACRASTRUCT = true /\ exists p, In p (ks_privs ks) /\ as_decrypt C inner p [] = Ok y) \/
     (byte_eqb id ENVELOPE_ID_ACRASTRUCT = false /\ exists n block, ab_extract inner = Ok (n, block) /\
        ab_decrypt C block (ks_syms ks) [] = Ok y)).
Proof. exact handler_reveal_sound. Qed.
Print Assumptions C03_entrypoint_reveal_sound.

Theorem C03_container_modification_detected :
  forall (C : crypto) (ks : keyset) (key dek ek ed x v' y : bytes),
  ~ In dek (ks_syms ks) ->
  decrypt_with_handler C ENVELOPE_ID_ACRABLOCK ks v' = Ok y ->
  y = x \/ Forgery C [OSeal key [] ek dek; OSeal dek [] ed x].
Proof. exact container_tamper_detected_ab. Qed.
Print Assumptions C03_container_modification_detected.

(** a swapped search hash is detected, or an HMAC-SHA-256 collision on two distinct messages is exhibited *)
Theorem C03_hash_swap_detected :
  forall (C : crypto) (id : byte) (ks : keyset) (hk data y y' : bytes),
  ks_hmac ks = Some hk ->
  tr_decrypt_searchable C id ks data (Some (generate_hmac hk y')) = Ok y ->
  y = y' \/ (y <> y' /\ hmac_sha256 hk y = hmac_sha256 hk y').
Proof. exact hash_swap_detected. Qed.
Print Assumptions C03_hash_swap_detected.

(** transparent column processing: a value none of whose candidates can be opened is handed out unchanged *)
Theorem C03_damaged_column_unchanged :
  forall (C : crypto) (ks : keyset) (inb : bytes),
  (forall c, exists e, registry_process C ks c = Err e) ->
  on_column (column_cbs C ks) inb = Ok (inb, false).
Proof. exact damaged_column_unchanged. Qed.
Print Assumptions C03_damaged_column_unchanged.

(** the handler is never brought down by the scanner: for arbitrary bytes, if the processor does not panic
    the column scanner does not (decoder-level totality on checked slices: Properties/C14_envelope.v) *)
Theorem C03_column_never_panics :
  forall (C : crypto) (ks : keyset) (inb : bytes),
  (forall c, registry_process C ks c <> Panic) -> on_column (column_cbs C ks) inb <> Panic.
Proof. exact column_never_panics. Qed.
Print Assumptions C03_column_never_panics.

(** non-vacuity: on the stand-in, flipping one bit of an honest AcraBlock container makes the reveal fail,
    and the honest one reveals *)
Definition ex3_tape : list bytes := [repeat_bytes x07 32; repeat_bytes x03 12; repeat_bytes x04 12].
Definition ex3_ks := Build_keyset None [] [repeat_bytes x55 32] None.
Definition ex3_v : bytes := Eval vm_compute in
  match encrypt_with_handler Stub ENVELOPE_ID_ACRABLOCK ex3_ks ex3_tape [x41; x42; x43] with Ok v => v | _ => [] end.
Definition flip_last (b : bytes) : bytes := firstn (length b - 1) b ++ [bxor (nth (length b - 1) b x00) x01].
Example C03_example :
  decrypt_with_handler Stub ENVELOPE_ID_ACRABLOCK ex3_ks ex3_v = Ok [x41; x42; x43] /\
  decrypt_with_handler Stub ENVELOPE_ID_ACRABLOCK ex3_ks (flip_last ex3_v) = Err E_DECRYPTION.
Proof. split; vm_compute; reflexivity. Qed.
