(** C08 for keystore v1: a crash or I/O failure during a keystore write never loses or corrupts
    keys (keystore/filesystem/server_keystore.go over the calls of filesystem.Storage).

    Quantifiers: every well-formed storage ([k1_wf]: every key file and every rotated version is
    complete key material, temporary files unconstrained), every write operation ([v1op], with
    every key number, key material, TempFile choice and clock value), every fault
    ([fault] = none | (index of a Storage call, KErr | KCrashBefore | KCrashAfter | KTorn | KErrTorn)),
    both kinds of storage ([links]).  [faults_ok links f] excludes ONLY the cut writes on a storage
    without hard links: there the cut history copy is a finding (C08_v1_copy_backup_torn_refuted). *)
From Acra Require Import Lib.Bytes Lib.Outcome Model.KeystoreWrite Model.KeystoreWriteV1 Proofs.KeystoreWriteV1.
Local Open Scope N_scope.

(** the v1 programs run under the fault interpreter of C08/v2: on the programs of
    Model/KeystoreWrite.v, [vexec] is [exec] *)
Theorem C08_v1_interpreter_is_exec :
  forall (A : Type) (links : bool) (p : prog A) (f : fault) (st : storage) (k : nat),
    vexec links (inj p) f st k = exec p f st k.
Proof. exact thm_interpreter_is_exec. Qed.
Print Assumptions C08_v1_interpreter_is_exec.

(** every operation, every fault: what is left is well formed and related to the storage before
    by [op_rel] (the statements below spell it out), and the returned value tells which *)
Theorem C08_v1_write_crash_safe :
  forall links st o f,
    op_pre o -> faults_ok links f -> k1_wf st ->
    k1_wf (v1_after links st o f) /\ op_rel o st (v1_after links st o f) /\
    match vexec links (v1_prog o) f st 0 with
    | Ret r st' _ => op_post o st r st'
    | Crash _ => True
    end.
Proof. exact thm_write_crash_safe. Qed.
Print Assumptions C08_v1_write_crash_safe.

(** (i) every file the operation does not name is identical afterwards (so every key readable
    before reads the same), and no rotated version is lost by an operation on current keys *)
Theorem C08_v1_other_keys_untouched :
  forall links st o f n,
    op_pre o -> faults_ok links f -> ~ op_touches o n ->
    lookup n (v1_after links st o f) = lookup n st.
Proof. exact thm_other_keys_untouched. Qed.
Print Assumptions C08_v1_other_keys_untouched.

(** (i) at the level of the readers: a key the operation does not name reads the same, with
    all its rotated versions in the same order, from a fresh keystore object *)
Theorem C08_v1_other_keys_read_same :
  forall links st o f k,
    op_pre o -> faults_ok links f ->
    ~ op_touches o (FKey k) -> (forall ts, ~ op_touches o (FOld k ts)) ->
    read_file (FKey k) (v1_after links st o f) = read_file (FKey k) st /\
    read_all k (v1_after links st o f) = read_all k st.
Proof. exact thm_other_keys_read_same. Qed.
Print Assumptions C08_v1_other_keys_read_same.

Theorem C08_v1_rotated_versions_kept :
  forall links st o f k ts c,
    op_pre o -> faults_ok links f ->
    match o with V1DestroyRotated _ _ | V1DestroyRotatedPair _ _ _ => False | _ => True end ->
    lookup (FOld k ts) st = Some c -> lookup (FOld k ts) (v1_after links st o f) = Some c.
Proof. exact thm_rotated_versions_kept. Qed.
Print Assumptions C08_v1_rotated_versions_kept.

(** (ii) WriteKeyFile (symmetric / HMAC / log key generation): the key file is its previous self
    (or still absent), or completely the new key - and then the previous version is in the
    history directory; nil is returned iff the new key is installed *)
Theorem C08_v1_written_key_old_or_new :
  forall links st k ord rnd ts f,
    faults_ok links f ->
    let st' := v1_after links st (V1Write k ord rnd ts) f in
    (lookup (FKey k) st' = lookup (FKey k) st \/
     (lookup (FKey k) st' = Some (CKey ord true) /\
      (lookup (FKey k) st = None \/ lookup (FOld k ts) st' = lookup (FKey k) st))) /\
    match vexec links (v1_prog (V1Write k ord rnd ts)) f st 0 with
    | Ret (Ok _) st'' _ => lookup (FKey k) st'' = Some (CKey ord true)
    | Ret _ st'' _ => lookup (FKey k) st'' = lookup (FKey k) st
    | Crash _ => True
    end.
Proof. exact thm_written_key_old_or_new. Qed.
Print Assumptions C08_v1_written_key_old_or_new.

(** (ii) for a key PAIR, exactly what "private first, public second" gives: each half is old or
    completely new, the PUBLIC half is never ahead of the private one, nothing else changes *)
Theorem C08_v1_pair_private_first :
  forall links st a b o1 o2 r1 r2 t1 t2 f,
    a <> b -> o1 <> 0 -> o2 <> 0 -> faults_ok links f ->
    let st' := v1_after links st (V1SavePair a b o1 o2 r1 r2 t1 t2) f in
    (lookup (FKey a) st' = lookup (FKey a) st \/ lookup (FKey a) st' = Some (CKey o1 true)) /\
    (lookup (FKey b) st' = lookup (FKey b) st \/
     (lookup (FKey b) st' = Some (CKey o2 true) /\ lookup (FKey a) st' = Some (CKey o1 true))).
Proof. exact thm_pair_private_first. Qed.
Print Assumptions C08_v1_pair_private_first.

(** ... and what it does NOT give (finding v1-keypair-not-atomic): on an empty keystore, the
    process dying just after the Rename of the private poison key file leaves the private half
    alone; the next start's GetPoisonKeyPair and CacheOnStart fail.  With a previous pair: new
    private key next to the previous public key. *)
Theorem C08_v1_pair_atomic_refuted :
  (reachable true (ex_half 5) /\
   lookup (FKey 5) (ex_half 5) = Some (new_c 7) /\ lookup (FKey 6) (ex_half 5) = None /\
   k1_cache_on_start (ex_half 5) = Err E_NOTEXIST /\ read_cur 5 (ex_half 5) = Err E_NOTEXIST) /\
  (reachable true ex_half2 /\
   lookup (FKey 0) ex_half2 = Some (new_c 9) /\ lookup (FKey 1) ex_half2 = Some (new_c 8) /\
   lookup (FOld 0 3) ex_half2 = Some (new_c 7)).
Proof. exact (conj pair_half_written pair_half_rotated). Qed.
Print Assumptions C08_v1_pair_atomic_refuted.

(** (iii) what a fresh keystore object finds on ANY well-formed storage: ListKeys succeeds
    (leftover temporary files are skipped), every stored key reads with all its rotated versions,
    CacheOnStart succeeds when the poison pair is complete, and the next write is accepted,
    installs the new key and keeps the previous one *)
Theorem C08_v1_recovered_storage_accepts :
  forall st,
    k1_wf st ->
    k1_list_keys st = Ok (key_names (names st)) /\
    (forall k, lookup (FKey k) st <> None ->
               (exists o, read_file (FKey k) st = Ok o) /\ (exists l, read_all k st = Ok l)) /\
    (pairs_complete st -> k1_cache_on_start st = Ok tt) /\
    (forall links k ord rnd ts,
        lookup (FTmp k rnd) st = None -> lookup (FOld k ts) st = None ->
        exists st' n,
          vexec links (k1_write_key_file k ord rnd ts) None st 0 = Ret (Ok tt) st' n /\
          lookup (FKey k) st' = Some (new_c ord) /\
          (forall c, lookup (FKey k) st = Some c -> lookup (FOld k ts) st' = Some c)).
Proof. exact thm_recovered_storage_accepts. Qed.
Print Assumptions C08_v1_recovered_storage_accepts.

(** preservation along histories: whatever sequence of (operation, fault) steps was run on an
    empty keystore directory, what is stored is well formed *)
Theorem C08_v1_wf_reachable : forall links st, reachable links st -> k1_wf st.
Proof. exact reachable_wf. Qed.
Print Assumptions C08_v1_wf_reachable.

(** finding v1-backup-copy-torn: without hard links, a cut Copy into the history directory stays
    and every "all versions" read of that key fails from then on *)
Theorem C08_v1_copy_backup_torn_refuted :
  reachable false (v1_after false [] (V1Write 2 1 1 1) None) /\
  lookup (FOld 2 2) ex_torn = Some (CKey 1 false) /\ ~ k1_wf ex_torn /\
  read_all 2 ex_torn = Err E_VERIFY /\ k1_cache_on_start ex_torn = Err E_VERIFY.
Proof. exact copy_backup_torn. Qed.
Print Assumptions C08_v1_copy_backup_torn_refuted.

(** the repaired defect: the ORIGINAL describeDir failed on the temporary file a crashed (or
    failed) WriteKeyFile leaves behind; the fixed one lists the keys *)
Theorem C08_v1_unfixed_listing_refuted :
  reachable true ex_tmp /\ k1_list_keys_unfixed ex_tmp = Err E_UNRECOGNIZED /\
  k1_list_keys ex_tmp = Ok [2] /\ k1_cache_on_start ex_tmp = Ok tt.
Proof. exact unfixed_listing_fails. Qed.
Print Assumptions C08_v1_unfixed_listing_refuted.

(** non-vacuity: a well-formed storage with a cut leftover temporary file, rotated versions and a
    complete poison pair; the premises of every theorem are satisfiable *)
Example C08_v1_wf_example : k1_wf ex_st /\ read_all 2 ex_st = Ok [3; 2; 1] /\ k1_cache_on_start ex_st = Ok tt.
Proof. split; [exact ex_st_wf|exact ex_st_reads]. Qed.

Example C08_v1_faults_example :
  faults_ok true (Some (6%nat, KTorn)) /\ faults_ok false (Some (6%nat, KCrashAfter)) /\
  ~ faults_ok false (Some (6%nat, KTorn)) /\ op_pre (V1SavePair 0 1 7 8 1 2 1 2).
Proof.
  split; [left; reflexivity|]. split; [right; cbn; discriminate|]. split.
  - intros [H|H]; [discriminate|]. cbn in H. specialize (H eq_refl). discriminate.
  - cbn. repeat split; discriminate.
Qed.

(** a rotation interrupted at the worst point (crash just after the hard link, call 5): the key
    still reads its previous value, the history holds a copy of it, ListKeys and CacheOnStart work *)
Example C08_v1_interrupted_rotation :
  let st := v1_after true [] (V1Write 2 1 1 1) None in
  let st' := v1_after true st (V1Write 2 2 2 2) (Some (5%nat, KCrashAfter)) in
  read_all 2 st = Ok [1] /\ read_all 2 st' = Ok [1; 1] /\ k1_list_keys st' = Ok [2] /\
  lookup (FTmp 2 2) st' = Some (CKey 2 true) /\ k1_cache_on_start st' = Ok tt.
Proof. vm_compute. repeat split; reflexivity. Qed.

(** the all-versions read of the key being rotated, for the faults around the Rename (call 6): the
    previous answer with the previous current version once more, or the new key in front *)
Example C08_v1_interrupted_rotation_reads :
  let st := v1_after true [] (V1Write 2 1 1 1) None in
  read_all 2 (v1_after true st (V1Write 2 2 2 2) (Some (5%nat, KCrashAfter))) = Ok [1; 1] /\
  read_all 2 (v1_after true st (V1Write 2 2 2 2) (Some (6%nat, KCrashBefore))) = Ok [1; 1] /\
  read_all 2 (v1_after true st (V1Write 2 2 2 2) (Some (6%nat, KCrashAfter))) = Ok [2; 1] /\
  read_all 2 (v1_after true st (V1Write 2 2 2 2) (Some (6%nat, KErr))) = Ok [1; 1].
Proof. exact interrupted_rotation_reads. Qed.
