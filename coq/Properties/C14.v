(** Property C14: aggregate file built by `./check C14`.  The envelope-decoder part is stated in
    Properties/C14_envelope.v (55 theorems, each with Print Assumptions); this file re-exports it and
    states the headline conjunction so that `./check C14` has an obligation to discharge.  Other parts
    of C14 (SQL, wire protocols, tokens, key rings, logs) are added by their own work packages. *)
From Acra Require Import Lib.Bytes Lib.Outcome Lib.GoSlice Crypto.Interface Gen.Consts
  Model.Envelope Model.EnvelopeChecked.
From Acra Require Export Properties.C14_envelope.

Theorem C14_envelope_decoders_never_panic : forall C (data ctx : bytes) (privs keys : list bytes) ks id,
  go_len data ->
  as_validate_checked data <> Panic /\ as_extract_checked data <> Panic /\
  as_decrypt_rotated_checked C data privs ctx <> Panic /\
  ab_extract_checked data <> Panic /\ ab_decrypt_checked C data keys ctx <> Panic /\
  sc_validate_checked data <> Panic /\ match_old_checked data <> Panic /\
  sc_deserialize_checked data <> Panic /\ sc_extract_checked data <> Panic /\
  decrypt_with_handler_checked C id ks data <> Panic /\ registry_process_checked C ks data <> Panic /\
  extract_hash_and_data_checked data <> Panic /\
  on_column_checked [decrypt_handler (registry_process C ks)] data <> Panic.
Proof.
  intros C data ctx privs keys ks id Hg.
  exact (conj (C14_ValidateAcraStructLength_total data) (conj (C14_ExtractAcraStruct_total data)
        (conj (C14_DecryptRotatedAcrastruct_total C data privs ctx) (conj (C14_ExtractAcraBlockFromData_total data)
        (conj (C14_AcraBlock_Decrypt_total C data keys ctx) (conj (C14_validateSerializedContainer_total data)
        (conj (C14_matchOldContainer_total data) (conj (C14_DeserializeEncryptedData_total data Hg)
        (conj (C14_ExtractSerializedContainer_total data Hg) (conj (C14_DecryptWithHandler_total C id ks data Hg)
        (conj (C14_RegistryHandler_Process_total C ks data Hg) (conj (C14_ExtractHashAndData_total data)
              (C14_OnColumn_registry_total C ks data Hg))))))))))))).
Qed.
Print Assumptions C14_envelope_decoders_never_panic.
