(** C11 — Masked columns show only the allowed window to clients that cannot decrypt.
    Only statements, closed by [exact], and their assumptions.  The model is the FIXED
    masking.Processor (patches/fix_masking_forged_header.diff): only data that is an envelope is replaced
    by the pattern.  [C] ranges over every crypto instance; [Correct C] is needed only where the C01 round trip is
    invoked (the C11_protects theorems), the read-side theorems hold for any [C].
    Vocabulary (Proofs/Masking.v):
      mask_window st x / mask_hidden st x : the clear window and the protected remainder of [x]
      mask_join st w h  : window left of [h] (plaintext side "left") or right of it
      mask_seen st w v  : the envelope as the scanner callback sees it (followed by the window if that is on the right)
      window_clear st w v : no COMPLETE well-formed envelope sits at a tag position inside the clear window
                           (bytes that only look like a container header are allowed; [quiet] implies it)
      cannot_open C ks c : the reader's decrypt step returns an error or the unchanged container
      protects C id ks tape ks' h v inner : C01's round trip for the hidden part (holds for both envelope kinds,
                           see C11_protects_asymmetric / C11_protects_symmetric). *)
From Acra Require Import Lib.Bytes Lib.Outcome Crypto.Interface Gen.Consts Gen.MaskConsts Model.Envelope Model.Masking
  Proofs.Envelope Proofs.EnvelopeHandlers Proofs.Scanner Proofs.Containers Proofs.Masking.

(** the owner: the stored value is window joined with the envelope, and reading it returns exactly the
    original value; all patterns, all window lengths (0 .. beyond the value), both sides, both envelopes *)
Theorem C11_mask_owner_gets_original :
  forall (C : crypto)
  (st : mask_setting) (id : byte) (ks : keyset) (tape : list bytes) (ks' : keyset) (x v inner : bytes),
  validate_masking_params st = true ->
  protects C id ks tape ks' (mask_hidden st x) v inner ->
  window_clear st (mask_window st x) v ->
  mask_encryptor C id ks tape st x = Ok (mask_join st (mask_window st x) v) /\
  masked_read C (Some st) ks' (mask_join st (mask_window st x) v) = Ok (x, true).
Proof. exact mask_owner_gets_original. Qed.
Print Assumptions C11_mask_owner_gets_original.

(** a reader whose keys cannot open the envelope receives EXACTLY window ++ pattern (left) or
    pattern ++ window (right): no ciphertext byte, no hidden plaintext byte *)
Theorem C11_mask_non_owner_view :
  forall (C : crypto)
  (st : mask_setting) (id : byte) (ks : keyset) (tape : list bytes) (ks' reader : keyset) (x v inner : bytes),
  validate_masking_params st = true ->
  protects C id ks tape ks' (mask_hidden st x) v inner ->
  cannot_open C reader (mask_seen st (mask_window st x) v) ->
  ms_pattern st <> mask_seen st (mask_window st x) v ->
  window_clear st (mask_window st x) v ->
  mask_encryptor C id ks tape st x = Ok (mask_join st (mask_window st x) v) /\
  masked_read C (Some st) reader (mask_join st (mask_window st x) v)
  = Ok (mask_join st (mask_window st x) (ms_pattern st), true).
Proof. exact mask_non_owner_gets_window_and_pattern. Qed.
Print Assumptions C11_mask_non_owner_view.

(** the same for any well-formed envelope next to any clear window (no assumption on how it was made) *)
Theorem C11_mask_non_owner_view_any_envelope :
  forall (C : crypto)
  (st : mask_setting) (ks : keyset) (id : byte) (inner v w : bytes),
  ms_pattern st <> [] -> is_envelope id inner v ->
  cannot_open C ks (mask_seen st w v) -> ms_pattern st <> mask_seen st w v ->
  window_clear st w v ->
  masked_read C (Some st) ks (mask_join st w v) = Ok (mask_join st w (ms_pattern st), true).
Proof. exact mask_non_owner_view. Qed.
Print Assumptions C11_mask_non_owner_view_any_envelope.

(** hence the view does not depend on the hidden part, the keys, the envelope kind or the write randomness *)
Theorem C11_mask_non_owner_view_independent :
  forall (C : crypto)
  (st : mask_setting) (reader : keyset) (id1 id2 : byte) (inner1 inner2 v1 v2 w : bytes),
  ms_pattern st <> [] -> is_envelope id1 inner1 v1 -> is_envelope id2 inner2 v2 ->
  cannot_open C reader (mask_seen st w v1) -> cannot_open C reader (mask_seen st w v2) ->
  ms_pattern st <> mask_seen st w v1 -> ms_pattern st <> mask_seen st w v2 ->
  window_clear st w v1 -> window_clear st w v2 ->
  masked_read C (Some st) reader (mask_join st w v1) = masked_read C (Some st) reader (mask_join st w v2).
Proof. exact mask_non_owner_view_independent. Qed.
Print Assumptions C11_mask_non_owner_view_independent.

(** values not longer than the window are protected in full: empty window, everything goes to the encryptor *)
Theorem C11_short_values_fully_protected :
  forall (enc : bytes -> res bytes) (st : mask_setting) (x : bytes),
  ms_pattern st <> [] -> (Z.of_nat (length x) <= ms_plen st)%Z ->
  mask_window st x = [] /\ mask_hidden st x = x /\ encrypt_by_function enc st x = enc x.
Proof. exact short_values_fully_protected. Qed.
Print Assumptions C11_short_values_fully_protected.

(** encryptByFunction under validated parameters = protect the hidden part, keep the window, join; never panics *)
Theorem C11_mask_write :
  forall (enc : bytes -> res bytes) (st : mask_setting) (x : bytes),
  validate_masking_params st = true ->
  encrypt_by_function enc st x = (do a <- enc (mask_hidden st x); Ok (mask_join st (mask_window st x) a)) /\
  mask_join st (mask_window st x) (mask_hidden st x) = x.
Proof. intros enc st x H. split; [exact (mask_write enc st x H)| exact (mask_split_join st x)]. Qed.
Print Assumptions C11_mask_write.

Theorem C11_mask_write_never_panics :
  forall (enc : bytes -> res bytes) (st : mask_setting) (x : bytes),
  validate_masking_params st = true -> (forall d, enc d <> Panic) -> encrypt_by_function enc st x <> Panic.
Proof. exact mask_write_total. Qed.
Print Assumptions C11_mask_write_never_panics.

(** the C01 round trip supplies [protects] for both envelope kinds, any later key history *)
Theorem C11_protects_asymmetric :
  forall (C : crypto), Correct C ->
  forall (ks ks' : keyset) (tape : list bytes) (h sb : bytes) (before after : list bytes),
  looks_protected ENVELOPE_ID_ACRASTRUCT h = false ->
  h <> [] -> (N.of_nat (length h) < MAXMSG)%N -> good_as_tape tape -> length sb = SEED_LEN ->
  ks_pub ks = Some (pub_of C sb) ->
  ks_privs ks' = before ++ priv_of C sb :: after ->
  (forall v, Forall (fun p => exists e, as_decrypt C v p [] = Err e) before) ->
  exists v inner, protects C ENVELOPE_ID_ACRASTRUCT ks tape ks' h v inner.
Proof. exact protects_asymmetric. Qed.
Print Assumptions C11_protects_asymmetric.

Theorem C11_protects_symmetric :
  forall (C : crypto), Correct C ->
  forall (ks ks' : keyset) (tape : list bytes) (h key : bytes) (rest before after : list bytes),
  looks_protected ENVELOPE_ID_ACRABLOCK h = false ->
  h <> [] -> (N.of_nat (length h) < MAXMSG)%N -> good_ab_tape tape -> key <> [] ->
  ks_syms ks = key :: rest ->
  ks_syms ks' = before ++ key :: after ->
  (forall ek, Forall (fun k => bytes_eqb (ab_key_id k []) (ab_key_id key []) = false
                               \/ cell_decrypt C k [] ek = None) before) ->
  exists v inner, protects C ENVELOPE_ID_ACRABLOCK ks tape ks' h v inner.
Proof. exact protects_symmetric. Qed.
Print Assumptions C11_protects_symmetric.

(** which values are covered: the premises about tag bytes, stated precisely.
    (1) a window in which no tag occurrence starts ([quiet], C01) is clear; (2) so is ANY window of at most
    SC_MIN_SIZE bytes on the right; (3) resynchronisation: bytes in front of the envelope at whose tag positions
    no complete envelope sits are copied through, whatever else they contain (pattern, '%%%', forged headers);
    (4) a pattern of at most SC_MIN_SIZE bytes never equals the envelope. *)
Theorem C11_quiet_window_is_clear :
  forall (p t : bytes), quiet p t -> clear p t.
Proof. exact quiet_clear. Qed.
Print Assumptions C11_quiet_window_is_clear.

Theorem C11_short_right_window_is_clear :
  forall (w : bytes), length w <= SC_MIN_SIZE -> clear w [].
Proof. exact short_window_clear. Qed.
Print Assumptions C11_short_right_window_is_clear.

Theorem C11_resynchronisation :
  forall (cbs : list (bytes -> res bytes)) (p t out : bytes) (ch : bool) (f f' : nat),
  calm cbs p t -> length (p ++ t) < f -> length t < f' ->
  scan f cbs (p ++ t) out ch = scan f' cbs t (out ++ p) ch.
Proof. exact scan_skip_prefix. Qed.
Print Assumptions C11_resynchronisation.

Theorem C11_non_envelope_left_alone :
  forall (C : crypto) (st : option mask_setting) (ks : keyset) (c : bytes),
  registry_match c = false -> run_callbacks (masked_cbs C st ks) c = Ok None.
Proof. exact masked_cb_none. Qed.
Print Assumptions C11_non_envelope_left_alone.

Theorem C11_short_pattern_differs :
  forall (pat v s inner : bytes) (id : byte),
  is_envelope id inner v -> length pat <= SC_MIN_SIZE -> pat <> v ++ s.
Proof. exact short_pattern_differs. Qed.
Print Assumptions C11_short_pattern_differs.

(** non-vacuity on concrete values (stand-in crypto): both sides, owner / no keys / other keys, a window that
    contains a forged container header, a negative window length *)
From Acra Require Import Crypto.Stub Proofs.StubCorrect.
Local Open Scope Z_scope.
Definition ex_tape : list bytes := [repeat_bytes x01 32; repeat_bytes x02 32; repeat_bytes x03 12; repeat_bytes x04 12].
Definition ex_tape_ab : list bytes := [repeat_bytes x01 32; repeat_bytes x03 12; repeat_bytes x04 12].
Definition ex_owner := Build_keyset (Some (pub_of Stub (repeat_bytes x09 32))) [priv_of Stub (repeat_bytes x09 32)] [repeat_bytes x0a 32] None.
Definition ex_other := Build_keyset (Some (pub_of Stub (repeat_bytes x0b 32))) [priv_of Stub (repeat_bytes x0b 32)] [repeat_bytes x0c 32] None.
Definition ex_nokeys := Build_keyset None [] [] None.
Definition ex_pat : bytes := [x78; x78; x78; x78].
Definition ex_left := Build_mask_setting ex_pat 4 MASK_SIDE_LEFT ENC_TYPE_STRING.
Definition ex_right := Build_mask_setting ex_pat 4 MASK_SIDE_RIGHT ENC_TYPE_BYTES.
(* "4111" ++ '%%%' ++ forged header bytes ++ "-1111" *)
Definition ex_x : bytes := [x34; x31; x31; x31; x25; x25; x25; x78; x2d; x31; x31; x31; x31].
Definition ex_col_l : bytes := Eval vm_compute in
  match mask_encryptor Stub ENVELOPE_ID_ACRASTRUCT ex_owner ex_tape ex_left ex_x with Ok v => v | _ => [] end.
Definition ex_col_r : bytes := Eval vm_compute in
  match mask_encryptor Stub ENVELOPE_ID_ACRABLOCK ex_owner ex_tape_ab ex_right ex_x with Ok v => v | _ => [] end.

Example C11_concrete_left :
  validate_masking_params ex_left = true /\
  mask_encryptor Stub ENVELOPE_ID_ACRASTRUCT ex_owner ex_tape ex_left ex_x = Ok ex_col_l /\
  firstn 4 ex_col_l = firstn 4 ex_x /\ Nat.ltb 150 (length ex_col_l) = true /\
  masked_read Stub (Some ex_left) ex_owner ex_col_l = Ok (ex_x, true) /\
  masked_read Stub (Some ex_left) ex_nokeys ex_col_l = Ok (firstn 4 ex_x ++ ex_pat, true) /\
  masked_read Stub (Some ex_left) ex_other ex_col_l = Ok (firstn 4 ex_x ++ ex_pat, true).
Proof. repeat split; vm_compute; reflexivity. Qed.

Example C11_concrete_right :
  validate_masking_params ex_right = true /\
  mask_encryptor Stub ENVELOPE_ID_ACRABLOCK ex_owner ex_tape_ab ex_right ex_x = Ok ex_col_r /\
  masked_read Stub (Some ex_right) ex_owner ex_col_r = Ok (ex_x, true) /\
  masked_read Stub (Some ex_right) ex_nokeys ex_col_r = Ok (ex_pat ++ skipn 9 ex_x, true) /\
  masked_read Stub (Some ex_right) ex_other ex_col_r = Ok (ex_pat ++ skipn 9 ex_x, true).
Proof. repeat split; vm_compute; reflexivity. Qed.

(** a forged container header INSIDE the clear window (declared length 14, known envelope id) is not an envelope:
    it stays as it is for every reader *)
Definition ex_forged : bytes := [x61; x25; x25; x25; x0e; x00; x00; x00; x00; x00; x00; x00; xf0; x62; x63; x64; x65].
Definition ex_wide := Build_mask_setting ex_pat 17 MASK_SIDE_LEFT ENC_TYPE_STRING.
Definition ex_col_f : bytes := Eval vm_compute in
  match mask_encryptor Stub ENVELOPE_ID_ACRABLOCK ex_owner ex_tape_ab ex_wide (ex_forged ++ ex_x) with Ok v => v | _ => [] end.
Example C11_forged_header_in_window :
  is_ok (sc_extract (skipn 1 ex_col_f)) = true /\ registry_match (skipn 1 ex_col_f) = false /\
  masked_read Stub (Some ex_wide) ex_owner ex_col_f = Ok (ex_forged ++ ex_x, true) /\
  masked_read Stub (Some ex_wide) ex_nokeys ex_col_f = Ok (ex_forged ++ ex_pat, true).
Proof. repeat split; vm_compute; reflexivity. Qed.

(** parameters ValidateMaskingParams rejects: a negative window length makes the Go slice expression panic *)
Example C11_negative_window_panics :
  validate_masking_params (Build_mask_setting ex_pat (-1) MASK_SIDE_LEFT ENC_TYPE_STRING) = false /\
  encrypt_by_function (fun d => Ok d) (Build_mask_setting ex_pat (-1) MASK_SIDE_LEFT ENC_TYPE_STRING) ex_x = Panic.
Proof. split; vm_compute; reflexivity. Qed.

Example C11_validate_table :
  validate_masking_params (Build_mask_setting [] 1 MASK_SIDE_LEFT ENC_TYPE_STRING) = false /\
  validate_masking_params (Build_mask_setting ex_pat 0 [x6d] ENC_TYPE_STRING) = false /\
  validate_masking_params (Build_mask_setting ex_pat 0 MASK_SIDE_RIGHT ENC_TYPE_INT32) = false /\
  validate_masking_params (Build_mask_setting ex_pat 0 MASK_SIDE_RIGHT ENC_TYPE_UNKNOWN) = true.
Proof. repeat split; vm_compute; reflexivity. Qed.
