(** C05 (extension) — the STRUCTURAL PATTERN rule of the SQL firewall, inside the model.
    Only statements, closed by [exact], and their assumptions.

    Model: Model/CensorPattern.v over the generic tree form of sqlparser ASTs (Model/CensorTree.v; kinds and
    field names from Gen/CensorKinds.v, the placeholder statements from Gen/CensorPatterns.v, both regenerated
    from /repo; trees exported from the REAL ASTs by reflection in the harness, domain c05pat).
      match_impl p s        acra-censor/common/matching_logic.go checkSinglePatternMatch(query s, pattern p),
                            the code AFTER patches/x05pat/fix_censor_pattern_fields.diff
      instance_of p s       the documented relation: s equals p up to the placeholder positions
      instance_of_loose p s the same, %%WHERE%% read as the code reads it (it also absorbs what follows WHERE)
      generalise sel [] s   s with placeholders at the positions selected by sel
      wf / supported        shape of the trees the parser produces (replayed: 1 for every exported tree) /
                            no STREAM, PREPARE, EXECUTE, DEALLOCATE node (the matcher has no comparator) *)
From Coq Require Import List Bool NArith.
From Acra Require Import Lib.Bytes Lib.Outcome Model.CensorPattern.
From Acra Require Import Proofs.CensorPatternSound Proofs.CensorPatternTotal Proofs.CensorPatternComplete
  Proofs.CensorPatternGen Proofs.CensorPatternWhere Proofs.CensorPatternChain.
From Acra Require Import Gen.CensorWitness.
(* the replay module of the correspondence check belongs to the cone built by ./check *)
From Acra Require Model.RunCensorPattern.
Import ListNotations.

(** generalisation_matches: for EVERY statement tree and EVERY selection of its generalisable positions
    (literal / column / column expression / WHERE clause / sub-query / whole statement / select list /
    tail of an IN list), the pattern obtained by putting the placeholders there is matched by the matcher *)
Theorem C05_pattern_generalisation_matches :
  forall (sel : list nat -> gsel) (s : tree),
  wf s = true -> supported s = true -> top_kind (tkind s) = true ->
  match_impl (generalise sel [] s) s = Ok true.
Proof. exact generalisation_matches_all. Qed.
Print Assumptions C05_pattern_generalisation_matches.

(** stronger: EVERY instance of a pattern in the documented sense is matched *)
Theorem C05_pattern_instance_matched :
  forall p s : tree,
  top_kind (tkind p) = true -> wf p = true -> wf s = true -> supported p = true ->
  instance_of p s = true -> match_impl p s = Ok true.
Proof. exact match_impl_complete. Qed.
Print Assumptions C05_pattern_instance_matched.

(** what [generalise] builds is an instance pattern, of the assumed shape *)
Theorem C05_pattern_generalisation_is_instance :
  forall (sel : list nat -> gsel) (s : tree) (path : list nat),
  wf s = true ->
  instance_of (generalise sel path s) s = true /\ wf (generalise sel path s) = true.
Proof. intros sel s path H. split; [exact (gen_inst sel s H path) | exact (gen_wf sel s H path)]. Qed.
Print Assumptions C05_pattern_generalisation_is_instance.

(** mismatch_rejected (soundness): a difference outside the placeholder positions is never accepted.
    Full strength for patterns without %%WHERE%%; with %%WHERE%% w.r.t. the loose reading (partial),
    and the documented reading is REFUTED for it (known finding where-placeholder-absorbs-tail) *)
Theorem C05_pattern_mismatch_rejected :
  forall p s : tree,
  wf p = true -> wf s = true -> no_where_ph p = true ->
  match_impl p s = Ok true -> instance_of p s = true.
Proof. exact match_impl_sound_doc. Qed.
Print Assumptions C05_pattern_mismatch_rejected.

Theorem C05_pattern_mismatch_rejected_partial :
  forall p s : tree,
  wf p = true -> wf s = true ->
  match_impl p s = Ok true -> instance_of_loose p s = true.
Proof. exact match_impl_sound. Qed.
Print Assumptions C05_pattern_mismatch_rejected_partial.

Theorem C05_pattern_mismatch_rejected_refuted :
  exists p s : tree,
  wf p = true /\ wf s = true /\ match_impl p s = Ok true /\ instance_of p s = false /\ instance_of_loose p s = true.
Proof. exists W_WHERE_PAT, W_WHERE_STMT. vm_compute. repeat split; reflexivity. Qed.
Print Assumptions C05_pattern_mismatch_rejected_refuted.

(** statement kinds without a comparator never match, not even themselves (known finding
    pattern-unsupported-statement-kind): the premise [supported] of the completeness theorems is needed *)
Theorem C05_pattern_unsupported_kind_refuted :
  (wf W_STREAM = true /\ top_kind (tkind W_STREAM) = true /\ instance_of W_STREAM W_STREAM = true /\
   match_impl W_STREAM W_STREAM = Ok false) /\
  (wf W_EXECUTE = true /\ instance_of W_EXECUTE W_EXECUTE = true /\ match_impl W_EXECUTE W_EXECUTE = Ok false).
Proof. vm_compute. repeat split; reflexivity. Qed.
Print Assumptions C05_pattern_unsupported_kind_refuted.

(** totality: no nil dereference for ANY pair of trees of the shape the parser produces *)
Theorem C05_pattern_total :
  forall p s : tree, wf p = true -> wf s = true -> match_impl p s <> Panic.
Proof. exact match_impl_total. Qed.
Print Assumptions C05_pattern_total.

Theorem C05_pattern_rule_total :
  forall (ps : list tree) (s : tree), forallb wf ps = true -> wf s = true -> check_patterns ps s <> Panic.
Proof. exact check_patterns_total. Qed.
Print Assumptions C05_pattern_rule_total.

(** the pattern rule in the chain (pattern result computed by the model, OpCensorP): a deny handler that
    lists a generalisation of the statement rejects it; behind [allow patterns; denyall] only instances pass *)
Theorem C05_deny_generalised_pattern_rejected :
  forall c pre post st hq mq ts (ps : list tree) (sel : list nat -> gsel) (s : tree),
  Forall (Acra.Proofs.Censor.silent true) pre ->
  forallb wf ps = true -> wf s = true -> supported s = true -> top_kind (tkind s) = true ->
  In (generalise sel [] s) ps ->
  Acra.Model.Censor.is_denied
    (Acra.Model.Censor.handle_query c true
       (pre ++ Acra.Model.Censor.HDeny
                 (Acra.Model.Censor.rules_of st hq mq ts (negb (Acra.Model.Censor.is_nil ps)) (pattern_hit ps s)) :: post)) = true.
Proof. exact deny_generalised_pattern_rejected. Qed.
Print Assumptions C05_deny_generalised_pattern_rejected.

Theorem C05_allow_patterns_then_denyall_rejected :
  forall c pre post st (ps : list tree) (s : tree),
  Forall (Acra.Proofs.Censor.silent true) pre ->
  forallb wf ps = true -> wf s = true ->
  (forall p, In p ps -> instance_of_loose p s = false) ->
  Acra.Model.Censor.is_denied
    (Acra.Model.Censor.handle_query c true
       (pre ++ Acra.Model.Censor.HAllow
                 (Acra.Model.Censor.rules_of st false false [] (negb (Acra.Model.Censor.is_nil ps)) (pattern_hit ps s))
            :: Acra.Model.Censor.HDenyAll :: post)) = true.
Proof. exact allow_patterns_then_denyall_rejected. Qed.
Print Assumptions C05_allow_patterns_then_denyall_rejected.

(** * The model's tables against the generated schema, non-vacuity *)

(** every field name of the comparator tables exists in the sqlparser struct it belongs to *)
Example C05_pattern_tables_resolved :
  forallb (fun k => match struct_spec_named k with
                    | [] => true
                    | _ => match struct_spec k with Some _ => true | None => false end
                    end) all_kinds = true.
Proof. vm_compute. reflexivity. Qed.

(** a real statement with literals, functions, a sub-select, a join, IN, BETWEEN, ORDER BY, LIMIT; a real
    pattern with %%COLUMN%%, %%SUBQUERY%%, %%VALUE%%, %%LIST_OF_VALUES%%; a near miss (DESC -> ASC) *)
Example C05_pattern_rich_example :
  wf W_RICH = true /\ supported W_RICH = true /\ top_kind (tkind W_RICH) = true /\ wf W_RICH_PAT = true /\
  match_impl W_RICH_PAT W_RICH = Ok true /\ instance_of W_RICH_PAT W_RICH = true /\
  match_impl W_RICH_PAT W_RICH_MISS = Ok false /\ instance_of_loose W_RICH_PAT W_RICH_MISS = false.
Proof. vm_compute. repeat split; reflexivity. Qed.

(** a selection of positions: the select list (-> `*`) and the WHERE field (-> %%WHERE%%) of W_RICH *)
Definition sel_example (path : list nat) : gsel :=
  match path with [4] => GOther | [6] => GOther | [9; 0; 0] => GColumn | _ => GNone end.

Example C05_pattern_generalise_example :
  tree_eqb (generalise sel_example [] W_RICH) W_RICH = false /\
  no_where_ph (generalise sel_example [] W_RICH) = false /\
  match_impl (generalise sel_example [] W_RICH) W_RICH = Ok true /\
  match_impl (generalise sel_example [] W_RICH) W_RICH_MISS = Ok true /\   (* ORDER BY comes after %%WHERE%% *)
  instance_of (generalise sel_example [] W_RICH) W_RICH_MISS = false.
Proof. vm_compute. repeat split; reflexivity. Qed.

(** CAST / CONVERT / CASE / INTERVAL: the statement as its own pattern (nil dereference, inverted and crossed
    comparisons before the fix); RETURNING is part of the statement *)
Example C05_pattern_fixed_examples :
  wf W_CAST = true /\ match_impl W_CAST W_CAST = Ok true /\
  match_impl W_INSERT_PAT W_INSERT = Ok true /\ match_impl W_INSERT_PAT W_INSERT_RET = Ok false /\
  instance_of W_INSERT_PAT W_INSERT_RET = false.
Proof. vm_compute. repeat split; reflexivity. Qed.

(** [Panic] is not vacuous in the model: a damaged tree (EXISTS without its sub-query) makes the comparator
    dereference nil, as the real code does (replayed: OpMatchRaw) *)
Example C05_pattern_panic_reachable :
  meq where_pat (T K_ExistsExpr [] [tnil]) (T K_ExistsExpr [] [tnil]) = Panic /\
  wf (T K_ExistsExpr [] [tnil]) = false.
Proof. vm_compute. split; reflexivity. Qed.
