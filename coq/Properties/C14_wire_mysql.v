(** C14, MySQL wire decoders: never panic, consume within bounds (CHECKED model Model/MysqlWireExt.v over
    Lib/GoSlice.v).  [len data < TWO63] is a fact about Go slices (the model's lists are unbounded).
    The […_old_refuted] theorems replay, on the model of the code as found, the inputs that panicked on the real
    code before the fixes. *)
From Acra Require Import Lib.Bytes Lib.Outcome Lib.GoSlice Gen.WireMysqlConsts Model.MysqlWire Model.MysqlWireExt
  Proofs.MysqlWire Proofs.MysqlWireExt.
Local Open Scope Z_scope.

Theorem C14_mysql_read_packet_total : forall maxp s, read_packet maxp s <> Panic.
Proof. exact mysql_read_packet_total. Qed.
Print Assumptions C14_mysql_read_packet_total.

(** what is returned arrived: payload + unread rest + one header fit into the stream (no length-driven allocation
    beyond one packet of at most 2^24-1 bytes, see the oom oracle) *)
Theorem C14_mysql_read_packet_bounded : forall maxp s p rest,
  read_packet maxp s = Ok (p, rest) -> (length (p_data p) + length rest + 4 <= length s)%nat.
Proof. exact mysql_read_packet_bounded. Qed.
Print Assumptions C14_mysql_read_packet_bounded.

Theorem C14_mysql_read_packet_shape : forall maxp s p rest,
  read_packet maxp s = Ok (p, rest) -> length (p_header p) = 4%nat /\ p_data p <> [].
Proof. exact mysql_read_packet_shape. Qed.
Print Assumptions C14_mysql_read_packet_shape.

(** IsOK / IsEOF / IsErr / isResultSetRowsEnd index data[0]: total on every packet ReadPacket returns *)
Theorem C14_mysql_classification_total : forall maxp p, p_data p <> [] ->
  is_ok p <> Panic /\ is_eof p <> Panic /\ is_err p <> Panic /\ is_rows_end maxp p <> Panic.
Proof. exact mysql_classification_total. Qed.
Print Assumptions C14_mysql_classification_total.

Theorem C14_mysql_process_binary_row_total : forall tr row tys,
  (forall i v, tr i v <> Panic) -> len row < TWO63 -> process_binary_row_seen true tr row tys <> Panic.
Proof. exact mysql_process_binary_row_total. Qed.
Print Assumptions C14_mysql_process_binary_row_total.

Theorem C14_mysql_process_binary_row_old_refuted :
  process_binary_row false (fun _ v => Ok []) (hb 0x100) [3%N; 252%N] = Panic /\
  process_binary_row false (fun _ v => Ok []) (hb 0x10000010203) [3%N; 252%N] = Panic /\
  process_binary_row false (fun _ v => Ok []) [] [3%N] = Panic.
Proof. exact mysql_process_binary_row_old_refuted. Qed.
Print Assumptions C14_mysql_process_binary_row_old_refuted.

(** the width extractData slices and the width the added check consults come from two tables of the code *)
Theorem C14_mysql_extract_tables_consistent : forall ty,
  match extract_kind ty with
  | KFixed w => storage_width ty = Some w /\ 0 <= w /\ w <= 8
  | KLenenc => storage_width ty = None
  | KUnknown => True
  end.
Proof. exact kind_storage. Qed.
Print Assumptions C14_mysql_extract_tables_consistent.

Theorem C14_mysql_parse_result_field_total : forall maria data,
  len data < TWO63 -> parse_result_field true maria data <> Panic.
Proof. exact mysql_parse_result_field_total. Qed.
Print Assumptions C14_mysql_parse_result_field_total.

Theorem C14_mysql_parse_result_field_old_refuted :
  parse_result_field false false (firstn 14 coldef_sample) = Panic /\
  parse_result_field false true (firstn 14 coldef_sample) = Panic /\
  parse_result_field false false (firstn 17 coldef_sample) = Panic /\
  parse_result_field false true (firstn 20 coldef_sample) = Panic /\
  parse_result_field false false (firstn 24 coldef_sample) = Panic /\
  parse_result_field false false (coldef_sample ++ hb 0x1feffffffffffffffff) = Panic /\
  parse_result_field false false (coldef_sample ++ hb 0x1fe0000000000000080) = Panic /\
  (forall m, Outcome.is_ok (parse_result_field true m (firstn 14 coldef_sample)) = false) /\
  Outcome.is_ok (parse_result_field true false coldef_sample) = true.
Proof. exact mysql_parse_result_field_old_refuted. Qed.
Print Assumptions C14_mysql_parse_result_field_old_refuted.

Theorem C14_mysql_get_bind_parameters_total : forall data pn,
  len data < TWO63 -> get_bind_parameters true data pn <> Panic.
Proof. exact mysql_get_bind_parameters_total. Qed.
Print Assumptions C14_mysql_get_bind_parameters_total.

Theorem C14_mysql_get_bind_parameters_old_refuted :
  get_bind_parameters false (firstn 5 execute_sample) 2 = Panic /\
  get_bind_parameters false (firstn 10 execute_sample) 2 = Panic /\
  get_bind_parameters false (firstn 11 execute_sample) 2 = Panic /\
  get_bind_parameters false (firstn 13 execute_sample) 2 = Panic /\
  get_bind_parameters false (firstn 15 execute_sample) 2 = Panic /\
  set_parameters false (mk_packet (hb 0x105000000) (firstn 5 execute_sample)) [mk_new_param 3 (Ok false) (Ok [])] = Panic /\
  Outcome.is_ok (get_bind_parameters true execute_sample 2) = true /\
  (forall k, (k < 23)%nat -> Outcome.is_ok (get_bind_parameters true (firstn k execute_sample) 2) = false).
Proof. exact mysql_get_bind_parameters_old_refuted. Qed.
Print Assumptions C14_mysql_get_bind_parameters_old_refuted.

Theorem C14_mysql_set_parameters_total : forall p vals, Forall np_sane vals -> set_parameters true p vals <> Panic.
Proof. exact mysql_set_parameters_total. Qed.
Print Assumptions C14_mysql_set_parameters_total.
