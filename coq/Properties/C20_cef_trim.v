(** C20, CEF: which bytes the verifier authenticates.  CefLogParser.ParseEntry applies strings.TrimSpace to the
    text AFTER the " integrity=" token only; RawData is the text before the token, byte for byte.  The CEF
    formatter renders an empty value as one blank, so written entries can END in a blank (last sorted field
    empty) — that blank is authenticated by the hook and must reach the verifier's HMAC input.
    Only statements, closed by [exact]; proofs in Proofs/AuditLogCefTrim.v. *)
From Coq Require Import String.
From Acra Require Import Lib.Bytes Lib.Outcome Lib.Sha256 Gen.AuditLogConsts Model.AuditLog
  Proofs.AuditLogCrypto Proofs.AuditLogParse Proofs.AuditLog Proofs.AuditLogWitness Proofs.AuditLogCefTrim.

(** for EVERY formatted entry (arbitrary bytes, at least as long as the hook's truncation) and every writer state:
    the line the hook writes parses back to RawData = the authenticated bytes, the integrity value the hook
    computed over them, and the chain marker — entries ending in blanks included *)
Theorem C20_cef_written_rawdata_is_authenticated_bytes :
  forall (cef : bool) (c : calc) (formatted body chunk : bytes) (c' : calc),
  body_of cef formatted = Ok body ->
  post_format cef c formatted = Ok (chunk, c') ->
  parse_text cef (unnl chunk)
  = POk (mk_parsed body (fst (fst (calc_step c body))) (first_check c) (end_marked body)).
Proof. exact cef_written_rawdata. Qed.
Print Assumptions C20_cef_written_rawdata_is_authenticated_bytes.

(** the CEF formatter's output is [body ++ " \n"]: for every [body] (it may end in any number of blanks)
    the hook writes a line and RawData of that line is exactly [body] *)
Theorem C20_cef_rawdata_keeps_trailing_blanks :
  forall (c : calc) (body : bytes),
  exists chunk c', post_format true c (body ++ [x20; x0a]) = Ok (chunk, c') /\
  match parse_text true (unnl chunk) with POk p => p_raw p = body | _ => False end.
Proof. exact cef_written_rawdata_trailing. Qed.
Print Assumptions C20_cef_rawdata_keeps_trailing_blanks.

(** bytes inserted at the start of a written line ([pre]) or right before " integrity=" ([post]) — blanks in
    particular — are part of RawData: the parser does not trim them away *)
Theorem C20_cef_whitespace_insertion_changes_rawdata :
  forall (cef : bool) (body pre post agg : bytes) (nc : bool),
  agg <> [] -> pre ++ post <> [] ->
  exists p, parse_text cef ((pre ++ body ++ post) ++ suffix_of agg nc) = POk p /\
            p_raw p = pre ++ body ++ post /\ p_raw p <> body /\ p_integ p = agg.
Proof. exact ws_insert_changes_rawdata. Qed.
Print Assumptions C20_cef_whitespace_insertion_changes_rawdata.

(** … so the edited line (original integrity value kept) is rejected at that very line, or SHA-256 collides *)
Theorem C20_cef_whitespace_insertion_detected_at_once :
  forall (cef : bool) K st st' (c : calc) (body pre post : bytes),
  v_calc st = c -> length (ck c) = 32 -> first_check c = false -> pre ++ post <> [] ->
  let agg := fst (fst (calc_step c body)) in
  (forall p, parse_text cef ((pre ++ body ++ post) ++ suffix_of agg false) = POk p ->
             verify_step K st p = inl st' -> sha_collision).
Proof. exact ws_insert_detected_at_once. Qed.
Print Assumptions C20_cef_whitespace_insertion_detected_at_once.

(** non-vacuity: the model's TrimSpace does strip such blanks where it is applied; a CEF log with an entry ending
    in "zone= " (and one with an empty field before unixTime) is written, verifies, RawData keeps the blank, and
    removing the blank / adding a blank before the token / at the start of the line is rejected at that line,
    while blanks after the integrity value are trimmed and accepted *)
Example C20_cef_trim_space_strips :
  trim_space (s "  " ++ [x09] ++ s "zone=" ++ [x20; xc2; xa0; x09]) = s "zone=" /\
  trim_space (s "zone= ") = s "zone=" /\ trim_space (s " ") = [].
Proof. exact trim_space_removes_blanks. Qed.

Example C20_cef_trailing_blank_entry :
  write_text true (calc_new wK) ev_cef_blank = Ok ch_cef_blank /\ wf_evs true wK None ev_cef_blank = true /\
  verify_lines true wK (map unnl ch_cef_blank) = VAccept /\
  verify_file true wK (concat ch_cef_blank) = VAccept /\
  raw_of (parse_text true (ln_cef_blank 1)) = s "CEF:0|cossacklabs|acra|0.96.0|100|second|1|unixTime=2.000 zone= " /\
  raw_of (parse_text true (ln_cef_blank 2)) = s "CEF:0|cossacklabs|acra|0.96.0|100|third|1|a=  unixTime=3.000" /\
  verify_lines true wK (edit1_at (body1_len - 1) 1 []) = VFail 1 C_MISMATCH /\
  verify_lines true wK (edit1_at body1_len 0 [x20]) = VFail 1 C_MISMATCH /\
  verify_lines true wK (edit1_at body1_len 0 [x09]) = VFail 1 C_MISMATCH /\
  verify_lines true wK (edit1_at 0 0 [x20]) = VFail 1 C_MISMATCH /\
  verify_lines true wK (edit1_at (length (ln_cef_blank 1)) 0 [x20; x09]) = VAccept.
Proof. exact cef_trailing_blank_example. Qed.
