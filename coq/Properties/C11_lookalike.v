(** C11, write path — a masked value whose PROTECTED part only LOOKS like an envelope is encrypted all the same.
    masking.DataEncryptor.encryptByFunction hands the protected remainder to RegistryHandler.EncryptWithClientID,
    whose shortcut "already encrypted on the application side, store as is" is
    [handler.MatchDataSignature(data) || r.MatchDataSignature(data)]; the chain a proxy installs around it
    (EncryptHandler ; masking encryptor ; ReEncryptHandler, Model/MaskingWrite.v) is transparent for a masked column.
    Only statements, closed by [exact], and their assumptions.
    Vocabulary (Proofs/MaskingWrite.v): [complete_container h] = header accepted (tag, > 12 bytes, registered envelope
    id), declared length fits, inner bytes carry the declared envelope's signature; [raw_old_envelope h] = a complete
    raw AcraStruct / AcraBlock; [looks_protected id h] (C01) = what the write path stores as it is. *)
From Acra Require Import Lib.Bytes Lib.Outcome Crypto.Interface Gen.Consts Gen.MaskConsts
  Model.Envelope Model.EnvelopeOld Model.Masking Model.MaskingWrite
  Proofs.Envelope Proofs.EnvelopeHandlers Proofs.Scanner Proofs.Containers Proofs.Masking Proofs.MaskingWrite.

(** the write-side decision, spelled out: tag, registered id, declared length fits, inner signature - or a complete
    raw envelope *)
Theorem C11_lookalike_write_decision :
  forall (id : byte) (h : bytes),
  looks_protected id h = true <->
  handler_match id h = true \/ complete_container h \/ (sc_validate h = None /\ raw_old_envelope h).
Proof. exact looks_protected_spec. Qed.
Print Assumptions C11_lookalike_write_decision.

(** look-alike 1: a container header ('%%%', 8 arbitrary bytes, a registered envelope id, at least one more byte)
    whose declared length does not fit *)
Theorem C11_lookalike_header_unfitting_length :
  forall (id : byte) (h : bytes),
  handler_match id h = false -> sc_validate h <> None -> sc_internal_length h = None -> looks_protected id h = false.
Proof. exact header_with_unfitting_length_not_protected. Qed.
Print Assumptions C11_lookalike_header_unfitting_length.

(** look-alike 2: the declared length fits, the inner bytes are not an envelope of the declared kind *)
Theorem C11_lookalike_header_foreign_inner :
  forall (id id' : byte) (n : N) (h : bytes),
  handler_match id h = false -> sc_validate h = Some id' -> sc_internal_length h = Some n ->
  handler_match id' (firstn (N.to_nat n) (skipn SC_MIN_SIZE h)) = false -> looks_protected id h = false.
Proof. exact header_with_foreign_inner_not_protected. Qed.
Print Assumptions C11_lookalike_header_foreign_inner.

(** look-alike 3: no container header and not a complete raw envelope (a raw tag prefix, a truncated raw envelope) *)
Theorem C11_lookalike_raw_tag_prefix :
  forall (id : byte) (h : bytes),
  known_envelope id = true -> sc_validate h = None -> as_validate h = false -> is_ok (ab_extract h) = false ->
  looks_protected id h = false.
Proof. exact no_header_no_raw_envelope_not_protected. Qed.
Print Assumptions C11_lookalike_raw_tag_prefix.

(** bytes that start with the container tag never carry a raw envelope's signature (premise of 1 and 2) *)
Theorem C11_lookalike_container_tag_is_no_raw_signature :
  forall (id : byte) (h : bytes), starts_with sc_tag h = true -> handler_match id h = false.
Proof. exact container_tag_no_handler_match. Qed.
Print Assumptions C11_lookalike_container_tag_is_no_raw_signature.

(** the encryptor chain of the proxies is the masking encryptor for a masked column *)
Theorem C11_lookalike_write_chain_is_masking_encryptor :
  forall (C : crypto) (id : byte) (ks : keyset) (tape : list bytes) (st : mask_setting) (reenc : bool) (data : bytes),
  ms_pattern st <> [] -> write_chain C id ks tape st reenc data = mask_encryptor C id ks tape st data.
Proof. exact write_chain_masked. Qed.
Print Assumptions C11_lookalike_write_chain_is_masking_encryptor.

(** hence: a hidden part that is not a complete valid envelope IS encrypted - the stored value is the clear window
    joined with a fresh envelope which opens to exactly the hidden part (and C11_mask_owner_gets_original /
    C11_mask_non_owner_view give what each reader sees); all patterns, all window lengths, both sides *)
Theorem C11_lookalike_hidden_part_is_encrypted_asymmetric :
  forall (C : crypto), Correct C ->
  forall (st : mask_setting) (ks ks' : keyset) (tape : list bytes) (reenc : bool) (x sb : bytes) (before after : list bytes),
  validate_masking_params st = true ->
  looks_protected ENVELOPE_ID_ACRASTRUCT (mask_hidden st x) = false ->
  mask_hidden st x <> [] -> (N.of_nat (length (mask_hidden st x)) < MAXMSG)%N -> good_as_tape tape -> length sb = SEED_LEN ->
  ks_pub ks = Some (pub_of C sb) ->
  ks_privs ks' = before ++ priv_of C sb :: after ->
  (forall v, Forall (fun p => exists e, as_decrypt C v p [] = Err e) before) ->
  exists v inner,
    write_chain C ENVELOPE_ID_ACRASTRUCT ks tape st reenc x = Ok (mask_join st (mask_window st x) v) /\
    is_envelope ENVELOPE_ID_ACRASTRUCT inner v /\
    handler_decrypt C ENVELOPE_ID_ACRASTRUCT ks' inner = Ok (mask_hidden st x) /\
    length (mask_hidden st x) < length inner.
Proof. exact lookalike_hidden_part_encrypted_asymmetric. Qed.
Print Assumptions C11_lookalike_hidden_part_is_encrypted_asymmetric.

Theorem C11_lookalike_hidden_part_is_encrypted_symmetric :
  forall (C : crypto), Correct C ->
  forall (st : mask_setting) (ks ks' : keyset) (tape : list bytes) (reenc : bool) (x key : bytes) (rest before after : list bytes),
  validate_masking_params st = true ->
  looks_protected ENVELOPE_ID_ACRABLOCK (mask_hidden st x) = false ->
  mask_hidden st x <> [] -> (N.of_nat (length (mask_hidden st x)) < MAXMSG)%N -> good_ab_tape tape -> key <> [] ->
  ks_syms ks = key :: rest ->
  ks_syms ks' = before ++ key :: after ->
  (forall ek, Forall (fun k => bytes_eqb (ab_key_id k []) (ab_key_id key []) = false
                               \/ cell_decrypt C k [] ek = None) before) ->
  exists v inner,
    write_chain C ENVELOPE_ID_ACRABLOCK ks tape st reenc x = Ok (mask_join st (mask_window st x) v) /\
    is_envelope ENVELOPE_ID_ACRABLOCK inner v /\
    handler_decrypt C ENVELOPE_ID_ACRABLOCK ks' inner = Ok (mask_hidden st x) /\
    length (mask_hidden st x) < length inner.
Proof. exact lookalike_hidden_part_encrypted_symmetric. Qed.
Print Assumptions C11_lookalike_hidden_part_is_encrypted_symmetric.

(** the legitimate case of the shortcut: a hidden part that IS a protected value is stored as it is *)
Theorem C11_lookalike_protected_value_stored_as_is :
  forall (C : crypto) (id : byte) (ks : keyset) (tape : list bytes) (st : mask_setting) (reenc : bool) (x : bytes),
  validate_masking_params st = true -> looks_protected id (mask_hidden st x) = true ->
  write_chain C id ks tape st reenc x = Ok x.
Proof. exact protected_hidden_part_stored_as_is. Qed.
Print Assumptions C11_lookalike_protected_value_stored_as_is.

(** non-vacuity on the stand-in crypto: "4111" ++ '%%%12345678' ++ F0 9F 98 80 (an emoji: the UTF-8 lead byte is a
    registered envelope id) ++ text; a truncated real container; a real container with an oversized declared length *)
From Acra Require Import Crypto.Stub Proofs.StubCorrect.
Local Open Scope Z_scope.
Definition w_tape : list bytes := [repeat_bytes x05 32; repeat_bytes x06 12; repeat_bytes x08 12].
Definition w_as_tape : list bytes := [repeat_bytes x01 32; repeat_bytes x02 32; repeat_bytes x03 12; repeat_bytes x04 12].
Definition w_owner := Build_keyset (Some (pub_of Stub (repeat_bytes x09 32))) [priv_of Stub (repeat_bytes x09 32)] [repeat_bytes x07 32] None.
Definition w_other := Build_keyset (Some (pub_of Stub (repeat_bytes x0b 32))) [priv_of Stub (repeat_bytes x0b 32)] [repeat_bytes x0c 32] None.
Definition w_pat : bytes := [x78; x78; x78; x78].
Definition w_left := Build_mask_setting w_pat 4 MASK_SIDE_LEFT ENC_TYPE_STRING.
Definition w_look : bytes :=
  [x25; x25; x25; x31; x32; x33; x34; x35; x36; x37; x38; xf0; x9f; x98; x80; x20; x63; x76; x76; x3d; x37; x33; x37].
Definition w_x : bytes := [x34; x31; x31; x31] ++ w_look.
Definition w_getok (r : res bytes) : bytes := match r with Ok v => v | _ => [] end.
Definition w_stored : bytes := Eval vm_compute in w_getok (write_chain Stub ENVELOPE_ID_ACRABLOCK w_owner w_tape w_left false w_x).
Definition w_foreign : bytes := Eval vm_compute in w_getok (encrypt_with_handler Stub ENVELOPE_ID_ACRASTRUCT w_other w_as_tape [x73; x65; x63]).

Example C11_lookalike_concrete :
  mask_hidden w_left w_x = w_look /\
  sc_validate w_look = Some ENVELOPE_ID_ACRABLOCK /\ sc_internal_length w_look = None /\
  looks_protected ENVELOPE_ID_ACRABLOCK w_look = false /\
  write_chain Stub ENVELOPE_ID_ACRABLOCK w_owner w_tape w_left false w_x = Ok w_stored /\
  firstn 4 w_stored = firstn 4 w_x /\ Nat.ltb 100 (length w_stored) = true /\
  masked_read Stub (Some w_left) w_owner w_stored = Ok (w_x, true) /\
  masked_read Stub (Some w_left) w_other w_stored = Ok (firstn 4 w_x ++ w_pat, true) /\
  (* a truncated and an oversized real container are look-alikes too *)
  looks_protected ENVELOPE_ID_ACRABLOCK (firstn (length w_foreign - 3) w_foreign) = false /\
  looks_protected ENVELOPE_ID_ACRABLOCK (w_foreign ++ [x00]) = true /\
  (* the legitimate case: a complete container of another client is stored as it is *)
  looks_protected ENVELOPE_ID_ACRABLOCK w_foreign = true /\
  write_chain Stub ENVELOPE_ID_ACRABLOCK w_owner w_tape w_left false (firstn 4 w_x ++ w_foreign) = Ok (firstn 4 w_x ++ w_foreign).
Proof. repeat split; vm_compute; reflexivity. Qed.
