(** C05 (extension) — the SQL firewall in the MySQL proxy: a rejected COM_QUERY / COM_STMT_PREPARE never reaches the
    database, is answered with one well-formed ERR packet, and the statements the session goes on to accept are
    processed with their own settings.  Only statements, closed by [exact], and their assumptions.

    Model: Model/MysqlSession.v = decryptor/mysql (ProxyClientConnection command switch, sendCommandError,
    handleStatementExecute, ProxyDatabaseConnection, the five response handlers, PreparedStatementRegistry,
    ProtocolState, QueryDataEncryptor.querySelectSettings) AFTER patches/x05my/fix_mysql_censored_session.diff.
      client_step st (CP c seq parts)   one client command (sequence id of its first wire packet, wire packets)
      db_step st d                      one database packet (a result set is one event)
      run_session                       any history of commands and ANY database packets (no assumption on the server)
      sys_run                           proxy + a MySQL server that answers what it receives, one exchange at a time
                                        (the protocol is half-duplex); what the server does with a statement
                                        (OK / error / which rows) is part of the history
    Replay: Model/RunMysqlSession.v against the real proxy in-process (domain c05my). *)
From Coq Require Import List Bool NArith.
From Acra Require Import Lib.Bytes Lib.Outcome Gen.MysqlSessionConsts Gen.WireMysqlConsts.
From Acra Require Import Model.CensorPattern.
From Acra Require Model.Censor Proofs.Censor.
From Acra Require Import Model.MysqlSession Proofs.MysqlSession Proofs.MysqlSessionCensor.
(* the replay module of the correspondence check belongs to the cone built by ./check *)
From Acra Require Model.RunMysqlSession.
Import ListNotations.
Local Open Scope N_scope.

(** in EVERY state (hence after every history): a rejected COM_QUERY / COM_STMT_PREPARE writes nothing to the
    database connection, is answered with exactly one ERR packet whose sequence id is the id of the command's
    last wire packet + 1, and leaves response handler, settings in force, registry and liveness untouched *)
Theorem C05_mysql_rejected_statement_answer :
  forall (st : state) (p : cpacket),
  is_rejected (c_cmd p) = true ->
  let '(st', os) := client_step st p in
  forwarded_of os = []
  /\ (closed st = false -> os = [ErrToClient (answer_seq (c_seq p) (c_parts p))])
  /\ handler st' = handler st /\ cur st' = cur st /\ registry st' = registry st /\ closed st' = closed st.
Proof. exact rejected_statement_answer. Qed.
Print Assumptions C05_mysql_rejected_statement_answer.

Example C05_mysql_rejected_statement_example :
  client_step (St HQuery 22 (Some 9) (Some 9) [(1, 9)] false) (CP (CPrepare 19 true) 0 1)
  = (St HQuery MYS_COM_STMT_PREPARE (Some 9) None [(1, 9)] false, [ErrToClient 1])
  /\ answer_seq 255 2 = 1 /\ wire_parts 16777215 = 2 /\ wire_parts 31 = 1.
Proof. vm_compute. repeat split. Qed.

(** the bytes of that answer: 3-byte payload length, the sequence id, the ERR marker, error code 1317 *)
Theorem C05_mysql_error_packet_wellformed :
  forall (p41 : bool) (msg : bytes) (first len : N),
  N.of_nat (length (interrupted_error p41 msg)) < 256 ^ 3 ->
  let pkt := command_error_packet p41 msg first len in
  le_dec (firstn 3 pkt) = N.of_nat (length pkt) - 4
  /\ nth_error pkt 3 = Some (n2b (answer_seq first (wire_parts len)))
  /\ nth_error pkt 4 = Some (n2b MY_ERR)
  /\ le_dec (firstn 2 (skipn 5 pkt)) = MYS_ER_QUERY_INTERRUPTED.
Proof. exact command_error_packet_wellformed. Qed.
Print Assumptions C05_mysql_error_packet_wellformed.

Theorem C05_mysql_answer_seq_single_packet :
  forall first len : N, len < MY_MAX_PAYLOAD -> answer_seq first (wire_parts len) = N.land (first + 1) 255.
Proof. exact answer_seq_single. Qed.
Print Assumptions C05_mysql_answer_seq_single_packet.

Example C05_mysql_error_packet_example :
  command_error_packet true MYS_QUERY_INTERRUPTED_MESSAGE 0 32
  = hb 0x128000001ff2505233730313030517565727920657865637574696f6e2077617320696e746572727570746564.
Proof. vm_compute. reflexivity. Qed.

(** for EVERY session history and WHATEVER the database sends: a statement written to the database connection
    is a statement the client sent in a command AcraCensor accepted, under that command's sequence id *)
Theorem C05_mysql_forwarded_was_accepted :
  forall (strict : N -> bool) (depeof : bool) (evs : list (cpacket * list dpkt)) (st : state) (f : fwd) (seq parts : N),
  In (ToDb f seq parts) (snd (run_session strict depeof st evs)) ->
  exists p ds, In (p, ds) evs /\ c_seq p = seq /\ c_parts p = parts /\
    match f with
    | FQuery s => c_cmd p = CQuery s false
    | FPrepare s => c_cmd p = CPrepare s false
    | _ => True
    end.
Proof. exact forwarded_was_accepted. Qed.
Print Assumptions C05_mysql_forwarded_was_accepted.

Theorem C05_mysql_denied_never_forwarded :
  forall (strict : N -> bool) (depeof : bool) (v : N -> bool) (evs : list (cpacket * list dpkt)) (st : state),
  (forall p ds s d, In (p, ds) evs -> c_cmd p = CQuery s d \/ c_cmd p = CPrepare s d -> d = v s) ->
  forall s seq parts,
    In (ToDb (FQuery s) seq parts) (snd (run_session strict depeof st evs))
    \/ In (ToDb (FPrepare s) seq parts) (snd (run_session strict depeof st evs)) ->
    v s = false.
Proof. exact denied_never_forwarded. Qed.
Print Assumptions C05_mysql_denied_never_forwarded.

(** the verdict is the chain verdict of Model/Censor.v: whatever reaches the database is allowed by the
    independent chain specification *)
Theorem C05_mysql_rejected_never_reaches_database :
  forall (strict : N -> bool) (depeof : bool) (c : Acra.Model.Censor.censor)
         (view : N -> bool * list Acra.Model.Censor.handler) (evs : list (cpacket * list dpkt)) (st : state),
  (forall p ds s d, In (p, ds) evs -> c_cmd p = CQuery s d \/ c_cmd p = CPrepare s d ->
     d = Acra.Model.Censor.is_denied (Acra.Model.Censor.handle_query c (fst (view s)) (snd (view s)))) ->
  forall s seq parts,
    In (ToDb (FQuery s) seq parts) (snd (run_session strict depeof st evs))
    \/ In (ToDb (FPrepare s) seq parts) (snd (run_session strict depeof st evs)) ->
    Acra.Proofs.Censor.spec_verdict c (fst (view s)) (snd (view s)) = Acra.Model.Censor.Allowed.
Proof. exact rejected_never_reaches_database. Qed.
Print Assumptions C05_mysql_rejected_never_reaches_database.

(** ... and, with the pattern result computed by the modelled matcher (match_impl): a statement one of whose
    generalisations is listed by a deny handler is never written to the database connection *)
Theorem C05_mysql_generalised_deny_pattern_never_forwarded :
  forall (strict : N -> bool) (depeof : bool) (c : Acra.Model.Censor.censor)
         (pre post : list Acra.Model.Censor.handler) (stt : N -> Acra.Model.Censor.stmt_tables)
         (hq mq : bool) (ts : list bytes) (ps : list tree) (sel : list nat -> gsel) (tree_of : N -> tree)
         (evs : list (cpacket * list dpkt)) (st : state) (s : N),
  Forall (Acra.Proofs.Censor.silent true) pre ->
  forallb wf ps = true -> wf (tree_of s) = true -> supported (tree_of s) = true ->
  top_kind (tkind (tree_of s)) = true ->
  In (generalise sel [] (tree_of s)) ps ->
  (forall p ds s' d, In (p, ds) evs -> c_cmd p = CQuery s' d \/ c_cmd p = CPrepare s' d ->
     d = Acra.Model.Censor.is_denied (Acra.Model.Censor.handle_query c true
           (pre ++ Acra.Model.Censor.HDeny
                     (Acra.Model.Censor.rules_of (stt s') hq mq ts (negb (Acra.Model.Censor.is_nil ps))
                        (pattern_hit ps (tree_of s'))) :: post))) ->
  forall seq parts,
    ~ (In (ToDb (FQuery s) seq parts) (snd (run_session strict depeof st evs))
       \/ In (ToDb (FPrepare s) seq parts) (snd (run_session strict depeof st evs))).
Proof. exact generalised_deny_pattern_never_forwarded. Qed.
Print Assumptions C05_mysql_generalised_deny_pattern_never_forwarded.

(** for EVERY session history and WHATEVER the database sends: every registered statement, and the pending one
    a COM_STMT_EXECUTE -1 stands for, is the statement of an ACCEPTED COM_STMT_PREPARE of that history *)
Theorem C05_mysql_registry_only_accepted :
  forall (strict : N -> bool) (depeof : bool) (evs : list (cpacket * list dpkt)),
  let st := fst (run_session strict depeof init evs) in
  (forall id s, In (id, s) (registry st) -> accepted_prepare evs s)
  /\ (forall s, pparse st = Some s -> accepted_prepare evs s).
Proof. exact registry_only_accepted. Qed.
Print Assumptions C05_mysql_registry_only_accepted.

Theorem C05_mysql_rejected_never_registered :
  forall (strict : N -> bool) (depeof : bool) (evs : list (cpacket * list dpkt)) (s : N),
  (forall p ds d, In (p, ds) evs -> c_cmd p = CPrepare s d -> d = true) ->
  let st := fst (run_session strict depeof init evs) in
  (forall id, ~ In (id, s) (registry st)) /\ pparse st <> Some s.
Proof. exact rejected_never_registered. Qed.
Print Assumptions C05_mysql_rejected_never_registered.

(** every statement the session goes on to accept is processed according to that statement: with a server that
    answers what it receives, every row reaches the client decoded with the settings of the statement that
    produced it — for all interleavings of accepted and rejected COM_QUERY / COM_STMT_PREPARE, executions by id
    and by -1, COM_STMT_CLOSE / RESET / SEND_LONG_DATA and other commands, whatever the server answers, in
    both EOF modes *)
Theorem C05_mysql_rows_own_settings :
  forall (strict : N -> bool) (depeof : bool) (nparams ncols : N -> N)
         (evs : list (cpacket * choice)) (producer : N) (settings : option N),
  In (RowObs producer settings) (snd (sys_run strict depeof nparams ncols sys_init evs)) ->
  settings = Some producer.
Proof. exact rows_own_settings. Qed.
Print Assumptions C05_mysql_rows_own_settings.

(** ... and (no MariaDB direct execution in the history) no row passes unprocessed *)
Theorem C05_mysql_rows_always_decoded :
  forall (strict : N -> bool) (depeof : bool) (nparams ncols : N -> N) (evs : list (cpacket * choice)) (producer : N),
  (forall p ch, In (p, ch) evs -> is_direct (c_cmd p) = false) ->
  ~ In (RawObs producer) (snd (sys_run strict depeof nparams ncols sys_init evs)).
Proof. exact rows_always_decoded. Qed.
Print Assumptions C05_mysql_rows_always_decoded.

(** the session stays usable, and COM_STMT_PREPARE / CLOSE / RESET keep registry and server in step: after
    every history that does not end the session itself (COM_QUIT, truncated COM_STMT_EXECUTE) the proxy is
    alive, its response handler is at rest, no exchange made it give up, and its registry maps exactly the
    statement ids the server holds to the statements the server holds *)
Theorem C05_mysql_session_stays_usable :
  forall (strict : N -> bool) (depeof : bool) (nparams ncols : N -> N) (evs : list (cpacket * choice)),
  stays evs ->
  let y := fst (sys_run strict depeof nparams ncols sys_init evs) in
  closed (proxy y) = false
  /\ (forall id, lookup id (registry (proxy y)) = lookup id (bstmts (be y)))
  /\ resting (handler (proxy y))
  /\ ~ In (Other SessionClosed) (snd (sys_run strict depeof nparams ncols sys_init evs)).
Proof. exact session_stays_usable. Qed.
Print Assumptions C05_mysql_session_stays_usable.

(** non-vacuity: accepted / rejected PREPAREs, execution by -1 and by id, CLOSE, rejected and accepted queries *)
Example C05_mysql_history_example :
  In (RowObs 9 (Some 9)) w_obs /\ In (RowObs 18 (Some 18)) w_obs /\ In (RowObs 33 (Some 33)) w_obs
  /\ In (Other (ErrToClient 1)) w_obs
  /\ registry (proxy w_final) = [(2, 18)] /\ bstmts (be w_final) = [(2, 18)].
Proof. exact w_history_rows. Qed.

Example C05_mysql_history_stays : stays w_history.
Proof. intros p ch H. cbn in H. repeat (destruct H as [H|H]; [inversion H; subst; reflexivity|]). contradiction. Qed.

(** the code before the fix is refuted on the same statements *)
Theorem C05_mysql_rows_own_settings_refuted_pinned :
  exists evs producer settings,
    In (RowObs producer settings) (snd (sys_run_pinned w_strict false w_np w_nc sys_init evs))
    /\ settings <> Some producer.
Proof. exact own_settings_refuted_pinned. Qed.
Print Assumptions C05_mysql_rows_own_settings_refuted_pinned.

Theorem C05_mysql_answer_seq_refuted_pinned :
  exists st p, is_rejected (c_cmd p) = true /\ closed st = false
    /\ snd (client_step_pinned st p) <> [ErrToClient (answer_seq (c_seq p) (c_parts p))].
Proof. exact answer_seq_refuted_pinned. Qed.
Print Assumptions C05_mysql_answer_seq_refuted_pinned.

Theorem C05_mysql_registry_agrees_refuted_pinned :
  exists evs id,
    let y := fst (sys_run_pinned w_strict false w_np w_nc sys_init evs) in
    lookup id (registry (proxy y)) <> lookup id (bstmts (be y)).
Proof. exact registry_agrees_refuted_pinned. Qed.
Print Assumptions C05_mysql_registry_agrees_refuted_pinned.

Theorem C05_mysql_direct_execute_refuted_pinned :
  closed (proxy (fst (sys_run_pinned w_strict false w_np w_nc sys_init [ (cp0 (CExecute (Some MYS_DIRECT_ID)), ChOk) ]))) = true
  /\ In (RowObs 9 (Some 9))
        (snd (sys_run_pinned w_strict false w_np w_nc sys_init
                [ (cp0 (CPrepare 9 false), ChOk); (cp0 (CPrepare 18 true), ChOk);
                  (cp0 (CExecute (Some MYS_DIRECT_ID)), ChRows [true]) ])).
Proof. exact direct_execute_refuted_pinned. Qed.
Print Assumptions C05_mysql_direct_execute_refuted_pinned.

(** still true of the fixed code (known finding mysql-direct-execute-detached): a MariaDB COM_STMT_EXECUTE -1
    that does not follow its COM_STMT_PREPARE immediately finds no QueryResponseHandler installed and its rows
    pass unprocessed; this is why C05_mysql_rows_always_decoded excludes direct execution *)
Theorem C05_mysql_rows_always_decoded_refuted :
  exists evs producer,
    In (RawObs producer) (snd (sys_run w_strict false w_np w_nc sys_init evs)).
Proof. exact direct_execute_raw_rows_refuted. Qed.
Print Assumptions C05_mysql_rows_always_decoded_refuted.
