(** C07 — Keys at rest are encrypted, bound to their owner, tamper-evident and confined.
    Only statements, closed by [exact], and their assumptions.  Models: Model/Path.v (lexical
    filepath.Clean/Join, v2 osPath AS REPAIRED, v1 key-file paths with ValidateID AS REPAIRED),
    Model/KeyAtRest.v (keystore v1 state machine over content terms), Model/Notary.v (v2 key-ring
    signatures).  [C] is any crypto instance; [mac] any MAC function. *)
From Acra Require Import Lib.Bytes Lib.Outcome Crypto.Interface Crypto.Stub Gen.KsConsts
  Model.Path Model.KeyAtRest Model.Notary Proofs.Path Proofs.KeyAtRest Proofs.Notary.

(** ===== 1. confinement ===== *)
(** filepath.Clean: a cleaned rooted path has no ".." component *)
Theorem C07_clean_no_dotdot :
  forall p : bytes, is_rooted p = true -> ~ In dotdot (split_sep (clean p)).
Proof. exact clean_no_dotdot. Qed.
Print Assumptions C07_clean_no_dotdot.

(** filepath.Clean is idempotent — rooted paths only (partial: the relative case, with its leading
    ".." block, is not proved; the harness checks it on the real filepath.Clean) *)
Theorem C07_clean_idempotent_partial :
  forall p : bytes, is_rooted p = true -> clean (clean p) = clean p.
Proof. exact clean_idempotent_partial. Qed.
Print Assumptions C07_clean_idempotent_partial.

(** ops_confined, keystore v2 directory backend: for EVERY key path (any bytes: "/", "\", "..",
    empty components) the OS path an operation touches lies strictly below the (absolute) root:
    root as proper prefix followed by components none of which is "", "." or ".." *)
Theorem C07_ops_confined_v2 :
  forall root path full : bytes,
  is_rooted root = true -> os_path root path = Ok full ->
  confined root full /\
  (exists rest, rest <> [] /\ full = dir_prefix (clean root) ++ rest) /\
  ~ In dotdot (split_sep full).
Proof.
  intros root path full Hr H. pose proof (os_path_confined root path full Hr H) as Hc.
  split; [exact Hc|]. split; [exact (confined_proper_prefix root full Hc)| exact (confined_no_dotdot root full Hr Hc)].
Qed.
Print Assumptions C07_ops_confined_v2.

(** the repair keeps every well-formed key path, mapped as before *)
Theorem C07_ospath_accepts_wellformed :
  forall (root : bytes) (comps : list bytes),
  is_rooted root = true -> comps <> [] -> Forall good_comp comps -> ~ In BSL (join_sep comps) ->
  os_path root (join_sep comps) = Ok (dir_prefix (clean root) ++ join_sep comps).
Proof. exact os_path_accepts_good. Qed.
Print Assumptions C07_ospath_accepts_wellformed.

(** the pinned osPath (fixed by patches/fix_ospath.diff) let "../escaped" out of "/ks" *)
Theorem C07_ospath_pinned_refuted :
  exists root path full : bytes,
  is_rooted root = true /\ os_path_pinned root path = Ok full /\ ~ confined root full.
Proof. exact os_path_pinned_refuted. Qed.
Print Assumptions C07_ospath_pinned_refuted.

(** ops_confined, keystore v1: for EVERY client id and key kind, the path an entry point builds
    (after the id check every entry point now performs) resolves strictly below the key directory *)
Theorem C07_ops_confined_v1 :
  forall (dir : bytes) (k : v1kind) (id p : bytes),
  is_rooted dir = true -> v1_op_path dir k id = Ok p ->
  confined dir (clean p) /\ ~ In dotdot (split_sep (clean p)).
Proof.
  intros d k id p Hr H. pose proof (v1_op_confined d k id p Hr H) as Hc.
  split; [exact Hc| exact (confined_no_dotdot d (clean p) Hr Hc)].
Qed.
Print Assumptions C07_ops_confined_v1.

(** without the id check (pinned GenerateClientIDSymmetricKey, GenerateHmacKey, …; fixed by
    patches/fix_v1_validate_id.diff) the same builder leaves the directory *)
Theorem C07_v1_unvalidated_id_refuted :
  exists (dir id : bytes) (k : v1kind),
  is_rooted dir = true /\ ~ confined dir (clean (v1_path dir (v1_fname k id))).
Proof. exact v1_unvalidated_escapes. Qed.
Print Assumptions C07_v1_unvalidated_id_refuted.

(** ===== 2. encrypt before write, owner binding ===== *)
(** for ALL operation histories, tapes, starting states and crypto instances: every content handed
    to Storage.WriteFile / cache.Add is a seal under the sink's key (master key for files, cache key
    for the cache) whose associated data is the validated owner id, stored under a name of that
    owner — or clear bytes under a PUBLIC-key name *)
Theorem C07_stored_secrets_sealed :
  forall (C : crypto) (g : cfg) (s : st) (tape : list bytes) (ops : list kop) (e : event),
  In e (trace C g s tape ops) -> event_ok g e.
Proof. exact stored_secrets_sealed. Qed.
Print Assumptions C07_stored_secrets_sealed.

(** load_after_swap_fails (reduction): loading, with a cold cache, a file that holds a seal made for
    context [c1] under the name of ([k2],[id2]) succeeds only if [c1] is the binding context of
    ([k2],[id2]) — or an AEAD forgery (a seal opening under other associated data) is exhibited *)
Theorem C07_load_after_swap_fails :
  forall (C : crypto) (g : cfg) (s : st) (tape : list bytes) (k2 : v1kind) (id2 c1 n key v : bytes),
  lookup (priv_path g k2 id2) (files s) = Some (encode C (Sealed (master g) c1 n key)) ->
  lookup (v1_fname k2 id2) (cache s) = None ->
  o_res (load_secret C g s tape k2 id2) = Ok v ->
  c1 = kctx_bytes (v1_kctx k2 id2) \/ forgery C.
Proof. exact load_after_swap_fails. Qed.
Print Assumptions C07_load_after_swap_fails.

(** on a history: honest file of (k1,id1) copied over the name of (k2,id2), cache reset, load *)
Theorem C07_copy_to_other_owner_fails :
  forall (C : crypto) (g : cfg) (s : st) (tape : list bytes) (k1 : v1kind) (id1 : bytes) (k2 : v1kind) (id2 n key v : bytes),
  lookup (priv_path g k1 id1) (files s) = Some (encode C (Sealed (master g) (kctx_bytes (v1_kctx k1 id1)) n key)) ->
  o_res (load_secret C g (o_st (step C g (o_st (step C g s tape (CopyFile k1 id1 k2 id2))) tape ResetCache)) tape k2 id2) = Ok v ->
  id1 = id2 \/ forgery C.
Proof. exact copy_then_load_fails. Qed.
Print Assumptions C07_copy_to_other_owner_fails.

(** KNOWN FINDING v1-purpose-not-bound: the PURPOSE is not part of v1's associated data; the HMAC key
    file of a client copied to its "<id>_storage_sym" loads as that client's storage key *)
Theorem C07_v1_purpose_not_bound_refuted :
  exists g tape id hmac_key,
    KHmac <> KStorageSym /\
    option_map o_res (nth_error (run_hist Stub g st0 tape
        [GenHmac id; CopyFile KHmac id KStorageSym id; ResetCache; GetSym id]) 3) = Some (Ok hmac_key) /\
    nth_error tape 0 = Some hmac_key.
Proof. exact v1_purpose_not_bound_refuted. Qed.
Print Assumptions C07_v1_purpose_not_bound_refuted.

(** ===== 3. key-ring tamper evidence (keystore v2) ===== *)
(** ring_tamper_detected (reduction to the MAC): a ring file — any payload bytes under any path — is
    accepted only if exactly (signature context of that path, ": ", that whole payload) is among the
    messages the keystore signed, or a MAC forgery is exhibited *)
Theorem C07_ring_tamper_detected :
  forall (mac : bytes -> bytes -> bytes) (algs sigs : list (bytes * bytes)) (path payload : bytes) (signed : list bytes),
  verify_ring mac algs sigs path payload = Ok tt ->
  In (mac_input (ring_sig_ctx path) payload) signed \/ mac_forgery mac algs sigs signed.
Proof. exact ring_tamper_detected. Qed.
Print Assumptions C07_ring_tamper_detected.

Theorem C07_ring_verify_sound :
  forall (mac : bytes -> bytes -> bytes) (algs sigs : list (bytes * bytes)) (path payload : bytes),
  verify_ring mac algs sigs path payload = Ok tt ->
  exists oid sg key, In (oid, sg) sigs /\ find_alg algs oid = Some key /\
    sg = mac key (V2_SIG_CTX_BEFORE_PATH ++ path ++ SIG_SEPARATOR ++ payload).
Proof. exact ring_verify_sound. Qed.
Print Assumptions C07_ring_verify_sound.

(** signatures of unknown algorithms are skipped, as coded — and never suffice *)
Theorem C07_unknown_algorithms_do_not_verify :
  forall (mac : bytes -> bytes -> bytes) (algs sigs : list (bytes * bytes)) (path payload : bytes),
  (forall oid sg, In (oid, sg) sigs -> find_alg algs oid = None) ->
  verify_ring mac algs sigs path payload = Err E_NO_SIGNATURE.
Proof. exact unknown_algorithms_do_not_verify. Qed.
Print Assumptions C07_unknown_algorithms_do_not_verify.

(** non-vacuity: an honestly signed ring verifies (premise of the tamper theorems is satisfiable) *)
Theorem C07_ring_sign_verify :
  forall (mac : bytes -> bytes -> bytes) (oid key path payload : bytes),
  verify_ring mac [(oid, key)] (sign_ring mac [(oid, key)] path payload) path payload = Ok tt.
Proof. exact ring_sign_verify. Qed.
Print Assumptions C07_ring_sign_verify.

(** non-vacuity examples (premises satisfiable on concrete values) *)
Example C07_confined_example : exists full, os_path ks_root [x63; x6c; x2f; x73] = Ok full.
Proof. eexists. exact os_path_good_example. Qed.
Example C07_v1_confined_example : exists p, v1_op_path v1_dir KHmac [x63; x6c; x69; x65; x6e; x74] = Ok p.
Proof. exact v1_op_example. Qed.
Example C07_trace_example : length (trace Stub w_cfg st0 w_tape w_ops) = 3.
Proof. exact trace_nonempty. Qed.
Example C07_honest_load_example :
  option_map o_res (nth_error (run_hist Stub w_cfg st0 w_tape [GenHmac w_id; ResetCache; GetHmac w_id]) 2)
  = Some (Ok (repeat_bytes x41 32)).
Proof. exact honest_load_ok. Qed.
Example C07_other_owner_example :
  option_map o_res (nth_error (run_hist Stub w_cfg st0 w_tape
      [GenHmac w_id; CopyFile KHmac w_id KHmac w_id2; ResetCache; GetHmac w_id2]) 3) = Some (Err E_DECRYPTION).
Proof. exact other_owner_refused. Qed.
