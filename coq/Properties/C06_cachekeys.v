(** C06 (s76) — cache keys of keystore v1 must be insensitive to the spelling of the key directory.

    The model of keystore v1 (Model/KeystoreV1.v) keys the cached "current + rotated file names" list
    by the NAME of the key file: it assumes that the lookup, the store and the purges performed after a
    rotation / after the destruction of a rotated key address one and the same cache entry.  In the Go
    code that entry is named ".historical." + path, and the path is built from the configured key
    directory string at several places.  Gen/HistCacheKeys.v (regenerated on every run by running the
    real key store with a recording cache on directories written as "dir/", "./dir", "a//b", "a/./b",
    "a/b/../b", "a/b/.") records for each such place whether the path was normalised; the theorem is
    the finite check that all of them agree, that no key file was ever addressed by two different cache
    keys, and that the probe saw lookups, stores and purges.  Only statements, closed by [exact]. *)
From Coq Require Import List String NArith Bool.
From Acra Require Import Gen.HistCacheKeys Proofs.HistCacheKeys.
Import ListNotations.

Theorem historical_cache_keys_agree :
  hck_agree hist_cache_sites hist_cache_split_files HIST_CACHE_PREFIX HIST_CACHE_PROBE_PREFIX = true
  /\ (0 < hist_cache_probed_files)%N.
Proof. exact hist_cache_keys_agree. Qed.
Print Assumptions historical_cache_keys_agree.

Theorem C06_historical_cache_sites_same_normalisation :
  forall x y, In x hist_cache_sites -> In y hist_cache_sites -> snd x = snd y.
Proof.
  exact (hck_same_normalisation_spec hist_cache_sites
           (proj1 (andb_prop _ _ (proj1 (andb_prop _ _ (proj1 (andb_prop _ _ (proj1 hist_cache_keys_agree)))))))).
Qed.
Print Assumptions C06_historical_cache_sites_same_normalisation.

(** non-vacuity: the check rejects a table in which the purge alone skips the normalisation *)
Example hck_rejects_unnormalised_purge :
  hck_same_normalisation [("get"%string, HckGet, true); ("store"%string, HckStore, true); ("purge"%string, HckPurge, false)] = false.
Proof. reflexivity. Qed.
