(** C17, serializability of concurrent key store handles (keystore v2) - UNBOUNDED.

    For ANY number of handles, ANY programs over the modelled alphabet [xop] - OpenKeyRingRW (which
    creates a missing ring), AddKey / SetCurrent (rotation) / SetState / DestroyKey on a key ring
    object with a possibly STALE snapshot, generate-key, destroy-current, and the readers OpenKeyRing
    and ListKeys -, ANY initial storage (well formed or not) and EVERY schedule of back-end steps of
    any length:

      the state reached - storage, every operation's result, every key ring object, every
      remaining program - is the state of the SERIAL execution of the completed locked sections,
      one whole section after the other, in the order in which they released the lock; for the
      sections under the exclusive lock that is the order in which they TOOK it; a section under the
      shared lock (a read) does not change the storage, so it stands at a point where the storage is
      the one it read. If the schedule stops while handles are inside a section, the state is the
      serial one plus the calls those handles have made alone ([xrel]).

    What a "section" is, is what the code makes it: a ring-level operation computes its
    transactions from the key ring object's snapshot OUTSIDE the lock ([prepare]); the locked section
    re-reads the ring and applies them to the STORED ring under optimistic checks, and does not
    depend on the snapshot at all ([C17_section_ignores_snapshot]). So a stale writer never
    overwrites: its section commits on top of what is stored or fails. generate-key and
    destroy-current are SEVERAL sections: they are not atomic ([C17_generate_atomic_refuted],
    known finding c17-generate-not-atomic).

    The bounded theorem [C17_writers_serializable_bounded] (Properties/C17.v) is kept. *)
From Acra Require Import Lib.Bytes Lib.Outcome Gen.KswConsts Model.KeystoreWrite Model.KeystoreSerial
  Model.RunKeystoreWrite Proofs.KeystoreWrite Proofs.KeystoreConc Proofs.KeystoreLock
  Proofs.KeystoreSerial Proofs.KeystoreSerialInst Proofs.KeystoreSerialEx.
Local Open Scope Z_scope.

(** every operation of the alphabet respects the lock discipline: outside a section its program can
    only take the lock; inside an exclusive section it makes no lock call until its Unlock; inside a
    shared section no call changes the storage *)
Theorem C17_alphabet_lock_discipline : forall hr o, safe (xop_prog hr o).
Proof. exact xop_prog_safe. Qed.
Print Assumptions C17_alphabet_lock_discipline.

(** THE theorem: every schedule is serializable *)
Theorem C17_serializable :
  forall (st : storage) (hs : list xhandle') (sched : list nat),
    (forall h, In h hs -> xh_cur h = None) ->
    let g0 := mk_x st LFree hs in
    exists a, xserial xop_prog g0 (map fst (xcommits xop_prog g0 sched)) a /\
              xrel xop_prog (xrun xop_prog g0 sched) a.
Proof. exact (xserializable _ _ _ xop_prog xop_prog_safe). Qed.
Print Assumptions C17_serializable.

(** when nobody holds a lock at the end of the schedule the state reached IS the serial state *)
Theorem C17_serializable_quiescent :
  forall (st : storage) (hs : list xhandle') (sched : list nat),
    (forall h, In h hs -> xh_cur h = None) ->
    let g0 := mk_x st LFree hs in
    x_lock (xrun xop_prog g0 sched) = LFree ->
    xserial xop_prog g0 (map fst (xcommits xop_prog g0 sched)) (xrun xop_prog g0 sched).
Proof. exact (xserializable_quiescent _ _ _ xop_prog xop_prog_safe). Qed.
Print Assumptions C17_serializable_quiescent.

(** what [xrel] gives while sections are in progress: every handle that is not inside a section is
    exactly as in the serial state (its results, its key ring object, its remaining program), and
    the storage is the serial one unless a writer is inside its section *)
Theorem C17_idle_handles_are_serial :
  forall (g a : xstate'), xrel xop_prog g a ->
    (forall j, match x_lock g with LFree => True | LExcl i => j <> i | LShared hs => xholds j hs = false end ->
               nth_error (x_hs g) j = nth_error (x_hs a) j) /\
    (match x_lock g with LExcl _ => True | _ => x_st g = x_st a end).
Proof. exact (xrel_idle _ _ _ xop_prog). Qed.
Print Assumptions C17_idle_handles_are_serial.

(** the serial order: the exclusive sections commit in the order in which they took the lock (the
    last one may still be running) *)
Theorem C17_serial_order_is_lock_order :
  forall (st : storage) (hs : list xhandle') (sched : list nat),
    (forall h, In h hs -> xh_cur h = None) ->
    let g0 := mk_x st LFree hs in
    excl_only (xacquires xop_prog g0 sched) =
    excl_only (xcommits xop_prog g0 sched) ++ excl_pre (x_lock (xrun xop_prog g0 sched)).
Proof. exact (xcommit_order_is_lock_order _ _ _ xop_prog xop_prog_safe). Qed.
Print Assumptions C17_serial_order_is_lock_order.

(** ... and a section under the shared lock leaves the storage as it is, at every reachable state:
    wherever it stands in the serial order, it reads the storage of that point *)
Theorem C17_read_section_keeps_storage :
  forall (st : storage) (hs : list xhandle') (sched : list nat) i g',
    (forall h, In h hs -> xh_cur h = None) ->
    let g := xrun xop_prog (mk_x st LFree hs) sched in
    xsection xop_prog g i g' -> xnext_call xop_prog g i = Some BRLock -> x_st g' = x_st g.
Proof.
  intros st hs sched i g' Hinit g. apply (xsection_shared_storage _ _ _ xop_prog xop_prog_safe).
  apply xrun_ginv; [exact xop_prog_safe|]. apply xginv_init; [exact xop_prog_safe|exact Hinit].
Qed.
Print Assumptions C17_read_section_keeps_storage.

(** a serial execution is itself a run of the machine: the schedule of contiguous blocks *)
Theorem C17_serial_execution_is_a_run :
  forall (g : xstate') ser a, xserial xop_prog g ser a ->
    exists ns, length ns = length ser /\ xrun xop_prog g (xblocks (combine ser ns)) = a.
Proof. exact (xserial_is_run _ _ _ xop_prog). Qed.
Print Assumptions C17_serial_execution_is_a_run.

(** nothing in the proof depends on the alphabet: ANY operation programs that respect the lock
    discipline are serializable *)
Theorem C17_serializable_any_alphabet :
  forall (Op Loc Res : Type) (oprog : Loc -> Op -> prog (Res * Loc)),
    (forall s o, safe (oprog s o)) ->
    forall st hs sched, (forall h, In h hs -> xh_cur h = None) ->
      let g0 := mk_x st LFree hs in
      exists a, xserial oprog g0 (map fst (xcommits oprog g0 sched)) a /\ xrel oprog (xrun oprog g0 sched) a.
Proof. exact xserializable. Qed.
Print Assumptions C17_serializable_any_alphabet.

(** the same for the machine of Model/KeystoreWrite.v ([grun], alphabet [hop]) on which the
    harness schedules of the writers are replayed, with its own serial reference [run_section] *)
Theorem C17_writers_serializable :
  forall st hs sched, (forall h, In h hs -> hd_cur h = None) ->
    let g0 := mk_g st LFree hs in
    (exists a, gserial g0 (map fst (gcommits g0 sched)) a /\ xrel hop_prog (to_x (grun g0 sched)) (to_x a)) /\
    (g_lock (grun g0 sched) = LFree -> gserial g0 (map fst (gcommits g0 sched)) (grun g0 sched)) /\
    excl_only (gacquires g0 sched) = excl_only (gcommits g0 sched) ++ excl_pre (g_lock (grun g0 sched)).
Proof.
  intros st hs sched Hinit g0. split; [exact (gserializable st hs sched Hinit)|].
  split; [exact (gserializable_quiescent st hs sched Hinit)|exact (gcommit_order_is_lock_order st hs sched Hinit)].
Qed.
Print Assumptions C17_writers_serializable.

(** the stale snapshot: the locked section of a ring-level operation (any transactions [txs],
    whatever was logged before) run on ANY storage gives the same result and the same storage -
    and, when it succeeds, the same key ring object - whatever snapshot [d] the object held *)
Theorem C17_section_ignores_snapshot :
  forall h d txs st,
    match exec (with_txs h txs) None st 0, exec (with_txs (with_data h d) txs) None st 0 with
    | Ret (r, ha) sa _, Ret (r', hb) sb _ =>
        r = r' /\ sa = sb /\
        ((exists rg, lookup (FRing (h_path h)) st = Some (CRing true rg)) -> r = Ok tt -> ha = hb)
    | _, _ => False
    end.
Proof. exact section_ignores_snapshot. Qed.
Print Assumptions C17_section_ignores_snapshot.

(** refuted: atomicity of the key store OPERATION generate-key. There is a schedule of two
    concurrent generate-key calls after which one call has failed although its key is in the ring,
    an outcome no serial order of the two operations produces (both succeed then) - while the run is
    the serial execution of its six sections *)
Theorem C17_generate_atomic_refuted :
  exists sched,
    let g := grun ga_g0 sched in
    g_lock g = LFree /\ (forall i, gstep g i = None) /\
    map (fun x => hd_out (settled x)) (g_hs g) = [[Ok 0]; [Err E_TX_CONCURRENT]] /\
    stored_ring (g_st g) 1 = Some (mk_ring [mk_kent 1 KSW_PREACTIVE 7; mk_kent 2 KSW_PREACTIVE 17] 1) /\
    (forall a b, (a, b) = (0, 1)%nat \/ (a, b) = (1, 0)%nat ->
       let s := grun ga_g0 (ga_opserial a b) in
       (forall i, gstep s i = None) /\
       map (fun x => hd_out (settled x)) (g_hs s) = [[Ok 0]; [Ok 0]] /\ g_st s <> g_st g) /\
    gserial ga_g0 [0; 0; 1; 1; 0; 1]%nat g.
Proof. exact generate_atomic_refuted. Qed.
Print Assumptions C17_generate_atomic_refuted.

(** * Non-vacuity *)

(** writers racing on the creation of ring 1 and two overlapping readers: the premises hold, the
    run ends quiescent after 11 committed sections (exclusive and shared), and the serial
    execution - also computed directly - is the state reached *)
Example C17_ex_serial_run :
  (forall h, In h sx_hs -> xh_cur h = None) /\
  xrun xop_prog sx_g0 sx_sched = sx_final /\ x_lock sx_final = LFree /\
  (forall i, xstep xop_prog sx_final i = None) /\
  sx_order = [(0, true); (2, false); (3, false); (2, false); (0, true); (0, true); (2, false); (2, false);
              (2, false); (1, true); (1, true)]%nat /\
  xserial xop_prog sx_g0 (map fst sx_order) sx_final /\
  xserial_run _ _ _ xop_prog 16 sx_g0 (map fst sx_order) = Some sx_final.
Proof.
  split; [exact sx_init|]. destruct sx_run_facts as (H1 & H2 & H3 & H4 & _).
  split; [exact H1|]. split; [exact H2|]. split; [exact H3|]. split; [exact H4|].
  split; [exact sx_serializable|exact sx_serial_computed].
Qed.

(** states with two readers inside their sections at once / a writer inside its section are reached *)
Example C17_ex_midrun :
  x_lock (xrun xop_prog sx_g0 (firstn 20 sx_sched)) = LShared [3; 2]%nat /\
  x_lock (xrun xop_prog sx_g0 (firstn 26 sx_sched)) = LShared [2; 3]%nat /\
  x_lock (xrun xop_prog sx_g0 (firstn 35 sx_sched)) = LExcl 0 /\
  excl_only (xacquires xop_prog sx_g0 (firstn 35 sx_sched)) =
    excl_only (xcommits xop_prog sx_g0 (firstn 35 sx_sched)) ++ [0%nat].
Proof.
  destruct sx_midrun as (H1 & H2 & H3 & _). destruct sx_lock_order as (_ & _ & H4).
  split; [exact H1|]. split; [exact H2|]. split; [exact H3|exact H4].
Qed.

(** the serial execution is another schedule (contiguous blocks) with the same final state *)
Example C17_ex_blocks :
  exists ns, length ns = length sx_order /\ xrun xop_prog sx_g0 (xblocks (combine (map fst sx_order) ns)) = sx_final /\
             xblocks (combine (map fst sx_order) ns) <> sx_sched.
Proof. exact sx_blocks. Qed.

(** two writers holding the same snapshot both add a key: serializable, and the serial execution
    shows what the stale one gets: an error (errTxKeyExists), not a lost or duplicated update *)
Example C17_ex_stale_add :
  let g := grun sa_g0 sa_sched in
  gcommits sa_g0 sa_sched = [(1, true); (0, true)]%nat /\
  gserial sa_g0 [1; 0]%nat g /\
  map (fun x => hd_out (settled x)) (g_hs g) = [[Err E_TX_EXISTS]; [Ok 3]] /\
  stored_ring (g_st g) 1 = Some (mk_ring [mk_kent 1 2 5; mk_kent 2 1 6; mk_kent 3 KSW_PREACTIVE 9] 1).
Proof. exact sa_serializable. Qed.

(** [C17_section_ignores_snapshot] on a concrete stale snapshot: SetCurrent computed from a stale
    object (which believes there is no current key) fails on the stored ring, exactly as it does
    from the fresh object when the expected old key is wrong *)
Example C17_ex_stale_section :
  let stale := mk_hring 1 c17_stale [] in
  let fresh_obj := with_data stale c17_ring in
  exec (with_txs stale [TxSetCurrent (-1) 2]) None c17_st 0 = Ret (Err E_TX_CONCURRENT, mk_hring 1 c17_ring []) c17_st 3 /\
  exec (with_txs fresh_obj [TxSetCurrent (-1) 2]) None c17_st 0 = Ret (Err E_TX_CONCURRENT, mk_hring 1 c17_ring []) c17_st 3.
Proof. vm_compute. split; reflexivity. Qed.
