(** C13_statements — "Re-serialised statements mean the same as the statements received", for WHOLE
    data-manipulation statements (extension of C13, whose theorems cover the expression fragment).

    Model: Model/SqlStmt.v (AST of SELECT / UNION / INSERT / UPDATE / DELETE with every clause listed there, printer
    = the Format methods as tokens, wf = what sql.y can build), Model/SqlStmtParse.v (parser for the printed
    language: recursive descent + precedence climbing over Gen/Prec.v), Model/SqlStmtText.v (the Format
    methods byte for byte as pieces, their rendering, and the tokenizer), Model/SqlStmtSubst.v (value
    substitution).  Both dialects: [pg] = PostgreSQL, otherwise MySQL (ANSI mode off).
    PARTIAL in scope: the node kinds listed at the top of Model/SqlStmt.v; not modelled (differential oracle only):
    comments, SQL_CACHE / STRAIGHT_JOIN hints, PARTITION clauses, index hints, NEXT VALUE, SUBSTR(..), MATCH,
    GROUP_CONCAT, JSON operators, DEFAULT(col), charsets in CONVERT types, :: casts of non-literals, list
    arguments, sub-selects whose text starts with '(' (a union whose first member is parenthesised), qualified
    keyword-named functions, single-quoted table / column names outside aliases, DDL / SET / SHOW / PREPARE.
    PARTIAL in depth: the theorems are about TOKENS; that the tokenizer reads exactly these tokens from the bytes
    the Format methods print (lex (stext t) = Some (print_stmt t)) is replayed on every case of the harness and
    for the tokenizer alone on token soup, not proved (C13's escape round trip covers string literals). *)
From Acra Require Import Lib.Bytes Gen.Prec Gen.SqlWords Model.SqlStmt Model.SqlStmtParse Model.SqlStmtText Model.SqlStmtSubst
  Model.RunSqlStmt Proofs.SqlStmtFacts Proofs.SqlStmtRoundtrip Proofs.SqlStmtSubst Proofs.SqlStmtText.

(** for EVERY statement tree the yacc parser can build ([wf_stmt]) — any nesting depth of sub-selects, joins, unions,
    expressions, any list lengths, any identifiers and literals — the printed token list parses back to the
    same tree, in both dialects *)
Theorem C13_statement_roundtrip_partial :
  forall (pg : bool) (t : stmt), wf_stmt pg t = true -> parse pg (print_stmt pg t) = Some t.
Proof. exact print_parse_roundtrip. Qed.
Print Assumptions C13_statement_roundtrip_partial.

(** the extended expression fragment alone (CASE, CONVERT, function calls with select-expression arguments,
    EXISTS / IN (sub-select), INTERVAL, COLLATE, casts, quoted identifiers ... ) *)
Theorem C13_expression_roundtrip_partial :
  forall (pg : bool) (e : expr), wf pg e = true -> parse_expr pg (print pg e) = Some e.
Proof. exact print_parse_expr_roundtrip. Qed.
Print Assumptions C13_expression_roundtrip_partial.

(** the piece list that renders to String(t) (replayed byte for byte against the real String) carries exactly
    the tokens the round-trip theorem is about — for EVERY tree, well-formed or not *)
Theorem C13_text_pieces_are_the_printed_tokens :
  forall (pg : bool) (t : stmt), toks pg (pp_stmt t) = print_stmt pg t.
Proof. exact toks_pp_stmt. Qed.
Print Assumptions C13_text_pieces_are_the_printed_tokens.

Theorem C13_statement_text_tokens_roundtrip_partial :
  forall (pg : bool) (t : stmt), wf_stmt pg t = true -> parse pg (toks pg (pp_stmt t)) = Some t.
Proof. intros pg t H. rewrite toks_pp_stmt. apply print_parse_roundtrip. exact H. Qed.
Print Assumptions C13_statement_text_tokens_roundtrip_partial.

(** value substitution (UpdateExpressionValue / DBDataCoder.Encode rewrite type and value of SQLVal nodes in
    place): replacing ANY SET of literals / placeholders — [g] decides per position (index in print order),
    syntactic context, type, value, casts — by admissible literals ([lit_adm]: well-formed, an integer / a string
    only where an integer / a string stood, no negative number as direct operand of COLLATE, a string in
    INTERVAL '..') keeps the tree producible by the parser ... *)
Theorem C13_wf_closed_under_substitution_partial :
  forall (pg : bool) (g : gfun),
    (forall k uc t v cs, lit_adm uc t v (fst (g k uc t v cs)) (snd (g k uc t v cs)) cs = true) ->
    forall t : stmt, wf_stmt pg t = true -> wf_stmt pg (isub_stmt g t) = true.
Proof. exact wf_stmt_isub. Qed.
Print Assumptions C13_wf_closed_under_substitution_partial.

(** ... so the text acra forwards after the substitution parses back to the original structure apart from
    exactly the substituted values *)
Theorem C13_substituted_statement_parses_back_partial :
  forall (pg : bool) (g : gfun),
    (forall k uc t v cs, lit_adm uc t v (fst (g k uc t v cs)) (snd (g k uc t v cs)) cs = true) ->
    forall t : stmt, wf_stmt pg t = true ->
    parse pg (print_stmt pg (isub_stmt g t)) = Some (isub_stmt g t).
Proof. exact subst_then_print_parses_back. Qed.
Print Assumptions C13_substituted_statement_parses_back_partial.

(** one position: the literal with index i becomes (t', v'), everything else stays *)
Theorem C13_single_substitution_parses_back_partial :
  forall (pg : bool) (i : nat) (t' : N) (v' : bytes) (s : stmt),
    (forall uc t v cs, lit_adm uc t v t' v' cs = true) ->
    wf_stmt pg s = true ->
    parse pg (print_stmt pg (isub_stmt (at_index i t' v') s)) = Some (isub_stmt (at_index i t' v') s).
Proof.
  intros pg i t' v' s Hadm Hwf. apply subst_then_print_parses_back; [|exact Hwf].
  intros k uc t v cs. unfold at_index. destruct (Nat.eqb k i); cbn [fst snd].
  - apply Hadm.
  - unfold lit_adm. rewrite N.eqb_refl. replace (bytes_eqb v v) with true; [reflexivity|].
    symmetry. apply bytes_eqb_eq. reflexivity.
Qed.
Print Assumptions C13_single_substitution_parses_back_partial.

(* ---------- non-vacuity and sharpness ---------- *)
Local Open Scope N_scope.
(** select distinct a, t.* from t1 as p left join t2 on p.x = t2.x where a in (select b from u) and c = ?
    group by a having count( * ) > 1 order by a desc limit 10 offset 2 *)
Definition ex_select : stmt :=
  SSelect (Select true (SCons (SAliased (ECol [] (I 0x161)) I0) (SCons (SStar [I 0x174]) SNil))
    (TCons (TJoin (TTable I0 (I 0x17431) (I 0x170)) JLeft (TTable I0 (I 0x17432) I0)
                  (JOn (ECmp CEq (ECol [I 0x170] (I 0x178)) (ECol [I 0x17432] (I 0x178))))) TNil)
    (SomeE (EAnd (ECmp CIn (ECol [] (I 0x161))
                    (ESubq (Select false (SCons (SAliased (ECol [] (I 0x162)) I0) SNil) (TCons (TTable I0 (I 0x175) I0) TNil)
                                   NoE XNil NoE ONil LNone LkNone)))
                 (ECmp CEq (ECol [] (I 0x163)) (ELit 5 (hb 0x13a7631) []))))
    (XCons (ECol [] (I 0x161)) XNil)
    (SomeE (ECmp CGt (EFunc I0 (hb 0x1636f756e74) false (SCons (SStar []) SNil)) (ELit 1 (hb 0x131) [])))
    (OCons (ECol [] (I 0x161)) DDesc ONil) (LOffset (ELit 1 (hb 0x13130) []) (ELit 1 (hb 0x132) [])) LkNone).
Example ex_select_wf : wf_stmt false ex_select = true /\ wf_stmt true ex_select = true.
Proof. vm_compute. split; reflexivity. Qed.
Example ex_select_roundtrips : roundtrips false ex_select = true /\ roundtrips true ex_select = true.
Proof. vm_compute. split; reflexivity. Qed.
(** its text, and the model tokenizer on it *)
Example ex_select_text_lexes :
  lex false (stext false ex_select) = Some (print_stmt false ex_select) /\ length (stext false ex_select) = 166%nat.
Proof. vm_compute. split; reflexivity. Qed.
(** a substitution: the 4th literal (the 10 of LIMIT) becomes 25 *)
Example ex_select_subst :
  wf_stmt false (isub_stmt (at_index 2 VT_IntVal (hb 0x13235)) ex_select) = true
  /\ stmt_eqb (isub_stmt (at_index 2 VT_IntVal (hb 0x13235)) ex_select) ex_select = false.
Proof. vm_compute. split; reflexivity. Qed.
(** sharpness of wf: LIMIT 10 OFFSET 2 with the operands exchanged is another tree *)
Example ex_limit_operands_matter :
  match ex_select with
  | SSelect (Select d xs fr wh gb hv ob (LOffset c o) lk) =>
      stmt_eqb (SSelect (Select d xs fr wh gb hv ob (LOffset o c) lk)) ex_select = false
      /\ negb (list_eqb tok_eqb (print_stmt false (SSelect (Select d xs fr wh gb hv ob (LOffset o c) lk))) (print_stmt false ex_select)) = true
  | _ => False
  end.
Proof. vm_compute. split; reflexivity. Qed.

(* ---------- refuted statements: the known findings of this domain (known_findings.json) ---------- *)
(** insert into a (select * from b join c) on duplicate key update x = 1: the grammar drops the parentheses,
    the printed ON is taken as the condition of the join (class stmt-insert-select-open-join-before-on-duplicate) *)
Definition kf_insert : stmt :=
  SInsert false false I0 (I 0x161) []
    (ISelect (Select false (SCons (SStar []) SNil)
                (TCons (TJoin (TTable I0 (I 0x162) I0) JJoin (TTable I0 (I 0x163) I0) JNone) TNil) NoE XNil NoE ONil LNone LkNone))
    (UCons [] (I 0x178) (ELit 1 (hb 0x131) []) UNil) SNil.
Theorem C13_insert_select_open_join_refuted :
  exists t : stmt, wf_stmt false t = false /\ parse false (print_stmt false t) = None.
Proof. exists kf_insert. vm_compute. split; reflexivity. Qed.
Print Assumptions C13_insert_select_open_join_refuted.

(** select cast(a as varchar(10)) from t: the length is dropped by the grammar action, `convert(a, varchar)` is
    not accepted back (class stmt-convert-varchar-length-dropped) *)
Definition kf_varchar : stmt :=
  SSelect (Select false (SCons (SAliased (EConvert (ECol [] (I 0x161)) (CT (hb 0x176617263686172) None None)) I0) SNil)
             (TCons (TTable I0 (I 0x174) I0) TNil) NoE XNil NoE ONil LNone LkNone).
Theorem C13_convert_varchar_refuted :
  exists t : stmt, wf_stmt false t = false /\ parse false (print_stmt false t) = None.
Proof. exists kf_varchar. vm_compute. split; reflexivity. Qed.
Print Assumptions C13_convert_varchar_refuted.

(** select a as 'it''s' from t: the alias is printed raw between quotes; the tokenizer does not read the printed
    text back as the printed tokens (class stmt-single-quoted-alias-printed-raw) *)
Definition kf_alias : stmt :=
  SSelect (Select false (SCons (SAliased (ECol [] (I 0x161)) (Is 0x169742773)) SNil)
             (TCons (TTable I0 (I 0x174) I0) TNil) NoE XNil NoE ONil LNone LkNone).
Theorem C13_single_quoted_alias_refuted :
  exists t : stmt, wf_stmt false t = false /\ lex false (stext false t) <> Some (print_stmt false t).
Proof. exists kf_alias. split; [vm_compute; reflexivity|]. vm_compute. discriminate. Qed.
Print Assumptions C13_single_quoted_alias_refuted.

(** MySQL: select interval "1" + 1 day from t is printed with single quotes, which the grammar reduces to the
    PostgreSQL form of INTERVAL (class stmt-mysql-interval-string-operand) *)
Definition kf_interval : stmt :=
  SSelect (Select false (SCons (SAliased (EInterval (EBin BPlus (ELit 0 (hb 0x131) []) (ELit 1 (hb 0x131) [])) (hb 0x1646179)) I0) SNil)
             (TCons (TTable I0 (I 0x174) I0) TNil) NoE XNil NoE ONil LNone LkNone).
Theorem C13_mysql_interval_string_refuted :
  exists t : stmt, wf_stmt false t = false /\ parse false (print_stmt false t) = None.
Proof. exists kf_interval. vm_compute. split; reflexivity. Qed.
Print Assumptions C13_mysql_interval_string_refuted.

(** MySQL: select 1 from `DUAL`: printed bare, and a bare dual is lower-cased by the tokenizer (class stmt-dual-case) *)
Definition kf_dual : stmt :=
  SSelect (Select false (SCons (SAliased (ELit 1 (hb 0x131) []) I0) SNil)
             (TCons (TTable I0 (I 0x14455414c) I0) TNil) NoE XNil NoE ONil LNone LkNone).
Theorem C13_dual_case_refuted :
  exists t t' : stmt, wf_stmt false t = false /\ parse false (print_stmt false t) = Some t' /\ stmt_eqb t t' = false.
Proof.
  exists kf_dual.
  exists (SSelect (Select false (SCons (SAliased (ELit 1 (hb 0x131) []) I0) SNil)
             (TCons (TTable I0 (I 0x16475616c) I0) TNil) NoE XNil NoE ONil LNone LkNone)).
  vm_compute. repeat split; reflexivity.
Qed.
Print Assumptions C13_dual_case_refuted.

(** substitution: a negative integer put into an integer literal that carries a cast (1::text := -5): the grammar
    folds the sign into the literal and drops the cast (class subst-IntVal-in-CastIntVal-minus-digits); the
    replacement is not admissible ([wf_lit] of a negative integer with casts is false) *)
Definition kf_cast : stmt :=
  SSelect (Select false (SCons (SAliased (ELit 1 (hb 0x131) [hb 0x13a3a74657874]) I0) SNil)
             (TCons (TTable I0 (I 0x174) I0) TNil) NoE XNil NoE ONil LNone LkNone).
Theorem C13_negative_into_cast_literal_refuted :
  exists (t : stmt) (i : nat) (v' : bytes),
    wf_stmt true t = true /\ adm_at i VT_IntVal v' t = false /\
    parse true (print_stmt true (isub_stmt (at_index i VT_IntVal v') t)) <> Some (isub_stmt (at_index i VT_IntVal v') t).
Proof. exists kf_cast, 0%nat, (hb 0x12d35). split; [vm_compute; reflexivity|split; [vm_compute; reflexivity|vm_compute; discriminate]]. Qed.
Print Assumptions C13_negative_into_cast_literal_refuted.
