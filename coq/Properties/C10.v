(** C10: tokens are format-preserving, reversible for the owner, and consistent.
    Model: Model/Tokens.v (pseudonymization/tokenizer.go, random.go, utils.go, dataTokenizer.go,
    common.go, storage/memory.go after the two fix: patches), histories = schedules of atomic
    storage steps of any number of concurrent calls.  [collision] is an explicit pair of distinct
    inputs with the same SHA-256 - never assumed impossible. *)
From Acra Require Import Lib.Bytes Lib.Outcome Lib.Sha256 Gen.TokenConsts Model.Tokens
  Proofs.Tokens Proofs.TokensCodec Proofs.TokensShape Proofs.TokensConc Proofs.TokensInv.
From Coq Require Import ZifyN ZifyNat ZifyBool.

(** ** shape *)
(** Every value the generator produces (any type, value, tape) has the shape of the value it
    replaces; [C10_token_shape_returned] below shows every token RETURNED by a call is such a value. *)
Theorem C10_token_shape : forall ty v tok, generated ty v tok ->
  length tok = match ty with TInt32 => 4%nat | TInt64 => 8%nat | _ => length v end /\
  (ty = TStr -> Forall in_charset tok) /\
  (ty = TEmail ->
     (length v < 6 -> Forall in_charset tok)%nat /\
     (6 <= length v -> exists loc dom tld, tok = loc ++ [x40] ++ dom ++ tld /\
        In tld (TOK_GENERIC_TLDS ++ TOK_CC_TLDS) /\ loc <> [] /\ dom <> [] /\
        Forall in_charset loc /\ Forall in_charset dom)%nat).
Proof.
  intros ty v tok [t [t' G]]. split; [exact (gen_value_length _ _ _ _ _ G)| split].
  - intros ->. exact (proj2 (gen_value_str_shape _ _ _ _ G)).
  - intros ->. cbn [gen_value] in G. destruct (random_email_shape _ _ _ _ G) as [_ [H1 H2]]. split; assumption.
Qed.
Print Assumptions C10_token_shape.

(** e-mail tokens read position by position (s62).  For EVERY e-mail value of at least len("a@b.cc")
    bytes and EVERY random tape the generated token is [email_wellformed] (Proofs/TokensShape.v): it has
    the length of the value; it contains exactly one '@', which is not its first byte (non-empty local
    part); its last '.' is at [d = n - length tld] with [a + 1 < d] (NON-EMPTY DOMAIN LABEL between the
    '@' and the '.'); from [d] on it is literally one of the TLDs of the code; every other byte is from
    the token alphabet.  The two length thresholds of randomEmail in the model are the values measured
    on the compiled code (Gen/TokenConsts.v TOK_EMAIL_MIN / TOK_EMAIL_LONG), so this is a proof
    obligation on the thresholds the code actually has: "a@b" must fit in front of every TLD that can
    be drawn at a length ([email_long_leaves_room], [email_min_is_shortest_email]). *)
Theorem C10_email_token_wellformed : forall v tok,
  generated TEmail v tok -> (6 <= length v)%nat -> email_wellformed (length v) tok.
Proof.
  intros v tok [t [t' G]] Hn. cbn [gen_value] in G. exact (random_email_wellformed _ _ _ _ Hn G).
Qed.
Print Assumptions C10_email_token_wellformed.

(** the same over the generator itself: all lengths, all tapes *)
Theorem C10_random_email_wellformed : forall n t tok t',
  (6 <= n)%nat -> random_email n t = Ok (tok, t') -> email_wellformed n tok.
Proof. exact random_email_wellformed. Qed.
Print Assumptions C10_random_email_wellformed.

(** non-vacuity: a 7-byte value with the TLD draw forced to index 4 (what the harness sweep does) yields
    "bc@f.et" - index 4 of the country list, because ".info" (index 4 of the full list) would leave no
    room for a domain label at this length *)
Example ex_email_len7_index4 :
  exists tok t', random_email 7 [[x00;x00;x00;x04;x00;x00;x00;x00]; [x00;x00;x00;x01;x00;x00;x00;x00];
                                 [x00;x00;x00;x02;x00;x00;x00;x00]; [x00;x00;x00;x03;x00;x00;x00;x00];
                                 [x00;x00;x00;x05;x00;x00;x00;x00]] = Ok (tok, t') /\
                 tok = [x62; x63; x40; x66; x2e; x65; x74] /\ t' = [].
Proof. eexists. eexists. vm_compute. repeat split; reflexivity. Qed.
(** ... and the predicate is not trivially true: "x@.info" (empty domain label) is rejected *)
Example ex_empty_domain_label_is_not_wellformed :
  ~ email_wellformed 7 [x78; x40; x2e; x69; x6e; x66; x6f].
Proof.
  intros [a [tld [rest [Hin [_ [_ W]]]]]]. cbv zeta in W.
  destruct W as [_ [Hd [_ [Hat [_ [Hdot _]]]]]].
  assert (a = 1%nat) as -> by (symmetry; apply Hat; reflexivity).
  vm_compute in Hin.
  repeat (destruct Hin as [<-|Hin]; [cbn in Hd, Hdot; try lia; try discriminate|]). contradiction.
Qed.

(** every token returned by a call in any interleaving from the empty store was generated for that
    call's value and type (also when it was read back from the consistent record) - or a collision *)
Theorem C10_token_shape_returned : forall enc calls sched t0 c tok,
  let x := run_sched enc sched (init_procs calls) ([], t0) in
  In (c, PDone (Ok tok)) (snd x) -> collision \/ generated (c_ty c) (c_val c) tok.
Proof.
  intros enc calls sched t0 c tok x Hin.
  destruct (run_sched_inv2 enc sched (init_procs calls) [] t0 inv_h_empty) as [[_ HF] _].
  { apply Forall_forall. intros cp H. apply in_map_iff in H as [c0 [<- _]]. apply pst_ok_init. }
  fold x in HF. rewrite Forall_forall in HF. specialize (HF _ Hin). cbn [fst snd pst_ok] in HF.
  destruct HF as [C|[[_ G] _]]; [left; exact C| right; exact G].
Qed.
Print Assumptions C10_token_shape_returned.

(** ** reversibility for the owner *)
(** history: any interleaving of any calls from the empty store; then the owner's call (either
    mode); then any interleaving of any further calls; then the owner detokenizes *)
Theorem C10_detok_tok : forall enc calls0 sched0 t0 c t1 s1 tok calls2 sched2 t2,
  let s0 := fst (fst (run_sched enc sched0 (init_procs calls0) ([], t0))) in
  wfv (c_ty c) (c_val c) ->
  tokenize enc c s0 t1 = (s1, Ok tok) ->
  let s2 := fst (fst (run_sched enc sched2 (init_procs calls2) (s1, t2))) in
  collision \/ deanonymize s2 (c_ctx c) (c_ty c) tok = Ok (c_val c).
Proof.
  intros enc calls0 sched0 t0 c t1 s1 tok calls2 sched2 t2 s0 W T s2.
  assert (forall cs s, Forall (fun cp => pst_ok s (fst cp) (snd cp)) (init_procs cs)) as Hinit.
  { intros cs s. apply Forall_forall. intros cp H. apply in_map_iff in H as [c0 [<- _]]. apply pst_ok_init. }
  destruct (run_sched_inv2 enc sched0 (init_procs calls0) [] t0 inv_h_empty (Hinit _ _)) as [[I0 _] _].
  fold s0 in I0.
  assert (all_enabled s0) as A0 by (apply run_sched_enabled; intros e []).
  destruct (tokenize_inv _ _ _ _ _ _ I0 T) as [I1 [_ [F _]]].
  pose proof (tokenize_enabled enc c s0 t1 A0) as A1. rewrite T in A1. cbn [fst] in A1.
  destruct (F tok eq_refl) as [C|[_ TR]]; [left; exact C| right].
  destruct (run_sched_inv2 enc sched2 (init_procs calls2) s1 t2 I1 (Hinit _ _)) as [_ E2]. fold s2 in E2.
  apply detok_of_trec; [apply run_sched_enabled; exact A1| exact W| eapply trec_ext; eassumption].
Qed.
Print Assumptions C10_detok_tok.

(** the same for a call that finished inside a concurrent run, at any later point of the schedule *)
Theorem C10_detok_tok_concurrent : forall enc calls sched t0 c tok,
  let x := run_sched enc sched (init_procs calls) ([], t0) in
  In (c, PDone (Ok tok)) (snd x) -> wfv (c_ty c) (c_val c) ->
  collision \/ deanonymize (fst (fst x)) (c_ctx c) (c_ty c) tok = Ok (c_val c).
Proof.
  intros enc calls sched t0 c tok x Hin W.
  destruct (run_sched_inv2 enc sched (init_procs calls) [] t0 inv_h_empty) as [[_ HF] _].
  { apply Forall_forall. intros cp H. apply in_map_iff in H as [c0 [<- _]]. apply pst_ok_init. }
  fold x in HF. rewrite Forall_forall in HF. specialize (HF _ Hin). cbn [fst snd pst_ok] in HF.
  destruct HF as [C|[_ TR]]; [left; exact C| right].
  apply detok_of_trec; [apply run_sched_enabled; intros e []| exact W| exact TR].
Qed.
Print Assumptions C10_detok_tok_concurrent.

(** ** other clients and unknown tokens get the token itself *)
Theorem C10_foreign_or_unknown_returns_token :
  (forall s c ty tok, lookup (agg_ctx c) (tkey tok c ty) s = None -> deanonymize s c ty tok = Ok tok) /\
  (forall s c ty tok e, lookup (agg_ctx c) (tkey tok c ty) s = Some e -> e_dis e = true ->
     deanonymize s c ty tok = Ok tok) /\
  (forall enc es calls t0 c ty tok,
     Forall (fun cl => agg_ctx (c_ctx cl) <> agg_ctx c) calls ->
     deanonymize (fst (fst (run_events enc es (([], t0), init_procs calls)))) c ty tok = Ok tok).
Proof.
  split; [exact deanonymize_unknown| split; [exact deanonymize_disabled|]].
  intros enc es calls t0 c ty tok H. apply foreign_client_gets_token. exact H.
Qed.
Print Assumptions C10_foreign_or_unknown_returns_token.

(** two contexts share a store bucket only if their tails are equal (same client id without zone,
    or same zone) - or a collision *)
Theorem C10_context_separation : forall c1 c2, agg_ctx c1 = agg_ctx c2 -> ctx_tail c1 = ctx_tail c2 \/ collision.
Proof. intros c1 c2 H. apply sha_eq_cases. exact H. Qed.
Print Assumptions C10_context_separation.

(** ** consistency under every interleaving *)
(** any number of calls, any schedule (list of process ids and enable/disable maintenance events,
    any length), any initial store and tape: finished consistent calls on the same
    (value, context, type) returned the same token *)
Theorem C10_consistent_same_token : forall enc es calls s0 t0 c1 c2 tok1 tok2,
  Forall no_remove es ->
  let x := run_events enc es ((s0, t0), init_procs calls) in
  In (c1, PDone (Ok tok1)) (snd x) -> In (c2, PDone (Ok tok2)) (snd x) ->
  c_mode c1 = Consistent -> c_mode c2 = Consistent ->
  c_val c1 = c_val c2 -> c_ctx c1 = c_ctx c2 -> c_ty c1 = c_ty c2 -> tok1 = tok2.
Proof. exact consistent_same_token_events. Qed.
Print Assumptions C10_consistent_same_token.

(** sequential histories with maintenance in the middle: a finished consistent call, then ANY history
    without removal - interleaved steps of any other calls, any number of enable/disable passes with
    any filter (acra-tokens disable / enable) -, then a consistent call on the same (value, context,
    type): if it returns a token at all, it is the same token.  While the record is disabled the
    call is refused ([ex_disabled_refused_then_same_token] below), it never hands out a fresh token.
    This is the rule the harness oracle applies ("inconsistent-token"); removal is the one exception
    ([C10_consistency_needs_no_removal_refuted]). *)
Theorem C10_consistent_across_maintenance : forall enc c1 c2 s0 t1 s1 tok1 es calls t' t2 s3 tok2,
  c_mode c1 = Consistent -> c_mode c2 = Consistent ->
  c_val c1 = c_val c2 -> c_ctx c1 = c_ctx c2 -> c_ty c1 = c_ty c2 ->
  Forall no_remove es ->
  tokenize enc c1 s0 t1 = (s1, Ok tok1) ->
  tokenize enc c2 (fst (fst (run_events enc es ((s1, t'), init_procs calls)))) t2 = (s3, Ok tok2) ->
  tok1 = tok2.
Proof. exact consistent_across_maintenance. Qed.
Print Assumptions C10_consistent_across_maintenance.

(** the same for what [run_concurrent] computes (schedule, then every call run to completion) *)
Theorem C10_consistent_same_token_concurrent : forall enc calls sched s0 t0 c1 c2 tok1 tok2,
  let x := run_concurrent_procs enc calls sched s0 t0 in
  In (c1, PDone (Ok tok1)) (snd x) -> In (c2, PDone (Ok tok2)) (snd x) ->
  c_mode c1 = Consistent -> c_mode c2 = Consistent ->
  c_val c1 = c_val c2 -> c_ctx c1 = c_ctx c2 -> c_ty c1 = c_ty c2 -> tok1 = tok2.
Proof. exact consistent_same_token_concurrent. Qed.
Print Assumptions C10_consistent_same_token_concurrent.

(** ** two different values never share a token within one context (reduction) *)
Theorem C10_tokens_injective : forall enc calls sched t0 c1 c2 tok,
  let x := run_sched enc sched (init_procs calls) ([], t0) in
  In (c1, PDone (Ok tok)) (snd x) -> In (c2, PDone (Ok tok)) (snd x) ->
  c_ctx c1 = c_ctx c2 -> c_ty c1 = c_ty c2 ->
  c_val c1 = c_val c2 \/ collision.
Proof.
  intros enc calls sched t0 c1 c2 tok x H1 H2 Hc Ht.
  destruct (run_sched_inv2 enc sched (init_procs calls) [] t0 inv_h_empty) as [[_ HF] _].
  { apply Forall_forall. intros cp H. apply in_map_iff in H as [c0 [<- _]]. apply pst_ok_init. }
  fold x in HF. rewrite Forall_forall in HF.
  pose proof (HF _ H1) as O1. pose proof (HF _ H2) as O2. cbn [fst snd pst_ok] in O1, O2.
  destruct O1 as [C|[_ T1]]; [right; exact C|]. destruct O2 as [C|[_ T2]]; [right; exact C|].
  left. rewrite Hc, Ht in T1. exact (trec_inj _ _ _ _ _ _ T1 T2).
Qed.
Print Assumptions C10_tokens_injective.

(** sequential form: two calls at different times of a growing history *)
Theorem C10_tokens_injective_seq : forall enc s c1 t1 s1 tok s2 c2 t2 s3,
  inv_h s -> tokenize enc c1 s t1 = (s1, Ok tok) -> ext s1 s2 -> inv_h s2 ->
  tokenize enc c2 s2 t2 = (s3, Ok tok) -> c_ctx c1 = c_ctx c2 -> c_ty c1 = c_ty c2 ->
  c_val c1 = c_val c2 \/ collision.
Proof.
  intros enc s c1 t1 s1 tok s2 c2 t2 s3 I T1 E I2 T2 Hc Ht.
  destruct (tokenize_inv _ _ _ _ _ _ I T1) as [_ [_ [F1 _]]].
  destruct (tokenize_inv _ _ _ _ _ _ I2 T2) as [_ [E3 [F2 _]]].
  destruct (F1 tok eq_refl) as [C|[_ R1]]; [right; exact C|].
  destruct (F2 tok eq_refl) as [C|[_ R2]]; [right; exact C|].
  left. rewrite Hc, Ht in R1. apply (trec_inj s3 (c_ctx c2) (c_ty c2) tok); [|exact R2].
  eapply trec_ext; [|exact R1]. eapply ext_trans; eassumption.
Qed.
Print Assumptions C10_tokens_injective_seq.

(** ** bounded retry *)
(** every call finishes within 2*limit+4 storage operations when run alone, and under any schedule
    every effective step of a call strictly decreases a rank bounded by 2*limit+4 *)
Theorem C10_no_unbounded_retry :
  (forall enc c s t, pdone (snd (run_solo enc SOLO_FUEL c (s, t) (pinit c))) = true) /\
  (forall c, in_limit (pinit c) /\ rank (pinit c) <= 2 * TOK_LOOP_LIMIT + 4) /\
  (forall enc c st p, pdone p = false -> in_limit p ->
     rank (snd (pstep enc c st p)) < rank p /\ in_limit (snd (pstep enc c st p))).
Proof.
  split; [exact tokenize_terminates| split; [exact pinit_rank| exact pstep_rank]].
Qed.
Print Assumptions C10_no_unbounded_retry.

(** the rejection loop of math/rand's Int31n consumes one tape chunk per iteration *)
Theorem C10_rejection_sampling_consumes_tape : forall n t v t',
  int31n n t = Ok (v, t') -> length t' < length t.
Proof. exact int31n_consumes. Qed.
Print Assumptions C10_rejection_sampling_consumes_tape.

(** ** the text boundary (DataTokenizer) never truncates *)
Theorem C10_dt_no_truncation : forall ty w text v,
  int_width ty = Some w -> dt_to_value ty text = Ok v ->
  exists z, parse_int (8 * N.of_nat w) text = Ok z /\
            (- 2 ^ (8 * Z.of_nat w - 1) <= z < 2 ^ (8 * Z.of_nat w - 1))%Z /\
            dec_int w v = z /\ dt_of_value ty v = format_int z.
Proof.
  intros ty w text v Hw H. unfold dt_to_value in H. rewrite Hw in H.
  destruct (parse_int (8 * N.of_nat w) text) as [z|e|] eqn:P; cbn [bind] in H; try discriminate H.
  injection H as <-. exists z. split; [reflexivity|].
  assert (w = 4 \/ w = 8)%nat as Hw48 by (destruct ty; cbn in Hw; try discriminate Hw; injection Hw as <-; auto).
  assert (- 2 ^ (8 * Z.of_nat w - 1) <= z < 2 ^ (8 * Z.of_nat w - 1))%Z as R.
  { apply parse_int_range in P; [|destruct Hw48 as [-> | ->]; reflexivity].
    replace (Z.of_N (8 * N.of_nat w) - 1)%Z with (8 * Z.of_nat w - 1)%Z in P by lia. exact P. }
  split; [exact R|]. rewrite (dec_enc_int w z Hw48 R). split; [reflexivity|].
  unfold dt_of_value. rewrite Hw, (dec_enc_int w z Hw48 R). reflexivity.
Qed.
Print Assumptions C10_dt_no_truncation.

Theorem C10_dt_text_roundtrip : forall ty v,
  (forall w, int_width ty = Some w -> length v = w) -> dt_to_value ty (dt_of_value ty v) = Ok v.
Proof. exact dt_value_roundtrip. Qed.
Print Assumptions C10_dt_text_roundtrip.

(** ** totality lemmas (also used by C14): no panic for any input *)
Theorem token_gen_value_total : forall ty v t, gen_value ty v t <> Panic.
Proof. exact gen_value_no_panic. Qed.
Print Assumptions token_gen_value_total.
Theorem token_random_email_total : forall n t, random_email n t <> Panic.
Proof. exact random_email_no_panic. Qed.
Print Assumptions token_random_email_total.
Theorem token_random_string_total : forall n t, random_string n t <> Panic.
Proof. exact random_string_no_panic. Qed.
Print Assumptions token_random_string_total.
Theorem token_tokenize_total : forall enc c s t, inv_h s -> snd (tokenize enc c s t) = Panic -> collision.
Proof.
  intros enc c s t I H. destruct (tokenize enc c s t) as [s1 r] eqn:T. cbn [snd] in H.
  exact (proj2 (proj2 (proj2 (tokenize_inv _ _ _ _ _ _ I T))) H).
Qed.
Print Assumptions token_tokenize_total.

(** ** non-vacuity and necessity of the premises (computed on the model) *)
Definition ex_ctx : ctxinfo := mkc [x61] [].
Definition ex_ctx2 : ctxinfo := mkc [x62] [].
Definition ex_call : call := mkcall Consistent TInt32 ex_ctx [x01; x00; x00; x00].
Definition ex_tape : tape := [[x0a; x0b; x0c; x0d]; [x11; x12; x13; x14]].

(** two concurrent calls on the same value, interleaved so that both miss, both generate, one loses
    the race on the h-record and retries: both return the winner's token *)
Definition ex_conc := Eval vm_compute in
  snd (run_concurrent false [ex_call; ex_call] [0; 1; 0; 1; 0; 1; 1]%nat [] ex_tape).
Example ex_conc_same_token :
  ex_conc = [Ok [x0a; x0b; x0c; x0d]; Ok [x0a; x0b; x0c; x0d]].
Proof. reflexivity. Qed.

(** the owner gets the original back, another client gets the token *)
Definition ex_store := Eval vm_compute in fst (tokenize false ex_call [] ex_tape).
Example ex_detok_owner : deanonymize ex_store ex_ctx TInt32 [x0a; x0b; x0c; x0d] = Ok [x01; x00; x00; x00].
Proof. vm_compute. reflexivity. Qed.
Example ex_detok_foreign : deanonymize ex_store ex_ctx2 TInt32 [x0a; x0b; x0c; x0d] = Ok [x0a; x0b; x0c; x0d].
Proof. vm_compute. reflexivity. Qed.

(** tokenize -> disable everything -> tokenize twice -> enable -> tokenize: the token is handed out once,
    the calls made while the record is disabled are refused (both Saves of the value->token record
    report "exists"), after enabling the same token comes back and detokenizes to the original *)
Example ex_disabled_refused_then_same_token :
  let T := [x0a; x0b; x0c; x0d] in
  let '(s1, r1) := tokenize false ex_call [] [T] in
  let s2 := visit (fun _ _ => ADisable) s1 in
  let '(s3, r2) := tokenize false ex_call s2 [[x11; x12; x13; x14]; [x21; x22; x23; x24]] in
  let '(s4, r3) := tokenize false ex_call s3 [[x31; x32; x33; x34]; [x41; x42; x43; x44]] in
  let s5 := visit (fun _ dis => if dis then AEnable else AContinue) s4 in
  let '(s6, r4) := tokenize false ex_call s5 [[x51; x52; x53; x54]] in
  r1 = Ok T /\ r2 = Err E_EXISTS /\ r3 = Err E_EXISTS /\ r4 = Ok T /\
  deanonymize s2 ex_ctx TInt32 T = Ok T /\ deanonymize s6 ex_ctx TInt32 T = Ok [x01; x00; x00; x00].
Proof. vm_compute. repeat split; reflexivity. Qed.
(** the premises of [C10_consistent_across_maintenance] are satisfiable with a disable/enable pair in between *)
Example ex_across_maintenance_premises :
  exists s1 s3 tok,
    tokenize false ex_call [] [[x0a; x0b; x0c; x0d]] = (s1, Ok tok) /\
    Forall no_remove [EvVisit (fun _ _ => ADisable); EvVisit (fun _ _ => AEnable)] /\
    tokenize false ex_call
      (fst (fst (run_events false [EvVisit (fun _ _ => ADisable); EvVisit (fun _ _ => AEnable)] ((s1, []), init_procs []))))
      [[x11; x12; x13; x14]] = (s3, Ok tok).
Proof.
  eexists. eexists. eexists. split; [vm_compute; reflexivity| split].
  - repeat constructor; cbn; intros; discriminate.
  - vm_compute. reflexivity.
Qed.

(** removal is outside the consistency theorem for a reason: after removing the records the same
    value gets a different token *)
Theorem C10_consistency_needs_no_removal_refuted :
  exists c t1 t2 f tok1 tok2,
    let '(s1, r1) := tokenize false c [] t1 in
    let '(_, r2) := tokenize false c (visit f s1) t2 in
    c_mode c = Consistent /\ r1 = Ok tok1 /\ r2 = Ok tok2 /\ tok1 <> tok2.
Proof.
  exists ex_call, [[x0a; x0b; x0c; x0d]], [[x11; x12; x13; x14]], (fun _ _ => ARemove),
    [x0a; x0b; x0c; x0d], [x11; x12; x13; x14].
  vm_compute. repeat split; try reflexivity. discriminate.
Qed.
Print Assumptions C10_consistency_needs_no_removal_refuted.

(** disabling is outside the reversibility theorem for a reason: the owner then gets the token *)
Theorem C10_disabled_token_not_reversible_refuted :
  exists c t1 f tok,
    let '(s1, r1) := tokenize false c [] t1 in
    r1 = Ok tok /\ deanonymize (visit f s1) (c_ctx c) (c_ty c) tok = Ok tok /\ tok <> c_val c.
Proof.
  exists ex_call, [[x0a; x0b; x0c; x0d]], (fun _ _ => ADisable), [x0a; x0b; x0c; x0d].
  vm_compute. repeat split; try reflexivity. discriminate.
Qed.
Print Assumptions C10_disabled_token_not_reversible_refuted.

(** the generation loop limit is reachable: ten colliding draws make Anonymize fail *)
Example ex_generation_limit :
  let c := mkcall Random TInt32 ex_ctx [x01; x00; x00; x00] in
  let '(s1, _) := tokenize false c [] [[x0a; x0b; x0c; x0d]] in
  snd (tokenize false c s1 (repeat [x0a; x0b; x0c; x0d] 10)) = Err E_GENERATION.
Proof. vm_compute. reflexivity. Qed.

(** the fixed text boundary rejects what used to be truncated *)
Example ex_int32_out_of_range_rejected :
  dt_to_value TInt32 (map (fun n => n2b n) [50; 49; 52; 55; 52; 56; 51; 54; 52; 56]%N) = Err E_RANGE.
Proof. vm_compute. reflexivity. Qed.
(** a short e-mail value no longer panics and yields a same-length alphanumeric token *)
Example ex_short_email :
  exists tok t', random_email 2 [[x00;x00;x00;x01;x00;x00;x00;x00]; [x00;x00;x00;x02;x00;x00;x00;x00]] = Ok (tok, t') /\ length tok = 2%nat.
Proof. eexists. eexists. vm_compute. split; reflexivity. Qed.
