(** C01 — Protect-then-reveal returns the original bytes for the owning client.
    Only statements, closed by [exact], and their assumptions.  [C] ranges over every crypto
    instance satisfying [Correct] (the stand-in [Stub] is one: Proofs/StubCorrect.v). *)
From Acra Require Import Lib.Bytes Lib.Outcome Crypto.Interface Gen.Consts Model.Envelope
  Proofs.Envelope Proofs.EnvelopeHandlers Proofs.Scanner.

(** library level: CreateAcrastruct / DecryptAcrastruct, any context, any plaintext 1 .. 2^32-1024 *)
Theorem C01_acrastruct_roundtrip :
  forall (C : crypto), Correct C ->
  forall (tape : list bytes) (data sb ctx : bytes),
  good_as_tape tape -> length sb = SEED_LEN -> data <> [] -> (N.of_nat (length data) < MAXMSG)%N ->
  exists v, as_create C tape data (pub_of C sb) ctx = Ok v /\
            as_validate v = true /\
            length v = as_min + SEAL_OVERHEAD + length data /\
            as_decrypt C v (priv_of C sb) ctx = Ok data.
Proof. exact as_roundtrip. Qed.
Print Assumptions C01_acrastruct_roundtrip.

(** the right private key at any position of the rotated key list *)
Theorem C01_acrastruct_rotated :
  forall (C : crypto) (v data : bytes) (before : list bytes) (priv : bytes) (after : list bytes) (ctx : bytes),
  as_decrypt C v priv ctx = Ok data ->
  Forall (fun p => exists e, as_decrypt C v p ctx = Err e) before ->
  as_decrypt_rotated C v (before ++ priv :: after) ctx = Ok data.
Proof. exact as_rotated_roundtrip. Qed.
Print Assumptions C01_acrastruct_rotated.

(** CreateAcraBlock / AcraBlock.Decrypt with the key anywhere in the rotated list *)
Theorem C01_acrablock_roundtrip :
  forall (C : crypto), Correct C ->
  forall (tape : list bytes) (data key ctx : bytes),
  good_ab_tape tape -> key <> [] -> data <> [] -> (N.of_nat (length data) < MAXMSG)%N ->
  exists ek ed, ab_create C tape data key ctx = Ok (ab_layout key ctx ek ed) /\
    length ek = SEAL_OVERHEAD + AB_DEK_SIZE /\ length ed = SEAL_OVERHEAD + length data /\
    forall before after,
      Forall (fun k => bytes_eqb (ab_key_id k ctx) (ab_key_id key ctx) = false
                       \/ cell_decrypt C k ctx ek = None) before ->
      ab_decrypt C (ab_layout key ctx ek ed) (before ++ key :: after) ctx = Ok data.
Proof. exact ab_roundtrip. Qed.
Print Assumptions C01_acrablock_roundtrip.

(** an AcraBlock followed by arbitrary bytes is extracted with exactly its own length *)
Theorem C01_acrablock_extract :
  forall (key ctx ek ed suffix : bytes),
  (N.of_nat (length ek + length ed) < 4294967296)%N ->
  ab_extract (ab_layout key ctx ek ed ++ suffix)
  = Ok (length (ab_layout key ctx ek ed), ab_layout key ctx ek ed).
Proof. exact ab_extract_layout. Qed.
Print Assumptions C01_acrablock_extract.

(** serialized container: deserialization and extraction ignore what follows the container *)
Theorem C01_container_roundtrip :
  forall (enc : bytes) (id : byte) (suffix : bytes),
  enc <> [] -> known_envelope id = true -> (N.of_nat (length enc) < 4294967296)%N ->
  sc_deserialize (sc_layout enc id ++ suffix) = Ok (enc, id) /\
  sc_extract (sc_layout enc id ++ suffix) = Ok (length (sc_layout enc id), sc_layout enc id ++ suffix).
Proof. exact container_roundtrip. Qed.
Print Assumptions C01_container_roundtrip.

(** entry points (RegistryHandler.EncryptWithHandler = EncryptWithClientID = translator Encrypt;
    DecryptWithHandler = translator Decrypt; Process = column DecryptHandler), asymmetric envelope:
    the value is revealed under any later key history that still offers the key, and protecting the
    protected value again, through any entry point and for any client, is the identity *)
Theorem C01_entrypoints_asymmetric :
  forall (C : crypto), Correct C ->
  forall (ks ks' : keyset) (tape : list bytes) (x sb : bytes) (before after : list bytes),
  looks_protected ENVELOPE_ID_ACRASTRUCT x = false ->
  x <> [] -> (N.of_nat (length x) < MAXMSG)%N -> good_as_tape tape -> length sb = SEED_LEN ->
  ks_pub ks = Some (pub_of C sb) ->
  ks_privs ks' = before ++ priv_of C sb :: after ->
  (forall v, Forall (fun p => exists e, as_decrypt C v p [] = Err e) before) ->
  exists v, encrypt_with_handler C ENVELOPE_ID_ACRASTRUCT ks tape x = Ok v /\
            decrypt_with_handler C ENVELOPE_ID_ACRASTRUCT ks' v = Ok x /\
            registry_process C ks' v = Ok x /\
            (forall id' ks2 tape2, encrypt_with_handler C id' ks2 tape2 v = Ok v) /\
            exists inner, v = sc_layout inner ENVELOPE_ID_ACRASTRUCT /\ inner <> [] /\
              (N.of_nat (length inner) < 4294967296)%N /\ handler_match ENVELOPE_ID_ACRASTRUCT inner = true /\
              handler_decrypt C ENVELOPE_ID_ACRASTRUCT ks' inner = Ok x /\ length x < length inner.
Proof. exact handler_roundtrip_as. Qed.
Print Assumptions C01_entrypoints_asymmetric.

Theorem C01_entrypoints_symmetric :
  forall (C : crypto), Correct C ->
  forall (ks ks' : keyset) (tape : list bytes) (x key : bytes) (rest before after : list bytes),
  looks_protected ENVELOPE_ID_ACRABLOCK x = false ->
  x <> [] -> (N.of_nat (length x) < MAXMSG)%N -> good_ab_tape tape -> key <> [] ->
  ks_syms ks = key :: rest ->
  ks_syms ks' = before ++ key :: after ->
  (forall ek, Forall (fun k => bytes_eqb (ab_key_id k []) (ab_key_id key []) = false
                               \/ cell_decrypt C k [] ek = None) before) ->
  exists v, encrypt_with_handler C ENVELOPE_ID_ACRABLOCK ks tape x = Ok v /\
            decrypt_with_handler C ENVELOPE_ID_ACRABLOCK ks' v = Ok x /\
            registry_process C ks' v = Ok x /\
            (forall id' ks2 tape2, encrypt_with_handler C id' ks2 tape2 v = Ok v) /\
            exists inner, v = sc_layout inner ENVELOPE_ID_ACRABLOCK /\ inner <> [] /\
              (N.of_nat (length inner) < 4294967296)%N /\ handler_match ENVELOPE_ID_ACRABLOCK inner = true /\
              handler_decrypt C ENVELOPE_ID_ACRABLOCK ks' inner = Ok x /\ length x < length inner.
Proof. exact handler_roundtrip_ab. Qed.
Print Assumptions C01_entrypoints_symmetric.


(** transparent column processing (EnvelopeDetector.OnColumn with [DecryptHandler(RegistryHandler)]):
    a protected value embedded in a column after ANY prefix in which no tag occurrence starts, and followed
    by ANY bytes, is replaced in place by the original plaintext; the bytes after it are processed exactly
    as a column of their own ([lift_out] prepends [p ++ x] to that result).  Unbounded in all lengths. *)
Theorem C01_column_reveal_asymmetric :
  forall (C : crypto), Correct C ->
  forall (ks ks' : keyset) (tape : list bytes) (x sb : bytes) (before after : list bytes) (p s : bytes),
  looks_protected ENVELOPE_ID_ACRASTRUCT x = false ->
  x <> [] -> (N.of_nat (length x) < MAXMSG)%N -> good_as_tape tape -> length sb = SEED_LEN ->
  ks_pub ks = Some (pub_of C sb) ->
  ks_privs ks' = before ++ priv_of C sb :: after ->
  (forall v, Forall (fun k => exists e, as_decrypt C v k [] = Err e) before) ->
  exists v, encrypt_with_handler C ENVELOPE_ID_ACRASTRUCT ks tape x = Ok v /\
    (quiet p (v ++ s) ->
     on_column (column_cbs C ks') (p ++ v ++ s)
     = lift_out (p ++ x) true (scan (S (length s)) (column_cbs C ks') s [] false)).
Proof. exact column_roundtrip_as. Qed.
Print Assumptions C01_column_reveal_asymmetric.

Theorem C01_column_reveal_symmetric :
  forall (C : crypto), Correct C ->
  forall (ks ks' : keyset) (tape : list bytes) (x key : bytes) (rest before after : list bytes) (p s : bytes),
  looks_protected ENVELOPE_ID_ACRABLOCK x = false ->
  x <> [] -> (N.of_nat (length x) < MAXMSG)%N -> good_ab_tape tape -> key <> [] ->
  ks_syms ks = key :: rest ->
  ks_syms ks' = before ++ key :: after ->
  (forall ek, Forall (fun k => bytes_eqb (ab_key_id k []) (ab_key_id key []) = false
                               \/ cell_decrypt C k [] ek = None) before) ->
  exists v, encrypt_with_handler C ENVELOPE_ID_ACRABLOCK ks tape x = Ok v /\
    (quiet p (v ++ s) ->
     on_column (column_cbs C ks') (p ++ v ++ s)
     = lift_out (p ++ x) true (scan (S (length s)) (column_cbs C ks') s [] false)).
Proof. exact column_roundtrip_ab. Qed.
Print Assumptions C01_column_reveal_symmetric.

(** the [quiet] premise is satisfiable by arbitrary binary data that does not contain the tag symbol *)
Theorem C01_quiet_if_no_tag_symbol :
  forall (p t : bytes), Forall (fun b => b <> SC_TAG_SYMBOL) p -> quiet p t.
Proof. exact quiet_if_no_tag_symbol. Qed.
Print Assumptions C01_quiet_if_no_tag_symbol.

(** resynchronisation: the scanner's result does not depend on the fuel once it exceeds the input length
    (every iteration consumes at least one byte), so the fuel-exhausted error is unreachable *)
Theorem C01_scanner_fuel_independent :
  forall (cbs : list (bytes -> res bytes)) (f1 f2 : nat) (rest out : bytes) (ch : bool),
  length rest < f1 -> length rest < f2 -> scan f1 cbs rest out ch = scan f2 cbs rest out ch.
Proof. exact scan_fuel. Qed.
Print Assumptions C01_scanner_fuel_independent.

(** a column in which no candidate envelope can be opened comes out byte-identical *)
Theorem C01_column_passthrough :
  forall (cbs : list (bytes -> res bytes)) (inb : bytes),
  (forall c, run_callbacks cbs c = Ok None) -> on_column cbs inb = Ok (inb, false).
Proof. exact on_column_passthrough. Qed.
Print Assumptions C01_column_passthrough.

(** input that already is a protected value is passed through unchanged *)
Theorem C01_passthrough :
  forall (C : crypto) (id : byte) (ks : keyset) (tape : list bytes) (x : bytes),
  looks_protected id x = true -> encrypt_with_handler C id ks tape x = Ok x.
Proof. exact passthrough. Qed.
Print Assumptions C01_passthrough.

(** length 0 cannot be protected: every entry point answers with an error *)
Theorem C01_empty_plaintext_rejected :
  forall (C : crypto) (id : byte) (ks : keyset) (tape : list bytes),
  exists e, encrypt_with_handler C id ks tape [] = Err e.
Proof. exact empty_plaintext_rejected. Qed.
Print Assumptions C01_empty_plaintext_rejected.

(** non-vacuity: the laws are satisfiable (by the stand-in the harness runs), and the premises of
    the round-trip theorems hold on a concrete, non-trivial input *)
From Acra Require Import Crypto.Stub Proofs.StubCorrect.
Theorem C01_laws_satisfiable : Correct Stub.
Proof. exact stub_correct. Qed.
Print Assumptions C01_laws_satisfiable.

Definition ex_tape : list bytes := [repeat_bytes x01 32; repeat_bytes x02 32; repeat_bytes x03 12; repeat_bytes x04 12].
Definition ex_x : bytes := [x25; x25; x25; x22; x22; x22; x22; x00].
Definition ex_ks_w := Build_keyset (Some (pub_of Stub (repeat_bytes x09 32))) [] [] None.
Definition ex_ks_r := Build_keyset None [priv_of Stub (repeat_bytes x09 32)] [] None.
Definition ex_v : bytes := Eval vm_compute in
  match encrypt_with_handler Stub ENVELOPE_ID_ACRASTRUCT ex_ks_w ex_tape ex_x with Ok v => v | _ => [] end.

Example C01_premises_hold :
  good_as_tape ex_tape /\ ex_x <> [] /\ looks_protected ENVELOPE_ID_ACRASTRUCT ex_x = false /\
  encrypt_with_handler Stub ENVELOPE_ID_ACRASTRUCT ex_ks_w ex_tape ex_x = Ok ex_v /\
  decrypt_with_handler Stub ENVELOPE_ID_ACRASTRUCT ex_ks_r ex_v = Ok ex_x /\ length ex_v = 209.
Proof.
  split; [exists (repeat_bytes x01 32), (repeat_bytes x02 32), (repeat_bytes x03 12), (repeat_bytes x04 12), [];
          repeat split|].
  split; [discriminate|]. repeat split; vm_compute; reflexivity.
Qed.

(** s74 — header look-alikes.  A byte string that merely BEGINS like a serialized container (tag, 8 length
    bytes, a registered envelope id) but whose declared length does not fit its data, or whose inner bytes are
    not an envelope of the kind the id byte names, is a PLAINTEXT: "already protected" is exactly
    [looks_protected] (the column's handler matches it, or DeserializeEncryptedData + the inner handler do),
    never the header alone; such a value is wrapped (the result differs from it and is a protected value) and
    the owner reveals the same bytes through every reveal entry point. *)
From Acra Require Import Proofs.EnvelopeLookalike.

Theorem C01_header_lookalike_is_plaintext :
  forall (id : byte) (x : bytes), header_lookalike id x -> looks_protected id x = false.
Proof. exact header_lookalike_not_protected. Qed.
Print Assumptions C01_header_lookalike_is_plaintext.

Theorem C01_not_protected_is_header_lookalike_or_plain :
  forall (id : byte) (x : bytes), looks_protected id x = false -> header_lookalike id x.
Proof. exact not_protected_header_lookalike. Qed.
Print Assumptions C01_not_protected_is_header_lookalike_or_plain.

Theorem C01_header_lookalike_roundtrip_asymmetric :
  forall (C : crypto), Correct C ->
  forall (ks ks' : keyset) (tape : list bytes) (x sb : bytes) (before after : list bytes),
  header_lookalike ENVELOPE_ID_ACRASTRUCT x ->
  x <> [] -> (N.of_nat (length x) < MAXMSG)%N -> good_as_tape tape -> length sb = SEED_LEN ->
  ks_pub ks = Some (pub_of C sb) ->
  ks_privs ks' = before ++ priv_of C sb :: after ->
  (forall v, Forall (fun p => exists e, as_decrypt C v p [] = Err e) before) ->
  exists v, encrypt_with_handler C ENVELOPE_ID_ACRASTRUCT ks tape x = Ok v /\
            v <> x /\ looks_protected ENVELOPE_ID_ACRASTRUCT v = true /\
            decrypt_with_handler C ENVELOPE_ID_ACRASTRUCT ks' v = Ok x /\
            registry_process C ks' v = Ok x.
Proof. exact lookalike_roundtrip_as. Qed.
Print Assumptions C01_header_lookalike_roundtrip_asymmetric.

Theorem C01_header_lookalike_roundtrip_symmetric :
  forall (C : crypto), Correct C ->
  forall (ks ks' : keyset) (tape : list bytes) (x key : bytes) (rest before after : list bytes),
  header_lookalike ENVELOPE_ID_ACRABLOCK x ->
  x <> [] -> (N.of_nat (length x) < MAXMSG)%N -> good_ab_tape tape -> key <> [] ->
  ks_syms ks = key :: rest ->
  ks_syms ks' = before ++ key :: after ->
  (forall ek, Forall (fun k => bytes_eqb (ab_key_id k []) (ab_key_id key []) = false
                               \/ cell_decrypt C k [] ek = None) before) ->
  exists v, encrypt_with_handler C ENVELOPE_ID_ACRABLOCK ks tape x = Ok v /\
            v <> x /\ looks_protected ENVELOPE_ID_ACRABLOCK v = true /\
            decrypt_with_handler C ENVELOPE_ID_ACRABLOCK ks' v = Ok x /\
            registry_process C ks' v = Ok x.
Proof. exact lookalike_roundtrip_ab. Qed.
Print Assumptions C01_header_lookalike_roundtrip_symmetric.

(** non-vacuity: '%%%' + declared length 13 + the AcraStruct id + two bytes (14 bytes: the length does not fit
    an AcraStruct inside) is a look-alike, and the stand-in wraps and reveals it *)
Definition ex_look : bytes :=
  [x25; x25; x25; x0d; x00; x00; x00; x00; x00; x00; x00] ++ [ENVELOPE_ID_ACRASTRUCT; x41; x42].
Definition ex_look_v : bytes := Eval vm_compute in
  match encrypt_with_handler Stub ENVELOPE_ID_ACRASTRUCT ex_ks_w ex_tape ex_look with Ok v => v | _ => [] end.
Example C01_header_lookalike_premises_hold :
  header_lookalike ENVELOPE_ID_ACRASTRUCT ex_look /\ header_lookalike ENVELOPE_ID_ACRABLOCK ex_look /\
  sc_validate ex_look = Some ENVELOPE_ID_ACRASTRUCT /\
  encrypt_with_handler Stub ENVELOPE_ID_ACRASTRUCT ex_ks_w ex_tape ex_look = Ok ex_look_v /\
  bytes_eqb ex_look_v ex_look = false /\
  decrypt_with_handler Stub ENVELOPE_ID_ACRASTRUCT ex_ks_r ex_look_v = Ok ex_look.
Proof.
  split; [apply not_protected_header_lookalike; vm_compute; reflexivity|].
  split; [apply not_protected_header_lookalike; vm_compute; reflexivity|].
  repeat split; vm_compute; reflexivity.
Qed.
