(** C13 — Re-serialised statements mean the same as the statements received.
    PARTIAL by construction: the theorems cover the EXPRESSION fragment listed at the top of
    Model/SqlExpr.v (where precedence, parenthesisation and literal escaping live); the rest of the
    grammar (DDL, table expressions/joins, sub-selects, CASE/CAST/CONVERT/INTERVAL, hints, casts)
    is covered only by the differential oracle Parse(String(t)) = t of the harness (c13.go).
    Levels/associativity come from Gen/Prec.v = the %left/%right table of sqlparser/sql.y. *)
From Acra Require Import Lib.Bytes Gen.Prec Model.SqlExpr Model.RunSqlExpr
  Proofs.SqlExpr Proofs.SqlEscape Proofs.SqlRoundtrip Proofs.SqlSubst.

(** for EVERY tree the yacc parser can build ([wf]: each child's precedence is respected or it is
    an explicit ParenExpr; folded signs; tuple arities) the printed token list parses back to the
    same tree — unbounded depth, all operators/literal kinds of the fragment *)
Theorem C13_print_parse_roundtrip_partial :
  forall e : expr, wf e = true -> parse (print e) = Some e.
Proof. exact print_parse_roundtrip. Qed.
Print Assumptions C13_print_parse_roundtrip_partial.

(** the same inside a longer token stream: parsing stops exactly where the printed expression ends
    if the next token cannot continue it (closing parenthesis, comma, end, lower-precedence operator) *)
Theorem C13_print_parse_prefix_partial :
  forall (e : expr) (rest : list tok),
  wf e = true -> stopsb (rbound e) rest = true -> stopsb 0 rest = true ->
  forall f, 1 + cost e <= f -> pexpr f 0 (print e ++ rest) = Some (e, rest).
Proof. exact print_parse_prefix. Qed.
Print Assumptions C13_print_parse_prefix_partial.

(** value substitution (UpdateExpressionValue edits one SQLVal): replacing a literal leaf by any
    well-formed literal (not turning a non-integer into an integer) keeps the tree producible by the
    parser, changes exactly that leaf, and therefore the text acra forwards parses back to the
    original structure apart from the substituted value *)
Theorem C13_wf_closed_under_substitution_partial :
  forall e path told vold t' v',
    wf e = true -> lit_at path e = Some (told, vold) -> subst_ok told t' v' = true ->
    exists e', subst path t' v' e = Some e' /\ wf e' = true /\
               lit_at path e' = Some (t', v') /\
               subst path told vold e' = Some e.
Proof. exact wf_closed_under_substitution. Qed.
Print Assumptions C13_wf_closed_under_substitution_partial.

Theorem C13_substituted_text_parses_back_partial :
  forall e path told vold t' v',
    wf e = true -> lit_at path e = Some (told, vold) -> subst_ok told t' v' = true ->
    exists e', subst path t' v' e = Some e' /\ parse (print e') = Some e' /\
               lit_at path e' = Some (t', v') /\ subst path told vold e' = Some e.
Proof. exact subst_then_print_parses_back. Qed.
Print Assumptions C13_substituted_text_parses_back_partial.

(** string literals as TEXT: sqltypes.encodeBytesSQL then Tokenizer.scanString is the identity on
    ALL byte strings and consumes exactly the literal *)
Theorem C13_escape_roundtrip :
  forall v rest : bytes, not_quote_head rest -> decode_sql (encode_sql v ++ rest) = Some (v, rest).
Proof. exact escape_roundtrip. Qed.
Print Assumptions C13_escape_roundtrip.

(* ---------- non-vacuity and sharpness ---------- *)
Local Open Scope N_scope.
Definition ex_a := ECol [] (hb 0x161).
Definition ex_b := ECol [hb 0x174] (hb 0x162).
Definition ex_one := ELit VT_IntVal (hb 0x131).
(** a = 1 and not t.b is not null or a + t.b * -5 not in (1, (a and t.b)) or f(a, - -t.b) not like 'a%' escape '\' *)
Definition ex_tree : expr :=
  EOr (EOr (EAnd (ECmp CEq ex_a ex_one) (ENot (EIs IsNotNull ex_b)))
           (ECmp CNotIn (EBin BPlus ex_a (EBin BMult ex_b (ELit VT_IntVal (hb 0x12d35))))
                 (ETuple [ex_one; EParen (EAnd ex_a ex_b)])))
      (ECmpEsc CNotLike (EFunc (hb 0x166) [ex_a; EUn UMinus (EUn UMinus ex_b)])
               (ELit VT_StrVal (hb 0x16125)) (ELit VT_StrVal (hb 0x15c))).
Example C13_premise_satisfiable : wf ex_tree = true /\ length (print ex_tree) = 49%nat.
Proof. vm_compute. split; reflexivity. Qed.

(** substitution premises are satisfiable: the string 'a%' (path 1.1) replaced by a hex literal *)
Example C13_subst_satisfiable :
  lit_at [1; 1]%nat ex_tree = Some (VT_StrVal, hb 0x16125) /\ subst_ok VT_StrVal VT_HexVal (hb 0x1c0ffee) = true.
Proof. vm_compute. split; reflexivity. Qed.

(** sharpness of [wf]: a tree the parser cannot build (a + (a + b) without ParenExpr) does NOT survive *)
Example C13_wf_needed :
  let e := EBin BPlus ex_a (EBin BPlus ex_a ex_b) in
  wf e = false /\ parse (print e) = Some (EBin BPlus (EBin BPlus ex_a ex_a) ex_b).
Proof. vm_compute. split; reflexivity. Qed.

(** sharpness of [subst_ok]: turning the string operand of a prefix minus into an integer changes the
    structure (the grammar folds '-' INTEGRAL into one literal) *)
Definition ex_neg := EUn UMinus (ELit VT_StrVal (hb 0x161)).
Definition ex_neg' := EUn UMinus (ELit VT_IntVal (hb 0x135)).
Example C13_subst_ok_needed :
  wf ex_neg = true /\ subst_ok VT_StrVal VT_IntVal (hb 0x135) = false /\
  subst [0%nat] VT_IntVal (hb 0x135) ex_neg = Some ex_neg' /\
  parse (print ex_neg') = Some (ELit VT_IntVal (hb 0x12d35)).
Proof. vm_compute. repeat split; reflexivity. Qed.

(** REFUTED at full strength: "replacing a literal by ANY well-formed literal keeps the structure" is
    false — the grammar folds a prefix sign into an integer literal (and prints the sign adjacent to
    it).  This is the model-level mechanism behind the recorded findings
    subst-IntVal-in-CollateExpr-{minus,plus}-digits (COLLATE itself is outside the fragment). *)
Theorem C13_unrestricted_substitution_refuted :
  exists e path told vold t' v' e',
    wf e = true /\ lit_at path e = Some (told, vold) /\ wf_lit t' v' = true /\
    subst path t' v' e = Some e' /\ parse (print e') <> Some e'.
Proof.
  exists ex_neg, [0%nat], VT_StrVal, (hb 0x161), VT_IntVal, (hb 0x135), ex_neg'.
  vm_compute. repeat split; try reflexivity. discriminate.
Qed.
Print Assumptions C13_unrestricted_substitution_refuted.

(** escape: bytes that need escaping, followed by more text *)
Example C13_escape_example :
  decode_sql (encode_sql (hb 0x1610027225c0a1a) ++ hb 0x12031) = Some (hb 0x1610027225c0a1a, hb 0x12031).
Proof. vm_compute. reflexivity. Qed.
