(** C17: concurrent keystore writers never lose each other's updates (keystore v2).
    General results: the lock discipline (a write operation is one section under the exclusive
    lock; nobody else steps while it is held), a committed update - whatever stale snapshot its
    transactions were computed from - only appends a fresh seqnum or rewrites the key it names.
    Serializability, "seqnums unique and increasing" and "readers see complete rings" in EVERY
    interleaving are established by exhaustive computation inside Coq for two writers (bounded:
    see [C17_writers_serializable_bounded]); the unbounded simulation proof is not done. *)
From Acra Require Import Lib.Bytes Lib.Outcome Gen.KswConsts Model.KeystoreWrite Model.RunKeystoreWrite Proofs.KeystoreWrite Proofs.KeystoreConc.
Local Open Scope Z_scope.

(** every write operation either makes no back-end call or starts by taking the exclusive lock *)
Theorem C17_write_takes_exclusive_lock :
  forall h o, h_log h = [] -> (exists r, ring_op h o = Done r) \/ (exists k, ring_op h o = Call BLock k).
Proof. exact ring_op_head. Qed.
Print Assumptions C17_write_takes_exclusive_lock.

(** while handle i holds the exclusive lock a handle waiting at Lock/RLock (or finished) cannot step *)
Theorem C17_lock_excludes :
  forall g i j h, g_lock g = LExcl i -> nth_error (g_hs g) j = Some h ->
    (head_call (settled h) = Some BLock \/ head_call (settled h) = Some BRLock \/ head_call (settled h) = None) ->
    gstep g j = None.
Proof. exact blocked_while_locked. Qed.
Print Assumptions C17_lock_excludes.

(** stale views fail the optimistic checks instead of overwriting: a committed update, computed
    from ANY earlier snapshot, keeps the ring well formed, only appends seqnums, and leaves every
    key it does not name readable with the same value *)
Theorem C17_committed_update_keeps_others :
  forall st h o txs s r r',
    wf st -> snap_ok h st -> prepare h o = Ok (txs, s) ->
    stored_ring st (h_path h) = Some r -> upd_P st (h_path h) txs r' ->
    ring_ok r' /\ (exists ext, seqs r' = seqs r ++ ext) /\
    forall s' v, (forall t, In t txs -> tx_target t <> Some s') -> key_value r s' = Ok v -> key_value r' s' = Ok v.
Proof. exact committed_update_keeps_keys. Qed.
Print Assumptions C17_committed_update_keeps_others.

(** partial (bounded): for two writers on one ring, each running one operation of the alphabet,
    with in-sync or stale snapshots, under EVERY interleaving of their back-end calls: every
    intermediate storage has only complete, verifying, well-formed rings whose seqnums extend the
    initial ones (readers_see_complete_rings, seqnums_unique_increasing), and the final storage,
    the operations' results and the in-memory rings are those of one of the two serial orders
    (writers_serializable). Missing for the full statement: arbitrary many handles, operations
    and histories (the simulation proof over [gstep]). *)
Theorem C17_writers_serializable_bounded :
  forall o0 o1 sched,
    In o0 c17_alphabet -> In o1 c17_alphabet -> In sched (inter 10 5 5) ->
    forall h1, (h1 = mk_hring 1 c17_ring [] \/ h1 = mk_hring 1 c17_stale []) ->
    let h0 := mk_hring 1 c17_ring [] in
    let g0 := mk_g c17_st LFree [mk_handle h0 [o0] None []; mk_handle h1 [o1] None []] in
    let r := grun_check (fun g => wf_b (g_st g) && grows_b 1 c17_ring (g_st g)) g0 (sched ++ fair_tail) in
    fst r = true /\
    let o := enc_storage (g_st (snd r)) :: map obs_handle (g_hs (snd r)) in
    (o = serial2 c17_st h0 h1 o0 o1 true \/ o = serial2 c17_st h0 h1 o0 o1 false).
Proof.
  intros o0 o1 sched H0 H1 Hs h1 Hh.
  pose proof (writers_serializable_bounded o0 o1 sched H0 H1 Hs) as H.
  unfold c17_both in H. apply andb_true_iff in H as [Ha Hb].
  destruct Hh as [E|E]; rewrite E; apply sched_ok_spec; assumption.
Qed.
Print Assumptions C17_writers_serializable_bounded.

(** non-vacuity: two writers with the same (in-sync) snapshot both add a key: both compute seqnum 3;
    exactly the one that takes the lock first succeeds, the other fails (errTxKeyExists) *)
Example C17_ex_two_adds :
  let h := mk_hring 1 c17_ring [] in
  let g := grun (mk_g c17_st LFree [mk_handle h [WAdd 7] None []; mk_handle h [WAdd 9] None []])
                ([1; 0; 1; 0; 1; 0; 1; 1; 0; 0; 0; 0; 0]%nat) in
  map (fun x => hd_out (settled x)) (g_hs g) = [[Err E_TX_EXISTS]; [Ok 3]] /\
  stored_ring (g_st g) 1 = Some (mk_ring [mk_kent 1 2 5; mk_kent 2 1 6; mk_kent 3 KSW_PREACTIVE 9] 1) /\
  g_lock g = LFree.
Proof. vm_compute. repeat split; reflexivity. Qed.

Example C17_ex_alphabet : In (WAdd 7) c17_alphabet /\ In [0;1;0;1;0;1;0;1;0;1]%nat (inter 10 5 5).
Proof. split; vm_compute; tauto. Qed.
