(** C17: concurrent keystore writers never lose each other's updates (keystore v2).
    General results (any number of handles, any programs, EVERY interleaving at the granularity of
    back-end calls): the lock discipline (every operation - OpenKeyRingRW on a missing ring included -
    is a sequence of sections under the store lock; while a handle holds the exclusive lock nobody
    else steps; only the holder of the exclusive lock changes the storage), stored rings only grow
    and a ring file is never replaced by an empty ring once a key has been committed to it
    ([C17_creation_is_atomic]), a committed update - whatever stale snapshot its transactions were
    computed from - only appends a fresh seqnum or rewrites the key it names.
    Serializability (final storage, results and in-memory rings = those of a run in which the
    locked sections are not interleaved) is established by exhaustive computation inside Coq for
    bounded configurations and EVERY schedule (see [C17_writers_serializable_bounded]); the
    unbounded simulation proof of serializability is not done. *)
From Acra Require Import Lib.Bytes Lib.Outcome Gen.KswConsts Model.KeystoreWrite Model.RunKeystoreWrite Proofs.KeystoreWrite Proofs.KeystoreConc Proofs.KeystoreLock.
Local Open Scope Z_scope.

(** every write operation either makes no back-end call or starts by taking the exclusive lock *)
Theorem C17_write_takes_exclusive_lock :
  forall h o, h_log h = [] -> (exists r, ring_op h o = Done r) \/ (exists k, ring_op h o = Call BLock k).
Proof. exact ring_op_head. Qed.
Print Assumptions C17_write_takes_exclusive_lock.

(** so does everything a handle can run: OpenKeyRingRW (which creates a missing ring), generate,
    destroy-current: the existence check of the ring is made under the EXCLUSIVE lock *)
Theorem C17_operation_takes_exclusive_lock :
  forall hr o, match hr with Some h => h_log h = [] | None => True end ->
    (exists r, hop_prog hr o = Done r) \/ (exists k, hop_prog hr o = Call BLock k).
Proof. exact hop_prog_head. Qed.
Print Assumptions C17_operation_takes_exclusive_lock.

(** while handle i holds the exclusive lock a handle waiting at Lock/RLock (or finished) cannot step *)
Theorem C17_lock_excludes :
  forall g i j h, g_lock g = LExcl i -> nth_error (g_hs g) j = Some h ->
    (head_call (settled h) = Some BLock \/ head_call (settled h) = Some BRLock \/ head_call (settled h) = None) ->
    gstep g j = None.
Proof. exact blocked_while_locked. Qed.
Print Assumptions C17_lock_excludes.

(** lock scope, for every state reachable by ANY interleaving of ANY handles ([ginv] holds initially
    and is kept by every step): while handle i holds the exclusive lock NO other handle can step, and
    a step of a handle that does not hold the exclusive lock leaves the storage as it is *)
Theorem C17_lock_scope :
  forall st hs sched, (forall h, In h hs -> hd_cur h = None) ->
    let g := grun (mk_g st LFree hs) sched in
    (forall i j, g_lock g = LExcl i -> j <> i -> gstep g j = None) /\
    (forall j g', gstep g j = Some g' -> g_lock g <> LExcl j -> g_st g' = g_st g).
Proof.
  intros st hs sched Hinit g.
  destruct (grun_mono _ sched (ginv_init st hs Hinit)) as [Hg _]. fold g in Hg.
  split.
  - intros i j Hl Hj. exact (excl_blocks_others g i j Hg Hl Hj).
  - intros j g' Hs Hl. exact (only_lock_holder_writes g j g' Hg Hs Hl).
Qed.
Print Assumptions C17_lock_scope.

(** stored rings only grow, in every interleaving: a ring that is stored (and verifies) stays
    stored and verifying and its seqnums are only extended - whatever the handles run *)
Theorem C17_stored_rings_only_grow :
  forall st hs sched1 sched2, (forall h, In h hs -> hd_cur h = None) ->
    let g1 := grun (mk_g st LFree hs) sched1 in
    forall rid r, lookup (FRing rid) (g_st g1) = Some (CRing true r) ->
      exists r' ext, lookup (FRing rid) (g_st (grun g1 sched2)) = Some (CRing true r') /\ seqs r' = seqs r ++ ext.
Proof.
  intros st hs sched1 sched2 Hinit g1 rid r Hl.
  destruct (grun_mono _ sched1 (ginv_init st hs Hinit)) as [Hg1 _]. fold g1 in Hg1.
  destruct (grun_mono g1 sched2 Hg1) as [_ Hm]. exact (Hm rid r Hl).
Qed.
Print Assumptions C17_stored_rings_only_grow.

(** ring creation is atomic: OpenKeyRingRW creates a ring only under the exclusive lock after a
    re-read, so for every interleaving a ring file is never overwritten by an empty ring (nor by
    any ring lacking a committed key) once some handle's update to it has been committed *)
Theorem C17_creation_is_atomic :
  forall st hs sched1 sched2 rid r,
    (forall h, In h hs -> hd_cur h = None) ->
    let g1 := grun (mk_g st LFree hs) sched1 in
    lookup (FRing rid) (g_st g1) = Some (CRing true r) -> r_keys r <> [] ->
    exists r' ext, lookup (FRing rid) (g_st (grun g1 sched2)) = Some (CRing true r') /\
                   seqs r' = seqs r ++ ext /\ r_keys r' <> [].
Proof. exact creation_is_atomic. Qed.
Print Assumptions C17_creation_is_atomic.

(** stale views fail the optimistic checks instead of overwriting: a committed update, computed
    from ANY earlier snapshot, keeps the ring well formed, only appends seqnums, and leaves every
    key it does not name readable with the same value *)
Theorem C17_committed_update_keeps_others :
  forall st h o txs s r r',
    wf st -> snap_ok h st -> prepare h o = Ok (txs, s) ->
    stored_ring st (h_path h) = Some r -> upd_P st (h_path h) txs r' ->
    ring_ok r' /\ (exists ext, seqs r' = seqs r ++ ext) /\
    forall s' v, (forall t, In t txs -> tx_target t <> Some s') -> key_value r s' = Ok v -> key_value r' s' = Ok v.
Proof. exact committed_update_keeps_keys. Qed.
Print Assumptions C17_committed_update_keeps_others.

(** partial (bounded configurations, UNBOUNDED schedules). For
      (1) two writers holding in-sync or stale key ring objects of an existing ring, one operation of
          the 10-operation alphabet each;
      (2) two handles without a key ring object racing on the CREATION of ring 1 - programs
          OpenKeyRingRW, +AddKey, +AddKey+SetCurrent, generate, destroy-current - on an empty store, a
          store holding another ring, a store holding the temporary file of an interrupted creation;
      (2') the same with the longer programs (a second AddKey, two generate calls), empty store;
      (3) THREE handles racing on the creation (OpenKeyRingRW, +AddKey, generate);
    and for EVERY schedule (any list of handle indices): every storage reached holds only
    complete, verifying, well-formed rings; every possible next step keeps all stored rings and only
    extends their seqnums; and when nobody can step any more the storage, the operations' results
    and the in-memory rings are those of a run in which whole locked sections (= whole ring-level
    operations) are executed one after the other in some order ([runs_ok]).
    Missing for the full statement: arbitrary many handles, operations and histories for the
    serializability part (the simulation proof over [gstep]). *)
Theorem C17_writers_serializable_bounded :
  (forall o0 o1 h1, In o0 c17_alphabet -> In o1 c17_alphabet -> In h1 c17_snapshots ->
     runs_ok c17_st [c17_writer (mk_hring 1 c17_ring []) o0; c17_writer h1 o1]) /\
  (forall st p0 p1, In st c17_fresh_storages -> In p0 (c17_creation_short 7) -> In p1 (c17_creation_short 17) ->
     runs_ok st [fresh p0; fresh p1]) /\
  (forall p0 p1, In p0 (c17_creation_long 7 8) -> In p1 (c17_creation_progs 17 18) ->
     runs_ok [] [fresh p0; fresh p1]) /\
  (forall p0 p1 p2, In p0 (c17_creation_progs3 7) -> In p1 (c17_creation_progs3 17) -> In p2 (c17_creation_progs3b 27) ->
     runs_ok [] [fresh p0; fresh p1; fresh p2]).
Proof. exact writers_serializable_bounded. Qed.
Print Assumptions C17_writers_serializable_bounded.

(** non-vacuity: two writers with the same (in-sync) snapshot both add a key: both compute seqnum 3;
    exactly the one that takes the lock first succeeds, the other fails (errTxKeyExists) *)
Example C17_ex_two_adds :
  let h := mk_hring 1 c17_ring [] in
  let g := grun (mk_g c17_st LFree [c17_writer h (WAdd 7); c17_writer h (WAdd 9)])
                ([1; 0; 1; 0; 1; 0; 1; 1; 0; 0; 0; 0; 0]%nat) in
  map (fun x => hd_out (settled x)) (g_hs g) = [[Err E_TX_EXISTS]; [Ok 3]] /\
  stored_ring (g_st g) 1 = Some (mk_ring [mk_kent 1 2 5; mk_kent 2 1 6; mk_kent 3 KSW_PREACTIVE 9] 1) /\
  g_lock g = LFree /\ (forall i, gstep g i = None).
Proof.
  cbv zeta. repeat split; try (vm_compute; reflexivity).
  apply (succs_terminal 2); vm_compute; reflexivity.
Qed.

(** non-vacuity of the creation race: handle 0 is granted the lock first, finds no ring and creates
    it; handle 1 (generate) waits at its Lock, then finds the ring, adds key 1 and makes it current;
    the run is terminal and its observation is one of the serial ones (there are several) *)
Example C17_ex_creation_race :
  let hs := [fresh [HOpen 1]; fresh [HGen 1 17]] in
  let g := grun (mk_g [] LFree hs) ([0; 1; 0; 1; 0; 1; 0; 1; 0; 1; 1; 1; 1; 1; 1; 1; 1; 1; 1; 1; 1; 1]%nat) in
  stored_ring (g_st g) 1 = Some (mk_ring [mk_kent 1 KSW_PREACTIVE 17] 1) /\
  map (fun x => hd_out (settled x)) (g_hs g) = [[Ok 0]; [Ok 0]] /\
  (forall i, gstep g i = None) /\
  In (obs_g g) (serial_outs c17_sfuel 2 (mk_g [] LFree hs)) /\
  (1 < length (serial_outs c17_sfuel 2 (mk_g [] LFree hs)))%nat.
Proof.
  cbv zeta. split; [vm_compute; reflexivity|]. split; [vm_compute; reflexivity|].
  split; [apply (succs_terminal 2); vm_compute; reflexivity|].
  split; [vm_compute; tauto|vm_compute; lia].
Qed.

Example C17_ex_alphabet :
  In (WAdd 7) c17_alphabet /\ In [HGen 1 7] (c17_creation_short 7) /\ In [HOpen 1; HRing (WAdd 17)] (c17_creation_short 17) /\
  In [(FRingNew 1, CRing false c17_ring)] c17_fresh_storages.
Proof. vm_compute. tauto. Qed.

(** non-vacuity of [C17_creation_is_atomic]: a state with a committed key is reached *)
Example C17_ex_creation_is_atomic :
  forall sched2, exists r' ext,
    lookup (FRing 1) (g_st (grun (grun ex_g0 (repeat O 15)) sched2)) = Some (CRing true r') /\
    seqs r' = seqs ex_key_ring ++ ext /\ r_keys r' <> [].
Proof. exact ex_creation_is_atomic. Qed.
