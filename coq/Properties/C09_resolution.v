(** C09, column resolution of the searchable path: WHICH comparisons of a statement (aliases, several FROM
    tables, JOIN trees with ON conditions, derived tables, sub-selects, qualified / unqualified names) are rewritten
    by HashQuery.OnQuery of both front ends, against the specification of SQL name resolution
    (Model/SearchResolveSpec.v); model Model/SearchResolve.v (FIXED code: fix_searchable_filter_duplicates). *)
From Coq Require Import List Bool NArith Arith.
From Acra Require Import Lib.Bytes Lib.Outcome Model.SearchResolveSpec Proofs.SearchResolve.
Import ListNotations.

(** (1a) FindColumnInfo + GetColumnSetting = the reference resolution, for every dialect, configuration, FROM list
    of base tables under JOIN trees visible under distinct non-empty names, and every reference [q.]c that is
    qualified (any JOIN shape) or unqualified over a comma list; PostgreSQL: the qualifier is not the hidden name
    of an aliased table, encrypted columns are listed in `columns` *)
Theorem C09_resolution_column_setting_exact :
  forall d cfg from q c,
  scope_ok from -> ref_ok d from q -> pg_listed d cfg ->
  col_setting_of d cfg from q c = setting_of cfg (resolve cfg 1 (scope_f from) q c).
Proof. exact col_setting_exact. Qed.
Print Assumptions C09_resolution_column_setting_exact.

(** (1b) a comparison read in the top-level scope is rewritten iff the specification says so, with that setting:
    searchable column on the left; on the right a value of the supported shape with =, <> (MySQL also <=>), or
    another searchable column (any operator) *)
Theorem C09_resolution_rewritten_iff_spec :
  forall d cfg srch from op q c r,
  scope_ok from -> ref_ok d from q -> operand_ok d from r -> pg_listed d cfg ->
  sel_cmp d cfg srch from op (ECol q c) r = spec_cmp cfg srch d 1 [scope_f from] op (ECol q c) r.
Proof. exact sel_cmp_exact. Qed.
Print Assumptions C09_resolution_rewritten_iff_spec.

Theorem C09_resolution_left_must_be_column :
  forall d cfg srch from op l r, left_col l = None -> sel_cmp d cfg srch from op l r = None.
Proof. exact sel_cmp_left_not_col. Qed.
Print Assumptions C09_resolution_left_must_be_column.

(** (2) nothing else in the statement is changed: for EVERY statement tree (sub-selects, derived tables, JOINs at
    any depth) the rewritten statement has the same skeleton (everything but the comparisons) and its comparisons
    (PostgreSQL: also the sub-select of `e op (select ..)`, which pg_query's walker never enters) and its comparisons
    are, position by position, the images of the original ones under the one-comparison rewrite; an unselected
    comparison is its own image, a selected one keeps its operands below substr / convert *)
Theorem C09_resolution_nothing_else_changed :
  forall d cfg srch h top s,
  skel_s d (rw_s d cfg srch h top s) = skel_s d s /\
  cmps_s d (rw_s d cfg srch h top s) = map (rw1 d cfg srch h top) (cmps_s d s).
Proof. exact frame_s. Qed.
Print Assumptions C09_resolution_nothing_else_changed.

Theorem C09_resolution_unselected_untouched :
  forall d cfg srch h top op l r,
  sel_cmp d cfg srch top op l r = None -> rw_cmp d cfg srch h top op l r = (op, l, r).
Proof. exact rw_cmp_unselected. Qed.
Print Assumptions C09_resolution_unselected_untouched.

Theorem C09_resolution_selected_shape :
  forall d cfg srch h top op l r sid,
  sel_cmp d cfg srch top op l r = Some sid ->
  exists l' r', rw_cmp d cfg srch h top op l r = (norm_op d op, l', r') /\
    (l' = ESubstr l \/ l' = EConv (ESubstr l)) /\
    (r' = r \/ r' = ESubstr r \/ exists v v', lit_of d r = Some v /\ r' = put_lit r v').
Proof. exact rw_cmp_selected. Qed.
Print Assumptions C09_resolution_selected_shape.

(** * witnesses: where the code deviates from the specification (known findings) *)
Definition b (s : list nat) : bytes := map (fun n => n2b (N.of_nat n)) s.
Definition t1 := b [116;49]. Definition t2 := b [116;50]. Definition t3 := b [116;51]. Definition t4 := b [116;52].
Definition t5 := b [116;53].
Definition cid := b [105;100]. Definition cs := b [115]. Definition cp := b [112]. Definition cq := b [113].
Definition cz := b [122]. Definition ce := b [101].
Definition va := EVal (VLit (b [97])).
(** searchable: t1.s, t2.s, t3.p, t4.z, t5.e; t5 has no `columns` list; all other columns plain *)
Definition w_cfg : CR.rcfg :=
  [((t1, [cid; cs; cp]), [(cs, 1%N)]); ((t2, [cid; cs; cq]), [(cs, 4%N)]); ((t3, [cid; cs; cp]), [(cp, 2%N)]);
   ((t4, [cid; cz]), [(cz, 3%N)]); ((t5, []), [(ce, 5%N)])].
Definition w_srch : list N := [1; 2; 3; 4; 5]%N.
Definition fl (l : list tref) : flist := fold_right FCons FNil l.

(** a sub-select's WHERE is resolved against the TOP-LEVEL table list:
    SELECT * FROM t3 WHERE EXISTS (SELECT id FROM t1 WHERE s = 'a')  -- t1.s is searchable: left in the clear *)
Theorem C09_resolution_subselect_missed_refuted :
  forall d, exists top inner op l r sid,
  spec_cmp w_cfg w_srch d 1 [scope_f inner; scope_f top] op l r = Some sid /\
  sel_cmp d w_cfg w_srch top op l r = None.
Proof.
  intro d. exists (fl [TBase t3 []]), (fl [TBase t1 []]), OpEq, (ECol [] cs), va, 1%N. destruct d; split; vm_compute; reflexivity.
Qed.
Print Assumptions C09_resolution_subselect_missed_refuted.

(**  ... WHERE EXISTS (SELECT id FROM t1 WHERE p = 'a')  -- t1.p is a plain column, rewritten as if it were t3.p *)
Theorem C09_resolution_subselect_wrong_column_refuted :
  forall d, exists top inner op l r sid,
  spec_cmp w_cfg w_srch d 1 [scope_f inner; scope_f top] op l r = None /\
  sel_cmp d w_cfg w_srch top op l r = Some sid.
Proof.
  intro d. exists (fl [TBase t3 []]), (fl [TBase t1 []]), OpEq, (ECol [] cp), va, 2%N. destruct d; split; vm_compute; reflexivity.
Qed.
Print Assumptions C09_resolution_subselect_wrong_column_refuted.

(** SELECT * FROM t2 JOIN t4 ON .. WHERE z = 'a'  -- an unqualified column over a JOIN goes to the first table *)
Theorem C09_resolution_join_unqualified_refuted :
  forall d, exists top op l r sid,
  spec_cmp w_cfg w_srch d 1 [scope_f top] op l r = Some sid /\ sel_cmp d w_cfg w_srch top op l r = None.
Proof.
  intro d. exists (fl [TJoin (TBase t2 []) (TBase t4 []) CTrue]), OpEq, (ECol [] cz), va, 3%N. destruct d; split; vm_compute; reflexivity.
Qed.
Print Assumptions C09_resolution_join_unqualified_refuted.

(** SELECT * FROM (SELECT s FROM t1) AS d WHERE s = 'a'  -- unqualified column of a derived table *)
Theorem C09_resolution_derived_unqualified_refuted :
  forall d, exists top op l r sid,
  spec_cmp w_cfg w_srch d 2 [scope_f top] op l r = Some sid /\ sel_cmp d w_cfg w_srch top op l r = None.
Proof.
  intro d. exists (fl [TDerived (Sel [mk_item [] cs []] (fl [TBase t1 []]) CTrue) (b [100])]), OpEq, (ECol [] cs), va, 1%N.
  destruct d; split; vm_compute; reflexivity.
Qed.
Print Assumptions C09_resolution_derived_unqualified_refuted.

(** SELECT * FROM (SELECT id, s AS ss FROM t1) AS d WHERE d.ss = 'a'  -- the setting is looked up under the OUTER name *)
Theorem C09_resolution_derived_renamed_refuted :
  forall d, exists top op l r sid,
  spec_cmp w_cfg w_srch d 2 [scope_f top] op l r = Some sid /\ sel_cmp d w_cfg w_srch top op l r = None.
Proof.
  intro d. exists (fl [TDerived (Sel [mk_item [] cid []; mk_item [] cs (b [115;115])] (fl [TBase t1 []]) CTrue) (b [100])]), OpEq, (ECol (b [100]) (b [115;115])), va, 1%N.
  destruct d; split; vm_compute; reflexivity.
Qed.
Print Assumptions C09_resolution_derived_renamed_refuted.

(** the qualified reference d.s of the same derived table IS followed into the sub-select (both dialects) *)
Example C09_resolution_derived_qualified_example :
  forall d, sel_cmp d w_cfg w_srch (fl [TDerived (Sel [mk_item [] cs []] (fl [TBase t1 []]) CTrue) (b [100])]) OpEq (ECol (b [100]) cs) va = Some 1%N.
Proof. intro d. destruct d; vm_compute; reflexivity. Qed.

(** PostgreSQL: SELECT * FROM t3 x, t1 t3 WHERE t3.p = 'a'  -- t3 is the alias of t1 (p plain), taken for table t3 *)
Theorem C09_resolution_pg_alias_shadows_table_refuted :
  exists top op l r sid,
  spec_cmp w_cfg w_srch RPG 1 [scope_f top] op l r = None /\ sel_cmp RPG w_cfg w_srch top op l r = Some sid /\
  sel_cmp RMY w_cfg w_srch top op l r = None.
Proof.
  exists (fl [TBase t3 (b [120]); TBase t1 t3]), OpEq, (ECol t3 cp), va, 2%N. repeat split; vm_compute; reflexivity.
Qed.
Print Assumptions C09_resolution_pg_alias_shadows_table_refuted.

(** PostgreSQL: SELECT * FROM t5 WHERE e = 'a' with a configuration that does not list e in `columns` *)
Theorem C09_resolution_pg_unlisted_column_refuted :
  exists top op l r sid,
  spec_cmp w_cfg w_srch RPG 1 [scope_f top] op l r = Some sid /\ sel_cmp RPG w_cfg w_srch top op l r = None /\
  sel_cmp RMY w_cfg w_srch top op l r = Some sid.
Proof.
  exists (fl [TBase t5 []]), OpEq, (ECol [] ce), va, 5%N. repeat split; vm_compute; reflexivity.
Qed.
Print Assumptions C09_resolution_pg_unlisted_column_refuted.

(** * non-vacuity: premises of (1) on a statement with aliases, a JOIN and same-named columns
      SELECT .. FROM t1 AS a JOIN t2 ON a.s = t2.s, t3 WHERE a.s = 'a' AND t2.s <> $1 AND t3.p = 'a' AND t3.s = 'a' *)
Definition ex_from : flist := fl [TJoin (TBase t1 (b [97])) (TBase t2 []) (CCmp OpEq (ECol (b [97]) cs) (ECol t2 cs)); TBase t3 []].
Example C09_resolution_premises_example :
  forall d, scope_ok ex_from /\ ref_ok d ex_from (b [97]) /\ ref_ok d ex_from t2 /\ pg_listed RMY w_cfg.
Proof.
  intro d. split; [|split; [|split]].
  - split; [reflexivity|]. split.
    + cbn. repeat constructor; cbn; intuition discriminate.
    + cbn. repeat constructor; discriminate.
  - cbn. intros _ e He Hne. cbn in He. destruct He as [<-|[<-|[<-|[]]]]; cbn in *; congruence.
  - cbn. intros _ e He Hne. cbn in He. destruct He as [<-|[<-|[<-|[]]]]; cbn in *; congruence.
  - intro H. discriminate.
Qed.
Example C09_resolution_example_selected :
  forall d,
  map (fun x => let '(op, l, r) := x in sel_cmp d w_cfg w_srch ex_from op l r)
    [(OpEq, ECol (b [97]) cs, va); (OpNe, ECol t2 cs, EVal (VPar 0)); (OpEq, ECol t3 cp, va); (OpEq, ECol t3 cs, va);
     (OpEq, ECol (b [97]) cs, ECol t2 cs)]
  = [Some 1%N; Some 4%N; Some 2%N; None; Some 4%N].
Proof. intro d. destruct d; vm_compute; reflexivity. Qed.
