(** C14 — wire-protocol decoders never panic and consume within bounds (statements; lemmas of the C12 package). *)
From Acra Require Import Lib.Bytes Lib.Outcome Gen.WireConsts Model.PgWire Model.MysqlWire Model.Bytea
  Proofs.PgWire Proofs.PgWireBind Proofs.MysqlWire Proofs.Bytea.
Local Open Scope N_scope.

Theorem C14_pg_read_message_total : forall s, read_msg s <> Panic.
Proof. exact wire_pg_read_msg_total. Qed.
Print Assumptions C14_pg_read_message_total.

Theorem C14_pg_read_startup_total : forall s, read_startup s <> Panic.
Proof. exact wire_pg_read_startup_total. Qed.
Print Assumptions C14_pg_read_startup_total.

Theorem C14_pg_parse_columns_total : forall fmts desc, parse_columns fmts desc <> Panic.
Proof. exact wire_pg_parse_columns_total. Qed.
Print Assumptions C14_pg_parse_columns_total.

(** the declared column count is bounded by the payload actually received: no count-driven allocation *)
Theorem C14_pg_parse_columns_bounded :
  forall fmts desc count cs, parse_columns fmts desc = Ok (count, cs) -> 2 + 4 * count <= N.of_nat (length desc).
Proof. exact wire_pg_parse_columns_bounded. Qed.
Print Assumptions C14_pg_parse_columns_bounded.

Theorem C14_pg_process_datarow_total : forall fmts tr p, process_datarow fmts tr p <> Panic.
Proof. exact wire_pg_process_datarow_total. Qed.
Print Assumptions C14_pg_process_datarow_total.

Theorem C14_mysql_lenenc_int_total : forall data, lenenc_int data <> Panic.
Proof. exact wire_lenenc_int_total. Qed.
Print Assumptions C14_mysql_lenenc_int_total.

Theorem C14_mysql_lenenc_int_bounded :
  forall data num isnull n, lenenc_int data = Ok (num, isnull, n) -> (1 <= n <= length data)%nat /\ num < 2^64.
Proof. exact wire_lenenc_int_bounded. Qed.
Print Assumptions C14_mysql_lenenc_int_bounded.

(** [length data < 2^63] is a fact about Go slices, stated because the model's lists are unbounded *)
Theorem C14_mysql_lenenc_string_total :
  forall data, N.of_nat (length data) < 2^63 -> lenenc_string data <> Panic.
Proof. exact wire_lenenc_string_total. Qed.
Print Assumptions C14_mysql_lenenc_string_total.

Theorem C14_mysql_lenenc_string_bounded :
  forall data v n, N.of_nat (length data) < 2^63 -> lenenc_string data = Ok (v, n) -> (1 <= n <= length data)%nat.
Proof. exact wire_lenenc_string_bounded. Qed.
Print Assumptions C14_mysql_lenenc_string_bounded.

Theorem C14_mysql_skip_lenenc_string_total : forall data, skip_lenenc_string data <> Panic.
Proof. exact wire_skip_lenenc_string_total. Qed.
Print Assumptions C14_mysql_skip_lenenc_string_total.

Theorem C14_mysql_text_row_total :
  forall k data, N.of_nat (length data) < 2^63 -> text_row k data <> Panic.
Proof. exact wire_text_row_total. Qed.
Print Assumptions C14_mysql_text_row_total.

Theorem C14_bytea_decode_octal_total : forall d, decode_octal d <> Panic.
Proof. exact wire_decode_octal_total. Qed.
Print Assumptions C14_bytea_decode_octal_total.

Theorem C14_bytea_hex_decode_total : forall d, hex_decode d <> Panic.
Proof. exact wire_hex_decode_total. Qed.
Print Assumptions C14_bytea_hex_decode_total.

Theorem C14_bytea_decode_escaped_total : forall d, decode_escaped d <> Panic.
Proof. exact wire_decode_escaped_total. Qed.
Print Assumptions C14_bytea_decode_escaped_total.

(** ===== extended-query messages: checked models (every slice / index through Lib/GoSlice.v, integer
    conversions written out as the code performs them) ===== *)

(** NewBindPacket (readString x2, readUint16Array, readParameterArray, readUint16Array) never panics *)
Theorem C14_pg_new_bind_packet_total : forall data : bytes, new_bind_packet data <> Panic.
Proof. exact wire_pg_new_bind_packet_total. Qed.
Print Assumptions C14_pg_new_bind_packet_total.

(** everything NewBindPacket returns lies inside the message: names, 2 bytes per format code, 4 bytes per
    parameter, and each parameter value together with the fixed parts *)
Theorem C14_pg_new_bind_packet_bounded : forall (data : bytes) b, new_bind_packet data = Ok b ->
  (length (b_portal b) + length (b_stmt b) + 2 <= length data)%nat /\
  (2 * length (b_pfmts b) + 2 * length (b_rfmts b) + 4 * length (b_params b) <= length data)%nat /\
  (length (b_portal b) + length (b_stmt b) + 2 * length (b_pfmts b) + 2 * length (b_rfmts b) +
     4 * length (b_params b) + 8 <= length data)%nat /\
  forall v : bytes, In (Some v) (b_params b) ->
    (length (b_portal b) + length (b_stmt b) + 2 * length (b_pfmts b) + 2 * length (b_rfmts b) +
       length v + 12 <= length data)%nat.
Proof. exact wire_pg_new_bind_packet_bounded. Qed.
Print Assumptions C14_pg_new_bind_packet_bounded.

(** the totality above depends on the conversion applied to the declared parameter length: read as a signed
    int32 and compared with -1 (instead of uint32 widened to int and compared with 0xFFFFFFFF) the same decoder
    panics on `00 00 00 00 00 01 ff ff ff fe` *)
Theorem C14_pg_bind_signed_length_refuted : exists data : bytes, new_bind_packet_signed data = Panic.
Proof. exact bind_signed_length_refuted. Qed.
Print Assumptions C14_pg_bind_signed_length_refuted.

Theorem C14_pg_new_parse_packet_total : forall data : bytes, new_parse_packet data <> Panic.
Proof. exact wire_pg_new_parse_packet_total. Qed.
Print Assumptions C14_pg_new_parse_packet_total.

(** ParsePacket.Name() / QueryString() slice [:len-1]: both fields keep their terminator, so len >= 1 *)
Theorem C14_pg_parse_accessors_total : forall (data : bytes) pp, new_parse_packet data = Ok pp ->
  parse_name pp <> Panic /\ parse_query_string pp <> Panic.
Proof. exact wire_pg_parse_accessors_total. Qed.
Print Assumptions C14_pg_parse_accessors_total.

Theorem C14_pg_replace_parse_query_total : forall p q, replace_parse_query p q <> Panic.
Proof. exact wire_pg_replace_parse_query_total. Qed.
Print Assumptions C14_pg_replace_parse_query_total.

Theorem C14_pg_new_execute_packet_total : forall data : bytes, new_execute_packet data <> Panic.
Proof. exact wire_pg_new_execute_packet_total. Qed.
Print Assumptions C14_pg_new_execute_packet_total.

(** GetSimpleQuery after the fix "reject a Query message without payload"; the code as found panicked on
    `Q 00 00 00 04` *)
Theorem C14_pg_get_simple_query_total : forall p, get_simple_query p <> Panic.
Proof. exact wire_pg_get_simple_query_total. Qed.
Print Assumptions C14_pg_get_simple_query_total.

Theorem C14_pg_get_simple_query_old_refuted : exists p, get_simple_query_old p = Panic.
Proof. exact get_simple_query_old_refuted. Qed.
Print Assumptions C14_pg_get_simple_query_old_refuted.
