(** C14 — wire-protocol decoders never panic and consume within bounds (statements; lemmas of the C12 package). *)
From Acra Require Import Lib.Bytes Lib.Outcome Gen.WireConsts Model.PgWire Model.MysqlWire Model.Bytea
  Proofs.PgWire Proofs.MysqlWire Proofs.Bytea.
Local Open Scope N_scope.

Theorem C14_pg_read_message_total : forall s, read_msg s <> Panic.
Proof. exact wire_pg_read_msg_total. Qed.
Print Assumptions C14_pg_read_message_total.

Theorem C14_pg_read_startup_total : forall s, read_startup s <> Panic.
Proof. exact wire_pg_read_startup_total. Qed.
Print Assumptions C14_pg_read_startup_total.

Theorem C14_pg_parse_columns_total : forall fmts desc, parse_columns fmts desc <> Panic.
Proof. exact wire_pg_parse_columns_total. Qed.
Print Assumptions C14_pg_parse_columns_total.

(** the declared column count is bounded by the payload actually received: no count-driven allocation *)
Theorem C14_pg_parse_columns_bounded :
  forall fmts desc count cs, parse_columns fmts desc = Ok (count, cs) -> 2 + 4 * count <= N.of_nat (length desc).
Proof. exact wire_pg_parse_columns_bounded. Qed.
Print Assumptions C14_pg_parse_columns_bounded.

Theorem C14_pg_process_datarow_total : forall fmts tr p, process_datarow fmts tr p <> Panic.
Proof. exact wire_pg_process_datarow_total. Qed.
Print Assumptions C14_pg_process_datarow_total.

Theorem C14_mysql_lenenc_int_total : forall data, lenenc_int data <> Panic.
Proof. exact wire_lenenc_int_total. Qed.
Print Assumptions C14_mysql_lenenc_int_total.

Theorem C14_mysql_lenenc_int_bounded :
  forall data num isnull n, lenenc_int data = Ok (num, isnull, n) -> (1 <= n <= length data)%nat /\ num < 2^64.
Proof. exact wire_lenenc_int_bounded. Qed.
Print Assumptions C14_mysql_lenenc_int_bounded.

(** [length data < 2^63] is a fact about Go slices, stated because the model's lists are unbounded *)
Theorem C14_mysql_lenenc_string_total :
  forall data, N.of_nat (length data) < 2^63 -> lenenc_string data <> Panic.
Proof. exact wire_lenenc_string_total. Qed.
Print Assumptions C14_mysql_lenenc_string_total.

Theorem C14_mysql_lenenc_string_bounded :
  forall data v n, N.of_nat (length data) < 2^63 -> lenenc_string data = Ok (v, n) -> (1 <= n <= length data)%nat.
Proof. exact wire_lenenc_string_bounded. Qed.
Print Assumptions C14_mysql_lenenc_string_bounded.

Theorem C14_mysql_skip_lenenc_string_total : forall data, skip_lenenc_string data <> Panic.
Proof. exact wire_skip_lenenc_string_total. Qed.
Print Assumptions C14_mysql_skip_lenenc_string_total.

Theorem C14_mysql_text_row_total :
  forall k data, N.of_nat (length data) < 2^63 -> text_row k data <> Panic.
Proof. exact wire_text_row_total. Qed.
Print Assumptions C14_mysql_text_row_total.

Theorem C14_bytea_decode_octal_total : forall d, decode_octal d <> Panic.
Proof. exact wire_decode_octal_total. Qed.
Print Assumptions C14_bytea_decode_octal_total.

Theorem C14_bytea_hex_decode_total : forall d, hex_decode d <> Panic.
Proof. exact wire_hex_decode_total. Qed.
Print Assumptions C14_bytea_hex_decode_total.

Theorem C14_bytea_decode_escaped_total : forall d, decode_escaped d <> Panic.
Proof. exact wire_decode_escaped_total. Qed.
Print Assumptions C14_bytea_decode_escaped_total.
