(** C19, MySQL side — Typed columns come back in the declared type or per the failure policy.
    Only statements, closed by [exact], their assumptions and non-vacuity examples.
    Vocabulary (Proofs/TypedMysql.v): [lenenc x] = MySQL length-encoded string of x (the text-protocol cell);
    [my_typed_repr k binary p] = p encoded as kind k in the protocol (binary protocol, integer kinds: 4 / 8 bytes
    little endian); [my_default_repr k binary d] = the configured default encoded as kind k;
    [my_is_value k p] = p is a value of the kind (integer literal of the declared width for int32 / int64);
    [my_is_binary_type t] = Go's Type.IsBinaryType (BLOB family, VAR_STRING, STRING, VARCHAR: the column types a
    ciphertext can be stored in); a cell result [Ok (conv, v)] = delivered bytes v and "roll the column type back
    to the database's own type" flag conv; [reveal] is ANY function (the reveal step, C01/C14). *)
From Acra Require Import Lib.Bytes Lib.Outcome Gen.TypedConsts Gen.TypedMysqlConsts Model.Typed Model.MysqlWire
  Model.TypedMysql Model.RunTypedMysql Proofs.TypedInt Proofs.Typed Proofs.TypedMysql.
Local Open Scope N_scope.

(** The outcome matrix: for every registered MySQL type id / kind, every policy, both protocols, every reveal
    function, every non-empty stored value and every column definition of a binary type sent by the database:
    the delivered cell is chosen exactly as the property says AND the column definition the client is told names
    the matching type (declared type with a typed / default cell, the database's own type with the ciphertext).
    Side conditions, each one the exact boundary of a finding or of the wire format:
    - revealed value [p] of an integer column that is no integer literal of the declared width: excluded in the
      TEXT protocol only (handed through verbatim: known finding mysql-int-column-plaintext-not-integer,
      [C19_mysql_owner_nonint_plaintext_refuted]); in the binary protocol the statement is refused (last branch);
    - unrevealed cell of an integer column: the stored bytes are not themselves an integer literal
      (then they are a plain value and are delivered typed: Proofs.TypedMysql.my_encoder_int_literal);
    - [raw <> []], [p <> []]: an empty value stays the empty length-encoded string whatever the type
      (binary protocol + integer column: [C19_mysql_binary_empty_value_refuted]). *)
Theorem C19_mysql_typed_outcome_matrix :
  forall (s : setting) (k : tykind) (binary : bool) (reveal : bytes -> option bytes) (raw : bytes) (cd0 : coldef),
  my_encoder_for (s_type_id s) = Some k ->
  my_is_binary_type (cd_type cd0) = true ->
  raw <> [] ->
  let cd := my_update_field (Some s) cd0 in
  let cell := my_cell s (ci_of binary cd) reveal raw in
  match reveal raw with
  | Some p =>
      p <> [] -> (binary = false -> my_is_value k p = true) ->
      if my_is_value k p then cell = Ok (false, my_typed_repr k binary p) else cell = Err E_GENERIC
  | None =>
      (is_int_kind k = true -> parse_int (int_bits k) raw = None) ->
      match s_policy s with
      | PEmpty | PCiphertext => cell = Ok (true, lenenc raw)
      | PDefault =>
          match s_default s with
          | Some d => validate_default k d = true -> cell = Ok (false, my_default_repr k binary d)
          | None => cell = Ok (true, lenenc raw)
          end
      | PError => cell = Err E_ENCODING
      | PBad => cell = Err E_GENERIC
      end
  end
  /\ cd_type cd = s_type_id s /\ cd_origin cd = cd_type cd0
  /\ (forall conv : bool, cd_type (my_rollback conv cd) = if conv then cd_type cd0 else s_type_id s).
Proof. exact mysql_typed_outcome_matrix. Qed.
Print Assumptions C19_mysql_typed_outcome_matrix.

(** the row around the cell (one column): text protocol = the length-encoded cell; binary protocol = header,
    NULL bitmap, cell.  The stored bytes reach the processors unchanged, the delivered cell is put behind the
    unchanged header, the column definition is rolled back iff the cell asked for it. *)
Theorem C19_mysql_row_delivers_cell :
  forall (s : setting) (k : tykind) (binary : bool) (reveal : bytes -> option bytes) (raw : bytes) (cd0 : coldef),
  my_encoder_for (s_type_id s) = Some k ->
  my_is_binary_type (cd_type cd0) = true ->
  N.of_nat (length raw) < 2^63 ->
  let cd := my_update_field (Some s) cd0 in
  my_row s binary cd0 reveal (my_row_of binary raw) =
  with_prefix (my_row_prefix binary) cd (my_cell s (ci_of binary cd) reveal raw).
Proof. exact mysql_row_delivers_cell. Qed.
Print Assumptions C19_mysql_row_delivers_cell.

(** the rewritten column definition: declared type id, the TypeConfigurations attributes of that type, the
    database's type kept as origin, no flag moves except BLOB, which integer / string columns lose *)
Theorem C19_mysql_column_definition :
  forall (s : setting) (k : tykind) (cd0 : coldef),
  my_encoder_for (s_type_id s) = Some k ->
  let cd := my_update_field (Some s) cd0 in
  cd_type cd = s_type_id s /\ cd_origin cd = cd_type cd0 /\ cd_changed cd = true /\
  lookup3 (s_type_id s) MY_TYPE_CONFIGS = Some (cd_charset cd, cd_length cd, cd_decimal cd) /\
  N.lor (cd_flag cd) MY_BLOB_FLAG = N.lor (cd_flag cd0) MY_BLOB_FLAG /\
  (k <> TBytea -> N.land (cd_flag cd) MY_BLOB_FLAG = 0).
Proof. exact my_update_field_typed. Qed.
Print Assumptions C19_mysql_column_definition.

(** never partial: for ALL settings (typed or not, validated or not), column infos, reveal functions and cells
    a delivered value is the WHOLE of the value the reveal step saw / produced (as a length-encoded string or as
    the little-endian integer it spells) or the whole configured default — and a default only when not revealed *)
Theorem C19_mysql_never_partial :
  forall (s : setting) (ci : colinfo) (reveal : bytes -> option bytes) (stored : bytes) (conv : bool) (v : bytes),
  my_cell s ci reveal stored = Ok (conv, v) ->
  exists seen : bytes,
    my_decoder s ci stored = Ok seen /\ my_seen_of stored seen /\
    match reveal seen with
    | Some p => my_whole_of p v
    | None => my_whole_of seen v \/ my_default_of s (ci_binary ci) v
    end.
Proof. exact mysql_never_partial. Qed.
Print Assumptions C19_mysql_never_partial.

(** little-endian 4 / 8 bytes, values: every int32 / int64 *)
Theorem C19_mysql_int_binary_roundtrip :
  forall (k : tykind) (z : Z),
  is_int_kind k = true ->
  (- Z.of_N (2 ^ (int_bits k - 1)) <= z < Z.of_N (2 ^ (int_bits k - 1)))%Z ->
  parse_int (int_bits k) (print_int z) = Some z /\
  int_of_le (le_of_int (int_width k) z) = z /\
  length (le_of_int (int_width k) z) = int_width k /\
  my_typed_repr k true (print_int z) = le_of_int (int_width k) z /\
  print_int (int_of_le (le_of_int (int_width k) z)) = print_int z.
Proof. exact mysql_int_binary_roundtrip. Qed.
Print Assumptions C19_mysql_int_binary_roundtrip.

(** little-endian 4 / 8 bytes, processors: every binary cell of a LONG / LONGLONG column is decoded to the
    decimal text of its value and encoded back to the same bytes, whatever the policy and the reveal flag *)
Theorem C19_mysql_int_binary_cell_roundtrip :
  forall (s : setting) (k : tykind) (ci : colinfo) (bs : bytes),
  my_encoder_for (s_type_id s) = Some k -> is_int_kind k = true -> length bs = int_width k ->
  ci_binary ci = true -> ci_origin ci = s_type_id s ->
  exists t : bytes,
    my_decoder s ci bs = Ok t /\ t = print_int (int_of_le bs) /\
    parse_int (int_bits k) t = Some (int_of_le bs) /\
    forall dec, my_encoder s ci dec t = Ok (false, bs).
Proof. exact mysql_int_binary_cell_roundtrip. Qed.
Print Assumptions C19_mysql_int_binary_cell_roundtrip.

(** a default accepted by Init (MySQL tables) encodes, in BOTH protocols, to the configured value:
    integers to the decimal text / to the 4 / 8 little-endian bytes whose value is the default,
    strings to themselves, bytes to the base64-decoded value *)
Theorem C19_mysql_default_always_encodes :
  forall (i : init_in) (s : setting) (d : bytes),
  my_init i = Ok s -> s_default s = Some d ->
  exists k, my_encoder_for (s_type_id s) = Some k /\
    (forall binary, my_encode_on_fail k s binary = Ok (Some (my_default_repr k binary d))) /\
    (is_int_kind k = true ->
       exists z, parse_int (int_bits k) d = Some z /\
                 my_default_repr k false d = lenenc d /\
                 my_default_repr k true d = le_of_int (int_width k) z /\
                 length (my_default_repr k true d) = int_width k /\
                 int_of_le (my_default_repr k true d) = z) /\
    (k = TText -> utf8_valid d = true /\ forall binary, my_default_repr k binary d = lenenc d) /\
    (k = TBytea -> exists v, b64_decode d = Some v /\ forall binary, my_default_repr k binary d = lenenc v).
Proof. exact mysql_default_always_encodes. Qed.
Print Assumptions C19_mysql_default_always_encodes.

(** Known finding (class mysql-int-column-plaintext-not-integer): the owner of an int32 column whose protected
    value is 2147483648 receives, in the TEXT protocol, the 10 ASCII digits in a column described as LONG, policy
    [error] notwithstanding; the binary protocol refuses the same value with a statement error. *)
Theorem C19_mysql_owner_nonint_plaintext_refuted :
  exists (s : setting) (cd0 : coldef) (raw p : bytes),
    let cd := my_update_field (Some s) cd0 in
    my_encoder_for (s_type_id s) = Some TInt4 /\ s_policy s = PError /\ my_is_binary_type (cd_type cd0) = true /\
    raw <> [] /\ p <> [] /\ my_is_value TInt4 p = false /\
    my_cell s (ci_of false cd) (fun _ => Some p) raw = Ok (false, lenenc p) /\
    cd_type (my_rollback false cd) = MY_T_LONG /\
    my_cell s (ci_of true cd) (fun _ => Some p) raw = Err E_GENERIC.
Proof. exact mysql_owner_nonint_plaintext_refuted. Qed.
Print Assumptions C19_mysql_owner_nonint_plaintext_refuted.

(** Known finding (class mysql-binary-empty-value-in-int-column): binary protocol, an empty stored value of an
    int32 column comes back as the single byte 00 in a column described as LONG (4 bytes promised). *)
Theorem C19_mysql_binary_empty_value_refuted :
  exists (s : setting) (cd0 : coldef) (v : bytes),
    let cd := my_update_field (Some s) cd0 in
    my_encoder_for (s_type_id s) = Some TInt4 /\ my_is_binary_type (cd_type cd0) = true /\
    my_row s true cd0 (fun _ => None) (my_row_of true []) = Ok ([x00; x00] ++ v, cd) /\
    cd_type cd = MY_T_LONG /\ length v <> 4%nat.
Proof. exact mysql_binary_empty_value_refuted. Qed.
Print Assumptions C19_mysql_binary_empty_value_refuted.

(** result sets (one column, any number of rows, well formed or not, a reveal function per row): every row is
    answered and the column definition sent after the rows is the rewritten one, or the rewritten one with the
    type rolled back to the database's own type; origin, charset, length, flags, decimals do not move *)
Theorem C19_mysql_result_set_definition :
  forall (s : setting) (k : tykind) (binary : bool) (cd0 : coldef)
         (rs : list ((bytes -> option bytes) * bytes)) (outs : list bytes) (cdf : coldef),
  my_encoder_for (s_type_id s) = Some k ->
  my_result_set s binary cd0 rs = Ok (outs, cdf) ->
  let cd := my_update_field (Some s) cd0 in
  length outs = length rs /\
  (cd_type cdf = s_type_id s \/ cd_type cdf = cd_type cd0) /\
  cd_origin cdf = cd_type cd0 /\ cd_changed cdf = true /\
  cd_charset cdf = cd_charset cd /\ cd_length cdf = cd_length cd /\ cd_flag cdf = cd_flag cd /\ cd_decimal cdf = cd_decimal cd.
Proof. exact mysql_result_set_definition. Qed.
Print Assumptions C19_mysql_result_set_definition.

(** Known finding (class mysql-binary-mixed-rows-type-rollback): binary protocol, int32 column, ciphertext policy,
    one result set with a row of the reader (revealed "7": 4 little-endian bytes) and a row that stays ciphertext:
    the roll-back asked by the second row describes the WHOLE result set as BLOB, under which the first row's cell
    is no length-encoded string (the client reads length 7 with 3 bytes left). *)
Theorem C19_mysql_mixed_rows_refuted :
  exists (s : setting) (cd0 : coldef) (raw1 raw2 o1 o2 : bytes) (cd : coldef),
    my_encoder_for (s_type_id s) = Some TInt4 /\ s_policy s = PCiphertext /\ my_is_binary_type (cd_type cd0) = true /\
    my_result_set s true cd0 [((fun _ => Some [x37]), my_row_of true raw1); ((fun _ => None), my_row_of true raw2)]
      = Ok ([o1; o2], cd) /\
    o1 = [x00; x00] ++ le_of_int 4 7 /\ o2 = [x00; x00] ++ lenenc raw2 /\
    cd_type cd = cd_type cd0 /\
    my_extract 2 o1 cd = Err E_EOF.
Proof. exact mysql_mixed_rows_refuted. Qed.
Print Assumptions C19_mysql_mixed_rows_refuted.

(** * Non-vacuity: the premises are satisfiable on concrete non-trivial values *)
Definition myex_default : bytes := [x2d; x34; x32].                       (* "-42" *)
Definition myex_big_default : bytes := Eval vm_compute in print_int (-4294967297)%Z.
Definition myex_init : init_in := mk_init 2 0 0 (Some myex_big_default).  (* data_type: int64, default -4294967297 *)
Definition myex_setting : setting := mk_setting 8 PDefault (Some myex_big_default) true true.
Definition myex_setting4 : setting := mk_setting 3 PDefault (Some myex_default) true true.
Definition myex_cd : coldef := mk_cd 252 0 false 63 65535 144 0.          (* BLOB, binary charset, BLOB|BINARY flags *)
Definition myex_raw : bytes := [x25; x25; x25; x01; x02; x03; xff; x00; x5c].
Definition myex_plain : bytes := [x2d; x32; x31; x34; x37; x34; x38; x33; x36; x34; x38].  (* "-2147483648" *)

Example myex_init_accepts : my_init myex_init = Ok myex_setting.
Proof. vm_compute. reflexivity. Qed.
Example myex_init_rejects_out_of_range :
  my_init (mk_init 1 0 0 (Some [x32; x31; x34; x37; x34; x38; x33; x36; x34; x38])) = Err E_GENERIC.
Proof. vm_compute. reflexivity. Qed.
Example myex_premises :
  my_encoder_for (s_type_id myex_setting) = Some TInt8 /\ my_encoder_for (s_type_id myex_setting4) = Some TInt4 /\
  my_is_binary_type (cd_type myex_cd) = true /\ myex_raw <> [] /\
  parse_int 64 myex_raw = None /\ parse_int 32 myex_raw = None /\
  validate_default TInt8 myex_big_default = true /\ validate_default TInt4 myex_default = true /\
  my_is_value TInt4 myex_plain = true /\ N.of_nat (length myex_raw) < 2^63.
Proof. vm_compute. repeat split; congruence. Qed.
(** the rewritten column definition: LONGLONG, charset 63, length 20, BLOB flag dropped, BINARY flag kept *)
Example myex_column_definition :
  my_update_field (Some myex_setting) myex_cd = mk_cd 8 252 true 63 20 128 0.
Proof. vm_compute. reflexivity. Qed.
(** the four outcomes on the concrete columns, both protocols *)
Example myex_owner_binary :
  my_cell myex_setting4 (ci_of true (my_update_field (Some myex_setting4) myex_cd)) (fun _ => Some myex_plain) myex_raw
  = Ok (false, [x00; x00; x00; x80]).
Proof. vm_compute. reflexivity. Qed.
Example myex_owner_text :
  my_row myex_setting4 false myex_cd (fun _ => Some myex_plain) (my_row_of false myex_raw)
  = Ok (x0b :: myex_plain, my_update_field (Some myex_setting4) myex_cd).
Proof. vm_compute. reflexivity. Qed.
(** the int64 default -4294967297 in the binary protocol: all 8 bytes carry the value (what seeded m19 breaks) *)
Example myex_default_binary :
  my_row myex_setting true myex_cd (fun _ => None) (my_row_of true myex_raw)
  = Ok ([x00; x00] ++ [xff; xff; xff; xff; xfe; xff; xff; xff], mk_cd 8 252 true 63 20 128 0).
Proof. vm_compute. reflexivity. Qed.
Example myex_default_text :
  my_cell myex_setting (ci_of false (my_update_field (Some myex_setting) myex_cd)) (fun _ => None) myex_raw
  = Ok (false, lenenc myex_big_default).
Proof. vm_compute. reflexivity. Qed.
(** ciphertext policy: the stored bytes, and the column is described as BLOB again *)
Example myex_ciphertext_binary :
  my_row (mk_setting 254 PCiphertext None true true) true myex_cd (fun _ => None) (my_row_of true myex_raw)
  = Ok ([x00; x00] ++ lenenc myex_raw, mk_cd 252 252 true 8 255 128 0).
Proof. vm_compute. reflexivity. Qed.
Example myex_error :
  my_row (mk_setting 252 PError None true true) false myex_cd (fun _ => None) (my_row_of false myex_raw) = Err E_ENCODING.
Proof. vm_compute. reflexivity. Qed.
Example myex_roundtrip_boundaries :
  le_of_int 8 (-9223372036854775808)%Z = [x00; x00; x00; x00; x00; x00; x00; x80] /\
  int_of_le [x00; x00; x00; x00; x00; x00; x00; x80] = (-9223372036854775808)%Z /\
  le_of_int 4 2147483647%Z = [xff; xff; xff; x7f] /\
  run (MLe 64 (print_int 9223372036854775807%Z)) = XOk [[x00]; [xff; xff; xff; xff; xff; xff; xff; x7f]] /\
  run (MFail myex_setting true) = XOk [[x00]; [x01]; [xff; xff; xff; xff; xfe; xff; xff; xff]].
Proof. vm_compute. repeat split; reflexivity. Qed.
(** a homogeneous result set keeps the declared type: two rows of the reader *)
Example myex_result_set_typed :
  my_result_set myex_setting4 true myex_cd
    [((fun _ => Some myex_plain), my_row_of true myex_raw); ((fun _ => Some [x37]), my_row_of true myex_raw)]
  = Ok ([[x00; x00; x00; x00; x00; x80]; [x00; x00; x07; x00; x00; x00]], mk_cd 3 252 true 63 9 128 0).
Proof. vm_compute. reflexivity. Qed.
