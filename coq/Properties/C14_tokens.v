(** C14 — token generators never panic (statements; lemmas of the C10 package).  Before the fix commits
    bd353b0/960d638 the e-mail generator panicked on 0..2 byte values: see known_findings.json. *)
From Acra Require Import Lib.Bytes Lib.Outcome Lib.Sha256 Gen.TokenConsts Model.Tokens Proofs.TokensShape.

Theorem C14_token_gen_value_total : forall ty v t, gen_value ty v t <> Panic.
Proof. exact gen_value_no_panic. Qed.
Print Assumptions C14_token_gen_value_total.

Theorem C14_token_random_email_total : forall n t, random_email n t <> Panic.
Proof. exact random_email_no_panic. Qed.
Print Assumptions C14_token_random_email_total.

Theorem C14_token_random_string_total : forall n t, random_string n t <> Panic.
Proof. exact random_string_no_panic. Qed.
Print Assumptions C14_token_random_string_total.
