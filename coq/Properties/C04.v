(** C04 — The SQL proxy stores only protected forms and restores originals on read.
    Statements only, closed by [exact]; the model is Model/Proxy.v (abstract statement form: the SQL
    parsers' output is an input; columns plain or protected by one envelope with an optional per-column
    client id).  [C] ranges over every crypto instance satisfying [Correct]. *)
From Acra Require Import Lib.Bytes Lib.Outcome Crypto.Interface Crypto.Stub Gen.Consts Model.Envelope Model.Proxy
  Proofs.Envelope Proofs.EnvelopeHandlers Proofs.Scanner Proofs.Proxy.

(** ** forwarded_values_protected *)

(** every value list (an INSERT tuple, the SET list of an UPDATE) is forwarded position by position as
    [protect_value] of the column's setting — for all configurations, connections, tapes and values *)
Theorem C04_forwarded_values_pointwise :
  forall (C : crypto) (kr : keyring) (conn : bytes) (vals : list bytes) (ccs : list colcfg)
         (tapes : list (list bytes)) (out : list bytes),
  protect_list C kr conn ccs tapes vals = Ok out ->
  length out = length vals /\
  forall j, j < length vals ->
    protect_value C kr conn (nth j ccs CPlain) (nth j tapes []) (nth j vals []) = Ok (nth j out []).
Proof. exact protect_list_pointwise. Qed.
Print Assumptions C04_forwarded_values_pointwise.

(** INSERT (encryptInsertQuery with fix_pg_insert_values_mapping): every tuple NOT LONGER than the column list
    is protected position by position (also the short tuples PostgreSQL accepts for schema-ordered VALUES);
    only a longer tuple, which PostgreSQL rejects, is forwarded as it is *)
Theorem C04_forwarded_rows_pointwise :
  forall (C : crypto) (kr : keyring) (conn : bytes) (rows : list (list bytes)) (ccs : list colcfg)
         (tapes : list (list bytes)) (out : list (list bytes)),
  protect_rows C kr conn ccs tapes rows = Ok out ->
  length out = length rows /\
  forall i, i < length rows ->
    let r := nth i rows [] in
    let off := length (concat (firstn i rows)) in
    if Nat.ltb (length ccs) (length r) then nth i out [] = r
    else protect_list C kr conn ccs (firstn (length r) (skipn off tapes)) r = Ok (nth i out []).
Proof. exact protect_rows_pointwise. Qed.
Print Assumptions C04_forwarded_rows_pointwise.

(** what [protect_value] forwards for a configured column (symmetric envelope): the serialized container
    produced by [encrypt_with_handler] under the OWNER's key (per-column client id, else the connection's),
    which is not the client's value, and which the read path of any reader holding that key (anywhere in its
    rotated key list) turns back into the client's value *)
Theorem C04_forwarded_value_protected_acrablock :
  forall (C : crypto), Correct C ->
  forall (kr : keyring) (conn : bytes) (owner : option bytes) (reader : bytes) (tape : list bytes)
         (x key : bytes) (rest before after : list bytes),
  looks_protected ENVELOPE_ID_ACRABLOCK x = false ->
  x <> [] -> (N.of_nat (length x) < MAXMSG)%N -> good_ab_tape tape -> key <> [] ->
  ks_syms (keys_of kr (enc_client conn owner)) = key :: rest ->
  ks_syms (keys_of kr reader) = before ++ key :: after ->
  (forall ek, Forall (fun k => bytes_eqb (ab_key_id k []) (ab_key_id key []) = false
                               \/ cell_decrypt C k [] ek = None) before) ->
  exists v, protect_value C kr conn (CProt ENVELOPE_ID_ACRABLOCK owner) tape x = Ok v /\
            stored_form ENVELOPE_ID_ACRABLOCK v x /\
            reveal_cell C kr reader (Some v) = Ok (Some x).
Proof. exact protect_reveal_ab. Qed.
Print Assumptions C04_forwarded_value_protected_acrablock.

Theorem C04_forwarded_value_protected_acrastruct :
  forall (C : crypto), Correct C ->
  forall (kr : keyring) (conn : bytes) (owner : option bytes) (reader : bytes) (tape : list bytes)
         (x sb : bytes) (before after : list bytes),
  looks_protected ENVELOPE_ID_ACRASTRUCT x = false ->
  x <> [] -> (N.of_nat (length x) < MAXMSG)%N -> good_as_tape tape -> length sb = SEED_LEN ->
  ks_pub (keys_of kr (enc_client conn owner)) = Some (pub_of C sb) ->
  ks_privs (keys_of kr reader) = before ++ priv_of C sb :: after ->
  (forall v, Forall (fun p => exists e, as_decrypt C v p [] = Err e) before) ->
  exists v, protect_value C kr conn (CProt ENVELOPE_ID_ACRASTRUCT owner) tape x = Ok v /\
            stored_form ENVELOPE_ID_ACRASTRUCT v x /\
            reveal_cell C kr reader (Some v) = Ok (Some x).
Proof. exact protect_reveal_as. Qed.
Print Assumptions C04_forwarded_value_protected_acrastruct.

(** the stored form is never the client's value *)
Theorem C04_stored_form_differs :
  forall (env : byte) (v x : bytes), stored_form env v x -> v <> x.
Proof. exact stored_form_differs. Qed.
Print Assumptions C04_stored_form_differs.

(** ** uncovered_unchanged *)
Theorem C04_uncovered_statements_unchanged :
  forall (C : crypto) (cfg : config) (kr : keyring) (conn : bytes) (st : stmt) (tapes : list (list bytes)),
  (exists i t w, st = Select i t w) \/ (exists x, st = Other x) ->
  proxy_write C cfg kr conn st tapes = Ok st.
Proof. exact write_select_other_unchanged. Qed.
Print Assumptions C04_uncovered_statements_unchanged.

Theorem C04_uncovered_table_insert_unchanged :
  forall (C : crypto) (cfg : config) (kr : keyring) (conn : bytes) tbl cols rows ret tapes,
  assoc tbl cfg = None ->
  proxy_write C cfg kr conn (Insert tbl cols rows ret) tapes = Ok (Insert tbl cols rows ret).
Proof. exact write_unconfigured_insert_unchanged. Qed.
Print Assumptions C04_uncovered_table_insert_unchanged.

Theorem C04_uncovered_table_update_unchanged :
  forall (C : crypto) (cfg : config) (kr : keyring) (conn : bytes) tbl sets whr ret tapes,
  assoc tbl cfg = None ->
  proxy_write C cfg kr conn (Update tbl sets whr ret) tapes = Ok (Update tbl sets whr ret).
Proof. exact write_unconfigured_update_unchanged. Qed.
Print Assumptions C04_uncovered_table_update_unchanged.

(** a value for a column without a setting is forwarded identical (with the pointwise theorems: every such
    position of every tuple / SET list) *)
Theorem C04_uncovered_value_unchanged :
  forall (C : crypto) (kr : keyring) (conn : bytes) (tape : list bytes) (v : bytes),
  protect_value C kr conn CPlain tape v = Ok v.
Proof. exact protect_value_plain. Qed.
Print Assumptions C04_uncovered_value_unchanged.

(** result cells: NULL stays NULL, and a cell in which no container tag occurs is returned identical to every
    reader (the envelope detector runs on EVERY result column, so a cell that does contain a container the
    reader can open is revealed whatever the column: that is C01's transparent reveal, not "unchanged") *)
Theorem C04_uncovered_result_unchanged :
  forall (C : crypto) (kr : keyring) (reader : bytes) (b : bytes),
  reveal_cell C kr reader None = Ok None /\
  (index_of sc_tag b = None -> reveal_cell C kr reader (Some b) = Ok (Some b)).
Proof. intros. split; [apply reveal_null| apply reveal_tag_free]. Qed.
Print Assumptions C04_uncovered_result_unchanged.

(** ** read_back_original / non_owner_gets_stored_form, for ALL histories (cell-level view of a session:
    any prefix of writes from any starting store, the write of [w], then any writes to other cells) *)
Theorem C04_read_back_original :
  forall (C : crypto) (cfg : config) (kr : keyring) (pre post : list write) (w : write) (s0 s : store)
         (v : bytes) (reader x : bytes),
  run_writes C cfg kr s0 (pre ++ w :: post) = Ok s ->
  (forall w', In w' post -> addr_eqb (w_addr w) (w_addr w') = false) ->
  protect_value C kr (w_conn w) (addr_setting cfg (w_addr w)) (w_tape w) (w_val w) = Ok v ->
  reveal_cell C kr reader (Some v) = Ok (Some x) ->
  read_cell C kr s reader (w_addr w) = Ok (Some x).
Proof. exact read_back_history. Qed.
Print Assumptions C04_read_back_original.

Theorem C04_non_owner_gets_stored_form :
  forall (C : crypto) (cfg : config) (kr : keyring) (pre post : list write) (w : write) (s0 s : store)
         (v : bytes) (reader : bytes),
  run_writes C cfg kr s0 (pre ++ w :: post) = Ok s ->
  (forall w', In w' post -> addr_eqb (w_addr w) (w_addr w') = false) ->
  protect_value C kr (w_conn w) (addr_setting cfg (w_addr w)) (w_tape w) (w_val w) = Ok v ->
  (forall c, run_callbacks (reader_cbs C (keys_of kr reader)) c = Ok None) ->
  read_cell C kr s reader (w_addr w) = Ok (Some v).
Proof. exact non_owner_history. Qed.
Print Assumptions C04_non_owner_gets_stored_form.

(** a client with no keys at all can open nothing: the premise above holds for it *)
Theorem C04_keyless_reader_opens_nothing :
  forall (C : crypto) (c : bytes), run_callbacks (reader_cbs C no_keys) c = Ok None.
Proof. exact no_keys_open_nothing. Qed.
Print Assumptions C04_keyless_reader_opens_nothing.

(** ** non-vacuity: one concrete session on the stand-in crypto through the statement-level model
    (INSERT with a protected and a plain column, SELECT * by the owner, then by a client without keys) *)
Definition ex_key : bytes := repeat x07 32.
Definition ex_kr : keyring := [(hb 0x161, Build_keyset None [] [ex_key] None)].
Definition ex_cfg : config := [(hb 0x174, [(hb 0x169, CPlain); (hb 0x163, CProt ENVELOPE_ID_ACRABLOCK None)])].
Definition ex_db : database := [(hb 0x174, ([hb 0x169; hb 0x163], []))].
Definition ex_tape : list bytes := [repeat x01 32; repeat x02 12; repeat x03 12].
Definition ex_secret : bytes := hb 0x15345435245544d41524b4552.
Definition ex_insert := Insert (hb 0x174) None [[hb 0x131; ex_secret]] [].
Definition ex_select := Select [SStar] (hb 0x174) None.

Definition ex_check : bool :=
  match run_session Stub ex_cfg ex_kr (hb 0x161) ex_db [(ex_insert, [[]; ex_tape]); (ex_select, [])] with
  | Ok (db, [(Insert _ _ [[i; stored]] _, _); (_, [[Some i'; Some got]])]) =>
      bytes_eqb i (hb 0x131) && bytes_eqb i' (hb 0x131)            (* uncovered: identical both ways *)
      && negb (bytes_eqb stored ex_secret) && Nat.ltb (length ex_secret) (length stored)
      && bytes_eqb got ex_secret                                   (* owner: original *)
      && match run_session Stub ex_cfg ex_kr (hb 0x16e) db [(ex_select, [])] with
         | Ok (_, [(_, [[Some _; Some got2]])]) => bytes_eqb got2 stored   (* no keys: stored form *)
         | _ => false
         end
  | _ => false
  end.
Example C04_example_session : ex_check = true.
Proof. vm_compute. reflexivity. Qed.

(** a tuple longer than the column list is forwarded as it is (PostgreSQL rejects it) *)
Example C04_example_long_tuple :
  proxy_write Stub ex_cfg ex_kr (hb 0x161) (Insert (hb 0x174) None [[hb 0x131; ex_secret; hb 0x132]] []) [[]; ex_tape; []]
  = Ok (Insert (hb 0x174) None [[hb 0x131; ex_secret; hb 0x132]] []).
Proof. vm_compute. reflexivity. Qed.

(** a SHORT schema-ordered tuple is protected (the pinned code forwarded it in the clear) *)
Example C04_example_short_tuple :
  match proxy_write Stub [(hb 0x174, [(hb 0x169, CPlain); (hb 0x163, CProt ENVELOPE_ID_ACRABLOCK None); (hb 0x164, CPlain)])]
          ex_kr (hb 0x161) (Insert (hb 0x174) None [[hb 0x131; ex_secret]] []) [[]; ex_tape] with
  | Ok (Insert _ _ [[_; stored]] _) => negb (bytes_eqb stored ex_secret)
  | _ => false
  end = true.
Proof. vm_compute. reflexivity. Qed.
