(** C04, MySQL path — the session model of Model/Proxy.v and the theorems of Properties/C04.v apply to the
    MySQL proxy unchanged (its sessions are replayed on the same model ops, domain c04my); this file adds
    what is specific to MySQL between the statement text and the value the model works on
    (Model/ProxyMysql.v).  Statements only, closed by [exact]. *)
From Acra Require Import Lib.Bytes Lib.Outcome Crypto.Interface Crypto.Stub Gen.Consts Gen.Prec Model.SqlExpr Model.Bytea
  Model.MysqlWire Model.Envelope Model.Proxy Model.ProxyMysql
  Proofs.SqlEscape Proofs.Bytea Proofs.MysqlWire Proofs.Proxy Proofs.ProxyMysql.
Local Open Scope N_scope.

(** ** the MySQL write path IS the model's write path on every statement MySQL executes *)

(** encryptor/mysql.encryptInsertQuery has no tuple-length test; on every INSERT whose tuples are not longer than
    the column list (MySQL rejects all others with error 1136) it forwards exactly what [proxy_write] forwards,
    so every theorem of Properties/C04.v about [proxy_write] / [run_session] holds for the MySQL proxy *)
Theorem C04_mysql_write_path_is_model :
  forall (C : crypto) (cfg : config) (kr : keyring) (conn : bytes) (st : stmt) (tapes : list (list bytes)),
  (forall tbl cols rows ret ccs, st = Insert tbl cols rows ret ->
     insert_columns cfg tbl cols = Some ccs -> rows_fit ccs rows) ->
  proxy_write_my C cfg kr conn st tapes = proxy_write C cfg kr conn st tapes.
Proof. exact proxy_write_my_fit. Qed.
Print Assumptions C04_mysql_write_path_is_model.

(** and on the others (tuples LONGER than the column list, which PostgreSQL's encryptor forwards as they are)
    MySQL's still protects every position position by position: position j of every tuple is forwarded as
    [protect_value] of column j's setting (via C04_forwarded_values_pointwise; positions beyond the column list
    have the setting CPlain) *)
Theorem C04_mysql_every_tuple_protected :
  forall (C : crypto) (kr : keyring) (conn : bytes) (rows : list (list bytes)) (ccs : list colcfg)
         (tapes : list (list bytes)) (out : list (list bytes)),
  protect_rows_my C kr conn ccs tapes rows = Ok out ->
  length out = length rows /\
  forall i, (i < length rows)%nat ->
    let r := nth i rows [] in
    let off := length (concat (firstn i rows)) in
    protect_list C kr conn ccs (firstn (length r) (skipn off tapes)) r = Ok (nth i out []).
Proof. exact protect_rows_my_pointwise. Qed.
Print Assumptions C04_mysql_every_tuple_protected.

(** ** client spelling -> plaintext: every MySQL spelling of the bytes [x] is decoded to [x] by
    Tokenizer + DBDataCoder.Decode (quoted strings: C13_escape_roundtrip covers the tokenizer side) *)
Theorem C04_mysql_literal_spellings_decode :
  forall (x : bytes),
  coder_decode VT_StrVal x = Ok x /\                                          (* '...' / "..." after scanString *)
  coder_decode VT_HexVal (hex_encode x) = Ok x /\                             (* X'6162' *)
  coder_decode VT_HexVal (to_upper (hex_encode x)) = Ok x /\                  (* x'6A6B' *)
  coder_decode VT_HexNum (hexnum_prefix ++ hex_encode x) = Ok x /\            (* 0x6162 *)
  coder_decode VT_HexNum (hexnum_prefix ++ to_upper (hex_encode x)) = Ok x /\ (* 0x6A6B *)
  coder_decode VT_BitVal (bits_of x) = Ok x.                                  (* b'0110...' *)
Proof.
  intros x.
  split; [apply decode_str|]. split; [apply decode_hexval|]. split; [apply decode_hexval_upper|].
  split; [apply decode_hexnum|]. split; [apply decode_hexnum_upper|apply decode_bitval].
Qed.
Print Assumptions C04_mysql_literal_spellings_decode.

(** 0x with an ODD number of digits (MySQL pads with a leading zero; before fix_mysql_literal_spellings the
    decoder failed and the statement went to the database unprotected) *)
Theorem C04_mysql_odd_hexnum_decodes :
  forall (b : byte) (r : bytes), b2n b < 16 ->
  coder_decode VT_HexNum (hexnum_prefix ++ tl (hex_encode (b :: r))) = Ok (b :: r).
Proof. exact decode_hexnum_odd. Qed.
Print Assumptions C04_mysql_odd_hexnum_decodes.

(** a quoted string written with the standard escapes is read back by the tokenizer (from C13) *)
Theorem C04_mysql_quoted_spelling_scans :
  forall (x : bytes), scan_string true [] (escape_body x ++ [x_quote]) = Some (x, []).
Proof. intros x. apply (scan_escape_body x true [] []). exact I. Qed.
Print Assumptions C04_mysql_quoted_spelling_scans.

(** ** protected value -> literal text -> what the server stores: for EVERY replacement data (the container
    produced by [protect_value]), every literal kind the coder handles, and every behaviour of utf8.Valid /
    strconv.Atoi, the literal acra writes is read by a MySQL server as exactly that data *)
Theorem C04_mysql_stored_value_is_container :
  forall (utf8_valid is_atoi : bytes -> bool) (k : N) (data : bytes) (k' : N) (v' : bytes),
  data <> [] ->
  coder_encode utf8_valid is_atoi k data = Ok (k', v') ->
  (k' = VT_StrVal -> starts_with bslash_x data = false) ->
  k' <> VT_IntVal ->
  my_read_literal (format_lit k' v') = Ok data.
Proof. exact stored_value. Qed.
Print Assumptions C04_mysql_stored_value_is_container.

(** the premise about "\x" is needed: sqltypes.encodeBytesSQL writes a leading "\x" verbatim (a PostgreSQL
    hex string), which MySQL reads as "x" — a string literal that starts with backslash-x is CHANGED by
    re-serialisation (known finding mysql-leading-backslash-x, an uncovered column of a rewritten statement) *)
Theorem C04_mysql_backslash_x_string_refuted :
  exists v : bytes, my_read_literal (format_lit VT_StrVal v) <> Ok v.
Proof. exists [x5c; x78; x41]. vm_compute. discriminate. Qed.
Print Assumptions C04_mysql_backslash_x_string_refuted.

(** ** one literal end to end, tied to the session model's [protect_value]: a client literal (k, v) that decodes
    to x, in a column whose setting turns x into c <> x, is rewritten to a literal that the server stores as c —
    the statement-level fact the abstract statement form of Model/Proxy.v starts from *)
Theorem C04_mysql_literal_stored_is_protect_value :
  forall (utf8_valid is_atoi : bytes -> bool) (C : crypto) (kr : keyring) (conn : bytes) (cc : colcfg) (tape : list bytes)
         (k : N) (v x c : bytes),
  coded_kind k = true ->
  coder_decode k v = Ok x ->
  protect_value C kr conn cc tape x = Ok c -> c <> x -> c <> [] ->
  exists k' v',
    update_value utf8_valid is_atoi (protect_value C kr conn cc tape) k v = Ok (k', v') /\
    (k' <> VT_IntVal -> (k' = VT_StrVal -> starts_with bslash_x c = false) ->
     my_read_literal (format_lit k' v') = Ok c).
Proof.
  intros P Q C kr conn cc tape k v x c Hk Hd Hp Hc Hne.
  destruct (coder_encode_total P Q k c Hk) as (k' & v' & He).
  exists k', v'. split.
  - rewrite (update_value_changed P Q _ k v x c Hk Hd Hp Hc). exact He.
  - intros Hi Hs. exact (stored_value P Q k c k' v' Hne He Hs Hi).
Qed.
Print Assumptions C04_mysql_literal_stored_is_protect_value.

(** and a literal of an uncovered column (or an empty value: encryptExpression's updateFunc returns it as it
    is) keeps its text *)
Theorem C04_mysql_uncovered_literal_unchanged :
  forall (utf8_valid is_atoi : bytes -> bool) (C : crypto) (kr : keyring) (conn : bytes) (tape : list bytes)
         (k : N) (v x : bytes),
  coder_decode k v = Ok x ->
  update_value utf8_valid is_atoi (protect_value C kr conn CPlain tape) k v = Ok (k, v).
Proof.
  intros P Q C kr conn tape k v x Hd. apply (update_value_same P Q _ k v x Hd). apply protect_value_plain.
Qed.
Print Assumptions C04_mysql_uncovered_literal_unchanged.

(** ** bound parameters (COM_STMT_EXECUTE) and result cells travel as length-encoded strings: what
    PutLengthEncodedString writes, LengthEncodedString reads (from C12) *)
Theorem C04_mysql_bound_value_roundtrip :
  forall (d rest : bytes), N.of_nat (length d) < 2^63 ->
  lenenc_string (put_lenenc_string (Some d) ++ rest) = Ok (Some d, length (put_lenenc_string (Some d))).
Proof. exact mysql_lenenc_string_roundtrip. Qed.
Print Assumptions C04_mysql_bound_value_roundtrip.

(** ** non-vacuity *)
Definition exm_secret : bytes := hb 0x10a5345435245544d41524b4552.   (* first byte 0x0a *)
Definition exm_kr : keyring := [(hb 0x161, Build_keyset None [] [repeat x07 32] None)].
Definition exm_tape : list bytes := [repeat x01 32; repeat x02 12; repeat x03 12].
Definition exm_cc : colcfg := CProt ENVELOPE_ID_ACRABLOCK None.

(* INSERT INTO t VALUES (1, 0xa5345...) with an ODD number of digits: decoded, protected, written back as 0x<HEX>,
   which the server stores as the container; the container is not the secret *)
Example C04_mysql_example_odd_hexnum :
  match update_value (fun _ => false) (fun _ => false) (protect_value Stub exm_kr (hb 0x161) exm_cc exm_tape)
          VT_HexNum (hexnum_prefix ++ tl (hex_encode exm_secret)) with
  | Ok (k', v') =>
      (k' =? VT_HexNum) &&
      match my_read_literal (format_lit k' v'), protect_value Stub exm_kr (hb 0x161) exm_cc exm_tape exm_secret with
      | Ok stored, Ok c => bytes_eqb stored c && negb (bytes_eqb c exm_secret)
      | _, _ => false
      end
  | _ => false
  end = true.
Proof. vm_compute. reflexivity. Qed.

(* a bit-value literal is protected and written back as X'..' *)
Example C04_mysql_example_bit_literal :
  match update_value (fun _ => false) (fun _ => false) (protect_value Stub exm_kr (hb 0x161) exm_cc exm_tape)
          VT_BitVal (bits_of exm_secret) with
  | Ok (k', v') =>
      (k' =? VT_HexVal) &&
      match my_read_literal (format_lit k' v'), protect_value Stub exm_kr (hb 0x161) exm_cc exm_tape exm_secret with
      | Ok stored, Ok c => bytes_eqb stored c
      | _, _ => false
      end
  | _ => false
  end = true.
Proof. vm_compute. reflexivity. Qed.

(* a long tuple: PostgreSQL's encryptor forwards it untouched, MySQL's protects its configured position *)
Definition exm_cfg : config := [(hb 0x174, [(hb 0x169, CPlain); (hb 0x163, exm_cc)])].
Example C04_mysql_example_long_tuple :
  match proxy_write_my Stub exm_cfg exm_kr (hb 0x161) (Insert (hb 0x174) None [[hb 0x131; exm_secret; hb 0x132]] []) [[]; exm_tape; []],
        proxy_write Stub exm_cfg exm_kr (hb 0x161) (Insert (hb 0x174) None [[hb 0x131; exm_secret; hb 0x132]] []) [[]; exm_tape; []] with
  | Ok (Insert _ _ [[i; stored; e]] _), Ok (Insert _ _ [[_; pg; _]] _) =>
      bytes_eqb i (hb 0x131) && bytes_eqb e (hb 0x132) && negb (bytes_eqb stored exm_secret) && bytes_eqb pg exm_secret
  | _, _ => false
  end = true.
Proof. vm_compute. reflexivity. Qed.

(* the premises of C04_mysql_write_path_is_model are satisfiable with a statement that is rewritten *)
Example C04_mysql_example_fit :
  rows_fit [CPlain; exm_cc] [[hb 0x131; exm_secret]] /\
  proxy_write_my Stub exm_cfg exm_kr (hb 0x161) (Insert (hb 0x174) None [[hb 0x131; exm_secret]] []) [[]; exm_tape]
  <> Ok (Insert (hb 0x174) None [[hb 0x131; exm_secret]] []).
Proof.
  split.
  - intros r [<-|[]]. cbn. lia.
  - vm_compute. discriminate.
Qed.
