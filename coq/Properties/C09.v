(** C09 — Equality search over protected (searchable) columns finds exactly the matching rows.
    Only statements, closed by [exact], their assumptions, and non-vacuity examples.
    HMAC-SHA-256 is NOT assumed injective: exactness is [P \/ explicit collision] where
    [hmac_collision key m1 m2 := m1 <> m2 /\ hmac_sha256 key m1 = hmac_sha256 key m2].
    [C] ranges over every crypto record (no law of [Correct C] is needed for these statements). *)
From Acra Require Import Lib.Bytes Lib.Outcome Lib.Sha256 Crypto.Interface Crypto.Stub Gen.Consts
  Model.Envelope Model.Search Proofs.Search.

(** the stored value starts with the index: function id ++ HMAC(owner key, plaintext); an application-side
    envelope stands for its content ([meaning]) *)
Theorem C09_stored_value_is_index_then_container :
  forall (C : crypto) id ks tape data s,
  searchable_encrypt C id ks tape data = Ok s ->
  exists key p cont, ks_hmac ks = Some key /\ meaning C ks data = Ok p /\ s = blind_index key p ++ cont.
Proof. exact stored_index. Qed.
Print Assumptions C09_stored_value_is_index_then_container.

Theorem C09_index_deterministic :
  forall (C : crypto) id1 id2 ks tape1 tape2 d1 d2 s1 s2 p,
  searchable_encrypt C id1 ks tape1 d1 = Ok s1 ->
  searchable_encrypt C id2 ks tape2 d2 = Ok s2 ->
  meaning C ks d1 = Ok p -> meaning C ks d2 = Ok p ->
  firstn HMAC_HASH_SIZE s1 = firstn HMAC_HASH_SIZE s2.
Proof. exact index_deterministic. Qed.
Print Assumptions C09_index_deterministic.

(** the index written at INSERT and the one put into the WHERE clause use the same key (the HMAC key the acting
    client's keyset resolves to) and the same encoding, so the stored row matches *)
Theorem C09_index_uses_owner_key :
  forall (C : crypto) id ks ks' tape data s v idx p,
  searchable_encrypt C id ks tape data = Ok s ->
  calculate_hmac C ks' v = Ok idx ->
  ks_hmac ks = ks_hmac ks' ->
  meaning C ks data = Ok p -> meaning C ks' v = Ok p ->
  exists key, ks_hmac ks = Some key /\ idx = blind_index key p /\ index_matches s idx = true.
Proof. exact index_uses_owner_key. Qed.
Print Assumptions C09_index_uses_owner_key.

Theorem C09_query_index_spec :
  forall (C : crypto) ks v idx,
  calculate_hmac C ks v = Ok idx <->
  exists key p, ks_hmac ks = Some key /\ meaning C ks v = Ok p /\ idx = blind_index key p.
Proof. exact calculate_hmac_spec. Qed.
Print Assumptions C09_query_index_spec.

Theorem C09_literal_and_placeholder_agree :
  forall (C : crypto) ks schema neg col v rc rc' nb,
  searchable schema col = true ->
  rewrite_cond C ks schema (SCmp neg col (OLit v)) = Ok rc ->
  rewrite_cond C ks schema (SCmp neg col (OParam 0)) = Ok rc' ->
  on_bind C ks schema (SCmp neg col (OParam 0)) [v] = Ok nb ->
  (exists idx, rc = RSub neg col 1 HASHN (OLit idx) /\ rc' = RSub neg col 1 HASHN (OParam 0) /\ nb = [idx])
  /\ forall row, eval_rcond [] row rc = eval_rcond nb row rc'.
Proof. exact literal_and_placeholder_agree. Qed.
Print Assumptions C09_literal_and_placeholder_agree.

(** search_exact, one row: [<-] unconditional ... *)
Theorem C09_search_complete :
  forall key p cont, index_matches (blind_index key p ++ cont) (blind_index key p) = true.
Proof. exact search_complete. Qed.
Print Assumptions C09_search_complete.

(** ... and the equivalence, or an explicit collision between the stored plaintext and the searched value *)
Theorem C09_search_exact :
  forall key p cont v,
  (index_matches (blind_index key p ++ cont) (blind_index key v) = true <-> p = v)
  \/ hmac_collision key p v.
Proof. exact search_exact. Qed.
Print Assumptions C09_search_exact.

Theorem C09_search_exact_neq :
  forall key p cont v,
  (negb (index_matches (blind_index key p ++ cont) (blind_index key v)) = true <-> p <> v)
  \/ hmac_collision key p v.
Proof. exact search_exact_neq. Qed.
Print Assumptions C09_search_exact_neq.

(** any table (list, i.e. multiset with order) of stored rows, any searched value *)
Theorem C09_table_search_exact :
  forall key (rows : list (bytes * bytes)) v,
  select_eq (blind_index key v) (map (stored_of key) rows)
    = map (stored_of key) (filter (fun r => bytes_eqb (fst r) v) rows)
  \/ collision_in key (map fst rows) v.
Proof. exact table_search_exact. Qed.
Print Assumptions C09_table_search_exact.

Theorem C09_table_search_exact_neq :
  forall key (rows : list (bytes * bytes)) v,
  select_neq (blind_index key v) (map (stored_of key) rows)
    = map (stored_of key) (filter (fun r => negb (bytes_eqb (fst r) v)) rows)
  \/ collision_in key (map fst rows) v.
Proof. exact table_search_exact_neq. Qed.
Print Assumptions C09_table_search_exact_neq.

(** the whole round through OnQuery (literal) / OnQuery+OnBind (placeholder) and the storage *)
Theorem C09_query_exact_literal :
  forall (C : crypto) ks key schema col neg v pv rows plains flags,
  searchable schema col = true -> ks_hmac ks = Some key -> meaning C ks v = Ok pv ->
  Forall2 (row_holds key col) rows plains ->
  run_query C ks schema rows (SCmp neg col (OLit v)) [] = Ok flags ->
  flags = map (fun p => xorb neg (bytes_eqb p pv)) plains \/ collision_in key plains pv.
Proof. exact query_exact_literal. Qed.
Print Assumptions C09_query_exact_literal.

Theorem C09_query_exact_placeholder :
  forall (C : crypto) ks key schema col neg v pv rows plains flags,
  searchable schema col = true -> ks_hmac ks = Some key -> meaning C ks v = Ok pv ->
  Forall2 (row_holds key col) rows plains ->
  run_query C ks schema rows (SCmp neg col (OParam 0)) [v] = Ok flags ->
  flags = map (fun p => xorb neg (bytes_eqb p pv)) plains \/ collision_in key plains pv.
Proof. exact query_exact_placeholder. Qed.
Print Assumptions C09_query_exact_placeholder.

(** mismatching_index_not_delivered: translator and column hash processor *)
Theorem C09_translator_delivers_only_matching :
  forall (C : crypto) id ks key data hash dec,
  ks_hmac ks = Some key ->
  tr_decrypt_searchable C id ks data hash = Ok dec ->
  exists hp cd, extract_hash (tr_input data hash) = Some (hp, cd)
    /\ decrypt_with_handler C id ks cd = Ok dec /\ hp = blind_index key dec.
Proof. exact translator_delivers_only_matching. Qed.
Print Assumptions C09_translator_delivers_only_matching.

Theorem C09_mismatching_index_not_delivered_translator :
  forall (C : crypto) id ks key data hash hp cd dec,
  ks_hmac ks = Some key ->
  extract_hash (tr_input data hash) = Some (hp, cd) ->
  decrypt_with_handler C id ks cd = Ok dec -> hp <> blind_index key dec ->
  exists e, tr_decrypt_searchable C id ks data hash = Err e.
Proof. exact mismatching_index_not_delivered_translator. Qed.
Print Assumptions C09_mismatching_index_not_delivered_translator.

Theorem C09_hash_processor_delivers_only_matching :
  forall proc ks key data hp cd dec,
  ks_hmac ks = Some key ->
  extract_hash data = Some (hp, cd) ->
  hash_processor proc ks data = Ok dec ->
  proc cd = Ok dec /\ hp = blind_index key dec.
Proof. exact hash_processor_delivers_only_matching. Qed.
Print Assumptions C09_hash_processor_delivers_only_matching.

Theorem C09_mismatching_index_not_delivered_processor :
  forall proc ks key data hp cd dec,
  ks_hmac ks = Some key ->
  extract_hash data = Some (hp, cd) ->
  proc cd = Ok dec -> hp <> blind_index key dec ->
  exists e, hash_processor proc ks data = Err e.
Proof. exact mismatching_index_not_delivered_processor. Qed.
Print Assumptions C09_mismatching_index_not_delivered_processor.

(** * Non-vacuity: a concrete table written through the insert path with the stand-in crypto *)
Definition w_ks : keyset :=
  Build_keyset None [] [repeat_bytes x01 32] (Some (repeat_bytes x02 32)).
Definition w_tape : list bytes := [repeat_bytes x03 32; repeat_bytes x04 12; repeat_bytes x05 12].
Definition w_alice : bytes := hb 0x1616c696365.
Definition w_ali : bytes := hb 0x1616c69.
Definition w_row (p : bytes) : list bytes :=
  match searchable_encrypt Stub ENVELOPE_ID_ACRABLOCK w_ks w_tape p with Ok s => [s] | _ => [] end.
Definition w_rows : list (list bytes) := Eval vm_compute in [w_row w_alice; w_row w_ali; w_row w_alice].

Example insert_path_succeeds : Forall (fun r => length r = 1) w_rows.
Proof. repeat constructor. Qed.

(** the rows hold an index followed by a container that decrypts to the plaintext, and the premises of
    [query_exact_*] are met: literal, placeholder, [=] and [<>], present value, prefix of a stored value, empty *)
Example query_literal_present :
  run_query Stub w_ks [true] w_rows (SCmp false 0 (OLit w_alice)) [] = Ok [true; false; true].
Proof. vm_compute. reflexivity. Qed.
Example query_placeholder_present :
  run_query Stub w_ks [true] w_rows (SCmp false 0 (OParam 0)) [w_alice] = Ok [true; false; true].
Proof. vm_compute. reflexivity. Qed.
Example query_prefix_neq :
  run_query Stub w_ks [true] w_rows (SCmp true 0 (OLit w_ali)) [] = Ok [true; false; true].
Proof. vm_compute. reflexivity. Qed.
Example query_empty :
  run_query Stub w_ks [true] w_rows (SCmp false 0 (OLit [])) [] = Ok [false; false; false].
Proof. vm_compute. reflexivity. Qed.
Example query_reused_placeholder :
  run_query Stub w_ks [true] w_rows (SOr (SCmp false 0 (OParam 0)) (SCmp false 0 (OParam 0))) [w_ali]
  = Ok [false; true; false].
Proof. vm_compute. reflexivity. Qed.
Example reverify_honest_and_tampered :
  column_hash_processor Stub w_ks (nth 0 (nth 0 w_rows []) []) = Ok w_alice /\
  (exists e, column_hash_processor Stub w_ks
     (blind_index (repeat_bytes x02 32) w_ali ++ skipn HMAC_HASH_SIZE (nth 0 (nth 0 w_rows []) [])) = Err e).
Proof. split; [vm_compute; reflexivity | eexists; vm_compute; reflexivity]. Qed.

(** * Known finding (class literal-on-left): a comparison written  'value' = column  is not selected by
    FilterSearchableComparisons, reaches the database as written, and finds nothing although a row holds
    exactly that plaintext.  The property as stated ("on either side of the operator") is refuted for it. *)
Theorem C09_literal_on_left_refuted :
  exists ks rows v plains key,
    ks_hmac ks = Some key /\ Forall2 (row_holds key 0) rows plains /\ In v plains /\
    run_query Stub ks [true] rows (SRev false 0 (OLit v)) [] = Ok (map (fun _ => false) rows).
Proof.
  exists w_ks, w_rows, w_alice, [w_alice; w_ali; w_alice], (repeat_bytes x02 32).
  split; [reflexivity|]. split.
  - repeat constructor; eexists; vm_compute; reflexivity.
  - split; [left; reflexivity | vm_compute; reflexivity].
Qed.
Print Assumptions C09_literal_on_left_refuted.
