(** C18 — Exported keys import to an identical keystore and stay confidential in transit.
    Only statements, closed by [exact].  Models: Model/Backup.v (keystore v1 KeyBackuper.Export /
    Import AS REPAIRED by patches/fix_v1_export_zeroize.diff, over an abstract serialisation
    [ser]/[deser] with [deser (ser l) = Some l]) and Model/Notary.v (v2 bundle: seal + signature).
    The ring-level re-encryption of v2 import (copyKey) and the v1-to-v2 migration are exercised by
    the harness only (partial). *)
From Acra Require Import Lib.Bytes Lib.Outcome Crypto.Interface Crypto.Stub Gen.KsConsts
  Model.Path Model.KeyAtRest Model.Notary Model.Backup Proofs.Notary Proofs.Backup.

(** bundle_sealed (v1): Export emits the fresh access key and ONE seal of the serialised keys under it *)
Theorem C18_bundle_sealed_v1 :
  forall (ser : list bkey -> bytes) (tape : list bytes) (keys : list bkey) (access : bytes) (t : content),
  export_v1 ser tape keys = Ok (access, t) ->
  exists nonce, nth_error tape 0 = Some access /\ nth_error tape 1 = Some nonce /\
                t = Sealed access [] nonce (ser keys).
Proof. exact bundle_sealed. Qed.
Print Assumptions C18_bundle_sealed_v1.

(** bundle_sealed (v2): the rings travel as ONE seal under the access encryption key, export context *)
Theorem C18_bundle_sealed_v2 :
  forall (enc_key nonce ser : bytes) (t : content),
  bundle_term enc_key nonce ser = Some t -> t = Sealed enc_key V2_EXPORT_CTX nonce ser.
Proof. exact bundle_sealed_v2. Qed.
Print Assumptions C18_bundle_sealed_v2.

(** import_export_identity (v1), bundle layer: Import of an untouched bundle with its access key
    processes exactly the exported key list *)
Theorem C18_import_of_export_v1 :
  forall (C : crypto) (ser : list bkey -> bytes) (deser : bytes -> option (list bkey)),
  (forall l, deser (ser l) = Some l) ->
  forall (tm dir : bytes) (tape_e tape_i : list bytes) (keys : list bkey) (access : bytes) (t : content),
  Correct C ->
  export_v1 ser tape_e keys = Ok (access, t) ->
  (forall n, nth_error tape_e 1 = Some n -> length n = NONCE_LEN) ->
  (N.of_nat (length (ser keys)) < MAXMSG)%N ->
  import_v1 C deser tm dir tape_i access (encode C t) = import_keys tm dir tape_i keys.
Proof. exact import_of_export. Qed.
Print Assumptions C18_import_of_export_v1.

(** … key layer: Import writes exactly those keys — names, values, order; private ones sealed under
    the target's master key with the owner context derived from the name *)
Theorem C18_import_keys_exact_v1 :
  forall (tm dir : bytes) (tape : list bytes) (keys : list bkey) (es : list event),
  import_keys tm dir tape keys = Ok es -> Forall2 (imported_as tm dir) keys es.
Proof. exact import_keys_exact. Qed.
Print Assumptions C18_import_keys_exact_v1.

(** … and the target keystore's own read path returns the identical value for every selected
    private/symmetric/HMAC key of every client id *)
Theorem C18_imported_key_readable_v1 :
  forall (C : crypto) (tm : bytes) (k : v1kind) (id content n : bytes),
  Correct C -> private_kind k = true -> tm <> [] -> content <> [] -> length n = NONCE_LEN ->
  (N.of_nat (length content) < MAXMSG)%N ->
  bk_private (sel_key k id content) = true /\ bk_ctx (sel_key k id content) = id /\
  key_decrypt C tm (v1_kctx k id) (encode C (Sealed tm (bk_ctx (sel_key k id content)) n content)) = Some content.
Proof. exact imported_key_readable. Qed.
Print Assumptions C18_imported_key_readable_v1.

(** modified_bundle_rejected_target_unchanged (reduction): for ANY (access', data') presented to
    Import after Export produced (access, data): nothing was modified, or an AEAD forgery is
    exhibited, or Import fails at decryption — before any write (an [Err] carries no events) *)
Theorem C18_modified_bundle_rejected_target_unchanged :
  forall (C : crypto) (deser : bytes -> option (list bkey)) (tm dir : bytes) (tape : list bytes)
         (access data access' data' : bytes),
  (access', data') = (access, data) \/ bundle_forgery C access data \/
  import_v1 C deser tm dir tape access' data' = Err E_DECRYPTION.
Proof. exact modified_bundle_rejected_target_unchanged. Qed.
Print Assumptions C18_modified_bundle_rejected_target_unchanged.

Theorem C18_wrong_access_keys_rejected :
  forall (C : crypto) (deser : bytes -> option (list bkey)) (tm dir : bytes) (tape : list bytes)
         (access data access' : bytes),
  access' <> access ->
  bundle_forgery C access data \/ import_v1 C deser tm dir tape access' data = Err E_DECRYPTION.
Proof. exact wrong_access_keys_rejected. Qed.
Print Assumptions C18_wrong_access_keys_rejected.

(** Import writes only what an opened and decoded bundle contains *)
Theorem C18_import_accepts_only_opened :
  forall (C : crypto) (deser : bytes -> option (list bkey)) (tm dir : bytes) (tape : list bytes) (access data : bytes) (es : list event),
  import_v1 C deser tm dir tape access data = Ok es ->
  exists g keys, cell_decrypt C access [] data = Some g /\ deser g = Some keys /\
                 import_keys tm dir tape keys = Ok es.
Proof. exact import_accepts_only_opened. Qed.
Print Assumptions C18_import_accepts_only_opened.

(** v2 bundle: opening succeeds only with a valid MAC over (export context, ": ", whole payload) under
    the access signature key and a ciphertext that opens under the access encryption key *)
Theorem C18_open_bundle_sound_v2 :
  forall (mac : bytes -> bytes -> bytes) (C : crypto) (algs sigs : list (bytes * bytes)) (enc_key payload enc ser : bytes),
  open_bundle mac C algs sigs enc_key payload enc = Ok ser ->
  (exists oid sg key, In (oid, sg) sigs /\ find_alg algs oid = Some key /\
      sg = mac key (mac_input V2_EXPORT_CTX payload)) /\
  cell_decrypt C enc_key V2_EXPORT_CTX enc = Some ser.
Proof. exact open_bundle_sound. Qed.
Print Assumptions C18_open_bundle_sound_v2.

Theorem C18_bundle_round_trip_v2 :
  forall (mac : bytes -> bytes -> bytes) (C : crypto) (oid sign_key enc_key nonce ser payload : bytes),
  Correct C -> enc_key <> [] -> ser <> [] -> length nonce = NONCE_LEN ->
  (N.of_nat (length ser) < MAXMSG)%N ->
  open_bundle mac C [(oid, sign_key)] (sign_data mac [(oid, sign_key)] payload V2_EXPORT_CTX) enc_key payload
              (seal_enc C enc_key V2_EXPORT_CTX nonce ser) = Ok ser.
Proof. exact bundle_round_trip. Qed.
Print Assumptions C18_bundle_round_trip_v2.

(** KNOWN FINDING v2-export-all-omits-private: whole-store export of a v2 keystore in mode
    ExportAllKeys strips every private and symmetric key (bit test against ExportPrivateKeys) *)
Theorem C18_v2_export_all_omits_private_refuted :
  exists mode, mode = EXPORT_ALL_KEYS /\ v2_exports_private mode = false.
Proof. exact v2_export_all_omits_private_refuted. Qed.
Print Assumptions C18_v2_export_all_omits_private_refuted.

(** non-vacuity *)
Example C18_export_import_example :
  let keys := [sel_key KHmac [x63; x6c; x69; x65; x6e; x74] (repeat_bytes x41 32)] in
  let ser := fun _ : list bkey => [x01; x02; x03] in
  match export_v1 ser [repeat_bytes x05 32; repeat_bytes x06 12] keys with
  | Ok (a, t) => import_v1 Stub (fun _ => Some keys) (repeat_bytes x07 32) [x2f; x6b] [repeat_bytes x08 12] a (encode Stub t)
                 = Ok [(SFile ([x2f; x6b; x2f; x63; x6c; x69; x65; x6e; x74] ++ SUFFIX_HMAC),
                        Sealed (repeat_bytes x07 32) [x63; x6c; x69; x65; x6e; x74] (repeat_bytes x08 12) (repeat_bytes x41 32))]
  | _ => False
  end.
Proof. exact export_import_stub_example. Qed.
Example C18_private_mode_example : v2_exports_private EXPORT_PRIVATE_KEYS = true.
Proof. exact v2_export_private_mode_keeps_private. Qed.
